// txdrv: property C08 on the REAL composed code.
//
// "A transaction that is included in a block and fails leaves the consensus state exactly as it
// was before it, except that, once it passed authentication, its signer's declared fee has been
// charged and the signer's nonce advanced by one; a transaction rejected at authentication changes
// nothing at all. Checking a transaction in the mempool or estimating its gas never changes
// committed state."
//
// Drives the real ABCI multiplexer (abci.NewApplicationServer) with all 8 consensus applications
// registered as full/common.go does and the real staking application as transaction
// authentication handler, through InitChain / BeginBlock / DeliverTx / EndBlock / Commit, and
// delivers signed transactions of EVERY method the applications register (enumerated from
// app.Methods()), mostly valid in all respects but one.
//
// Checks (spec predicates evaluated on the real outputs):
//
//  1. around every DeliverTx a FULL key/value snapshot of the working proposal tree (verif hook
//     VerifWorkingState) is taken. If the response code is non-zero, the diff (every key) must be
//     - empty, when an independent evaluation of the pre-execution conditions on the pre-state
//     (envelope decodes, signature over the chain context, method known, nonce equal, balance >=
//     fee + MinTransactBalance; abci/transaction.go processTx, staking/state/gas.go
//     AuthenticateAndPayFees) says the transaction is rejected before/at authentication;
//     - exactly the signer's staking account record with General.Nonce+1 and General.Balance-fee
//     (records decoded and compared field by field) and nothing else, otherwise; the fee must
//     have gone to the in-memory block fee accumulator (hook VerifBlockFeeAccumulator).
//     No registered method is critical (transaction.MethodName.IsCritical: no body type implements
//     MethodMetadataProvider outside tests); if one were, authentication is skipped for it and the
//     allowed diff of a failure is empty.
//  2. every observation is also given to the Lean delivery model (om_deliver: `authenticate` /
//     `deliver` of OasisModel/Handlers/Deliver.lean), which answers ok / DIVERGE.
//  3. CheckTx (New and Recheck) and EstimateGas bursts between blocks and in the middle of a block:
//     working snapshot, committed root and committed height before == after every burst, and the
//     whole history re-executed WITHOUT the bursts gives the same AppHash chain and the same
//     DeliverTx results.
//
// A case is an op list (one op per line, see ops.go); replay = the op list.
package main

import (
	"bytes"
	"context"
	"crypto/sha256"
	"encoding/hex"
	"flag"
	"fmt"
	"os"
	"sort"
	"strconv"
	"strings"
	"time"

	"github.com/cometbft/cometbft/abci/types"

	"verifharness/hlib"

	"github.com/oasisprotocol/oasis-core/go/common/cbor"
	"github.com/oasisprotocol/oasis-core/go/common/crypto/signature"
	"github.com/oasisprotocol/oasis-core/go/common/quantity"
	consensus "github.com/oasisprotocol/oasis-core/go/consensus/api"
	"github.com/oasisprotocol/oasis-core/go/consensus/api/transaction"
	beaconState "github.com/oasisprotocol/oasis-core/go/consensus/cometbft/apps/beacon/state"
	governanceState "github.com/oasisprotocol/oasis-core/go/consensus/cometbft/apps/governance/state"
	registryState "github.com/oasisprotocol/oasis-core/go/consensus/cometbft/apps/registry/state"
	roothashState "github.com/oasisprotocol/oasis-core/go/consensus/cometbft/apps/roothash/state"
	stakingState "github.com/oasisprotocol/oasis-core/go/consensus/cometbft/apps/staking/state"
	vaultState "github.com/oasisprotocol/oasis-core/go/consensus/cometbft/apps/vault/state"
	staking "github.com/oasisprotocol/oasis-core/go/staking/api"
	"github.com/oasisprotocol/oasis-core/go/storage/mkvs"
)

var verbose = os.Getenv("VERIF_DEBUG") != ""

// ---- chain: one node executing one history ---------------------------------------------------

type failure struct {
	kind, sig, detail string
	opIdx             int
}

type chain struct {
	w   *world
	r   *replica
	res *hlib.Result // counters only (nil while shrinking)

	height    int64 // height of the block in progress / the next block
	inBlock   bool
	vs        valset
	pendingVs valset
	blockTime time.Time
	snap      map[string][]byte // working snapshot (valid while inBlock)
	feeAcc    uint64            // fee accumulator as read after the previous transaction of this block

	appHashes []string
	digests   []string // one per DeliverTx
	failures  []failure
	model     []string // lines for om_deliver
	modelOp   []int    // op index of each model line
	opIdx     int
	dead      bool
	known     map[transaction.MethodName]bool
	// rec: one entry per `tx` op of the history (what was delivered and how it ended), for the
	// neutral twin; light: no snapshots, no judging (the twin itself)
	rec   []txRec
	light bool
}

// txRec records one delivered transaction for the neutral twin run: a transaction that failed AFTER
// authentication is replaced there by a transaction of the same signer, nonce, fee and gas limit whose
// handler cannot write (a staking transfer to the signer's own address), a transaction rejected
// before/at authentication is left out, a successful one is delivered unchanged. If failed
// transactions change nothing but fee and nonce — also not through the block context consulted by
// EndBlock — both runs commit the same AppHash at every height.
type txRec struct {
	class  string // ok | rejected | failed | skipped
	raw    []byte
	signer int
	nonce  uint64
	fee    uint64
	gas    transaction.Gas
	noFee  bool // the transaction carried no fee structure at all
}

func (c *chain) count(k string) {
	if c.res != nil {
		c.res.Count(k)
	}
}

func (c *chain) fail(kind, sig, detail string) {
	c.failures = append(c.failures, failure{kind, sig, detail, c.opIdx})
}

func useWorld(w *world) {
	signature.UnsafeResetChainContext()
	signature.SetChainContext(w.chainCtx)
}

func newChain(w *world, dir string, res *hlib.Result) (*chain, error) {
	useWorld(w)
	r, err := w.openReplica(dir)
	if err != nil {
		return nil, err
	}
	c := &chain{w: w, r: r, res: res, height: w.doc.Height, blockTime: w.genesisT, known: map[transaction.MethodName]bool{}}
	for _, ms := range r.methods {
		for _, m := range ms {
			c.known[m] = true
		}
	}
	var ic types.ResponseInitChain
	if p := guard(func() {
		ic = r.mux.InitChain(types.RequestInitChain{Time: w.genesisT, ChainId: w.doc.ChainID, AppStateBytes: w.docJSON, InitialHeight: w.doc.Height})
	}); p != "" {
		r.close()
		return nil, fmt.Errorf("InitChain panicked: %s", p)
	}
	_ = ic
	if c.vs, err = w.genesisValset(); err != nil {
		r.close()
		return nil, err
	}
	c.pendingVs = c.vs.clone()
	return c, nil
}

func (c *chain) close() { c.r.close() }

// snapshot reads every key/value pair of the working proposal tree.
func (c *chain) snapshot() map[string][]byte {
	ks, vs, err := c.r.srv.VerifWorkingState()
	if err != nil {
		c.fail("harness", "harness-snapshot", err.Error())
		return map[string][]byte{}
	}
	m := make(map[string][]byte, len(ks))
	for i := range ks {
		m[string(ks[i])] = vs[i]
	}
	return m
}

type kdiff struct {
	key           string
	before, after []byte // nil = absent
}

func diffSnap(a, b map[string][]byte) []kdiff {
	var out []kdiff
	for k, v := range a {
		if v2, ok := b[k]; !ok {
			out = append(out, kdiff{k, v, nil})
		} else if !bytes.Equal(v, v2) {
			out = append(out, kdiff{k, v, v2})
		}
	}
	for k, v := range b {
		if _, ok := a[k]; !ok {
			out = append(out, kdiff{k, nil, v})
		}
	}
	sort.Slice(out, func(i, j int) bool { return out[i].key < out[j].key })
	return out
}

func (d kdiff) String() string {
	what := "changed"
	if d.before == nil {
		what = "added"
	} else if d.after == nil {
		what = "removed"
	}
	k := hex.EncodeToString([]byte(d.key))
	if len(k) > 60 {
		k = k[:60] + ".."
	}
	return fmt.Sprintf("key %s %s", k, what)
}

func (c *chain) feeAccumulator() uint64 {
	bc := c.r.srv.State().BlockContext()
	if bc == nil {
		return 0
	}
	qv := stakingState.VerifBlockFeeAccumulator(bc)
	return qv.ToBigInt().Uint64()
}

// blockPanic: a panic out of BeginBlock / EndBlock / Commit ends the case. It is not a failed
// transaction (property C10 owns "no block content halts block execution"): counted and sampled.
func (c *chain) blockPanic(phase, p string) {
	c.dead = true
	short := p
	if len(short) > 90 {
		short = short[:90]
	}
	c.count("block-panic:" + phase + ":" + strings.ReplaceAll(short, " ", "_"))
	if os.Getenv("VERIF_TXDRV_BLOCKPANIC_FAIL") != "" { // investigation aid: shrink a history that halts block execution
		c.fail("panic", "c10-block-panic:"+phase, p)
	}
	if c.res != nil {
		c.res.AddSample(map[string]any{"block-panic": phase, "height": c.height, "panic": p, "case": currentCase, "op": c.opIdx})
		blockPanics = append(blockPanics, fmt.Sprintf("%s op=%d height=%d %s: %s", currentCase, c.opIdx, c.height, phase, p))
	}
	if verbose {
		fmt.Fprintf(os.Stderr, "BLOCK PANIC %s at height %d: %s\n", phase, c.height, p)
	}
}

func (c *chain) begin() {
	if c.inBlock || c.dead {
		return
	}
	c.blockTime = c.blockTime.Add(2 * time.Second)
	var lc types.CommitInfo
	if c.height > c.w.doc.Height {
		lc = commitInfo(c.vs)
	}
	prop := int(c.height) % numValidators
	p := guard(func() {
		c.r.srv.VerifResetProposal()
		c.r.mux.BeginBlock(types.RequestBeginBlock{Hash: nil, Header: c.w.header(c.height, c.blockTime, prop), LastCommitInfo: lc})
	})
	if p != "" {
		c.blockPanic("BeginBlock", p)
		return
	}
	c.inBlock = true
	if c.light {
		return
	}
	c.snap = c.snapshot()
	c.feeAcc = c.feeAccumulator()
	c.count("blocks")
}

func (c *chain) end() {
	if !c.inBlock || c.dead {
		return
	}
	var re types.ResponseEndBlock
	var rc types.ResponseCommit
	p := guard(func() {
		re = c.r.mux.EndBlock(types.RequestEndBlock{Height: c.height})
		rc = c.r.mux.Commit()
	})
	if p != "" {
		c.blockPanic("EndBlock/Commit", p)
		return
	}
	c.inBlock = false
	c.snap = nil
	if !c.light {
		c.ledgerCheck()
	}
	c.appHashes = append(c.appHashes, hex.EncodeToString(rc.Data))
	c.vs = c.pendingVs.clone()
	c.pendingVs.apply(re.ValidatorUpdates)
	c.height++
}

// ledgerCheck evaluates the token ledger identities on the state just committed (C05): general +
// active escrow + debonding escrow balances of all accounts + common pool + governance deposits +
// last block fees = total supply, and for every account the shares of the (debonding) delegations
// to it add up to its pool's total shares, an empty pool having no balance.
func (c *chain) ledgerCheck() {
	ctx := context.Background()
	t := openCommitted(c.r)
	if t == nil {
		return
	}
	defer t.Close()
	st := stakingState.NewImmutableState(t)
	total, err := st.TotalSupply(ctx)
	if err != nil {
		return
	}
	addrs, _ := st.Addresses(ctx)
	dels, _ := st.Delegations(ctx)
	debs, _ := st.DebondingDelegations(ctx)
	var sum quantity.Quantity
	for _, a := range addrs {
		acct, err := st.Account(ctx, a)
		if err != nil {
			continue
		}
		_ = sum.Add(&acct.General.Balance)
		_ = sum.Add(&acct.Escrow.Active.Balance)
		_ = sum.Add(&acct.Escrow.Debonding.Balance)
		if err = staking.SanityCheckAccountShares(a, acct, dels[a], debs[a]); err != nil {
			c.fail("ledger", "c05-share-bookkeeping-broken", fmt.Sprintf("height %d: %v", c.height, err))
			return
		}
	}
	// delegations towards an address that has no account record any more
	for e := range dels {
		if acct, err := st.Account(ctx, e); err == nil {
			if err = staking.SanityCheckAccountShares(e, acct, dels[e], debs[e]); err != nil {
				c.fail("ledger", "c05-share-bookkeeping-broken", fmt.Sprintf("height %d: %v", c.height, err))
				return
			}
		}
	}
	for _, f := range []func(context.Context) (*quantity.Quantity, error){st.CommonPool, st.GovernanceDeposits, st.LastBlockFees} {
		if q, err := f(ctx); err == nil {
			_ = sum.Add(q)
		}
	}
	c.count("ledger-checked")
	if sum.Cmp(total) != 0 {
		c.fail("ledger", "c05-supply-identity-broken", fmt.Sprintf("height %d: balances, pools and fees add up to %s, total supply is %s", c.height, &sum, total))
	}
}

// tree returns the state the next transaction is built against: the working tree of the block in
// progress.
func (c *chain) tree() mkvs.ImmutableKeyValueTree {
	c.begin()
	return c.r.srv.VerifWorkingTree()
}

// ---- independent evaluation of the pre-execution conditions ----------------------------------

type verdict struct {
	decodes  bool   // envelope decodes, signature verifies, sanity check passes, method routable
	why      string // first reason for rejection ("" = authenticated)
	signer   signature.PublicKey
	addr     staking.Address
	method   transaction.MethodName
	txNonce  uint64
	fee      uint64
	feeBig   bool // fee does not fit 64 bits
	preAcct  staking.Account
	hasAcct  bool
	critical bool
}

func accountKey(addr staking.Address) string {
	return string(append([]byte{0x50}, addr[:]...))
}

// judge decides, from the raw bytes and the pre-state snapshot alone, whether the transaction
// passes decoding and authentication (it never calls the multiplexer or the staking handler).
func (c *chain) judge(raw []byte, pre map[string][]byte, maxTxSize, minTransact uint64) verdict {
	var v verdict
	if maxTxSize > 0 && uint64(len(raw)) > maxTxSize {
		v.why = "oversized"
		return v
	}
	var sigTx transaction.SignedTransaction
	if err := cbor.Unmarshal(raw, &sigTx); err != nil {
		v.why = "envelope-cbor"
		return v
	}
	var tx transaction.Transaction
	if err := sigTx.Open(&tx); err != nil {
		v.why = "signature"
		return v
	}
	if err := tx.SanityCheck(); err != nil {
		v.why = "sanity"
		return v
	}
	v.signer = sigTx.Signature.PublicKey
	v.addr = staking.NewAddress(v.signer)
	v.method = tx.Method
	v.txNonce = tx.Nonce
	if tx.Fee != nil {
		b := tx.Fee.Amount.ToBigInt()
		if !b.IsUint64() {
			v.feeBig = true
		} else {
			v.fee = b.Uint64()
		}
	}
	if raw, ok := pre[accountKey(v.addr)]; ok {
		if err := cbor.Unmarshal(raw, &v.preAcct); err != nil {
			v.why = "harness-account-decode"
			return v
		}
		v.hasAcct = true
	}
	if _, isSys := consensus.SystemMethods[tx.Method]; isSys {
		v.why = "system-method"
		return v
	}
	if !c.known[tx.Method] {
		v.why = "unknown-method"
		return v
	}
	v.decodes = true
	if tx.Method.IsCritical() {
		v.critical = true
		v.why = "critical-skips-authentication"
		return v
	}
	if v.addr.IsReserved() {
		v.why = "reserved-address"
		return v
	}
	if v.preAcct.General.Nonce != tx.Nonce {
		v.why = "nonce"
		return v
	}
	bal := v.preAcct.General.Balance.ToBigInt()
	if v.feeBig || !bal.IsUint64() || bal.Uint64() < v.fee+minTransact {
		v.why = "balance"
		return v
	}
	return v
}

// ---- DeliverTx with the C08 checks -----------------------------------------------------------

func eventsDigest(evs []types.Event) string {
	h := sha256.New()
	for _, e := range evs {
		fmt.Fprintf(h, "%s{", e.Type)
		for _, a := range e.Attributes {
			fmt.Fprintf(h, "%s=%s;", a.Key, a.Value)
		}
		fmt.Fprint(h, "}")
	}
	return hex.EncodeToString(h.Sum(nil)[:6])
}

func errClass(r *types.ResponseDeliverTx) string {
	if r.Code == 0 {
		return "ok"
	}
	k := fmt.Sprintf("%s/%d", r.Codespace, r.Code)
	if r.Codespace == "unknown" || r.Codespace == "" {
		l := r.Log
		if i := strings.IndexAny(l, ":("); i > 0 {
			l = l[:i]
		}
		if len(l) > 40 {
			l = l[:40]
		}
		k += ":" + strings.ReplaceAll(strings.TrimSpace(l), " ", "_")
	}
	return k
}

func qU64(x *quantity.Quantity) uint64 {
	b := x.ToBigInt()
	if !b.IsUint64() {
		return ^uint64(0)
	}
	return b.Uint64()
}

// deliver executes one raw transaction in the block in progress and checks property C08 on it.
// label is the method (and variant) the generator intended, used in signatures of transactions
// that do not decode.
func (c *chain) deliver(raw []byte, label string) *types.ResponseDeliverTx {
	c.begin()
	if c.dead {
		return nil
	}
	pre := c.snap
	preFee := c.feeAcc
	params := c.r.srv.State().ConsensusParameters()
	minTransact := uint64(minTransactBalance)
	if sp, err := stakingState.NewImmutableState(c.r.srv.VerifWorkingTree()).ConsensusParameters(context.Background()); err == nil {
		minTransact = qU64(&sp.MinTransactBalance)
	}
	v := c.judge(raw, pre, params.MaxTxSize, minTransact)
	if v.why == "harness-account-decode" {
		c.fail("harness", "harness-account-decode", "signer account record does not decode")
	}
	method := label
	if v.method != "" && c.known[v.method] {
		method = string(v.method)
	}

	var resp types.ResponseDeliverTx
	if p := guard(func() { resp = c.r.mux.DeliverTx(types.RequestDeliverTx{Tx: raw}) }); p != "" {
		c.dead = true
		c.fail("panic", "c08-delivertx-panic:"+method, "DeliverTx panicked: "+p)
		return nil
	}
	post := c.snapshot()
	postFee := c.feeAccumulator()
	c.snap, c.feeAcc = post, postFee
	d := diffSnap(pre, post)
	c.digests = append(c.digests, fmt.Sprintf("%d/%s/%d/%d/%s", resp.Code, resp.Codespace, resp.GasWanted, resp.GasUsed, eventsDigest(resp.Events)))
	if verbose {
		fmt.Fprintf(os.Stderr, "  deliver %-40s judge=%-14s code=%s/%d gas=%d diff=%d log=%q\n", label, v.why, resp.Codespace, resp.Code, resp.GasUsed, len(d), resp.Log)
	}

	// counters
	cls := "ok"
	if resp.Code != 0 {
		cls = "failed-after-auth"
		if v.why != "" {
			cls = "failed-rejected"
		}
	}
	c.count("m:" + method + ":" + cls)
	if resp.Code != 0 {
		c.count("err:" + method + ":" + errClass(&resp))
		if len(resp.Events) > 0 {
			c.count("failed-tx:events-emitted")
			if v.why != "" {
				c.count("failed-tx:events-emitted:rejected-at-authentication")
			}
		} else {
			c.count("failed-tx:no-events")
		}
	}

	// post-state view of the signer's account
	var postAcct staking.Account
	if rawA, ok := post[accountKey(v.addr)]; ok && v.method != "" {
		_ = cbor.Unmarshal(rawA, &postAcct)
	}
	others := 0
	for _, e := range d {
		if v.method == "" || e.key != accountKey(v.addr) {
			others++
		}
	}

	// (1) failed transaction: the full diff
	if resp.Code != 0 {
		switch {
		case v.why != "":
			// rejected before or at authentication: nothing at all may change
			if len(d) > 0 {
				c.fail("spec", "c08-rejected-tx-changed-state:"+method+":"+v.why,
					fmt.Sprintf("%s transaction rejected before execution (%s; response %s: %s) changed %d state keys, first: %s", method, v.why, errClass(&resp), resp.Log, len(d), d[0]))
			} else if postFee != preFee {
				c.fail("spec", "c08-rejected-tx-charged-fee:"+method+":"+v.why,
					fmt.Sprintf("%s transaction rejected before execution (%s) moved the block fee accumulator from %d to %d", method, v.why, preFee, postFee))
			} else {
				c.count("c08:rejected-unchanged")
			}
		default:
			// authenticated: exactly the signer's account, nonce+1, balance-fee
			want := v.preAcct
			want.General.Nonce++
			wb := want.General.Balance.Clone()
			_ = wb.Sub(quantity.NewFromUint64(v.fee))
			want.General.Balance = *wb
			switch {
			case others > 0:
				first := ""
				for _, e := range d {
					if e.key != accountKey(v.addr) {
						first = e.String()
						break
					}
				}
				c.fail("spec", "c08-failed-tx-changed-state:"+method+":other-keys",
					fmt.Sprintf("failed %s transaction (%s: %s) changed %d state keys besides the signer's account, first: %s", method, errClass(&resp), resp.Log, others, first))
			case len(d) == 0 && postFee == preFee && strings.HasPrefix(resp.Log, "mux: unknown method"):
				// a togglable application (vault) that is disabled by its consensus parameters:
				// the multiplexer treats its methods as unknown, before authentication
				c.count("c08:rejected-unchanged:application-disabled")
			case len(d) == 0:
				c.fail("spec", "c08-failed-tx-not-charged:"+method,
					fmt.Sprintf("failed %s transaction (%s: %s) passed the authentication conditions on the pre-state (nonce %d, balance %s, fee %d) but the signer's account is unchanged", method, errClass(&resp), resp.Log, v.txNonce, v.preAcct.General.Balance.String(), v.fee))
			case postAcct.General.Nonce != want.General.Nonce:
				c.fail("spec", "c08-failed-tx-changed-state:"+method+":nonce",
					fmt.Sprintf("failed %s transaction: signer nonce %d -> %d, expected %d", method, v.preAcct.General.Nonce, postAcct.General.Nonce, want.General.Nonce))
			case postAcct.General.Balance.Cmp(&want.General.Balance) != 0:
				c.fail("spec", "c08-failed-tx-changed-state:"+method+":balance",
					fmt.Sprintf("failed %s transaction: signer balance %s -> %s, expected %s (fee %d)", method, v.preAcct.General.Balance.String(), postAcct.General.Balance.String(), want.General.Balance.String(), v.fee))
			case !bytes.Equal(cbor.Marshal(&want), cbor.Marshal(&postAcct)):
				c.fail("spec", "c08-failed-tx-changed-state:"+method+":account-other-fields",
					fmt.Sprintf("failed %s transaction changed the signer's account beyond general nonce and balance (escrow, allowances, ...)", method))
			case postFee != preFee+v.fee:
				c.fail("spec", "c08-fee-accumulator:"+method,
					fmt.Sprintf("failed %s transaction: block fee accumulator %d -> %d, expected +%d", method, preFee, postFee, v.fee))
			default:
				c.count("c08:failed-fee-and-nonce-only")
			}
		}
	} else {
		if v.why != "" && !v.critical {
			c.fail("spec", "c08-unauthenticated-tx-executed:"+method+":"+v.why,
				fmt.Sprintf("%s transaction succeeded although the pre-execution conditions evaluated on the pre-state reject it (%s)", method, v.why))
		} else if postFee != preFee+v.fee {
			c.fail("spec", "c08-fee-accumulator:"+method,
				fmt.Sprintf("successful %s transaction: block fee accumulator %d -> %d, expected +%d", method, preFee, postFee, v.fee))
		}
	}

	// (2) the Lean delivery model
	dec := 0
	if v.decodes {
		dec = 1
	}
	outcome := "fail"
	if resp.Code == 0 {
		outcome = "ok"
	}
	if !v.critical {
		c.model = append(c.model, fmt.Sprintf("tx %d %d %d %d %d %d %d %s %d %d %d %d",
			v.preAcct.General.Nonce, qU64(&v.preAcct.General.Balance), preFee, v.txNonce, v.fee, minTransact, dec, outcome,
			postAcct.General.Nonce, qU64(&postAcct.General.Balance), postFee, others))
		c.modelOp = append(c.modelOp, c.opIdx)
	}
	return &resp
}

// deliverPlain delivers raw bytes without judging (the neutral twin).
func (c *chain) deliverPlain(raw []byte) *types.ResponseDeliverTx {
	c.begin()
	if c.dead {
		return nil
	}
	var resp types.ResponseDeliverTx
	if p := guard(func() { resp = c.r.mux.DeliverTx(types.RequestDeliverTx{Tx: raw}) }); p != "" {
		c.dead = true
		c.fail("panic", "c08-delivertx-panic:neutral-twin", "DeliverTx panicked in the neutral twin: "+p)
		return nil
	}
	return &resp
}

// neutralTx: a staking transfer of the minimum transfer amount from the signer to itself (the
// handler only compares the balance, go/consensus/cometbft/apps/staking/transactions.go transferImpl).
func (c *chain) neutralTx(rc txRec) []byte {
	self := c.w.addrOf(rc.signer)
	fee := &transaction.Fee{Amount: q(rc.fee), Gas: rc.gas}
	if rc.noFee {
		fee = nil
	}
	tx := transaction.NewTransaction(rc.nonce, fee, staking.MethodTransfer, &staking.Transfer{To: self, Amount: q(10)})
	sig, err := transaction.Sign(c.w.signers[rc.signer], tx)
	if err != nil {
		return nil
	}
	return cbor.Marshal(sig)
}

// ---- CheckTx / EstimateGas bursts ------------------------------------------------------------

func dumpDigest(t mkvs.Tree) string {
	h := sha256.New()
	it := t.NewIterator(context.Background())
	defer it.Close()
	n := 0
	for it.Rewind(); it.Valid(); it.Next() {
		fmt.Fprintf(h, "%d:%x=%d:%x;", len(it.Key()), it.Key(), len(it.Value()), it.Value())
		n++
	}
	return fmt.Sprintf("%d:%x", n, h.Sum(nil)[:8])
}

type committedView struct {
	height int64
	root   string
	dump   string
}

func (c *chain) committed(full bool) committedView {
	st := c.r.srv.State()
	cv := committedView{height: st.LastHeight(), root: hex.EncodeToString(st.StateRootHash())}
	if full {
		if t := openCommitted(c.r); t != nil {
			cv.dump = dumpDigest(t)
			t.Close()
		}
	}
	return cv
}

// burst fires n CheckTx / EstimateGas calls with freshly built transactions of all kinds and
// requires committed state and the working state of the block in progress to be untouched.
func (c *chain) burst(seed uint64, n int, midBlock bool) {
	if c.dead {
		return
	}
	if midBlock {
		c.begin()
	}
	rng := hlib.FromState(seed)
	full := rng.Chance(1, 3)
	before := c.committed(full)
	var snapBefore map[string][]byte
	if c.inBlock {
		snapBefore = c.snapshot()
		if d := diffSnap(c.snap, snapBefore); len(d) > 0 {
			c.fail("harness", "harness-snapshot-unstable", "two snapshots without an intervening call differ: "+d[0].String())
		}
	}
	feeBefore := c.feeAcc
	if c.inBlock {
		feeBefore = c.feeAccumulator()
	}
	g := &builder{c: c}
	if !c.inBlock {
		ct := openCommitted(c.r)
		if ct == nil {
			c.count("burst:skipped-nothing-committed")
			return
		}
		defer ct.Close()
		g.fixed = ct
	}
	for i := 0; i < n && !c.dead; i++ {
		op := genTxOp(rng, c.w, true)
		built := g.build(op)
		if built == nil {
			continue
		}
		kind := rng.Intn(3)
		var p string
		switch kind {
		case 0, 1:
			t := types.CheckTxType_New
			name := "checktx-new"
			if kind == 1 {
				t = types.CheckTxType_Recheck
				name = "checktx-recheck"
			}
			var rc types.ResponseCheckTx
			p = guard(func() { rc = c.r.mux.CheckTx(types.RequestCheckTx{Tx: built.raw, Type: t}) })
			c.count("burst:" + name)
			if p == "" {
				if rc.Code == 0 {
					c.count("burst:checktx-accepted:" + op.method)
				} else {
					c.count("burst:checktx-rejected")
				}
			}
		default:
			if built.tx == nil {
				continue
			}
			txc := *built.tx
			var gas transaction.Gas
			var err error
			p = guard(func() { gas, err = c.r.srv.EstimateGas(c.w.signers[built.signer].Public(), &txc) })
			c.count("burst:estimategas")
			if p == "" && err == nil && gas > 0 {
				c.count("burst:estimategas-nonzero:" + op.method)
			}
		}
		if p != "" {
			c.fail("panic", "c08-check-panic:"+op.method, fmt.Sprintf("CheckTx/EstimateGas of a %s (%s) transaction panicked: %s", op.method, op.variant, p))
			c.dead = true
			return
		}
	}
	after := c.committed(full)
	if after != before {
		c.fail("spec", "c08-check-changed-committed-state",
			fmt.Sprintf("a burst of %d CheckTx/EstimateGas calls changed committed state: height %d root %s dump %s -> height %d root %s dump %s", n, before.height, before.root, before.dump, after.height, after.root, after.dump))
	}
	if c.inBlock {
		snapAfter := c.snapshot()
		if d := diffSnap(snapBefore, snapAfter); len(d) > 0 {
			c.fail("spec", "c08-check-changed-working-state",
				fmt.Sprintf("a burst of %d CheckTx/EstimateGas calls in the middle of a block changed %d keys of the block's working state, first: %s", n, len(d), d[0]))
		}
		if fa := c.feeAccumulator(); fa != feeBefore {
			c.fail("spec", "c08-check-changed-fee-accumulator", fmt.Sprintf("a burst of CheckTx/EstimateGas calls moved the block fee accumulator %d -> %d", feeBefore, fa))
		}
		c.count("burst:mid-block")
	} else {
		c.count("burst:between-blocks")
	}
	c.count("c08:burst-pure")
}

// progress counts how far the history moved the state (so that the evidence shows that later
// failures happened on a developed state): finalized runtime rounds, committees, proposals, vaults.
func (c *chain) progress() {
	t := openCommitted(c.r)
	if t == nil {
		return
	}
	defer t.Close()
	ctx := context.Background()
	if sts, err := roothashState.NewImmutableState(t).RuntimeStates(ctx); err == nil {
		for _, st := range sts {
			if st.Committee != nil {
				c.count("progress:runtime-with-committee")
			}
			if st.LastBlock != nil {
				c.res.CountN("progress:runtime-rounds-finalized", int(st.LastBlock.Header.Round))
			}
			if m, err := roothashState.NewImmutableState(t).IncomingMessageQueueMeta(ctx, st.Runtime.ID); err == nil && m.Size > 0 {
				c.res.CountN("progress:incoming-messages-queued", int(m.Size))
			}
		}
	}
	if ps, err := governanceState.NewImmutableState(t).Proposals(ctx); err == nil {
		for _, p := range ps {
			c.count("progress:proposal:" + p.State.String())
		}
	}
	if vs, err := vaultState.NewImmutableState(t).Vaults(ctx); err == nil {
		c.res.CountN("progress:vaults", len(vs))
		for _, v := range vs {
			c.res.CountN("progress:vault-actions-executed-or-cancelled", int(v.Nonce))
		}
	}
	if ns, err := registryState.NewImmutableState(t).Nodes(ctx); err == nil {
		c.res.CountN("progress:registered-nodes", len(ns))
	}
	if e, _, err := beaconState.NewImmutableState(t).GetEpoch(ctx); err == nil {
		c.res.CountN("progress:epochs", int(e))
	}
}

// ---- running a history -----------------------------------------------------------------------

type runOut struct {
	failures   []failure
	appHashes  []string
	digests    []string
	harnessErr string
	rec        []txRec
}

// worldOf parses the first line `world variant=<v> backend=<b>`.
func parseWorldLine(l string) (variant, backend string, ok bool) {
	f := strings.Fields(l)
	if len(f) == 0 || f[0] != "world" {
		return "", "", false
	}
	kv := parseKV(f[1:])
	return kv["variant"], kv["backend"], true
}

func parseKV(fs []string) map[string]string {
	m := map[string]string{}
	for _, f := range fs {
		if i := strings.IndexByte(f, '='); i > 0 {
			m[f[:i]] = f[i+1:]
		}
	}
	return m
}

func atoi(s string) int {
	n, _ := strconv.Atoi(s)
	return n
}

func atou(s string) uint64 {
	n, _ := strconv.ParseUint(s, 10, 64)
	return n
}

var worlds = map[string]*world{}

func getWorld(variant, backend string) (*world, error) {
	k := variant + "/" + backend
	if w, ok := worlds[k]; ok {
		return w, nil
	}
	w, err := newWorld(variant, backend)
	if err != nil {
		return nil, err
	}
	worlds[k] = w
	return w, nil
}

var (
	runCounter  int
	currentCase string   // "case <i> seed <s> <world line>" of the case being executed
	blockPanics []string // every block-level panic seen (written to stderr at the end)
)

// run executes the ops (without the world line) on a fresh node.
func run(w *world, base string, ops []string, res *hlib.Result, withBursts, withModel bool) *runOut {
	return runTwin(w, base, ops, res, withBursts, withModel, nil)
}

// runTwin: with twinOf != nil the history is executed as the neutral twin of that recorded run.
func runTwin(w *world, base string, ops []string, res *hlib.Result, withBursts, withModel bool, twinOf []txRec) *runOut {
	out := &runOut{}
	runCounter++
	dir := subdir(base, fmt.Sprintf("run%d", runCounter))
	defer os.RemoveAll(dir)
	c, err := newChain(w, dir, res)
	if err != nil {
		out.harnessErr = err.Error()
		return out
	}
	defer c.close()
	c.light = twinOf != nil
	nrec := 0
	g := &builder{c: c}
	for i, l := range ops {
		if c.dead {
			break
		}
		c.opIdx = i
		f := strings.Fields(l)
		if len(f) == 0 {
			continue
		}
		switch f[0] {
		case "block":
			c.begin()
			c.end()
		case "skip":
			c.end()
			for k := 0; k < atoi(f[1]) && !c.dead; k++ {
				c.begin()
				c.end()
			}
		case "burst":
			if !withBursts {
				continue
			}
			kv := parseKV(f[1:])
			c.burst(atou(kv["x"]), atoi(kv["n"]), kv["mid"] == "1")
		case "tx":
			op := parseTxOp(f[1:])
			c.begin()
			if c.dead {
				break
			}
			if twinOf != nil {
				if nrec >= len(twinOf) {
					c.dead = true
					break
				}
				rc := twinOf[nrec]
				nrec++
				switch rc.class {
				case "ok":
					if resp := c.deliverPlain(rc.raw); resp != nil && resp.Code != 0 {
						c.fail("twin", "twin-ok-tx-failed", fmt.Sprintf("%s succeeded in the run and failed in its neutral twin: %s", op.method, resp.Log))
					}
				case "failed":
					if raw := c.neutralTx(rc); raw != nil {
						c.deliverPlain(raw)
					}
				}
				continue
			}
			built := g.build(op)
			if built == nil {
				c.count("tx-skipped:" + op.method + ":" + op.variant)
				c.rec = append(c.rec, txRec{class: "skipped"})
				continue
			}
			if res != nil {
				res.Ops++
			}
			c.count("variant:" + op.method + ":" + op.variant)
			c.count("gas:" + op.gas)
			c.count("env:" + op.env)
			c.count("fee:" + op.fee)
			c.count("nonce:" + op.nonce)
			if verbose {
				fmt.Fprintf(os.Stderr, "%s\n", op.String())
			}
			rc := txRec{class: "rejected", raw: built.raw, signer: built.signer}
			preNonce, hadAcct := uint64(0), false
			nonceOf := func() (uint64, bool) {
				a, err := stakingState.NewImmutableState(c.r.srv.VerifWorkingTree()).Account(context.Background(), w.addrOf(built.signer))
				if err != nil {
					return 0, false
				}
				return a.General.Nonce, true
			}
			preNonce, hadAcct = nonceOf()
			if resp := c.deliver(built.raw, op.method); resp != nil {
				c.count(fmt.Sprintf("tuple:%s|%s|%s|%s|%s|%s|%s", op.method, op.variant, op.gas, op.fee, op.nonce, op.env, errClass(resp)))
				switch {
				case resp.Code == 0:
					rc.class = "ok"
				case built.tx != nil && hadAcct:
					// failed: after authentication iff the signer's nonce moved
					if n, ok := nonceOf(); ok && n == preNonce+1 && built.tx.Nonce == preNonce {
						rc.class, rc.nonce, rc.noFee = "failed", preNonce, built.tx.Fee == nil
						if built.tx.Fee != nil {
							rc.fee, rc.gas = qU64(&built.tx.Fee.Amount), built.tx.Fee.Gas
						}
					}
				}
			} else {
				rc.class = "skipped"
			}
			c.rec = append(c.rec, rc)
		}
	}
	c.opIdx = len(ops)
	c.end()
	if res != nil && !c.dead {
		c.progress()
	}
	if withModel && len(c.model) > 0 {
		ans, err := hlib.RunModel("deliver", c.model)
		if err != nil {
			c.failures = append(c.failures, failure{"divergence", "c08-model-error", err.Error(), len(ops)})
		} else {
			for i, a := range ans {
				if !strings.HasPrefix(a, "ok") {
					c.failures = append(c.failures, failure{"divergence", "c08-model-divergence", fmt.Sprintf("Lean delivery model on `%s`: %s", c.model[i], a), c.modelOp[i]})
					break
				}
			}
			c.count("model:sessions")
			if res != nil {
				res.CountN("model:lines", len(c.model))
			}
		}
	}
	out.failures, out.appHashes, out.digests, out.rec = c.failures, c.appHashes, c.digests, c.rec
	return out
}

func hasBurst(ops []string) bool {
	for _, l := range ops {
		if strings.HasPrefix(l, "burst") {
			return true
		}
	}
	return false
}

// check runs a case (world line + ops) with all checks incl. the twin run without bursts.
// onlyPanics (-spec c16): keep only the failures that are a crash of the application on
// transaction bytes (CheckTx, DeliverTx, block phases); everything else is C08's business.
var onlyPanics, onlyLedger bool

func check(lines []string, base string, res *hlib.Result) []failure {
	fs := checkAll(lines, base, res)
	if onlyLedger || !onlyPanics {
		var out []failure
		for _, f := range fs {
			if (f.kind == "ledger") == onlyLedger || f.kind == "harness" {
				out = append(out, f)
			}
		}
		return out
	}
	var out []failure
	for _, f := range fs {
		if f.kind == "panic" || f.kind == "harness" {
			f.sig = strings.Replace(strings.Replace(f.sig, "c08-", "c16-", 1), "c10-", "c16-", 1)
			out = append(out, f)
		}
	}
	return out
}

func checkAll(lines []string, base string, res *hlib.Result) []failure {
	variant, backend, ok := parseWorldLine(lines[0])
	if !ok {
		return []failure{{"harness", "harness-bad-case", "first line must be `world variant=.. backend=..`", 0}}
	}
	w, err := getWorld(variant, backend)
	if err != nil {
		return []failure{{"harness", "harness-world", err.Error(), 0}}
	}
	ops := lines[1:]
	a := run(w, base, ops, res, true, true)
	if a.harnessErr != "" {
		return []failure{{"harness", "harness-open", a.harnessErr, 0}}
	}
	fs := a.failures
	nfailed := 0
	for _, rc := range a.rec {
		if rc.class == "failed" {
			nfailed++
		}
	}
	if len(fs) == 0 && nfailed > 0 && variant != "blockgas" {
		// neutral twin: every transaction that failed after authentication replaced by a self-transfer
		// of the same signer/nonce/fee/gas limit, rejected ones left out (see txRec)
		t := runTwin(w, base, ops, nil, false, false, a.rec)
		switch {
		case t.harnessErr != "":
			return []failure{{"harness", "harness-open", t.harnessErr, 0}}
		case len(t.failures) > 0 && t.failures[0].sig == "twin-ok-tx-failed":
			// the two runs diverged: a failed transaction influenced what a later transaction does
			fs = append(fs, failure{"spec", "c08-failed-tx-changed-block-outcome",
				"the history and its neutral twin diverge (a transaction that failed after authentication replaced by a self-transfer of the same signer, nonce, fee and gas limit): " + t.failures[0].detail, len(ops)})
		case len(t.failures) > 0:
			fs = append(fs, failure{"harness", "harness-neutral-twin:" + t.failures[0].sig, t.failures[0].detail, len(ops)})
		case !equalStrs(a.appHashes, t.appHashes):
			i := firstDiff(a.appHashes, t.appHashes)
			fs = append(fs, failure{"spec", "c08-failed-tx-changed-block-outcome",
				fmt.Sprintf("the history and its neutral twin (each of the %d transactions that failed after authentication replaced by a self-transfer of the same signer, nonce, fee and gas limit; rejected ones left out) commit different AppHashes at block %d (%s vs %s): a failed transaction had an effect beyond fee and nonce by the end of its block", nfailed, i+1, at(a.appHashes, i), at(t.appHashes, i)), len(ops)})
		default:
			if res != nil {
				res.Count("c08:neutral-twin-identical")
				res.CountN("c08:neutral-twin-failed-txs-replaced", nfailed)
			}
		}
	}
	if len(fs) == 0 && hasBurst(ops) {
		b := run(w, base, ops, nil, false, false)
		if b.harnessErr != "" {
			return []failure{{"harness", "harness-open", b.harnessErr, 0}}
		}
		if !equalStrs(a.appHashes, b.appHashes) {
			i := firstDiff(a.appHashes, b.appHashes)
			fs = append(fs, failure{"spec", "c08-check-changed-apphash",
				fmt.Sprintf("the history executed with CheckTx/EstimateGas bursts and without them differ in the AppHash of block %d (%s vs %s)", i+1, at(a.appHashes, i), at(b.appHashes, i)), len(ops)})
		} else if !equalStrs(a.digests, b.digests) {
			i := firstDiff(a.digests, b.digests)
			fs = append(fs, failure{"spec", "c08-check-changed-deliver-result",
				fmt.Sprintf("the history executed with CheckTx/EstimateGas bursts and without them differ in the result of DeliverTx #%d (%s vs %s)", i+1, at(a.digests, i), at(b.digests, i)), len(ops)})
		} else if res != nil {
			res.Count("c08:twin-without-bursts-identical")
		}
	}
	return fs
}

func at(l []string, i int) string {
	if i < len(l) {
		return l[i]
	}
	return "<none>"
}

func firstDiff(a, b []string) int {
	for i := 0; i < len(a) || i < len(b); i++ {
		if at(a, i) != at(b, i) {
			return i
		}
	}
	return -1
}

func equalStrs(a, b []string) bool {
	if len(a) != len(b) {
		return false
	}
	for i := range a {
		if a[i] != b[i] {
			return false
		}
	}
	return true
}

// report shrinks and records the first failure of a case.
func report(lines []string, fs []failure, base string, res *hlib.Result, seed uint64, shrink bool) {
	f := fs[0]
	for _, x := range fs { // prefer a spec failure over follow-ups
		if x.kind == "spec" {
			f = x
			break
		}
	}
	min := lines
	if shrink && f.kind != "harness" {
		head := lines[0]
		ops := lines[1:]
		if f.opIdx+1 < len(ops) && !strings.HasPrefix(f.sig, "c08-check-changed-apphash") && !strings.HasPrefix(f.sig, "c08-check-changed-deliver") {
			ops = ops[:f.opIdx+1]
		}
		deadline := time.Now().Add(40 * time.Second)
		small := hlib.Shrink(ops, func(cand []string) bool {
			if time.Now().After(deadline) {
				return false
			}
			for _, x := range check(append([]string{head}, cand...), base, nil) {
				if x.sig == f.sig {
					return true
				}
			}
			return false
		})
		min = append([]string{head}, small...)
		for _, x := range check(min, base, nil) {
			if x.sig == f.sig {
				f.detail = x.detail
				break
			}
		}
	}
	res.Fail(hlib.Failure{Kind: f.kind, Sig: f.sig, Detail: f.detail, Case: min, Seed: seed})
}

func main() {
	seed := flag.Uint64("seed", 1, "seed")
	cases := flag.Int("cases", 12, "number of generated histories")
	blocks := flag.Int("blocks", 24, "blocks per history")
	out := flag.String("out", "-", "result file")
	replay := flag.String("replay", "", "replay file: a case (world line + ops)")
	corpus := flag.String("corpus", "", "corpus dir, run first (files named txdrv-*)")
	variants := flag.String("variants", "insecure,insecure,blockgas,vrf,mock", "world variants to alternate")
	backends := flag.String("backends", "badger,pathbadger", "node database backends to alternate")
	noShrink := flag.Bool("noshrink", false, "do not shrink failures")
	dump := flag.String("dump", "", "write the generated cases to this directory")
	spec := flag.String("spec", "c08", "c08: all clauses but the ledger identities; c16: only crashes on transaction bytes; c05: only the ledger identities after every commit")
	flag.Parse()
	onlyPanics = *spec == "c16"
	onlyLedger = *spec == "c05"

	res := hlib.NewResult("txdrv", *seed)
	res.Rule = "histories of blocks on a real ABCI multiplexer with the 8 real applications and the real staking authentication handler; every transaction is built against the state of the block in progress for one of the registered methods in one of its variants (valid, or invalid in one respect: authority, stake/balance, unknown id, duplicate, stale, malformed body), with an envelope mode (ok, garbage, bad signature, wrong chain context, truncated, unknown method, oversized), a nonce mode (ok, stale, future), a fee mode (ok, none, below minimum gas price, more than the balance, into the minimum transact balance) and a gas limit at one exhaustion point (0, size cost-1, size cost, size+operation cost-1, exact, ample); distinct = distinct (method, variant, gas mode, envelope/nonce/fee mode, response class) tuples delivered"
	base := scratchDir()
	defer os.RemoveAll(base)

	runCase := func(lines []string, cs uint64) {
		res.Cases++
		fs := check(lines, base, res)
		if len(fs) > 0 {
			report(lines, fs, base, res, cs, !*noShrink)
		}
	}

	if *replay != "" {
		lines, err := hlib.ReadLines(*replay)
		if err != nil || len(lines) == 0 {
			fmt.Fprintln(os.Stderr, "replay:", err)
			os.Exit(2)
		}
		res.Cases++
		if fs := check(lines, base, res); len(fs) > 0 {
			report(lines, fs, base, res, 0, false)
		}
		finish(res, *out)
		return
	}
	if *corpus != "" {
		ents, _ := os.ReadDir(*corpus)
		for _, e := range ents {
			if !strings.HasPrefix(e.Name(), "txdrv-") {
				continue
			}
			if lines, err := hlib.ReadLines(*corpus + "/" + e.Name()); err == nil && len(lines) > 1 {
				runCase(lines, 0)
				res.Count("corpus")
			}
		}
	}
	vs := strings.Split(*variants, ",")
	bk := strings.Split(*backends, ",")
	rng := hlib.NewRng(*seed)
	for i := 0; i < *cases; i++ {
		cr := rng.Fork()
		cs := cr.Seed()
		variant := vs[i%len(vs)]
		backend := bk[(i/len(vs)+i)%len(bk)]
		w, err := getWorld(variant, backend)
		if err != nil {
			fmt.Fprintln(os.Stderr, "world:", err)
			os.Exit(2)
		}
		lines := append([]string{fmt.Sprintf("world variant=%s backend=%s", variant, backend)}, genHistory(cr, w, *blocks)...)
		if *dump != "" {
			_ = os.MkdirAll(*dump, 0o755)
			_ = os.WriteFile(fmt.Sprintf("%s/case-%d.txt", *dump, i), []byte(strings.Join(lines, "\n")+"\n"), 0o644)
		}
		res.Count("world:" + variant + "/" + backend)
		currentCase = fmt.Sprintf("case %d seed %d %s", i, cs, lines[0])
		runCase(lines, cs)
		if i < 2 {
			s := lines
			if len(s) > 40 {
				s = s[:40]
			}
			res.AddSample(s)
		}
		if len(res.Failures) >= 4 {
			break
		}
	}
	for _, bp := range blockPanics {
		fmt.Fprintln(os.Stderr, "block-panic:", bp)
	}
	finish(res, *out)
}

// finish derives the per-method summary counters and writes the result.
func finish(res *hlib.Result, out string) {
	w, err := getWorld("insecure", "badger")
	if err == nil {
		dir := scratchDir()
		if r, err := w.openReplica(dir); err == nil {
			var all []string
			for app, ms := range r.methods {
				for _, m := range ms {
					all = append(all, string(m))
					if m.IsCritical() {
						res.Count("method-critical:" + string(m))
					}
				}
				res.CountN("app-methods:"+app, len(ms))
			}
			r.close()
			sort.Strings(all)
			for _, m := range all {
				n := res.Counters["m:"+m+":ok"] + res.Counters["m:"+m+":failed-rejected"] + res.Counters["m:"+m+":failed-after-auth"]
				if n == 0 {
					res.Count("method-not-generated:" + m)
				}
				if res.Counters["m:"+m+":failed-after-auth"] == 0 {
					res.Count("method-never-failed-after-authentication:" + m)
				}
			}
			res.CountN("methods-registered", len(all))
		}
		os.RemoveAll(dir)
	}
	distinct := map[string]bool{}
	for k := range res.Counters {
		if strings.HasPrefix(k, "tuple:") {
			distinct[k] = true
		}
	}
	res.Distinct = len(distinct)
	for k := range distinct {
		delete(res.Counters, k)
	}
	res.Explanation = "m:<method>:{ok,failed-rejected,failed-after-auth}: outcome of delivered transactions per method (failed-rejected = failed and the independent evaluation of the pre-execution conditions rejects it: diff must be empty; failed-after-auth: diff must be the signer's account with nonce+1, balance-fee only); err:<method>:<module>/<code>: which errors were reached; failed-tx:events-emitted: failed transactions whose response carried events (the fee transfer event of authentication; counted, the property text speaks about state); burst:* CheckTx/EstimateGas purity bursts"
	res.Write(out)
}
