// ops.go: the op language of a case and the generator of histories.
//
//	world variant=<insecure|blockgas|vrf|mock> backend=<badger|pathbadger>      (first line)
//	tx <method> v=<variant> s=<signer|-1> a=<arg|-1> x=<seed> g=<gas mode> f=<fee mode> n=<nonce mode> e=<envelope mode>
//	                           s: roster index of the signer, -1 = the variant's natural signer
//	                           a: which runtime / entity / node / account / vault the variant is about, -1 = chosen by the seed
//	block                      end the block in progress (EndBlock, Commit)
//	skip <k>                   end the block in progress and execute k empty blocks
//	burst x=<seed> n=<k> mid=<0|1>   k CheckTx / EstimateGas calls (mid=1: inside the block in progress)
//
// A tx op is resolved against the state of the block in progress when it is executed (nonce,
// balances, epoch, existing vaults / proposals / committees ...), so every sub-list of a case is a
// case again (needed by the shrinker) and a case replays identically.
package main

import (
	"fmt"
	"strings"

	"verifharness/hlib"
)

type txop struct {
	method, variant      string
	signer               int // roster index; -1: the variant's natural signer
	arg                  int // which entity / node / runtime the variant is about; -1: chosen by the seed
	seed                 uint64
	gas, fee, nonce, env string
}

func (o *txop) String() string {
	return fmt.Sprintf("tx %s v=%s s=%d a=%d x=%d g=%s f=%s n=%s e=%s", o.method, o.variant, o.signer, o.arg, o.seed, o.gas, o.fee, o.nonce, o.env)
}

func parseTxOp(fs []string) *txop {
	o := &txop{signer: -1, arg: -1, gas: "ok", fee: "ok", nonce: "ok", env: "ok", variant: "valid"}
	if len(fs) == 0 {
		return o
	}
	o.method = fs[0]
	kv := parseKV(fs[1:])
	if v, ok := kv["v"]; ok {
		o.variant = v
	}
	if v, ok := kv["s"]; ok {
		o.signer = atoi(v)
	}
	if v, ok := kv["a"]; ok {
		o.arg = atoi(v)
	}
	o.seed = atou(kv["x"])
	for k, p := range map[string]*string{"g": &o.gas, "f": &o.fee, "n": &o.nonce, "e": &o.env} {
		if v, ok := kv[k]; ok {
			*p = v
		}
	}
	return o
}

// variants lists, per method, the body variants the generator knows ("valid" first). The same
// table drives the builder (gen.go).
var variants = map[string][]string{
	"staking.Transfer":                {"valid", "valid", "below-min", "too-much", "to-self", "to-vault", "to-next-vault", "cbor"},
	"staking.Burn":                    {"valid", "too-much", "zero", "cbor"},
	"staking.AddEscrow":               {"valid", "valid", "below-min", "too-much", "to-account", "to-next-vault", "cbor"},
	"staking.ReclaimEscrow":           {"valid", "too-many-shares", "no-delegation", "zero", "cbor"},
	"staking.AmendCommissionSchedule": {"valid", "past-start", "too-many-steps", "rate-over-100", "empty", "cbor"},
	"staking.Allow":                   {"valid", "valid", "to-self", "many", "negative-underflow", "zero", "cbor"},
	"staking.Withdraw":                {"valid", "no-allowance", "over-allowance", "over-balance", "from-self", "below-min", "vault-ok", "vault-over-balance", "vault-over-limit", "vault-no-policy", "cbor"},

	"registry.RegisterEntity":   {"valid-update", "valid-new", "wrong-signer", "bad-signature", "no-stake", "foreign-nodes", "cbor"},
	"registry.DeregisterEntity": {"has-nodes", "spare", "not-registered", "cbor"},
	"registry.RegisterNode":     {"valid-compute", "valid-compute", "valid-renew", "expired", "wrong-signer", "missing-signature", "role-change", "no-stake", "unknown-runtime", "far-expiration", "bad-signature", "stale-descriptor", "other-entity", "cbor"},
	"registry.UnfreezeNode":     {"not-frozen", "unknown-node", "wrong-signer", "cbor"},
	"registry.RegisterRuntime":  {"valid-new", "valid-new", "valid-update", "wrong-signer", "bad-params", "no-stake", "consensus-governance", "unknown-km", "kind-mismatch", "cbor"},
	"registry.ProveFreshness":   {"valid", "by-account", "cbor"},

	"governance.SubmitProposal": {"change-roothash-shrink", "upgrade-valid", "upgrade-too-soon", "upgrade-conflict", "cancel-unknown", "cancel-valid",
		"change-staking", "change-registry", "change-roothash", "change-scheduler", "change-governance", "change-vault",
		"change-staking-invalid", "change-registry-invalid", "change-roothash-invalid", "change-scheduler-invalid", "change-governance-invalid", "change-vault-invalid",
		"change-unknown-module", "change-malformed", "change-empty", "two-contents", "no-content", "no-metadata", "metadata-too-long", "cbor"},
	"governance.CastVote": {"valid", "valid", "not-eligible", "unknown-proposal", "invalid-vote", "closed", "cbor"},

	"roothash.ExecutorCommit": {"valid-messages", "valid", "valid", "valid-all", "no-commits", "unknown-runtime", "not-member", "wrong-round", "bad-signature", "duplicate", "failure", "bad-messages", "cbor"},
	"roothash.Evidence":       {"equivocation", "same-commit", "empty", "unknown-runtime", "bad-signature", "proposal-equivocation", "unknown-node", "unknown-node", "cbor"},
	"roothash.SubmitMsg":      {"valid", "valid", "fee-too-low", "unknown-runtime", "too-much", "cbor"},

	"vault.Create": {"valid", "valid-2of3", "no-addresses", "zero-threshold", "threshold-too-big", "cbor"},
	"vault.AuthorizeAction": {"exec-transfer", "exec-transfer", "suspend", "resume", "exec-too-much", "exec-unknown-method", "exec-malformed", "exec-add-escrow", "exec-withdraw", "exec-withdraw-self", "policy-self",
		"policy", "authority", "authority-invalid", "wrong-nonce", "not-authorized", "unknown-vault", "different-action", "two-actions", "cbor"},
	"vault.CancelAction": {"valid", "wrong-nonce", "not-authorized", "suspend-member", "unknown-vault", "cbor"},

	"beacon.SetEpoch": {"next", "not-advancing", "far", "cbor"},
	"beacon.VRFProve": {"valid", "wrong-epoch", "bad-proof", "foreign-proof", "not-node", "cbor", "off-curve", "bad-scalar", "short"},

	"keymanager.UpdatePolicy":           {"valid", "not-owner", "not-km", "unknown-runtime", "stale-serial", "bad-signature", "cbor"},
	"keymanager.PublishMasterSecret":    {"no-status", "not-km", "unknown-runtime", "cbor"},
	"keymanager.PublishEphemeralSecret": {"no-status", "not-km", "unknown-runtime", "cbor"},
	"keymanager/churp.Create":           {"valid", "valid", "not-owner", "not-km", "bad-suite", "policy-mismatch", "bad-serial", "big-threshold", "cbor"},
	"keymanager/churp.Update":           {"valid", "no-such", "not-owner", "empty", "cbor"},
	"keymanager/churp.Apply":            {"no-such", "handoffs-disabled", "not-node", "cbor"},
	"keymanager/churp.Confirm":          {"no-such", "not-committee", "cbor"},
}

var methodList []string

func init() {
	for m := range variants {
		methodList = append(methodList, m)
	}
	// deterministic order
	for i := range methodList {
		for j := i + 1; j < len(methodList); j++ {
			if methodList[j] < methodList[i] {
				methodList[i], methodList[j] = methodList[j], methodList[i]
			}
		}
	}
}

var (
	gasModes   = []string{"zero", "size-1", "size", "op-1", "op", "mid", "exact", "exact+1"}
	feeModes   = []string{"nil", "low", "too-much", "minbal", "zero-amount"}
	nonceModes = []string{"stale", "future"}
	envModes   = []string{"garbage", "bad-signature", "wrong-context", "truncated", "unknown-method", "empty-method", "oversized", "trailing", "empty"}
)

func pick(r *hlib.Rng, l []string) string { return l[r.Intn(len(l))] }

// genTxOp generates one transaction op: a method, one of its variants, and usually at most one
// further invalid respect (gas exhaustion point, fee, nonce, envelope).
func genTxOp(r *hlib.Rng, w *world, forCheck bool) *txop {
	m := pick(r, methodList)
	return genTxOpFor(r, w, m, forCheck)
}

func genTxOpFor(r *hlib.Rng, w *world, m string, forCheck bool) *txop {
	o := &txop{method: m, signer: -1, arg: -1, seed: r.Next() >> 1, gas: "ok", fee: "ok", nonce: "ok", env: "ok"}
	vs := variants[m]
	o.variant = vs[0]
	switch k := r.Intn(20); {
	case k < 8: // the first (valid / deepest) variant, possibly with an exhaustion point
		if r.Chance(1, 2) {
			o.gas = pick(r, gasModes)
		}
	case k < 16:
		o.variant = pick(r, vs)
		if r.Chance(1, 6) {
			o.gas = pick(r, gasModes)
		}
	case k == 16:
		o.variant = pick(r, vs)
		o.fee = pick(r, feeModes)
	case k == 17:
		o.variant = pick(r, vs)
		o.nonce = pick(r, nonceModes)
	case k == 18:
		o.env = pick(r, envModes)
	default:
		o.variant = pick(r, vs)
		o.signer = r.Intn(numSigners) // anybody: wrong authority in most cases
	}
	if forCheck && r.Chance(1, 2) {
		o.variant, o.gas, o.fee, o.nonce, o.env = vs[0], "ok", "ok", "ok", "ok"
	}
	return o
}

func txl(method, variant string, arg int, r *hlib.Rng) string {
	o := &txop{method: method, variant: variant, signer: -1, arg: arg, seed: r.Next() >> 1, gas: "ok", fee: "ok", nonce: "ok", env: "ok"}
	return o.String()
}

// genHistory generates the ops of one history: a setup that registers runtimes and compute nodes,
// creates and funds vaults and opens proposals (every step an ordinary transaction op), then blocks
// of random transactions with recurring "progress" transactions (commitments of the elected
// committee, votes, VRF proofs, epoch changes of the mock beacon) so that later failures happen
// deep, and bursts of CheckTx/EstimateGas between and inside blocks.
func genHistory(r *hlib.Rng, w *world, blocks int) []string {
	var ops []string
	add := func(s ...string) { ops = append(ops, s...) }
	burst := func(mid int) {
		add(fmt.Sprintf("burst x=%d n=%d mid=%d", r.Next()>>1, 2+r.Intn(6), mid))
	}
	epochTick := func() {
		if w.variant == "mock" {
			add(txl("beacon.SetEpoch", "next", -1, r))
		}
		if w.variant == "vrf" {
			for n := 0; n < numValidators+numCompute; n++ {
				add(txl("beacon.VRFProve", "valid", n, r))
			}
			// re-submissions by nodes that already have a proof stored for this epoch: the same
			// proof again, and well-sized proofs that do not decode / do not verify
			for k := 0; k < 3; k++ {
				vs := []string{"valid", "bad-proof", "off-curve", "bad-scalar", "foreign-proof", "short"}
				add(txl("beacon.VRFProve", vs[r.Intn(len(vs))], r.Intn(numValidators+numCompute), r))
			}
		}
	}
	// ---- setup (explicit ops; a= selects the runtime / entity / node / account)
	for rt := 0; rt < numRuntimes; rt++ {
		add(txl("registry.RegisterRuntime", "valid-new", rt, r))
	}
	add(txl("registry.RegisterEntity", "valid-new", numValidators, r))
	add(txl("registry.RegisterEntity", "valid-new", numValidators+1, r))
	add("block")
	for n := numValidators; n < numValidators+numCompute; n++ {
		add(txl("registry.RegisterNode", "valid-compute", n, r))
	}
	add(txl("vault.Create", "valid", 0, r))
	add(txl("vault.Create", "valid-2of3", 1, r))
	add("block")
	add(txl("staking.Transfer", "to-vault", 0, r)) // a = vault index: even = a large amount, odd = a small one
	add(txl("staking.Transfer", "to-vault", 1, r))
	add(txl("staking.Transfer", "to-vault", 2, r))
	add(txl("vault.AuthorizeAction", "policy", 0, r)) // a = vault index
	add(txl("vault.AuthorizeAction", "policy", 1, r))
	add(txl("vault.AuthorizeAction", "policy", 1, r)) // second authorization of the 2-of-3 vault
	add(txl("staking.Allow", "valid", 1, r))
	add(txl("staking.Allow", "valid", 2, r))
	add(txl("governance.SubmitProposal", "upgrade-valid", 3, r))
	add(txl("keymanager.UpdatePolicy", "valid", -1, r))
	add(txl("keymanager/churp.Create", "valid", -1, r))
	epochTick()
	add("block")
	burst(0)

	// ---- main part
	for b := 0; b < blocks; b++ {
		n := 2 + r.Intn(7)
		if b%3 == 0 {
			epochTick()
		}
		// progress: let runtime rounds finalize, proposals pass, registrations stay alive
		if r.Chance(1, 2) {
			add(txl("roothash.ExecutorCommit", "valid-all", -1, r))
		}
		if r.Chance(1, 3) {
			for e := 0; e < numValidators; e++ {
				add(txl("governance.CastVote", "valid", e, r))
			}
		}
		if b%5 == 4 {
			for nn := numValidators; nn < numValidators+numCompute; nn++ {
				add(txl("registry.RegisterNode", "valid-renew", nn, r))
			}
		}
		if r.Chance(1, 6) {
			// a pending admin-only action of the 2-of-3 vault, a cancel by a suspend-only member (fails),
			// then the second authorization completes the action
			add(txl("vault.AuthorizeAction", "policy", 1, r))
			add(txl("vault.CancelAction", "suspend-member", -1, r))
			add(txl("vault.AuthorizeAction", "policy", 1, r))
		}
		if r.Chance(1, 6) {
			// a vault with a withdraw policy on its own account withdraws from itself
			k := r.Intn(2)
			add(txl("vault.AuthorizeAction", "policy-self", k, r))
			if k == 1 {
				add(txl("vault.AuthorizeAction", "policy-self", k, r)) // second authorization of the 2-of-3 vault
			}
			add(txl("vault.AuthorizeAction", "exec-withdraw-self", k, r))
			if k == 1 {
				add(txl("vault.AuthorizeAction", "exec-withdraw-self", k, r))
			}
		}
		if r.Chance(1, 6) {
			// an address is funded / delegated to before a vault is created there (the vault
			// address is a function of creator and creator nonce): a = creator account
			k := r.Intn(3)
			if r.Chance(2, 3) {
				add(txl("staking.Transfer", "to-next-vault", k, r))
			}
			if r.Chance(2, 3) {
				add(txl("staking.AddEscrow", "to-next-vault", k, r))
			}
			add(txl("vault.Create", "valid", k, r))
		}
		for i := 0; i < n; i++ {
			add(genTxOp(r, w, false).String())
			if r.Chance(1, 9) {
				burst(1)
			}
		}
		if r.Chance(1, 8) {
			add(fmt.Sprintf("skip %d", 1+r.Intn(3)))
		} else {
			add("block")
		}
		if r.Chance(1, 4) {
			burst(0)
		}
	}
	return ops
}

func joinCase(lines []string) string { return strings.Join(lines, "\n") + "\n" }
