// gen.go: builds the signed transaction of a tx op against the state of the block in progress.
package main

import (
	"bytes"
	"context"
	"fmt"
	"math"
	"time"

	"verifharness/hlib"

	beacon "github.com/oasisprotocol/oasis-core/go/beacon/api"
	"github.com/oasisprotocol/oasis-core/go/common"
	"github.com/oasisprotocol/oasis-core/go/common/cbor"
	"github.com/oasisprotocol/oasis-core/go/common/crypto/hash"
	"github.com/oasisprotocol/oasis-core/go/common/crypto/signature"
	memorySigner "github.com/oasisprotocol/oasis-core/go/common/crypto/signature/signers/memory"
	"github.com/oasisprotocol/oasis-core/go/common/entity"
	"github.com/oasisprotocol/oasis-core/go/common/node"
	"github.com/oasisprotocol/oasis-core/go/common/version"
	"github.com/oasisprotocol/oasis-core/go/consensus/api/transaction"
	beaconState "github.com/oasisprotocol/oasis-core/go/consensus/cometbft/apps/beacon/state"
	governanceState "github.com/oasisprotocol/oasis-core/go/consensus/cometbft/apps/governance/state"
	churpState "github.com/oasisprotocol/oasis-core/go/consensus/cometbft/apps/keymanager/churp/state"
	secretsState "github.com/oasisprotocol/oasis-core/go/consensus/cometbft/apps/keymanager/secrets/state"
	registryState "github.com/oasisprotocol/oasis-core/go/consensus/cometbft/apps/registry/state"
	roothashState "github.com/oasisprotocol/oasis-core/go/consensus/cometbft/apps/roothash/state"
	stakingState "github.com/oasisprotocol/oasis-core/go/consensus/cometbft/apps/staking/state"
	vaultState "github.com/oasisprotocol/oasis-core/go/consensus/cometbft/apps/vault/state"
	governance "github.com/oasisprotocol/oasis-core/go/governance/api"
	keymanager "github.com/oasisprotocol/oasis-core/go/keymanager/api"
	"github.com/oasisprotocol/oasis-core/go/keymanager/churp"
	"github.com/oasisprotocol/oasis-core/go/keymanager/secrets"
	registry "github.com/oasisprotocol/oasis-core/go/registry/api"
	roothash "github.com/oasisprotocol/oasis-core/go/roothash/api"
	"github.com/oasisprotocol/oasis-core/go/roothash/api/block"
	"github.com/oasisprotocol/oasis-core/go/roothash/api/commitment"
	"github.com/oasisprotocol/oasis-core/go/roothash/api/message"
	scheduler "github.com/oasisprotocol/oasis-core/go/scheduler/api"
	staking "github.com/oasisprotocol/oasis-core/go/staking/api"
	"github.com/oasisprotocol/oasis-core/go/storage/mkvs"
	upgrade "github.com/oasisprotocol/oasis-core/go/upgrade/api"
	vault "github.com/oasisprotocol/oasis-core/go/vault/api"
)

type built struct {
	raw    []byte
	tx     *transaction.Transaction // nil when the envelope is garbage
	signer int
}

type builder struct {
	c *chain
	// fixed tree to build against (between blocks: the committed state); nil = the working tree
	fixed mkvs.ImmutableKeyValueTree
	// per build
	arg int
	t   mkvs.ImmutableKeyValueTree
	r   *hlib.Rng
	ctx context.Context
}

// spec is what a method/variant builder returns.
type spec struct {
	body   any      // encoded with cbor.Marshal; ignored when rawBody != nil
	raw    []byte   // malformed body
	signer int      // natural signer (roster index)
	costs  []uint64 // gas charges after the transaction size charge, in order
	skip   bool     // nothing sensible can be built in this state
}

// malformed bodies: well-formed CBOR (the envelope must still decode) of a type no method expects.
var malformedBodies = [][]byte{
	cbor.Marshal("verif c08 malformed body"),
	cbor.Marshal(uint64(1234567)),
	cbor.Marshal([]int{1, 2, 3}),
	cbor.Marshal(map[string]any{"to": 5, "amount": "x", "id": []byte{1}, "vault": 7, "nonce": "n", "account": 1, "policy": 3, "secret": 1, "signatures": 2}),
	cbor.Marshal(map[int]int{1: 2}),
	{0xf6}, // null
}

var malformed = malformedBodies[3]

func ptr[T any](v T) *T { return &v }

func (g *builder) acct(addr staking.Address) *staking.Account {
	a, err := stakingState.NewImmutableState(g.t).Account(g.ctx, addr)
	if err != nil {
		return &staking.Account{}
	}
	return a
}

func (g *builder) epoch() beacon.EpochTime {
	st := g.c.r.srv.State()
	e, err := st.GetEpoch(g.ctx, st.LastHeight()+1)
	if err != nil {
		e2, _, _ := beaconState.NewImmutableState(g.t).GetEpoch(g.ctx)
		return e2
	}
	// inside the block an epoch transition may already have happened in BeginBlock
	if e2, _, err := beaconState.NewImmutableState(g.t).GetEpoch(g.ctx); err == nil && e2 > e {
		return e2
	}
	return e
}

func (g *builder) vaults() []*vault.Vault {
	vs, _ := vaultState.NewImmutableState(g.t).Vaults(g.ctx)
	return vs
}

// pickArg returns the op's explicit argument (mod n) or a seed-chosen value in [0,n).
func (g *builder) pickArg(n int) int {
	v := g.r.Intn(n)
	if g.arg >= 0 {
		return g.arg % n
	}
	return v
}

func (g *builder) anyAddr() staking.Address { return g.c.w.addrOf(g.r.Intn(sOutsider)) }

func (g *builder) acctAddr(i int) staking.Address { return g.c.w.addrOf(sAcct + i%numAccounts) }

func (g *builder) entAddr(i int) staking.Address {
	return g.c.w.addrOf(sEnt + i%(numValidators+numSpareEnt))
}

// build resolves the op against the current state and returns the signed transaction.
func (g *builder) build(op *txop) *built {
	c := g.c
	if g.fixed != nil {
		g.t = g.fixed
	} else {
		g.t = c.tree()
	}
	if c.dead || g.t == nil {
		return nil
	}
	g.ctx = context.Background()
	g.r = hlib.FromState(op.seed)
	g.arg = op.arg
	w := c.w

	var sp spec
	if p := guard(func() { sp = g.spec(op) }); p != "" {
		c.fail("harness", "harness-builder-panic:"+op.method+":"+op.variant, p)
		return nil
	}
	if sp.skip {
		return nil
	}
	signer := sp.signer
	if op.signer >= 0 && op.signer < numSigners {
		signer = op.signer
	}
	if len(sp.costs) == 0 {
		sp.costs = []uint64{opGas}
	}
	var body cbor.RawMessage
	if sp.raw != nil {
		body = sp.raw
	} else {
		body = cbor.Marshal(sp.body)
	}
	method := transaction.MethodName(op.method)
	switch op.env {
	case "unknown-method":
		method = transaction.MethodName([]string{"staking.Nonexistent", "nomodule.Transfer", "vault.create", "consensus.Nope"}[g.r.Intn(4)])
	case "empty-method":
		method = ""
	case "oversized":
		body = make([]byte, 17*1024)
		for i := range body {
			body[i] = 0x18
		}
	}

	acct := g.acct(w.addrOf(signer))
	nonce := acct.General.Nonce
	switch op.nonce {
	case "stale":
		if nonce == 0 {
			nonce = 7
		} else {
			nonce--
		}
	case "future":
		nonce += uint64(1 + g.r.Intn(3))
	}
	bal := qU64(&acct.General.Balance)

	var total uint64
	for _, x := range sp.costs {
		total += x
	}
	gasFor := func(size uint64) uint64 {
		switch op.gas {
		case "zero":
			return 0
		case "size-1":
			return size - 1
		case "size":
			return size
		case "op-1":
			return size + sp.costs[0] - 1
		case "op":
			return size + sp.costs[0]
		case "mid":
			if total > sp.costs[0] {
				return size + sp.costs[0] + uint64(g.r.Intn(int(total-sp.costs[0])))
			}
			return size + uint64(g.r.Intn(int(total)+1))
		case "exact":
			return size + total
		case "exact+1":
			return size + total + 1
		default:
			return size + total + 3000
		}
	}
	mkFee := func(gas uint64) *transaction.Fee {
		amt := gas * w.minGas
		switch op.fee {
		case "nil":
			return nil
		case "low":
			if amt > 0 {
				amt--
			}
		case "too-much":
			amt = bal + 1 + uint64(g.r.Intn(50))
		case "minbal":
			if bal > 0 {
				amt = bal - uint64(g.r.Intn(minTransactBalance))%bal
			}
		case "zero-amount":
			amt = 0
		}
		return &transaction.Fee{Amount: q(amt), Gas: transaction.Gas(gas)}
	}
	var (
		tx  *transaction.Transaction
		raw []byte
	)
	gas := uint64(5000)
	seedBefore := g.r.Seed()
	for iter := 0; iter < 6; iter++ {
		g.r = hlib.FromState(seedBefore) // the same random choices in every iteration
		tx = &transaction.Transaction{Nonce: nonce, Fee: mkFee(gas), Method: method, Body: body}
		sig, err := transaction.Sign(w.signers[signer], tx)
		if err != nil {
			c.fail("harness", "harness-sign", err.Error())
			return nil
		}
		raw = cbor.Marshal(sig)
		want := gasFor(uint64(len(raw)))
		if want == gas {
			break
		}
		gas = want
	}

	switch op.env {
	case "garbage":
		raw = make([]byte, 5+g.r.Intn(60))
		for i := range raw {
			raw[i] = byte(g.r.Next())
		}
		tx = nil
	case "empty":
		raw = []byte{}
		tx = nil
	case "bad-signature":
		var st transaction.SignedTransaction
		_ = cbor.Unmarshal(raw, &st)
		st.Signature.Signature[g.r.Intn(64)] ^= 1 << uint(g.r.Intn(8))
		raw = cbor.Marshal(&st)
	case "wrong-context":
		signature.UnsafeResetChainContext()
		signature.SetChainContext("verif c08 another chain context")
		sig, _ := transaction.Sign(w.signers[signer], tx)
		useWorld(w)
		raw = cbor.Marshal(sig)
	case "truncated":
		raw = raw[:len(raw)-1-g.r.Intn(len(raw)/2)]
	case "trailing":
		raw = append(raw, 0x00)
	}
	return &built{raw: raw, tx: tx, signer: signer}
}

// spec dispatches on the method.
func (g *builder) spec(op *txop) spec {
	if op.variant == "cbor" {
		sp := g.specFor(op.method, variants[op.method][0])
		sp.raw = malformedBodies[g.r.Intn(len(malformedBodies))]
		if op.method == "beacon.SetEpoch" {
			// an unsigned integer IS a well-formed SetEpoch body (the mock epoch would jump there)
			sp.raw = malformedBodies[0]
		}
		sp.skip = false
		if sp.signer < 0 || sp.signer >= numSigners {
			sp.signer = sAcct
		}
		return sp
	}
	return g.specFor(op.method, op.variant)
}

func (g *builder) specFor(method, v string) spec {
	switch method {
	case "staking.Transfer", "staking.Burn", "staking.AddEscrow", "staking.ReclaimEscrow", "staking.AmendCommissionSchedule", "staking.Allow", "staking.Withdraw":
		return g.stakingSpec(method, v)
	case "registry.RegisterEntity", "registry.DeregisterEntity", "registry.RegisterNode", "registry.UnfreezeNode", "registry.RegisterRuntime", "registry.ProveFreshness":
		return g.registrySpec(method, v)
	case "governance.SubmitProposal", "governance.CastVote":
		return g.governanceSpec(method, v)
	case "roothash.ExecutorCommit", "roothash.Evidence", "roothash.SubmitMsg":
		return g.roothashSpec(method, v)
	case "vault.Create", "vault.AuthorizeAction", "vault.CancelAction":
		return g.vaultSpec(method, v)
	case "beacon.SetEpoch", "beacon.VRFProve":
		return g.beaconSpec(method, v)
	default:
		return g.keymanagerSpec(method, v)
	}
}

// ---- staking ----------------------------------------------------------------------------------

func (g *builder) stakingSpec(method, v string) spec {
	r, w := g.r, g.c.w
	from := sAcct + g.pickArg(numAccounts)
	if v == "to-vault" {
		from = sAcct + 2 + r.Intn(3)
	}
	// the address of the vault that account a (0..2) would create with its next transaction
	nextVault := func() staking.Address {
		creator := w.addrOf(sAcct + g.pickArg(3))
		return vault.NewVaultAddress(creator, g.acct(creator).General.Nonce+1)
	}
	if v == "to-next-vault" {
		from = sAcct + 3 + r.Intn(numAccounts-3)
	}
	bal := qU64(&g.acct(w.addrOf(from)).General.Balance)
	amt := q(uint64(10 + r.Intn(3000)))
	switch method {
	case "staking.Transfer":
		b := &staking.Transfer{To: g.acctAddr(from + 1 + r.Intn(numAccounts-1)), Amount: amt}
		switch v {
		case "below-min":
			b.Amount = q(uint64(r.Intn(10)))
		case "too-much":
			b.Amount = q(bal + 1 + uint64(r.Intn(1000)))
		case "to-self":
			b.To = w.addrOf(from)
		case "to-next-vault":
			b.To = nextVault()
		case "to-vault":
			if vs := g.vaults(); len(vs) > 0 {
				i := g.pickArg(len(vs))
				b.To = vs[i].Address()
				b.Amount = q(uint64(20_000 + r.Intn(20_000)))
				if i%2 == 1 {
					b.Amount = q(uint64(minTransactBalance + 20 + r.Intn(200)))
				}
			}
		}
		return spec{body: b, signer: from}
	case "staking.Burn":
		b := &staking.Burn{Amount: amt}
		switch v {
		case "too-much":
			b.Amount = q(bal + 1)
		case "zero":
			b.Amount = q(0)
		}
		return spec{body: b, signer: from}
	case "staking.AddEscrow":
		b := &staking.Escrow{Account: g.entAddr(r.Intn(numValidators + numSpareEnt)), Amount: amt}
		switch v {
		case "below-min":
			b.Amount = q(uint64(r.Intn(10)))
		case "too-much":
			b.Amount = q(bal + 1)
		case "to-account":
			b.Account = g.acctAddr(r.Intn(numAccounts))
		case "to-next-vault":
			b.Account = nextVault()
		}
		return spec{body: b, signer: from}
	case "staking.ReclaimEscrow":
		// account 0 delegates to entities 0,1; entities to themselves; whoever added escrow before
		signer := sAcct
		target := g.entAddr(r.Intn(2))
		if r.Chance(1, 3) {
			e := r.Intn(numValidators)
			signer, target = sEnt+e, g.entAddr(e)
		}
		b := &staking.ReclaimEscrow{Account: target, Shares: q(uint64(10 + r.Intn(500)))}
		switch v {
		case "too-many-shares":
			b.Shares = q(math.MaxUint64 / 2)
		case "no-delegation":
			signer = sAcct + 5
			b.Account = g.entAddr(3)
		case "zero":
			b.Shares = q(0)
		}
		return spec{body: b, signer: signer}
	case "staking.AmendCommissionSchedule":
		e := g.epoch()
		ent := sEnt + r.Intn(numValidators)
		start := e + 3 + beacon.EpochTime(r.Intn(3))
		rate := uint64(1000 * (1 + r.Intn(50)))
		cs := staking.CommissionSchedule{
			Rates:  []staking.CommissionRateStep{{Start: start, Rate: q(rate)}},
			Bounds: []staking.CommissionRateBoundStep{{Start: start, RateMin: q(0), RateMax: q(100_000)}},
		}
		switch v {
		case "past-start":
			cs.Rates[0].Start, cs.Bounds[0].Start = 0, 0
			if e > 1 {
				cs.Rates[0].Start, cs.Bounds[0].Start = e-1, e-1
			}
		case "too-many-steps":
			for i := 1; i < 7; i++ {
				cs.Rates = append(cs.Rates, staking.CommissionRateStep{Start: start + beacon.EpochTime(i), Rate: q(rate + uint64(i))})
			}
		case "rate-over-100":
			cs.Rates[0].Rate = q(100_001)
		case "empty":
			cs = staking.CommissionSchedule{}
		}
		return spec{body: &staking.AmendCommissionSchedule{Amendment: cs}, signer: ent}
	case "staking.Allow":
		b := &staking.Allow{Beneficiary: g.acctAddr(from + 1 + r.Intn(numAccounts-1)), AmountChange: q(uint64(100 + r.Intn(5000)))}
		switch v {
		case "to-self":
			b.Beneficiary = w.addrOf(from)
		case "many":
			b.Beneficiary = g.anyAddr()
		case "negative-underflow":
			b.Negative = true
			b.AmountChange = q(math.MaxUint64 / 4)
		case "zero":
			b.AmountChange = q(0)
		}
		return spec{body: b, signer: from}
	case "staking.Withdraw":
		// find an (owner, beneficiary) pair with an allowance
		type pair struct{ owner, ben int }
		var pairs []pair
		for o := 0; o < numAccounts; o++ {
			a := g.acct(g.acctAddr(o))
			for b := 0; b < numAccounts; b++ {
				if _, ok := a.General.Allowances[g.acctAddr(b)]; ok {
					pairs = append(pairs, pair{o, b})
				}
			}
		}
		b := &staking.Withdraw{From: g.acctAddr(from + 1), Amount: amt}
		signer := from
		if len(pairs) > 0 {
			p := pairs[r.Intn(len(pairs))]
			owner := g.acct(g.acctAddr(p.owner))
			al := owner.General.Allowances[g.acctAddr(p.ben)]
			signer = sAcct + p.ben
			b.From = g.acctAddr(p.owner)
			b.Amount = q(10 + qU64(&al)/uint64(2+r.Intn(3)))
			switch v {
			case "over-allowance":
				b.Amount = q(qU64(&al) + 1)
			}
		}
		switch v {
		case "no-allowance":
			signer = sAcct + 5
			b.From = g.entAddr(2)
		case "over-balance":
			// an allowance larger than the owner's balance cannot exist by Allow alone; use the poor account
			b.From = w.addrOf(sPoor)
			b.Amount = q(100)
		case "from-self":
			b.From = w.addrOf(signer)
		case "below-min":
			b.Amount = q(uint64(r.Intn(10)))
		case "vault-ok", "vault-over-balance", "vault-over-limit", "vault-no-policy":
			vs := g.vaults()
			if len(vs) == 0 {
				return spec{skip: true}
			}
			signer = sAcct + 3 // the address the `policy` action authorizes
			limitOf := func(x *vault.Vault) uint64 {
				st, err := vaultState.NewImmutableState(g.t).AddressState(g.ctx, x.Address(), w.addrOf(signer))
				if err != nil {
					return 0
				}
				return qU64(&st.WithdrawPolicy.LimitAmount)
			}
			vlt := vs[g.pickArg(len(vs))]
			if v == "vault-over-balance" {
				// a vault that holds less than its withdraw policy allows
				for _, x := range vs {
					if xb := qU64(&g.acct(x.Address()).General.Balance); limitOf(x) > xb && xb+1 >= 10 {
						vlt = x
					}
				}
			}
			b.From = vlt.Address()
			vbal := qU64(&g.acct(vlt.Address()).General.Balance)
			limit := limitOf(vlt)
			switch v {
			case "vault-ok":
				b.Amount = q(10 + uint64(r.Intn(200)))
			case "vault-over-balance":
				// within the policy limit but more than the vault holds: fails AFTER the hook ran
				b.Amount = q(vbal + 1)
				if limit > 0 && vbal+1 > limit {
					b.Amount = q(limit)
				}
			case "vault-over-limit":
				b.Amount = q(limit + 1 + uint64(r.Intn(100)))
			case "vault-no-policy":
				signer = sAcct + 4
			}
		}
		return spec{body: b, signer: signer}
	}
	return spec{skip: true}
}

// ---- registry ---------------------------------------------------------------------------------

func (g *builder) signedEntity(e int, ent *entity.Entity, signer signature.Signer) *entity.SignedEntity {
	se, err := entity.SignEntity(signer, registry.RegisterEntitySignatureContext, ent)
	if err != nil {
		panic(err)
	}
	return se
}

func (g *builder) runtimeDescriptor(rt int, owner int) *registry.Runtime {
	w := g.c.w
	d := &registry.Runtime{
		Versioned: cbor.NewVersioned(registry.LatestRuntimeDescriptorVersion),
		ID:        w.rtIDs[rt],
		EntityID:  w.entSig[owner].Public(),
		Kind:      registry.KindCompute,
		Executor: registry.ExecutorParameters{
			GroupSize: 2, GroupBackupSize: 1, AllowedStragglers: 0, RoundTimeout: 5, MaxMessages: 16,
			MinLiveRoundsPercent: 0, MaxMissedProposalsPercent: 0, MinLiveRoundsForEvaluation: 0, MaxLivenessFailures: 0,
		},
		TxnScheduler: registry.TxnSchedulerParameters{
			BatchFlushTimeout: time.Second, MaxBatchSize: 100, MaxBatchSizeBytes: 100_000_000, ProposerTimeout: 2 * time.Second,
			MaxInMessages: 2,
		},
		Deployments:     []*registry.VersionInfo{{ValidFrom: 0}},
		AdmissionPolicy: registry.RuntimeAdmissionPolicy{AnyNode: &registry.AnyNodeRuntimeAdmissionPolicy{}},
		GovernanceModel: registry.GovernanceEntity,
	}
	d.Staking.MinInMessageFee = q(5)
	d.Staking.Slashing = map[staking.SlashReason]staking.Slash{
		staking.SlashRuntimeEquivocation:     {Amount: q(50)},
		staking.SlashRuntimeIncorrectResults: {Amount: q(50)},
	}
	d.Staking.RewardSlashEquvocationRuntimePercent = 10
	d.Staking.RewardSlashBadResultsRuntimePercent = 10
	if rt == 2 {
		d.Kind = registry.KindKeyManager
		d.Executor = registry.ExecutorParameters{}
		d.TxnScheduler = registry.TxnSchedulerParameters{}
		d.Staking = registry.RuntimeStakingParameters{}
	}
	return d
}

func (g *builder) registrySpec(method, v string) spec {
	r, w := g.r, g.c.w
	rs := registryState.NewImmutableState(g.t)
	e := g.epoch()
	switch method {
	case "registry.RegisterEntity":
		ei := r.Intn(numValidators)
		if v == "valid-new" || v == "no-stake" {
			ei = numValidators + r.Intn(numSpareEnt)
		}
		if g.arg >= 0 {
			ei = g.arg % (numValidators + numSpareEnt)
		}
		ent := *w.ents[ei]
		ent.Nodes = append([]signature.PublicKey{}, ent.Nodes...)
		if r.Bool() && len(ent.Nodes) > 1 { // an update that reorders the node list
			ent.Nodes[0], ent.Nodes[1] = ent.Nodes[1], ent.Nodes[0]
		}
		signer := sEnt + ei
		sigKey := w.entSig[ei]
		switch v {
		case "wrong-signer":
			signer = sEnt + (ei+1)%numValidators
		case "no-stake":
			// an entity whose account has no escrow at all: a plain account key
			a := r.Intn(numAccounts)
			sigKey = w.accts[a]
			ent.ID = sigKey.Public()
			ent.Nodes = nil
			signer = sAcct + a
		case "foreign-nodes":
			for _, n := range w.nodes {
				ent.Nodes = append(ent.Nodes, n.id.NodeSigner.Public())
			}
		}
		se := g.signedEntity(ei, &ent, sigKey)
		if v == "bad-signature" {
			se.Signature.Signature[5] ^= 0x10
		}
		return spec{body: se, signer: signer, costs: []uint64{opGas, uint64(len(ent.Nodes)) * opGas}}
	case "registry.DeregisterEntity":
		signer := sEnt + r.Intn(numValidators)
		switch v {
		case "spare":
			signer = sEnt + numValidators + r.Intn(numSpareEnt)
		case "not-registered":
			signer = sAcct + r.Intn(numAccounts)
		}
		return spec{body: &registry.DeregisterEntity{}, signer: signer}
	case "registry.RegisterNode":
		n := numValidators + r.Intn(numCompute)
		if g.arg >= 0 {
			n = g.arg % (numValidators + numCompute)
		}
		roles := node.RoleComputeWorker
		rts := []int{0, 1}
		exp := uint64(e) + 6 + uint64(r.Intn(4))
		signer := sNode + n
		signers := w.nodeSigners(n)
		if v == "valid-renew" || v == "role-change" || v == "stale-descriptor" || v == "other-entity" {
			// an existing registration
			var regd []int
			for i := range w.nodes {
				if nd, err := rs.Node(g.ctx, w.nodes[i].id.NodeSigner.Public()); err == nil && !nd.IsExpired(e) {
					regd = append(regd, i)
				}
			}
			if len(regd) == 0 {
				return spec{skip: true}
			}
			n = regd[r.Intn(len(regd))]
			if g.arg >= 0 {
				n = g.arg % (numValidators + numCompute)
			}
			if v == "role-change" && r.Chance(2, 3) {
				n = r.Intn(numValidators) // a validator that asks to become a compute worker
			}
			nd, err := rs.Node(g.ctx, w.nodes[n].id.NodeSigner.Public())
			if err != nil {
				return spec{skip: true}
			}
			signer, signers = sNode+n, w.nodeSigners(n)
			roles = nd.Roles
			rts = nil
			for _, x := range nd.Runtimes {
				for i, id := range w.rtIDs {
					if id.Equal(&x.ID) {
						rts = append(rts, i)
					}
				}
			}
			if uint64(nd.Expiration) >= exp {
				exp = uint64(nd.Expiration) + 1 + uint64(r.Intn(2))
			}
			if v == "stale-descriptor" {
				// an older descriptor of the same node: its expiration lies before the registered one
				exp = uint64(nd.Expiration) - 1
				if exp <= uint64(e) {
					exp = uint64(e) + 1
				}
			}
			if v == "role-change" {
				if roles&node.RoleValidator != 0 {
					roles = node.RoleComputeWorker
					rts = []int{0}
				} else {
					roles = node.RoleValidator
					rts = nil
				}
			}
		}
		switch v {
		case "expired":
			exp = uint64(e)
			if r.Bool() && e > 0 {
				exp = uint64(e) - 1
			}
		case "wrong-signer":
			signer = sEnt + ownerOf(n)
		case "missing-signature":
			signers = signers[:len(signers)-1-r.Intn(3)]
		case "no-stake":
			n = numValidators + numCompute - 1 // owned by spare entity 5 (escrow 40)
			signer, signers = sNode+n, w.nodeSigners(n)
			roles = node.RoleComputeWorker | node.RoleValidator
		case "unknown-runtime":
			rts = []int{0}
		case "far-expiration":
			exp = uint64(e) + 2000
		}
		d := w.nodeDescriptor(n, roles, rts, exp)
		if v == "other-entity" {
			// a registered node that claims to belong to another (registered) entity
			d.EntityID = w.entSig[(ownerOf(n)+1)%numValidators].Public()
		}
		if v == "unknown-runtime" {
			d.Runtimes = []*node.Runtime{{ID: common.NewTestNamespaceFromSeed([]byte("verif c08 no such runtime"), 0)}}
		}
		sn, err := node.MultiSignNode(signers, registry.RegisterNodeSignatureContext, d)
		if err != nil {
			panic(err)
		}
		if v == "bad-signature" && len(sn.Signatures) > 0 {
			sn.Signatures[r.Intn(len(sn.Signatures))].Signature[3] ^= 0x40
		}
		add := uint64(0)
		if exp > uint64(e) {
			add = exp - uint64(e)
		}
		return spec{body: sn, signer: signer, costs: []uint64{uint64(len(rts)) * add * opGas}}
	case "registry.UnfreezeNode":
		n := r.Intn(numValidators + numCompute)
		b := &registry.UnfreezeNode{NodeID: w.nodes[n].id.NodeSigner.Public()}
		signer := sEnt + ownerOf(n)
		switch v {
		case "unknown-node":
			b.NodeID = w.signers[sOutsider].Public()
		case "wrong-signer":
			signer = sEnt + (ownerOf(n)+1)%numValidators
		}
		return spec{body: b, signer: signer}
	case "registry.RegisterRuntime":
		rt := g.pickArg(numRuntimes)
		owner := []int{0, 1, 1}[rt]
		d := g.runtimeDescriptor(rt, owner)
		signer := sEnt + owner
		switch v {
		case "valid-update":
			if _, err := rs.Runtime(g.ctx, w.rtIDs[rt]); err != nil {
				return spec{skip: true}
			}
			if rt != 2 {
				d.Executor.RoundTimeout = int64(5 + r.Intn(4))
				d.TxnScheduler.MaxBatchSize = uint64(100 + r.Intn(50))
			}
		case "wrong-signer":
			signer = sEnt + (owner+2)%numValidators
		case "bad-params":
			if rt == 2 {
				d.Kind = registry.KindInvalid
			} else {
				d.Executor.GroupSize = 0
			}
		case "no-stake":
			owner = numValidators + 1
			d.EntityID = w.entSig[owner].Public()
			d.ID = common.NewTestNamespaceFromSeed([]byte("verif c08 poor runtime"), 0)
			signer = sEnt + owner
		case "consensus-governance":
			d.GovernanceModel = registry.GovernanceConsensus
		case "unknown-km":
			if rt == 2 {
				rt = 0
				d = g.runtimeDescriptor(0, 0)
				signer = sEnt
			}
			km := common.NewTestNamespaceFromSeed([]byte("verif c08 no such km"), common.NamespaceKeyManager)
			d.KeyManager = &km
		case "kind-mismatch":
			if rt == 2 {
				d.Kind = registry.KindCompute
			} else {
				d.Kind = registry.KindKeyManager
			}
		}
		return spec{body: d, signer: signer}
	case "registry.ProveFreshness":
		signer := sNode + r.Intn(numValidators)
		if v == "by-account" {
			signer = sAcct + r.Intn(numAccounts)
		}
		var blob [32]byte
		for i := range blob {
			blob[i] = byte(r.Next())
		}
		return spec{body: blob, signer: signer}
	}
	return spec{skip: true}
}

// ---- governance -------------------------------------------------------------------------------

func (g *builder) governanceSpec(method, v string) spec {
	r := g.r
	gs := governanceState.NewImmutableState(g.t)
	e := g.epoch()
	switch method {
	case "governance.SubmitProposal":
		signer := sEnt + r.Intn(numValidators)
		if r.Chance(1, 4) {
			signer = sAcct + r.Intn(numAccounts)
		}
		if g.arg >= 0 {
			signer = sEnt + g.arg%numValidators
		}
		up := func(ep beacon.EpochTime) *governance.UpgradeProposal {
			return &governance.UpgradeProposal{Descriptor: upgrade.Descriptor{
				Versioned: cbor.NewVersioned(upgrade.LatestDescriptorVersion),
				Handler:   upgrade.HandlerName(fmt.Sprintf("verif-c08-upgrade-%d", r.Intn(1000))),
				Target:    version.Versions,
				Epoch:     ep,
			}}
		}
		change := func(module string, changes any) *governance.ChangeParametersProposal {
			return &governance.ChangeParametersProposal{Module: module, Changes: cbor.Marshal(changes)}
		}
		var pc governance.ProposalContent
		pc.Metadata = &governance.ProposalMetadata{Title: fmt.Sprintf("verif c08 proposal %d", r.Intn(1000)), Description: "generated"}
		switch v {
		case "no-metadata":
			pc.Metadata = nil
			pc.Upgrade = up(e + 300)
		case "upgrade-valid":
			pc.Upgrade = up(e + 200 + beacon.EpochTime(r.Intn(100)))
		case "upgrade-too-soon":
			pc.Upgrade = up(e + beacon.EpochTime(r.Intn(20)))
		case "upgrade-conflict":
			pus, _ := gs.PendingUpgrades(g.ctx)
			if len(pus) == 0 {
				pc.Upgrade = up(e + 19) // too soon instead
			} else {
				pc.Upgrade = up(pus[r.Intn(len(pus))].Epoch + beacon.EpochTime(r.Intn(10)))
			}
		case "cancel-unknown":
			pc.CancelUpgrade = &governance.CancelUpgradeProposal{ProposalID: uint64(500 + r.Intn(100))}
		case "cancel-valid":
			id := uint64(1)
			ps, _ := gs.Proposals(g.ctx)
			var cand []uint64
			for _, p := range ps {
				if p.Content.Upgrade != nil && p.State == governance.StatePassed {
					cand = append(cand, p.ID)
				}
			}
			if len(cand) > 0 {
				id = cand[r.Intn(len(cand))]
			}
			pc.CancelUpgrade = &governance.CancelUpgradeProposal{ProposalID: id}
		case "change-staking":
			pc.ChangeParameters = change(staking.ModuleName, staking.ConsensusParameterChanges{MaxAllowances: ptr(uint32(4 + r.Intn(3)))})
		case "change-staking-invalid":
			pc.ChangeParameters = change(staking.ModuleName, staking.ConsensusParameterChanges{FeeSplitWeightVote: ptr(q(0)), FeeSplitWeightPropose: ptr(q(0)), FeeSplitWeightNextPropose: ptr(q(0))})
		case "change-registry":
			pc.ChangeParameters = change(registry.ModuleName, registry.ConsensusParameterChanges{MaxNodeExpiration: ptr(beacon.EpochTime(1000 + r.Intn(10)))})
		case "change-registry-invalid":
			pc.ChangeParameters = change(registry.ModuleName, registry.ConsensusParameterChanges{MaxNodeExpiration: ptr(beacon.EpochTime(0))})
		case "change-roothash":
			pc.ChangeParameters = change(roothash.ModuleName, roothash.ConsensusParameterChanges{MaxRuntimeMessages: ptr(uint32(32 + r.Intn(4)))})
		case "change-roothash-shrink":
			pc.ChangeParameters = change(roothash.ModuleName, roothash.ConsensusParameterChanges{MaxPastRootsStored: ptr(uint64(1))})
		case "change-roothash-invalid":
			pc.ChangeParameters = change(roothash.ModuleName, roothash.ConsensusParameterChanges{})
		case "change-scheduler":
			pc.ChangeParameters = change(scheduler.ModuleName, scheduler.ConsensusParameterChanges{MaxValidators: ptr(3 + r.Intn(2))})
		case "change-scheduler-invalid":
			pc.ChangeParameters = change(scheduler.ModuleName, scheduler.ConsensusParameterChanges{MaxValidators: ptr(0)})
		case "change-governance":
			pc.ChangeParameters = change(governance.ModuleName, governance.ConsensusParameterChanges{VotingPeriod: ptr(beacon.EpochTime(2 + r.Intn(2)))})
		case "change-governance-invalid":
			pc.ChangeParameters = change(governance.ModuleName, governance.ConsensusParameterChanges{StakeThreshold: ptr(uint8(150))})
		case "change-vault":
			pc.ChangeParameters = change(vault.ModuleName, vault.ConsensusParameterChanges{MaxAuthorityAddresses: ptr(uint8(16 + r.Intn(16)))})
		case "change-vault-invalid":
			pc.ChangeParameters = change(vault.ModuleName, vault.ConsensusParameterChanges{})
		case "change-unknown-module":
			pc.ChangeParameters = change("nonexistent", map[string]int{"x": 1})
		case "change-malformed":
			pc.ChangeParameters = &governance.ChangeParametersProposal{Module: []string{staking.ModuleName, roothash.ModuleName, registry.ModuleName, vault.ModuleName}[r.Intn(4)], Changes: cbor.Marshal("not a map")}
		case "change-empty":
			pc.ChangeParameters = &governance.ChangeParametersProposal{Module: staking.ModuleName}
		case "two-contents":
			pc.Upgrade = up(e + 300)
			pc.CancelUpgrade = &governance.CancelUpgradeProposal{ProposalID: 1}
		case "no-content":
		case "metadata-too-long":
			pc.Upgrade = up(e + 300)
			long := make([]byte, 200)
			for i := range long {
				long[i] = 'x'
			}
			pc.Metadata = &governance.ProposalMetadata{Title: string(long)}
		}
		return spec{body: &pc, signer: signer}
	case "governance.CastVote":
		signer := sEnt + r.Intn(numValidators)
		if r.Chance(1, 5) {
			signer = sAcct // a delegator of validator entities
		}
		if g.arg >= 0 {
			signer = sEnt + g.arg%numValidators
		}
		act, _ := gs.ActiveProposals(g.ctx)
		id := uint64(1)
		if len(act) > 0 {
			id = act[r.Intn(len(act))].ID
		}
		vote := governance.VoteYes
		if r.Chance(1, 6) {
			vote = []governance.Vote{governance.VoteNo, governance.VoteAbstain}[r.Intn(2)]
		}
		b := &governance.ProposalVote{ID: id, Vote: vote}
		switch v {
		case "valid":
			if len(act) == 0 {
				return spec{skip: true}
			}
		case "not-eligible":
			signer = sAcct + 1 + r.Intn(numAccounts-1)
		case "unknown-proposal":
			b.ID = uint64(700 + r.Intn(50))
		case "invalid-vote":
			b.Vote = governance.Vote(77)
		case "closed":
			ps, _ := gs.Proposals(g.ctx)
			found := false
			for _, p := range ps {
				if p.State != governance.StateActive {
					b.ID, found = p.ID, true
				}
			}
			if !found {
				b.ID = 0
			}
		}
		return spec{body: b, signer: signer}
	}
	return spec{skip: true}
}

// ---- roothash ---------------------------------------------------------------------------------

func (g *builder) rtState(rt int) *roothash.RuntimeState {
	st, err := roothashState.NewImmutableState(g.t).RuntimeState(g.ctx, g.c.w.rtIDs[rt])
	if err != nil {
		return nil
	}
	return st
}

func stateRoot(kind int) hash.Hash {
	return hash.NewFromBytes([]byte(fmt.Sprintf("verif c08 state root %d", kind)))
}

func (g *builder) nodeIdx(pk signature.PublicKey) int {
	for i, n := range g.c.w.nodes {
		if n.id.NodeSigner.Public().Equal(pk) {
			return i
		}
	}
	return -1
}

// runtimeMessages are the messages the scheduler's commitment of a round carries.
func (g *builder) runtimeMessages(kind int) []message.Message {
	switch kind {
	case 1:
		return []message.Message{{Staking: &message.StakingMessage{Transfer: &staking.Transfer{To: g.acctAddr(1), Amount: q(10)}}}}
	case 2:
		return []message.Message{
			{Staking: &message.StakingMessage{Transfer: &staking.Transfer{To: g.acctAddr(2), Amount: q(math.MaxUint64 / 2)}}},
			{Governance: &message.GovernanceMessage{CastVote: &governance.ProposalVote{ID: 1, Vote: governance.VoteYes}}},
		}
	case 3: // malformed: no kind set
		return []message.Message{{}}
	}
	return nil
}

// commitFor builds a signed commitment of committee member `member` for the current round.
// kind: "0" honest, "1"/"2" other state roots, "F" failure, "R" wrong round.
func (g *builder) commitFor(rt int, st *roothash.RuntimeState, member, sched signature.PublicKey, kind string, msgKind int) *commitment.ExecutorCommitment {
	idx := g.nodeIdx(member)
	if idx < 0 {
		return nil
	}
	blk := block.NewEmptyBlock(st.LastBlock, 0, block.Normal)
	var empty hash.Hash
	empty.Empty()
	root := stateRoot(0)
	switch kind {
	case "1":
		root = stateRoot(1)
	case "2":
		root = stateRoot(2)
	}
	msgs := g.runtimeMessages(msgKind)
	msgsHash := message.MessagesHash(msgs)
	inHash := message.InMessagesHash(nil)
	ec := &commitment.ExecutorCommitment{
		NodeID: member,
		Header: commitment.ExecutorCommitmentHeader{
			SchedulerID: sched,
			Header: commitment.ComputeResultsHeader{
				Round:          blk.Header.Round,
				PreviousHash:   blk.Header.PreviousHash,
				IORoot:         &empty,
				StateRoot:      &root,
				MessagesHash:   &msgsHash,
				InMessagesHash: &inHash,
			},
		},
	}
	if kind == "R" {
		ec.Header.Header.Round += 2
	}
	if member.Equal(sched) {
		ec.Messages = msgs
	}
	if kind == "F" {
		ec.Header.SetFailure(commitment.FailureUnknown)
		ec.Messages = nil
	}
	if err := ec.Sign(g.c.w.nodes[idx].id.NodeSigner, g.c.w.rtIDs[rt]); err != nil {
		panic(err)
	}
	return ec
}

func (g *builder) roothashSpec(method, v string) spec {
	r, w := g.r, g.c.w
	// prefer a runtime that has a committee
	rt := r.Intn(2)
	st := g.rtState(rt)
	if st == nil || st.Committee == nil || st.CommitmentPool == nil {
		if st2 := g.rtState(1 - rt); st2 != nil && st2.Committee != nil && st2.CommitmentPool != nil {
			rt, st = 1-rt, st2
		}
	}
	unknownRt := common.NewTestNamespaceFromSeed([]byte("verif c08 unknown runtime"), 0)
	hasCommittee := st != nil && st.Committee != nil && st.CommitmentPool != nil && !st.Suspended
	switch method {
	case "roothash.ExecutorCommit":
		b := &roothash.ExecutorCommit{ID: w.rtIDs[rt]}
		signer := sNode + numValidators + r.Intn(numCompute)
		if v == "unknown-runtime" {
			b.ID = unknownRt
			return spec{body: b, signer: signer}
		}
		if v == "no-commits" {
			return spec{body: b, signer: signer}
		}
		if !hasCommittee {
			// no committee: the transaction fails with ErrNoCommittee / no such runtime (still a failed tx)
			fake := commitment.ExecutorCommitment{NodeID: w.nodes[numValidators].id.NodeSigner.Public()}
			b.Commits = []commitment.ExecutorCommitment{fake}
			return spec{body: b, signer: signer}
		}
		round := st.LastBlock.Header.Round + 1
		sn, ok := st.Committee.Scheduler(round, 0)
		if !ok {
			return spec{skip: true}
		}
		voted := map[signature.PublicKey]bool{}
		if sc, ok := st.CommitmentPool.SchedulerCommitments[0]; ok {
			for pk := range sc.Votes {
				voted[pk] = true
			}
		}
		var fresh, workers []*scheduler.CommitteeNode
		for _, m := range st.Committee.Members {
			if m.Role == scheduler.RoleWorker {
				workers = append(workers, m)
			}
			if !voted[m.PublicKey] {
				fresh = append(fresh, m)
			}
		}
		msgKind := 0
		kind := "0"
		var members []*scheduler.CommitteeNode
		switch v {
		case "valid", "wrong-round", "bad-signature", "failure":
			if len(fresh) == 0 {
				return spec{skip: true}
			}
			members = []*scheduler.CommitteeNode{fresh[r.Intn(len(fresh))]}
			if !voted[sn.PublicKey] { // the scheduler's commitment has to come first
				for _, m := range fresh {
					if m.PublicKey.Equal(sn.PublicKey) {
						members = []*scheduler.CommitteeNode{m}
					}
				}
			}
			if v == "wrong-round" {
				kind = "R"
			}
			if v == "failure" {
				kind = "F"
			}
		case "valid-all":
			if len(fresh) == 0 {
				return spec{skip: true}
			}
			for _, m := range fresh { // scheduler first
				if m.PublicKey.Equal(sn.PublicKey) {
					members = append(members, m)
				}
			}
			for _, m := range fresh {
				if !m.PublicKey.Equal(sn.PublicKey) && m.Role == scheduler.RoleWorker {
					members = append(members, m)
				}
			}
			if len(members) == 0 {
				return spec{skip: true}
			}
		case "valid-messages", "bad-messages":
			if voted[sn.PublicKey] {
				return spec{skip: true}
			}
			for _, m := range st.Committee.Members {
				if m.PublicKey.Equal(sn.PublicKey) {
					members = []*scheduler.CommitteeNode{m}
				}
			}
			msgKind = 1 + r.Intn(2)
			if v == "bad-messages" {
				msgKind = 3
			}
		case "not-member":
			// a registered node that is not in the committee signs a commitment
			in := map[signature.PublicKey]bool{}
			for _, m := range st.Committee.Members {
				in[m.PublicKey] = true
			}
			for i := range w.nodes {
				pk := w.nodes[i].id.NodeSigner.Public()
				if !in[pk] {
					ec := g.commitFor(rt, st, pk, sn.PublicKey, "0", 0)
					b.Commits = []commitment.ExecutorCommitment{*ec}
					return spec{body: b, signer: sNode + i}
				}
			}
			return spec{skip: true}
		case "duplicate":
			m := st.Committee.Members[r.Intn(len(st.Committee.Members))]
			if len(workers) > 0 {
				m = workers[r.Intn(len(workers))]
			}
			ec := g.commitFor(rt, st, m.PublicKey, sn.PublicKey, "0", 0)
			if ec == nil {
				return spec{skip: true}
			}
			b.Commits = []commitment.ExecutorCommitment{*ec, *ec}
			return spec{body: b, signer: sNode + g.nodeIdx(m.PublicKey)}
		default:
			return spec{skip: true}
		}
		for _, m := range members {
			ec := g.commitFor(rt, st, m.PublicKey, sn.PublicKey, kind, msgKind)
			if ec == nil {
				continue
			}
			if v == "bad-signature" {
				ec.Signature[7] ^= 4
			}
			b.Commits = append(b.Commits, *ec)
		}
		if len(b.Commits) == 0 {
			return spec{skip: true}
		}
		costs := []uint64{opGas}
		if msgKind == 1 {
			costs = append(costs, opGas)
		} else if msgKind == 2 {
			costs = append(costs, 2*opGas)
		}
		return spec{body: b, signer: sNode + g.nodeIdx(b.Commits[0].NodeID), costs: costs}
	case "roothash.Evidence":
		ev := &roothash.Evidence{ID: w.rtIDs[rt]}
		signer := sAcct + r.Intn(numAccounts)
		if v == "unknown-runtime" {
			ev.ID = unknownRt
		}
		if v == "empty" || !hasCommittee {
			return spec{body: ev, signer: signer}
		}
		m := st.Committee.Members[r.Intn(len(st.Committee.Members))].PublicKey
		switch v {
		case "equivocation", "unknown-runtime", "bad-signature":
			a := g.commitFor(rt, st, m, m, "1", 0)
			bb := g.commitFor(rt, st, m, m, "2", 0)
			if a == nil || bb == nil {
				return spec{skip: true}
			}
			if v == "bad-signature" {
				bb.Signature[9] ^= 1
			}
			ev.EquivocationExecutor = &roothash.EquivocationExecutorEvidence{CommitA: *a, CommitB: *bb}
		case "same-commit":
			a := g.commitFor(rt, st, m, m, "1", 0)
			if a == nil {
				return spec{skip: true}
			}
			ev.EquivocationExecutor = &roothash.EquivocationExecutorEvidence{CommitA: *a, CommitB: *a}
		case "proposal-equivocation":
			idx := g.nodeIdx(m)
			if idx < 0 {
				return spec{skip: true}
			}
			mk := func(k int) commitment.Proposal {
				blk := block.NewEmptyBlock(st.LastBlock, 0, block.Normal)
				p := commitment.Proposal{NodeID: m, Header: commitment.ProposalHeader{Round: blk.Header.Round, PreviousHash: blk.Header.PreviousHash, BatchHash: stateRoot(10 + k)}}
				if err := p.Sign(w.nodes[idx].id.NodeSigner, w.rtIDs[rt]); err != nil {
					panic(err)
				}
				return p
			}
			ev.EquivocationProposal = &roothash.EquivocationProposalEvidence{ProposalA: mk(1), ProposalB: mk(2)}
		case "unknown-node":
			// well-formed, correctly signed equivocation by a key that is not a registered node
			// ("fake but valid" evidence: anybody can sign two proposals with a key of their own)
			ghost := testSigner("verif c08 ghost node")
			mk := func(k int) commitment.Proposal {
				blk := block.NewEmptyBlock(st.LastBlock, 0, block.Normal)
				p := commitment.Proposal{NodeID: ghost.Public(), Header: commitment.ProposalHeader{Round: blk.Header.Round, PreviousHash: blk.Header.PreviousHash, BatchHash: stateRoot(20 + k + r.Intn(50)*2)}}
				if err := p.Sign(ghost, w.rtIDs[rt]); err != nil {
					panic(err)
				}
				return p
			}
			ev.EquivocationProposal = &roothash.EquivocationProposalEvidence{ProposalA: mk(1), ProposalB: mk(2)}
		}
		return spec{body: ev, signer: signer}
	case "roothash.SubmitMsg":
		signer := sAcct + r.Intn(numAccounts)
		b := &roothash.SubmitMsg{ID: w.rtIDs[rt], Tag: uint64(r.Intn(100)), Fee: q(5 + uint64(r.Intn(10))), Tokens: q(uint64(r.Intn(500))), Data: []byte("verif")}
		switch v {
		case "fee-too-low":
			b.Fee = q(uint64(r.Intn(5)))
		case "unknown-runtime":
			b.ID = unknownRt
		case "too-much":
			b.Tokens = q(qU64(&g.acct(w.addrOf(signer)).General.Balance) + 1)
		}
		return spec{body: b, signer: signer}
	}
	return spec{skip: true}
}

// ---- vault ------------------------------------------------------------------------------------

func (g *builder) vaultSpec(method, v string) spec {
	r := g.r
	vs := g.vaults()
	auth := func(th uint8, idx ...int) vault.Authority {
		a := vault.Authority{Threshold: th}
		for _, i := range idx {
			a.Addresses = append(a.Addresses, g.acctAddr(i))
		}
		return a
	}
	switch method {
	case "vault.Create":
		signer := sAcct + g.pickArg(3)
		b := &vault.Create{AdminAuthority: auth(1, 0, 1), SuspendAuthority: auth(1, 2)}
		switch v {
		case "valid-2of3":
			b.AdminAuthority = auth(2, 0, 1, 3) // account 2 is suspend-authority only: it may cancel some actions, not admin-only ones
		case "no-addresses":
			b.AdminAuthority = vault.Authority{Threshold: 1}
		case "zero-threshold":
			b.SuspendAuthority = auth(0, 2)
		case "threshold-too-big":
			b.AdminAuthority = auth(3, 0, 1)
		}
		return spec{body: b, signer: signer, costs: []uint64{10000}}
	case "vault.AuthorizeAction":
		if len(vs) == 0 && v != "unknown-vault" {
			// no vault yet: the action addresses a vault that does not exist
			v = "unknown-vault"
		}
		b := &vault.AuthorizeAction{}
		signer := sAcct
		var vlt *vault.Vault
		if len(vs) > 0 {
			vlt = vs[g.pickArg(len(vs))]
			b.Vault = vlt.Address()
			b.Nonce = vlt.Nonce
			// an admin that has not authorized the pending action yet, if any
			signer = -1
			pa, _ := vaultState.NewImmutableState(g.t).PendingAction(g.ctx, vlt.Address(), vlt.Nonce)
			for i := 0; i < numAccounts; i++ {
				a := g.acctAddr(i)
				if vlt.AdminAuthority.Contains(a) && (pa == nil || !pa.ContainsAuthorizationFrom(a)) {
					signer = sAcct + i
					break
				}
			}
			if signer < 0 {
				signer = sAcct
			}
			if pa != nil && v != "different-action" && v != "wrong-nonce" && v != "not-authorized" && v != "unknown-vault" && v != "two-actions" {
				// join the pending action (this reaches the threshold of a 2-of-3 vault: inline execution)
				b.Action = pa.Action
				costs := []uint64{5000}
				if pa.Action.ExecuteMessage != nil {
					costs = append(costs, opGas)
				}
				return spec{body: b, signer: signer, costs: costs}
			}
		}
		costs := []uint64{5000}
		exec := func(m transaction.MethodName, body any) {
			b.Action.ExecuteMessage = &vault.ActionExecuteMessage{Method: m, Body: cbor.Marshal(body)}
			costs = append(costs, opGas)
		}
		switch v {
		case "suspend":
			b.Action.Suspend = &vault.ActionSuspend{}
		case "resume":
			b.Action.Resume = &vault.ActionResume{}
		case "exec-transfer":
			exec(staking.MethodTransfer, &staking.Transfer{To: g.acctAddr(4), Amount: q(uint64(10 + r.Intn(300)))})
		case "exec-too-much":
			exec(staking.MethodTransfer, &staking.Transfer{To: g.acctAddr(4), Amount: q(math.MaxUint64 / 3)})
		case "exec-unknown-method":
			exec("staking.Nonexistent", &staking.Transfer{})
		case "exec-malformed":
			b.Action.ExecuteMessage = &vault.ActionExecuteMessage{Method: staking.MethodTransfer, Body: malformed}
			costs = append(costs, opGas)
		case "exec-add-escrow":
			exec(staking.MethodAddEscrow, &staking.Escrow{Account: g.entAddr(r.Intn(numValidators)), Amount: q(uint64(10 + r.Intn(100)))})
		case "policy-self":
			// legal but unusual: the vault itself is given a withdraw policy on its own account
			if vlt != nil {
				b.Action.UpdateWithdrawPolicy = &vault.ActionUpdateWithdrawPolicy{Address: vlt.Address(),
					Policy: vault.WithdrawPolicy{LimitAmount: q(uint64(500 + r.Intn(1000))), LimitInterval: uint64(3 + r.Intn(5))}}
			} else {
				b.Action.Suspend = &vault.ActionSuspend{}
			}
		case "exec-withdraw-self":
			// the vault withdraws from itself (caller == From on the hook path)
			from := g.acctAddr(3)
			if vlt != nil {
				from = vlt.Address()
			}
			exec(staking.MethodWithdraw, &staking.Withdraw{From: from, Amount: q(uint64(10 + r.Intn(200)))})
		case "exec-withdraw":
			exec(staking.MethodWithdraw, &staking.Withdraw{From: g.acctAddr(1 + r.Intn(2)), Amount: q(uint64(10 + r.Intn(200)))})
		case "policy":
			b.Action.UpdateWithdrawPolicy = &vault.ActionUpdateWithdrawPolicy{Address: g.acctAddr(3),
				Policy: vault.WithdrawPolicy{LimitAmount: q(uint64(500 + r.Intn(1000))), LimitInterval: uint64(3 + r.Intn(5))}}
		case "authority":
			na := auth(1, 0, 1, 2)
			b.Action.UpdateAuthority = &vault.ActionUpdateAuthority{SuspendAuthority: &na}
		case "authority-invalid":
			na := vault.Authority{Threshold: 2, Addresses: []staking.Address{g.acctAddr(0)}}
			b.Action.UpdateAuthority = &vault.ActionUpdateAuthority{AdminAuthority: &na}
		case "wrong-nonce":
			b.Nonce += uint64(1 + r.Intn(3))
			b.Action.Suspend = &vault.ActionSuspend{}
		case "not-authorized":
			signer = sAcct + 5
			b.Action.Suspend = &vault.ActionSuspend{}
		case "unknown-vault":
			b.Vault = vault.NewVaultAddress(g.acctAddr(5), uint64(900+r.Intn(10)))
			b.Action.Suspend = &vault.ActionSuspend{}
		case "different-action":
			// an action different from the pending one (or simply a new one if nothing is pending)
			b.Action.UpdateWithdrawPolicy = &vault.ActionUpdateWithdrawPolicy{Address: g.acctAddr(r.Intn(numAccounts)),
				Policy: vault.WithdrawPolicy{LimitAmount: q(uint64(1 + r.Intn(1_000_000))), LimitInterval: uint64(1 + r.Intn(50))}}
		case "two-actions":
			b.Action.Suspend = &vault.ActionSuspend{}
			b.Action.Resume = &vault.ActionResume{}
		}
		return spec{body: b, signer: signer, costs: costs}
	case "vault.CancelAction":
		b := &vault.CancelAction{}
		signer := sAcct
		if len(vs) == 0 || v == "unknown-vault" {
			b.Vault = vault.NewVaultAddress(g.acctAddr(5), uint64(900+r.Intn(10)))
			return spec{body: b, signer: signer, costs: []uint64{5000}}
		}
		// prefer a vault with a pending action
		vlt := vs[r.Intn(len(vs))]
		for _, x := range vs {
			if pa, _ := vaultState.NewImmutableState(g.t).PendingAction(g.ctx, x.Address(), x.Nonce); pa != nil {
				vlt = x
			}
		}
		b.Vault, b.Nonce = vlt.Address(), vlt.Nonce
		switch v {
		case "wrong-nonce":
			b.Nonce += 2
		case "not-authorized":
			signer = sAcct + 5
			if r.Bool() {
				signer = sAcct + 2 // suspend authority only: passes the first check, fails the action-specific one
			}
		case "suspend-member":
			// a member of the suspend authority only cancels a pending admin-only action: passes the
			// membership check, fails the action-specific authority check
			signer = sAcct + 2
		}
		return spec{body: b, signer: signer, costs: []uint64{5000}}
	}
	return spec{skip: true}
}

// ---- beacon -----------------------------------------------------------------------------------

func (g *builder) beaconSpec(method, v string) spec {
	r, w := g.r, g.c.w
	bs := beaconState.NewImmutableState(g.t)
	e, _, _ := bs.GetEpoch(g.ctx)
	switch method {
	case "beacon.SetEpoch":
		signer := sAcct + r.Intn(numAccounts)
		ne := e + 1
		switch v {
		case "not-advancing":
			ne = e - beacon.EpochTime(r.Intn(2))
		case "far":
			ne = e + 3
		}
		return spec{body: ne, signer: signer}
	case "beacon.VRFProve":
		n := g.pickArg(numValidators + numCompute)
		signer := sNode + n
		b := &beacon.VRFProve{Epoch: e, Pi: []byte{1, 2, 3}}
		vst, err := bs.VRFState(g.ctx)
		if err == nil && vst != nil {
			b.Epoch = vst.Epoch
			vs := w.nodes[n].id.VRFSigner
			if v == "foreign-proof" {
				vs = w.nodes[(n+1)%len(w.nodes)].id.VRFSigner
			}
			if ms, ok := vs.(*memorySigner.Signer); ok {
				ms.UnsafeSetRole(signature.SignerVRF)
			}
			if vrf, ok := vs.(signature.VRFSigner); ok {
				if pi, err := vrf.Prove(vst.Alpha); err == nil {
					b.Pi = pi
				}
			}
		}
		switch v {
		case "wrong-epoch":
			b.Epoch += 1 + beacon.EpochTime(r.Intn(3))
		case "bad-proof":
			if len(b.Pi) > 4 {
				b.Pi = append([]byte{}, b.Pi...)
				b.Pi[3] ^= 0x20
			}
		case "off-curve":
			// right length, gamma is not the encoding of a curve point
			b.Pi = bytes.Repeat([]byte{0xff}, 80)
			if r.Intn(2) == 0 && len(b.Pi) == 80 {
				b.Pi[0] = 2
				for i := 1; i < 32; i++ {
					b.Pi[i] = 0
				}
			}
		case "bad-scalar":
			// valid gamma and c, non-canonical s
			if len(b.Pi) == 80 {
				b.Pi = append([]byte{}, b.Pi...)
				for i := 48; i < 80; i++ {
					b.Pi[i] = 0xff
				}
			}
		case "short":
			if len(b.Pi) > 1 {
				b.Pi = b.Pi[:len(b.Pi)-1-r.Intn(len(b.Pi)-1)]
			}
		case "not-node":
			signer = sAcct + r.Intn(numAccounts)
		}
		return spec{body: b, signer: signer}
	}
	return spec{skip: true}
}

// ---- key manager ------------------------------------------------------------------------------

func (g *builder) keymanagerSpec(method, v string) spec {
	r, w := g.r, g.c.w
	km := w.rtIDs[2]
	owner := sEnt + 1
	unknownRt := common.NewTestNamespaceFromSeed([]byte("verif c08 unknown km"), common.NamespaceKeyManager)
	rtFor := func() common.Namespace {
		switch v {
		case "not-km":
			return w.rtIDs[0]
		case "unknown-runtime":
			return unknownRt
		}
		return km
	}
	e := g.epoch()
	switch method {
	case "keymanager.UpdatePolicy":
		serial := uint32(1)
		if st, err := secretsState.NewImmutableState(g.t).Status(g.ctx, km); err == nil {
			if st.NextPolicy != nil {
				serial = st.NextPolicy.Policy.Serial + 1
			}
			if st.Policy != nil && st.Policy.Policy.Serial >= serial {
				serial = st.Policy.Policy.Serial + 1
			}
		}
		if v == "stale-serial" {
			serial = 0
		}
		pol := secrets.PolicySGX{Serial: serial, ID: rtFor(), MaxEphemeralSecretAge: beacon.EpochTime(1 + r.Intn(5))}
		sp := &secrets.SignedPolicySGX{Policy: pol}
		raw := cbor.Marshal(pol)
		for _, s := range keymanager.TestSigners[1:] {
			sig, err := signature.Sign(s, secrets.PolicySGXSignatureContext, raw)
			if err != nil {
				panic(err)
			}
			sp.Signatures = append(sp.Signatures, *sig)
		}
		if v == "bad-signature" {
			sp.Signatures[0].Signature[1] ^= 2
		}
		signer := owner
		if v == "not-owner" {
			signer = sEnt + 2
		}
		return spec{body: sp, signer: signer}
	case "keymanager.PublishMasterSecret":
		b := &secrets.SignedEncryptedMasterSecret{Secret: secrets.EncryptedMasterSecret{ID: rtFor(), Generation: uint64(r.Intn(3)), Epoch: e + 1}}
		return spec{body: b, signer: sNode + r.Intn(numValidators)}
	case "keymanager.PublishEphemeralSecret":
		b := &secrets.SignedEncryptedEphemeralSecret{Secret: secrets.EncryptedEphemeralSecret{ID: rtFor(), Epoch: e + 1}}
		return spec{body: b, signer: sNode + r.Intn(numValidators)}
	case "keymanager/churp.Create":
		id := uint8(1 + r.Intn(4))
		if v != "valid" {
			id = uint8(10 + r.Intn(200))
		}
		ident := churp.Identity{ID: id, RuntimeID: rtFor()}
		b := &churp.CreateRequest{Identity: ident, Threshold: uint8(1 + r.Intn(3)), ExtraShares: uint8(r.Intn(2)), HandoffInterval: beacon.EpochTime(r.Intn(3)),
			Policy: churp.SignedPolicySGX{Policy: churp.PolicySGX{Identity: ident, Serial: 0}}}
		signer := owner
		switch v {
		case "not-owner":
			signer = sEnt + 3
		case "bad-suite":
			b.SuiteID = 9
		case "policy-mismatch":
			b.Policy.Policy.ID = id + 1
		case "bad-serial":
			b.Policy.Policy.Serial = 5
		case "big-threshold":
			b.Threshold = 200
		}
		return spec{body: b, signer: signer}
	case "keymanager/churp.Update":
		sts, _ := churpState.NewImmutableState(g.t).Statuses(g.ctx, km)
		id := uint8(1 + r.Intn(4))
		if len(sts) > 0 && v != "no-such" {
			id = sts[r.Intn(len(sts))].ID
		}
		if v == "no-such" {
			id = uint8(100 + r.Intn(50))
		}
		b := &churp.UpdateRequest{Identity: churp.Identity{ID: id, RuntimeID: km}, HandoffInterval: ptr(beacon.EpochTime(r.Intn(4)))}
		signer := owner
		switch v {
		case "not-owner":
			signer = sEnt + 3
		case "empty":
			b.HandoffInterval = nil
		}
		return spec{body: b, signer: signer}
	case "keymanager/churp.Apply":
		sts, _ := churpState.NewImmutableState(g.t).Statuses(g.ctx, km)
		id := uint8(100 + r.Intn(50))
		ep := e + 1
		if v != "no-such" && len(sts) > 0 {
			s := sts[r.Intn(len(sts))]
			id, ep = s.ID, s.NextHandoff
		}
		b := &churp.SignedApplicationRequest{Application: churp.ApplicationRequest{Identity: churp.Identity{ID: id, RuntimeID: km}, Epoch: ep}}
		signer := sNode + r.Intn(numValidators+numCompute)
		if v == "not-node" {
			signer = sAcct + r.Intn(numAccounts)
		}
		return spec{body: b, signer: signer}
	case "keymanager/churp.Confirm":
		sts, _ := churpState.NewImmutableState(g.t).Statuses(g.ctx, km)
		id := uint8(100 + r.Intn(50))
		ep := e + 1
		if v != "no-such" && len(sts) > 0 {
			s := sts[r.Intn(len(sts))]
			id, ep = s.ID, s.NextHandoff
		}
		b := &churp.SignedConfirmationRequest{Confirmation: churp.ConfirmationRequest{Identity: churp.Identity{ID: id, RuntimeID: km}, Epoch: ep}}
		return spec{body: b, signer: sNode + r.Intn(numValidators+numCompute)}
	}
	return spec{skip: true}
}
