package main

// Restore of a checkpoint into a NON-EMPTY database followed by pruning of the older versions
// (property C06: a finalized version stays fully readable no matter which earlier versions have
// been pruned; the restored version is finalized through the multipart path).
//
// ops (focus c06):
//   kv K V                      contents of the checkpointed tree
//   restorene BACKEND SEED SIZE THREADS [pending]
//       the destination first gets 1..3 local finalized versions whose contents are variations of
//       the checkpointed contents (so that the trees share leaves and subtrees), the checkpoint of
//       a LATER version is restored and finalized, then the local versions are pruned one by one;
//       after every step every finalized, not yet pruned root must read back with exactly its
//       contents.
//
// Specification checks evaluated directly on the implementation (no model in between).

import (
	"bytes"
	"context"
	"errors"
	"fmt"
	"os"
	"sort"
	"strings"

	"github.com/oasisprotocol/oasis-core/go/storage/mkvs"
	"github.com/oasisprotocol/oasis-core/go/storage/mkvs/checkpoint"
	"github.com/oasisprotocol/oasis-core/go/storage/mkvs/node"

	"verifharness/hlib"
)

func sameKVs(got []kv, want map[string][]byte) string {
	if len(got) != len(want) {
		return fmt.Sprintf("%d keys readable, %d expected", len(got), len(want))
	}
	for _, e := range got {
		if v, ok := want[string(e.k)]; !ok || !bytes.Equal(v, e.v) {
			return fmt.Sprintf("key %s reads %s", hx(e.k), hx(e.v))
		}
	}
	return ""
}

func (c *c12Runner) runRestoreNonEmpty(backend string, seed uint64, size uint64, threads uint16, kvs []kv, withPending bool) {
	r := hlib.FromState(seed | 1)
	dir := ""
	if !strings.HasSuffix(backend, "mem") {
		dir = scratchDir("dstne")
		defer os.RemoveAll(dir)
	}
	ndb := openDB(backend, dir)
	defer ndb.Close()
	c.res.Count("restorene:" + backend)

	type fin struct {
		root node.Root
		want map[string][]byte
	}
	var fins []fin
	// local history
	nlocal := 1 + r.Intn(3)
	cur := map[string][]byte{}
	var prev *node.Root
	for v := 1; v <= nlocal; v++ {
		var t mkvs.Tree
		if prev == nil {
			t = mkvs.New(nil, ndb, node.RootTypeState)
		} else {
			t = mkvs.NewWithRoot(nil, ndb, *prev)
		}
		// move towards the checkpointed contents, leaving a few differences
		for _, e := range kvs {
			switch x := r.Intn(10); {
			case v == nlocal && x < 8, x < 5:
				if !bytes.Equal(cur[string(e.k)], e.v) || cur[string(e.k)] == nil {
					_ = t.Insert(ctx, e.k, e.v)
					cur[string(e.k)] = e.v
				}
			case x == 8:
				val := append([]byte{0x7e}, e.v...)
				_ = t.Insert(ctx, e.k, val)
				cur[string(e.k)] = val
			case x == 9:
				if _, ok := cur[string(e.k)]; ok {
					_ = t.Remove(ctx, e.k)
					delete(cur, string(e.k))
				}
			}
		}
		if r.Chance(1, 2) {
			k := []byte{0xee, byte(v)}
			_ = t.Insert(ctx, k, []byte("local"))
			cur[string(k)] = []byte("local")
		}
		_, h, err := t.Commit(ctx, testNs, uint64(v))
		t.Close()
		if err != nil {
			c.fail("spec", "restorene-setup", fmt.Sprintf("local commit %d: %v", v, err))
			return
		}
		root := node.Root{Namespace: testNs, Version: uint64(v), Type: node.RootTypeState, Hash: h}
		if err = ndb.Finalize([]node.Root{root}); err != nil {
			c.fail("spec", "restorene-setup", fmt.Sprintf("local finalize %d: %v", v, err))
			return
		}
		w := map[string][]byte{}
		for k, val := range cur {
			w[k] = val
		}
		fins = append(fins, fin{root, w})
		prev = &root
	}
	// source and checkpoint at a later version
	ver := uint64(nlocal + 1 + r.Intn(3))
	if withPending {
		ver = uint64(nlocal + 1)
	}
	src := newServer("badgermem", kvs, ver)
	defer src.close()
	pending := false
	if withPending && prev != nil {
		// a non-finalized candidate of the restored version that shares nodes with the restored tree
		// exists before the restore and is discarded by the restore's Finalize (the case the Lean
		// model singles out: C06Restore.fresh_version_is_needed)
		t := mkvs.NewWithRoot(nil, ndb, *prev)
		for _, e := range kvs {
			_ = t.Insert(ctx, e.k, e.v)
		}
		_ = t.Insert(ctx, []byte{0xee, 0xfe}, []byte("candidate"))
		_, _, err := t.Commit(ctx, testNs, ver)
		t.Close()
		pending = err == nil
		c.res.Count(fmt.Sprintf("restorene:pending-candidate:%v", pending))
	}
	cd, err := createCheckpoint(src, size, threads)
	if err != nil {
		c.res.Count("restorene:checkpoint-not-creatable")
		return
	}
	rs, err := checkpoint.NewRestorer(ndb)
	if err != nil {
		panic(err)
	}
	if err = ndb.StartMultipartInsert(ver); err != nil {
		c.fail("spec", "restorene-error", "StartMultipartInsert: "+err.Error())
		return
	}
	if err = rs.StartRestore(ctx, cd.meta); err != nil {
		c.fail("spec", "restorene-error", "StartRestore: "+err.Error())
		return
	}
	order := make([]int, len(cd.chunks))
	for i := range order {
		order[i] = i
	}
	for i := len(order) - 1; i > 0; i-- {
		j := r.Intn(i + 1)
		order[i], order[j] = order[j], order[i]
	}
	transient := -1
	if len(order) > 1 && r.Chance(1, 3) {
		// a transient failure that is not the chunk's fault (the caller's context is gone): the chunk
		// must stay restorable, and the version finalized afterwards must be complete
		cctx, cancel := context.WithCancel(ctx)
		cancel()
		if _, err = rs.RestoreChunk(cctx, uint64(order[0]), bytes.NewReader(cd.chunks[order[0]])); err != nil {
			transient = order[0]
			c.res.Count("restorene:transient-failure")
		} else {
			order = order[1:]
		}
	}
	again := -1
	if r.Chance(1, 3) {
		again = r.Intn(len(order))
	}
	for n, i := range order {
		if n == again {
			if err = ndb.StartMultipartInsert(ver); err != nil {
				c.fail("spec", "spec-repeated-start-multipart-refused", "StartMultipartInsert of the version in progress: "+err.Error())
				return
			}
			c.res.Count("restorene:start-again")
		}
		if _, err = rs.RestoreChunk(ctx, uint64(i), bytes.NewReader(cd.chunks[i])); err != nil {
			if i == transient && errors.Is(err, checkpoint.ErrChunkAlreadyRestored) {
				c.fail("spec", "spec-restore-chunk-lost-after-transient-failure", fmt.Sprintf("%s: RestoreChunk(%d) failed once under a cancelled context; the retry with the genuine bytes is refused as already restored, so the version would be finalized without this chunk's nodes", backend, i))
				return
			}
			if strings.Contains(err.Error(), "max proof depth") || strings.Contains(err.Error(), "verification failed") {
				// F3 (known finding of C04/C12): deep trees cannot be restored at all
				c.res.Count("restorene:chunk-not-restorable")
				_ = rs.AbortRestore(ctx)
				_ = ndb.AbortMultipartInsert()
				return
			}
			c.fail("spec", "restorene-error", fmt.Sprintf("RestoreChunk(%d): %v", i, err))
			return
		}
	}
	if err = ndb.Finalize([]node.Root{src.root}); err != nil {
		c.fail("spec", "restorene-error", "Finalize of the restored root: "+err.Error())
		return
	}
	fins = append(fins, fin{src.root, src.ref})
	c.res.Count("restorene:restored")

	checkAll := func(after string, from int) bool {
		for _, f := range fins[from:] {
			got, err := readAll(ndb, f.root)
			d := ""
			if err != nil {
				d = "read error: " + err.Error()
			} else {
				d = sameKVs(got, f.want)
			}
			if d != "" {
				what := "spec-local-root-unreadable-after-restore"
				if f.root.Version == ver {
					what = "spec-restored-root-unreadable-after-pruning-older-versions"
					if after == "restore" {
						what = "spec-restored-root-unreadable"
					}
				}
				if pending {
					what += ":candidate-of-the-restored-version-pending:" + strings.TrimSuffix(backend, "mem")
				}
				c.fail("spec", what, fmt.Sprintf("%s, %d local versions, restored version %d, after %s: finalized root of version %d (not pruned): %s", backend, nlocal, ver, after, f.root.Version, d))
				return false
			}
		}
		return true
	}
	if !checkAll("restore", 0) {
		return
	}
	for v := 1; v <= nlocal; v++ {
		if err = ndb.Prune(uint64(v)); err != nil {
			c.res.Count("restorene:prune-refused:" + strings.ReplaceAll(trunc(err.Error()), " ", "_"))
			return
		}
		c.res.Count("restorene:pruned")
		if !checkAll(fmt.Sprintf("Prune(1..%d)", v), v) {
			return
		}
	}
	// the restored version can be built upon
	t := mkvs.NewWithRoot(nil, ndb, src.root)
	_ = t.Insert(ctx, []byte{0xee, 0xff}, []byte("next"))
	_, h, err := t.Commit(ctx, testNs, ver+1)
	t.Close()
	if err != nil {
		c.fail("spec", "spec-restored-root-not-extendable", fmt.Sprintf("%s: commit of version %d on top of the restored root: %v", backend, ver+1, err))
		return
	}
	next := node.Root{Namespace: testNs, Version: ver + 1, Type: node.RootTypeState, Hash: h}
	if err = ndb.Finalize([]node.Root{next}); err != nil {
		c.fail("spec", "spec-restored-root-not-extendable", fmt.Sprintf("%s: finalize of version %d: %v", backend, ver+1, err))
		return
	}
	for v := uint64(nlocal + 1); v < ver; v++ {
		_ = ndb.Prune(v) // versions without roots between the local history and the restored version
	}
	if err = ndb.Prune(ver); err == nil {
		c.res.Count("restorene:pruned-restored")
		want := map[string][]byte{string([]byte{0xee, 0xff}): []byte("next")}
		for k, v := range src.ref {
			want[k] = v
		}
		got, err := readAll(ndb, next)
		d := ""
		if err != nil {
			d = "read error: " + err.Error()
		} else {
			d = sameKVs(got, want)
		}
		if d != "" {
			c.fail("spec", "spec-successor-of-restored-root-unreadable-after-pruning-it", fmt.Sprintf("%s: version %d after Prune(%d): %s", backend, ver+1, ver, d))
		}
	}
}

func runCaseC06(lines []string, res *hlib.Result) (fails []hlib.Failure, nlines int) {
	var kvs []kv
	for _, l := range lines {
		w := strings.Fields(l)
		if w[0] == "kv" {
			kvs = append(kvs, kv{unhx(w[1]), unhx(w[2])})
		}
	}
	sort.SliceStable(kvs, func(i, j int) bool { return bytes.Compare(kvs[i].k, kvs[j].k) < 0 })
	c := &c12Runner{}
	c.res = res
	n := 0
	func() {
		defer func() {
			if r := recover(); r != nil {
				c.fail("panic", "driver-panic", fmt.Sprint(r))
			}
		}()
		for _, l := range lines {
			w := strings.Fields(l)
			if w[0] == "restorene" && len(w) >= 5 {
				n++
				c.runRestoreNonEmpty(w[1], uint64(atoi(w[2])), uint64(atoi(w[3])), uint16(atoi(w[4])), kvs, len(w) == 6 && w[5] == "pending")
			}
		}
	}()
	return c.failures, n
}

func genCaseC06(r *hlib.Rng, res *hlib.Result, i int) []string {
	var lines []string
	deepForce = false
	shape := []int{1, 1, 2, 3, 3, 3, 4, 5}[r.Intn(8)]
	keys := genKeys(r, shape, res)
	seen := map[string]bool{}
	for _, k := range keys {
		if seen[string(k)] {
			continue
		}
		seen[string(k)] = true
		lines = append(lines, "kv "+hx(k)+" "+hx(genValue(r)))
	}
	backends := []string{"badgermem", "pathbadgermem", "badger", "pathbadger"}
	sizes := []int{1, 10, 50, 200, 4096, 1 << 20}
	threads := []int{0, 0, 1, 2, 4}
	for a := 0; a < 1+r.Intn(3); a++ {
		l := fmt.Sprintf("restorene %s %d %d %d", backends[(i+a)%len(backends)], r.Next()>>12, sizes[r.Intn(len(sizes))], threads[r.Intn(len(threads))])
		if r.Chance(1, 5) {
			l += " pending"
		}
		lines = append(lines, l)
	}
	return lines
}
