// proofdrv: correspondence between the real MKVS proof machinery (go/storage/mkvs/syncer:
// ProofBuilder, ProofVerifier; the ReadSyncer side of go/storage/mkvs; checkpoint chunker and
// restorer) and the Lean model (`om_proof`), plus specification checks evaluated directly on the
// real code. Properties C04 (-focus c04) and C12 (-focus c12).
package main

import (
	"bytes"
	"context"
	"encoding/hex"
	"errors"
	"flag"
	"fmt"
	"os"
	"sort"
	"strconv"
	"strings"
	"time"

	"verifharness/hlib"

	"github.com/oasisprotocol/oasis-core/go/common"
	"github.com/oasisprotocol/oasis-core/go/common/crypto/hash"
	"github.com/oasisprotocol/oasis-core/go/storage/mkvs"
	db "github.com/oasisprotocol/oasis-core/go/storage/mkvs/db/api"
	badgerDb "github.com/oasisprotocol/oasis-core/go/storage/mkvs/db/badger"
	pathBadgerDb "github.com/oasisprotocol/oasis-core/go/storage/mkvs/db/pathbadger"
	"github.com/oasisprotocol/oasis-core/go/storage/mkvs/node"
	"github.com/oasisprotocol/oasis-core/go/storage/mkvs/syncer"
	"github.com/oasisprotocol/oasis-core/go/storage/mkvs/writelog"
)

var ctx = context.Background()

// ---------------------------------------------------------------- line protocol encoding

func hx(b []byte) string {
	if len(b) == 0 {
		return "-"
	}
	return hex.EncodeToString(b)
}

func unhx(s string) []byte {
	if s == "-" {
		return []byte{}
	}
	b, err := hex.DecodeString(s)
	if err != nil {
		panic("bad hex in op: " + s)
	}
	return b
}

func atoi(s string) int {
	n, err := strconv.Atoi(s)
	if err != nil {
		panic("bad number in op: " + s)
	}
	return n
}

func showEntries(es [][]byte) string {
	if len(es) == 0 {
		return "."
	}
	s := make([]string, len(es))
	for i, e := range es {
		if e == nil {
			s[i] = "~"
		} else {
			s[i] = hx(e)
		}
	}
	return strings.Join(s, ",")
}

func parseEntries(s string) [][]byte {
	if s == "." {
		return nil
	}
	var es [][]byte
	for _, e := range strings.Split(s, ",") {
		if e == "~" {
			es = append(es, nil)
		} else {
			es = append(es, unhx(e))
		}
	}
	return es
}

func showLog(wl writelog.WriteLog) string {
	if len(wl) == 0 {
		return "."
	}
	s := make([]string, len(wl))
	for i, e := range wl {
		s[i] = hx(e.Key) + ":" + hx(e.Value)
	}
	return strings.Join(s, ",")
}

func showAns(v []byte) string {
	if v == nil {
		return "absent"
	}
	return "val " + hx(v)
}

// ---------------------------------------------------------------- the real tree

var testNs = func() common.Namespace {
	var ns common.Namespace
	copy(ns[8:], []byte("verif-mkvs-namespace-012"))
	return ns
}()

var scratchSeq int

func scratchDir(tag string) string {
	base := os.Getenv("VERIF_SCRATCH")
	if base == "" {
		base = os.TempDir()
	}
	scratchSeq++
	d, err := os.MkdirTemp(base, fmt.Sprintf("proofdrv-%s-%d-", tag, scratchSeq))
	if err != nil {
		panic(err)
	}
	return d
}

type kv struct{ k, v []byte }

// server is a committed real tree with its NodeDB.
type server struct {
	backend string
	dir     string
	ndb     db.NodeDB
	tree    mkvs.Tree
	root    node.Root
	ref     map[string][]byte
	keys    [][]byte // sorted
}

func openDB(backend, dir string) db.NodeDB {
	cfg := &db.Config{DB: dir, NoFsync: true, Namespace: testNs, MaxCacheSize: 16 * 1024 * 1024}
	var ndb db.NodeDB
	var err error
	switch backend {
	case "badger":
		ndb, err = badgerDb.New(cfg)
	case "badgermem":
		cfg.MemoryOnly = true
		ndb, err = badgerDb.New(cfg)
	case "pathbadger":
		ndb, err = pathBadgerDb.New(cfg)
	case "pathbadgermem":
		cfg.MemoryOnly = true
		ndb, err = pathBadgerDb.New(cfg)
	default:
		panic("unknown backend " + backend)
	}
	if err != nil {
		panic(fmt.Sprintf("open %s: %v", backend, err))
	}
	return ndb
}

func newServer(backend string, kvs []kv, version uint64) *server {
	s := &server{backend: backend, ref: map[string][]byte{}}
	if !strings.HasSuffix(backend, "mem") {
		s.dir = scratchDir("srv")
	}
	s.ndb = openDB(backend, s.dir)
	t := mkvs.New(nil, s.ndb, node.RootTypeState)
	for _, e := range kvs {
		if err := t.Insert(ctx, e.k, e.v); err != nil {
			panic(err)
		}
		s.ref[string(e.k)] = e.v
	}
	_, h, err := t.Commit(ctx, testNs, version)
	if err != nil {
		panic(err)
	}
	s.root = node.Root{Namespace: testNs, Version: version, Type: node.RootTypeState, Hash: h}
	if err = s.ndb.Finalize([]node.Root{s.root}); err != nil {
		panic(err)
	}
	t.Close()
	s.tree = mkvs.NewWithRoot(nil, s.ndb, s.root)
	for k := range s.ref {
		s.keys = append(s.keys, []byte(k))
	}
	sort.Slice(s.keys, func(i, j int) bool { return bytes.Compare(s.keys[i], s.keys[j]) < 0 })
	return s
}

func (s *server) close() {
	if s == nil {
		return
	}
	func() {
		defer func() { _ = recover() }()
		s.tree.Close()
		s.ndb.Close()
	}()
	if s.dir != "" {
		os.RemoveAll(s.dir)
	}
}

// nodes walks the committed tree through the NodeDB (pre-order: node, own leaf, left, right).
func (s *server) nodes() []node.Node {
	var out []node.Node
	var walk func(ptr *node.Pointer)
	walk = func(ptr *node.Pointer) {
		if ptr == nil || ptr.Hash.IsEmpty() {
			return
		}
		n, err := s.ndb.GetNode(s.root, ptr)
		if err != nil {
			panic(fmt.Sprintf("GetNode: %v", err))
		}
		out = append(out, n)
		if in, ok := n.(*node.InternalNode); ok {
			if in.LeafNode != nil {
				out = append(out, in.LeafNode.Node)
			}
			walk(in.Left)
			walk(in.Right)
		}
	}
	walk(&node.Pointer{Clean: true, Hash: s.root.Hash})
	return out
}

// ---------------------------------------------------------------- verifier verdicts

// errClass maps the verifier's error values to the classes of the model.
func errClass(err error) string {
	if err == nil {
		return "ok"
	}
	m := err.Error()
	switch {
	case strings.Contains(m, "unsupported proof version"):
		return "bad-version"
	case strings.Contains(m, "got proof for unexpected root"):
		return "unexpected-root"
	case strings.Contains(m, "empty proof"):
		return "empty-proof"
	case strings.Contains(m, "verifier: malformed proof"):
		return "malformed-proof"
	case strings.Contains(m, "max proof depth exceeded"):
		return "max-depth"
	case errors.Is(err, node.ErrMalformedNode), errors.Is(err, node.ErrMalformedKey),
		strings.Contains(m, "failed to unmarshal"):
		return "node"
	case errors.Is(err, hash.ErrMalformed):
		return "hash"
	case strings.Contains(m, "unexpected entry in proof"):
		return "unexpected-entry"
	case strings.Contains(m, "unused entries in proof"):
		return "unused-entries"
	case strings.Contains(m, "verifier: bad root"):
		return "bad-root"
	}
	return "other:" + strings.ReplaceAll(m, " ", "_")
}

// realVerify runs the real verifier; returns the model-format answer.
func realVerify(root hash.Hash, p *syncer.Proof) (ans string, accepted bool, panicked string) {
	defer func() {
		if r := recover(); r != nil {
			panicked = fmt.Sprint(r)
			ans = "PANIC"
		}
	}()
	var pv syncer.ProofVerifier
	wl, err := pv.VerifyProofToWriteLog(ctx, root, p)
	if err != nil {
		return "err " + errClass(err), false, ""
	}
	// VerifyProof must agree with VerifyProofToWriteLog.
	if _, err2 := pv.VerifyProof(ctx, root, p); err2 != nil {
		return "err-inconsistent " + errClass(err2), false, ""
	}
	return "ok " + showLog(wl), true, ""
}

func cloneProof(p *syncer.Proof) *syncer.Proof {
	q := &syncer.Proof{V: p.V, UntrustedRoot: p.UntrustedRoot}
	for _, e := range p.Entries {
		if e == nil {
			q.Entries = append(q.Entries, nil)
		} else {
			q.Entries = append(q.Entries, append([]byte{}, e...))
		}
	}
	return q
}

func proofLine(root hash.Hash, p *syncer.Proof) string {
	return fmt.Sprintf("verify %d %s %s %s", p.V, hx(root[:]), hx(p.UntrustedRoot[:]), showEntries(p.Entries))
}

// fixedSyncer answers every request with the same proof.
type fixedSyncer struct{ p *syncer.Proof }

func (f *fixedSyncer) SyncGet(context.Context, *syncer.GetRequest) (*syncer.ProofResponse, error) {
	return &syncer.ProofResponse{Proof: *cloneProof(f.p)}, nil
}

func (f *fixedSyncer) SyncGetPrefixes(context.Context, *syncer.GetPrefixesRequest) (*syncer.ProofResponse, error) {
	return &syncer.ProofResponse{Proof: *cloneProof(f.p)}, nil
}

func (f *fixedSyncer) SyncIterate(context.Context, *syncer.IterateRequest) (*syncer.ProofResponse, error) {
	return &syncer.ProofResponse{Proof: *cloneProof(f.p)}, nil
}

// ---------------------------------------------------------------- a C04 case

// A case is a list of lines:
//   kv K V                                   contents of the tree
//   get V SIB K                              honest SyncGet (root position) for key K
//   prefixes V LIMIT P1,P2,...               honest SyncGetPrefixes
//   iterate V PREFETCH K                     honest SyncIterate
//   incl V I1,I2,...                         ProofBuilder over an arbitrary set of nodes (pre-order indices)
//   proof V ROOT UNTRUSTED ENTRIES PROBES    explicit (mutated) proof; ROOT `=` means the tree's root
//   remote NODECAP VALCAP RATE SEED N        corrupting ReadSyncer between the tree and a remote client
type caseRunner struct {
	res      *hlib.Result
	srv      *server
	lines    []string
	checks   []func(ans string) string // returns "" or a failure detail
	sigs     []string
	failures []hlib.Failure
}

func (c *caseRunner) ask(line string, sig string, check func(ans string) string) {
	c.lines = append(c.lines, line)
	c.checks = append(c.checks, check)
	c.sigs = append(c.sigs, sig)
}

func (c *caseRunner) fail(kind, sig, detail string) {
	c.failures = append(c.failures, hlib.Failure{Kind: kind, Sig: sig, Detail: detail})
}

func expect(want string) func(string) string {
	return func(ans string) string {
		if ans != want {
			return fmt.Sprintf("model `%s` implementation `%s`", trunc(ans), trunc(want))
		}
		return ""
	}
}

func trunc(s string) string {
	if len(s) > 600 {
		return s[:600] + "…"
	}
	return s
}

// probeKeys: the keys of the tree plus neighbours (prefixes, extensions, bit flips).
func (c *caseRunner) probeKeys(extra ...[]byte) [][]byte {
	seen := map[string]bool{}
	var out [][]byte
	add := func(k []byte) {
		if !seen[string(k)] && len(out) < 40 {
			seen[string(k)] = true
			out = append(out, append([]byte{}, k...))
		}
	}
	for _, k := range extra {
		add(k)
	}
	for _, k := range c.srv.keys {
		add(k)
		if len(k) > 0 {
			add(k[:len(k)-1])
			f := append([]byte{}, k...)
			f[len(f)-1] ^= 1
			add(f)
		}
		add(append(append([]byte{}, k...), 0))
	}
	return out
}

// checkAccepted: everything that must hold for a proof both verifiers accepted against the
// tree's own root: the rebuilt tree is a sub-tree of the model tree (Lean `subB`), the model's
// local lookups and the real remote client's answers equal the full tree's answers (or are
// unresolved / errors).
func (c *caseRunner) checkAccepted(p *syncer.Proof, probes [][]byte, what string) {
	c.ask("sub", "spec-accepted-proof-not-subtree", func(ans string) string {
		if ans != "ok" {
			return "accepted proof is not a sub-tree of the tree (" + what + "): " + ans
		}
		return ""
	})
	if len(probes) > 0 {
		k0 := probes[0]
		n := 3
		c.ask(fmt.Sprintf("iter %s %d", hx(k0), n), "spec-model-iterate-wrong", func(ans string) string {
			c.res.Count("iterprobe:" + strings.Fields(ans)[0])
			if ans == "unresolved" {
				return ""
			}
			i := sort.Search(len(c.srv.keys), func(i int) bool { return bytes.Compare(c.srv.keys[i], k0) >= 0 })
			var items []string
			for j := i; j < len(c.srv.keys) && j < i+n; j++ {
				items = append(items, hx(c.srv.keys[j])+":"+hx(c.srv.ref[string(c.srv.keys[j])]))
			}
			want := "items ."
			if len(items) > 0 {
				want = "items " + strings.Join(items, ",")
			}
			if ans != want {
				return fmt.Sprintf("model iteration from %s on accepted proof (%s) gives `%s`, tree has `%s`", hx(k0), what, trunc(ans), trunc(want))
			}
			return ""
		})
	}
	client := mkvs.NewWithRoot(&fixedSyncer{p}, nil, c.srv.root)
	defer client.Close()
	for _, k := range probes {
		truth := c.srv.ref[string(k)]
		k := k
		c.ask("get "+hx(k), "spec-model-lookup-wrong", func(ans string) string {
			c.res.Count("lookup:" + strings.Fields(ans)[0])
			if ans != "unresolved" && ans != showAns(truth) {
				return fmt.Sprintf("model lookup of %s on accepted proof (%s) gives `%s`, tree has `%s`", hx(k), what, ans, showAns(truth))
			}
			return ""
		})
		func() {
			defer func() {
				if r := recover(); r != nil {
					c.fail("panic", "client-panic", fmt.Sprintf("remote client Get(%s) on accepted proof (%s): %v", hx(k), what, r))
				}
			}()
			v, err := client.Get(ctx, k)
			if err != nil {
				c.res.Count("client:error")
				return
			}
			c.res.Count("client:answer")
			if !bytes.Equal(v, truth) || (v == nil) != (truth == nil) {
				c.fail("spec", "spec-client-wrong-answer",
					fmt.Sprintf("remote client holding only the root answered Get(%s)=%s from an accepted proof (%s); the tree has %s",
						hx(k), showAns(v), what, showAns(truth)))
			}
		}()
	}
}

// bothVerify sends a proof to both verifiers (root = the tree's root unless given).
func (c *caseRunner) bothVerify(root hash.Hash, p *syncer.Proof, honest bool, probes [][]byte, what string) {
	ans, accepted, panicked := realVerify(root, p)
	if panicked != "" {
		c.fail("panic", "verifier-panic", what+": "+panicked)
		return
	}
	c.res.Count("verdict:" + strings.Fields(ans)[0] + ":" + map[bool]string{true: "honest", false: "mutated"}[honest])
	if !accepted {
		c.res.Count("reject:" + strings.TrimPrefix(ans, "err "))
	}
	if honest && !accepted {
		if ans == "err max-depth" {
			c.fail("spec", "proof-depth-exceeded-honest-proof",
				"honest proof ("+what+") rejected by the real verifier: max proof depth exceeded (tree pointer depth exceeds maxProofDepth=128)")
		} else {
			c.fail("spec", "honest-proof-rejected", "honest proof ("+what+") rejected: "+ans)
		}
	}
	c.ask(proofLine(root, p), "verdict-differs", expect(ans))
	if accepted && root.Equal(&c.srv.root.Hash) {
		c.checkAccepted(p, probes, what)
	}
}

func (c *caseRunner) runLine(line string) {
	w := strings.Fields(line)
	s := c.srv
	rootPos := syncer.TreeID{Root: s.root, Position: s.root.Hash}
	switch w[0] {
	case "get":
		v, sib, k := atoi(w[1]), w[2] == "1", unhx(w[3])
		pos := rootPos
		if len(w) > 4 {
			// A position the lookup never reaches (unset, or a hash that is no node of the tree): the
			// position is only a hint, the server falls back to a proof anchored at the root, which must
			// be the proof of the root-positioned request (ProofBuilder.Build) and resolve the key.
			if w[4] == "fp1" {
				pos.Position = hash.NewFromBytes(append([]byte("verif foreign position "), k...))
			} else {
				pos.Position = hash.Hash{}
			}
			c.res.Count("honest:get:foreign-position:" + w[4])
		}
		rsp, err := s.tree.SyncGet(ctx, &syncer.GetRequest{Tree: pos, Key: k, IncludeSiblings: sib, ProofVersion: uint16(v)})
		if err != nil {
			c.fail("spec", "syncget-error", fmt.Sprintf("SyncGet(%s): %v", hx(k), err))
			return
		}
		p := &rsp.Proof
		c.res.Count(fmt.Sprintf("honest:get:v%d:sib%v", v, sib))
		if _, ok := s.ref[string(k)]; ok {
			c.res.Count("honest:get:present")
		} else {
			c.res.Count("honest:get:absent")
		}
		c.ask(fmt.Sprintf("proofget %d %s %s", v, w[2], hx(k)), "builder-differs",
			expect(fmt.Sprintf("proof %s %s", hx(p.UntrustedRoot[:]), showEntries(p.Entries))))
		before := len(c.failures)
		c.bothVerify(s.root.Hash, p, true, [][]byte{k}, "SyncGet "+hx(k))
		if len(c.failures) == before {
			// completeness: the proof must resolve the key it was built for
			truth := s.ref[string(k)]
			c.ask("get "+hx(k), "honest-proof-does-not-resolve", expect(showAns(truth)))
		}
	case "prefixes":
		v, limit := atoi(w[1]), atoi(w[2])
		var prefixes [][]byte
		for _, p := range strings.Split(w[3], ",") {
			prefixes = append(prefixes, unhx(p))
		}
		rsp, err := s.tree.SyncGetPrefixes(ctx, &syncer.GetPrefixesRequest{Tree: rootPos, Prefixes: prefixes, Limit: uint16(limit), ProofVersion: uint16(v)})
		if err != nil {
			c.fail("spec", "syncget-error", fmt.Sprintf("SyncGetPrefixes: %v", err))
			return
		}
		c.res.Count(fmt.Sprintf("honest:prefixes:v%d", v))
		c.ask(fmt.Sprintf("proofprefixes %d %d %s", v, limit, w[3]), "builder-differs",
			expect(fmt.Sprintf("proof %s %s", hx(rsp.Proof.UntrustedRoot[:]), showEntries(rsp.Proof.Entries))))
		// keys the request asked about (up to the limit, in order)
		var asked [][]byte
		total := 0
	outer:
		for _, pf := range prefixes {
			for _, k := range s.keys {
				if bytes.HasPrefix(k, pf) {
					if total >= limit {
						break outer
					}
					asked = append(asked, k)
					total++
				}
			}
		}
		before := len(c.failures)
		c.bothVerify(s.root.Hash, &rsp.Proof, true, asked, "SyncGetPrefixes")
		if len(c.failures) == before {
			for _, k := range asked {
				c.ask("get "+hx(k), "honest-proof-does-not-resolve", expect(showAns(s.ref[string(k)])))
			}
		}
	case "iterate":
		v, prefetch, k := atoi(w[1]), atoi(w[2]), unhx(w[3])
		rsp, err := s.tree.SyncIterate(ctx, &syncer.IterateRequest{Tree: rootPos, Key: k, Prefetch: uint16(prefetch), ProofVersion: uint16(v)})
		if err != nil {
			c.fail("spec", "syncget-error", fmt.Sprintf("SyncIterate: %v", err))
			return
		}
		c.res.Count(fmt.Sprintf("honest:iterate:v%d", v))
		c.ask(fmt.Sprintf("proofiter %d %d %s", v, prefetch, hx(k)), "builder-differs",
			expect(fmt.Sprintf("proof %s %s", hx(rsp.Proof.UntrustedRoot[:]), showEntries(rsp.Proof.Entries))))
		var asked [][]byte
		i := sort.Search(len(s.keys), func(i int) bool { return bytes.Compare(s.keys[i], k) >= 0 })
		for j := i; j < len(s.keys) && j <= i+prefetch; j++ {
			asked = append(asked, s.keys[j])
		}
		before := len(c.failures)
		c.bothVerify(s.root.Hash, &rsp.Proof, true, asked, "SyncIterate "+hx(k))
		if len(c.failures) == before {
			for _, k := range asked {
				c.ask("get "+hx(k), "honest-proof-does-not-resolve", expect(showAns(s.ref[string(k)])))
			}
			// the client-side iterator over the rebuilt tree yields the items the request covers
			var items []string
			for _, ak := range asked {
				items = append(items, hx(ak)+":"+hx(s.ref[string(ak)]))
			}
			want := "items ."
			if len(items) > 0 {
				want = "items " + strings.Join(items, ",")
			}
			c.ask(fmt.Sprintf("iter %s %d", hx(k), len(asked)), "honest-proof-does-not-resolve", expect(want))
		}
	case "incl":
		v := atoi(w[1])
		nodes := s.nodes()
		pb, err := syncer.NewProofBuilderForVersion(s.root.Hash, s.root.Hash, uint16(v))
		if err != nil {
			panic(err)
		}
		var hs []string
		if w[2] != "." {
			for _, is := range strings.Split(w[2], ",") {
				i := atoi(is)
				if i < len(nodes) {
					pb.Include(nodes[i])
					h := nodes[i].GetHash()
					hs = append(hs, hx(h[:]))
				}
			}
		}
		p, err := pb.Build(ctx)
		if err != nil {
			c.fail("spec", "build-error", err.Error())
			return
		}
		c.res.Count(fmt.Sprintf("honest:incl:v%d", v))
		hl := "."
		if len(hs) > 0 {
			hl = strings.Join(hs, ",")
		}
		c.ask(fmt.Sprintf("buildincl %d %s", v, hl), "builder-differs",
			expect(fmt.Sprintf("proof %s %s", hx(p.UntrustedRoot[:]), showEntries(p.Entries))))
		c.bothVerify(s.root.Hash, p, true, c.probeKeys()[:min(8, len(c.probeKeys()))], "ProofBuilder over an arbitrary node set")
	case "proof":
		p := &syncer.Proof{V: uint16(atoi(w[1]))}
		root := s.root.Hash
		if w[2] != "=" {
			_ = root.UnmarshalBinary(unhx(w[2]))
		}
		if w[3] == "=" {
			p.UntrustedRoot = s.root.Hash
		} else {
			var u hash.Hash
			if b := unhx(w[3]); len(b) == hash.Size {
				_ = u.UnmarshalBinary(b)
			}
			p.UntrustedRoot = u
		}
		p.Entries = parseEntries(w[4])
		var probes [][]byte
		if len(w) > 5 && w[5] != "." {
			for _, k := range strings.Split(w[5], ",") {
				probes = append(probes, unhx(k))
			}
		}
		c.bothVerify(root, p, false, c.probeKeys(probes...), "explicit proof")
	case "remote":
		c.runRemote(uint64(atoi(w[1])), uint64(atoi(w[2])), atoi(w[3]), uint64(atoi(w[4])), atoi(w[5]))
	case "kv":
	default:
		panic("unknown case line: " + line)
	}
}

// runCase executes a case; returns its failures (with Case filled in by the caller).
func runCase(lines []string, res *hlib.Result) (fails []hlib.Failure, nlines int) {
	var kvs []kv
	for _, l := range lines {
		w := strings.Fields(l)
		if w[0] == "kv" {
			kvs = append(kvs, kv{unhx(w[1]), unhx(w[2])})
		}
	}
	c := &caseRunner{res: res}
	func() {
		defer func() {
			if r := recover(); r != nil {
				c.fail("panic", "driver-panic", fmt.Sprint(r))
			}
		}()
		c.srv = newServer("badgermem", kvs, 1)
		defer c.srv.close()
		c.lines = append(c.lines, "new")
		c.checks = append(c.checks, expect("ok"))
		c.sigs = append(c.sigs, "model-error")
		for _, e := range kvs {
			c.ask("insert "+hx(e.k)+" "+hx(e.v), "model-error", expect("ok"))
		}
		c.ask("root", "root-differs", expect("root "+hx(c.srv.root.Hash[:])))
		for _, l := range lines {
			c.runLine(l)
		}
	}()
	if len(c.lines) > 0 {
		ans, err := hlib.RunModel("proof", c.lines)
		if err != nil {
			c.fail("divergence", "model-error", err.Error())
		} else {
			for i, a := range ans {
				if d := c.checks[i](a); d != "" {
					kind := "divergence"
					if strings.HasPrefix(c.sigs[i], "spec-") || strings.HasPrefix(c.sigs[i], "honest-") {
						kind = "spec"
					}
					c.fail(kind, c.sigs[i], fmt.Sprintf("at `%s`: %s", trunc(c.lines[i]), d))
					break
				}
			}
		}
	}
	return c.failures, len(c.lines)
}

func min(a, b int) int {
	if a < b {
		return a
	}
	return b
}

// ---------------------------------------------------------------- main

func main() {
	seed := flag.Uint64("seed", 1, "seed")
	cases := flag.Int("cases", 200, "number of generated cases")
	focus := flag.String("focus", "c04", "c04 | c12 | c06")
	big := flag.Int("big", 2, "number of big-tree cases (c12)")
	out := flag.String("out", "-", "result file")
	replay := flag.String("replay", "", "replay file (one line per op)")
	corpus := flag.String("corpus", "", "corpus dir, run first")
	flag.Parse()

	res := hlib.NewResult("proofdrv", *seed)
	run := runCase
	gen := genCaseC04
	res.Rule = "C04: trees over key pools {00,01,80,ff}* incl. the empty key, proper-prefix chains, single-bit differences, long keys and one chain deeper than maxProofDepth; honest SyncGet (both versions, siblings on/off; present, absent, prefix, extension keys), SyncGetPrefixes, SyncIterate and ProofBuilder over arbitrary node sets; mutations (byte flip, truncate/extend entry, drop/dup/swap/insert entry, leaf<->hash, fabricated leaf, label padding bits, appended child hashes, splice from a sibling tree, wrong version, wrong roots, nil<->empty entry); corrupting ReadSyncer sessions with client caches from 1. A case is non-trivial when the tree is non-empty and at least one proof reached both verifiers; distinct by case lines."
	if *focus == "c12" {
		run = runCaseC12
		gen = func(r *hlib.Rng, res *hlib.Result, i int) []string { return genCaseC12(r, res, i, *big) }
		res.Rule = "C12: trees (empty, single leaf, prefix chains incl. deeper than maxProofDepth, random pools, thousands of keys), chunk sizes 1 B .. larger than the tree, chunker threads 0 and 1..32; real CreateCheckpoint chunk files decoded (snappy+cbor) and compared with the model's chunk entry lists; restore into empty badger and pathbadger databases in shuffled order with duplicates, aborts/restarts and single-chunk corruptions; determinism under GOMAXPROCS 1..16. Non-trivial: non-empty tree with more than one chunk; distinct by case lines."
	}

	if *focus == "c06" {
		run = runCaseC06
		gen = genCaseC06
		res.Rule = "C06 (restore): a destination database with 1..3 local finalized versions whose contents are variations of the checkpointed tree (shared leaves and subtrees), a checkpoint of a LATER version restored through the multipart path in a shuffled chunk order and finalized, then the local versions pruned one by one, a successor committed on the restored root and the restored version pruned; after every step every finalized, unpruned root must read back with exactly its contents; badger and pathbadger, on disk and in memory. Non-trivial: non-empty tree; distinct by case lines."
	}

	sigSeen := map[string]int{}
	distinct := map[string]bool{}
	runOne := func(lines []string, caseSeed uint64, minimize bool) {
		fails, n := run(lines, res)
		res.Cases++
		res.Ops += n
		nontrivial := false
		for _, l := range lines {
			if strings.HasPrefix(l, "kv ") {
				nontrivial = true
			}
		}
		if nontrivial {
			distinct[strings.Join(lines, "\n")] = true
		}
		for _, f := range fails {
			sigSeen[f.Sig]++
			if sigSeen[f.Sig] > 1 && minimize {
				res.Count("repeat:" + f.Sig)
				continue
			}
			min := lines
			if minimize && strings.HasPrefix(f.Sig, "proof-depth-exceeded-checkpoint") {
				// canonical witness: the whole case (a >128-deep tree is needed anyway)
			} else if minimize && f.Sig == "proof-depth-exceeded-honest-proof" {
				// canonical witness: the tree and the first honest query; no delta debugging
				// (every run of a >128-deep tree costs seconds)
				var keep []string
				for _, l := range lines {
					if strings.HasPrefix(l, "kv ") {
						keep = append(keep, l)
					}
				}
				for _, l := range lines {
					if strings.HasPrefix(l, "get ") {
						keep = append(keep, l)
						break
					}
				}
				min = keep
			} else if minimize && f.Sig != "driver-panic" {
				budget := 400
				deadline := time.Now().Add(60 * time.Second)
				min = hlib.Shrink(lines, func(c []string) bool {
					budget--
					if budget < 0 || time.Now().After(deadline) {
						return false
					}
					ff, _ := run(c, hlib.NewResult("shrink", 0))
					for _, g := range ff {
						if g.Sig == f.Sig {
							return true
						}
					}
					return false
				})
				ff, _ := run(min, hlib.NewResult("shrink", 0))
				for _, g := range ff {
					if g.Sig == f.Sig {
						f.Detail = g.Detail
					}
				}
			}
			f.Case = min
			f.Seed = caseSeed
			res.Fail(f)
		}
	}

	if *replay != "" {
		lines, err := hlib.ReadLines(*replay)
		if err != nil {
			fmt.Fprintln(os.Stderr, err)
			os.Exit(2)
		}
		runOne(lines, 0, false)
		res.Distinct = len(distinct)
		res.Write(*out)
		return
	}
	if *corpus != "" {
		ents, _ := os.ReadDir(*corpus)
		for _, e := range ents {
			if *focus == "c06" && !strings.HasPrefix(e.Name(), "proofdrv-") {
				continue // the directory is shared with dbdrv
			}
			if lines, err := hlib.ReadLines(*corpus + "/" + e.Name()); err == nil && len(lines) > 0 {
				runOne(lines, 0, false)
				res.Count("corpus")
			}
		}
	}
	rng := hlib.NewRng(*seed)
	for i := 0; i < *cases; i++ {
		cr := rng.Fork()
		cs := cr.Seed()
		lines := gen(cr, res, i)
		if d := os.Getenv("VERIF_DUMP"); d != "" {
			_ = os.WriteFile(fmt.Sprintf("%s/case%d.txt", d, i), []byte(strings.Join(lines, "\n")+"\n"), 0o644)
			continue
		}
		runOne(lines, cs, true)
		if i < 2 {
			res.AddSample(strings.Join(headLines(lines, 12), " ; "))
		}
	}
	res.Distinct = len(distinct)
	res.Write(*out)
}

func headLines(l []string, n int) []string {
	out := []string{}
	for i, x := range l {
		if i >= n {
			out = append(out, fmt.Sprintf("… (%d lines)", len(l)))
			break
		}
		out = append(out, trunc(x))
	}
	return out
}
