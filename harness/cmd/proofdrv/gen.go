package main

import (
	"bytes"
	"context"
	"encoding/binary"
	"fmt"
	"os"
	"sort"
	"strings"

	"verifharness/hlib"

	"github.com/oasisprotocol/oasis-core/go/common/crypto/hash"
	"github.com/oasisprotocol/oasis-core/go/storage/mkvs"
	"github.com/oasisprotocol/oasis-core/go/storage/mkvs/node"
	"github.com/oasisprotocol/oasis-core/go/storage/mkvs/syncer"
)

// ---------------------------------------------------------------- key/value generators

var alphabet = []byte{0x00, 0x01, 0x80, 0xff}

func randBytes(r *hlib.Rng, n int) []byte {
	b := make([]byte, n)
	for i := range b {
		b[i] = byte(r.Intn(256))
	}
	return b
}

func alphaBytes(r *hlib.Rng, n int) []byte {
	b := make([]byte, n)
	for i := range b {
		b[i] = alphabet[r.Intn(len(alphabet))]
	}
	return b
}

func genValue(r *hlib.Rng) []byte {
	switch r.Intn(10) {
	case 0:
		return []byte{}
	case 1:
		return randBytes(r, 200+r.Intn(200))
	default:
		return randBytes(r, 1+r.Intn(12))
	}
}

// genKeys returns a key set of the given shape.
func genKeys(r *hlib.Rng, shape int, res *hlib.Result) [][]byte {
	seen := map[string]bool{}
	var keys [][]byte
	add := func(k []byte) {
		if !seen[string(k)] {
			seen[string(k)] = true
			keys = append(keys, k)
		}
	}
	switch shape {
	case 0: // small alphabet, many shared prefixes, empty key possible
		res.Count("shape:alphabet")
		n := 1 + r.Intn(20)
		for i := 0; i < n; i++ {
			add(alphaBytes(r, r.Intn(5)))
		}
	case 1: // proper-prefix chain with a few siblings
		res.Count("shape:chain")
		n := 2 + r.Intn(10)
		k := []byte{}
		for i := 0; i < n; i++ {
			k = append(append([]byte{}, k...), alphabet[r.Intn(len(alphabet))])
			add(k)
			if r.Chance(1, 3) {
				s := append([]byte{}, k...)
				s[len(s)-1] ^= byte(1 << uint(r.Intn(8)))
				add(s)
			}
		}
	case 2: // long keys with long common prefixes
		res.Count("shape:long")
		base := randBytes(r, 20+r.Intn(40))
		n := 2 + r.Intn(10)
		for i := 0; i < n; i++ {
			k := append([]byte{}, base[:r.Intn(len(base)+1)]...)
			k = append(k, randBytes(r, r.Intn(6))...)
			add(k)
		}
	case 3: // random bytes
		res.Count("shape:random")
		n := 1 + r.Intn(40)
		for i := 0; i < n; i++ {
			add(randBytes(r, 1+r.Intn(3)))
		}
	case 4: // empty tree
		res.Count("shape:empty")
	case 5: // single key
		res.Count("shape:single")
		add(alphaBytes(r, r.Intn(4)))
	case 6: // chain deeper than maxProofDepth
		res.Count("shape:deepchain")
		n := 126 + r.Intn(10)
		if deepForce {
			n = 131
		}
		for i := 1; i <= n; i++ {
			add(make([]byte, i))
		}
	}
	return keys
}

// deepForce makes the next deep chain deeper than maxProofDepth for sure (case 0 of every run).
var deepForce bool

func pickShape(r *hlib.Rng, i int) int {
	deepForce = i == 0
	if i == 0 {
		return 6
	}
	x := r.Intn(100)
	switch {
	case x < 35:
		return 0
	case x < 55:
		return 1
	case x < 65:
		return 2
	case x < 88:
		return 3
	case x < 92:
		return 4
	case x < 97:
		return 5
	default:
		return 6
	}
}

// queryKey picks a present / absent / prefix / extension key.
func queryKey(r *hlib.Rng, keys [][]byte) []byte {
	if len(keys) == 0 {
		return alphaBytes(r, r.Intn(3))
	}
	k := keys[r.Intn(len(keys))]
	switch r.Intn(6) {
	case 0, 1, 2:
		return k
	case 3:
		if len(k) > 0 {
			return k[:r.Intn(len(k))]
		}
		return k
	case 4:
		return append(append([]byte{}, k...), alphaBytes(r, 1+r.Intn(2))...)
	default:
		f := append([]byte{}, k...)
		if len(f) > 0 {
			f[r.Intn(len(f))] ^= byte(1 << uint(r.Intn(8)))
		} else {
			f = alphaBytes(r, 1)
		}
		return f
	}
}

// ---------------------------------------------------------------- mutations

func encLeafEntry(k, v []byte) []byte {
	e := []byte{0x01, 0x00}
	e = binary.LittleEndian.AppendUint16(e, uint16(len(k)))
	e = append(e, k...)
	e = binary.LittleEndian.AppendUint32(e, uint32(len(v)))
	e = append(e, v...)
	return e
}

// decLeafEntry decodes a full-leaf entry (for mutations only).
func decLeafEntry(e []byte) (k, v []byte, ok bool) {
	if len(e) < 8 || e[0] != 0x01 || e[1] != 0x00 {
		return nil, nil, false
	}
	kl := int(binary.LittleEndian.Uint16(e[2:4]))
	if len(e) < 4+kl+4 {
		return nil, nil, false
	}
	k = e[4 : 4+kl]
	vl := int(binary.LittleEndian.Uint32(e[4+kl : 8+kl]))
	if len(e) < 8+kl+vl {
		return nil, nil, false
	}
	return k, e[8+kl : 8+kl+vl], true
}

func leafHash(k, v []byte) hash.Hash {
	var n node.LeafNode
	n.Key = k
	n.Value = v
	n.UpdateHash()
	return n.Hash
}

func indicesWhere(p *syncer.Proof, f func(e []byte) bool) []int {
	var out []int
	for i, e := range p.Entries {
		if f(e) {
			out = append(out, i)
		}
	}
	return out
}

// mutate returns a mutated copy of p, the root to verify against ("=" = the tree's root) and the
// name of the mutation.
func mutate(r *hlib.Rng, p *syncer.Proof, other *syncer.Proof, otherRoot hash.Hash, keys [][]byte) (*syncer.Proof, string, string) {
	q := cloneProof(p)
	root := "="
	n := len(q.Entries)
	nonNil := indicesWhere(q, func(e []byte) bool { return len(e) > 0 })
	pick := func(l []int) int { return l[r.Intn(len(l))] }
	for try := 0; try < 20; try++ {
		switch r.Intn(19) {
		case 0:
			if len(nonNil) == 0 {
				continue
			}
			i := pick(nonNil)
			q.Entries[i][r.Intn(len(q.Entries[i]))] ^= byte(1 << uint(r.Intn(8)))
			return q, root, "flip"
		case 1:
			if len(nonNil) == 0 {
				continue
			}
			i := pick(nonNil)
			cut := 1 + r.Intn(len(q.Entries[i]))
			q.Entries[i] = q.Entries[i][:len(q.Entries[i])-cut]
			return q, root, "truncate"
		case 2:
			if len(nonNil) == 0 {
				continue
			}
			i := pick(nonNil)
			q.Entries[i] = append(q.Entries[i], randBytes(r, 1+r.Intn(70))...)
			return q, root, "extend"
		case 3:
			if n == 0 {
				continue
			}
			i := r.Intn(n)
			q.Entries = append(q.Entries[:i], q.Entries[i+1:]...)
			return q, root, "drop"
		case 4:
			if n == 0 {
				continue
			}
			i := r.Intn(n)
			q.Entries = append(q.Entries[:i+1], q.Entries[i:]...)
			return q, root, "dup"
		case 5:
			if n < 2 {
				continue
			}
			i, j := r.Intn(n), r.Intn(n)
			if i == j || bytes.Equal(q.Entries[i], q.Entries[j]) {
				continue
			}
			q.Entries[i], q.Entries[j] = q.Entries[j], q.Entries[i]
			return q, root, "swap"
		case 6:
			i := r.Intn(n + 1)
			var e []byte
			switch r.Intn(3) {
			case 0:
				e = nil
			case 1:
				e = append([]byte{0x02}, randBytes(r, 32)...)
			default:
				e = encLeafEntry(queryKey(r, keys), genValue(r))
			}
			q.Entries = append(q.Entries[:i], append([][]byte{e}, q.Entries[i:]...)...)
			return q, root, "insert"
		case 7: // full leaf -> its hash (still a valid proof, carries less)
			l := indicesWhere(q, func(e []byte) bool { _, _, ok := decLeafEntry(e); return ok })
			if len(l) == 0 {
				continue
			}
			i := pick(l)
			k, v, _ := decLeafEntry(q.Entries[i])
			h := leafHash(k, v)
			q.Entries[i] = append([]byte{0x02}, h[:]...)
			return q, root, "leaf-to-hash"
		case 8: // hash -> fabricated full leaf
			l := indicesWhere(q, func(e []byte) bool { return len(e) == 33 && e[0] == 0x02 })
			if len(l) == 0 {
				continue
			}
			q.Entries[pick(l)] = encLeafEntry(queryKey(r, keys), genValue(r))
			return q, root, "hash-to-fabricated-leaf"
		case 9: // fabricate another value for a proven key
			l := indicesWhere(q, func(e []byte) bool { _, _, ok := decLeafEntry(e); return ok })
			if len(l) == 0 {
				continue
			}
			i := pick(l)
			k, v, _ := decLeafEntry(q.Entries[i])
			nv := append(append([]byte{}, v...), 0x42)
			if r.Bool() && len(v) > 0 {
				nv = v[:len(v)-1]
			}
			q.Entries[i] = encLeafEntry(append([]byte{}, k...), nv)
			return q, root, "fabricated-value"
		case 10: // set a padding bit of an internal node's label
			l := indicesWhere(q, func(e []byte) bool {
				return len(e) > 5 && e[0] == 0x01 && e[1] == 0x01 && binary.LittleEndian.Uint16(e[2:4])%8 != 0
			})
			if len(l) == 0 {
				continue
			}
			i := pick(l)
			bits := int(binary.LittleEndian.Uint16(q.Entries[i][2:4]))
			last := 4 + (bits+7)/8 - 1
			if last >= len(q.Entries[i]) {
				continue
			}
			q.Entries[i][last] |= 1
			return q, root, "label-padding"
		case 11: // non-compact form: child hashes appended to an internal node
			l := indicesWhere(q, func(e []byte) bool { return len(e) > 4 && e[0] == 0x01 && e[1] == 0x01 })
			if len(l) == 0 {
				continue
			}
			i := pick(l)
			q.Entries[i] = append(q.Entries[i], randBytes(r, 64)...)
			return q, root, "append-child-hashes"
		case 12: // splice an entry of a sibling tree's proof
			if other == nil || len(other.Entries) == 0 || n == 0 {
				continue
			}
			i, j := r.Intn(n), r.Intn(len(other.Entries))
			if bytes.Equal(q.Entries[i], other.Entries[j]) {
				continue
			}
			q.Entries[i] = other.Entries[j]
			return q, root, "splice"
		case 13:
			switch r.Intn(3) {
			case 0:
				q.V = 1 - q.V
			case 1:
				q.V = 2
			default:
				q.V = uint16(2 + r.Intn(65000))
			}
			return q, root, "version"
		case 14:
			if r.Bool() {
				q.UntrustedRoot = otherRoot
			} else {
				copy(q.UntrustedRoot[:], randBytes(r, 32))
			}
			return q, root, "untrusted-root"
		case 15:
			if n == 0 {
				continue
			}
			i := r.Intn(n)
			if q.Entries[i] == nil {
				q.Entries[i] = []byte{}
			} else {
				q.Entries[i] = nil
			}
			return q, root, "nil-empty"
		case 16: // absent -> present
			l := indicesWhere(q, func(e []byte) bool { return e == nil })
			if len(l) == 0 {
				continue
			}
			q.Entries[pick(l)] = encLeafEntry(queryKey(r, keys), genValue(r))
			return q, root, "nil-to-leaf"
		case 17: // a whole honest proof of the sibling tree
			if other == nil {
				continue
			}
			q = cloneProof(other)
			if r.Bool() {
				q.UntrustedRoot = p.UntrustedRoot
			}
			return q, root, "other-tree-proof"
		case 18: // verify against the sibling tree's root
			return q, hx(otherRoot[:]), "wrong-trusted-root"
		}
	}
	return q, root, "none"
}

func proofCaseLine(p *syncer.Proof, root string, own hash.Hash, probes [][]byte) string {
	u := hx(p.UntrustedRoot[:])
	if p.UntrustedRoot.Equal(&own) {
		u = "="
	}
	pr := "."
	if len(probes) > 0 {
		s := make([]string, len(probes))
		for i, k := range probes {
			s[i] = hx(k)
		}
		pr = strings.Join(s, ",")
	}
	return fmt.Sprintf("proof %d %s %s %s %s", p.V, root, u, showEntries(p.Entries), pr)
}

// ---------------------------------------------------------------- case generator (C04)

func genCaseC04(r *hlib.Rng, res *hlib.Result, i int) []string {
	shape := pickShape(r, i)
	keys := genKeys(r, shape, res)
	var kvs []kv
	var lines []string
	for _, k := range keys {
		e := kv{k, genValue(r)}
		kvs = append(kvs, e)
		lines = append(lines, "kv "+hx(e.k)+" "+hx(e.v))
	}
	// the sibling tree: same keys, one value changed / one key added or removed
	okvs := append([]kv{}, kvs...)
	switch {
	case len(okvs) > 0 && r.Chance(1, 2):
		j := r.Intn(len(okvs))
		okvs[j] = kv{okvs[j].k, append(append([]byte{}, okvs[j].v...), 0x07)}
	case len(okvs) > 1 && r.Bool():
		j := r.Intn(len(okvs))
		okvs = append(okvs[:j:j], okvs[j+1:]...)
	default:
		okvs = append(okvs, kv{append(alphaBytes(r, 1+r.Intn(3)), 0x33), []byte{0x09}})
	}
	srv := newServer("badgermem", kvs, 1)
	defer srv.close()
	osrv := newServer("badgermem", okvs, 1)
	defer osrv.close()
	rootPos := syncer.TreeID{Root: srv.root, Position: srv.root.Hash}
	orootPos := syncer.TreeID{Root: osrv.root, Position: osrv.root.Hash}

	var honest []*syncer.Proof
	var honestKeys [][]byte
	nq := 2 + r.Intn(5)
	if shape == 6 {
		nq = 2
	}
	for j := 0; j < nq; j++ {
		v := r.Intn(2)
		switch x := r.Intn(10); {
		case x < 6:
			k := queryKey(r, srv.keys)
			if shape == 6 && j == 0 {
				k = srv.keys[len(srv.keys)-1] // the deepest key
			}
			sib := r.Intn(2)
			fp := ""
			if r.Chance(1, 4) {
				fp = []string{" fp0", " fp1"}[r.Intn(2)]
			}
			lines = append(lines, fmt.Sprintf("get %d %d %s%s", v, sib, hx(k), fp))
			if rsp, err := srv.tree.SyncGet(ctx, &syncer.GetRequest{Tree: rootPos, Key: k, IncludeSiblings: sib == 1, ProofVersion: uint16(v)}); err == nil {
				honest = append(honest, &rsp.Proof)
				honestKeys = append(honestKeys, k)
			}
		case x < 7:
			np := 1 + r.Intn(3)
			var ps []string
			var pfs [][]byte
			for a := 0; a < np; a++ {
				k := queryKey(r, srv.keys)
				if len(k) > 0 {
					k = k[:r.Intn(len(k)+1)]
				}
				ps = append(ps, hx(k))
				pfs = append(pfs, k)
			}
			limit := r.Intn(12)
			lines = append(lines, fmt.Sprintf("prefixes %d %d %s", v, limit, strings.Join(ps, ",")))
			if rsp, err := srv.tree.SyncGetPrefixes(ctx, &syncer.GetPrefixesRequest{Tree: rootPos, Prefixes: pfs, Limit: uint16(limit), ProofVersion: uint16(v)}); err == nil {
				honest = append(honest, &rsp.Proof)
				honestKeys = append(honestKeys, nil)
			}
		case x < 8:
			k := queryKey(r, srv.keys)
			pre := r.Intn(8)
			lines = append(lines, fmt.Sprintf("iterate %d %d %s", v, pre, hx(k)))
			if rsp, err := srv.tree.SyncIterate(ctx, &syncer.IterateRequest{Tree: rootPos, Key: k, Prefetch: uint16(pre), ProofVersion: uint16(v)}); err == nil {
				honest = append(honest, &rsp.Proof)
				honestKeys = append(honestKeys, k)
			}
		default:
			nn := len(srv.nodes())
			var idx []string
			for a := 0; a < nn; a++ {
				if r.Chance(1, 2) {
					idx = append(idx, fmt.Sprint(a))
				}
			}
			il := "."
			if len(idx) > 0 {
				il = strings.Join(idx, ",")
			}
			lines = append(lines, fmt.Sprintf("incl %d %s", v, il))
		}
	}
	// a proof of the sibling tree, for splices
	var other *syncer.Proof
	if rsp, err := osrv.tree.SyncGet(ctx, &syncer.GetRequest{Tree: orootPos, Key: queryKey(r, osrv.keys), ProofVersion: uint16(r.Intn(2))}); err == nil {
		other = &rsp.Proof
	}
	// mutations of the honest proofs
	if len(honest) > 0 {
		nm := 4 + r.Intn(8)
		if shape == 6 {
			nm = 2
		}
		for j := 0; j < nm; j++ {
			a := r.Intn(len(honest))
			q, root, kind := mutate(r, honest[a], other, osrv.root.Hash, srv.keys)
			res.Count("mut:" + kind)
			var probes [][]byte
			if honestKeys[a] != nil {
				probes = append(probes, honestKeys[a])
			}
			lines = append(lines, proofCaseLine(q, root, srv.root.Hash, probes))
		}
	}
	// corrupting syncer sessions
	if shape != 6 && r.Chance(2, 3) {
		caps := []int{0, 0, 0, 1000, 1000, 200, 64, 64, 16, 8, 5, 3, 2, 1}
		vcaps := []int{0, 1, 16, 64, 1024, 1 << 20}
		lines = append(lines, fmt.Sprintf("remote %d %d %d %d %d", caps[r.Intn(len(caps))], vcaps[r.Intn(len(vcaps))],
			[]int{0, 10, 30, 60, 100}[r.Intn(5)], r.Next()>>1, 5+r.Intn(20)))
	}
	return lines
}

// ---------------------------------------------------------------- corrupting ReadSyncer sessions

type corruptSyncer struct {
	inner  syncer.ReadSyncer
	rng    *hlib.Rng
	rate   int
	other  *syncer.Proof
	oroot  hash.Hash
	keys   [][]byte
	res    *hlib.Result
	served int
}

func (c *corruptSyncer) corrupt(p *syncer.Proof) *syncer.Proof {
	c.served++
	if c.rng.Intn(100) >= c.rate {
		c.res.Count("remote:honest-response")
		return p
	}
	q, _, kind := mutate(c.rng, p, c.other, c.oroot, c.keys)
	c.res.Count("remote:corrupt-response")
	c.res.Count("remote:mut:" + kind)
	return q
}

func (c *corruptSyncer) SyncGet(ctx context.Context, req *syncer.GetRequest) (*syncer.ProofResponse, error) {
	rsp, err := c.inner.SyncGet(ctx, req)
	if err != nil {
		return nil, err
	}
	return &syncer.ProofResponse{Proof: *c.corrupt(&rsp.Proof)}, nil
}

func (c *corruptSyncer) SyncGetPrefixes(ctx context.Context, req *syncer.GetPrefixesRequest) (*syncer.ProofResponse, error) {
	rsp, err := c.inner.SyncGetPrefixes(ctx, req)
	if err != nil {
		return nil, err
	}
	return &syncer.ProofResponse{Proof: *c.corrupt(&rsp.Proof)}, nil
}

func (c *corruptSyncer) SyncIterate(ctx context.Context, req *syncer.IterateRequest) (*syncer.ProofResponse, error) {
	rsp, err := c.inner.SyncIterate(ctx, req)
	if err != nil {
		return nil, err
	}
	return &syncer.ProofResponse{Proof: *c.corrupt(&rsp.Proof)}, nil
}

func trace(f string, a ...any) {
	if os.Getenv("VERIF_TRACE") != "" {
		fmt.Fprintf(os.Stderr, f+"\n", a...)
	}
}

// runRemote: a client tree that holds only the trusted root reads through a corrupting syncer;
// every answer must be the full tree's answer or an error.
func (c *caseRunner) runRemote(nodeCap, valCap uint64, rate int, seed uint64, nops int) {
	before := len(c.failures)
	c.runRemote1(nodeCap, valCap, rate, seed, nops)
	if len(c.failures) == before || nodeCap == 0 {
		return
	}
	// Attribute wrong answers of a session with a limited node cache: if the same session with
	// honest responses only still answers wrongly, or the session is clean with an unlimited
	// cache, the cause is cache eviction (tryRemoveNode), not the proofs.
	mine := c.failures[before:]
	c.failures = c.failures[:before:before]
	silent := hlib.NewResult("attr", 0)
	probe := &caseRunner{res: silent, srv: c.srv}
	probe.runRemote1(nodeCap, valCap, 0, seed, nops)
	honestFails := len(probe.failures) > 0
	probe = &caseRunner{res: silent, srv: c.srv}
	probe.runRemote1(0, 0, rate, seed, nops)
	unlimitedClean := len(probe.failures) == 0
	for _, f := range mine {
		if f.Sig == "spec-remote-wrong-answer" && (honestFails || unlimitedClean || rate == 0) {
			f.Sig = "remote-client-node-cache-eviction"
			f.Detail = "node cache smaller than a root-to-leaf path: " + f.Detail
		}
		c.failures = append(c.failures, f)
	}
}

func (c *caseRunner) runRemote1(nodeCap, valCap uint64, rate int, seed uint64, nops int) {
	s := c.srv
	r := hlib.FromState(seed)
	// a sibling tree for splices
	var okvs []kv
	for k, v := range s.ref {
		okvs = append(okvs, kv{[]byte(k), append(append([]byte{}, v...), 0x07)})
	}
	sort.Slice(okvs, func(i, j int) bool { return bytes.Compare(okvs[i].k, okvs[j].k) < 0 })
	osrv := newServer("badgermem", okvs, 1)
	defer osrv.close()
	var other *syncer.Proof
	if rsp, err := osrv.tree.SyncGet(ctx, &syncer.GetRequest{Tree: syncer.TreeID{Root: osrv.root, Position: osrv.root.Hash}, Key: queryKey(r, osrv.keys)}); err == nil {
		other = &rsp.Proof
	}
	cs := &corruptSyncer{inner: s.tree, rng: r.Fork(), rate: rate, other: other, oroot: osrv.root.Hash, keys: s.keys, res: c.res}
	client := mkvs.NewWithRoot(cs, nil, s.root, mkvs.Capacity(nodeCap, valCap))
	defer client.Close()
	c.res.Count(fmt.Sprintf("remote:session:nodecap=%d", nodeCap))
	what := fmt.Sprintf("remote client (node cache %d, value cache %d, corruption rate %d%%)", nodeCap, valCap, rate)
	for i := 0; i < nops; i++ {
		func() {
			defer func() {
				if rec := recover(); rec != nil {
					c.fail("panic", "remote-client-panic", fmt.Sprintf("%s: %v", what, rec))
				}
			}()
			switch x := r.Intn(10); {
			case x < 7:
				k := queryKey(r, s.keys)
				v, err := client.Get(ctx, k)
				trace("get %s -> %s %v", hx(k), showAns(v), err)
				if err != nil {
					c.res.Count("remote:get:error")
					return
				}
				c.res.Count("remote:get:answer")
				truth := s.ref[string(k)]
				if !bytes.Equal(v, truth) || (v == nil) != (truth == nil) {
					c.fail("spec", "spec-remote-wrong-answer",
						fmt.Sprintf("%s answered Get(%s)=%s; the full tree has %s", what, hx(k), showAns(v), showAns(truth)))
				}
			case x < 8:
				k := queryKey(r, s.keys)
				if len(k) > 0 {
					k = k[:r.Intn(len(k)+1)]
				}
				lim := uint16(r.Intn(10))
				err := client.PrefetchPrefixes(ctx, [][]byte{k}, lim)
				trace("prefetch %s %d -> %v", hx(k), lim, err)
				if err != nil {
					c.res.Count("remote:prefetch:error")
				} else {
					c.res.Count("remote:prefetch:ok")
				}
			default:
				// iteration, at every cache size (the eviction defects D2 / remote-client-node-cache-eviction
				// were repaired in 6d73f0d)
				k := queryKey(r, s.keys)
				m := 1 + r.Intn(6)
				it := client.NewIterator(ctx, mkvs.IteratorPrefetch(uint16(r.Intn(4))))
				defer it.Close()
				j := sort.Search(len(s.keys), func(i int) bool { return bytes.Compare(s.keys[i], k) >= 0 })
				n := 0
				for it.Seek(k); it.Valid() && n < m; it.Next() {
					if j+n >= len(s.keys) || !bytes.Equal(it.Key(), s.keys[j+n]) || !bytes.Equal(it.Value(), s.ref[string(s.keys[j+n])]) {
						c.fail("spec", "spec-remote-wrong-answer",
							fmt.Sprintf("%s: iteration from %s yields %s=%s as item %d; the full tree does not", what, hx(k), hx(it.Key()), hx(it.Value()), n))
						return
					}
					n++
				}
				if it.Err() != nil {
					c.res.Count("remote:iterate:error")
					return
				}
				c.res.Count("remote:iterate:answer")
				if n < m && j+n < len(s.keys) {
					c.fail("spec", "spec-remote-wrong-answer",
						fmt.Sprintf("%s: iteration from %s ended after %d items without error; the full tree has more", what, hx(k), n))
				}
			}
		}()
	}
}
