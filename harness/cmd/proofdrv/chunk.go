package main

import "verifharness/hlib"

func runCaseC12(lines []string, res *hlib.Result) ([]hlib.Failure, int) { return nil, 0 }

func genCaseC12(r *hlib.Rng, res *hlib.Result, i int, big int) []string { return nil }
