package main

// C12: real checkpoint creation and restoration against the Lean chunker/restorer model.
//
// A case is a list of lines:
//   src BACKEND                     backend of the source database (badger | pathbadger | badgermem | pathbadgermem)
//   kv K V                          contents
//   cp SIZE THREADS                 CreateCheckpoint(root, SIZE, THREADS): chunk files are decoded and compared
//                                   with the model's chunk list; cover and determinism checks
//   restore BACKEND STEP,STEP,...   restore the last checkpoint into an empty database; steps:
//        <i>        RestoreChunk(i) with the real chunk bytes
//        <i>f       RestoreChunk(i) with one byte of the file flipped (digest mismatch expected)
//        <i>t       RestoreChunk(i) with the file truncated
//        <i>s       RestoreChunk(i) with the bytes of chunk i+1 (well-formed, wrong digest for this index)
//        <i>x       RestoreChunk(i) with the real bytes under an already cancelled context (must stay restorable)
//        S          StartMultipartInsert again for the version in progress (idempotent)
//        A          abort and restart the whole restore (AbortRestore + AbortMultipartInsert)
//   restorec BACKEND N SEED         N goroutines restore all chunks concurrently, each in its own order
//   raceabort I J                   RestoreChunk(I) is in flight while RestoreChunk(J) (bad proof) aborts the restore
//   badproof I KIND                 metadata lists the digest of a re-encoded, altered chunk I
//                                   (right digest, wrong proof): must fail verification, import nothing

import (
	"context"
	"bytes"
	"errors"
	"fmt"
	"io"
	"os"
	"path/filepath"
	"runtime"
	"sort"
	"strings"
	"sync"

	"github.com/golang/snappy"

	"verifharness/hlib"

	"github.com/oasisprotocol/oasis-core/go/common/cbor"
	"github.com/oasisprotocol/oasis-core/go/common/crypto/hash"
	"github.com/oasisprotocol/oasis-core/go/storage/mkvs"
	"github.com/oasisprotocol/oasis-core/go/storage/mkvs/checkpoint"
	db "github.com/oasisprotocol/oasis-core/go/storage/mkvs/db/api"
	"github.com/oasisprotocol/oasis-core/go/storage/mkvs/node"
	"github.com/oasisprotocol/oasis-core/go/storage/mkvs/syncer"
)

// decodeChunk: snappy + CBOR stream of byte strings (chunk.go writeChunk / restoreChunk).
func decodeChunk(b []byte) ([][]byte, error) {
	dec := cbor.NewDecoder(snappy.NewReader(bytes.NewReader(b)))
	var out [][]byte
	for {
		var e []byte
		if err := dec.Decode(&e); err != nil {
			if errors.Is(err, io.EOF) {
				return out, nil
			}
			return out, err
		}
		out = append(out, e)
	}
}

// encodeChunk re-encodes an entry list the way writeChunk does; returns bytes and digest.
func encodeChunk(es [][]byte) ([]byte, hash.Hash) {
	var buf bytes.Buffer
	hb := hash.NewBuilder()
	sw := snappy.NewBufferedWriter(io.MultiWriter(&buf, hb))
	enc := cbor.NewEncoder(sw)
	for _, e := range es {
		if err := enc.Encode(e); err != nil {
			panic(err)
		}
	}
	if err := sw.Close(); err != nil {
		panic(err)
	}
	return buf.Bytes(), hb.Build()
}

type checkpointData struct {
	meta   *checkpoint.Metadata
	chunks [][]byte   // raw chunk files
	dec    [][][]byte // decoded entry lists
}

// staleParams, when set, makes createCheckpoint first create a checkpoint of the same root with other
// parameters in the same directory and remove its metadata file (a creation that was interrupted before
// the metadata was written), so that the real creation runs over leftover chunk files.
var staleParams *[2]uint64

func createCheckpoint(s *server, size uint64, threads uint16) (*checkpointData, error) {
	dir := scratchDir("cp")
	defer os.RemoveAll(dir)
	fc, err := checkpoint.NewFileCreator(dir, s.ndb)
	if err != nil {
		return nil, err
	}
	if staleParams != nil {
		if _, err = fc.CreateCheckpoint(ctx, s.root, staleParams[0], uint16(staleParams[1])); err != nil {
			return nil, err
		}
		metas, _ := filepath.Glob(filepath.Join(dir, "*", "*", "meta"))
		for _, m := range metas {
			os.Remove(m)
		}
	}
	meta, err := fc.CreateCheckpoint(ctx, s.root, size, threads)
	if err != nil {
		return nil, err
	}
	cd := &checkpointData{meta: meta}
	for i := range meta.Chunks {
		cm, err := meta.GetChunkMetadata(uint64(i))
		if err != nil {
			return nil, err
		}
		var buf bytes.Buffer
		if err = fc.GetCheckpointChunk(ctx, cm, &buf); err != nil {
			return nil, err
		}
		raw := append([]byte{}, buf.Bytes()...)
		cd.chunks = append(cd.chunks, raw)
		es, err := decodeChunk(raw)
		if err != nil {
			return nil, fmt.Errorf("chunk %d does not decode: %w", i, err)
		}
		cd.dec = append(cd.dec, es)
	}
	return cd, nil
}

// ptrHashes collects the hashes of all materialised nodes below a verified pointer.
func ptrHashes(p *node.Pointer, out map[hash.Hash]bool) {
	if p == nil || p.Node == nil {
		return
	}
	out[p.Hash] = true
	if in, ok := p.Node.(*node.InternalNode); ok {
		ptrHashes(in.LeafNode, out)
		ptrHashes(in.Left, out)
		ptrHashes(in.Right, out)
	}
}

type c12Runner struct {
	caseRunner
	cp     *checkpointData
	cpSize uint64
	cpThr  uint16
	deep   bool // tree deeper than maxProofDepth: restore is expected to fail (F3)
}

// deepTree: some key path is deeper than the verifier accepts (then chunks fail to verify: F3).
func (c *c12Runner) deepTree() bool {
	depth := 0
	var walk func(ptr *node.Pointer, d int)
	walk = func(ptr *node.Pointer, d int) {
		if ptr == nil || ptr.Hash.IsEmpty() {
			return
		}
		if d > depth {
			depth = d
		}
		n, err := c.srv.ndb.GetNode(c.srv.root, ptr)
		if err != nil {
			return
		}
		if in, ok := n.(*node.InternalNode); ok {
			walk(in.Left, d+1)
			walk(in.Right, d+1)
			if d+1 > depth {
				depth = d + 1
			}
		}
	}
	walk(&node.Pointer{Clean: true, Hash: c.srv.root.Hash}, 0)
	return depth > 128
}

func (c *c12Runner) runCp(size uint64, threads uint16) {
	s := c.srv
	cd, err := createCheckpoint(s, size, threads)
	if err != nil {
		c.fail("spec", "create-checkpoint-error", fmt.Sprintf("CreateCheckpoint(size=%d, threads=%d): %v", size, threads, err))
		return
	}
	c.cp, c.cpSize, c.cpThr = cd, size, threads
	c.res.Count(fmt.Sprintf("cp:threads=%d", threads))
	switch {
	case len(cd.dec) == 1:
		c.res.Count("cp:chunks=1")
	case len(cd.dec) <= 10:
		c.res.Count("cp:chunks=2..10")
	default:
		c.res.Count("cp:chunks>10")
	}
	c.res.CountN("cp:chunks-total", len(cd.dec))
	// (1) correspondence: the model's chunk list, byte for byte
	parts := make([]string, len(cd.dec))
	for i, es := range cd.dec {
		parts[i] = showEntries(es)
	}
	want := fmt.Sprintf("chunks %d %s", len(cd.dec), strings.Join(parts, "|"))
	if threads == 0 {
		c.ask(fmt.Sprintf("chunks %d", size), "chunks-differ", expect(want))
	} else {
		c.ask(fmt.Sprintf("pchunks %d %d", size, threads), "chunks-differ", expect(want))
	}
	if !c.deepTree() {
		c.ask("cover", "spec-model-chunks-do-not-cover", expect("cover ok"))
	}
	// (2) digests in the metadata are the digests of the files
	for i, raw := range cd.chunks {
		h := hash.NewFromBytes(raw)
		if !h.Equal(&cd.meta.Chunks[i]) {
			c.fail("spec", "spec-digest-mismatch", fmt.Sprintf("chunk %d: metadata digest differs from the file's hash", i))
		}
	}
	// (3) every chunk is a V0 proof for the root; the union of materialised nodes is the tree
	all := map[hash.Hash]bool{}
	var pv syncer.ProofVerifier
	for i, es := range cd.dec {
		p := &syncer.Proof{V: 0, UntrustedRoot: s.root.Hash, Entries: es}
		ptr, err := pv.VerifyProof(ctx, s.root.Hash, p)
		if err != nil {
			if strings.Contains(err.Error(), "max proof depth exceeded") {
				c.deep = true
				c.fail("spec", "proof-depth-exceeded-checkpoint-chunk",
					fmt.Sprintf("chunk %d of a checkpoint of a tree deeper than maxProofDepth does not verify: %v (consequence of F3: such a checkpoint cannot be restored)", i, err))
			} else {
				c.fail("spec", "spec-chunk-does-not-verify", fmt.Sprintf("chunk %d (size=%d threads=%d): %v", i, size, threads, err))
			}
			return
		}
		ptrHashes(ptr, all)
	}
	want2 := map[hash.Hash]bool{}
	for _, n := range s.nodes() {
		want2[n.GetHash()] = true
	}
	if len(all) != len(want2) {
		c.fail("spec", "spec-chunks-do-not-cover", fmt.Sprintf("chunks (size=%d threads=%d) materialise %d distinct nodes, the tree has %d", size, threads, len(all), len(want2)))
	} else {
		for h := range want2 {
			if !all[h] {
				c.fail("spec", "spec-chunks-do-not-cover", fmt.Sprintf("node %s is in no chunk (size=%d threads=%d)", h, size, threads))
				break
			}
		}
	}
	// (4) determinism: same metadata under other GOMAXPROCS settings and by repetition
	old := runtime.GOMAXPROCS(0)
	for _, procs := range []int{1, 3, 16} {
		runtime.GOMAXPROCS(procs)
		cd2, err := createCheckpoint(s, size, threads)
		if err != nil {
			c.fail("spec", "create-checkpoint-error", err.Error())
			break
		}
		same := len(cd2.meta.Chunks) == len(cd.meta.Chunks)
		for i := 0; same && i < len(cd.meta.Chunks); i++ {
			same = cd2.meta.Chunks[i].Equal(&cd.meta.Chunks[i])
		}
		if !same {
			c.fail("spec", "spec-checkpoint-not-deterministic",
				fmt.Sprintf("CreateCheckpoint(size=%d, threads=%d) gives different chunk digests under GOMAXPROCS=%d", size, threads, procs))
			break
		}
		c.res.Count("cp:determinism-repeat")
	}
	runtime.GOMAXPROCS(old)
}

// readAll returns the contents readable under the root of a database.
func readAll(ndb db.NodeDB, root node.Root) ([]kv, error) {
	t := mkvs.NewWithRoot(nil, ndb, root)
	defer t.Close()
	it := t.NewIterator(ctx)
	defer it.Close()
	var out []kv
	for it.Rewind(); it.Valid(); it.Next() {
		out = append(out, kv{append([]byte{}, it.Key()...), append([]byte{}, it.Value()...)})
	}
	return out, it.Err()
}

// runRestoreConcurrent: several goroutines restore all chunks (each in its own order) at once.
func (c *c12Runner) runRestoreConcurrent(backend string, workers int, seed uint64) {
	if c.cp == nil || c.deep {
		return
	}
	s := c.srv
	cd := c.cp
	dir := ""
	if !strings.HasSuffix(backend, "mem") {
		dir = scratchDir("dst")
		defer os.RemoveAll(dir)
	}
	ndb := openDB(backend, dir)
	defer ndb.Close()
	rs, _ := checkpoint.NewRestorer(ndb)
	if err := ndb.StartMultipartInsert(s.root.Version); err != nil {
		panic(err)
	}
	if err := rs.StartRestore(ctx, cd.meta); err != nil {
		panic(err)
	}
	c.res.Count("restore:concurrent:" + backend)
	var wg sync.WaitGroup
	var mu sync.Mutex
	var bad []string
	dones := 0
	for w := 0; w < workers; w++ {
		wg.Add(1)
		r := hlib.FromState(seed + uint64(w)*7919)
		go func() {
			defer wg.Done()
			defer func() {
				if rec := recover(); rec != nil {
					mu.Lock()
					bad = append(bad, fmt.Sprintf("PANIC in RestoreChunk: %v", rec))
					mu.Unlock()
				}
			}()
			n := len(cd.chunks)
			perm := make([]int, n)
			for i := range perm {
				perm[i] = i
			}
			for i := n - 1; i > 0; i-- {
				j := r.Intn(i + 1)
				perm[i], perm[j] = perm[j], perm[i]
			}
			for _, i := range perm {
				fin, err := rs.RestoreChunk(ctx, uint64(i), bytes.NewReader(cd.chunks[i]))
				mu.Lock()
				if fin {
					dones++
				}
				if err != nil && !errors.Is(err, checkpoint.ErrChunkAlreadyRestored) && !errors.Is(err, checkpoint.ErrNoRestoreInProgress) {
					bad = append(bad, fmt.Sprintf("RestoreChunk(%d): %v", i, err))
				}
				mu.Unlock()
			}
		}()
	}
	wg.Wait()
	if len(bad) > 0 {
		c.fail("spec", "spec-concurrent-restore-error", fmt.Sprintf("%d concurrent callers into %s: %s", workers, backend, bad[0]))
		return
	}
	if dones == 0 {
		c.fail("spec", "spec-restore-done-flag", "concurrent restore: no caller was told the restore completed")
		return
	}
	if err := ndb.Finalize([]node.Root{s.root}); err != nil {
		c.fail("spec", "spec-restored-root-not-finalizable", fmt.Sprintf("Finalize after concurrent restore into %s: %v", backend, err))
		return
	}
	got, err := readAll(ndb, s.root)
	if err != nil {
		c.fail("spec", "spec-restored-not-readable", fmt.Sprintf("reading the concurrently restored root from %s: %v", backend, err))
		return
	}
	same := len(got) == len(s.keys)
	for i := 0; same && i < len(got); i++ {
		same = bytes.Equal(got[i].k, s.keys[i]) && bytes.Equal(got[i].v, s.ref[string(s.keys[i])])
	}
	if !same {
		c.fail("spec", "spec-restored-contents-differ", fmt.Sprintf("concurrently restored database (%s) differs from the original", backend))
		return
	}
	c.res.Count("restore:concurrent-complete")
}

// gateReader blocks its first Read until the gate opens; `entered` is closed when that Read starts
// (the caller is then past phase 1 of RestoreChunk and inside restoreChunk).
type gateReader struct {
	r       io.Reader
	gate    chan struct{}
	entered chan struct{}
	once    bool
}

func (g *gateReader) Read(p []byte) (int, error) {
	if !g.once {
		g.once = true
		close(g.entered)
		<-g.gate
	}
	return g.r.Read(p)
}

// runRaceAbort: caller A is between the two phases of RestoreChunk(i) when caller B's chunk j (right
// digest in the metadata, wrong proof) fails verification, which aborts the restore. A must not report
// completion: most chunks were never restored.
func (c *c12Runner) runRaceAbort(i, j int) {
	if c.cp == nil || c.deep || len(c.cp.chunks) < 2 {
		return
	}
	s := c.srv
	cd := c.cp
	i = i % len(cd.chunks)
	j = j % len(cd.chunks)
	if i == j {
		j = (i + 1) % len(cd.chunks)
	}
	raw, digest := encodeChunk([][]byte{{0x07, 0x07}})
	meta := *cd.meta
	meta.Chunks = append([]hash.Hash{}, cd.meta.Chunks...)
	meta.Chunks[j] = digest
	ndb := openDB("badgermem", "")
	defer ndb.Close()
	rs, _ := checkpoint.NewRestorer(ndb)
	if err := ndb.StartMultipartInsert(s.root.Version); err != nil {
		panic(err)
	}
	if err := rs.StartRestore(ctx, &meta); err != nil {
		panic(err)
	}
	c.res.Count("raceabort")
	g := &gateReader{r: bytes.NewReader(cd.chunks[i]), gate: make(chan struct{}), entered: make(chan struct{})}
	type result struct {
		done bool
		err  error
	}
	ch := make(chan result, 1)
	go func() {
		defer func() {
			if rec := recover(); rec != nil {
				ch <- result{false, fmt.Errorf("PANIC: %v", rec)}
			}
		}()
		d, e := rs.RestoreChunk(ctx, uint64(i), g)
		ch <- result{d, e}
	}()
	<-g.entered
	_, errB := rs.RestoreChunk(ctx, uint64(j), bytes.NewReader(raw))
	if !errors.Is(errB, checkpoint.ErrChunkProofVerificationFailed) {
		close(g.gate)
		<-ch
		c.fail("spec", "spec-bad-proof-error-kind", fmt.Sprintf("raceabort: bad-proof chunk %d: %v", j, errB))
		return
	}
	if i%2 == 0 {
		// Variant: the restore is RESTARTED for the same checkpoint (a freshly decoded copy of the good
		// metadata, as a syncing node gets it from another peer) while A is still importing. What A
		// imported belongs to the aborted multipart insert and was discarded with it: A must not be
		// credited to the new restore. Afterwards every chunk, including i, is restored; the result
		// must be complete and readable.
		c.res.Count("raceabort:restart-same-root")
		if err := ndb.AbortMultipartInsert(); err != nil {
			panic(err)
		}
		if err := ndb.StartMultipartInsert(s.root.Version); err != nil {
			panic(err)
		}
		var meta2 checkpoint.Metadata
		if err := cbor.Unmarshal(cbor.Marshal(cd.meta), &meta2); err != nil {
			panic(err)
		}
		if err := rs.StartRestore(ctx, &meta2); err != nil {
			close(g.gate)
			<-ch
			c.fail("spec", "restorer-restart-refused", fmt.Sprintf("StartRestore after the abort: %v", err))
			return
		}
		close(g.gate)
		a := <-ch
		if a.err == nil {
			c.fail("spec", "restorer-straggler-credited-to-new-restore",
				fmt.Sprintf("RestoreChunk(%d) started under a restore that was aborted (proof failure of chunk %d) and restarted for the same root returned done=%v, err=nil: its nodes were discarded with the aborted multipart insert, yet the chunk counts as restored in the new restore", i, j, a.done))
			return
		}
		for k := range cd.chunks {
			if _, err := rs.RestoreChunk(ctx, uint64(k), bytes.NewReader(cd.chunks[k])); err != nil {
				c.fail("spec", "restorer-straggler-credited-to-new-restore",
					fmt.Sprintf("after abort + restart for the same root, RestoreChunk(%d) of the new restore answered %v (straggler was chunk %d)", k, err, i))
				return
			}
		}
		if err := ndb.Finalize([]node.Root{s.root}); err != nil {
			c.fail("spec", "spec-restored-root-not-finalizable", fmt.Sprintf("Finalize after abort + restart: %v", err))
			return
		}
		got, err := readAll(ndb, s.root)
		if err != nil || len(got) != len(s.keys) {
			c.fail("spec", "spec-restored-not-readable", fmt.Sprintf("after abort + restart the restored root reads %d of %d keys, err=%v", len(got), len(s.keys), err))
		}
		return
	}
	close(g.gate)
	a := <-ch
	if a.done {
		c.fail("spec", "restorer-done-after-concurrent-abort",
			fmt.Sprintf("RestoreChunk(%d) returned done=true, err=%v although the restore had been aborted by the proof failure of a concurrent RestoreChunk(%d) and only 1 of %d chunks was restored (restorer.go phase 2 does not re-check the restore in progress)", i, a.err, j, len(cd.chunks)))
	}
}

// runRaceClaim: caller A is between the two phases of RestoreChunk(i) while caller B restores every
// other chunk. Completion must not be reported before A's chunk is imported; it is reported by A.
func (c *c12Runner) runRaceClaim(i int) {
	if c.cp == nil || c.deep || len(c.cp.chunks) < 2 {
		return
	}
	s := c.srv
	cd := c.cp
	i = i % len(cd.chunks)
	ndb := openDB("badgermem", "")
	defer ndb.Close()
	rs, _ := checkpoint.NewRestorer(ndb)
	if err := ndb.StartMultipartInsert(s.root.Version); err != nil {
		panic(err)
	}
	if err := rs.StartRestore(ctx, cd.meta); err != nil {
		panic(err)
	}
	c.res.Count("raceclaim")
	g := &gateReader{r: bytes.NewReader(cd.chunks[i]), gate: make(chan struct{}), entered: make(chan struct{})}
	type result struct {
		done bool
		err  error
	}
	ch := make(chan result, 1)
	go func() {
		defer func() {
			if rec := recover(); rec != nil {
				ch <- result{false, fmt.Errorf("PANIC: %v", rec)}
			}
		}()
		d, e := rs.RestoreChunk(ctx, uint64(i), g)
		ch <- result{d, e}
	}()
	<-g.entered
	early := ""
	for j := range cd.chunks {
		if j == i {
			continue
		}
		d, err := rs.RestoreChunk(ctx, uint64(j), bytes.NewReader(cd.chunks[j]))
		if err != nil {
			early = fmt.Sprintf("RestoreChunk(%d) failed while RestoreChunk(%d) was in flight: %v", j, i, err)
			break
		}
		if d {
			early = fmt.Sprintf("RestoreChunk(%d) reported completion while RestoreChunk(%d) was still importing its chunk", j, i)
			break
		}
	}
	close(g.gate)
	a := <-ch
	if early != "" {
		c.fail("spec", "spec-restore-done-before-all-imported", early)
		return
	}
	if a.err != nil || !a.done {
		c.fail("spec", "spec-restore-done-flag", fmt.Sprintf("last RestoreChunk(%d) (all others restored meanwhile) returned done=%v err=%v", i, a.done, a.err))
		return
	}
	if err := ndb.Finalize([]node.Root{s.root}); err != nil {
		c.fail("spec", "spec-restored-root-not-finalizable", fmt.Sprintf("Finalize after interleaved restore: %v", err))
		return
	}
	got, err := readAll(ndb, s.root)
	if err != nil || len(got) != len(s.keys) {
		c.fail("spec", "spec-restored-contents-differ", fmt.Sprintf("interleaved restore: %d keys readable (err=%v), original %d", len(got), err, len(s.keys)))
	}
}

func (c *c12Runner) runRestore(backend string, steps []string) {
	if c.cp == nil {
		return
	}
	s := c.srv
	cd := c.cp
	dir := ""
	if !strings.HasSuffix(backend, "mem") {
		dir = scratchDir("dst")
		defer os.RemoveAll(dir)
	}
	ndb := openDB(backend, dir)
	defer ndb.Close()
	rs, err := checkpoint.NewRestorer(ndb)
	if err != nil {
		panic(err)
	}
	start := func() bool {
		if err := ndb.StartMultipartInsert(s.root.Version); err != nil {
			c.fail("spec", "restore-error", "StartMultipartInsert: "+err.Error())
			return false
		}
		if err := rs.StartRestore(ctx, cd.meta); err != nil {
			c.fail("spec", "restore-error", "StartRestore: "+err.Error())
			return false
		}
		return true
	}
	if !start() {
		return
	}
	c.res.Count("restore:" + backend)
	restored := map[int]bool{}
	done := false
	aborted := false
	var order []string
	for _, st := range steps {
		if st == "A" {
			_ = rs.AbortRestore(ctx)
			if err := ndb.AbortMultipartInsert(); err != nil {
				c.fail("spec", "restore-error", "AbortMultipartInsert: "+err.Error())
				return
			}
			// observation only (not part of the property text): both backends keep reporting the
			// root of an aborted restore through HasRoot although its nodes were removed
			if !s.root.Hash.IsEmpty() && ndb.HasRoot(s.root) && len(restored) > 0 {
				c.res.Count("observed:hasroot-true-after-aborted-restore")
			}
			aborted = true
			restored = map[int]bool{}
			order = nil
			done = false
			c.res.Count("restore:abort-restart")
			if !start() {
				return
			}
			continue
		}
		if st == "S" {
			// StartMultipartInsert again for the version being restored (as a further restore of the same
			// version does, e.g. the second root type): must be accepted and change nothing
			if err := ndb.StartMultipartInsert(s.root.Version); err != nil {
				c.fail("spec", "spec-repeated-start-multipart-refused", "StartMultipartInsert of the version in progress: "+err.Error())
				return
			}
			c.res.Count("restore:start-again")
			continue
		}
		kind := byte(0)
		if strings.HasSuffix(st, "f") || strings.HasSuffix(st, "t") || strings.HasSuffix(st, "s") || strings.HasSuffix(st, "x") {
			kind = st[len(st)-1]
			st = st[:len(st)-1]
		}
		i := atoi(st)
		if i >= len(cd.chunks) {
			i = i % len(cd.chunks)
		}
		raw := append([]byte{}, cd.chunks[i]...)
		switch kind {
		case 'f':
			raw[(i*7+3)%len(raw)] ^= 0x10
		case 't':
			raw = raw[:len(raw)/2]
		case 's':
			// the (well-formed) bytes of another chunk of the same checkpoint, delivered for index i
			j := (i + 1) % len(cd.chunks)
			if bytes.Equal(cd.chunks[j], cd.chunks[i]) {
				kind = 0
			} else {
				raw = append([]byte{}, cd.chunks[j]...)
			}
		}
		if done {
			// a completed restore accepts nothing more
			if _, err := rs.RestoreChunk(ctx, uint64(i), bytes.NewReader(raw)); err == nil {
				c.fail("spec", "spec-restore-after-done", "RestoreChunk succeeded after the restore had completed")
			}
			continue
		}
		if kind == 'x' {
			// the genuine chunk, but the caller's context is already cancelled (a transient failure of
			// the import that is not the chunk's fault): either the import does not notice and the chunk
			// counts as restored, or it fails and the chunk stays pending — a later attempt must import it
			if restored[i] {
				continue
			}
			cctx, cancel := context.WithCancel(ctx)
			cancel()
			fin, err := rs.RestoreChunk(cctx, uint64(i), bytes.NewReader(raw))
			c.res.Count("restore:cancelled-context")
			if err == nil {
				restored[i] = true
				order = append(order, fmt.Sprint(i))
				done = fin
			} else {
				c.res.Count("restore:cancelled-context:failed")
			}
			continue
		}
		fin, err := rs.RestoreChunk(ctx, uint64(i), bytes.NewReader(raw))
		switch {
		case kind != 0:
			c.res.Count("restore:corrupt-chunk")
			if err == nil {
				c.fail("spec", "spec-corrupt-chunk-accepted", fmt.Sprintf("chunk %d with altered bytes (%c) was accepted", i, kind))
				return
			}
			if !errors.Is(err, checkpoint.ErrChunkCorrupted) {
				if restored[i] && errors.Is(err, checkpoint.ErrChunkAlreadyRestored) {
					break
				}
				c.fail("spec", "spec-corrupt-chunk-error-kind", fmt.Sprintf("chunk %d with altered bytes: %v (expected ErrChunkCorrupted)", i, err))
				return
			}
		case restored[i]:
			c.res.Count("restore:duplicate")
			if !errors.Is(err, checkpoint.ErrChunkAlreadyRestored) {
				c.fail("spec", "spec-duplicate-chunk", fmt.Sprintf("second RestoreChunk(%d): %v (expected ErrChunkAlreadyRestored)", i, err))
				return
			}
		default:
			if err != nil {
				if c.deep && errors.Is(err, checkpoint.ErrChunkProofVerificationFailed) {
					c.fail("spec", "proof-depth-exceeded-checkpoint-chunk", fmt.Sprintf("RestoreChunk(%d): %v", i, err))
				} else {
					c.fail("spec", "spec-honest-chunk-rejected", fmt.Sprintf("RestoreChunk(%d) into %s: %v", i, backend, err))
				}
				return
			}
			restored[i] = true
			order = append(order, fmt.Sprint(i))
			c.res.Count("restore:chunk")
			if fin != (len(restored) == len(cd.chunks)) {
				c.fail("spec", "spec-restore-done-flag", fmt.Sprintf("RestoreChunk(%d) returned done=%v with %d of %d chunks restored", i, fin, len(restored), len(cd.chunks)))
				return
			}
			done = fin
		}
	}
	// the rest, in order
	for i := range cd.chunks {
		if !restored[i] && !done {
			fin, err := rs.RestoreChunk(ctx, uint64(i), bytes.NewReader(cd.chunks[i]))
			if err != nil {
				if c.deep && errors.Is(err, checkpoint.ErrChunkProofVerificationFailed) {
					c.fail("spec", "proof-depth-exceeded-checkpoint-chunk", fmt.Sprintf("RestoreChunk(%d): %v", i, err))
				} else {
					c.fail("spec", "spec-honest-chunk-rejected", fmt.Sprintf("RestoreChunk(%d) into %s: %v", i, backend, err))
				}
				return
			}
			restored[i] = true
			order = append(order, fmt.Sprint(i))
			done = fin
		}
	}
	if !done {
		c.fail("spec", "spec-restore-done-flag", "all chunks restored but RestoreChunk never returned done")
		return
	}
	if err := ndb.Finalize([]node.Root{s.root}); err != nil {
		c.fail("spec", "spec-restored-root-not-finalizable", fmt.Sprintf("Finalize after restore into %s: %v", backend, err))
		return
	}
	got, err := readAll(ndb, s.root)
	if err != nil {
		if aborted && strings.HasPrefix(backend, "pathbadger") {
			c.fail("spec", "pathbadger-restore-after-abort-unreadable",
				fmt.Sprintf("restore into %s after an aborted attempt at the same version (StartMultipartInsert; AbortMultipartInsert; StartMultipartInsert; all chunks; Finalize ok): reading the restored root fails: %v", backend, err))
		} else {
			c.fail("spec", "spec-restored-not-readable", fmt.Sprintf("reading the restored root from %s: %v", backend, err))
		}
		return
	}
	differSig := "spec-restored-contents-differ"
	if aborted && strings.HasPrefix(backend, "pathbadger") {
		// same defect as above: part of the nodes of the restarted restore is lost on Finalize
		differSig = "pathbadger-restore-after-abort-unreadable"
	}
	if len(got) != len(s.keys) {
		c.fail("spec", differSig, fmt.Sprintf("restored database (%s) has %d keys, the original %d", backend, len(got), len(s.keys)))
		return
	}
	for i, e := range got {
		if !bytes.Equal(e.k, s.keys[i]) || !bytes.Equal(e.v, s.ref[string(s.keys[i])]) {
			c.fail("spec", differSig, fmt.Sprintf("restored database (%s): item %d is %s=%s, original %s=%s", backend, i, hx(e.k), hx(e.v), hx(s.keys[i]), hx(s.ref[string(s.keys[i])])))
			return
		}
	}
	// every node of the original is in the restored database
	for _, n := range s.nodes() {
		h := n.GetHash()
		if _, err := ndb.GetNode(s.root, &node.Pointer{Clean: true, Hash: h}); err != nil {
			// pathbadger resolves nodes by position, not by bare hash: skip this probe there
			if strings.HasPrefix(backend, "pathbadger") {
				break
			}
			c.fail("spec", "spec-restored-node-missing", fmt.Sprintf("node %s missing in restored %s: %v", h, backend, err))
			return
		}
	}
	c.res.Count("restore:complete")
	// model: same order, same number of distinct imported nodes, restore completes
	distinct := map[hash.Hash]bool{}
	for _, n := range s.nodes() {
		distinct[n.GetHash()] = true
	}
	c.ask("restore "+strings.Join(order, ","), "restore-model-differs", expect(fmt.Sprintf("restored %d complete", len(distinct))))
}

// runBadProof: the metadata carries the digest of an altered chunk (so the digest check passes);
// the proof must fail verification and nothing may be imported.
func (c *c12Runner) runBadProof(idx int, kind string) {
	if c.cp == nil || c.deep {
		return
	}
	s := c.srv
	cd := c.cp
	idx = idx % len(cd.dec)
	es := make([][]byte, len(cd.dec[idx]))
	for i, e := range cd.dec[idx] {
		if e != nil {
			es[i] = append([]byte{}, e...)
		}
	}
	changed := false
	switch kind {
	case "value": // alter the value of some leaf (embedded or full)
		for i := len(es) - 1; i >= 0 && !changed; i-- {
			if len(es[i]) > 8 {
				es[i][len(es[i])-1] ^= 1
				changed = true
			}
		}
	case "drop":
		if len(es) > 1 {
			es = es[:len(es)-1]
			changed = true
		}
	case "hash":
		for i := range es {
			if len(es[i]) == 33 && es[i][0] == 0x02 {
				es[i][5] ^= 0x40
				changed = true
				break
			}
		}
	case "garbage":
		es = append(es, []byte{0x07, 0x07})
		changed = true
	}
	if !changed {
		return
	}
	raw, digest := encodeChunk(es)
	meta := *cd.meta
	meta.Chunks = append([]hash.Hash{}, cd.meta.Chunks...)
	meta.Chunks[idx] = digest
	ndb := openDB("badgermem", "")
	defer ndb.Close()
	rs, _ := checkpoint.NewRestorer(ndb)
	if err := ndb.StartMultipartInsert(s.root.Version); err != nil {
		panic(err)
	}
	if err := rs.StartRestore(ctx, &meta); err != nil {
		panic(err)
	}
	_, err := rs.RestoreChunk(ctx, uint64(idx), bytes.NewReader(raw))
	c.res.Count("badproof:" + kind)
	if err == nil {
		c.fail("spec", "spec-bad-proof-chunk-accepted", fmt.Sprintf("chunk %d altered (%s) with matching digest was imported", idx, kind))
		return
	}
	if !errors.Is(err, checkpoint.ErrChunkProofVerificationFailed) {
		c.fail("spec", "spec-bad-proof-error-kind", fmt.Sprintf("altered chunk %d (%s): %v (expected ErrChunkProofVerificationFailed)", idx, kind, err))
		return
	}
	// the restore was aborted
	if rs.GetCurrentCheckpoint() != nil {
		c.fail("spec", "spec-bad-proof-not-aborted", "restore still in progress after a proof verification failure")
	}
	// nothing was imported: no node of the tree is readable
	for _, n := range s.nodes() {
		h := n.GetHash()
		if _, err := ndb.GetNode(s.root, &node.Pointer{Clean: true, Hash: h}); err == nil {
			c.fail("spec", "spec-bad-chunk-imported-nodes", fmt.Sprintf("node %s readable after a rejected chunk", h))
			break
		}
	}
	// model verdict on the altered entry list
	p := &syncer.Proof{V: 0, UntrustedRoot: s.root.Hash, Entries: es}
	c.ask(proofLine(s.root.Hash, p), "verdict-differs", func(ans string) string {
		if strings.HasPrefix(ans, "ok") {
			return "model accepts the altered chunk that the implementation rejected: " + trunc(ans)
		}
		return ""
	})
}

func runCaseC12(lines []string, res *hlib.Result) (fails []hlib.Failure, nlines int) {
	var kvs []kv
	backend := "badgermem"
	for _, l := range lines {
		w := strings.Fields(l)
		switch w[0] {
		case "kv":
			kvs = append(kvs, kv{unhx(w[1]), unhx(w[2])})
		case "src":
			backend = w[1]
		}
	}
	c := &c12Runner{}
	c.res = res
	func() {
		defer func() {
			if r := recover(); r != nil {
				c.fail("panic", "driver-panic", fmt.Sprint(r))
			}
		}()
		c.srv = newServer(backend, kvs, 1)
		defer c.srv.close()
		c.ask("new", "model-error", expect("ok"))
		for _, e := range kvs {
			c.ask("insert "+hx(e.k)+" "+hx(e.v), "model-error", expect("ok"))
		}
		c.ask("root", "root-differs", expect("root "+hx(c.srv.root.Hash[:])))
		for _, l := range lines {
			w := strings.Fields(l)
			switch w[0] {
			case "cp":
				staleParams = nil
				c.runCp(uint64(atoi(w[1])), uint16(atoi(w[2])))
			case "cpover":
				// cpover SIZE THREADS STALESIZE STALETHREADS: create over the leftovers of an interrupted creation
				staleParams = &[2]uint64{uint64(atoi(w[3])), uint64(atoi(w[4]))}
				c.runCp(uint64(atoi(w[1])), uint16(atoi(w[2])))
				staleParams = nil
			case "raceclaim":
				c.runRaceClaim(atoi(w[1]))
			case "restore":
				c.runRestore(w[1], strings.Split(w[2], ","))
			case "badproof":
				c.runBadProof(atoi(w[1]), w[2])
			case "raceabort":
				c.runRaceAbort(atoi(w[1]), atoi(w[2]))
			case "restorec":
				c.runRestoreConcurrent(w[1], atoi(w[2]), uint64(atoi(w[3])))
			}
		}
	}()
	if len(c.lines) > 0 {
		ans, err := hlib.RunModel("proof", c.lines)
		if err != nil {
			c.fail("divergence", "model-error", err.Error())
		} else {
			for i, a := range ans {
				if d := c.checks[i](a); d != "" {
					c.fail("divergence", c.sigs[i], fmt.Sprintf("at `%s`: %s", trunc(c.lines[i]), d))
					break
				}
			}
		}
	}
	return c.failures, len(c.lines)
}

func genCaseC12(r *hlib.Rng, res *hlib.Result, i int, big int) []string {
	var lines []string
	backends := []string{"badgermem", "pathbadgermem", "badger", "pathbadger"}
	lines = append(lines, "src "+backends[r.Intn(len(backends))])
	var keys [][]byte
	isBig := i >= 1 && i <= big
	switch {
	case i == 0:
		deepForce = true
		keys = genKeys(r, 6, res)
	case isBig:
		res.Count("shape:big")
		seen := map[string]bool{}
		n := 1000 + r.Intn(2500)
		for len(keys) < n {
			k := randBytes(r, 2+r.Intn(5))
			if !seen[string(k)] {
				seen[string(k)] = true
				keys = append(keys, k)
			}
		}
	default:
		deepForce = false
		shape := []int{0, 0, 1, 1, 2, 3, 3, 3, 4, 5}[r.Intn(10)]
		keys = genKeys(r, shape, res)
	}
	total := 0
	for _, k := range keys {
		v := genValue(r)
		if isBig {
			v = randBytes(r, 1+r.Intn(8))
		}
		total += len(k) + len(v) + 10
		lines = append(lines, "kv "+hx(k)+" "+hx(v))
	}
	sizes := []int{0, 1, 2, 10, 50, 100, 200, 500, 4096, 1 << 20}
	threads := []int{0, 0, 0, 1, 1, 2, 3, 4, 8, 16, 32}
	ncp := 1 + r.Intn(3)
	if i == 0 {
		ncp = 1
	}
	for a := 0; a < ncp; a++ {
		size := sizes[r.Intn(len(sizes))]
		if isBig {
			// keep the number of chunks of big trees moderate (model cost is per chunk)
			size = total/(4+r.Intn(12)) + 1
		}
		thr := threads[r.Intn(len(threads))]
		if i != 0 && !isBig && r.Chance(1, 5) {
			// leftovers of an interrupted creation with smaller chunks (longer files for low indices are likely)
			lines = append(lines, fmt.Sprintf("cpover %d %d %d %d", size, thr, sizes[r.Intn(len(sizes))]*4+64, threads[r.Intn(len(threads))]))
		} else {
			lines = append(lines, fmt.Sprintf("cp %d %d", size, thr))
		}
		if i == 0 {
			lines = append(lines, "restore badgermem 0")
			continue
		}
		nres := 1 + r.Intn(2)
		for b := 0; b < nres; b++ {
			// a shuffled order with duplicates, corruptions and aborts; indices are taken modulo
			// the number of chunks
			nsteps := 1 + r.Intn(12)
			var steps []string
			for c := 0; c < nsteps; c++ {
				x := r.Intn(40)
				switch y := r.Intn(20); {
				case y == 0:
					steps = append(steps, "A")
				case y == 1:
					steps = append(steps, fmt.Sprintf("%df", x))
				case y == 2:
					steps = append(steps, fmt.Sprintf("%dt", x))
				case y == 3:
					steps = append(steps, fmt.Sprintf("%ds", x))
				case y == 4:
					steps = append(steps, fmt.Sprintf("%dx", x))
				case y == 5:
					steps = append(steps, "S")
				default:
					steps = append(steps, fmt.Sprint(x))
				}
			}
			be := backends[r.Intn(len(backends))]
			if isBig {
				be = []string{"badgermem", "pathbadgermem"}[r.Intn(2)]
			}
			lines = append(lines, fmt.Sprintf("restore %s %s", be, strings.Join(steps, ",")))
		}
		if r.Chance(1, 3) {
			lines = append(lines, fmt.Sprintf("restorec %s %d %d", backends[r.Intn(len(backends))], 2+r.Intn(5), r.Next()>>2))
		}
		if r.Chance(1, 4) {
			lines = append(lines, fmt.Sprintf("raceabort %d %d", r.Intn(40), r.Intn(40)))
		}
		if r.Chance(1, 4) {
			lines = append(lines, fmt.Sprintf("raceclaim %d", r.Intn(40)))
		}
		if r.Chance(1, 2) {
			lines = append(lines, fmt.Sprintf("badproof %d %s", r.Intn(40), []string{"value", "drop", "hash", "garbage"}[r.Intn(4)]))
		}
	}
	_ = sort.Strings
	_ = filepath.Join
	return lines
}
