// crashdrv: fault enumeration for property C07 on the REAL badger and pathbadger node databases.
//
// For a generated version history and its last operation L (a Commit, Finalize or Prune):
//
//	(a) a reference child process runs the whole history with the verif crash-point hook in
//	    logging mode; the sequence of boundary names each operation passed is compared with the
//	    write plan of the Lean model (`om_nodedb` mode crash): same number, order and kind;
//	(b) for EVERY boundary of L a child process re-runs the history and exits abruptly
//	    (os.Exit(137) inside the hook) at that boundary; the parent reopens the database and checks
//	      1. every root finalized before L that was readable before L reads back unchanged,
//	      2. the state is observably the old one or the new one, or retrying L succeeds and ends
//	         observably in the state of the uninterrupted run,
//	    and sends its classification to the model, which must have predicted it.
//
// Case language: as dbdrv (commit / finalize / prune) plus
//
//	restore <tag> <type> <version> <k=v,..>   a checkpoint of a tree with these contents is created
//	      from a scratch database and restored: StartMultipartInsert, every chunk through the real
//	      checkpoint.Restorer, Finalize
//
// The last line is L.
package main

import (
	"bytes"
	"context"
	"encoding/json"
	"errors"
	"flag"
	"fmt"
	"os"
	"os/exec"
	"sort"
	"strconv"
	"strings"

	"verifharness/hlib"

	"github.com/oasisprotocol/oasis-core/go/common"
	"github.com/oasisprotocol/oasis-core/go/common/crypto/hash"
	"github.com/oasisprotocol/oasis-core/go/storage/mkvs"
	"github.com/oasisprotocol/oasis-core/go/storage/mkvs/checkpoint"
	"github.com/oasisprotocol/oasis-core/go/storage/mkvs/db/api"
	"github.com/oasisprotocol/oasis-core/go/storage/mkvs/db/badger"
	"github.com/oasisprotocol/oasis-core/go/storage/mkvs/db/pathbadger"
	"github.com/oasisprotocol/oasis-core/go/storage/mkvs/node"
)

var (
	ns  common.Namespace
	ctx = context.Background()
)

func scratch() string {
	d := os.Getenv("VERIF_SCRATCH")
	if d == "" {
		d = os.TempDir()
	}
	return d
}

func openDB(kind, dir string) (api.NodeDB, error) {
	cfg := &api.Config{DB: dir, NoFsync: true, Namespace: ns, MaxCacheSize: 4 << 20}
	if kind == "badger" {
		return badger.New(cfg)
	}
	return pathbadger.New(cfg)
}

func errName(err error) string {
	switch {
	case err == nil:
		return "ok"
	case errors.Is(err, api.ErrAlreadyFinalized):
		return "already_finalized"
	case errors.Is(err, api.ErrNotFinalized):
		return "not_finalized"
	case errors.Is(err, api.ErrRootNotFound):
		return "root_not_found"
	case errors.Is(err, api.ErrRootMustFollowOld):
		return "must_follow"
	case errors.Is(err, api.ErrNotEarliest):
		return "not_earliest"
	case errors.Is(err, api.ErrCannotPruneLatestVersion):
		return "cannot_prune_latest"
	case errors.Is(err, api.ErrNodeNotFound):
		return "node_not_found"
	}
	m := err.Error()
	switch {
	case strings.Contains(m, "Key not found"):
		return "node_not_found"
	case strings.Contains(m, "need at least one root"):
		return "no_roots"
	case strings.Contains(m, "only one root of type"),
		strings.Contains(m, "child roots in the same version not supported"),
		strings.Contains(m, "cannot have child roots"):
		return "restricted"
	}
	return "other:" + strings.ReplaceAll(m, " ", "_")
}

type contents map[string]string

func (c contents) String() string {
	if len(c) == 0 {
		return "-"
	}
	ks := make([]string, 0, len(c))
	for k := range c {
		ks = append(ks, k)
	}
	sort.Strings(ks)
	var sb strings.Builder
	for i, k := range ks {
		if i > 0 {
			sb.WriteByte(';')
		}
		sb.WriteString(k + "=" + c[k])
	}
	return sb.String()
}

func applyWrites(src contents, writes string) (contents, [][2]string) {
	c := contents{}
	for k, v := range src {
		c[k] = v
	}
	var seq [][2]string
	if writes != "-" {
		for _, w := range strings.Split(writes, ",") {
			kv := strings.SplitN(w, "=", 2)
			if len(kv) != 2 {
				continue
			}
			seq = append(seq, [2]string{kv[0], kv[1]})
			if kv[1] == "" {
				delete(c, kv[0])
			} else {
				c[kv[0]] = kv[1]
			}
		}
	}
	return c, seq
}

type rootRec struct {
	T, V int
	H    string // hex of the hash
}

func (r rootRec) root() node.Root {
	var h hash.Hash
	_ = h.UnmarshalHex(r.H)
	return node.Root{Namespace: ns, Version: uint64(r.V), Type: node.RootType(r.T + 1), Hash: h}
}

func (r rootRec) key() string { return fmt.Sprintf("%d:%d:%s", r.V, r.T, r.H[:8]) }

func readBack(db api.NodeDB, r node.Root) (res string) {
	defer func() {
		if p := recover(); p != nil {
			res = "!panic"
		}
	}()
	tr := mkvs.NewWithRoot(nil, db, r)
	defer tr.Close()
	it := tr.NewIterator(ctx)
	defer it.Close()
	c := contents{}
	for it.Rewind(); it.Valid(); it.Next() {
		c[string(it.Key())] = string(it.Value())
	}
	if err := it.Err(); err != nil {
		return "!" + errName(err)
	}
	return c.String()
}

// ---------------------------------------------------------------- executing a history

// runner executes ops on an open database. Its bookkeeping (tags, finalized roots) is
// deterministic in the ops and the database answers, so parent and children agree on it.
type runner struct {
	kind  string
	db    api.NodeDB
	tags  map[string]rootRec
	cont  map[string]contents
	known []rootRec
	fin   map[string]string // finalized (chosen) roots: key -> committed contents
	last  int
	maxV  int
}

func newRunner(kind string, db api.NodeDB) *runner {
	return &runner{kind: kind, db: db, tags: map[string]rootRec{}, cont: map[string]contents{}, fin: map[string]string{}, last: -1}
}

func (b *runner) addKnown(r rootRec) {
	for _, k := range b.known {
		if k == r {
			return
		}
	}
	b.known = append(b.known, r)
	if r.V > b.maxV {
		b.maxV = r.V
	}
}

// exec runs one op; returns (skipped, result, extra facts for the model).
func (b *runner) exec(op string) (skip bool, res string, facts string) {
	w := strings.Fields(op)
	defer func() {
		if p := recover(); p != nil {
			res = "panic:" + strings.ReplaceAll(fmt.Sprint(p), " ", "_")
		}
	}()
	switch {
	case w[0] == "commit" && len(w) == 6:
		tag, srcTag, writes := w[1], w[4], w[5]
		t, _ := strconv.Atoi(w[2])
		v, _ := strconv.Atoi(w[3])
		var src *rootRec
		srcCont := contents{}
		if srcTag != "-" {
			s, ok := b.tags[srcTag]
			if !ok {
				return true, "", ""
			}
			if s.V < v && s.V > b.last {
				return true, "", ""
			}
			src = &s
			srcCont = b.cont[srcTag]
		}
		want, seq := applyWrites(srcCont, writes)
		var tr mkvs.Tree
		if src == nil {
			tr = mkvs.New(nil, b.db, node.RootType(t+1))
		} else {
			r := src.root()
			r.Type = node.RootType(t + 1)
			tr = mkvs.NewWithRoot(nil, b.db, r)
		}
		defer tr.Close()
		for _, kv := range seq {
			var err error
			if kv[1] == "" {
				err = tr.Remove(ctx, []byte(kv[0]))
			} else {
				err = tr.Insert(ctx, []byte(kv[0]), []byte(kv[1]))
			}
			if err != nil {
				return false, "src_unreadable", ""
			}
		}
		// does the root already exist? (a re-commit writes nothing) -- needs the hash first
		_, hh, err := tr.Commit(ctx, ns, uint64(v), mkvs.NoPersist())
		existed := false
		if err == nil {
			existed = !hh.IsEmpty() && b.db.HasRoot(node.Root{Namespace: ns, Version: uint64(v), Type: node.RootType(t + 1), Hash: hh})
			if hh.IsEmpty() {
				rs, _ := b.db.GetRootsForVersion(uint64(v))
				for _, r := range rs {
					if r.Hash.IsEmpty() && int(r.Type)-1 == t {
						existed = true
					}
				}
			}
		}
		_, hh, err = tr.Commit(ctx, ns, uint64(v))
		if err != nil {
			r := errName(err)
			if r == "node_not_found" {
				r = "src_unreadable"
			}
			return false, r, ""
		}
		rec := rootRec{T: t, V: v, H: hh.Hex()}
		b.tags[tag] = rec
		b.cont[tag] = want
		b.addKnown(rec)
		ex := "0"
		if existed {
			ex = "1"
		}
		return false, "ok", "exists=" + ex
	case w[0] == "finalize" && len(w) == 3:
		v, _ := strconv.Atoi(w[1])
		var roots []node.Root
		var recs []rootRec
		var tags []string
		if w[2] != "-" {
			for _, tg := range strings.Split(w[2], ",") {
				if tg == "E0" || tg == "E1" {
					var e hash.Hash
					e.Empty()
					recs = append(recs, rootRec{T: int(tg[1] - '0'), V: v, H: e.Hex()})
					tags = append(tags, "")
				} else {
					r, ok := b.tags[tg]
					if !ok || r.V != v {
						return true, "", ""
					}
					recs = append(recs, r)
					tags = append(tags, tg)
				}
				roots = append(roots, recs[len(recs)-1].root())
			}
		}
		res := errName(b.db.Finalize(roots))
		if res == "ok" {
			b.last = v
			for i, r := range recs {
				if tags[i] != "" {
					b.fin[r.key()] = b.cont[tags[i]].String()
				}
			}
		}
		return false, res, ""
	case w[0] == "restore" && len(w) == 5:
		tag := w[1]
		t, _ := strconv.Atoi(w[2])
		v, _ := strconv.Atoi(w[3])
		want, seq := applyWrites(contents{}, w[4])
		// source: a scratch in-memory database holding the tree at version v
		// (the OTHER backend, so that its crash-point names do not mix with those under test)
		srcCfg := &api.Config{MemoryOnly: true, Namespace: ns, MaxCacheSize: 4 << 20}
		var src api.NodeDB
		var err error
		if b.kind == "badger" {
			src, err = pathbadger.New(srcCfg)
		} else {
			src, err = badger.New(srcCfg)
		}
		if err != nil {
			return false, "other:src", ""
		}
		defer src.Close()
		tr := mkvs.New(nil, src, node.RootType(t+1))
		for _, kv := range seq {
			if kv[1] != "" {
				_ = tr.Insert(ctx, []byte(kv[0]), []byte(kv[1]))
			}
		}
		_, hh, err := tr.Commit(ctx, ns, uint64(v))
		tr.Close()
		if err != nil {
			return false, "other:srccommit", ""
		}
		root := node.Root{Namespace: ns, Version: uint64(v), Type: node.RootType(t + 1), Hash: hh}
		if err = src.Finalize([]node.Root{root}); err != nil {
			return false, "other:srcfinalize", ""
		}
		cpDir, err := os.MkdirTemp(scratch(), "crashdrv-cp-")
		if err != nil {
			return false, "other:cpdir", ""
		}
		defer os.RemoveAll(cpDir)
		fc, _ := checkpoint.NewFileCreator(cpDir, src)
		meta, err := fc.CreateCheckpoint(ctx, root, 96, 0)
		if err != nil {
			return false, "other:createcheckpoint:" + strings.ReplaceAll(err.Error(), " ", "_"), ""
		}
		// target: the database under test
		if err = b.db.StartMultipartInsert(uint64(v)); err != nil {
			return false, errName(err), fmt.Sprintf("chunks=%d", len(meta.Chunks))
		}
		rs, _ := checkpoint.NewRestorer(b.db)
		if err = rs.StartRestore(ctx, meta); err != nil {
			return false, "other:startrestore", ""
		}
		for idx := range meta.Chunks {
			cm, _ := meta.GetChunkMetadata(uint64(idx))
			var buf bytes.Buffer
			if err = fc.GetCheckpointChunk(ctx, cm, &buf); err != nil {
				return false, "other:getchunk", ""
			}
			if _, err = rs.RestoreChunk(ctx, uint64(idx), &buf); err != nil {
				_ = b.db.AbortMultipartInsert()
				return false, "chunk:" + errName(err), fmt.Sprintf("chunks=%d", len(meta.Chunks))
			}
		}
		res := errName(b.db.Finalize([]node.Root{root}))
		rec := rootRec{T: t, V: v, H: hh.Hex()}
		if res == "ok" {
			b.tags[tag] = rec
			b.cont[tag] = want
			b.addKnown(rec)
			b.last = v
			b.fin[rec.key()] = want.String()
		} else {
			_ = b.db.AbortMultipartInsert()
		}
		return false, res, fmt.Sprintf("chunks=%d", len(meta.Chunks))
	case w[0] == "prune" && len(w) == 2:
		v, _ := strconv.Atoi(w[1])
		// fact for the model: does the pruned version have a lone root with a non-empty tree?
		// (approximated from outside as: a finalized root of the io type with non-empty hash)
		lone := "0"
		if rs, err := b.db.GetRootsForVersion(uint64(v)); err == nil {
			for _, r := range rs {
				if r.Type == node.RootTypeIO && !r.Hash.IsEmpty() {
					lone = "1"
				}
			}
		}
		res := errName(b.db.Prune(uint64(v)))
		if res == "ok" {
			for k := range b.fin {
				if strings.HasPrefix(k, fmt.Sprintf("%d:", v)) {
					delete(b.fin, k)
				}
			}
		}
		return false, res, "loneio=" + lone
	}
	return true, "", ""
}

// observe returns the canonical observation vector of the database.
func (b *runner) observe() []string {
	var out []string
	latest := "-"
	if l, ok := b.db.GetLatestVersion(); ok {
		latest = strconv.FormatUint(l, 10)
	}
	out = append(out, fmt.Sprintf("latest=%s earliest=%d", latest, b.db.GetEarliestVersion()))
	listed := map[string]bool{}
	for v := 0; v <= b.maxV+1; v++ {
		rs, err := b.db.GetRootsForVersion(uint64(v))
		if err != nil {
			out = append(out, fmt.Sprintf("roots %d !%s", v, errName(err)))
			continue
		}
		var one []string
		for _, r := range rs {
			rec := rootRec{T: int(r.Type) - 1, V: int(r.Version), H: r.Hash.Hex()}
			one = append(one, rec.key())
			listed[rec.key()] = true
		}
		sort.Strings(one)
		out = append(out, fmt.Sprintf("roots %d %s", v, strings.Join(one, ",")))
	}
	for _, k := range b.known {
		has := false
		func() {
			defer func() { _ = recover() }()
			has = b.db.HasRoot(k.root())
		}()
		line := fmt.Sprintf("root %s has=%v", k.key(), has)
		if has || listed[k.key()] {
			line += " read=" + readBack(b.db, k.root())
		}
		out = append(out, line)
	}
	return out
}

// ---------------------------------------------------------------- child process

type childOut struct {
	Seqs    [][]string        `json:"seqs"`     // per executed op: boundary names passed
	Results []string          `json:"results"`  // per executed op
	Facts   []string          `json:"facts"`    // per executed op
	Ops     []string          `json:"ops"`      // the executed (non-skipped) ops
	ObsPre  []string          `json:"obs_pre"`  // before the last op
	ObsFull []string          `json:"obs_full"` // after the last op
	FinPre  map[string]string `json:"fin_pre"`  // finalized roots before the last op -> contents
	Known   []rootRec         `json:"known"`
	Err     string            `json:"err"`
}

// logPrefix restricts the recorded boundaries to the backend under test.
var logPrefix = ""

func readLog(path string, from int) ([]string, int) {
	b, _ := os.ReadFile(path)
	ls := strings.Split(strings.TrimSpace(string(b)), "\n")
	if len(ls) == 1 && ls[0] == "" {
		ls = nil
	}
	var out []string
	for _, l := range ls[from:] {
		if strings.HasPrefix(l, logPrefix) {
			out = append(out, l)
		}
	}
	return out, len(ls)
}

// childMain: run the history in dir; with VERIF_CRASH_AT set the process dies inside the hook.
func childMain(kind, dir, opsFile, outFile string) {
	ops, err := hlib.ReadLines(opsFile)
	if err != nil {
		os.Exit(3)
	}
	db, err := openDB(kind, dir)
	if err != nil {
		fmt.Fprintln(os.Stderr, "open:", err)
		os.Exit(3)
	}
	b := newRunner(kind, db)
	logPrefix = kind + "."
	co := childOut{FinPre: map[string]string{}}
	logPath := os.Getenv("VERIF_CRASH_LOG")
	pos := 0
	if logPath != "" {
		_, pos = readLog(logPath, 0)
	}
	// index of the last executable op is unknown up front: snapshot before every op
	for i, op := range ops {
		var pre []string
		var finPre map[string]string
		if i == len(ops)-1 {
			pre = b.observe()
			finPre = map[string]string{}
			for k, c := range b.fin {
				finPre[k] = c
			}
		}
		skip, res, facts := b.exec(op)
		if skip {
			continue
		}
		var seq []string
		if logPath != "" {
			seq, pos = readLog(logPath, pos)
		}
		co.Seqs = append(co.Seqs, seq)
		co.Results = append(co.Results, res)
		co.Facts = append(co.Facts, facts)
		co.Ops = append(co.Ops, op)
		if i == len(ops)-1 {
			co.ObsPre = pre
			co.FinPre = finPre
		}
	}
	co.ObsFull = b.observe()
	co.Known = b.known
	db.Close()
	j, _ := json.Marshal(co)
	_ = os.WriteFile(outFile, j, 0o644)
}

func runChild(kind, dir, opsFile, outFile, logFile, crashAt string) (int, string) {
	cmd := exec.Command(os.Args[0], "-child", "-backend", kind, "-dir", dir, "-ops", opsFile, "-childout", outFile)
	cmd.Env = append(os.Environ(), "VERIF_CRASH_LOG="+logFile, "VERIF_CRASH_AT="+crashAt)
	outb, err := cmd.CombinedOutput()
	if err == nil {
		return 0, ""
	}
	if ee, ok := err.(*exec.ExitError); ok {
		return ee.ExitCode(), tailStr(string(outb))
	}
	return -1, err.Error()
}

func tailStr(s string) string {
	if len(s) > 300 {
		return s[len(s)-300:]
	}
	return s
}

// ---------------------------------------------------------------- checking one case

type verdict struct{ kind, sig, detail string }

// norm drops the lines of roots the database does not report at all: before the last operation
// its root is not known to the observer yet, afterwards it is known but (after a crash) absent.
func norm(a []string) []string {
	var out []string
	for _, l := range a {
		if strings.HasPrefix(l, "root ") && strings.HasSuffix(l, " has=false") {
			continue
		}
		if strings.HasPrefix(l, "root ") && strings.Contains(l, ":c672b8d1 has=true read=-") {
			continue // the empty root is implicitly present in every version
		}
		if f := strings.Fields(l); f[0] == "roots" && len(f) == 2 {
			continue // a version without roots
		}
		out = append(out, l)
	}
	return out
}

func same(a, b []string) bool { return strings.Join(norm(a), "\n") == strings.Join(norm(b), "\n") }

func firstDiff(a, b []string) string {
	for i := 0; i < len(a) && i < len(b); i++ {
		if a[i] != b[i] {
			return fmt.Sprintf("`%s` vs `%s`", a[i], b[i])
		}
	}
	return fmt.Sprintf("lengths %d vs %d", len(a), len(b))
}

func opKind(op string) string { return strings.Fields(op)[0] }

// boundaryBase strips "#occurrence".
func boundaryBase(b string) string {
	if i := strings.LastIndex(b, "#"); i >= 0 {
		return b[:i]
	}
	return b
}

func check(kind string, ops []string, res *hlib.Result, count bool) []verdict {
	var vs []verdict
	work, err := os.MkdirTemp(scratch(), "crashdrv-")
	if err != nil {
		return []verdict{{"panic", kind + ":mkdtemp", err.Error()}}
	}
	defer os.RemoveAll(work)
	opsFile := work + "/ops.txt"
	_ = os.WriteFile(opsFile, []byte(strings.Join(ops, "\n")+"\n"), 0o644)

	// reference run (its own process, so that hook occurrence counters start at zero)
	refDir := work + "/ref"
	_ = os.Mkdir(refDir, 0o755)
	if rc, msg := runChild(kind, refDir, opsFile, work+"/ref.json", work+"/ref.log", ""); rc != 0 {
		return []verdict{{"panic", kind + ":reference-run-died", fmt.Sprintf("rc=%d %s", rc, msg)}}
	}
	var ref childOut
	if b, err := os.ReadFile(work + "/ref.json"); err != nil || json.Unmarshal(b, &ref) != nil {
		return []verdict{{"panic", kind + ":reference-run-no-output", ""}}
	}
	if len(ref.Ops) == 0 || ref.Ops[len(ref.Ops)-1] != ops[len(ops)-1] {
		return nil // the last op was not executable in this history
	}
	n := len(ref.Ops) - 1
	lastOp, lastRes, lastSeq := ref.Ops[n], ref.Results[n], ref.Seqs[n]
	k := opKind(lastOp)

	// (a) boundary sequences of every op against the model's write plans
	lines := []string{"mode crash"}
	for i, op := range ref.Ops {
		var names []string
		for _, s := range ref.Seqs[i] {
			names = append(names, boundaryBase(s))
		}
		sl := "-"
		if len(names) > 0 {
			sl = strings.Join(names, ",")
		}
		f := ref.Facts[i]
		if f == "" {
			f = "-"
		}
		lines = append(lines, fmt.Sprintf("plan %s %s %s %s %s", kind, opKind(op), ref.Results[i], f, sl))
		if count && res != nil {
			res.Count(kind + ":op:" + opKind(op) + ":" + ref.Results[i])
		}
	}

	// (b) crash at every boundary of the last op
	type crashObs struct {
		boundary string
		class    string
	}
	for bi, bnd := range lastSeq {
		if lastRes != "ok" {
			break
		}
		dir := fmt.Sprintf("%s/c%d", work, bi)
		_ = os.Mkdir(dir, 0o755)
		rc, msg := runChild(kind, dir, opsFile, work+"/c.json", work+"/c.log", bnd)
		if rc != 137 {
			vs = append(vs, verdict{"divergence", kind + ":crash-child-did-not-die", fmt.Sprintf("boundary %s rc=%d %s", bnd, rc, msg)})
			continue
		}
		if count && res != nil {
			res.Count(kind + ":crash:" + boundaryBase(bnd))
		}
		db, err := openDB(kind, dir)
		if err != nil {
			vs = append(vs, verdict{"spec", kind + ":crash-reopen-failed:" + boundaryBase(bnd), err.Error()})
			continue
		}
		// rebuild the runner's bookkeeping by replaying the prefix against nothing: the parent
		// knows tags/contents from the ops alone only through a dry bookkeeping pass
		b := newRunner(kind, db)
		b.known = ref.Known
		for _, r := range ref.Known {
			if r.V > b.maxV {
				b.maxV = r.V
			}
		}
		obs := b.observe()
		class := "mid"
		switch {
		case same(obs, ref.ObsPre):
			class = "old"
		case same(obs, ref.ObsFull):
			class = "new"
		}
		// 1. previously finalized roots intact (only those that read back before the op)
		preRead := map[string]string{}
		for _, l := range ref.ObsPre {
			f := strings.Fields(l)
			if f[0] == "root" && len(f) == 4 {
				preRead[f[1]] = strings.TrimPrefix(f[3], "read=")
			}
		}
		nowRead := map[string]string{}
		for _, l := range obs {
			f := strings.Fields(l)
			if f[0] == "root" {
				if len(f) == 4 {
					nowRead[f[1]] = strings.TrimPrefix(f[3], "read=")
				} else {
					nowRead[f[1]] = "!absent"
				}
			}
		}
		pruned := ""
		if k == "prune" {
			pruned = strings.Fields(lastOp)[1] + ":"
		}
		for key, c := range ref.FinPre {
			if preRead[key] != c {
				continue // already broken before the operation (C06 findings), not a crash effect
			}
			if pruned != "" && strings.HasPrefix(key, pruned) {
				// the version being pruned: may be gone, but if still reported it must read back
				if nowRead[key] == "!absent" || nowRead[key] == c {
					continue
				}
				vs = append(vs, verdict{"spec", fmt.Sprintf("%s:crash-pruned-version-half-deleted:%s", kind, boundaryBase(bnd)),
					fmt.Sprintf("after a crash at %s the root %s of the version being pruned is still reported but reads %s", bnd, key, nowRead[key])})
				continue
			}
			if nowRead[key] != c {
				vs = append(vs, verdict{"spec", fmt.Sprintf("%s:crash-finalized-root-lost:%s", kind, boundaryBase(bnd)),
					fmt.Sprintf("after a crash at %s finalized root %s reads %s, before the operation %s", bnd, key, nowRead[key], c)})
			}
		}
		// 3. no partially restored checkpoint is visible as a finalized root
		restoreFinalized := false
		if k == "restore" {
			w := strings.Fields(lastOp)
			want, _ := applyWrites(contents{}, w[4])
			if l, ok := db.GetLatestVersion(); ok && strconv.FormatUint(l, 10) == w[3] {
				restoreFinalized = true
				for _, r := range ref.Known {
					if strconv.Itoa(r.V) == w[3] && nowRead[r.key()] != want.String() {
						vs = append(vs, verdict{"spec", fmt.Sprintf("%s:crash-restored-version-finalized-but-unreadable:%s", kind, boundaryBase(bnd)),
							fmt.Sprintf("after a crash at %s the restored version %s is the last finalized version but its root %s reads %s (checkpoint contents %s)", bnd, w[3], r.key(), nowRead[r.key()], want.String())})
					}
				}
			}
		}
		// 2. old, new, or retry completes
		retry := "-"
		if restoreFinalized && class != "new" {
			class = "finalized-damaged" // the restore is finalized: there is nothing to retry
		} else if class != "new" {
			// replay bookkeeping: tags are needed for the retry; rebuild them from the reference
			rb := rebuildRunner(kind, db, ref, n)
			_, r, _ := rb.exec(lastOp)
			retry = r
			after := rb.observe()
			if r != "ok" {
				class += "+retry-fails"
				vs = append(vs, verdict{"spec", fmt.Sprintf("%s:crash-retry-fails:%s", kind, boundaryBase(bnd)),
					fmt.Sprintf("after a crash at %s (state %s) retrying `%s` returns %s", bnd, class, lastOp, r)})
			} else if !same(after, ref.ObsFull) {
				class += "+retry-differs"
				sb := boundaryBase(bnd)
				if k == "restore" {
					// the signature names the boundary and the effect, so that the known finding D10
					// (the restored root is reported but unreadable after the retry) does not cover a
					// different divergence at the same or another boundary of a restore
					eff := "other"
					if d := firstDiff(after, ref.ObsFull); strings.Contains(d, "has=true read=!node_not_found` vs `root") &&
						!strings.Contains(strings.SplitN(d, "` vs `", 2)[1], "!node_not_found") {
						eff = "root-unreadable"
					}
					sb = "restore:" + boundaryBase(bnd) + ":" + eff
				}
				vs = append(vs, verdict{"spec", fmt.Sprintf("%s:crash-retry-differs:%s", kind, sb),
					fmt.Sprintf("after a crash at %s and a successful retry of `%s` the state differs from the uninterrupted run: %s", bnd, lastOp, firstDiff(after, ref.ObsFull))})
			} else {
				class += "+retry-ok"
			}
		}
		db.Close()
		f := ref.Facts[n]
		if f == "" {
			f = "-"
		}
		lines = append(lines, fmt.Sprintf("crash %s %s %s %d %s", kind, k, f, bi, class))
		_ = retry
	}
	ans, err := hlib.RunModel("nodedb", lines)
	if err != nil {
		vs = append(vs, verdict{"divergence", kind + ":model-error", err.Error()})
	} else {
		for i, a := range ans {
			if !strings.HasPrefix(a, "ok") && a != "skip" {
				f := strings.Fields(a)
				sig := "other"
				if len(f) >= 2 {
					sig = f[1]
				}
				vs = append(vs, verdict{"divergence", kind + ":" + sig, fmt.Sprintf("line `%s`: %s", lines[i], a)})
			}
		}
	}
	return vs
}

// rebuildRunner reconstructs tags/contents bookkeeping for the first n executed ops of the
// reference run without touching the database (hashes are taken from the reference).
func rebuildRunner(kind string, db api.NodeDB, ref childOut, n int) *runner {
	b := newRunner(kind, db)
	b.known = append([]rootRec(nil), ref.Known...)
	for _, r := range ref.Known {
		if r.V > b.maxV {
			b.maxV = r.V
		}
	}
	// tags: re-derive by a dry run of the bookkeeping on an in-memory database of the same kind
	mem, err := func() (api.NodeDB, error) {
		cfg := &api.Config{MemoryOnly: true, Namespace: ns, MaxCacheSize: 4 << 20}
		if kind == "badger" {
			return badger.New(cfg)
		}
		return pathbadger.New(cfg)
	}()
	if err != nil {
		return b
	}
	defer mem.Close()
	dry := newRunner(kind, mem)
	for i := 0; i < n; i++ {
		dry.exec(ref.Ops[i])
	}
	b.tags, b.cont, b.fin, b.last = dry.tags, dry.cont, dry.fin, dry.last
	return b
}

// ---------------------------------------------------------------- main

var backends = []string{"badger", "pathbadger"}

func main() {
	seed := flag.Uint64("seed", 1, "seed")
	cases := flag.Int("cases", 20, "number of generated cases per backend")
	nver := flag.Int("versions", 5, "max versions per case")
	out := flag.String("out", "-", "result file")
	replay := flag.String("replay", "", "replay file (first line `backend <name>`, then ops)")
	corpus := flag.String("corpus", "", "corpus dir, run first")
	child := flag.Bool("child", false, "internal: child process")
	backend := flag.String("backend", "", "internal")
	dir := flag.String("dir", "", "internal")
	opsf := flag.String("ops", "", "internal")
	childout := flag.String("childout", "", "internal")
	flag.Parse()
	if *child {
		childMain(*backend, *dir, *opsf, *childout)
		return
	}

	res := hlib.NewResult("crashdrv", *seed)
	res.Rule = "generated version histories (as dbdrv) truncated after a random Commit / Finalize / Prune; reference run in a child process with the crash-point hook logging, then one child per boundary of the last operation exiting inside the hook; reopen, observe, retry; a case is non-trivial when the last operation succeeded and passed >= 2 boundaries; distinct by (backend, op list)"
	sigs := map[string]int{}
	report := func(kind string, ops []string, cs uint64, minimize bool) {
		vs := check(kind, ops, res, true)
		res.Cases++
		res.Ops += len(ops)
		for _, v := range vs {
			sigs[v.sig]++
			res.Count("fail:" + v.sig)
			if sigs[v.sig] > 1 {
				continue
			}
			min := ops
			detail := v.detail
			if minimize && len(ops) > 1 {
				head, last := ops[:len(ops)-1], ops[len(ops)-1]
				sh := hlib.Shrink(head, func(c []string) bool {
					for _, x := range check(kind, append(append([]string{}, c...), last), nil, false) {
						if x.sig == v.sig {
							return true
						}
					}
					return false
				})
				min = append(append([]string{}, sh...), last)
				for _, x := range check(kind, min, nil, false) {
					if x.sig == v.sig {
						detail = x.detail
					}
				}
			}
			res.Fail(hlib.Failure{Kind: v.kind, Detail: detail, Case: append([]string{"backend " + kind}, min...), Seed: cs, Sig: v.sig})
		}
	}
	parseReplay := func(lines []string) (string, []string) {
		if len(lines) > 0 && strings.HasPrefix(lines[0], "backend ") {
			return strings.TrimPrefix(lines[0], "backend "), lines[1:]
		}
		return "badger", lines
	}
	if *replay != "" {
		ls, err := hlib.ReadLines(*replay)
		if err != nil {
			fmt.Fprintln(os.Stderr, err)
			os.Exit(2)
		}
		k, ops := parseReplay(ls)
		report(k, ops, 0, false)
		res.Write(*out)
		return
	}
	if *corpus != "" {
		ents, _ := os.ReadDir(*corpus)
		for _, e := range ents {
			if !strings.HasPrefix(e.Name(), "crashdrv-") {
				continue
			}
			if ls, err := hlib.ReadLines(*corpus + "/" + e.Name()); err == nil && len(ls) > 1 {
				k, ops := parseReplay(ls)
				report(k, ops, 0, false)
				res.Count("corpus")
			}
		}
	}
	rng := hlib.NewRng(*seed)
	seen := map[string]bool{}
	for i := 0; i < *cases; i++ {
		cr := rng.Fork()
		cs := cr.Seed()
		full := genCase(cr, 2+cr.Intn(*nver), res)
		// cut after a random op, biased to one of each kind
		wantKind := []string{"commit", "finalize", "prune", "restore"}[i%4]
		var idx []int
		for j, o := range full {
			if opKind(o) == wantKind {
				idx = append(idx, j)
			}
		}
		if len(idx) == 0 {
			for j := range full {
				idx = append(idx, j)
			}
		}
		cut := idx[cr.Intn(len(idx))]
		ops := full[:cut+1]
		if wantKind == "restore" {
			// a checkpoint restore on top of a (possibly empty) finalized history
			lastFin := -1
			for j, o := range full {
				if opKind(o) == "finalize" {
					lastFin = j
				}
			}
			ops = nil
			maxV := 0
			if lastFin >= 0 && cr.Chance(2, 3) {
				ops = append(ops, full[:lastFin+1]...)
				for _, o := range ops {
					f := strings.Fields(o)
					if f[0] == "finalize" {
						if v, _ := strconv.Atoi(f[1]); v > maxV {
							maxV = v
						}
					}
				}
			}
			var kv []string
			for j := 0; j < 4+cr.Intn(8); j++ {
				kv = append(kv, fmt.Sprintf("k%02d=%s", cr.Intn(30), strings.Repeat("v", 1+cr.Intn(12))))
			}
			ops = append(ops, fmt.Sprintf("restore R1 0 %d %s", maxV+1+cr.Intn(3), strings.Join(kv, ",")))
		}
		for _, k := range backends {
			key := k + ";" + strings.Join(ops, ";")
			if !seen[key] {
				seen[key] = true
				res.Distinct++
			}
			if i < 1 {
				res.AddSample(append([]string{"backend " + k}, ops...))
			}
			report(k, ops, cs, true)
		}
	}
	res.Write(*out)
}
