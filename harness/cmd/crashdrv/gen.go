// Code shared in spirit with dbdrv's generator (kept as a copy: each driver is its own package).
package main

import (
	"fmt"
	"sort"
	"strings"

	"verifharness/hlib"
)

func genCase(r *hlib.Rng, nver int, res *hlib.Result) []string {
	var ops []string
	keys := []string{"a", "b", "c", "d", "e", "f", "ab", "ac"}
	vals := []string{"1", "2"}
	v := []int{0, 1, 1, 3}[r.Intn(4)]
	lag := 1 + r.Intn(4)
	ntag := 0
	newTag := func() string { ntag++; return fmt.Sprintf("r%d", ntag) }
	prevState := "-"                 // tag of the finalized state root of the previous version
	removedKV := map[string]string{} // previously removed key -> old value (for re-insertion)
	cont := map[string]contents{}
	earliest := -1
	twoState := r.Chance(1, 10) // sometimes finalize two roots of one type (badger only)
	for i := 0; i < nver; i++ {
		// --- candidates of the state type
		ncand := 1 + r.Intn(3)
		var cands []string
		for c := 0; c < ncand; c++ {
			src := prevState
			k := r.Intn(100)
			switch {
			case k < 8:
				src = "-" // fresh tree (re-creates nodes)
				res.Count("gen:fresh-state-candidate")
			case k < 13 && len(cands) > 0:
				src = cands[r.Intn(len(cands))] // same-version chain
				res.Count("gen:same-version-chain")
			}
			base := contents{}
			if src != "-" {
				base = cont[src]
			}
			var ws []string
			nw := r.Intn(4)
			k2 := r.Intn(100)
			switch {
			case k2 < 8:
				nw = 0 // unchanged root
				res.Count("gen:unchanged-root")
			case k2 < 14:
				// remove everything: empty root
				for kk := range base {
					ws = append(ws, kk+"=")
				}
				sort.Strings(ws)
				nw = 0
				res.Count("gen:empty-root")
			}
			for j := 0; j < nw; j++ {
				key := keys[r.Intn(len(keys))]
				k3 := r.Intn(100)
				switch {
				case k3 < 25:
					ws = append(ws, key+"=")
					if old, ok := base[key]; ok {
						removedKV[key] = old
					}
				case k3 < 40 && len(removedKV) > 0:
					// re-insert a previously removed key with its old value
					rk := hlib.SortedKeys(removedKV)
					key = rk[r.Intn(len(rk))]
					ws = append(ws, key+"="+removedKV[key])
					res.Count("gen:reinsert-removed")
				case k3 < 50:
					// remove and re-create the same key/value inside one commit
					if old, ok := base[key]; ok {
						ws = append(ws, key+"=", key+"="+old)
						res.Count("gen:remove-recreate")
					} else {
						ws = append(ws, key+"="+vals[r.Intn(len(vals))])
					}
				default:
					ws = append(ws, key+"="+vals[r.Intn(len(vals))])
				}
			}
			wl := "-"
			if len(ws) > 0 {
				wl = strings.Join(ws, ",")
			}
			tag := newTag()
			c2, _ := applyWrites(base, wl)
			cont[tag] = c2
			ops = append(ops, fmt.Sprintf("commit %s 0 %d %s %s", tag, v, src, wl))
			cands = append(cands, tag)
		}
		// --- candidates of the io type (always from nothing; may share keys with the state tree)
		nio := r.Intn(3)
		var ios []string
		for c := 0; c < nio; c++ {
			src := "-"
			if len(ios) > 0 && r.Chance(1, 6) {
				src = ios[len(ios)-1] // empty -> i -> io chain inside one version
				res.Count("gen:io-chain")
			}
			base := contents{}
			if src != "-" {
				base = cont[src]
			}
			var ws []string
			nw := 1 + r.Intn(3)
			if r.Chance(1, 8) {
				nw = 0 // empty io root
				res.Count("gen:empty-io-root")
			}
			for j := nw; j > 0; j-- {
				ws = append(ws, keys[r.Intn(len(keys))]+"="+vals[r.Intn(len(vals))])
			}
			wl := "-"
			if len(ws) > 0 {
				wl = strings.Join(ws, ",")
			}
			tag := newTag()
			c2, _ := applyWrites(base, wl)
			cont[tag] = c2
			ops = append(ops, fmt.Sprintf("commit %s 1 %d %s %s", tag, v, src, wl))
			ios = append(ios, tag)
		}
		// --- occasionally an operation that must be refused
		if r.Chance(1, 8) {
			switch r.Intn(5) {
			case 0:
				ops = append(ops, fmt.Sprintf("prune %d", v)) // not finalized
			case 1:
				ops = append(ops, fmt.Sprintf("finalize %d %s", v+2, cands[0])) // wrong version -> skipped or not_finalized
			case 2:
				if prevState != "-" {
					ops = append(ops, fmt.Sprintf("commit %s 0 %d %s z=9", newTag(), v-1, prevState)) // into finalized version
				}
			case 3:
				ops = append(ops, fmt.Sprintf("finalize %d -", v))
			case 4:
				if earliest >= 0 && earliest+1 < v {
					ops = append(ops, fmt.Sprintf("prune %d", earliest+1)) // not earliest
				}
			}
			res.Count("gen:refused-op")
		}
		// --- finalize
		pick := cands[r.Intn(len(cands))]
		fl := []string{pick}
		if twoState && len(cands) > 1 && r.Chance(1, 2) {
			other := cands[r.Intn(len(cands))]
			if other != pick {
				fl = append(fl, other)
				res.Count("gen:two-state-roots")
			}
		}
		if len(ios) > 0 && r.Chance(4, 5) {
			fl = append(fl, ios[r.Intn(len(ios))])
		} else if r.Chance(1, 4) {
			fl = append(fl, "E1")
		}
		ops = append(ops, fmt.Sprintf("finalize %d %s", v, strings.Join(fl, ",")))
		if earliest < 0 {
			earliest = v
		}
		prevState = pick
		// --- use of a discarded candidate afterwards
		if len(cands) > 1 && r.Chance(1, 10) {
			for _, c := range cands {
				if c != pick {
					ops = append(ops, fmt.Sprintf("commit %s 0 %d %s y=1", newTag(), v+1, c))
					res.Count("gen:commit-from-discarded")
					break
				}
			}
		}
		// --- pruning lagging by `lag`
		for earliest+lag <= v && earliest < v {
			if r.Chance(1, 12) {
				break
			}
			ops = append(ops, fmt.Sprintf("prune %d", earliest))
			earliest++
		}
		if r.Chance(1, 15) {
			ops = append(ops, fmt.Sprintf("prune %d", v)) // latest
		}
		if r.Chance(1, 10) {
			ops = append(ops, "reopen")
		}
		v++
	}
	return ops
}
