// registrydrv: correspondence between the real consensus registry (state package
// go/consensus/cometbft/apps/registry/state and the registry application's transaction and
// epoch handlers, on the mock application state the repository's own tests use) and the Lean
// model `om_registry` (lean/OasisModel/Registry), property C17.
//
// One case = one operation history on a fresh state.  After every operation the complete
// registry state is dumped twice: through the query API (NodeBySubKey for every key of the
// universe, NodeIDByConsensusAddress, GetEntityNodes, Nodes, ...) and raw (the secondary index
// key spaces as stored, through the verif-tagged hook VerifDumpIndexes).  The model executes the
// same operation, compares result code and both dumps, and evaluates the executable invariant
// `invB` on the dumped *real* state (spec-on-implementation).
package main

import (
	"bytes"
	"errors"
	"flag"
	"fmt"
	"os"
	"sort"
	"strconv"
	"strings"
	"time"

	"verifharness/hlib"

	beacon "github.com/oasisprotocol/oasis-core/go/beacon/api"
	"github.com/oasisprotocol/oasis-core/go/common"
	"github.com/oasisprotocol/oasis-core/go/common/cbor"
	"github.com/oasisprotocol/oasis-core/go/common/crypto/hash"
	"github.com/oasisprotocol/oasis-core/go/common/crypto/signature"
	memorySigner "github.com/oasisprotocol/oasis-core/go/common/crypto/signature/signers/memory"
	"github.com/oasisprotocol/oasis-core/go/common/entity"
	"github.com/oasisprotocol/oasis-core/go/common/node"
	"github.com/oasisprotocol/oasis-core/go/common/quantity"
	"github.com/oasisprotocol/oasis-core/go/common/version"
	"github.com/oasisprotocol/oasis-core/go/consensus/api/transaction"
	abciAPI "github.com/oasisprotocol/oasis-core/go/consensus/cometbft/api"
	beaconState "github.com/oasisprotocol/oasis-core/go/consensus/cometbft/apps/beacon/state"
	consensusState "github.com/oasisprotocol/oasis-core/go/consensus/cometbft/apps/consensus/state"
	registryApp "github.com/oasisprotocol/oasis-core/go/consensus/cometbft/apps/registry"
	registryState "github.com/oasisprotocol/oasis-core/go/consensus/cometbft/apps/registry/state"
	roothashApi "github.com/oasisprotocol/oasis-core/go/consensus/cometbft/apps/roothash/api"
	stakingState "github.com/oasisprotocol/oasis-core/go/consensus/cometbft/apps/staking/state"
	tmcrypto "github.com/oasisprotocol/oasis-core/go/consensus/cometbft/crypto"
	"github.com/oasisprotocol/oasis-core/go/consensus/genesis"
	genesisAPI "github.com/oasisprotocol/oasis-core/go/genesis/api"
	cmttypes "github.com/cometbft/cometbft/abci/types"
	registry "github.com/oasisprotocol/oasis-core/go/registry/api"
	"github.com/oasisprotocol/oasis-core/go/roothash/api/message"
	staking "github.com/oasisprotocol/oasis-core/go/staking/api"
)

// ----------------------------------------------------------------------------- universe

const (
	nKeys = 24 // public keys 1..nKeys (numbered in byte order of the public key)
	nRts  = 4  // runtime ids 1..nRts
)

type universe struct {
	signer  []signature.Signer
	pk      []signature.PublicKey
	num     map[signature.PublicKey]int
	hnum    map[hash.Hash]int // hash(pk) -> number
	anum    map[string]int    // consensus address -> number
	rt      []common.Namespace
	rtnum   map[common.Namespace]int
	rthnum  map[hash.Hash]int
	entAddr map[staking.Address]int
	rtAddr  map[staking.Address]int
	claim   map[staking.StakeClaim]string
}

var U *universe

func buildUniverse() *universe {
	u := &universe{
		num: map[signature.PublicKey]int{}, hnum: map[hash.Hash]int{}, anum: map[string]int{},
		rtnum: map[common.Namespace]int{}, rthnum: map[hash.Hash]int{},
		entAddr: map[staking.Address]int{}, rtAddr: map[staking.Address]int{},
		claim: map[staking.StakeClaim]string{},
	}
	var ss []signature.Signer
	for i := 0; i < nKeys; i++ {
		ss = append(ss, memorySigner.NewTestSigner(fmt.Sprintf("verif C17 registrydrv key %d", i)))
	}
	sort.Slice(ss, func(i, j int) bool {
		a, b := ss[i].Public(), ss[j].Public()
		return bytes.Compare(a[:], b[:]) < 0
	})
	u.signer = append([]signature.Signer{nil}, ss...)
	u.pk = make([]signature.PublicKey, nKeys+1)
	for i := 1; i <= nKeys; i++ {
		pk := u.signer[i].Public()
		u.pk[i] = pk
		u.num[pk] = i
		raw, _ := pk.MarshalBinary()
		u.hnum[hash.NewFromBytes(raw)] = i
		u.anum[string(tmcrypto.PublicKeyToCometBFT(&pk).Address())] = i
		u.entAddr[staking.NewAddress(pk)] = i
		u.claim[registry.StakeClaimForNode(pk)] = fmt.Sprintf("n%d", i)
	}
	u.claim[registry.StakeClaimRegisterEntity] = "e"
	u.rt = make([]common.Namespace, nRts+1)
	for i := 1; i <= nRts; i++ {
		// runtime nRts is a key manager runtime (the kind is bound to a flag of the namespace)
		var flags common.NamespaceFlag
		if i == nRts {
			flags = common.NamespaceKeyManager
		}
		ns := common.NewTestNamespaceFromSeed([]byte(fmt.Sprintf("verif C17 registrydrv runtime %d", i)), flags)
		u.rt[i] = ns
		u.rtnum[ns] = i
		raw, _ := ns.MarshalBinary()
		u.rthnum[hash.NewFromBytes(raw)] = i
		u.rtAddr[staking.NewRuntimeAddress(ns)] = i
		u.claim[registry.StakeClaimForRuntime(ns)] = fmt.Sprintf("r%d", i)
	}
	return u
}

func (u *universe) n(pk signature.PublicKey) string {
	if i, ok := u.num[pk]; ok {
		return strconv.Itoa(i)
	}
	return "?"
}

// ----------------------------------------------------------------------------- op encoding

func atoi(s string) int {
	x, err := strconv.Atoi(s)
	if err != nil {
		panic("bad number in op: " + s)
	}
	return x
}

func nums(s string) []int {
	if s == "-" || s == "" {
		return nil
	}
	var out []int
	for _, f := range strings.Split(s, ",") {
		out = append(out, atoi(f))
	}
	return out
}

func showNums(l []int) string {
	if len(l) == 0 {
		return "-"
	}
	s := make([]string, len(l))
	for i, x := range l {
		s[i] = strconv.Itoa(x)
	}
	return strings.Join(s, ",")
}

// nodeSpec is the protocol form of a node descriptor: id:ent:cons:p2p:tls:vrf:exp:roles:rts
type nodeSpec struct {
	id, ent, cons, p2p, tls, vrf int
	exp                          uint64
	roles                        uint32
	rts                          []int
}

func parseNode(s string) nodeSpec {
	f := strings.Split(s, ":")
	if len(f) != 9 {
		panic("bad node spec: " + s)
	}
	e, err := strconv.ParseUint(f[6], 10, 64)
	if err != nil {
		panic("bad node spec: " + s)
	}
	return nodeSpec{atoi(f[0]), atoi(f[1]), atoi(f[2]), atoi(f[3]), atoi(f[4]), atoi(f[5]), e, uint32(atoi(f[7])), nums(f[8])}
}

func (n nodeSpec) String() string {
	return fmt.Sprintf("%d:%d:%d:%d:%d:%d:%d:%d:%s", n.id, n.ent, n.cons, n.p2p, n.tls, n.vrf, n.exp, n.roles, showNums(n.rts))
}

var testAddr = func() node.Address {
	var a node.Address
	if err := a.UnmarshalText([]byte("8.8.8.8:1234")); err != nil {
		panic(err)
	}
	return a
}()

func (n nodeSpec) descriptor() *node.Node {
	d := &node.Node{
		Versioned:  cbor.NewVersioned(node.LatestNodeDescriptorVersion),
		ID:         U.pk[n.id],
		EntityID:   U.pk[n.ent],
		Expiration: beacon.EpochTime(n.exp),
		Roles:      node.RolesMask(n.roles),
		P2P:        node.P2PInfo{ID: U.pk[n.p2p], Addresses: []node.Address{testAddr}},
		Consensus: node.ConsensusInfo{ID: U.pk[n.cons], Addresses: []node.ConsensusAddress{
			{ID: U.pk[n.cons], Address: testAddr},
		}},
		TLS: node.TLSInfo{PubKey: U.pk[n.tls]},
		VRF: node.VRFInfo{ID: U.pk[n.vrf]},
	}
	for _, r := range n.rts {
		d.Runtimes = append(d.Runtimes, &node.Runtime{ID: U.rt[r]})
	}
	return d
}

func specOf(d *node.Node) string {
	var rts []int
	for _, r := range d.Runtimes {
		rts = append(rts, U.rtnum[r.ID])
	}
	return fmt.Sprintf("%s:%s:%s:%s:%s:%s:%d:%d:%s", U.n(d.ID), U.n(d.EntityID), U.n(d.Consensus.ID), U.n(d.P2P.ID),
		U.n(d.TLS.PubKey), U.n(d.VRF.ID), d.Expiration, uint32(d.Roles), showNums(rts))
}

func signNode(d *node.Node, signers []int, valid bool) *node.MultiSignedNode {
	var ss []signature.Signer
	for _, i := range signers {
		ss = append(ss, U.signer[i])
	}
	sn, err := node.MultiSignNode(ss, registry.RegisterNodeSignatureContext, d)
	if err != nil {
		panic(err)
	}
	if !valid && len(sn.Signatures) > 0 {
		sn.Signatures[0].Signature[3] ^= 0x40
	}
	return sn
}

func runtimeDescriptor(id, ent int, gov, kind string) *registry.Runtime {
	rt := &registry.Runtime{
		Versioned: cbor.NewVersioned(registry.LatestRuntimeDescriptorVersion),
		ID:        U.rt[id],
		EntityID:  U.pk[ent],
		Kind:      registry.KindCompute,
		Executor:  registry.ExecutorParameters{GroupSize: 1, RoundTimeout: 5},
		TxnScheduler: registry.TxnSchedulerParameters{
			BatchFlushTimeout: time.Second, MaxBatchSize: 100, MaxBatchSizeBytes: 100_000_000, ProposerTimeout: 2 * time.Second,
		},
		Deployments:     []*registry.VersionInfo{{ValidFrom: 1 << 40}},
		AdmissionPolicy: registry.RuntimeAdmissionPolicy{AnyNode: &registry.AnyNodeRuntimeAdmissionPolicy{}},
	}
	switch gov {
	case "e":
		rt.GovernanceModel = registry.GovernanceEntity
	case "r":
		rt.GovernanceModel = registry.GovernanceRuntime
	case "c":
		rt.GovernanceModel = registry.GovernanceConsensus
	default:
		panic("bad governance " + gov)
	}
	if kind == "k" {
		rt.Kind = registry.KindKeyManager
		rt.Executor = registry.ExecutorParameters{}
		rt.TxnScheduler = registry.TxnSchedulerParameters{}
	}
	return rt
}

func addrOf(s string) staking.Address {
	if s[0] == 'e' {
		return staking.NewAddress(U.pk[atoi(s[1:])])
	}
	return staking.NewRuntimeAddress(U.rt[atoi(s[1:])])
}

func genItems(word, tag string) []string {
	if !strings.HasPrefix(word, tag+"=") {
		panic("bad genesis group " + word)
	}
	v := word[len(tag)+1:]
	if v == "-" {
		return nil
	}
	return strings.Split(v, ";")
}

// buildGenesis builds the registry genesis state from the protocol form
// E=<id>:<nodes>:<signer>:<valid>;.. R=<id>:<ent>:<gov>:<kind>;.. S=<rt>;.. N=<node>/<signers>/<valid>;.. T=<id>:<proc>:<freeze>;..
func buildGenesis(w []string, maxExp uint64) registry.Genesis {
	g := registry.Genesis{Parameters: regParams(maxExp), NodeStatuses: map[signature.PublicKey]*registry.NodeStatus{}}
	for _, it := range genItems(w[0], "E") {
		f := strings.Split(it, ":")
		ent := entity.Entity{Versioned: cbor.NewVersioned(entity.LatestDescriptorVersion), ID: U.pk[atoi(f[0])]}
		for _, i := range nums(f[1]) {
			ent.Nodes = append(ent.Nodes, U.pk[i])
		}
		se, err := entity.SignEntity(U.signer[atoi(f[2])], registry.RegisterGenesisEntitySignatureContext, &ent)
		must(err)
		if f[3] == "0" {
			se.Signature.Signature[3] ^= 0x40
		}
		g.Entities = append(g.Entities, se)
	}
	rtOf := func(it string) *registry.Runtime {
		f := strings.Split(it, ":")
		return runtimeDescriptor(atoi(f[0]), atoi(f[1]), f[2], f[3])
	}
	for _, it := range genItems(w[1], "R") {
		g.Runtimes = append(g.Runtimes, rtOf(it))
	}
	for _, it := range genItems(w[2], "S") {
		g.SuspendedRuntimes = append(g.SuspendedRuntimes, rtOf(it))
	}
	for _, it := range genItems(w[3], "N") {
		f := strings.Split(it, "/")
		n := parseNode(f[0])
		var ss []signature.Signer
		for _, i := range nums(f[1]) {
			ss = append(ss, U.signer[i])
		}
		sn, err := node.MultiSignNode(ss, registry.RegisterGenesisNodeSignatureContext, n.descriptor())
		must(err)
		if f[2] == "0" && len(sn.Signatures) > 0 {
			sn.Signatures[0].Signature[3] ^= 0x40
		}
		g.Nodes = append(g.Nodes, sn)
	}
	for _, it := range genItems(w[4], "T") {
		f := strings.Split(it, ":")
		u, err := strconv.ParseUint(f[2], 10, 64)
		must(err)
		g.NodeStatuses[U.pk[atoi(f[0])]] = &registry.NodeStatus{ExpirationProcessed: f[1] == "1", FreezeEndTime: beacon.EpochTime(u)}
	}
	return g
}

// ----------------------------------------------------------------------------- error classes

func classify(err error) string {
	if err == nil {
		return "ok"
	}
	msg := err.Error()
	has := func(s string) bool { return strings.Contains(msg, s) }
	switch {
	case errors.Is(err, registry.ErrInvalidSignature):
		return "invalid-signature"
	case errors.Is(err, registry.ErrIncorrectTxSigner):
		return "incorrect-tx-signer"
	case errors.Is(err, registry.ErrNoSuchEntity):
		return "no-such-entity"
	case errors.Is(err, registry.ErrNoSuchRuntime):
		return "no-such-runtime"
	case errors.Is(err, registry.ErrNodeExpired):
		return "node-expired"
	case errors.Is(err, registry.ErrNodeUpdateNotAllowed):
		return "node-update-not-allowed"
	case errors.Is(err, registry.ErrEntityHasNodes):
		return "entity-has-nodes"
	case errors.Is(err, registry.ErrEntityHasRuntimes):
		return "entity-has-runtimes"
	case errors.Is(err, registry.ErrForbidden):
		return "forbidden"
	case errors.Is(err, registry.ErrRuntimeUpdateNotAllowed):
		return "runtime-update-not-allowed"
	case errors.Is(err, staking.ErrInsufficientStake):
		return "insufficient-stake"
	case errors.Is(err, registry.ErrNoSuchNode):
		return "no-such-node"
	case errors.Is(err, registry.ErrBadEntityForNode):
		return "bad-entity-for-node"
	case errors.Is(err, registry.ErrNodeCannotBeUnfrozen):
		return "node-cannot-be-unfrozen"
	case errors.Is(err, registry.ErrInvalidArgument):
		why := "other"
		switch {
		case err == registry.ErrInvalidArgument || strings.HasSuffix(msg, "failure: "+registry.ErrInvalidArgument.Error()):
			why = "bare" // returned without detail (InitChain wraps it with "... registration failure: ")
		case has("not signed by node identity"):
			why = "unsigned-id"
		case has("not found in entity's node list"):
			why = "not-in-entity"
		case has("expiration period greater"):
			why = "expiration"
		case has("missing runtimes"):
			why = "missing-runtimes"
		case has("duplicate version for runtime"):
			why = "duplicate-runtime-version"
		case has("runtime not allowed"):
			why = "runtime-role"
		case has("not signed by consensus ID"):
			why = "unsigned-consensus"
		case has("not signed by VRF ID"):
			why = "unsigned-vrf"
		case has("not signed by TLS"):
			why = "unsigned-tls"
		case has("not signed by P2P ID"):
			why = "unsigned-p2p"
		case has("duplicate node "):
			why = "duplicate-subkey"
		case has("keys not unique"):
			why = "keys-not-unique"
		case has("unexpected number of signatures"):
			why = "signatures"
		case has("duplicate nodes"):
			why = "duplicate-nodes"
		case has("runtime governance can only be used"):
			why = "runtime-governance"
		}
		if why == "other" && os.Getenv("VERIF_DEBUG") != "" {
			fmt.Fprintln(os.Stderr, "invalid-argument other:", msg)
		}
		return "invalid-argument:" + why
	}
	return "other:" + strings.ReplaceAll(msg, " ", "_")
}

// ----------------------------------------------------------------------------- implementation under test

type impl struct {
	cfg      *abciAPI.MockApplicationStateConfig
	appState abciAPI.MockApplicationState
	ctx      *abciAPI.Context
	state    *registryState.MutableState
	stake    *stakingState.MutableState
	app      *registryApp.Application
	maxExp   uint64
}

func must(err error) {
	if err != nil {
		panic(err)
	}
}

// regParams are the registry consensus parameters of every case (also the genesis document's).
func regParams(maxExp uint64) registry.ConsensusParameters {
	return registry.ConsensusParameters{
		MaxNodeExpiration:      beacon.EpochTime(maxExp),
		DebugAllowTestRuntimes: true,
		MaxRuntimeDeployments:  20,
		EnableRuntimeGovernanceModels: map[registry.RuntimeGovernanceModel]bool{
			registry.GovernanceEntity: true, registry.GovernanceRuntime: true, registry.GovernanceConsensus: true,
		},
	}
}

// thrKinds are the staking threshold kinds in the order of the protocol's threshold list.
var thrKinds = []staking.ThresholdKind{
	staking.KindEntity, staking.KindNodeValidator, staking.KindNodeCompute, staking.KindNodeObserver,
	staking.KindNodeKeyManager, staking.KindRuntimeCompute, staking.KindRuntimeKeyManager,
}

func newImpl(maxExp, debond uint64, thr []int) *impl {
	cfg := &abciAPI.MockApplicationStateConfig{}
	appState := abciAPI.NewMockApplicationState(cfg)
	ctx := appState.NewContext(abciAPI.ContextEndBlock)
	im := &impl{cfg: cfg, appState: appState, ctx: ctx}
	im.state = registryState.NewMutableState(ctx.State())
	im.stake = stakingState.NewMutableState(ctx.State())
	im.maxExp = maxExp
	ths := map[staking.ThresholdKind]quantity.Quantity{staking.KindKeyManagerChurp: *quantity.NewFromUint64(0)}
	for i, k := range thrKinds {
		v := 0
		if i < len(thr) {
			v = thr[i]
		}
		ths[k] = *quantity.NewFromUint64(uint64(v))
	}
	must(im.stake.SetConsensusParameters(ctx, &staking.ConsensusParameters{
		DebondingInterval: beacon.EpochTime(debond),
		Thresholds:        ths,
	}))
	rp := regParams(maxExp)
	must(im.state.SetConsensusParameters(ctx, &rp))
	must(beaconState.NewMutableState(ctx.State()).SetConsensusParameters(ctx, &beacon.ConsensusParameters{Backend: beacon.BackendInsecure}))
	must(consensusState.NewMutableState(ctx.State()).SetConsensusParameters(ctx, &genesis.Parameters{
		FeatureVersion: &version.Version{Major: 100},
	}))
	im.app = registryApp.New(appState, &abciAPI.NoopMessageDispatcher{})
	return im
}

func (im *impl) tx(signer int, method transaction.MethodName, body any) error {
	txCtx := im.appState.NewContext(abciAPI.ContextDeliverTx)
	defer txCtx.Close()
	txCtx.SetTxSigner(U.pk[signer])
	return im.app.ExecuteTx(txCtx, &transaction.Transaction{Method: method, Body: cbor.Marshal(body)})
}

// exec runs one operation on the real code and returns its result class.
func (im *impl) exec(w []string) string {
	switch w[0] {
	case "regentity": // regentity <tx> <id> <nodes> <descsigner> <sigvalid>
		ent := entity.Entity{Versioned: cbor.NewVersioned(entity.LatestDescriptorVersion), ID: U.pk[atoi(w[2])]}
		for _, i := range nums(w[3]) {
			ent.Nodes = append(ent.Nodes, U.pk[i])
		}
		se, err := entity.SignEntity(U.signer[atoi(w[4])], registry.RegisterEntitySignatureContext, &ent)
		must(err)
		if w[5] == "0" {
			se.Signature.Signature[3] ^= 0x40
		}
		return classify(im.tx(atoi(w[1]), registry.MethodRegisterEntity, se))
	case "deregentity": // deregentity <tx>
		return classify(im.tx(atoi(w[1]), registry.MethodDeregisterEntity, nil))
	case "regnode": // regnode <tx> <node> <signers> <sigvalid>
		n := parseNode(w[2])
		sn := signNode(n.descriptor(), nums(w[3]), w[4] != "0")
		return classify(im.tx(atoi(w[1]), registry.MethodRegisterNode, sn))
	case "regruntime": // regruntime <caller e<k>|r<id>> <id> <ent> <gov> <kind>
		rt := runtimeDescriptor(atoi(w[2]), atoi(w[3]), w[4], w[5])
		c := atoi(w[1][1:])
		if w[1][0] == 'e' {
			return classify(im.tx(c, registry.MethodRegisterRuntime, rt))
		}
		// The runtime itself as caller: a registry runtime message (roothash dispatch path).
		txCtx := im.appState.NewContext(abciAPI.ContextDeliverTx)
		defer txCtx.Close()
		mctx := txCtx.WithCallerAddress(staking.NewRuntimeAddress(U.rt[c]))
		defer mctx.Close()
		_, err := im.app.ExecuteMessage(mctx, abciAPI.Message{
			Kind: roothashApi.RuntimeMessageRegistry,
			Data: &message.RegistryMessage{UpdateRuntime: rt},
		})
		return classify(err)
	case "epoch": // epoch <e>
		e, err := strconv.ParseUint(w[1], 10, 64)
		must(err)
		im.cfg.CurrentEpoch = beacon.EpochTime(e)
		im.cfg.EpochChanged = true
		bctx := im.appState.NewContext(abciAPI.ContextBeginBlock)
		err = im.app.BeginBlock(bctx)
		bctx.Close()
		im.cfg.EpochChanged = false
		if err != nil {
			return "fatal"
		}
		return "ok"
	case "unfreeze": // unfreeze <tx> <id>
		return classify(im.tx(atoi(w[1]), registry.MethodUnfreezeNode, &registry.UnfreezeNode{NodeID: U.pk[atoi(w[2])]}))
	case "freeze": // freeze <id> <until>   (what slashing does: read the status, set FreezeEndTime, write it)
		ns, err := im.state.NodeStatus(im.ctx, U.pk[atoi(w[1])])
		if err != nil {
			return "ok"
		}
		u, err := strconv.ParseUint(w[2], 10, 64)
		must(err)
		ns.FreezeEndTime = beacon.EpochTime(u)
		return classify(im.state.SetNodeStatus(im.ctx, U.pk[atoi(w[1])], ns))
	case "setbalance": // setbalance <e<k>|r<id>> <amount>
		addr := addrOf(w[1])
		acct, err := im.stake.Account(im.ctx, addr)
		must(err)
		u, err := strconv.ParseUint(w[2], 10, 64)
		must(err)
		acct.Escrow.Active.Balance = *quantity.NewFromUint64(u)
		acct.Escrow.Active.TotalShares = *quantity.NewFromUint64(u)
		return classify(im.stake.SetAccount(im.ctx, addr, acct))
	case "initchain": // initchain E=.. R=.. S=.. N=.. T=..
		doc := &genesisAPI.Document{Registry: buildGenesis(w[1:], im.maxExp)}
		ictx := im.appState.NewContext(abciAPI.ContextInitChain)
		defer ictx.Close()
		return classify(im.app.InitChain(ictx, cmttypes.RequestInitChain{}, doc))
	case "setnode": // setnode <existing node|-> <node>      (raw MutableState.SetNode)
		var existing *node.Node
		if w[1] != "-" {
			existing = parseNode(w[1]).descriptor()
		}
		n := parseNode(w[2])
		d := n.descriptor()
		sn := signNode(d, []int{n.id}, true)
		return classify(im.state.SetNode(im.ctx, existing, d, sn))
	case "removenode": // removenode <node>                  (raw MutableState.RemoveNode)
		return classify(im.state.RemoveNode(im.ctx, parseNode(w[1]).descriptor()))
	case "setstatus": // setstatus <id> <0|1>
		return classify(im.state.SetNodeStatus(im.ctx, U.pk[atoi(w[1])], &registry.NodeStatus{ExpirationProcessed: w[2] == "1"}))
	case "suspend": // suspend <rt>
		return classify(im.state.SuspendRuntime(im.ctx, U.rt[atoi(w[1])]))
	}
	panic("unknown op " + w[0])
}

// dump renders the complete registry state (API view and raw view) as sorted tokens.
func (im *impl) dump() []string {
	ctx, st := im.ctx, im.state
	var t []string
	add := func(f string, a ...any) { t = append(t, fmt.Sprintf(f, a...)) }

	ents, err := st.Entities(ctx)
	must(err)
	for _, e := range ents {
		var ns []int
		for _, pk := range e.Nodes {
			ns = append(ns, U.num[pk])
		}
		add("E%s:%s", U.n(e.ID), showNums(ns))
	}
	nodes, err := st.Nodes(ctx)
	must(err)
	for _, n := range nodes {
		add("N%s", specOf(n))
	}
	rts, err := st.Runtimes(ctx)
	must(err)
	srts, err := st.SuspendedRuntimes(ctx)
	must(err)
	rtTok := func(rt *registry.Runtime, susp int) {
		gov := map[registry.RuntimeGovernanceModel]string{registry.GovernanceEntity: "e", registry.GovernanceRuntime: "r", registry.GovernanceConsensus: "c"}[rt.GovernanceModel]
		kind := "c"
		if rt.Kind == registry.KindKeyManager {
			kind = "k"
		}
		add("R%d:%s:%s:%s:%d", U.rtnum[rt.ID], U.n(rt.EntityID), gov, kind, susp)
	}
	for _, rt := range rts {
		rtTok(rt, 0)
	}
	for _, rt := range srts {
		rtTok(rt, 1)
	}
	// API view, over the whole key universe.
	for k := 1; k <= nKeys; k++ {
		if n, err := st.NodeBySubKey(ctx, U.pk[k]); err == nil {
			add("K%d>%s", k, U.n(n.ID))
		} else if err != registry.ErrNoSuchNode {
			add("K%d>ERR", k)
		}
		pk := U.pk[k]
		if id, err := st.NodeIDByConsensusAddress(ctx, []byte(tmcrypto.PublicKeyToCometBFT(&pk).Address())); err == nil {
			add("A%d>%s", k, U.n(id))
		} else if err != registry.ErrNoSuchNode {
			add("A%d>ERR", k)
		}
		if ns, err := st.GetEntityNodes(ctx, U.pk[k]); err != nil {
			add("G%d:ERR", k)
		} else if len(ns) > 0 {
			var ids []int
			for _, n := range ns {
				ids = append(ids, U.num[n.ID])
			}
			add("G%d:%s", k, showNums(ids))
		}
		if b, err := st.HasEntityNodes(ctx, U.pk[k]); err != nil {
			add("Hn%d:ERR", k)
		} else if b {
			add("Hn%d", k)
		}
		if b, err := st.HasEntityRuntimes(ctx, U.pk[k]); err != nil {
			add("Hr%d:ERR", k)
		} else if b {
			add("Hr%d", k)
		}
	}
	// Raw view of the secondary indexes.
	raw, err := st.VerifDumpIndexes(ctx)
	must(err)
	hn := func(h hash.Hash) string {
		if i, ok := U.hnum[h]; ok {
			return strconv.Itoa(i)
		}
		return "?"
	}
	for h, id := range raw.KeyMap {
		add("k%s>%s", hn(h), U.n(id))
	}
	for a, id := range raw.ConsAddr {
		k := "?"
		if i, ok := U.anum[a]; ok {
			k = strconv.Itoa(i)
		}
		add("a%s>%s", k, U.n(id))
	}
	for _, p := range raw.NodeByEntity {
		add("b%s/%s", hn(p[0]), hn(p[1]))
	}
	for _, p := range raw.RuntimeByEntity {
		r := "?"
		if i, ok := U.rthnum[p[1]]; ok {
			r = strconv.Itoa(i)
		}
		add("o%s/%s", hn(p[0]), r)
	}
	for _, h := range raw.NodeStatus {
		i, ok := U.hnum[h]
		if !ok {
			add("S?:0:0")
			continue
		}
		ns, err := st.NodeStatus(ctx, U.pk[i])
		must(err)
		p := 0
		if ns.ExpirationProcessed {
			p = 1
		}
		add("S%d:%d:%d", i, p, uint64(ns.FreezeEndTime))
	}
	// Stake claims of every account of the universe.
	claims := func(addr staking.Address, name string) {
		acct, err := im.stake.Account(ctx, addr)
		must(err)
		for c, ths := range acct.Escrow.StakeAccumulator.Claims {
			cn, ok := U.claim[c]
			if !ok {
				cn = "?" + string(c)
			}
			var ts []string
			for _, t := range ths {
				if t.Global != nil {
					ts = append(ts, strconv.Itoa(int(*t.Global)))
				} else {
					ts = append(ts, "c")
				}
			}
			tl := "-"
			if len(ts) > 0 {
				tl = strings.Join(ts, ".")
			}
			add("C%s/%s=%s", name, cn, tl)
		}
		if !acct.Escrow.Active.Balance.IsZero() {
			add("B%s=%s", name, acct.Escrow.Active.Balance.String())
		}
	}
	for k := 1; k <= nKeys; k++ {
		claims(staking.NewAddress(U.pk[k]), fmt.Sprintf("e%d", k))
	}
	for r := 1; r <= nRts; r++ {
		claims(staking.NewRuntimeAddress(U.rt[r]), fmt.Sprintf("r%d", r))
	}
	sort.Strings(t)
	return t
}

// runImpl executes a case (first line: `new <maxExp> <debond> <tx|raw>`) on the real code and
// returns the annotated lines for the model.
func runImpl(ops []string) (lines []string, panicked string) {
	var im *impl
	for _, op := range ops {
		w := strings.Fields(op)
		if w[0] == "new" {
			mx, _ := strconv.ParseUint(w[1], 10, 64)
			db, _ := strconv.ParseUint(w[2], 10, 64)
			var thr []int
			if len(w) > 4 {
				thr = nums(w[4])
			}
			im = newImpl(mx, db, thr)
			lines = append(lines, op)
			continue
		}
		res := ""
		func() {
			defer func() {
				if r := recover(); r != nil {
					res = "panic"
					panicked = fmt.Sprintf("%s: %v", op, r)
				}
			}()
			res = im.exec(w)
		}()
		var d []string
		func() {
			defer func() {
				if r := recover(); r != nil {
					d = []string{"DUMP-PANIC"}
					panicked = fmt.Sprintf("dump after %s: %v", op, r)
				}
			}()
			d = im.dump()
		}()
		lines = append(lines, op+" => "+res+" | "+strings.Join(d, " "))
	}
	return
}

// ----------------------------------------------------------------------------- checking

// notes counts the model's observations that are not failures (corners the code permits).
var notes = map[string]int{}

// check runs implementation and model on the case; returns "" or the failure detail.
func check(ops []string) (detail string, lines []string) {
	lines, _ = runImpl(ops)
	ans, err := hlib.RunModel("registry", lines)
	if err != nil {
		return "model-error: " + err.Error(), lines
	}
	for _, a := range ans {
		for _, f := range strings.Fields(a) {
			if strings.HasPrefix(f, "NOTE:") {
				notes[f[5:]]++
			}
		}
	}
	// First failing answer.  A breach of the key-uniqueness clause with identity keys (a listed finding:
	// the code does not maintain that clause) persists over the rest of the history, so it must not hide
	// any other failure of the same case: another failure, wherever it occurs, is reported in preference.
	describe := func(i int) string {
		op := lines[i]
		if j := strings.Index(op, " | "); j >= 0 {
			op = op[:j]
		}
		return fmt.Sprintf("at op %d `%s`: %s", i, op, ans[i])
	}
	shared := -1
	for i, a := range ans {
		if strings.HasPrefix(a, "ok") || a == "skip" {
			continue
		}
		if signature_(a) == sigSharedKey {
			if shared < 0 {
				shared = i
			}
			continue
		}
		return describe(i), lines
	}
	if shared >= 0 {
		return describe(shared), lines
	}
	return "", lines
}

// sigSharedKey: the property's uniqueness clause read with identity keys fails on the real state.
const sigSharedKey = "key-shared-node-id-as-subkey"

func signature_(detail string) string {
	clause := ""
	if i := strings.Index(detail, "SPEC "); i >= 0 {
		clause = detail[i+5:]
		if j := strings.IndexAny(clause, " ;"); j >= 0 {
			clause = clause[:j]
		}
	}
	switch {
	case clause != "" && clause != sigSharedKey:
		return "spec:" + clause
	case strings.Contains(detail, "DIVERGE result"):
		return "diverge:result"
	case strings.Contains(detail, "DIVERGE state"):
		return "diverge:state"
	case clause == sigSharedKey: // only when model and implementation agree on everything else
		return sigSharedKey
	case strings.Contains(detail, "model-error"):
		return "model-error"
	}
	return "other"
}

// ----------------------------------------------------------------------------- generators

type gen struct {
	r   *hlib.Rng
	res *hlib.Result
	// The generator executes every operation it emits on its own instance of the real code (without
	// dumping), so that later operations can be aimed at what is actually registered.
	im    *impl
	nodes map[int]nodeSpec // registered nodes
	ents  map[int]bool     // registered entities
	rts   map[int]bool     // registered runtimes
	epoch uint64
	max   uint64
}

// apply executes the op on the generator's instance and refreshes the shadow.
func (g *gen) apply(op string) {
	w := strings.Fields(op)
	res := "panic"
	func() {
		defer func() { _ = recover() }()
		res = g.im.exec(w)
	}()
	if w[0] == "initchain" || (res == "ok" && w[0] != "freeze" && w[0] != "setbalance" && w[0] != "unfreeze") {
		g.refresh()
	}
}

// usedKeys returns the keys occupied by registered nodes.
func (g *gen) usedKeys() map[int]bool {
	u := map[int]bool{}
	for _, n := range g.nodes {
		u[n.cons], u[n.p2p], u[n.tls], u[n.vrf] = true, true, true, true
	}
	return u
}

var (
	entKeys  = []int{1, 2, 3}
	nodeKeys = []int{4, 5, 6, 7, 8}
	subPool  = []int{9, 10, 11, 12, 13, 14, 15, 16, 17, 18, 19, 20, 21, 22, 23, 24}
)

func (g *gen) pick(l []int) int { return l[g.r.Intn(len(l))] }

func (g *gen) anyKey() int { return 1 + g.r.Intn(nKeys) }

func (g *gen) homeEntity(id int) int { return entKeys[id%len(entKeys)] }

func (g *gen) freshKeys(n int) []int {
	p := append([]int(nil), subPool...)
	for i := len(p) - 1; i > 0; i-- {
		j := g.r.Intn(i + 1)
		p[i], p[j] = p[j], p[i]
	}
	if g.r.Chance(9, 10) { // prefer keys no registered node uses
		used := g.usedKeys()
		var free, taken []int
		for _, k := range p {
			if used[k] {
				taken = append(taken, k)
			} else {
				free = append(free, k)
			}
		}
		p = append(free, taken...)
	}
	return p[:n]
}

func (g *gen) freshKey() int { return g.freshKeys(1)[0] }

// someNode picks a node id, mostly a registered one.
func (g *gen) someNode() int {
	if len(g.nodes) > 0 && g.r.Chance(5, 6) {
		var l []int
		for id := range g.nodes {
			l = append(l, id)
		}
		sort.Ints(l)
		return l[g.r.Intn(len(l))]
	}
	return g.pick(nodeKeys)
}

// someRuntimes picks runtimes for a node descriptor, mostly registered ones.
func (g *gen) someRuntime() int {
	if len(g.rts) > 0 && g.r.Chance(9, 10) {
		var l []int
		for r := range g.rts {
			l = append(l, r)
		}
		sort.Ints(l)
		return l[g.r.Intn(len(l))]
	}
	return 1 + g.r.Intn(nRts)
}

func (g *gen) regEntity() string {
	e := g.pick(entKeys)
	tx, ds, valid := e, e, 1
	switch g.r.Intn(12) {
	case 0:
		tx = g.anyKey()
		g.res.Count("entity:wrong-tx-signer")
	case 1:
		ds = g.anyKey()
		g.res.Count("entity:wrong-descriptor-signer")
	case 2:
		valid = 0
		g.res.Count("entity:bad-signature")
	}
	var ns []int
	for _, k := range nodeKeys {
		if g.homeEntity(k) == e && g.r.Chance(5, 6) || g.r.Chance(1, 10) {
			ns = append(ns, k)
		}
	}
	if g.r.Chance(1, 25) && len(ns) > 0 {
		ns = append(ns, ns[0])
		g.res.Count("entity:duplicate-nodes")
	}
	return fmt.Sprintf("regentity %d %d %s %d %d", tx, e, showNums(ns), ds, valid)
}

// mutateKeys produces the sub-keys of an update of node `o`.
func (g *gen) mutateKeys(o nodeSpec) nodeSpec {
	n := o
	k := g.r.Intn(100)
	switch {
	case k < 20: // plain renewal
		g.res.Count("update:same-keys")
	case k < 35: // rotate one key to a fresh one
		f := g.freshKey()
		switch g.r.Intn(3) {
		case 0:
			n.p2p = f
		case 1:
			n.tls = f
		default:
			n.vrf = f
		}
		g.res.Count("update:rotate-fresh")
	case k < 55: // exchange two of its own keys
		switch g.r.Intn(3) {
		case 0:
			n.p2p, n.tls = o.tls, o.p2p
		case 1:
			n.p2p, n.vrf = o.vrf, o.p2p
		default:
			n.vrf, n.tls = o.tls, o.vrf
		}
		g.res.Count("update:exchange-two")
	case k < 65: // cycle all three
		if g.r.Bool() {
			n.p2p, n.vrf, n.tls = o.vrf, o.tls, o.p2p
		} else {
			n.p2p, n.vrf, n.tls = o.tls, o.p2p, o.vrf
		}
		g.res.Count("update:cycle-three")
	case k < 80: // move one own key to another kind, fresh key into the vacated kind
		f := g.freshKey()
		switch g.r.Intn(6) {
		case 0:
			n.p2p, n.tls = o.tls, f
		case 1:
			n.p2p, n.vrf = o.vrf, f
		case 2:
			n.vrf, n.tls = o.tls, f
		case 3:
			n.tls, n.p2p = o.p2p, f
		case 4:
			n.vrf, n.p2p = o.p2p, f
		default:
			n.tls, n.vrf = o.vrf, f
		}
		g.res.Count("update:move-one")
	case k < 88: // take a key of another registered node
		for _, m := range g.nodes {
			if m.id != o.id {
				n.p2p = []int{m.p2p, m.tls, m.vrf, m.cons, m.id}[g.r.Intn(5)]
				break
			}
		}
		g.res.Count("update:steal-key")
	case k < 94: // change the consensus key / entity (not allowed)
		if g.r.Bool() {
			n.cons = g.pick(subPool)
		} else {
			n.ent = g.pick(entKeys)
		}
		g.res.Count("update:cons-or-entity")
	default: // all fresh
		f := g.freshKeys(3)
		n.p2p, n.tls, n.vrf = f[0], f[1], f[2]
		g.res.Count("update:all-fresh")
	}
	return n
}

func (g *gen) regNode() string {
	id := g.pick(nodeKeys)
	var n nodeSpec
	keepRoles := false
	if o, ok := g.nodes[id]; ok && g.r.Chance(5, 6) {
		n = g.mutateKeys(o)
		keepRoles = g.r.Chance(4, 5)
	} else {
		f := g.freshKeys(4)
		n = nodeSpec{id: id, ent: g.homeEntity(id), cons: f[0], p2p: f[1], tls: f[2], vrf: f[3], roles: 8}
		if g.r.Chance(1, 12) {
			n.ent = g.pick(entKeys)
		}
		if g.r.Chance(1, 15) { // keys of the descriptor not pairwise different / overlapping identity keys
			switch g.r.Intn(3) {
			case 0:
				n.tls = n.p2p
			case 1:
				n.p2p = n.id
			default:
				n.vrf = g.pick(nodeKeys)
			}
			g.res.Count("node:odd-keys")
		}
		g.res.Count("node:new-descriptor")
	}
	n.exp = g.epoch + 1 + uint64(g.r.Intn(int(g.max)))
	switch g.r.Intn(20) {
	case 0:
		n.exp = g.epoch
	case 1:
		n.exp = g.epoch + g.max + 1
	}
	rolePick := g.r.Intn(10)
	if keepRoles {
		rolePick = -1
	}
	switch rolePick {
	case -1:
	case 0:
		n.roles = 1
		n.rts = []int{g.someRuntime()}
	case 1:
		n.roles = 9
		n.rts = []int{g.someRuntime()}
		if g.r.Bool() {
			n.rts = append(n.rts, g.someRuntime())
		}
	case 3:
		n.roles = 4 | 8
		n.rts = []int{nRts}
	case 2:
		n.roles = uint32([]int{0, 16, 2, 4, 40, 64}[g.r.Intn(6)])
	default:
		n.roles = 8
	}
	signers := []int{n.id, n.p2p, n.cons, n.tls, n.vrf}
	valid := 1
	tx := n.id
	switch g.r.Intn(14) {
	case 0: // one signature missing
		i := g.r.Intn(len(signers))
		signers = append(signers[:i:i], signers[i+1:]...)
		g.res.Count("node:missing-signature")
	case 1: // one signature by a wrong key
		signers[g.r.Intn(len(signers))] = g.anyKey()
		g.res.Count("node:wrong-key-signature")
	case 2: // an extra signature
		signers = append(signers, g.anyKey())
		g.res.Count("node:extra-signature")
	case 3:
		valid = 0
		g.res.Count("node:bad-signature")
	case 4:
		tx = g.anyKey()
		g.res.Count("node:wrong-tx-signer")
	case 5:
		tx = n.ent
		g.res.Count("node:tx-signed-by-entity")
	}
	// a descriptor whose keys coincide is signed once per distinct key
	seen := map[int]bool{}
	var ss []int
	for _, s := range signers {
		if !seen[s] {
			seen[s] = true
			ss = append(ss, s)
		}
	}
	return fmt.Sprintf("regnode %d %s %s %d", tx, n, showNums(ss), valid)
}

func (g *gen) regRuntime() string {
	id := 1 + g.r.Intn(nRts)
	ent := g.pick(entKeys)
	gov := []string{"e", "e", "e", "r", "c"}[g.r.Intn(5)]
	kind := "c"
	if id == nRts {
		kind = "k" // descriptor validity (kind vs. namespace flag) is not modelled
	}
	caller := fmt.Sprintf("e%d", ent)
	switch g.r.Intn(8) {
	case 0:
		caller = fmt.Sprintf("e%d", g.pick(entKeys))
	case 1, 2:
		caller = fmt.Sprintf("r%d", id)
	case 3:
		caller = fmt.Sprintf("r%d", 1+g.r.Intn(nRts))
	}
	return fmt.Sprintf("regruntime %s %d %d %s %s", caller, id, ent, gov, kind)
}

// genTx generates a history of transactions and epoch transitions.
// refresh re-reads the generator's shadow from its instance of the real state.
func (g *gen) refresh() {
	defer func() { _ = recover() }()
	ctx, st := g.im.ctx, g.im.state
	if ns, err := st.Nodes(ctx); err == nil {
		g.nodes = map[int]nodeSpec{}
		for _, n := range ns {
			sp := parseNode(specOf(n))
			g.nodes[sp.id] = sp
		}
	}
	if es, err := st.Entities(ctx); err == nil {
		g.ents = map[int]bool{}
		for _, e := range es {
			g.ents[U.num[e.ID]] = true
		}
	}
	if rs, err := st.AllRuntimes(ctx); err == nil {
		g.rts = map[int]bool{}
		for _, rt := range rs {
			g.rts[U.rtnum[rt.ID]] = true
		}
	}
}

// genesis generates an `initchain` operation: entities, runtimes (incl. consensus-governed and suspended
// ones), nodes (incl. already expired ones, bad signatures, foreign entities), statuses (incl. frozen ones
// and statuses of nodes that are not registered).
func (g *gen) genesis() string {
	r := g.r
	var es, rs, ss, ns, ts []string
	for _, e := range entKeys {
		if r.Chance(5, 6) {
			var l []int
			for _, k := range nodeKeys {
				if g.homeEntity(k) == e {
					l = append(l, k)
				}
			}
			signer, valid := e, 1
			if r.Chance(1, 30) {
				signer = g.anyKey()
			}
			if r.Chance(1, 40) {
				valid = 0
			}
			es = append(es, fmt.Sprintf("%d:%s:%d:%d", e, showNums(l), signer, valid))
		}
	}
	for id := 1; id <= nRts; id++ {
		kind := "c"
		if id == nRts {
			kind = "k"
		}
		gov := []string{"e", "e", "r", "c"}[r.Intn(4)]
		if kind == "k" && gov == "r" && r.Chance(9, 10) {
			gov = "e"
		}
		item := fmt.Sprintf("%d:%d:%s:%s", id, g.pick(entKeys), gov, kind)
		switch r.Intn(5) {
		case 0, 1, 2:
			rs = append(rs, item)
		case 3:
			ss = append(ss, item)
		}
	}
	used := map[int]bool{}
	for _, id := range nodeKeys {
		if !r.Chance(2, 3) {
			continue
		}
		var f []int
		for _, k := range subPool {
			if !used[k] && len(f) < 4 {
				f = append(f, k)
			}
		}
		if len(f) < 4 {
			continue
		}
		if r.Chance(1, 12) { // take a key of an earlier genesis node
			f[1] = subPool[0]
		}
		for _, k := range f {
			used[k] = true
		}
		n := nodeSpec{id: id, ent: g.homeEntity(id), cons: f[0], p2p: f[1], tls: f[2], vrf: f[3], roles: 8, exp: uint64(r.Intn(int(g.max) + 1))}
		if r.Chance(1, 4) {
			n.roles = 9
			n.rts = []int{1 + r.Intn(nRts-1)}
		}
		signers := []int{n.id, n.p2p, n.cons, n.tls, n.vrf}
		valid := 1
		switch r.Intn(25) {
		case 0:
			signers = signers[1:]
		case 1:
			valid = 0
		case 2:
			n.ent = g.pick(entKeys)
		}
		ns = append(ns, fmt.Sprintf("%s/%s/%d", n, showNums(signers), valid))
		if r.Chance(1, 3) {
			ts = append(ts, fmt.Sprintf("%d:%d:%d", id, r.Intn(2), r.Intn(4)))
		}
	}
	if r.Chance(1, 5) { // a status of a node that is not registered
		ts = append(ts, fmt.Sprintf("%d:0:%d", 20+r.Intn(4), r.Intn(3)))
	}
	grp := func(tag string, l []string) string {
		if len(l) == 0 {
			return tag + "=-"
		}
		return tag + "=" + strings.Join(l, ";")
	}
	return "initchain " + strings.Join([]string{grp("E", es), grp("R", rs), grp("S", ss), grp("N", ns), grp("T", ts)}, " ")
}

// genTx generates a history of transactions, epoch transitions and environment steps.
func genTx(r *hlib.Rng, nops int, res *hlib.Result) []string {
	g := &gen{r: r, res: res, nodes: map[int]nodeSpec{}, ents: map[int]bool{}, rts: map[int]bool{}, max: uint64(2 + r.Intn(4))}
	debond := uint64(r.Intn(3))
	if r.Chance(1, 3) { // long retention: expired nodes stay registered for a while
		debond = 3 + uint64(r.Intn(5))
	}
	// stake thresholds: all zero (stake never matters) or small values with balances around their sums
	thr := make([]int, 7)
	staked := r.Chance(2, 3)
	if staked {
		for i := range thr {
			thr[i] = []int{0, 1, 2, 3, 5}[r.Intn(5)]
		}
		res.Count("case:nonzero-thresholds")
	}
	g.im = newImpl(g.max, debond, thr)
	ops := []string{fmt.Sprintf("new %d %d tx %s", g.max, debond, showNums(thr))}
	first := 1
	if staked {
		for _, e := range entKeys {
			ops = append(ops, fmt.Sprintf("setbalance e%d %d", e, r.Intn(16)))
		}
		for rt := 1; rt <= nRts; rt++ {
			if r.Bool() {
				ops = append(ops, fmt.Sprintf("setbalance r%d %d", rt, r.Intn(6)))
			}
		}
	}
	switch {
	case r.Chance(1, 4): // the chain starts from a genesis document
		if staked && r.Chance(3, 4) { // mostly enough stake for the genesis registrations
			for _, e := range entKeys {
				ops = append(ops, fmt.Sprintf("setbalance e%d %d", e, 15+r.Intn(30)))
			}
			for rt := 1; rt <= nRts; rt++ {
				ops = append(ops, fmt.Sprintf("setbalance r%d %d", rt, 3+r.Intn(6)))
			}
		}
		ops = append(ops, g.genesis())
		res.Count("op:initchain")
	case r.Chance(9, 10): // most other histories start with the entities (and a runtime) in place
		for _, e := range entKeys {
			var ns []int
			for _, k := range nodeKeys {
				if g.homeEntity(k) == e {
					ns = append(ns, k)
				}
			}
			ops = append(ops, fmt.Sprintf("regentity %d %d %s %d 1", e, e, showNums(ns), e))
		}
		ops = append(ops, "regruntime e1 1 1 e c")
		if r.Bool() {
			ops = append(ops, fmt.Sprintf("regruntime e2 %d 2 e k", nRts))
		}
	}
	for _, op := range ops[first:] {
		g.apply(op)
	}
	for i := 0; i < nops; i++ {
		var op string
		k := r.Intn(100)
		if len(g.nodes) > 0 && r.Chance(1, 12) {
			// A registered node -- preferably one that has expired but is still kept for the debonding
			// period -- re-registers naming a different entity, which first puts it on its node list.
			var ids, expired []int
			for id, n := range g.nodes {
				ids = append(ids, id)
				if n.exp < g.epoch {
					expired = append(expired, id)
				}
			}
			sort.Ints(ids)
			sort.Ints(expired)
			id := ids[r.Intn(len(ids))]
			if len(expired) > 0 && r.Chance(4, 5) {
				id = expired[r.Intn(len(expired))]
			} else if g.nodes[id].exp >= g.epoch && r.Chance(2, 3) {
				// let it expire first: one epoch past its expiration (kept if the debonding interval allows)
				g.epoch = g.nodes[id].exp + 1
				ep := fmt.Sprintf("epoch %d", g.epoch)
				ops = append(ops, ep)
				g.apply(ep)
				res.Count("op:epoch")
			}
			n, still := g.nodes[id]
			if !still { // removed by the epoch transition
				continue
			}
			if n.exp < g.epoch {
				res.Count("switch-entity:expired-node")
			} else {
				res.Count("switch-entity:active-node")
			}
			b := g.pick(entKeys)
			for b == n.ent {
				b = g.pick(entKeys)
			}
			var list []int
			for _, x := range nodeKeys {
				if g.homeEntity(x) == b || x == id {
					list = append(list, x)
				}
			}
			pre := fmt.Sprintf("regentity %d %d %s %d 1", b, b, showNums(list), b)
			ops = append(ops, pre)
			g.apply(pre)
			n.ent = b
			n.exp = g.epoch + 1 + uint64(r.Intn(int(g.max)))
			if r.Chance(1, 3) { // together with a key rotation
				n.p2p = g.freshKey()
			}
			op = fmt.Sprintf("regnode %d %s %s 1", n.id, n, showNums([]int{n.id, n.p2p, n.cons, n.tls, n.vrf}))
			ops = append(ops, op)
			g.apply(op)
			continue
		}
		switch {
		case k < 8 || (k < 30 && len(g.ents) < len(entKeys) && r.Bool()):
			op = g.regEntity()
			res.Count("op:regentity")
		case k < 12:
			op = fmt.Sprintf("deregentity %d", g.pick(entKeys))
			res.Count("op:deregentity")
		case k < 66:
			op = g.regNode()
			res.Count("op:regnode")
		case k < 74:
			op = g.regRuntime()
			res.Count("op:regruntime")
		case k < 78: // slashing freezes a node
			op = fmt.Sprintf("freeze %d %d", g.someNode(), g.epoch+uint64(r.Intn(4)))
			res.Count("op:freeze")
		case k < 83:
			id := g.someNode()
			tx := g.homeEntity(id)
			if n, ok := g.nodes[id]; ok {
				tx = n.ent
			}
			if r.Chance(1, 5) {
				tx = g.anyKey()
			}
			op = fmt.Sprintf("unfreeze %d %d", tx, id)
			res.Count("op:unfreeze")
		case k < 88 && staked:
			if r.Chance(3, 4) {
				op = fmt.Sprintf("setbalance e%d %d", g.pick(entKeys), r.Intn(20))
			} else {
				op = fmt.Sprintf("setbalance r%d %d", 1+r.Intn(nRts), r.Intn(8))
			}
			res.Count("op:setbalance")
		default:
			switch r.Intn(6) {
			case 0:
				g.epoch += g.max + debond + 2
			case 1: // same epoch again
			default:
				g.epoch += 1 + uint64(r.Intn(2))
			}
			op = fmt.Sprintf("epoch %d", g.epoch)
			res.Count("op:epoch")
		}
		ops = append(ops, op)
		g.apply(op)
	}
	return ops
}

// genRaw generates a history of direct MutableState.SetNode / RemoveNode calls with arguments
// that need not satisfy the registration rules (order of index writes, state package only).
func genRaw(r *hlib.Rng, nops int, res *hlib.Result) []string {
	ops := []string{"new 5 1 raw"}
	_ = r
	cur := map[int]nodeSpec{}
	pool := []int{9, 10, 11, 12, 13, 14, 15}
	distinct := func() []int {
		p := append([]int(nil), pool...)
		for i := len(p) - 1; i > 0; i-- {
			j := r.Intn(i + 1)
			p[i], p[j] = p[j], p[i]
		}
		return p[:4]
	}
	// Some raw histories also send transactions at the hand-made state (which need not satisfy the
	// invariant): this exercises the handlers' behaviour on inconsistent indexes, in particular the path
	// of registerNode where the node exists but has no status record (SetNode persists, error returned).
	mixed := r.Chance(1, 3)
	if mixed {
		ops = append(ops, "regentity 1 1 4,5,6 1 1", "regentity 2 2 4,5,6 2 1")
	}
	for i := 0; i < nops; i++ {
		id := nodeKeys[r.Intn(3)]
		o, have := cur[id]
		switch {
		case mixed && have && r.Chance(1, 4):
			n := o
			n.exp = 1 + uint64(r.Intn(5))
			switch r.Intn(4) {
			case 0:
				n.p2p, n.tls = o.tls, o.p2p
			case 1:
				n.vrf = pool[r.Intn(len(pool))]
			}
			ss := []int{n.id}
			for _, k := range []int{n.p2p, n.cons, n.tls, n.vrf} {
				dup := false
				for _, x := range ss {
					dup = dup || x == k
				}
				if !dup {
					ss = append(ss, k)
				}
			}
			ops = append(ops, fmt.Sprintf("regnode %d %s %s 1", n.id, n, showNums(ss)))
			res.Count("op:regnode-on-raw-state")
		case mixed && have && r.Chance(1, 8):
			ops = append(ops, fmt.Sprintf("setstatus %d %d", id, r.Intn(2)))
			res.Count("op:setstatus")
		case mixed && r.Chance(1, 10):
			ops = append(ops, fmt.Sprintf("epoch %d", r.Intn(8)))
			res.Count("op:epoch-on-raw-state")
		case r.Chance(3, 4):
			f := distinct()
			n := nodeSpec{id: id, ent: entKeys[r.Intn(2)], cons: f[0], p2p: f[1], tls: f[2], vrf: f[3], exp: uint64(r.Intn(5)), roles: 8}
			if have && r.Chance(2, 3) { // permute / partially keep the old keys
				n.ent = o.ent
				ks := []int{o.cons, o.p2p, o.tls, o.vrf}
				for j := 3; j > 0; j-- {
					if r.Bool() {
						l := r.Intn(j + 1)
						ks[j], ks[l] = ks[l], ks[j]
					}
				}
				n.cons, n.p2p, n.tls, n.vrf = ks[0], ks[1], ks[2], ks[3]
				if r.Chance(1, 3) {
					g := distinct()
					switch r.Intn(4) {
					case 0:
						n.cons = g[0]
					case 1:
						n.p2p = g[0]
					case 2:
						n.tls = g[0]
					default:
						n.vrf = g[0]
					}
					// keep the four keys pairwise different
					if n.cons == n.p2p || n.cons == n.tls || n.cons == n.vrf || n.p2p == n.tls || n.p2p == n.vrf || n.tls == n.vrf {
						n.cons, n.p2p, n.tls, n.vrf = f[0], f[1], f[2], f[3]
					}
				}
			}
			ex := "-"
			if have && r.Chance(9, 10) {
				ex = o.String()
			}
			ops = append(ops, fmt.Sprintf("setnode %s %s", ex, n))
			cur[id] = n
			res.Count("op:setnode")
		case have:
			ops = append(ops, fmt.Sprintf("removenode %s", o))
			delete(cur, id)
			res.Count("op:removenode")
		}
	}
	return ops
}

// splitCases splits a replay/corpus file into its cases (each starts with a `new` line).
func splitCases(ops []string) [][]string {
	var out [][]string
	for _, op := range ops {
		if strings.HasPrefix(op, "new ") || len(out) == 0 {
			out = append(out, nil)
		}
		out[len(out)-1] = append(out[len(out)-1], op)
	}
	return out
}

// ----------------------------------------------------------------------------- main

func main() {
	seed := flag.Uint64("seed", 1, "seed")
	cases := flag.Int("cases", 300, "number of generated transaction histories")
	rawCases := flag.Int("rawcases", 100, "number of generated raw SetNode/RemoveNode histories")
	nops := flag.Int("ops", 30, "ops per case")
	out := flag.String("out", "-", "result file")
	replay := flag.String("replay", "", "replay file (one op per line)")
	corpus := flag.String("corpus", "", "corpus dir, run first")
	flag.Parse()

	U = buildUniverse()
	res := hlib.NewResult("registrydrv", *seed)
	res.Rule = "histories of registry transactions through the real registry application on the mock application state " +
		"(register/deregister entity, register node incl. updates that rotate, exchange, cycle or move P2P/TLS/VRF keys, steal keys of " +
		"other nodes, change consensus key or entity, re-register after expiry; register runtime by entity or runtime caller; epoch " +
		"transitions with expiry and removal), descriptors signed by right and wrong keys, with a missing, extra or corrupted signature, " +
		"transactions signed by right and wrong keys; plus raw MutableState.SetNode/RemoveNode histories; a case is non-trivial when at " +
		"least one node registration succeeded; distinct by op list"

	sigs := map[string]bool{}
	runOne := func(ops []string, caseSeed uint64, minimize bool) (lines []string) {
		d, lines := check(ops)
		res.Cases++
		res.Ops += len(lines)
		if d == "" {
			return
		}
		min := ops
		if minimize && sigs[signature_(d)] {
			// one minimized failure per signature is kept
			res.Count("failures-suppressed:" + signature_(d))
			return
		}
		sigs[signature_(d)] = true
		if minimize {
			head, tail := ops[:1], ops[1:]
			sig := signature_(d)
			tail = hlib.Shrink(tail, func(c []string) bool {
				dd, _ := check(append(append([]string{}, head...), c...))
				return dd != "" && signature_(dd) == sig
			})
			min = append(append([]string{}, head...), tail...)
			d, _ = check(min)
		}
		kind := "divergence"
		if strings.Contains(d, "SPEC ") {
			kind = "spec"
		}
		if strings.Contains(d, "panic") {
			kind = "panic"
		}
		res.Fail(hlib.Failure{Kind: kind, Detail: d, Case: min, Seed: caseSeed, Sig: signature_(d)})
		return
	}

	if *replay != "" {
		ops, err := hlib.ReadLines(*replay)
		if err != nil {
			fmt.Fprintln(os.Stderr, err)
			os.Exit(2)
		}
		for _, c := range splitCases(ops) {
			runOne(c, 0, false)
		}
		res.Write(*out)
		return
	}
	if *corpus != "" {
		ents, _ := os.ReadDir(*corpus)
		for _, e := range ents {
			if ops, err := hlib.ReadLines(*corpus + "/" + e.Name()); err == nil && len(ops) > 0 {
				for _, c := range splitCases(ops) {
					runOne(c, 0, false)
					res.Count("corpus")
				}
			}
		}
	}
	rng := hlib.NewRng(*seed)
	seen := map[string]bool{}
	for i := 0; i < *cases+*rawCases; i++ {
		cr := rng.Fork()
		cs := cr.Seed()
		var ops []string
		if i < *cases {
			ops = genTx(cr, 5+cr.Intn(*nops), res)
		} else {
			ops = genRaw(cr, 3+cr.Intn(*nops), res)
		}
		lines := runOne(ops, cs, true)
		nontrivial := false
		for _, l := range lines {
			w := strings.Fields(l)
			for j, x := range w {
				if x == "=>" && j+1 < len(w) {
					res.Count("res:" + w[0] + ":" + w[j+1])
					if (w[0] == "regnode" || w[0] == "setnode") && w[j+1] == "ok" {
						nontrivial = true
					}
				}
			}
		}
		key := strings.Join(ops, ";")
		if nontrivial && !seen[key] {
			seen[key] = true
			res.Distinct++
		}
		if i < 1 || i == *cases {
			var short []string
			for _, l := range lines {
				if j := strings.Index(l, " | "); j >= 0 {
					l = l[:j]
				}
				short = append(short, l)
			}
			res.AddSample(short)
		}
		if len(res.Failures) >= 6 {
			break
		}
	}
	for k, v := range notes {
		res.CountN("note:"+k, v)
	}
	res.Write(*out)
}
