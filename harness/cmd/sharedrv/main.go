// sharedrv: correspondence between the real escrow share-pool arithmetic
// (go/staking/api SharePool.{Deposit,Withdraw,StakeForShares}, the staking state's
// slashPool / computeCommission through the verif-tagged export file, quantity.Move) and the
// Lean model (`om_share`), property C15.  Every line carries what the implementation returned;
// the model executable compares it with its own result (DIVERGE) and evaluates the executable
// C15 clauses directly on the implementation's outcome (SPEC).
package main

import (
	"errors"
	"flag"
	"fmt"
	"math/big"
	"os"
	"strconv"
	"strings"

	"verifharness/hlib"

	"github.com/oasisprotocol/oasis-core/go/common/quantity"
	stakingState "github.com/oasisprotocol/oasis-core/go/consensus/cometbft/apps/staking/state"
	governance "github.com/oasisprotocol/oasis-core/go/governance/api"
	staking "github.com/oasisprotocol/oasis-core/go/staking/api"
)

func q(s string) *quantity.Quantity {
	var b big.Int
	if _, ok := b.SetString(s, 10); !ok {
		panic("bad number in op: " + s)
	}
	var x quantity.Quantity
	if err := x.FromBigInt(&b); err != nil {
		panic("bad quantity in op: " + s)
	}
	return &x
}

func bi(x *quantity.Quantity) *big.Int { return x.ToBigInt() }

func errKind(err error) string {
	switch {
	case errors.Is(err, quantity.ErrInsufficientBalance):
		return "insufficient-balance"
	case errors.Is(err, quantity.ErrInvalidQuantity):
		return "invalid-quantity"
	case errors.Is(err, quantity.ErrInvalidAccount):
		return "invalid-account"
	case errors.Is(err, staking.ErrInvalidArgument):
		return "invalid-argument"
	}
	return "other:" + strings.ReplaceAll(err.Error(), " ", "_")
}

// arity is the number of input tokens per op (anything after that in a replay line is ignored).
var arity = map[string]int{"gclose": 6, "dep": 6, "wd": 6, "sfs": 4, "sp": 6, "se": 7, "com": 3,
	"hnew": 5, "hdep": 3, "hwd": 3, "hrew": 2, "hsl": 2, "hend": 1}

// hist is the implementation-side state of a history: a real SharePool and real quantities.
type hist struct {
	p                         staking.SharePool
	mine, rest                quantity.Quantity
	paidIn, paidOut, gain, v0 big.Int
	common                    quantity.Quantity
}

func (h *hist) value() *big.Int {
	v, err := h.p.StakeForShares(&h.mine)
	if err != nil {
		panic(err)
	}
	return bi(v)
}

// runImpl executes the ops on the real code and returns the annotated lines for the model.
func runImpl(ops []string) (lines []string, panicked string) {
	var h *hist
	for _, op := range ops {
		w := strings.Fields(op)
		if n, ok := arity[w[0]]; !ok || len(w) < n {
			panic("bad op " + op)
		} else {
			w = w[:n]
		}
		in := strings.Join(w, " ")
		var line string
		func() {
			defer func() {
				if r := recover(); r != nil {
					panicked = fmt.Sprintf("%s: %v", in, r)
					line = in + " PANIC"
				}
			}()
			switch w[0] {
			case "dep":
				p := staking.SharePool{Balance: *q(w[1]), TotalShares: *q(w[2])}
				sd, ss, a := q(w[3]), q(w[4]), q(w[5])
				shares, err := p.Deposit(sd, ss, a)
				if err != nil {
					line = fmt.Sprintf("%s err %s", in, errKind(err))
				} else {
					line = fmt.Sprintf("%s ok %s %s %s %s %s", in, &p.Balance, &p.TotalShares, sd, ss, shares)
				}
			case "wd":
				p := staking.SharePool{Balance: *q(w[1]), TotalShares: *q(w[2])}
				sd, ss, s := q(w[3]), q(w[4]), q(w[5])
				if err := p.Withdraw(sd, ss, s); err != nil {
					line = fmt.Sprintf("%s err %s", in, errKind(err))
				} else {
					line = fmt.Sprintf("%s ok %s %s %s %s", in, &p.Balance, &p.TotalShares, sd, ss)
				}
			case "sfs":
				p := staking.SharePool{Balance: *q(w[1]), TotalShares: *q(w[2])}
				v, err := p.StakeForShares(q(w[3]))
				if err != nil {
					line = fmt.Sprintf("%s err %s", in, errKind(err))
				} else {
					line = fmt.Sprintf("%s %s", in, v)
				}
			case "sp":
				dst := q(w[1])
				p := staking.SharePool{Balance: *q(w[2]), TotalShares: *q(w[3])}
				if err := stakingState.VerifSlashPool(dst, &p, q(w[4]), q(w[5])); err != nil {
					line = fmt.Sprintf("%s err %s", in, errKind(err))
				} else {
					line = fmt.Sprintf("%s %s %s %s", in, dst, &p.Balance, &p.TotalShares)
				}
			case "se":
				// The composition of SlashEscrow (state.go:815-838) over the real slashPool / Move.
				a := staking.SharePool{Balance: *q(w[1]), TotalShares: *q(w[2])}
				d := staking.SharePool{Balance: *q(w[3]), TotalShares: *q(w[4])}
				common, amount := q(w[5]), q(w[6])
				var as, ds quantity.Quantity
				total := a.Balance.Clone()
				_ = total.Add(&d.Balance)
				if err := stakingState.VerifSlashPool(&as, &a, amount, total); err != nil {
					panic(err)
				}
				if err := stakingState.VerifSlashPool(&ds, &d, amount, total); err != nil {
					panic(err)
				}
				ts := as.Clone()
				_ = ts.Add(&ds)
				if err := quantity.Move(common, ts.Clone(), ts); err != nil {
					panic(err)
				}
				line = fmt.Sprintf("%s %s %s %s %s %s", in, &a.Balance, &d.Balance, common, ts, &ds)
			case "com":
				c, r, err := stakingState.VerifComputeCommission(q(w[1]), q(w[2]))
				if err != nil {
					line = fmt.Sprintf("%s err %s", in, errKind(err))
				} else {
					line = fmt.Sprintf("%s ok %s %s", in, c, r)
				}
			case "gclose":
				// the real exported Proposal.CloseProposal on an active proposal with initialised results
				p := &governance.Proposal{State: governance.StateActive, Results: map[governance.Vote]quantity.Quantity{}}
				for i, v := range []governance.Vote{governance.VoteYes, governance.VoteNo, governance.VoteAbstain} {
					if x := q(w[1+i]); !x.IsZero() || i == 0 {
						p.Results[v] = *x
					}
				}
				thr, _ := strconv.Atoi(w[5])
				switch err := p.CloseProposal(*q(w[4]), uint8(thr)); {
				case err != nil:
					line = in + " err"
				case p.State == governance.StatePassed:
					line = in + " passed"
				case p.State == governance.StateRejected:
					line = in + " rejected"
				default:
					line = in + " other"
				}
			case "hnew":
				h = &hist{p: staking.SharePool{Balance: *q(w[1]), TotalShares: *q(w[2])}, mine: *q(w[3]), rest: *q(w[4])}
				h.common = *q(pow2(2000).String())
				h.v0.Set(h.value())
				line = in
			case "hdep":
				own := w[1] == "1"
				holder := &h.rest
				if own {
					holder = &h.mine
				}
				a := q(w[2])
				vb := h.value()
				// Work on copies: a failed transaction persists nothing.
				p := staking.SharePool{Balance: *h.p.Balance.Clone(), TotalShares: *h.p.TotalShares.Clone()}
				hc := holder.Clone()
				src := a.Clone()
				shares, err := p.Deposit(hc, src, a)
				if err != nil {
					line = fmt.Sprintf("%s err %s", in, errKind(err))
					break
				}
				h.p, *holder = p, *hc
				va := h.value()
				if own {
					h.paidIn.Add(&h.paidIn, bi(a))
				} else if va.Cmp(vb) > 0 {
					h.gain.Add(&h.gain, new(big.Int).Sub(va, vb))
				}
				line = fmt.Sprintf("%s ok %s %s %s %s %s", in, &h.p.Balance, &h.p.TotalShares, shares, vb, va)
			case "hwd":
				own := w[1] == "1"
				holder := &h.rest
				if own {
					holder = &h.mine
				}
				s := q(w[2])
				vb := h.value()
				p := staking.SharePool{Balance: *h.p.Balance.Clone(), TotalShares: *h.p.TotalShares.Clone()}
				hc := holder.Clone()
				var paid quantity.Quantity
				if err := p.Withdraw(&paid, hc, s); err != nil {
					line = fmt.Sprintf("%s err %s", in, errKind(err))
					break
				}
				h.p, *holder = p, *hc
				va := h.value()
				if own {
					h.paidOut.Add(&h.paidOut, bi(&paid))
				} else if va.Cmp(vb) > 0 {
					h.gain.Add(&h.gain, new(big.Int).Sub(va, vb))
				}
				line = fmt.Sprintf("%s ok %s %s %s %s %s", in, &h.p.Balance, &h.p.TotalShares, &paid, vb, va)
			case "hrew":
				vb := h.value()
				if !h.p.Balance.IsZero() { // AddRewards: reward is a multiple of the balance
					if err := quantity.Move(&h.p.Balance, &h.common, q(w[1])); err != nil {
						panic(err)
					}
				}
				va := h.value()
				if va.Cmp(vb) > 0 {
					h.gain.Add(&h.gain, new(big.Int).Sub(va, vb))
				}
				line = fmt.Sprintf("%s %s %s %s", in, &h.p.Balance, vb, va)
			case "hsl":
				var dst quantity.Quantity
				if err := stakingState.VerifSlashPool(&dst, &h.p, q(w[1]), h.p.Balance.Clone()); err != nil {
					panic(err)
				}
				line = fmt.Sprintf("%s %s", in, &h.p.Balance)
			case "hend":
				line = fmt.Sprintf("%s %s %s %s %s %s", in, &h.paidIn, &h.paidOut, h.value(), &h.v0, &h.gain)
			}
		}()
		lines = append(lines, line)
		if panicked != "" {
			break
		}
	}
	return
}

// check runs implementation and model on the ops; returns "" or the first bad answer.
func check(ops []string) (string, []string) {
	lines, p := runImpl(ops)
	if p != "" {
		return "implementation panicked: " + p, lines
	}
	ans, err := hlib.RunModel("share", lines)
	if err != nil {
		return "model-error: " + err.Error(), lines
	}
	if i := hlib.FirstBad(ans, "ok"); i >= 0 {
		return fmt.Sprintf("%s  [at op %d `%s`]", ans[i], i, lines[i]), lines
	}
	return "", lines
}

func signature(d string) string {
	w := strings.Fields(d)
	switch {
	case strings.HasPrefix(d, "implementation panicked"):
		return "panic"
	case strings.HasPrefix(d, "model-error"):
		return "model-error"
	case len(w) >= 3 && w[1] == "history":
		return strings.ToLower(w[0]) + "-history-" + strings.TrimSuffix(w[2], ":")
	case len(w) >= 2:
		return strings.ToLower(w[0]) + "-" + strings.TrimSuffix(w[1], ":")
	}
	return "other"
}

// ---------------------------------------------------------------- generators

func pow2(k int) *big.Int { return new(big.Int).Lsh(big.NewInt(1), uint(k)) }

func randBits(r *hlib.Rng, bits int) *big.Int {
	x := new(big.Int)
	for i := 0; i < bits; i += 64 {
		x.Lsh(x, 64)
		x.Or(x, new(big.Int).SetUint64(r.Next()))
	}
	return x.Rsh(x, uint((64-bits%64)%64))
}

var ks = []int{1, 2, 7, 8, 16, 31, 32, 63, 64, 65, 96, 127, 128, 129, 192, 256}

// genQ draws an adversarial non-negative integer.
func genQ(r *hlib.Rng) *big.Int {
	switch r.Intn(10) {
	case 0:
		return big.NewInt(int64(r.Intn(3)))
	case 1, 2:
		return big.NewInt(int64(r.Intn(20)))
	case 3, 4:
		x := pow2(ks[r.Intn(len(ks))])
		x.Add(x, big.NewInt(int64(r.Intn(3)-1)))
		return x
	case 5:
		return randBits(r, 1+r.Intn(64))
	case 6:
		return randBits(r, 100+r.Intn(60))
	case 7:
		return big.NewInt(int64(r.Intn(100000)))
	case 8:
		return new(big.Int).Mul(big.NewInt(int64(1+r.Intn(1000))), pow2(ks[r.Intn(len(ks))]))
	}
	return randBits(r, 1+r.Intn(200))
}

// genPool draws (balance, totalShares) with the relations that matter: empty, slashed to zero,
// equal, off by one, integer and awkward ratios, share-less balance.
func genPool(r *hlib.Rng) (*big.Int, *big.Int) {
	ts := genQ(r)
	switch r.Intn(12) {
	case 0:
		return big.NewInt(0), big.NewInt(0)
	case 1:
		if ts.Sign() == 0 {
			ts = big.NewInt(1)
		}
		return big.NewInt(0), ts // everything slashed, shares outstanding
	case 2:
		return new(big.Int).Set(ts), ts
	case 3:
		return new(big.Int).Add(ts, big.NewInt(1)), ts
	case 4:
		b := new(big.Int).Sub(ts, big.NewInt(1))
		if b.Sign() < 0 {
			b.SetInt64(0)
		}
		return b, ts
	case 5:
		return new(big.Int).Add(new(big.Int).Mul(ts, big.NewInt(int64(1+r.Intn(5)))), big.NewInt(int64(r.Intn(3)))), ts
	case 6:
		return big.NewInt(1), ts
	case 7:
		return genQ(r), big.NewInt(0) // balance without shares (unreachable, accepted by the code)
	}
	return genQ(r), ts
}

// near draws a value at or around x.
func near(r *hlib.Rng, x *big.Int) *big.Int {
	y := new(big.Int).Add(x, big.NewInt(int64(r.Intn(5)-2)))
	if y.Sign() < 0 {
		y.SetInt64(0)
	}
	return y
}

func upTo(r *hlib.Rng, x *big.Int) *big.Int {
	if x.Sign() == 0 {
		return big.NewInt(0)
	}
	switch r.Intn(4) {
	case 0:
		return new(big.Int).Set(x)
	case 1:
		return new(big.Int).Sub(x, big.NewInt(1))
	}
	return new(big.Int).Mod(randBits(r, x.BitLen()+8), new(big.Int).Add(x, big.NewInt(1)))
}

// roundingAmount draws a deposit amount whose pro-rata share count has a maximal remainder.
func roundingAmount(r *hlib.Rng, b, ts *big.Int) *big.Int {
	if b.Sign() == 0 || ts.Sign() == 0 {
		return genQ(r)
	}
	// smallest a with a*ts >= k*b, minus one: remainder close to b
	k := big.NewInt(int64(1 + r.Intn(50)))
	a := new(big.Int).Mul(k, b)
	a.Add(a, new(big.Int).Sub(ts, big.NewInt(1)))
	a.Div(a, ts)
	if r.Bool() && a.Sign() > 0 {
		a.Sub(a, big.NewInt(1))
	}
	return a
}

func genStateless(r *hlib.Rng, res *hlib.Result) string {
	b, ts := genPool(r)
	switch k := r.Intn(100); {
	case k < 30:
		a := genQ(r)
		if r.Chance(1, 3) {
			a = roundingAmount(r, b, ts)
		}
		src := new(big.Int).Add(a, genQ(r))
		if r.Chance(1, 6) {
			src = upTo(r, a)
		}
		res.Count("op:dep")
		return fmt.Sprintf("dep %s %s %s %s %s", b, ts, genQ(r), src, a)
	case k < 60:
		s := upTo(r, ts)
		if r.Chance(1, 8) {
			s = near(r, ts)
		}
		if r.Chance(1, 4) {
			s = roundingAmount(r, ts, b)
		}
		src := new(big.Int).Add(s, genQ(r))
		if r.Chance(1, 6) {
			src = upTo(r, s)
		}
		res.Count("op:wd")
		return fmt.Sprintf("wd %s %s %s %s %s", b, ts, genQ(r), src, s)
	case k < 70:
		res.Count("op:sfs")
		return fmt.Sprintf("sfs %s %s %s", b, ts, genQ(r))
	case k < 78:
		total := new(big.Int).Add(b, genQ(r))
		if r.Chance(1, 6) {
			total = genQ(r)
		}
		res.Count("op:sp")
		return fmt.Sprintf("sp %s %s %s %s %s", genQ(r), b, ts, genQ(r), total)
	case k < 92:
		bd, td := genPool(r)
		amount := genQ(r)
		if r.Chance(1, 2) {
			amount = upTo(r, new(big.Int).Add(b, bd))
		}
		res.Count("op:se")
		return fmt.Sprintf("se %s %s %s %s %s %s", b, ts, bd, td, genQ(r), amount)
	case k < 96:
		// governance CloseProposal: votes around / above the total voting stake, zero total, thresholds
		total := genQ(r)
		y, n, a := upTo(r, total), genQ(r), genQ(r)
		if r.Chance(2, 3) {
			n = upTo(r, new(big.Int).Sub(total, y))
			a = upTo(r, new(big.Int).Sub(new(big.Int).Sub(total, y), n))
		}
		if r.Chance(1, 8) {
			total = big.NewInt(0)
		}
		res.Count("op:gclose")
		return fmt.Sprintf("gclose %s %s %s %s %d", y, n, a, total, r.Intn(101))
	default:
		rate := big.NewInt(int64(r.Intn(100001)))
		if r.Chance(1, 8) {
			rate = genQ(r)
		}
		res.Count("op:com")
		return fmt.Sprintf("com %s %s", rate, genQ(r))
	}
}

func genHistory(r *hlib.Rng, nops int, res *hlib.Result) []string {
	// a reachable (well-formed) pool: shares add up; no balance without shares
	mine, rest := genQ(r), genQ(r)
	if r.Chance(1, 4) {
		mine.SetInt64(0)
	}
	if r.Chance(1, 4) {
		rest.SetInt64(0)
	}
	ts := new(big.Int).Add(mine, rest)
	var b *big.Int
	switch r.Intn(5) {
	case 0:
		b = new(big.Int).Set(ts)
	case 1:
		b = new(big.Int).Add(new(big.Int).Mul(ts, big.NewInt(int64(1+r.Intn(4)))), big.NewInt(int64(r.Intn(7))))
	case 2:
		b = upTo(r, ts)
	default:
		b = genQ(r)
	}
	if ts.Sign() == 0 {
		b.SetInt64(0)
	}
	ops := []string{fmt.Sprintf("hnew %s %s %s %s", b, ts, mine, rest)}
	scale := func() *big.Int {
		if r.Chance(1, 3) {
			return big.NewInt(int64(r.Intn(50)))
		}
		if r.Chance(1, 2) {
			return upTo(r, new(big.Int).Add(ts, big.NewInt(3)))
		}
		return genQ(r)
	}
	for i := 0; i < nops; i++ {
		own := r.Intn(2)
		switch k := r.Intn(100); {
		case k < 35:
			ops = append(ops, fmt.Sprintf("hdep %d %s", own, scale()))
			res.Count("op:hdep")
		case k < 70:
			ops = append(ops, fmt.Sprintf("hwd %d %s", own, scale()))
			res.Count("op:hwd")
		case k < 85:
			ops = append(ops, fmt.Sprintf("hrew %s", scale()))
			res.Count("op:hrew")
		default:
			ops = append(ops, fmt.Sprintf("hsl %s", scale()))
			res.Count("op:hsl")
		}
	}
	return append(ops, "hend")
}

func classify(lines []string, res *hlib.Result, seen map[string]bool) {
	for _, l := range lines {
		w := strings.Fields(l)
		nontrivial := false
		switch w[0] {
		case "dep", "wd", "hdep", "hwd":
			if strings.Contains(l, " err ") {
				res.Count("res:" + w[0] + ":" + w[len(w)-1])
				nontrivial = true
			} else {
				res.Count("res:" + w[0] + ":ok")
			}
			if w[0] == "dep" || w[0] == "wd" {
				// rounding actually happens: x*num mod den != 0
				b, _ := new(big.Int).SetString(w[1], 10)
				ts, _ := new(big.Int).SetString(w[2], 10)
				x, _ := new(big.Int).SetString(w[5], 10)
				num, den := ts, b
				if w[0] == "wd" {
					num, den = b, ts
				}
				if den.Sign() != 0 && new(big.Int).Mod(new(big.Int).Mul(x, num), den).Sign() != 0 {
					res.Count("rounding:" + w[0])
					nontrivial = true
				}
				if b.BitLen() > 120 || ts.BitLen() > 120 {
					res.Count("scale:2^120+")
				}
				if b.Sign() == 0 && ts.Sign() != 0 {
					res.Count("pool:zero-balance-with-shares")
				}
				if ts.Sign() == 0 {
					res.Count("pool:no-shares")
				}
			}
		case "se", "sp", "com", "gclose":
			nontrivial = true
			if w[0] == "gclose" {
				res.Count("res:gclose:" + w[len(w)-1])
			}
		case "hend":
			if w[len(w)-1] != "0" {
				res.Count("history:with-env-gain")
			}
			nontrivial = true
		}
		key := strings.Join(w[:arity[w[0]]], " ")
		if nontrivial && !seen[key] {
			seen[key] = true
			res.Distinct++
		}
	}
}

func main() {
	seed := flag.Uint64("seed", 1, "seed")
	cases := flag.Int("cases", 300, "number of generated cases")
	nops := flag.Int("ops", 40, "ops per case")
	out := flag.String("out", "-", "result file")
	replay := flag.String("replay", "", "replay file (one op per line)")
	corpus := flag.String("corpus", "", "corpus dir, run first")
	flag.Parse()

	res := hlib.NewResult("sharedrv", *seed)
	res.Rule = "stateless cases: Deposit/Withdraw/StakeForShares/slashPool/SlashEscrow arithmetic/computeCommission on adversarial integers (0,1,2, 2^k±1 for k up to 256, random up to 2^200, amounts chosen for maximal rounding remainder; pools empty, slashed to zero with shares outstanding, B=TS, B=TS±1, integer and awkward ratios); history cases: one delegator against the rest over deposit/redeem/reward/slash interleavings on the real SharePool. Non-trivial: an error branch, a deposit/redemption where x·num mod den ≠ 0 (rounding occurs), every slash/commission/history line; distinct by op inputs"
	res.Explanation = "each line: real Go result vs Lean model (DIVERGE) and executable C15 clause on the real result (SPEC)"

	runOne := func(ops []string, caseSeed uint64, minimize bool) {
		d, lines := check(ops)
		res.Cases++
		res.Ops += len(lines)
		if d == "" {
			return
		}
		min := ops
		if minimize {
			keepHead := 0
			if strings.HasPrefix(ops[0], "hnew") {
				keepHead = 1
			}
			head, tail := ops[:keepHead], ops[keepHead:]
			tail = hlib.Shrink(tail, func(c []string) bool {
				dd, _ := check(append(append([]string{}, head...), c...))
				return dd != "" && signature(dd) == signature(d)
			})
			min = append(append([]string{}, head...), tail...)
			d, _ = check(min)
		}
		kind := "divergence"
		switch {
		case strings.HasPrefix(d, "SPEC"):
			kind = "spec"
		case strings.Contains(d, "panicked"):
			kind = "panic"
		}
		res.Fail(hlib.Failure{Kind: kind, Detail: d, Case: min, Seed: caseSeed, Sig: signature(d)})
	}

	if *replay != "" {
		ops, err := hlib.ReadLines(*replay)
		if err != nil {
			fmt.Fprintln(os.Stderr, err)
			os.Exit(2)
		}
		runOne(ops, 0, false)
		res.Write(*out)
		return
	}
	if *corpus != "" {
		ents, _ := os.ReadDir(*corpus)
		for _, e := range ents {
			if ops, err := hlib.ReadLines(*corpus + "/" + e.Name()); err == nil && len(ops) > 0 {
				runOne(ops, 0, false)
				res.Count("corpus")
			}
		}
	}
	rng := hlib.NewRng(*seed)
	seen := map[string]bool{}
	for i := 0; i < *cases; i++ {
		cr := rng.Fork()
		cs := cr.Seed()
		var ops []string
		if i%2 == 0 {
			for j := 0; j < *nops; j++ {
				ops = append(ops, genStateless(cr, res))
			}
			res.Count("case:stateless")
		} else {
			ops = genHistory(cr, 5+cr.Intn(*nops), res)
			res.Count("case:history")
		}
		lines, _ := runImpl(ops)
		classify(lines, res, seen)
		if i < 2 {
			if len(lines) > 6 {
				res.AddSample(lines[:6])
			} else {
				res.AddSample(lines)
			}
		}
		runOne(ops, cs, true)
		if len(res.Failures) >= 5 {
			break
		}
	}
	res.Write(*out)
}
