// upgdrv: correspondence between the real node-local upgrade manager (go/upgrade) and the Lean model
// OasisModel/Upgrade/Manager.lean (executable om_upgrade), property C01.
//
// A case is a list of lines:
//
//	new                                            a fresh manager over a fresh persistent store
//	submit ID EPOCH COMPAT HASHANDLER HASSTARTUP   SubmitDescriptor (handler verif-upg-ID registered or not, with or
//	                                               without a startup stage; target version compatible or not)
//	call b|e|c EPOCH HEIGHT                        ConsensusUpgrade from BeginBlock / EndBlock (non-nil context) / Commit (nil)
//
// After every call the driver records the outcome, the descriptors whose migration handler ran, the
// pending list (id:upgradeHeight:lastCompletedStage) and whether a later call is refused with
// ErrStopForUpgrade, and hands that to the model as the witness of the line.
//
// Besides the model comparison one clause of the property is evaluated directly (signature
// c01-upgrade-handler-skipped-on-reexecution): when a BeginBlock/EndBlock call at height H ran the handler
// of a descriptor and returned nil, every later BeginBlock/EndBlock call at the same epoch and height
// that returns nil runs it again, as long as no call at another height came in between: the migration must
// be applied by every execution of the upgrade block, however often the node executed that height before.
package main

import (
	"context"
	"errors"
	"flag"
	"fmt"
	"os"
	"sort"
	"strconv"
	"strings"
	"time"

	beacon "github.com/oasisprotocol/oasis-core/go/beacon/api"
	"github.com/oasisprotocol/oasis-core/go/common/persistent"
	"github.com/oasisprotocol/oasis-core/go/common/version"
	abciAPI "github.com/oasisprotocol/oasis-core/go/consensus/cometbft/api"
	"github.com/oasisprotocol/oasis-core/go/upgrade"
	upgradeAPI "github.com/oasisprotocol/oasis-core/go/upgrade/api"
	"github.com/oasisprotocol/oasis-core/go/upgrade/migrations"

	"verifharness/hlib"
)

const maxIDs = 6

var ranLog []int

var counters = map[string]int{}

type recHandler struct {
	id      int
	startup bool
}

func (h *recHandler) HasStartupUpgrade() bool { return h.startup }
func (h *recHandler) StartupUpgrade() error   { return nil }
func (h *recHandler) ConsensusUpgrade(any) error {
	ranLog = append(ranLog, h.id)
	return nil
}

func handlerName(id int, registered, startup bool) upgradeAPI.HandlerName {
	switch {
	case !registered:
		return upgradeAPI.HandlerName(fmt.Sprintf("verif-upg-none-%d", id))
	case startup:
		return upgradeAPI.HandlerName(fmt.Sprintf("verif-upg-startup-%d", id))
	}
	return upgradeAPI.HandlerName(fmt.Sprintf("verif-upg-%d", id))
}

func init() {
	for id := 0; id < maxIDs; id++ {
		migrations.Register(handlerName(id, true, false), &recHandler{id: id})
		migrations.Register(handlerName(id, true, true), &recHandler{id: id, startup: true})
	}
}

func idOf(h upgradeAPI.HandlerName) int {
	s := string(h)
	n, _ := strconv.Atoi(s[strings.LastIndex(s, "-")+1:])
	return n
}

func atoi(s string) int { n, _ := strconv.Atoi(s); return n }

type world struct {
	dir   string
	store *persistent.CommonStore
	mgr   upgradeAPI.Backend
}

func (w *world) close() {
	if w.mgr != nil {
		w.mgr.Close()
	}
	if w.dir != "" {
		os.RemoveAll(w.dir)
	}
	w.mgr, w.store, w.dir = nil, nil, ""
}

func scratch() string {
	base := os.Getenv("VERIF_SCRATCH")
	if base == "" {
		base = os.TempDir()
	}
	d, err := os.MkdirTemp(base, "upgdrv-")
	if err != nil {
		panic(err)
	}
	return d
}

func (w *world) fresh() error {
	w.close()
	w.dir = scratch()
	st, err := persistent.NewCommonStore(w.dir)
	if err != nil {
		return err
	}
	w.store = st
	w.mgr, err = upgrade.New(st, w.dir, false)
	return err
}

type callRec struct {
	mode          string
	epoch, height int
	ran           []int
	ok            bool
}

// runCase executes the lines; returns the model lines, the failures found directly, and the op count.
func runCase(lines []string) (model []string, fails []hlib.Failure) {
	w := &world{}
	defer w.close()
	var hist []callRec
	for _, l := range lines {
		f := strings.Fields(l)
		if len(f) == 0 {
			continue
		}
		switch f[0] {
		case "new":
			if err := w.fresh(); err != nil {
				fails = append(fails, hlib.Failure{Kind: "harness", Sig: "harness-open", Detail: err.Error()})
				return
			}
			hist = nil
			model = append(model, "new")
		case "submit":
			if w.mgr == nil || len(f) != 6 {
				continue
			}
			id := atoi(f[1]) % maxIDs
			tgt := version.Versions
			if f[3] == "0" {
				tgt.ConsensusProtocol.Major += 7
			}
			d := &upgradeAPI.Descriptor{Handler: handlerName(id, f[4] == "1", f[5] == "1"), Target: tgt, Epoch: beacon.EpochTime(atoi(f[2]))}
			d.V = upgradeAPI.LatestDescriptorVersion
			if err := w.mgr.SubmitDescriptor(d); err != nil {
				// already pending (same id, epoch and flags): not part of the model's alphabet
				continue
			}
			model = append(model, fmt.Sprintf("submit %d %s %s %s %s", id, f[2], f[3], f[4], f[5]))
		case "call":
			if w.mgr == nil || len(f) != 4 {
				continue
			}
			// what the multiplexer passes: the block context of BeginBlock / EndBlock, nil from Commit
			var ctx any
			switch f[1] {
			case "b":
				ctx = abciAPI.NewContext(context.Background(), abciAPI.ContextBeginBlock, time.Unix(0, 0), nil, nil, nil, nil, int64(atoi(f[3]))-1, 1)
			case "e":
				ctx = abciAPI.NewContext(context.Background(), abciAPI.ContextEndBlock, time.Unix(0, 0), nil, nil, nil, nil, int64(atoi(f[3]))-1, 1)
			}
			counters["call:"+f[1]]++
			ranLog = nil
			outcome := "ok"
			func() {
				defer func() {
					if p := recover(); p != nil {
						s := fmt.Sprint(p)
						switch {
						case strings.Contains(s, "UpgradeHeight is in the future"):
							outcome = "panic-future"
						case strings.Contains(s, "out of order upgrade stage"):
							outcome = "panic-stage"
						default:
							outcome = "panic:" + strings.ReplaceAll(s, " ", "_")
						}
					}
				}()
				err := w.mgr.ConsensusUpgrade(ctx, beacon.EpochTime(atoi(f[2])), int64(atoi(f[3])))
				switch {
				case err == nil:
				case errors.Is(err, upgradeAPI.ErrStopForUpgrade):
					outcome = "stop"
				case strings.Contains(err.Error(), "not registered") || strings.Contains(err.Error(), "handler"):
					outcome = "nohandler"
				default:
					outcome = "err:" + strings.ReplaceAll(err.Error(), " ", "_")
				}
			}()
			ran := append([]int{}, ranLog...)
			pus, _ := w.mgr.PendingUpgrades()
			var ps []string
			for _, pu := range pus {
				ps = append(ps, fmt.Sprintf("%d:%d:%d", idOf(pu.Descriptor.Handler), pu.UpgradeHeight, pu.LastCompletedStage))
			}
			// shouldStop is private: it shows as an immediate refusal of a Commit-mode probe at the same point.
			// The probe must not disturb the manager: only made when the call itself said stop.
			stop := 0
			if outcome == "stop" {
				stop = 1
			}
			rs := "-"
			if len(ran) > 0 {
				var xs []string
				for _, x := range ran {
					xs = append(xs, strconv.Itoa(x))
				}
				rs = strings.Join(xs, ",")
			}
			counters["outcome:"+strings.SplitN(outcome, ":", 2)[0]]++
			counters[fmt.Sprintf("handlers-run:%d", len(ran))]++
			counters[fmt.Sprintf("pending:%d", len(pus))]++
			wit := fmt.Sprintf("%s;ran=%s;pending=%s;stop=%d", outcome, rs, strings.Join(ps, ","), stop)
			model = append(model, fmt.Sprintf("call %s %s %s %s", f[1], f[2], f[3], wit))
			// the clause evaluated directly
			cur := callRec{f[1], atoi(f[2]), atoi(f[3]), ran, outcome == "ok"}
			if cur.ok && cur.mode != "c" {
				for i := len(hist) - 1; i >= 0; i-- {
					h := hist[i]
					if h.height != cur.height || h.epoch != cur.epoch || !h.ok {
						break
					}
					if h.mode != cur.mode {
						continue
					}
					counters["re-execution-compared"]++
					if len(h.ran) > 0 {
						counters["re-execution-compared:handler-ran"]++
					}
					sort.Ints(h.ran)
					rr := append([]int{}, cur.ran...)
					sort.Ints(rr)
					if fmt.Sprint(h.ran) != fmt.Sprint(rr) {
						fails = append(fails, hlib.Failure{Kind: "spec", Sig: "c01-upgrade-handler-skipped-on-reexecution",
							Detail: fmt.Sprintf("ConsensusUpgrade(%s, epoch %d, height %d) ran the migration handlers %v, an earlier execution of the same height ran %v: whether the migration is applied depends on how often this node executed the block", cur.mode, cur.epoch, cur.height, rr, h.ran)})
					}
					break
				}
			}
			if outcome != "ok" {
				// the process would be gone (halt for upgrade / panic): the case ends here
				return
			}
			hist = append(hist, cur)
		}
	}
	return
}

func check(lines []string) []hlib.Failure {
	model, fails := runCase(lines)
	if len(model) > 0 {
		ans, err := hlib.RunModel("upgrade", model)
		if err != nil {
			fails = append(fails, hlib.Failure{Kind: "divergence", Sig: "model-error", Detail: err.Error()})
		} else if i := hlib.FirstBad(ans, "ok"); i >= 0 && !strings.HasPrefix(ans[i], "skip") {
			fails = append(fails, hlib.Failure{Kind: "divergence", Sig: "upgrade-manager-differs-from-model",
				Detail: fmt.Sprintf("at `%s`: %s", model[i], ans[i])})
		}
	}
	return fails
}

func genCase(r *hlib.Rng) []string {
	lines := []string{"new"}
	nd := 1 + r.Intn(3)
	base := 2 + r.Intn(4)
	for i := 0; i < nd; i++ {
		compat, hh, hs := 1, 1, 0
		switch r.Intn(8) {
		case 0:
			compat = 0
		case 1:
			hh = 0
		case 2:
			hs = 1
		}
		lines = append(lines, fmt.Sprintf("submit %d %d %d %d %d", i, base+r.Intn(4), compat, hh, hs))
	}
	// block executions: heights advance, an execution is (b, e) possibly repeated before the commit, the
	// commit call (c) at the same height follows the decided execution; epochs advance every few heights
	h := 1 + r.Intn(3)
	ep := base - 1 - r.Intn(2)
	if ep < 0 {
		ep = 0
	}
	for blk := 0; blk < 4+r.Intn(10); blk++ {
		nexec := 1
		if r.Chance(1, 2) {
			nexec += 1 + r.Intn(2)
		}
		for x := 0; x < nexec; x++ {
			lines = append(lines, fmt.Sprintf("call b %d %d", ep, h))
			if r.Chance(9, 10) {
				lines = append(lines, fmt.Sprintf("call e %d %d", ep, h))
			}
		}
		if r.Chance(4, 5) {
			lines = append(lines, fmt.Sprintf("call c %d %d", ep, h))
		}
		if r.Chance(1, 12) {
			lines = append(lines, fmt.Sprintf("submit %d %d 1 1 0", 3+r.Intn(3), ep+1+r.Intn(3)))
		}
		h += 1
		if r.Chance(1, 40) && h > 2 {
			h -= 2 // a height seen again after a later one (never happens on a node; the model has the panic)
		}
		if r.Chance(1, 10) {
			h += r.Intn(3)
		}
		if r.Chance(1, 2) {
			ep++
		}
	}
	return lines
}

func main() {
	seed := flag.Uint64("seed", 1, "seed")
	cases := flag.Int("cases", 300, "number of generated histories")
	out := flag.String("out", "-", "result file")
	replay := flag.String("replay", "", "replay file")
	corpus := flag.String("corpus", "", "corpus dir (files named upgdrv-*), run first")
	flag.Parse()
	res := hlib.NewResult("upgdrv", *seed)
	res.Rule = "histories of ConsensusUpgrade calls on the real upgrade manager over a real persistent store: 1..3 (+late) descriptors (compatible or not, handler registered or not, with or without a startup stage), blocks executed 1..3 times (BeginBlock, EndBlock) before the Commit call, heights and epochs advancing, height gaps; every call's outcome, handlers run, pending list and stop flag compared with the Lean model; re-execution clause evaluated directly. distinct = distinct histories"
	seen := map[string]bool{}
	sigSeen := map[string]bool{}
	one := func(lines []string, cs uint64, shrink bool) {
		res.Cases++
		res.Ops += len(lines)
		if k := strings.Join(lines, ";"); !seen[k] {
			seen[k] = true
			res.Distinct++
		}
		for _, f := range check(lines) {
			if sigSeen[f.Sig] {
				res.Count("repeat:" + f.Sig)
				continue
			}
			sigSeen[f.Sig] = true
			min := lines
			if shrink {
				min = hlib.Shrink(lines, func(c []string) bool {
					if len(c) == 0 || c[0] != "new" {
						return false
					}
					for _, g := range check(c) {
						if g.Sig == f.Sig {
							return true
						}
					}
					return false
				})
				for _, g := range check(min) {
					if g.Sig == f.Sig {
						f.Detail = g.Detail
					}
				}
			}
			f.Case, f.Seed = min, cs
			res.Fail(f)
		}
	}
	if *replay != "" {
		lines, err := hlib.ReadLines(*replay)
		if err != nil {
			fmt.Fprintln(os.Stderr, err)
			os.Exit(2)
		}
		one(lines, 0, false)
		for k, v := range counters {
			res.CountN(k, v)
		}
		res.Write(*out)
		return
	}
	if *corpus != "" {
		ents, _ := os.ReadDir(*corpus)
		for _, e := range ents {
			if !strings.HasPrefix(e.Name(), "upgdrv-") {
				continue
			}
			if lines, err := hlib.ReadLines(*corpus + "/" + e.Name()); err == nil && len(lines) > 0 {
				one(lines, 0, false)
				res.Count("corpus")
			}
		}
	}
	rng := hlib.NewRng(*seed)
	for i := 0; i < *cases; i++ {
		cr := rng.Fork()
		lines := genCase(cr)
		if i == 0 {
			res.AddSample(lines)
		}
		one(lines, cr.Seed(), true)
	}
	for k, v := range counters {
		res.CountN(k, v)
	}
	res.Write(*out)
}
