// pooldrv: correspondence between the real roothash commitment pool
// (go/roothash/api/commitment.Pool, driven directly through its exported methods, together with
// commitment.VerifyExecutorCommitment and scheduler.Committee) and the Lean model `om_pool`,
// property C11.  Commitments are real: Ed25519-signed ExecutorCommitments over real headers.
// The model sees only (node, scheduler, round, vote-hash number, failure flag).
//
// Besides the step-by-step comparison the model executable evaluates the rule predicates of the
// property (MayAccept / MayFinalize / Preferred / timeout rule) on the commitments the *real* pool
// accepted; those answers (`SPECFAIL`) do not depend on the model pool.
package main

import (
	"bytes"
	"context"
	"flag"
	"fmt"
	"math"
	"os"
	"sort"
	"strconv"
	"strings"

	"verifharness/hlib"

	"github.com/oasisprotocol/oasis-core/go/common"
	"github.com/oasisprotocol/oasis-core/go/common/cbor"
	"github.com/oasisprotocol/oasis-core/go/common/crypto/hash"
	"github.com/oasisprotocol/oasis-core/go/common/crypto/signature"
	memorySigner "github.com/oasisprotocol/oasis-core/go/common/crypto/signature/signers/memory"
	"github.com/oasisprotocol/oasis-core/go/common/node"
	abciAPI "github.com/oasisprotocol/oasis-core/go/consensus/cometbft/api"
	roothashApp "github.com/oasisprotocol/oasis-core/go/consensus/cometbft/apps/roothash"
	roothashState "github.com/oasisprotocol/oasis-core/go/consensus/cometbft/apps/roothash/state"
	registry "github.com/oasisprotocol/oasis-core/go/registry/api"
	roothash "github.com/oasisprotocol/oasis-core/go/roothash/api"
	"github.com/oasisprotocol/oasis-core/go/roothash/api/block"
	"github.com/oasisprotocol/oasis-core/go/roothash/api/commitment"
	"github.com/oasisprotocol/oasis-core/go/roothash/api/message"
	scheduler "github.com/oasisprotocol/oasis-core/go/scheduler/api"
)

const universe = 9 // node numbers 0..8; committees draw from them, the rest are outsiders

var (
	signers []signature.Signer
	pubIdx  = map[signature.PublicKey]int{}
	rtID    common.Namespace
	rt      *registry.Runtime

	signCache = map[string]*commitment.ExecutorCommitment{}
	verCache  = map[string]string{}
	cacheVer  bool
)

func setup() {
	var cc hash.Hash
	cc.FromBytes([]byte("verif pooldrv chain context"))
	signature.SetChainContext(cc.String())
	for i := 0; i < universe; i++ {
		s := memorySigner.NewTestSigner(fmt.Sprintf("verif pooldrv node %d", i))
		signers = append(signers, s)
		pubIdx[s.Public()] = i
	}
	if err := rtID.UnmarshalHex("c000000000000000ffffffffffffffffffffffffffffffffffffffffffffffff"); err != nil {
		panic(err)
	}
	rt = &registry.Runtime{
		Versioned:       cbor.NewVersioned(registry.LatestRuntimeDescriptorVersion),
		ID:              rtID,
		Kind:            registry.KindCompute,
		TEEHardware:     node.TEEHardwareInvalid,
		Executor:        registry.ExecutorParameters{MaxMessages: 32},
		GovernanceModel: registry.GovernanceEntity,
	}
}

func u(s string) uint64 {
	x, err := strconv.ParseUint(s, 10, 64)
	if err != nil {
		panic("bad number in op: " + s)
	}
	return x
}

func b01(b bool) string {
	if b {
		return "1"
	}
	return "0"
}

// impl is the real pool with the bookkeeping needed to number keys and hashes.
type impl struct {
	committee *scheduler.Committee
	round     uint64
	lastBlock *block.Block
	pool      *commitment.Pool
	hashID    map[hash.Hash]int

	// app mode: the pool lives (CBOR-serialized) in the roothash application state and commitments
	// are admitted by the real executorCommit transaction handler.
	app      bool
	appState abciAPI.MockApplicationState

	// model-free bookkeeping: what each scheduler signed as its own proposal and got accepted
	signed  map[int]*commitment.ExecutorCommitment
	specOff bool   // unverified raw add or round beyond the uint64 wrap bound: rule checks off
	spec    string // first model-free rule violation observed on the implementation
}

// lastSpecFail is the model-free rule violation of the last runImpl (empty: none).
var lastSpecFail string

func (im *impl) hid(h hash.Hash) int {
	if id, ok := im.hashID[h]; ok {
		return id
	}
	id := len(im.hashID)
	im.hashID[h] = id
	return id
}

func newImpl(round uint64, members string) *impl {
	im := &impl{round: round, pool: commitment.NewPool(), hashID: map[hash.Hash]int{}}
	im.committee = &scheduler.Committee{Kind: scheduler.KindComputeExecutor, RuntimeID: rtID}
	if members != "-" {
		for _, m := range strings.Split(members, ",") {
			role := scheduler.RoleWorker
			if m[0] == 'b' {
				role = scheduler.RoleBackupWorker
			}
			im.committee.Members = append(im.committee.Members, &scheduler.CommitteeNode{
				Role: role, PublicKey: signers[u(m[1:])].Public(),
			})
		}
	}
	im.lastBlock = block.NewGenesisBlock(rtID, 0)
	im.lastBlock.Header.Round = round - 1 // wraps for round 0, as `child.Round+1` does
	im.signed = map[int]*commitment.ExecutorCommitment{}
	im.specOff = round > math.MaxUint64-uint64(len(im.committee.Members))
	return im
}

// initApp puts the runtime (committee, last block, empty pool) into a fresh application state.
func (im *impl) initApp() {
	im.app = true
	im.appState = abciAPI.NewMockApplicationState(&abciAPI.MockApplicationStateConfig{})
	ctx := im.appState.NewContext(abciAPI.ContextEndBlock)
	defer ctx.Close()
	st := roothashState.NewMutableState(ctx.State())
	if err := st.SetConsensusParameters(ctx, &roothash.ConsensusParameters{MaxRuntimeMessages: 32}); err != nil {
		panic(err)
	}
	rtc := *rt
	im.storeRt(&roothash.RuntimeState{
		Runtime:        &rtc,
		GenesisBlock:   im.lastBlock,
		LastBlock:      im.lastBlock,
		Committee:      im.committee,
		CommitmentPool: im.pool,
	})
}

func (im *impl) loadRt() *roothash.RuntimeState {
	ctx := im.appState.NewContext(abciAPI.ContextEndBlock)
	defer ctx.Close()
	rtState, err := roothashState.NewMutableState(ctx.State()).RuntimeState(ctx, rtID)
	if err != nil {
		panic(err)
	}
	return rtState
}

func (im *impl) storeRt(rtState *roothash.RuntimeState) {
	ctx := im.appState.NewContext(abciAPI.ContextEndBlock)
	defer ctx.Close()
	if err := roothashState.NewMutableState(ctx.State()).SetRuntimeState(ctx, rtState); err != nil {
		panic(err)
	}
}

// begin / end bracket an op in app mode: the pool is read from, and written back to, the state.
func (im *impl) begin() {
	if im.app {
		im.pool = im.loadRt().CommitmentPool
	}
}

func (im *impl) end() {
	if im.app {
		rtState := im.loadRt()
		rtState.CommitmentPool = im.pool
		im.storeRt(rtState)
	}
}

// tx runs one executorCommit transaction with the given commitments through the real handler.
func (im *impl) tx(ecs []*commitment.ExecutorCommitment) string {
	cc := &roothash.ExecutorCommit{ID: rtID}
	for _, ec := range ecs {
		cc.Commits = append(cc.Commits, *ec)
	}
	ctx := im.appState.NewContext(abciAPI.ContextDeliverTx)
	err := roothashApp.VerifExecutorCommit(ctx, im.appState, nil, cc)
	ctx.Close()
	im.pool = im.loadRt().CommitmentPool
	return addErr(err)
}

// accepted records an accepted commitment (the scheduler's own proposal is what must be finalized).
func (im *impl) accepted(ec *commitment.ExecutorCommitment) {
	if ec.NodeID.Equal(ec.Header.SchedulerID) {
		if _, ok := im.signed[pubIdx[ec.NodeID]]; !ok {
			im.signed[pubIdx[ec.NodeID]] = ec
		}
	}
}

func (im *impl) specFail(msg string) {
	if im.spec == "" && !im.specOff {
		im.spec = msg
	}
}

// chosenSigned returns what the scheduler at HighestRank signed as its own proposal.
func (im *impl) chosenSigned() (*commitment.ExecutorCommitment, bool) {
	n, ok := im.committee.Scheduler(im.round, im.pool.HighestRank)
	if !ok {
		return nil, false
	}
	ec, ok := im.signed[pubIdx[n.PublicKey]]
	return ec, ok
}

// checkStored: the commitment the pool holds for HighestRank (the one a finalization would use) must
// be byte-identical to what that scheduler itself signed. Model-free.
func (im *impl) checkStored(where string) {
	if im.specOff || im.spec != "" || os.Getenv("POOLDRV_NO_STORED_CHECK") != "" { // (env: testing the block check alone)
		return
	}
	sc, ok := im.pool.SchedulerCommitments[im.pool.HighestRank]
	if !ok {
		return
	}
	want, ok := im.chosenSigned()
	switch {
	case !ok:
		im.specFail(where + ": pool has an entry at HighestRank but that scheduler never committed; stored commitment is not the chosen scheduler's own")
	case sc.Commitment == nil:
		im.specFail(where + ": stored commitment at HighestRank is nil, not the chosen scheduler's own commitment")
	case !bytes.Equal(cbor.Marshal(sc.Commitment), cbor.Marshal(want)):
		im.specFail(fmt.Sprintf("%s: stored commitment at HighestRank (node %d for scheduler %d, vote %d) is not the chosen scheduler's own signed commitment (node %d, vote %d)",
			where, pubIdx[sc.Commitment.NodeID], pubIdx[sc.Commitment.Header.SchedulerID], im.hid(sc.Commitment.ToVote()),
			pubIdx[want.NodeID], im.hid(want.ToVote())))
	}
}

// mkCommit builds (and signs, cached) the real commitment for the abstract description.
// fail is the failure code put on the wire: 0 none, 1 unknown, 2 state unavailable, others out of range.
func (im *impl) mkCommit(nodeN, sched int, round uint64, kind int, fail int, sigOk bool) *commitment.ExecutorCommitment {
	key := fmt.Sprintf("%d/%d/%d/%d/%d/%v/%v", im.round, nodeN, sched, round, kind, fail, sigOk)
	if ec, ok := signCache[key]; ok {
		return ec
	}
	prev := im.lastBlock.Header.EncodedHash()
	var empty, state hash.Hash
	empty.Empty()
	state.FromBytes([]byte(fmt.Sprintf("verif state root of result %d", kind)))
	msgsHash := message.MessagesHash(nil)
	inMsgsHash := message.InMessagesHash(nil)
	ec := &commitment.ExecutorCommitment{
		NodeID: signers[nodeN].Public(),
		Header: commitment.ExecutorCommitmentHeader{
			SchedulerID: signers[sched].Public(),
			Header: commitment.ComputeResultsHeader{
				Round:          round,
				PreviousHash:   prev,
				IORoot:         &empty,
				StateRoot:      &state,
				MessagesHash:   &msgsHash,
				InMessagesHash: &inMsgsHash,
			},
		},
	}
	if fail != 0 {
		ec.Header.SetFailure(commitment.ExecutorCommitmentFailure(fail))
	}
	if err := ec.Sign(signers[nodeN], rtID); err != nil {
		panic(err)
	}
	if !sigOk {
		ec.Signature[0]++
	}
	signCache[key] = ec
	return ec
}

// wireOf tells the model what Verify (signature, checked first) and ValidateBasic make of the wire form:
// 1 fine, 0 bad signature, 2 malformed (here: a failure code outside none/unknown/state-unavailable).
func wireOf(sigOk bool, ec *commitment.ExecutorCommitment) string {
	switch {
	case !sigOk:
		return "0"
	case ec.Header.Failure > commitment.FailureStateUnavailable:
		return "2"
	}
	return "1"
}

func addErr(err error) string {
	switch err {
	case nil:
		return "ok"
	case commitment.ErrNotInCommittee:
		return "not-in-committee"
	case commitment.ErrBadExecutorCommitment:
		return "bad-commitment"
	case commitment.ErrAlreadyCommitted:
		return "already-committed"
	case commitment.ErrNotBasedOnCorrectBlock:
		return "not-based-on-correct-block"
	}
	if strings.Contains(err.Error(), "signature verification failed") {
		return "bad-signature"
	}
	return "other:" + strings.ReplaceAll(err.Error(), " ", "_")
}

func procErr(err error) string {
	switch err {
	case nil:
		return "ok"
	case commitment.ErrStillWaiting:
		return "still-waiting"
	case commitment.ErrDiscrepancyDetected:
		return "discrepancy-detected"
	case commitment.ErrNoSchedulerCommitment:
		return "no-scheduler-commitment"
	case commitment.ErrInsufficientVotes:
		return "insufficient-votes"
	case commitment.ErrBadSchedulerCommitment:
		return "bad-scheduler-commitment"
	}
	return "other:" + strings.ReplaceAll(err.Error(), " ", "_")
}

func (im *impl) ecFields(ec *commitment.ExecutorCommitment, sep string) string {
	return strings.Join([]string{
		strconv.Itoa(pubIdx[ec.NodeID]), strconv.Itoa(pubIdx[ec.Header.SchedulerID]),
		strconv.FormatUint(ec.Header.Header.Round, 10), strconv.Itoa(im.hid(ec.ToVote())), b01(ec.IsIndicatingFailure()),
	}, sep)
}

func (im *impl) state() string {
	hr := "max"
	if im.pool.HighestRank != math.MaxUint64 {
		hr = strconv.FormatUint(im.pool.HighestRank, 10)
	}
	var ranks []uint64
	for r := range im.pool.SchedulerCommitments {
		ranks = append(ranks, r)
	}
	sort.Slice(ranks, func(i, j int) bool { return ranks[i] < ranks[j] })
	out := []string{"state", hr, b01(im.pool.Discrepancy)}
	for _, r := range ranks {
		sc := im.pool.SchedulerCommitments[r]
		cm := "-"
		if sc.Commitment != nil {
			cm = im.ecFields(sc.Commitment, ".")
		}
		var vs []string
		for k, v := range sc.Votes {
			if v == nil {
				vs = append(vs, fmt.Sprintf("%d:F", pubIdx[k]))
			} else {
				vs = append(vs, fmt.Sprintf("%d:%d", pubIdx[k], im.hid(*v)))
			}
		}
		sort.Strings(vs)
		votes := "-"
		if len(vs) > 0 {
			votes = strings.Join(vs, ",")
		}
		out = append(out, fmt.Sprintf("%d/%s/%s", r, cm, votes))
	}
	return strings.Join(out, " ")
}

// finalize calls the roothash application's round finalization on the real pool and classifies
// what it did from the runtime state it leaves behind.
func (im *impl) finalize(stragglers uint16, timeout, retry bool) string {
	var appState abciAPI.MockApplicationState
	var rtState *roothash.RuntimeState
	if im.app {
		appState = im.appState
		rtState = im.loadRt()
		im.pool = rtState.CommitmentPool
	} else {
		appState = abciAPI.NewMockApplicationState(&abciAPI.MockApplicationStateConfig{})
		rtc := *rt
		rtState = &roothash.RuntimeState{
			Runtime:        &rtc,
			GenesisBlock:   im.lastBlock,
			LastBlock:      im.lastBlock,
			Committee:      im.committee,
			CommitmentPool: im.pool,
		}
	}
	rtState.Runtime.Executor.AllowedStragglers = stragglers
	rtState.Runtime.Executor.RoundTimeout = 10
	if retry {
		rtState.Runtime.Executor.RoundTimeout = 0 // re-armed timeout == current height: the retry runs with timeout
	}
	prevBlock := rtState.LastBlock
	ctx := appState.NewContext(abciAPI.ContextEndBlock)
	discBefore := im.pool.Discrepancy
	im.checkStored("before finalization")
	err := roothashApp.VerifTryFinalizeRound(ctx, appState, nil, rtState, timeout)
	ctx.Close()
	newBlock := rtState.LastBlock
	poolReset := rtState.CommitmentPool != im.pool
	if im.app {
		// keep the round open so that the history can go on: same pool, same last block
		rtState.LastBlock = prevBlock
		rtState.CommitmentPool = im.pool
		im.storeRt(rtState)
	}
	// the commitment the pool holds for the chosen scheduler, for naming the result of a Normal block
	var own *commitment.ExecutorCommitment
	if sc, ok := im.pool.SchedulerCommitments[im.pool.HighestRank]; ok {
		own = sc.Commitment
	}
	switch {
	case err != nil:
		return "error " + strings.ReplaceAll(err.Error(), " ", "_")
	case newBlock != prevBlock:
		blk := newBlock
		if blk.Header.Round != im.round || !poolReset {
			return "block-without-round-advance"
		}
		switch blk.Header.HeaderType {
		case block.Normal:
			// model-free: the block must carry the roots the chosen scheduler itself signed
			if want, ok := im.chosenSigned(); ok && !im.specOff {
				h := want.Header.Header
				if h.StateRoot == nil || !blk.Header.StateRoot.Equal(h.StateRoot) || !blk.Header.IORoot.Equal(h.IORoot) ||
					!blk.Header.MessagesHash.Equal(h.MessagesHash) || !blk.Header.InMessagesHash.Equal(h.InMessagesHash) {
					im.specFail("Normal block header roots are not the chosen scheduler's own commitment header")
				}
			} else if !im.specOff {
				im.specFail("Normal block although the chosen scheduler never committed: not the chosen scheduler's own commitment header")
			}
			if own == nil {
				return "normal-without-commitment"
			}
			h := own.Header.Header
			if h.StateRoot == nil || !blk.Header.StateRoot.Equal(h.StateRoot) || !blk.Header.IORoot.Equal(h.IORoot) ||
				!blk.Header.MessagesHash.Equal(h.MessagesHash) || !blk.Header.InMessagesHash.Equal(h.InMessagesHash) {
				return "normal-with-roots-not-of-stored-commitment"
			}
			return fmt.Sprintf("normal %d %d", pubIdx[own.Header.SchedulerID], im.hid(own.ToVote()))
		case block.RoundFailed:
			if !blk.Header.StateRoot.Equal(&prevBlock.Header.StateRoot) {
				return "round-failed-with-changed-state-root"
			}
			return "round-failed"
		}
		return fmt.Sprintf("block-type-%d", blk.Header.HeaderType)
	case im.pool.Discrepancy && !discBefore:
		return "discrepancy-waiting"
	}
	return "waiting"
}

// runImpl executes the ops on the real pool and returns the annotated lines for the model.
func runImpl(ops []string) (lines []string, panicked string) {
	var im *impl
	ctx := context.Background()
	lastSpecFail = ""
	defer func() {
		if im != nil && im.spec != "" {
			lastSpecFail = im.spec
		}
	}()
	for i, op := range ops {
		w := strings.Fields(op)
		var line string
		func() {
			defer func() {
				if r := recover(); r != nil {
					panicked = fmt.Sprintf("%s: %v", op, r)
					switch w[0] {
					case "process":
						line = fmt.Sprintf("%s %s PANIC", op, b01(im.pool.Discrepancy))
					default:
						line = op + " PANIC"
					}
				}
			}()
			if im != nil && im.spec == "" {
				defer func() {
					if im.spec != "" {
						im.spec = fmt.Sprintf("at op %d `%s`: %s", i, op, im.spec)
					}
				}()
			}
			switch w[0] {
			case "committee":
				im = newImpl(u(w[1]), w[2])
				line = op
			case "appcommittee":
				im = newImpl(u(w[1]), w[2])
				im.initApp()
				line = op
			case "tx":
				// one executorCommit transaction carrying several commitments (real handler)
				var ecs []*commitment.ExecutorCommitment
				var words []string
				for _, cw := range w[1:] {
					f := strings.Split(cw, ",")
					ec := im.mkCommit(int(u(f[1])), int(u(f[2])), u(f[3]), int(u(f[4])), int(u(f[5])), f[0] == "1")
					ecs = append(ecs, ec)
					words = append(words, wireOf(f[0] == "1", ec)+","+im.ecFields(ec, ","))
				}
				if !im.app {
					panic("tx outside app mode")
				}
				res := im.tx(ecs)
				if res == "ok" {
					for _, ec := range ecs {
						im.accepted(ec)
					}
					im.checkStored("after the transaction")
				}
				line = fmt.Sprintf("tx %s %s", res, strings.Join(words, " "))
			case "commit":
				// executorCommit (transactions.go:95-112): verify, then add.
				sigOk := w[1] == "1"
				ec := im.mkCommit(int(u(w[2])), int(u(w[3])), u(w[4]), int(u(w[5])), int(u(w[6])), sigOk)
				var res string
				vkey := fmt.Sprintf("%d/%s", im.round, strings.Join(w[1:], "/"))
				if v, ok := verCache[vkey]; ok && cacheVer {
					res = v
				} else {
					res = addErr(commitment.VerifyExecutorCommitment(ctx, im.lastBlock, rt, im.committee.ValidFor, ec, nil, nil))
					verCache[vkey] = res
				}
				if im.app {
					im.begin()
					before := im.state()
					res = im.tx([]*commitment.ExecutorCommitment{ec})
					if res != "ok" && im.state() != before {
						res += " MUTATED"
					}
				} else if res == "ok" {
					before := im.state()
					res = addErr(im.pool.AddVerifiedExecutorCommitment(im.committee, ec))
					if res != "ok" && im.state() != before {
						res += " MUTATED" // a rejected commitment must leave the pool as it was
					}
				}
				if res == "ok" {
					im.accepted(ec)
					im.checkStored("after the commitment")
				}
				line = fmt.Sprintf("commit %s %s %s", wireOf(sigOk, ec), im.ecFields(ec, " "), res)
				if im.app {
					// through the application a single commitment is a one-commitment transaction:
					// atomic (a rejected one leaves the stored pool untouched also beyond the wrap bound)
					line = fmt.Sprintf("tx %s %s,%s", res, wireOf(sigOk, ec), im.ecFields(ec, ","))
				}
			case "rawadd":
				ec := im.mkCommit(int(u(w[1])), int(u(w[2])), u(w[3]), int(u(w[4])), int(u(w[5])), true)
				if commitment.VerifyExecutorCommitment(ctx, im.lastBlock, rt, im.committee.ValidFor, ec, nil, nil) != nil {
					im.specOff = true // outside the verified histories
				}
				im.begin()
				res := addErr(im.pool.AddVerifiedExecutorCommitment(im.committee, ec))
				im.end()
				if res == "ok" {
					im.accepted(ec)
				}
				line = fmt.Sprintf("rawadd %s %s", im.ecFields(ec, " "), res)
			case "process":
				im.begin()
				sc, err := im.pool.ProcessCommitments(im.committee, uint16(u(w[1])), w[2] == "1")
				im.end()
				if err == nil && sc != nil {
					if want, ok := im.chosenSigned(); !ok || sc.Commitment == nil || !bytes.Equal(cbor.Marshal(sc.Commitment), cbor.Marshal(want)) {
						im.specFail("ProcessCommitments returned a commitment that is not the chosen scheduler's own signed commitment")
					}
				}
				line = fmt.Sprintf("%s %s %s", op, b01(im.pool.Discrepancy), procErr(err))
				if err == nil {
					if sc == nil || sc.Commitment == nil {
						line += " nil"
					} else {
						line += " " + im.ecFields(sc.Commitment, " ")
					}
				}
			case "finalize":
				// The real tryFinalizeRoundInsideTx (finalization.go:67) through the verif hook, on a
				// runtime state holding the real pool, in a mock EndBlock context.
				s, timeout, retry := uint16(u(w[1])), w[2] == "1", w[3] == "1"
				line = fmt.Sprintf("%s %s", op, im.finalize(s, timeout, retry))
			case "state":
				im.begin()
				line = im.state()
			case "rank":
				r, ok := im.committee.SchedulerRank(u(w[1]), signers[u(w[2])].Public())
				res := "none"
				if ok {
					res = strconv.FormatUint(r, 10)
				}
				line = fmt.Sprintf("%s %s", op, res)
			case "idx":
				i, ok := im.committee.SchedulerIdx(u(w[1]), u(w[2]))
				res := "none"
				if ok {
					res = strconv.Itoa(i)
				}
				line = fmt.Sprintf("%s %s", op, res)
			case "member":
				pk := signers[u(w[1])].Public()
				line = fmt.Sprintf("%s %s%s%s", op, b01(im.committee.IsMember(pk)), b01(im.committee.IsWorker(pk)), b01(im.committee.IsBackupWorker(pk)))
			default:
				panic("unknown op " + op)
			}
		}()
		lines = append(lines, line)
		if panicked != "" {
			break
		}
	}
	return
}

// check runs implementation and model on the ops; returns "" or what went wrong.
func check(ops []string) (string, []string) {
	lines, _ := runImpl(ops)
	if lastSpecFail != "" {
		return "SPECFAIL(implementation, model-free) " + lastSpecFail, lines
	}
	ans, err := hlib.RunModel("pool", lines)
	if err != nil {
		return "model-error: " + err.Error(), lines
	}
	for i, a := range ans {
		if a != "ok" && a != "skip" {
			return fmt.Sprintf("at op %d `%s`: %s", i, lines[i], a), lines
		}
	}
	return "", lines
}

func signature_(detail string) string {
	switch {
	case strings.Contains(detail, "SPECFAIL"):
		switch {
		case strings.Contains(detail, "not the chosen scheduler's own"):
			return "finalized-header-not-schedulers-commitment"
		case strings.Contains(detail, "own failure-indicating commitment accepted"):
			return "spec-scheduler-failure-accepted"
		case strings.Contains(detail, "MayFinalize"):
			return "spec-mayfinalize"
		case strings.Contains(detail, "non-member"):
			return "spec-non-member-accepted"
		case strings.Contains(detail, "second vote"):
			return "spec-second-vote-accepted"
		case strings.Contains(detail, "higher-priority"):
			return "spec-rank-priority"
		case strings.Contains(detail, "timer expired"):
			return "spec-timeout-still-waiting"
		case strings.Contains(detail, "nil"):
			return "spec-finalized-nil-commitment"
		case strings.Contains(detail, "changed the pool"):
			return "spec-rejected-commit-mutated-pool"
		}
		return "spec-other"
	case strings.Contains(detail, "PANIC"):
		return "panic"
	case strings.Contains(detail, "process result"):
		return "process-result-mismatch"
	case strings.Contains(detail, "chosen commitment"):
		return "chosen-mismatch"
	case strings.Contains(detail, "commit result"), strings.Contains(detail, "add result"):
		return "add-result-mismatch"
	case strings.Contains(detail, "finalize outcome"):
		return "finalize-outcome-mismatch"
	case strings.Contains(detail, "SchedulerRank"), strings.Contains(detail, "SchedulerIdx"), strings.Contains(detail, "membership"):
		return "committee-function-mismatch"
	case strings.Contains(detail, "entry rank"), strings.Contains(detail, "highest-rank"), strings.Contains(detail, "discrepancy-flag"):
		return "state-mismatch"
	case strings.Contains(detail, "model-error"):
		return "model-error"
	}
	return "other"
}

// ---------------------------------------------------------------- generators

type shape struct {
	members string
	workers []int // node numbers in the leading worker run
	all     []int // distinct member node numbers
	backups []int
}

func genShape(r *hlib.Rng, res *hlib.Result) shape {
	perm := make([]int, universe)
	for i := range perm {
		perm[i] = i
	}
	for i := universe - 1; i > 0; i-- {
		j := r.Intn(i + 1)
		perm[i], perm[j] = perm[j], perm[i]
	}
	nw := 1 + r.Intn(5)
	nb := r.Intn(6)
	if r.Chance(1, 25) {
		nw = 0
	}
	var sh shape
	var toks []string
	sh.workers = append(sh.workers, perm[:nw]...)
	// backups: drawn from all nodes, so they overlap the workers with some probability
	bperm := append([]int(nil), perm...)
	if r.Chance(2, 3) {
		// favour overlap: rotate so that backups start inside the worker run
		k := 0
		if nw > 0 {
			k = r.Intn(nw + 1)
		}
		bperm = append(append([]int(nil), perm[k:]...), perm[:k]...)
	} else {
		bperm = append(append([]int(nil), perm[nw:]...), perm[:nw]...)
	}
	if nb > universe {
		nb = universe
	}
	sh.backups = append(sh.backups, bperm[:nb]...)
	for _, n := range sh.workers {
		toks = append(toks, fmt.Sprintf("w%d", n))
	}
	for _, n := range sh.backups {
		toks = append(toks, fmt.Sprintf("b%d", n))
	}
	overlap := false
	for _, b := range sh.backups {
		for _, w := range sh.workers {
			if b == w {
				overlap = true
			}
		}
	}
	if overlap {
		res.Count("committee:overlapping-roles")
	}
	if r.Chance(1, 20) && len(toks) > 1 {
		// not a committee an election produces (mixed order / duplicates): validates the model
		// of the committee functions on arbitrary member lists
		for k := 0; k < 2; k++ {
			i, j := r.Intn(len(toks)), r.Intn(len(toks))
			if r.Bool() {
				toks[i], toks[j] = toks[j], toks[i]
			} else {
				toks[i] = toks[j]
			}
		}
		res.Count("committee:malformed")
		sh.workers, sh.backups = nil, nil
		lead := true
		for _, t := range toks {
			n := int(u(t[1:]))
			if t[0] == 'w' && lead {
				sh.workers = append(sh.workers, n)
			} else {
				lead = false
			}
			if t[0] == 'b' {
				sh.backups = append(sh.backups, n)
			}
		}
	}
	seen := map[int]bool{}
	for _, t := range toks {
		n := int(u(t[1:]))
		if !seen[n] {
			seen[n] = true
			sh.all = append(sh.all, n)
		}
	}
	sh.members = "-"
	if len(toks) > 0 {
		sh.members = strings.Join(toks, ",")
	}
	res.Count(fmt.Sprintf("committee:workers=%d", len(sh.workers)))
	res.Count(fmt.Sprintf("committee:backups=%d", len(sh.backups)))
	return sh
}

var roundBases = []uint64{1, 2, 3, 4, 5, 7, 100, 12345}

func genRound(r *hlib.Rng, res *hlib.Result) uint64 {
	if r.Chance(1, 12) {
		res.Count("round:near-2^64")
		return math.MaxUint64 - uint64(r.Intn(4))
	}
	if r.Chance(1, 40) {
		return 0
	}
	return roundBases[r.Intn(len(roundBases))] + uint64(r.Intn(3))
}

func pick(r *hlib.Rng, l []int) int {
	if len(l) == 0 {
		return r.Intn(universe)
	}
	return l[r.Intn(len(l))]
}

func genCase(r *hlib.Rng, nops int, res *hlib.Result) []string {
	sh := genShape(r, res)
	round := genRound(r, res)
	// a third of the cases keep the pool in the application state and admit commitments through the
	// real executorCommit handler, several per transaction
	appMode := r.Chance(1, 3)
	head := "committee"
	if appMode {
		head = "appcommittee"
		res.Count("case:app-mode")
	}
	ops := []string{fmt.Sprintf("%s %d %s", head, round, sh.members)}
	stragglers := r.Intn(3)
	if r.Chance(1, 3) {
		stragglers = 0
	}
	// the proposal most commitments are for
	mainSched := pick(r, sh.workers)
	guided := r.Chance(2, 3)
	pAgree := 60 + r.Intn(40)
	var batch []string        // pending commitments of the next transaction
	sent := map[[2]int]bool{} // (node, scheduler) pairs already submitted
	batchMax := 2 + r.Intn(4)
	flushTx := func() {
		if len(batch) > 0 {
			ops = append(ops, "tx "+strings.Join(batch, " "))
			res.Count(fmt.Sprintf("op:tx(%d commitments)", len(batch)))
			batch = nil
			batchMax = 2 + r.Intn(5)
		}
	}
	emitCommit := func(nodeN, sched int) {
		kind := 0
		fail := 0
		k := r.Intn(100)
		switch {
		case k >= pAgree && k < pAgree+(100-pAgree)/2:
			kind = 1 + r.Intn(2)
		case k >= pAgree+(100-pAgree)/2:
			// every failure code: unknown, state unavailable, out of range
			fail = []int{1, 1, 2, 2, 2, 3, 200}[r.Intn(7)]
		}
		rd := round
		if r.Chance(1, 40) {
			rd = round + 1
		}
		sigOk := !r.Chance(1, 40)
		pair := [2]int{nodeN, sched}
		switch {
		case r.Chance(1, 12):
			flushTx()
			ops = append(ops, fmt.Sprintf("rawadd %d %d %d %d %d", nodeN, sched, rd, kind, fail))
			res.Count("op:rawadd")
		case appMode && (!sent[pair] || r.Chance(1, 6)):
			// joins the pending transaction (a repeated pair mostly goes alone: it fails its transaction)
			batch = append(batch, fmt.Sprintf("%s,%d,%d,%d,%d,%d", b01(sigOk), nodeN, sched, rd, kind, fail))
			if len(batch) >= batchMax {
				flushTx()
			}
		default:
			flushTx()
			ops = append(ops, fmt.Sprintf("commit %s %d %d %d %d %d", b01(sigOk), nodeN, sched, rd, kind, fail))
			res.Count("op:commit")
		}
		sent[pair] = true
	}
	emitProcess := func(timeout bool) {
		flushTx()
		s := stragglers
		if r.Chance(1, 30) {
			s = r.Intn(4)
		}
		if (r.Chance(1, 6) || (appMode && r.Chance(1, 2))) && len(sh.workers) > 0 {
			ops = append(ops, fmt.Sprintf("finalize %d %s %s", s, b01(timeout), b01(r.Chance(1, 3))))
			res.Count("op:finalize")
		} else {
			ops = append(ops, fmt.Sprintf("process %d %s", s, b01(timeout)))
			res.Count("op:process")
		}
	}
	if guided {
		// scheduler first (mostly), then members in random order, then timeout, then backups
		res.Count("case:guided")
		if r.Chance(4, 5) {
			if appMode {
				batch = append(batch, fmt.Sprintf("1,%d,%d,%d,0,0", mainSched, mainSched, round))
			} else {
				ops = append(ops, fmt.Sprintf("commit 1 %d %d %d 0 0", mainSched, mainSched, round))
			}
			sent[[2]int{mainSched, mainSched}] = true
		}
		order := append([]int(nil), sh.all...)
		order = append(order, sh.all...) // duplicates
		for i := len(order) - 1; i > 0; i-- {
			j := r.Intn(i + 1)
			order[i], order[j] = order[j], order[i]
		}
		n := len(order)
		if n > nops {
			n = nops
		}
		for _, nd := range order[:n] {
			sched := mainSched
			if r.Chance(1, 8) {
				sched = pick(r, sh.workers)
			}
			if r.Chance(1, 15) {
				nd = r.Intn(universe)
			}
			emitCommit(nd, sched)
			if (!appMode && r.Chance(1, 3)) || (appMode && r.Chance(1, 7)) {
				emitProcess(r.Chance(1, 5))
			}
			if r.Chance(1, 10) {
				flushTx()
				ops = append(ops, "state")
			}
		}
		emitProcess(true)
		for _, nd := range order[:n] {
			if r.Chance(2, 3) {
				emitCommit(nd, mainSched)
			}
			if r.Chance(1, 3) {
				emitProcess(r.Chance(1, 4))
			}
		}
		emitProcess(true)
	} else {
		res.Count("case:soup")
		for i := 0; i < nops; i++ {
			k := r.Intn(100)
			switch {
			case k < 62:
				nd := pick(r, sh.all)
				if r.Chance(1, 8) {
					nd = r.Intn(universe)
				}
				sched := mainSched
				if r.Chance(1, 4) {
					sched = pick(r, sh.workers)
				}
				if r.Chance(1, 15) {
					sched = r.Intn(universe)
				}
				if r.Chance(1, 5) {
					nd = sched
				}
				emitCommit(nd, sched)
			case k < 85:
				emitProcess(r.Chance(1, 3))
			case k < 92:
				flushTx()
				ops = append(ops, "state")
				res.Count("op:state")
			case k < 95:
				ops = append(ops, fmt.Sprintf("rank %d %d", genRound(r, hlib.NewResult("", 0)), r.Intn(universe)))
				res.Count("op:rank")
			case k < 98:
				ops = append(ops, fmt.Sprintf("idx %d %d", genRound(r, hlib.NewResult("", 0)), r.Intn(7)))
				res.Count("op:idx")
			default:
				ops = append(ops, fmt.Sprintf("member %d", r.Intn(universe)))
				res.Count("op:member")
			}
		}
	}
	flushTx()
	ops = append(ops, "state")
	return ops
}

// classify counts what the implementation answered (input distribution for the evidence file).
func classify(lines []string, res *hlib.Result) (nontrivial bool) {
	for _, l := range lines {
		w := strings.Fields(l)
		switch w[0] {
		case "commit", "rawadd":
			if w[len(w)-1] == "MUTATED" {
				res.Count("add:rejected-but-mutated(wrap)")
			} else {
				res.Count("add:" + w[len(w)-1])
			}
		case "tx":
			res.Count("tx:" + w[1])
			if w[1] == "ok" && len(w) > 3 {
				res.Count("tx:ok-with-several-commitments")
				// position of a scheduler's own proposal inside an accepted transaction
				for i, cw := range w[2:] {
					f := strings.Split(cw, ",")
					if f[1] == f[2] {
						switch {
						case i == len(w)-3:
							res.Count("tx:scheduler-proposal-last")
						case i == 0:
							res.Count("tx:scheduler-proposal-first-others-after")
						default:
							res.Count("tx:scheduler-proposal-in-the-middle")
						}
					}
				}
			}
		case "process":
			out := w[4]
			res.Count(fmt.Sprintf("process:%s(timeout=%s,disc=%s)", out, w[2], w[3]))
			if out != "still-waiting" && out != "no-scheduler-commitment" {
				nontrivial = true
			}
			if out == "ok" {
				if w[3] == "1" {
					res.Count("finalized:backup-majority")
				} else {
					res.Count("finalized:unanimous")
				}
			}
		case "finalize":
			res.Count("finalize:" + w[4])
			if w[4] != "waiting" {
				nontrivial = true
			}
		}
	}
	return
}

// ---------------------------------------------------------------- exhaustive small scope

// exhaustive enumerates every op sequence up to the given depth over small committees and runs the
// real pool and the model on each (model validation; batches of cases share one model process).
func exhaustive(depth int, limit int, res *hlib.Result, fail func(ops []string, d string)) {
	cacheVer = true
	type scope struct {
		members string
		nodes   []int
		workers []int
	}
	scopes := []scope{
		{"w0,b1", []int{0, 1, 8}, []int{0}},
		{"w0,w1,b1,b2", []int{0, 1, 2, 8}, []int{0, 1}},
		{"w0,w1,b0,b1,b2", []int{0, 1, 2}, []int{0, 1}},
		{"w0,w1,w2,b3", []int{0, 1, 2, 3}, []int{0, 1, 2}},
		{"w0,w1,w2,b2,b3,b4", []int{0, 1, 2, 3, 4}, []int{0, 1}},
	}
	var batch [][]string
	total := 0
	flush := func() {
		if len(batch) == 0 {
			return
		}
		var all []string
		var start []int
		for _, ops := range batch {
			lines, _ := runImpl(ops)
			if lastSpecFail != "" {
				fail(ops, "SPECFAIL(implementation, model-free) "+lastSpecFail)
			}
			start = append(start, len(all))
			all = append(all, lines...)
			res.Ops += len(lines)
			classify(lines, res)
		}
		ans, err := hlib.RunModel("pool", all)
		if err != nil {
			fail(batch[0], "model-error: "+err.Error())
			batch = nil
			return
		}
		ci := 0
		for i, a := range ans {
			for ci+1 < len(start) && start[ci+1] <= i {
				ci++
			}
			if a != "ok" && a != "skip" {
				fail(batch[ci], fmt.Sprintf("at op %d `%s`: %s", i-start[ci], all[i], a))
				break
			}
		}
		batch = nil
	}
	for si, sc := range scopes {
		for _, stragglers := range []int{0, 1, 2} {
			round := uint64(2 + si)
			var alphabet []string
			for _, n := range sc.nodes {
				for _, s := range sc.workers {
					for _, kf := range []string{"0 0", "1 0", "0 1", "0 2"} {
						alphabet = append(alphabet, fmt.Sprintf("commit 1 %d %d %d %s", n, s, round, kf))
					}
				}
			}
			alphabet = append(alphabet, fmt.Sprintf("process %d 0", stragglers), fmt.Sprintf("process %d 1", stragglers))
			head := fmt.Sprintf("committee %d %s", round, sc.members)
			d := depth
			// keep the number of sequences per scope bounded
			for pow(len(alphabet), d) > limit && d > 1 {
				d--
			}
			res.Count(fmt.Sprintf("exhaustive:%s/stragglers=%d/alphabet=%d/depth=%d", sc.members, stragglers, len(alphabet), d))
			idx := make([]int, d)
			for {
				ops := []string{head}
				for _, i := range idx {
					ops = append(ops, alphabet[i])
				}
				// every sequence ends with a timeout-processing call and a state comparison
				ops = append(ops, fmt.Sprintf("process %d 1", stragglers), "state")
				batch = append(batch, ops)
				total++
				res.Cases++
				if len(batch) >= 4000 {
					flush()
					if len(res.Failures) >= 5 {
						return
					}
				}
				k := d - 1
				for k >= 0 {
					idx[k]++
					if idx[k] < len(alphabet) {
						break
					}
					idx[k] = 0
					k--
				}
				if k < 0 {
					break
				}
			}
			flush()
		}
	}
	res.Distinct += total
}

// batcher runs many cases through one model process.
type batcher struct {
	res   *hlib.Result
	fail  func(ops []string, d string)
	batch [][]string
	n     int
}

func (b *batcher) add(ops []string) {
	b.batch = append(b.batch, ops)
	b.n++
	b.res.Cases++
	if len(b.batch) >= 4000 {
		b.flush()
	}
}

func (b *batcher) flush() {
	if len(b.batch) == 0 {
		return
	}
	var all []string
	var start []int
	for _, ops := range b.batch {
		lines, _ := runImpl(ops)
		if lastSpecFail != "" {
			b.fail(ops, "SPECFAIL(implementation, model-free) "+lastSpecFail)
		}
		start = append(start, len(all))
		all = append(all, lines...)
		b.res.Ops += len(lines)
		classify(lines, b.res)
	}
	ans, err := hlib.RunModel("pool", all)
	if err != nil {
		b.fail(b.batch[0], "model-error: "+err.Error())
		b.batch = nil
		return
	}
	ci := 0
	for i, a := range ans {
		for ci+1 < len(start) && start[ci+1] <= i {
			ci++
		}
		if a != "ok" && a != "skip" {
			b.fail(b.batch[ci], fmt.Sprintf("at op %d `%s`: %s", i-start[ci], all[i], a))
			break
		}
	}
	b.batch = nil
}

// multisets enumerates, for small committees, every assignment of a behaviour to every member
// (never commits / commits before the timeout / commits after it; agreeing, dissenting or failure)
// and every arrival order of the commitments before the timeout, with a processing call after every
// commitment: all vote multisets in all orders (model validation + rule evaluation).
func multisets(maxNodes, maxAppNodes int, res *hlib.Result, fail func(ops []string, d string)) {
	cacheVer = true
	type scope struct {
		members string
		nodes   []int
		workers []int
	}
	scopes := []scope{
		{"w0,b1", []int{0, 1}, []int{0}},
		{"w0,w1,b2", []int{0, 1, 2}, []int{0, 1}},
		{"w0,w1,b1,b2", []int{0, 1, 2}, []int{0, 1}},
		{"w0,w1,w2,b3", []int{0, 1, 2, 3}, []int{0, 1, 2}},
		{"w0,w1,b0,b2,b3", []int{0, 1, 2, 3}, []int{0, 1}},
		{"w0,w1,w2,b2,b3,b4", []int{0, 1, 2, 3, 4}, []int{0, 1, 2}},
		{"w0,w1,w2,w3,b4", []int{0, 1, 2, 3, 4}, []int{0, 1, 2, 3}},
	}
	b := &batcher{res: res, fail: fail}
	const round = 4
	// agree, dissent, failure (failure code unknown / state unavailable alternating with node and stragglers)
	behaviour := func(b, i, stragglers int) string {
		switch b {
		case 0:
			return "0 0"
		case 1:
			return "1 0"
		}
		return fmt.Sprintf("0 %d", 1+(i+stragglers)%2)
	}
	for _, sc := range scopes {
		if len(sc.nodes) > maxNodes {
			continue
		}
		for _, sched := range sc.workers {
			for stragglers := 0; stragglers <= 2; stragglers++ {
				before := b.n
				head := fmt.Sprintf("committee %d %s", round, sc.members)
				k := len(sc.nodes)
				// option per node: 0 never, 1..3 phase 1 (agree/dissent/fail), 4..6 phase 2
				opt := make([]int, k)
				var emit func(phase1 []int, used []bool, order []int)
				build := func(order []int) {
					ops := []string{head}
					for _, i := range order {
						ops = append(ops, fmt.Sprintf("commit 1 %d %d %d %s", sc.nodes[i], sched, round, behaviour(opt[i]-1, i, stragglers)),
							fmt.Sprintf("process %d 0", stragglers))
					}
					ops = append(ops, fmt.Sprintf("process %d 1", stragglers))
					for i := 0; i < k; i++ {
						if opt[i] >= 4 {
							ops = append(ops, fmt.Sprintf("commit 1 %d %d %d %s", sc.nodes[i], sched, round, behaviour(opt[i]-4, i, stragglers)),
								fmt.Sprintf("process %d 0", stragglers))
						}
					}
					ops = append(ops, fmt.Sprintf("process %d 1", stragglers), "state")
					b.add(ops)
					// the same multiset through the application: the commitments before the timeout in
					// one executorCommit transaction (in this order), those after it in another one,
					// finalization by the real tryFinalizeRoundInsideTx
					if k > maxAppNodes {
						return
					}
					aops := []string{"app" + head}
					var t1, t2 []string
					for _, i := range order {
						t1 = append(t1, fmt.Sprintf("1,%d,%d,%d,%s", sc.nodes[i], sched, round, strings.ReplaceAll(behaviour(opt[i]-1, i, stragglers), " ", ",")))
					}
					for i := 0; i < k; i++ {
						if opt[i] >= 4 {
							t2 = append(t2, fmt.Sprintf("1,%d,%d,%d,%s", sc.nodes[i], sched, round, strings.ReplaceAll(behaviour(opt[i]-4, i, stragglers), " ", ",")))
						}
					}
					if len(t1) > 0 {
						aops = append(aops, "tx "+strings.Join(t1, " "))
					}
					aops = append(aops, fmt.Sprintf("finalize %d 0 0", stragglers), fmt.Sprintf("finalize %d 1 0", stragglers))
					if len(t2) > 0 {
						aops = append(aops, "tx "+strings.Join(t2, " "))
					}
					aops = append(aops, fmt.Sprintf("finalize %d 0 0", stragglers), fmt.Sprintf("finalize %d 1 1", stragglers), "state")
					b.add(aops)
				}
				emit = func(phase1 []int, used []bool, order []int) {
					if len(order) == len(phase1) {
						build(order)
						return
					}
					for j, i := range phase1 {
						if !used[j] {
							used[j] = true
							emit(phase1, used, append(order, i))
							used[j] = false
						}
					}
				}
				var assign func(i int)
				assign = func(i int) {
					if len(res.Failures) >= 5 {
						return
					}
					if i == k {
						var phase1 []int
						for j := 0; j < k; j++ {
							if opt[j] >= 1 && opt[j] <= 3 {
								phase1 = append(phase1, j)
							}
						}
						emit(phase1, make([]bool, len(phase1)), nil)
						return
					}
					if sc.nodes[i] == sched {
						// the scheduler proposes (agreeing with itself), never commits, or sends a
						// failure indication for its own proposal (must be refused)
						for _, o := range []int{0, 1, 3} {
							opt[i] = o
							assign(i + 1)
						}
						return
					}
					for o := 0; o <= 6; o++ {
						opt[i] = o
						assign(i + 1)
					}
				}
				assign(0)
				b.flush()
				res.Count(fmt.Sprintf("multiset:%s/sched=%d/stragglers=%d=%d", sc.members, sched, stragglers, b.n-before))
			}
		}
	}
	res.Distinct += b.n
}

func pow(a, b int) int {
	x := 1
	for i := 0; i < b; i++ {
		x *= a
		if x > 1<<40 {
			return x
		}
	}
	return x
}

func main() {
	seed := flag.Uint64("seed", 1, "seed")
	cases := flag.Int("cases", 500, "number of generated cases")
	nops := flag.Int("ops", 30, "ops per case")
	out := flag.String("out", "-", "result file")
	replay := flag.String("replay", "", "replay file (one op per line)")
	corpus := flag.String("corpus", "", "corpus dir, run first")
	exDepth := flag.Int("exhaustive", 0, "depth of the small-scope exhaustive enumeration (0: off)")
	exLimit := flag.Int("exhaustive-limit", 300000, "max sequences per scope (depth is reduced to fit)")
	msApp := flag.Int("multiset-app", 4, "largest committee (nodes) for which the multisets also go through the application handlers")
	msNodes := flag.Int("multiset", 0, "enumerate all vote multisets and orders for committees of up to this many nodes (0: off)")
	flag.Parse()
	setup()

	res := hlib.NewResult("pooldrv", *seed)
	res.Rule = "histories of commit (VerifyExecutorCommitment+AddVerifiedExecutorCommitment) / tx (real executorCommit handler, 1-6 commitments per transaction, pool kept in the application state; a third of the cases) / rawadd / process / finalize (real tryFinalizeRoundInsideTx) / state ops on the real commitment.Pool over committees of 0-5 workers and 0-5 backup workers drawn from 9 Ed25519 nodes (overlapping roles, 1/20 malformed member lists), rounds small or within 3 of 2^64, stragglers 0-3, agreeing/dissenting/failure/duplicate/non-member/bad-signature/wrong-round commitments for schedulers of every rank; non-trivial: some processing call answered other than still-waiting/no-scheduler-commitment; distinct by op list"

	runOne := func(ops []string, caseSeed uint64, minimize bool) {
		d, lines := check(ops)
		res.Cases++
		res.Ops += len(lines)
		if d == "" {
			return
		}
		min := ops
		if minimize {
			head, tail := ops[:1], ops[1:]
			tail = hlib.Shrink(tail, func(c []string) bool {
				dd, _ := check(append(append([]string{}, head...), c...))
				return dd != "" && signature_(dd) == signature_(d)
			})
			min = append(append([]string{}, head...), tail...)
			d, _ = check(min)
		}
		kind := "divergence"
		if strings.Contains(d, "SPECFAIL") {
			kind = "spec"
		} else if strings.Contains(d, "PANIC") {
			kind = "panic"
		}
		res.Fail(hlib.Failure{Kind: kind, Detail: d, Case: min, Seed: caseSeed, Sig: signature_(d)})
	}

	if *replay != "" {
		ops, err := hlib.ReadLines(*replay)
		if err != nil {
			fmt.Fprintln(os.Stderr, err)
			os.Exit(2)
		}
		lines, _ := runImpl(ops)
		res.AddSample(lines)
		runOne(ops, 0, false)
		res.Write(*out)
		return
	}
	if *corpus != "" {
		ents, _ := os.ReadDir(*corpus)
		for _, e := range ents {
			if ops, err := hlib.ReadLines(*corpus + "/" + e.Name()); err == nil && len(ops) > 0 {
				runOne(ops, 0, false)
				res.Count("corpus")
			}
		}
	}
	// hlib.NewRng(seed) states of neighbouring seeds are one step apart; hash once to decorrelate.
	rng := hlib.FromState(hlib.NewRng(*seed).Next())
	seen := map[string]bool{}
	for i := 0; i < *cases; i++ {
		cr := rng.Fork()
		cs := cr.Seed()
		ops := genCase(cr, 4+cr.Intn(*nops), res)
		lines, pan := runImpl(ops)
		if pan != "" {
			// predicted by the model (else it is reported as a failure below); only reachable by
			// rawadd (unverified scheduler failure) or beyond the uint64 wrap bound
			res.Count("impl-panics-predicted-by-model:" + strings.Fields(pan)[0])
			if os.Getenv("POOLDRV_SHOW_PANICS") != "" {
				fmt.Fprintln(os.Stderr, "PANIC", pan, "\n  ", strings.Join(lines, " | "))
			}
		}
		if classify(lines, res) {
			key := strings.Join(ops, ";")
			if !seen[key] {
				seen[key] = true
				res.Distinct++
			}
		}
		if i < 2 {
			res.AddSample(lines)
		}
		runOne(ops, cs, true)
		if len(res.Failures) >= 5 {
			break
		}
	}
	if *exDepth > 0 && len(res.Failures) == 0 {
		res.Exhaustive = true
		exhaustive(*exDepth, *exLimit, res, func(ops []string, d string) {
			kind := "divergence"
			if strings.Contains(d, "SPECFAIL") {
				kind = "spec"
			} else if strings.Contains(d, "PANIC") {
				kind = "panic"
			}
			res.Fail(hlib.Failure{Kind: kind, Detail: d, Case: ops, Sig: signature_(d)})
		})
		res.Explanation = "random histories, then every op sequence up to the stated depth over 5 small committees x stragglers 0..2 (model validation)"
	}
	if *msNodes > 0 && len(res.Failures) == 0 {
		res.Exhaustive = true
		multisets(*msNodes, *msApp, res, func(ops []string, d string) {
			kind := "divergence"
			if strings.Contains(d, "SPECFAIL") {
				kind = "spec"
			} else if strings.Contains(d, "PANIC") {
				kind = "panic"
			}
			res.Fail(hlib.Failure{Kind: kind, Detail: d, Case: ops, Sig: signature_(d)})
		})
		res.Explanation += "; all member behaviours (never / before / after the timeout x agree / dissent / failure) in all arrival orders for the listed small committees, every scheduler, stragglers 0..2, directly on the pool and (small committees) as executorCommit transactions + tryFinalizeRoundInsideTx"
	}
	res.Write(*out)
}
