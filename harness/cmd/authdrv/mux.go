package main

// The mux stage: the same transaction streams, driven through the REAL ABCI multiplexer
// (abci.NewApplicationServer with the real staking application registered as application and as
// transaction auth handler), so that decodeTx (size limit, envelope decode, signature open, sanity check),
// method routing, AuthenticateTx, per-byte gas, handler execution and the block life cycle
// (InitChain, PrepareProposal, ProcessProposal, BeginBlock, DeliverTx, EndBlock, Commit; CheckTx and
// EstimateGas in between) are the production code paths.
//
// Two replicas run every block: replica P proposes (PrepareProposal executes the block and appends the
// signed block-metadata system transaction), replica V executes the proposed block transaction by
// transaction through BeginBlock/DeliverTx/EndBlock/Commit; the harness reads the signer's account from
// V's in-flight block state before and after every DeliverTx. P then goes through
// ProcessProposal/BeginBlock/DeliverTx/EndBlock/Commit on its cached results. Result codes and the
// committed state roots of P and V must agree.
//
// Only the beacon time source is a stub (constant epoch); all other applications are absent, so methods
// of other applications are "unknown method" here.

import (
	"context"
	"encoding/json"
	"fmt"
	"math/big"
	"os"
	"sort"
	"strings"
	"time"

	"github.com/cometbft/cometbft/abci/types"
	cmtproto "github.com/cometbft/cometbft/proto/tendermint/types"

	"verifharness/hlib"

	beacon "github.com/oasisprotocol/oasis-core/go/beacon/api"
	"github.com/oasisprotocol/oasis-core/go/common/cbor"
	"github.com/oasisprotocol/oasis-core/go/common/crypto/hash"
	"github.com/oasisprotocol/oasis-core/go/common/crypto/signature"
	memorySigner "github.com/oasisprotocol/oasis-core/go/common/crypto/signature/signers/memory"
	"github.com/oasisprotocol/oasis-core/go/common/identity"
	"github.com/oasisprotocol/oasis-core/go/common/pubsub"
	"github.com/oasisprotocol/oasis-core/go/common/quantity"
	consensus "github.com/oasisprotocol/oasis-core/go/consensus/api"
	"github.com/oasisprotocol/oasis-core/go/consensus/api/transaction"
	"github.com/oasisprotocol/oasis-core/go/consensus/cometbft/abci"
	abciAPI "github.com/oasisprotocol/oasis-core/go/consensus/cometbft/api"
	stakingApp "github.com/oasisprotocol/oasis-core/go/consensus/cometbft/apps/staking"
	stakingState "github.com/oasisprotocol/oasis-core/go/consensus/cometbft/apps/staking/state"
	cmtcrypto "github.com/oasisprotocol/oasis-core/go/consensus/cometbft/crypto"
	consensusGenesis "github.com/oasisprotocol/oasis-core/go/consensus/genesis"
	genesis "github.com/oasisprotocol/oasis-core/go/genesis/api"
	staking "github.com/oasisprotocol/oasis-core/go/staking/api"
)

// stubBeacon is a constant-epoch time source.
type stubBeacon struct{}

func (stubBeacon) GetBaseEpoch(context.Context) (beacon.EpochTime, error)        { return 1, nil }
func (stubBeacon) GetEpoch(context.Context, int64) (beacon.EpochTime, error)     { return 1, nil }
func (stubBeacon) GetNextEpoch(context.Context, int64) (beacon.EpochTime, error) { return 1, nil }
func (stubBeacon) GetFutureEpoch(context.Context, int64) (*beacon.EpochTimeState, error) {
	return nil, nil
}
func (stubBeacon) GetEpochBlock(context.Context, beacon.EpochTime) (int64, error) { return 1, nil }
func (stubBeacon) WaitEpoch(context.Context, beacon.EpochTime) error              { return nil }
func (stubBeacon) WatchEpochs(context.Context) (<-chan beacon.EpochTime, pubsub.ClosableSubscription, error) {
	return nil, nil, fmt.Errorf("stub")
}

func (stubBeacon) WatchLatestEpoch(context.Context) (<-chan beacon.EpochTime, pubsub.ClosableSubscription, error) {
	return nil, nil, fmt.Errorf("stub")
}
func (stubBeacon) GetBeacon(context.Context, int64) ([]byte, error) { return nil, nil }
func (stubBeacon) StateToGenesis(context.Context, int64) (*beacon.Genesis, error) {
	return nil, fmt.Errorf("stub")
}

func (stubBeacon) ConsensusParameters(context.Context, int64) (*beacon.ConsensusParameters, error) {
	return nil, fmt.Errorf("stub")
}

type replica struct {
	srv  *abci.ApplicationServer
	mux  types.Application
	dir  string
	name string
	disk bool

	stopped bool
}

func (r *replica) close() {
	if !r.stopped {
		r.stopped = true
		r.srv.Stop()
		r.srv.Cleanup()
	}
	os.RemoveAll(r.dir)
}

func seedSigner(tag string, seed []byte) signature.Signer {
	h := hash.NewFromBytes(append([]byte(tag), seed...))
	s, err := memorySigner.NewFromSeed(h[:])
	if err != nil {
		panic(err)
	}
	return s
}

// openReplica creates (or, on an existing data directory, re-opens after a restart) an application
// server exactly as the full node does: NewApplicationServer, application registration, time source,
// transaction auth handler, Start.
func openReplica(name, dir string, seed []byte, doc *genesis.Document, disk bool) *replica {
	ident := &identity.Identity{
		NodeSigner:      seedSigner(name+"/node", seed),
		P2PSigner:       seedSigner(name+"/p2p", seed),
		ConsensusSigner: seedSigner(name+"/consensus", seed),
		VRFSigner:       seedSigner(name+"/vrf", seed),
	}
	srv, err := abci.NewApplicationServer(context.Background(), nil, &abci.ApplicationConfig{
		DataDir:             dir,
		StorageBackend:      "badger",
		MemoryOnlyStorage:   !disk,
		DisableCheckpointer: true,
		Pruning:             abci.PruneConfig{PruneInterval: time.Hour},
		Identity:            ident,
		InitialHeight:       doc.Height,
		ChainContext:        doc.ChainContext(),
	})
	if err != nil {
		panic(err)
	}
	app := stakingApp.New(srv.State(), srv.MessageDispatcher())
	if err = srv.Register(app); err != nil {
		panic(err)
	}
	app.Subscribe()
	// Start() announces "state sync completed" after a restart; in the node the governance application
	// listens, here a no-op subscriber stands in for the absent applications.
	srv.MessageDispatcher().Subscribe(abciAPI.MessageStateSyncCompleted, nopSubscriber{})
	if err = srv.SetEpochtime(stubBeacon{}); err != nil {
		panic(err)
	}
	if err = srv.SetTransactionAuthHandler(app); err != nil {
		panic(err)
	}
	if err = srv.Start(); err != nil { // dependency check, pruner worker (as the node does)
		panic(err)
	}
	return &replica{srv: srv, mux: srv.Mux(), dir: dir, name: name, disk: disk}
}

type nopSubscriber struct{}

func (nopSubscriber) ExecuteMessage(*abciAPI.Context, abciAPI.Message) (any, error) { return nil, nil }

func newReplica(name string, seed []byte, doc *genesis.Document, disk bool) *replica {
	base := os.Getenv("VERIF_SCRATCH")
	if base == "" {
		base = os.TempDir()
	}
	dir, err := os.MkdirTemp(base, "authdrv-mux-")
	if err != nil {
		panic(err)
	}
	r := openReplica(name, dir, seed, doc, disk)
	raw, err := json.Marshal(doc)
	if err != nil {
		panic(err)
	}
	r.mux.InitChain(types.RequestInitChain{
		Time:          doc.Time,
		ChainId:       doc.ChainID,
		AppStateBytes: raw,
		InitialHeight: doc.Height,
	})
	return r
}

// restart stops the server, closes its database and opens a new server on the same data directory.
func (r *replica) restart(seed []byte, doc *genesis.Document) *replica {
	r.stopped = true
	r.srv.Stop()
	r.srv.Cleanup()
	return openReplica(r.name, r.dir, seed, doc, true)
}

type muxWorld struct {
	res      *hlib.Result
	doc      *genesis.Document
	p, v     *replica
	pIdent   signature.Signer
	height   int64
	now      time.Time
	queue    []string // names of transactions queued for the next block
	queueHo  []bool
	maxTx    uint64
	pending  []string // "signer" ops seen before init
	seed     []byte
	mtb      uint64
	minGasPx uint64
	disk     bool // on-disk state database (needed for restarts; slow)
}

// inflight reads an account from replica V's in-flight block state.
func (mw *muxWorld) inflight(r *replica, pk signature.PublicKey) (uint64, string) {
	if staking.NewAddress(pk).IsReserved() {
		return 0, "0"
	}
	ctx := r.srv.State().NewContext(abciAPI.ContextDeliverTx)
	defer ctx.Close()
	st := stakingState.NewImmutableState(ctx.State())
	a, err := st.Account(ctx, staking.NewAddress(pk))
	if err != nil {
		panic(err)
	}
	return a.General.Nonce, qstr(&a.General.Balance)
}

func codeClass(module string, code uint32, log string) string {
	switch {
	case code == 0:
		return "ok"
	case module == "consensus" && code == 2: // ErrOversizedTx
		return "oversized"
	case module == "consensus/transaction" && code == 1:
		return "auth:invalid-nonce"
	case module == "staking" && code == 10:
		return "auth:balance-too-low"
	case strings.Contains(log, "reserved account address"):
		return "auth:reserved"
	case strings.Contains(log, "signature verification failed"):
		return "bad-sig"
	case strings.Contains(log, "mux: unknown method"):
		return "no-app"
	}
	return ""
}

// classify maps a DeliverTx response to the model's result class. Whether authentication passed is
// observed (the signer's nonce moved in the in-flight state), not inferred from the error; what the
// harness knows about the bytes (envelope / blob decodability) is used only to tell apart error texts that
// carry no code.
func classify(resp *types.ResponseDeliverTx, env, sg, txok bool, authPassed bool) string {
	if resp.Code == 0 {
		return "ok"
	}
	if authPassed {
		return "failed"
	}
	if c := codeClass(resp.Codespace, resp.Code, resp.Log); c != "" {
		return c
	}
	switch {
	case !env:
		return "malformed"
	case !txok:
		return "bad-tx"
	}
	return "other:" + resp.Codespace + ":" + fmt.Sprint(resp.Code) + ":" + strings.ReplaceAll(resp.Log, " ", "_")
}

// commitBlock runs one block with the queued transactions on both replicas and returns the model lines.
func (mw *muxWorld) commitBlock(w *world) []string {
	lines := []string{"newblock"}
	var txs [][]byte
	for _, n := range mw.queue {
		txs = append(txs, w.raws[n])
	}
	mw.height++
	mw.now = mw.now.Add(time.Second)
	pk := mw.pIdent.Public()
	proposer := []byte(cmtcrypto.PublicKeyToCometBFT(&pk).Address())

	// CometBFT always reports the previous block's voters (environment assumption of the fee
	// disbursement in staking BeginBlock): one validator, the proposer, who signed.
	val := types.Validator{Address: proposer, Power: 1}
	lastCommit := types.CommitInfo{Votes: []types.VoteInfo{{Validator: val, SignedLastBlock: true}}}
	prep := mw.p.mux.PrepareProposal(types.RequestPrepareProposal{
		MaxTxBytes: 22020096, Txs: txs, Height: mw.height, Time: mw.now, ProposerAddress: proposer,
		LocalLastCommit: types.ExtendedCommitInfo{Votes: []types.ExtendedVoteInfo{{Validator: val, SignedLastBlock: true}}},
	})
	if len(prep.Txs) != len(txs)+1 {
		// A panic inside the block makes the proposer fall back to an empty proposal (C10 territory).
		mw.res.Count("mux:empty-proposal")
		w.fails = append(w.fails, hlib.Failure{Kind: "panic", Sig: "mux-proposal-aborted",
			Detail: fmt.Sprintf("PrepareProposal returned %d transactions for %d submitted (block execution panicked?)", len(prep.Txs), len(txs))})
		mw.queue, mw.queueHo = nil, nil
		mw.height--
		return lines
	}
	blockHash := hash.NewFromBytes([]byte(fmt.Sprintf("block %d", mw.height)))
	header := cmtproto.Header{Height: mw.height, Time: mw.now, ProposerAddress: proposer}

	// Replica V: transaction by transaction.
	mw.v.mux.BeginBlock(types.RequestBeginBlock{Hash: blockHash[:], Header: header, LastCommitInfo: lastCommit})
	var vCodes []string
	for i, raw := range prep.Txs {
		isMeta := i == len(prep.Txs)-1
		var sigTx transaction.SignedTransaction
		var probe transaction.Transaction
		env := cbor.Unmarshal(raw, &sigTx) == nil
		var sg, txok bool
		var nb, na uint64
		bb, ba := "0", "0"
		signer, nonce, famt, fgas, kind := 0, uint64(0), "0", uint64(0), "n"
		if env {
			signer = w.signerIdx(sigTx.Signature.PublicKey)
			nb, bb = mw.inflight(mw.v, sigTx.Signature.PublicKey)
			sg = sigTx.Signature.Verify(transaction.SignatureContext, sigTx.Blob)
			if cbor.Unmarshal(sigTx.Blob, &probe) == nil {
				txok = probe.SanityCheck() == nil
				nonce = probe.Nonce
				famt, fgas = feeOf(&probe)
				kind = methodKind(probe.Method)
				if kind == "n" && !strings.HasPrefix(string(probe.Method), "staking.") {
					kind = "u" // only the staking application is registered in this mux
				}
			}
		}
		resp := mw.v.mux.DeliverTx(types.RequestDeliverTx{Tx: raw})
		if env {
			na, ba = mw.inflight(mw.v, sigTx.Signature.PublicKey)
		}
		vCodes = append(vCodes, fmt.Sprintf("%s/%d", resp.Codespace, resp.Code))
		if isMeta {
			if resp.Code != 0 {
				panic(fmt.Sprintf("block metadata transaction rejected: %s", resp.Log))
			}
			mw.res.Count("mux:class:system(meta)")
			continue
		}
		name := mw.queue[i]
		// Authentication passed iff the nonce moved (observed, not inferred).
		authPassed := env && na != nb
		cls := classify(&resp, env, sg, txok, authPassed)
		if cls == "ok" && kind == "s" {
			cls = "system"
		}
		mw.res.Count("mux:class:" + cls)
		if cls == "ok" && ba == "0" && bb != "0" {
			mw.res.Count("mux:drained-to-exactly-zero")
		}
		ho := cls == "ok"
		if cls == "ok" || cls == "failed" {
			key := hx(sigTx.Signature.PublicKey[:]) + "|" + hx(sigTx.Signature.Signature[:]) + "|" + hx(sigTx.Blob)
			if !w.honest[key] {
				w.fails = append(w.fails, hlib.Failure{Kind: "spec", Sig: "spec-forged-tx-authenticated",
					Detail: fmt.Sprintf("tx %s (%s) was authenticated by the mux but its (key, signature, blob) was never signed as a transaction for this chain", name, w.origin[name])})
			} else if o := w.origin[name]; strings.HasPrefix(o, "flip:") {
				mw.res.Count("flip:envelope-malleable-accepted")
				w.fails = append(w.fails, hlib.Failure{Kind: "spec", Sig: "spec-envelope-malleable",
					Detail: fmt.Sprintf("tx %s (%s, %d bytes) differs from the signed original in one bit, yet decodes to the same (key, signature, blob) and was authenticated by the mux (class %s): the envelope encoding is malleable (property text: a transaction altered in any bit never takes effect)", name, o, len(raw), cls)})
			}
		}
		o := w.origin[name]
		if j := strings.IndexByte(o, ':'); j >= 0 {
			o = o[:j]
		}
		mw.res.Count("mux:origin:" + o + ":sig=" + b01(sg))
		id := hash.NewFromBytes(raw)
		lines = append(lines, fmt.Sprintf("mtx %s %d %s %s %s %d %d %s %d %s %s %s %d %d %s %s",
			id.Hex(), len(raw), b01(env), b01(sg), b01(txok), signer, nonce, famt, fgas, kind, b01(ho), cls, nb, na, bb, ba))
		// Handler effects (transfers) and fee flows change balances of other accounts; the model treats
		// balances as free (witness): report the balance the implementation holds now for every signer.
	}
	mw.v.mux.EndBlock(types.RequestEndBlock{Height: mw.height})
	vRoot := mw.v.mux.Commit().Data

	// Replica P: the proposer's own path over cached results.
	pp := mw.p.mux.ProcessProposal(types.RequestProcessProposal{
		Txs: prep.Txs, Hash: blockHash[:], Height: mw.height, Time: mw.now, ProposerAddress: proposer,
		ProposedLastCommit: lastCommit,
	})
	if pp.Status != types.ResponseProcessProposal_ACCEPT {
		panic("proposer rejected its own proposal")
	}
	mw.p.mux.BeginBlock(types.RequestBeginBlock{Hash: blockHash[:], Header: header, LastCommitInfo: lastCommit})
	for i, raw := range prep.Txs {
		resp := mw.p.mux.DeliverTx(types.RequestDeliverTx{Tx: raw})
		if c := fmt.Sprintf("%s/%d", resp.Codespace, resp.Code); c != vCodes[i] {
			w.fails = append(w.fails, hlib.Failure{Kind: "divergence", Sig: "mux-replicas-disagree",
				Detail: fmt.Sprintf("tx %d of block %d: proposer result %s, validator result %s", i, mw.height, c, vCodes[i])})
		}
	}
	mw.p.mux.EndBlock(types.RequestEndBlock{Height: mw.height})
	pRoot := mw.p.mux.Commit().Data
	if string(pRoot) != string(vRoot) {
		w.fails = append(w.fails, hlib.Failure{Kind: "divergence", Sig: "mux-replicas-disagree",
			Detail: fmt.Sprintf("block %d: state roots differ between proposer and validator replica", mw.height)})
	}
	mw.res.Count("mux:blocks")
	mw.res.CountN("mux:txs", len(txs))
	mw.queue, mw.queueHo = nil, nil
	// The committed state after the block, read from the real state of replica V for every signer and for
	// the transfer recipient: `nonce never decreases for any account across the whole history` is evaluated
	// on these observations (model driver, op `obs`); balances are witnesses (fees flow to the common pool,
	// transfers and burns move funds).
	idxs := map[int]signature.PublicKey{}
	var order []int
	for pk, i := range w.idx {
		if i < 1000 {
			idxs[i] = pk
			order = append(order, i)
		}
	}
	sort.Ints(order)
	for _, i := range order {
		n, b := mw.committed(mw.v, idxs[i])
		lines = append(lines, fmt.Sprintf("obs %d %d %s", i, n, b))
		mw.res.Count("mux:obs")
		if b == "0" {
			mw.res.Count("mux:obs:zero-balance")
		}
	}
	return lines
}

func (mw *muxWorld) committed(r *replica, pk signature.PublicKey) (uint64, string) {
	ctx := r.srv.State().NewContext(abciAPI.ContextSimulateTx)
	defer ctx.Close()
	st := stakingState.NewImmutableState(ctx.State())
	a, err := st.Account(ctx, staking.NewAddress(pk))
	if err != nil {
		panic(err)
	}
	return a.General.Nonce, qstr(&a.General.Balance)
}

// checkAndSimulate issues CheckTx and EstimateGas for a transaction between blocks; neither may
// change what the next block sees (the model treats them as no-ops).
func (mw *muxWorld) checkAndSimulate(w *world, name string) []string {
	raw := w.raws[name]
	resp := mw.v.mux.CheckTx(types.RequestCheckTx{Tx: raw, Type: types.CheckTxType_New})
	mw.res.Count(fmt.Sprintf("mux:checktx:%v", resp.Code == 0))
	var sigTx transaction.SignedTransaction
	var tx transaction.Transaction
	if cbor.Unmarshal(raw, &sigTx) == nil && cbor.Unmarshal(sigTx.Blob, &tx) == nil {
		_, err := mw.v.srv.EstimateGas(sigTx.Signature.PublicKey, &tx)
		mw.res.Count(fmt.Sprintf("mux:estimategas:%v", err == nil))
	}
	return []string{"noop"}
}

func (mw *muxWorld) init(w *world) []string {
	doc := &genesis.Document{
		Height:  1,
		Time:    time.Unix(1700000000, 0).UTC(),
		ChainID: "verif-" + hx(mw.seed[:4]),
	}
	doc.Consensus = consensusGenesis.Genesis{
		Backend: "tendermint",
		Parameters: consensusGenesis.Parameters{
			MaxTxSize:               mw.maxTx,
			MaxBlockSize:            22020096,
			MaxBlockGas:             0,
			MinGasPrice:             mw.minGasPx,
			TimeoutCommit:           time.Second,
			StateCheckpointInterval: 0,
		},
	}
	var total quantity.Quantity
	doc.Staking.Ledger = map[staking.Address]*staking.Account{}
	var lines []string
	for _, op := range mw.pending {
		f := strings.Fields(op)
		i := atoi(f[1])
		s, err := memorySigner.NewFromSeed(unhx(f[2]))
		if err != nil {
			panic(err)
		}
		for len(w.signers) <= i {
			w.signers = append(w.signers, nil)
		}
		w.signers[i] = s
		w.idx[s.Public()] = i
		var acct staking.Account
		acct.General.Nonce = atou(f[3])
		n, _ := new(big.Int).SetString(f[4], 10)
		_ = acct.General.Balance.FromBigInt(n)
		doc.Staking.Ledger[staking.NewAddress(s.Public())] = &acct
		_ = total.Add(&acct.General.Balance)
		lines = append(lines, fmt.Sprintf("acct %d %s %s", i, f[3], f[4]))
	}
	w.idx[transferPK] = 900 // the default transfer recipient is observed too
	doc.Staking.TotalSupply = total
	_ = doc.Staking.Parameters.MinTransactBalance.FromUint64(mw.mtb)
	doc.Staking.Parameters.FeeSplitWeightVote = *quantity.NewFromUint64(1)
	doc.Staking.Parameters.Thresholds = map[staking.ThresholdKind]quantity.Quantity{}
	for _, k := range staking.ThresholdKinds {
		doc.Staking.Parameters.Thresholds[k] = *quantity.NewFromUint64(0)
	}
	mw.doc = doc
	w.chainA = doc.ChainContext()
	setChain(w.chainA)
	mw.p = newReplica("P", mw.seed, doc, mw.disk)
	mw.v = newReplica("V", mw.seed, doc, mw.disk)
	mw.pIdent = seedSigner("P/consensus", mw.seed)
	mw.now = doc.Time
	mw.height = 0
	return append([]string{fmt.Sprintf("params %d %d 0 - 999", mw.mtb, mw.maxTx)}, lines...)
}

var _ = consensus.MethodMeta

// genMuxCase generates a stream for the mux stage (same mix as genCase, grouped into blocks).
func genMuxCase(r *hlib.Rng, nops int, flipAll bool, disk bool, res *hlib.Result) []string {
	mtb := []uint64{0, 0, 5, 100}[r.Intn(4)]
	maxTx := []uint64{0, 32768, 32768, 400}[r.Intn(4)]
	ops := []string{fmt.Sprintf("mworld %s %s %d %d %d %s", randBytes(r, 16, hexAlpha), randBytes(r, 64, hexAlpha), mtb, maxTx, []uint64{0, 0, 0, 1}[r.Intn(4)], b01(disk))}
	ns := 1 + r.Intn(4)
	nonce := make([]uint64, ns)
	for i := 0; i < ns; i++ {
		nonce[i] = []uint64{0, 0, 7, 18446744073709551613, 18446744073709551615}[r.Intn(5)]
		bal := []string{"0", "3", "100000", "1000000", "340282366920938463463374607431768211456"}[r.Intn(5)]
		ops = append(ops, fmt.Sprintf("signer %d %s %d %s", i, randBytes(r, 64, hexAlpha), nonce[i], bal))
	}
	ops = append(ops, "init")
	var accepted, all []string
	nextName := 0
	mk := func() string { nextName++; return fmt.Sprintf("t%d", nextName) }
	fee := func() (string, uint64) {
		switch r.Intn(4) {
		case 0:
			return "0", 0
		case 1:
			return fmt.Sprint(2000 + r.Intn(3000)), 2000
		default:
			return fmt.Sprint(r.Intn(3000)), uint64(r.Intn(3000))
		}
	}
	inBlock := 0
	bySigner := make([][]string, ns)
	drains := 0
	// drain: signer i sends its whole balance (to exactly zero after the fee) to signer j, j refunds i, and then
	// every transaction i ever signed is submitted again (handlers touching the account record itself).
	drain := func() {
		i := r.Intn(ns)
		j := (i + 1 + r.Intn(ns)) % ns
		d, rf := mk(), mk()
		fa := []string{"0", "1", "7"}[r.Intn(3)]
		m := "staking.Transfer"
		if r.Chance(1, 5) {
			m = "staking.Burn"
		}
		ops = append(ops, "commit",
			fmt.Sprintf("sign %s %d tx A CUR %s 0 %s to=%d amt=ALL", d, i, fa, m, j), "submit "+d+" 1", "commit")
		nonce[i]++
		if j != i {
			ops = append(ops, fmt.Sprintf("sign %s %d tx A CUR 0 0 staking.Transfer to=%d amt=%d", rf, j, i, 500+r.Intn(5000)), "submit "+rf+" 1", "commit")
			nonce[j]++
			bySigner[j] = append(bySigner[j], rf)
		} else {
			// a single signer cannot be refunded by another one: genesis-funded recipient only
			ops = append(ops, "commit")
		}
		for _, n := range bySigner[i] {
			ops = append(ops, "submit "+n+" 1")
		}
		ops = append(ops, "submit "+d+" 1", "commit")
		bySigner[i] = append(bySigner[i], d)
		accepted = append(accepted, d)
		drains++
		res.Count("mux:gen:drain-refund-replay")
	}
	for len(ops) < nops {
		k := r.Intn(100)
		si := r.Intn(ns)
		fa, fg := fee()
		switch {
		case k < 30:
			n := mk()
			m := "staking.Transfer"
			if r.Chance(1, 6) {
				m = methods[r.Intn(len(methods))]
				if m == "consensus.Meta" { // never the system method through the proposer path
					m = "LONG"
				}
			}
			extra := ""
			if r.Chance(1, 2) {
				extra = fmt.Sprintf(" to=%d amt=%d", r.Intn(ns), r.Intn(2000))
			}
			ops = append(ops, fmt.Sprintf("sign %s %d tx A %d %s %d %s%s", n, si, nonce[si], fa, fg, m, extra), "submit "+n+" 1")
			if strings.HasPrefix(m, "staking.") {
				nonce[si]++
				accepted = append(accepted, n)
			}
			all = append(all, n)
			bySigner[si] = append(bySigner[si], n)
			res.Count("mux:gen:fresh")
		case k < 40 && len(accepted) > 0:
			ops = append(ops, "submit "+accepted[r.Intn(len(accepted))]+" 1")
			res.Count("mux:gen:replay")
		case k < 47:
			n := mk()
			d := uint64(1 + r.Intn(3))
			nn := nonce[si] + d
			if r.Bool() {
				nn = nonce[si] - d
			}
			ops = append(ops, fmt.Sprintf("sign %s %d tx A %d %s %d staking.Transfer", n, si, nn, fa, fg), "submit "+n+" 1")
			all = append(all, n)
			res.Count("mux:gen:reordered")
		case k < 54:
			n := mk()
			cx := fmt.Sprintf("o%d", r.Intn(len(otherContexts)))
			if r.Chance(1, 3) {
				cx = fmt.Sprintf("d%d", r.Intn(len(dynContexts)))
			}
			ops = append(ops, fmt.Sprintf("sign %s %d %s A %d %s %d staking.Transfer", n, si, cx, nonce[si], fa, fg), "submit "+n+" 1")
			res.Count("mux:gen:cross-context")
		case k < 60:
			n := mk()
			ops = append(ops, fmt.Sprintf("sign %s %d tx B %d %s %d staking.Transfer", n, si, nonce[si], fa, fg), "submit "+n+" 1")
			res.Count("mux:gen:cross-chain")
		case k < 63 && ns > 1:
			n := mk()
			ops = append(ops, fmt.Sprintf("sign %s %d tx A %d %s %d staking.Transfer wrongpk %d", n, si, nonce[(si+1)%ns], fa, fg, (si+1)%ns), "submit "+n+" 1")
			res.Count("mux:gen:wrong-signer")
		case k < 72:
			n := mk()
			ops = append(ops, fmt.Sprintf("sign %s %d tx A %d %s %d staking.Transfer", n, si, nonce[si], fa, fg))
			nflips := 5
			if flipAll {
				nflips = 8 * 260
				flipAll = false
			}
			for j := 0; j < nflips; j++ {
				fn := mk()
				bit := r.Intn(8 * 260)
				if nflips > 5 {
					bit = j
				}
				ops = append(ops, fmt.Sprintf("flip %s %s %d", fn, n, bit), "submit "+fn+" 1")
			}
			ops = append(ops, "submit "+n+" 1")
			nonce[si]++
			accepted = append(accepted, n)
			res.Count("mux:gen:bitflip-group")
		case k < 76:
			n := mk()
			if len(all) > 0 && r.Bool() {
				ops = append(ops, fmt.Sprintf("trunc %s %s %d", n, all[r.Intn(len(all))], r.Intn(300)))
			} else {
				ops = append(ops, fmt.Sprintf("raw %s %s", n, hx([]byte(randBytes(r, 1+r.Intn(300), hexAlpha+"\xa2\x00\xff")))))
			}
			ops = append(ops, "submit "+n+" 1")
			res.Count("mux:gen:garbage")
		case k < 82 && len(all) > 0:
			ops = append(ops, "check "+all[r.Intn(len(all))])
			res.Count("mux:gen:checktx+estimategas")
		case k < 88:
			drain()
			inBlock = 0
			continue
		default:
			ops = append(ops, "commit")
			inBlock = 0
			res.Count("mux:gen:commit")
			if disk && r.Chance(1, 3) {
				ops = append(ops, "restart")
				res.Count("mux:gen:restart")
			}
			continue
		}
		inBlock++
	}
	if drains == 0 && r.Chance(2, 3) {
		drain()
	}
	ops = append(ops, "commit", "restart")
	for _, n := range accepted {
		ops = append(ops, "submit "+n+" 1")
	}
	ops = append(ops, "commit")
	_ = inBlock
	return ops
}

// muxStage generates and checks the mux streams.
func muxStage(r *hlib.Rng, cases int, nops int, flipAll int, res *hlib.Result, runOne func(ops []string, cs uint64, minimize bool)) {
	for i := 0; i < cases; i++ {
		cr := r.Fork()
		cs := cr.Seed()
		// every 8th stream runs on an on-disk database and restarts both replicas between blocks
		ops := genMuxCase(cr, 10+cr.Intn(nops), i < flipAll, i%8 == 7, res)
		c := res.Counters
		a0, r0, f0 := c["mux:class:ok"]+c["mux:class:failed"], c["mux:class:bad-sig"]+c["mux:class:auth:invalid-nonce"], len(res.Failures)
		runOne(ops, cs, true)
		if c["mux:class:ok"]+c["mux:class:failed"] > a0 && c["mux:class:bad-sig"]+c["mux:class:auth:invalid-nonce"] > r0 && len(res.Failures) == f0 {
			res.Distinct++ // streams are generated from distinct seeds; non-trivial: one authenticated and one rejected
		}
		if i == 0 {
			lines, _, _ := runImpl(ops, hlib.NewResult("scratch", 0))
			if len(lines) > 10 {
				lines = lines[:10]
			}
			res.AddSample(lines)
		}
		if len(res.Failures) >= 8 {
			break
		}
	}
}
