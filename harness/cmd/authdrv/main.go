// authdrv: correspondence between oasis-core's signature-context / transaction-authentication code
// and the Lean model `om_auth` (property C09).
//
// What runs for real (in-process, build tag verif):
//   - the context registry of go/common/crypto/signature (NewContext, WithSuffix,
//     PrepareSignerContext, PrepareSignerMessage), read through export_verif.go;
//   - Ed25519 signing with memory signers and signature verification
//     (transaction.Sign, signature.SignSigned, SignedTransaction.Open, Signature.Verify);
//   - stakingState.AuthenticateAndPayFees on the mock application state.
//
// The steps of abci decodeTx/processTx between those calls (size limit, envelope decode, Open,
// SanityCheck, method routing) are replayed here in the same order by `pipeline`; the `-mux` stage (see
// mux.go) additionally drives the real ABCI mux.
package main

import (
	"crypto/sha512"
	"encoding/hex"
	"errors"
	"flag"
	"fmt"
	"math"
	"math/big"
	"os"
	"sort"
	"strconv"
	"strings"

	"verifharness/hlib"

	"github.com/oasisprotocol/oasis-core/go/common"
	"github.com/oasisprotocol/oasis-core/go/common/cbor"
	"github.com/oasisprotocol/oasis-core/go/common/crypto/hash"
	"github.com/oasisprotocol/oasis-core/go/common/crypto/signature"
	memorySigner "github.com/oasisprotocol/oasis-core/go/common/crypto/signature/signers/memory"
	"github.com/oasisprotocol/oasis-core/go/common/logging"
	"github.com/oasisprotocol/oasis-core/go/common/node"
	"github.com/oasisprotocol/oasis-core/go/common/quantity"
	consensus "github.com/oasisprotocol/oasis-core/go/consensus/api"
	"github.com/oasisprotocol/oasis-core/go/consensus/api/transaction"
	abciAPI "github.com/oasisprotocol/oasis-core/go/consensus/cometbft/api"
	stakingState "github.com/oasisprotocol/oasis-core/go/consensus/cometbft/apps/staking/state"
	_ "github.com/oasisprotocol/oasis-core/go/consensus/cometbft/crypto"
	genesis "github.com/oasisprotocol/oasis-core/go/genesis/api"
	_ "github.com/oasisprotocol/oasis-core/go/keymanager/churp"
	"github.com/oasisprotocol/oasis-core/go/keymanager/secrets"
	_ "github.com/oasisprotocol/oasis-core/go/p2p/api"
	registry "github.com/oasisprotocol/oasis-core/go/registry/api"
	"github.com/oasisprotocol/oasis-core/go/roothash/api/commitment"
	_ "github.com/oasisprotocol/oasis-core/go/runtime/rofl/api"
	staking "github.com/oasisprotocol/oasis-core/go/staking/api"
)

func hx(b []byte) string {
	if len(b) == 0 {
		return "-"
	}
	return hex.EncodeToString(b)
}

func unhx(s string) []byte {
	if s == "-" {
		return nil
	}
	b, err := hex.DecodeString(s)
	if err != nil {
		panic("bad hex in op: " + s)
	}
	return b
}

func atoi(s string) int {
	v, err := strconv.Atoi(s)
	if err != nil {
		panic("bad number in op: " + s)
	}
	return v
}

func atou(s string) uint64 {
	v, err := strconv.ParseUint(s, 10, 64)
	if err != nil {
		panic("bad number in op: " + s)
	}
	return v
}

func b01(b bool) string {
	if b {
		return "1"
	}
	return "0"
}

// ---------------------------------------------------------------------------------------------
// Stage 1: the context registry.

// otherContexts are registered contexts other than the transaction context that the
// cross-context cases sign with (index used in ops).
var otherContexts = []signature.Context{
	registry.RegisterEntitySignatureContext,
	registry.RegisterNodeSignatureContext,
	node.AttestationSignatureContext,
	secrets.PolicySGXSignatureContext,
	commitment.ComputeResultsHeaderSignatureContext,
}

// dynContexts are the chain-separated dynamic-suffix contexts.
var dynContexts = []signature.Context{
	commitment.ProposalSignatureContext,
	commitment.ProposalBatchSignatureContext,
	commitment.ExecutorSignatureContext,
}

func regLine(c signature.VerifContextInfo) string {
	return fmt.Sprintf("%s %s %s %d", hx([]byte(c.Context)), b01(c.ChainSeparation), hx([]byte(c.DynamicSuffix)), c.DynamicSuffixMaxLen)
}

func setChain(c string) {
	signature.UnsafeResetChainContext()
	if c != "" {
		signature.SetChainContext(c)
	}
}

func randBytes(r *hlib.Rng, n int, alphabet string) string {
	b := make([]byte, n)
	for i := range b {
		b[i] = alphabet[r.Intn(len(alphabet))]
	}
	return string(b)
}

const hexAlpha = "0123456789abcdef"

// ctxStage produces the registry dump and generated NewContext / PrepareSignerContext cases.
// It must run before any WithSuffix call of the transaction stage (WithSuffix registers derived contexts).
func ctxStage(r *hlib.Rng, n int, res *hlib.Result) (lines []string, goFailures []hlib.Failure) {
	regs := signature.VerifRegisteredContexts()
	sort.Slice(regs, func(i, j int) bool { return regs[i].Context < regs[j].Context })
	for _, c := range regs {
		lines = append(lines, "reg "+regLine(c))
		res.Count("ctx:registered")
	}
	lines = append(lines, "regdone")

	prep := func(c signature.VerifContextInfo, suffix *string, chain string) {
		setChain(chain)
		ctx := signature.Context(c.Context)
		var err error
		sfx := "none"
		if suffix != nil {
			sfx = hx([]byte(*suffix))
			if *suffix == "" {
				sfx = "-"
			}
			ctx, err = ctx.WithSuffix(*suffix)
		}
		var out string
		var raw []byte
		if err == nil {
			raw, err = signature.PrepareSignerContext(ctx)
		}
		switch {
		case err == nil:
			out = hx(raw)
			res.Count("prep:ok")
			// The digest glue: PrepareSignerMessage = SHA-512/256(context ‖ message).
			msg := []byte(randBytes(r, r.Intn(40), hexAlpha+" for chain "))
			got, err2 := signature.PrepareSignerMessage(ctx, msg)
			want := sha512.Sum512_256(append(append([]byte{}, raw...), msg...))
			if err2 != nil || string(got) != string(want[:]) {
				goFailures = append(goFailures, hlib.Failure{Kind: "spec", Sig: "spec-sign-input",
					Detail: fmt.Sprintf("PrepareSignerMessage(%q) is not SHA-512/256(context||message)", string(ctx))})
			}
			res.Count("prep:digest-checked")
		case strings.Contains(err.Error(), "suffix not configured"):
			out = "err:no-suffix-configured"
		case strings.Contains(err.Error(), "suffix too long"):
			out = "err:suffix-too-long"
		case strings.Contains(err.Error(), "dynamic context suffix not set"):
			out = "err:no-dynamic-suffix"
		case strings.Contains(err.Error(), "chain domain separation context not set"):
			out = "err:no-chain-context"
		default:
			out = "err:other:" + strings.ReplaceAll(err.Error(), " ", "_")
		}
		if strings.HasPrefix(out, "err:") {
			res.Count("prep:" + out)
		}
		lines = append(lines, fmt.Sprintf("prep %s %s %s %s", regLine(c), sfx, hx([]byte(chain)), out))
	}
	// Every registered context: plain use, suffixed use, with and without a chain context.
	for _, c := range regs {
		chain := randBytes(r, 64, hexAlpha)
		s64 := randBytes(r, 64, hexAlpha)
		prep(c, nil, chain)
		prep(c, nil, "")
		prep(c, &s64, chain)
		prep(c, &s64, "")
	}
	for i := 0; i < n; i++ {
		c := regs[r.Intn(len(regs))]
		chain := ""
		switch r.Intn(6) {
		case 0:
		case 1:
			chain = randBytes(r, 1+r.Intn(64), hexAlpha+" forchain")
		default:
			chain = randBytes(r, 64, hexAlpha)
		}
		if r.Chance(1, 3) {
			prep(c, nil, chain)
			continue
		}
		var s string
		switch r.Intn(5) {
		case 0:
			s = ""
		case 1:
			s = randBytes(r, c.DynamicSuffixMaxLen+1+r.Intn(3), hexAlpha)
		case 2:
			s = randBytes(r, r.Intn(c.DynamicSuffixMaxLen+1), hexAlpha+" for chain ")
		default:
			s = randBytes(r, 64, hexAlpha)
		}
		prep(c, &s, chain)
	}
	// Failing-input search on the real code, independent of the Lean obligation: for every ordered pair of
	// registered contexts whose effective strings are prefix-related, a signature made under the longer one
	// over m verifies under the shorter one over (rest ‖ m). With a prefix-free table no pair qualifies.
	{
		chain := randBytes(r, 64, hexAlpha)
		setChain(chain)
		var rt common.Namespace
		type eff struct {
			ctx signature.Context
			raw []byte
		}
		var effs []eff
		for _, c := range regs {
			ctx := signature.Context(c.Context)
			if c.DynamicSuffix != "" {
				var err error
				if ctx, err = ctx.WithSuffix(rt.String()); err != nil {
					continue
				}
			}
			if raw, err := signature.PrepareSignerContext(ctx); err == nil {
				effs = append(effs, eff{ctx, raw})
			}
		}
		signer, _ := memorySigner.NewFromSeed([]byte(randBytes(r, 32, hexAlpha)))
		for i, a := range effs {
			for j, b := range effs {
				res.Count("ctx:pairs-checked")
				if i == j || !strings.HasPrefix(string(b.raw), string(a.raw)) {
					continue
				}
				m := []byte("verif message")
				sig, err := signature.Sign(signer, b.ctx, m)
				if err != nil {
					continue
				}
				forged := append(append([]byte{}, b.raw[len(a.raw):]...), m...)
				if signer.Public().Verify(a.ctx, forged, sig.Signature[:]) {
					goFailures = append(goFailures, hlib.Failure{Kind: "spec", Sig: "spec-cross-context-replay",
						Detail: fmt.Sprintf("contexts %q and %q are prefix-related: a signature made under %q over %q verifies under %q over %q", string(a.raw), string(b.raw), string(b.raw), string(m), string(a.raw), string(forged)),
						Case:   []string{"# see detail: real ContextSign + Verify on the two registered contexts"}})
				}
			}
		}
		setChain("")
	}
	// NewContext on fresh strings (each registers for the rest of the process; done last).
	for i := 0; i < n/4+8; i++ {
		var raw string
		switch r.Intn(8) {
		case 0:
			raw = ""
		case 1:
			raw = "verif " + randBytes(r, r.Intn(20), hexAlpha) + " for chain " + randBytes(r, r.Intn(5), hexAlpha)
		case 2:
			raw = "verif long " + randBytes(r, 150+r.Intn(110), hexAlpha)
		case 3:
			raw = regs[r.Intn(len(regs))].Context // duplicate
		default:
			raw = "verif ctx " + randBytes(r, 1+r.Intn(30), hexAlpha+" :/")
		}
		c := signature.VerifContextInfo{Context: raw, ChainSeparation: r.Bool()}
		var opts []signature.ContextOption
		if c.ChainSeparation {
			opts = append(opts, signature.WithChainSeparation())
		}
		if r.Chance(1, 3) {
			c.DynamicSuffix = " for " + randBytes(r, 1+r.Intn(8), hexAlpha) + " "
			c.DynamicSuffixMaxLen = r.Intn(130)
			opts = append(opts, signature.WithDynamicSuffix(c.DynamicSuffix, c.DynamicSuffixMaxLen))
		}
		out := "ok"
		func() {
			defer func() {
				if recover() != nil {
					out = "panic"
				}
			}()
			signature.NewContext(raw, opts...)
		}()
		res.Count("newctx:" + out)
		lines = append(lines, fmt.Sprintf("newctx %s %s", regLine(c), out))
		if out == "ok" {
			regs = append(regs, c)
		}
	}
	return
}

// ---------------------------------------------------------------------------------------------
// Stage 2: transaction streams.

type world struct {
	res      *hlib.Result
	appState abciAPI.MockApplicationState
	chainA   string
	chainB   string
	signers  []signature.Signer
	idx      map[signature.PublicKey]int
	nextIdx  int
	raws     map[string][]byte // tx name -> raw bytes
	origin   map[string]string // tx name -> how it was made (fresh, xctx, xchain, flip:<orig>, ...)
	maxTx    uint64
	fails    []hlib.Failure
	// identity of honestly signed transaction envelopes for this chain: hex(pk|sig|blob)
	honest map[string]bool
	mw     *muxWorld // non-nil: the stream runs through the real ABCI mux (mux.go)
}

func (w *world) signerIdx(pk signature.PublicKey) int {
	if i, ok := w.idx[pk]; ok {
		return i
	}
	// unknown keys (bit-flipped envelopes) get fresh indices
	w.nextIdx++
	w.idx[pk] = 1000 + w.nextIdx
	return w.idx[pk]
}

func (w *world) signer(i int) signature.Signer {
	if i < 0 || i >= len(w.signers) {
		return nil
	}
	return w.signers[i]
}

func qstr(q *quantity.Quantity) string { return q.ToBigInt().String() }

func (w *world) account(pk signature.PublicKey) (nonce uint64, bal string) {
	if staking.NewAddress(pk).IsReserved() {
		return 0, "0" // the state refuses to read reserved accounts
	}
	ctx := w.appState.NewContext(abciAPI.ContextEndBlock)
	defer ctx.Close()
	st := stakingState.NewMutableState(ctx.State())
	a, err := st.Account(ctx, staking.NewAddress(pk))
	if err != nil {
		panic(err)
	}
	return a.General.Nonce, qstr(&a.General.Balance)
}

func authClass(err error) string {
	switch {
	case err == nil:
		return "ok"
	case errors.Is(err, transaction.ErrInvalidNonce):
		return "auth:invalid-nonce"
	case errors.Is(err, staking.ErrBalanceTooLow):
		return "auth:balance-too-low"
	case errors.Is(err, transaction.ErrGasPriceTooLow):
		return "auth:gas-price-too-low"
	case strings.Contains(err.Error(), "reserved account address"):
		return "auth:reserved"
	}
	return "auth:other:" + strings.ReplaceAll(err.Error(), " ", "_")
}

func methodKind(m transaction.MethodName) string {
	if _, ok := consensus.SystemMethods[m]; ok {
		return "s"
	}
	if m.BodyType() == nil {
		return "u"
	}
	if m.IsCritical() {
		return "c"
	}
	return "n"
}

func feeOf(tx *transaction.Transaction) (amt string, gas uint64) {
	if tx.Fee == nil {
		return "0", 0
	}
	return qstr(&tx.Fee.Amount), uint64(tx.Fee.Gas)
}

// pipeline replays abci decodeTx + processTx (DeliverTx mode) on the raw bytes with the real
// decoding, verification and AuthenticateAndPayFees, and returns the annotated `tx` line.
func (w *world) pipeline(name string, ho bool) string {
	raw := w.raws[name]
	id := hash.NewFromBytes(raw)
	var (
		sigTx         transaction.SignedTransaction
		tx            transaction.Transaction
		env, sg, txok bool
		cls           string
		signer        int
		nb, na        uint64
		bb, ba        = "0", "0"
		kind          = "n"
		famt, fgas    = "0", uint64(0)
		nonce         uint64
	)
	envErr := cbor.Unmarshal(raw, &sigTx)
	env = envErr == nil
	if env {
		signer = w.signerIdx(sigTx.Signature.PublicKey)
		nb, bb = w.account(sigTx.Signature.PublicKey)
		// The verdict the model consumes: the real verification of exactly these bytes.
		sg = sigTx.Signature.Verify(transaction.SignatureContext, sigTx.Blob)
		var probe transaction.Transaction
		if cbor.Unmarshal(sigTx.Blob, &probe) == nil {
			txok = probe.SanityCheck() == nil
			nonce = probe.Nonce
			famt, fgas = feeOf(&probe)
			kind = methodKind(probe.Method)
		}
	}
	// --- decodeTx order
	switch {
	case w.maxTx > 0 && uint64(len(raw)) > w.maxTx:
		cls = "oversized"
	case envErr != nil:
		cls = "malformed"
	default:
		err := sigTx.Open(&tx) // real: verify, then unmarshal blob
		switch {
		case errors.Is(err, signature.ErrVerifyFailed):
			cls = "bad-sig"
		case err != nil:
			cls = "bad-tx"
		case tx.SanityCheck() != nil:
			cls = "bad-tx"
		default:
			// --- processTx order
			switch kind {
			case "s":
				cls = "system"
			case "u":
				cls = "no-app"
			default:
				ctx := w.appState.NewContext(abciAPI.ContextDeliverTx)
				err := stakingState.AuthenticateAndPayFees(ctx, sigTx.Signature.PublicKey, tx.Nonce, tx.Fee)
				ctx.Close()
				switch {
				case err != nil:
					cls = authClass(err)
				case ho:
					cls = "ok"
				default:
					cls = "failed"
				}
			}
		}
	}
	if env {
		na, ba = w.account(sigTx.Signature.PublicKey)
	}
	w.res.Count("class:" + cls)
	// Executable clause evaluated on the implementation alone: a transaction that passed
	// authentication must be an honestly signed envelope for this chain (pk, sig, blob identical).
	if cls == "ok" || cls == "failed" {
		key := hx(sigTx.Signature.PublicKey[:]) + "|" + hx(sigTx.Signature.Signature[:]) + "|" + hx(sigTx.Blob)
		if !w.honest[key] {
			w.fails = append(w.fails, hlib.Failure{Kind: "spec", Sig: "spec-forged-tx-authenticated",
				Detail: fmt.Sprintf("tx %s (%s) was authenticated but its (key, signature, blob) was never signed as a transaction for this chain", name, w.origin[name])})
		} else if o := w.origin[name]; strings.HasPrefix(o, "flip:") {
			// The (key, signature, blob) triple is intact but the raw bytes differ from what was signed
			// and submitted: the envelope encoding is malleable.
			w.res.Count("flip:envelope-malleable-accepted")
			w.fails = append(w.fails, hlib.Failure{Kind: "spec", Sig: "spec-envelope-malleable",
				Detail: fmt.Sprintf("tx %s (%s, %d bytes) differs from the signed original in one bit, yet decodes to the same (key, signature, blob) and was authenticated (class %s): the envelope encoding is malleable (property text: a transaction altered in any bit never takes effect)", name, o, len(raw), cls)})
		}
	}
	if sg && env {
		key := hx(sigTx.Signature.PublicKey[:]) + "|" + hx(sigTx.Signature.Signature[:]) + "|" + hx(sigTx.Blob)
		if !w.honest[key] {
			w.fails = append(w.fails, hlib.Failure{Kind: "spec", Sig: "spec-foreign-signature-verified",
				Detail: fmt.Sprintf("tx %s (%s): signature verified under the transaction context of this chain although it was not made for it", name, w.origin[name])})
		}
	}
	o := w.origin[name]
	if i := strings.IndexByte(o, ':'); i >= 0 {
		o = o[:i]
	}
	w.res.Count("origin:" + o + ":sig=" + b01(sg))
	return fmt.Sprintf("tx %s %d %s %s %s %d %d %s %d %s %s %s %d %d %s %s",
		id.Hex(), len(raw), b01(env), b01(sg), b01(txok), signer, nonce, famt, fgas, kind, b01(ho), cls, nb, na, bb, ba)
}

func (w *world) authDirect(mode string, si int, nonce uint64, famt string, fgas uint64, reservedPK *signature.PublicKey) string {
	var pk signature.PublicKey
	var idx int
	if reservedPK != nil {
		pk, idx = *reservedPK, 999
	} else {
		pk, idx = w.signers[si].Public(), si
	}
	var m abciAPI.ContextMode
	switch mode {
	case "d":
		m = abciAPI.ContextDeliverTx
	case "c":
		m = abciAPI.ContextCheckTx
	default:
		m = abciAPI.ContextSimulateTx
	}
	fee := &transaction.Fee{Gas: transaction.Gas(fgas)}
	n, _ := new(big.Int).SetString(famt, 10)
	_ = fee.Amount.FromBigInt(n)
	var feeArg *transaction.Fee = fee
	if famt == "0" && fgas == 0 {
		feeArg = nil // exercises the nil-fee branch
	}
	nb, bb := w.account(pk)
	ctx := w.appState.NewContext(m)
	err := stakingState.AuthenticateAndPayFees(ctx, pk, nonce, feeArg)
	if mode != "s" {
		ctx.Close() // closing a simulation context would close the shared mock tree
	}
	na, ba := w.account(pk)
	dctx := w.appState.NewContext(abciAPI.ContextDeliverTx)
	facc := stakingState.BlockFees(dctx)
	dctx.Close()
	cls := authClass(err)
	w.res.Count("auth:" + mode + ":" + cls)
	return fmt.Sprintf("auth %s %d %d %s %d %s %d %d %s %s %s", mode, idx, nonce, famt, fgas, cls, nb, na, bb, ba, qstr(&facc))
}

// transferTo is the (non-reserved) recipient of every generated transfer.
var (
	transferPK = memorySigner.NewTestSigner("verif authdrv recipient").Public()
	transferTo = staking.NewAddress(transferPK)
)

var reservedPK = func() signature.PublicKey {
	// the public key behind staking.CommonPoolAddress (staking/api/address.go)
	var pk signature.PublicKey
	if err := pk.UnmarshalHex("1abe11edc001ffffffffffffffffffffffffffffffffffffffffffffffffffff"); err != nil {
		panic(err)
	}
	return pk
}()

// runImpl executes a case (list of ops) on the real code and returns the lines for the model.
//
// ops:
//
//	world <chainA> <chainB> <minTransactBalance> <maxTxSize> <localMinGasPrice>
//	signer <i> <seedhex> <nonce> <balance>
//	sign <name> <i> <ctx> <chain A|B> <nonce> <feeAmt> <feeGas> <method> [wrongpk <j>]
//	     ctx: tx | o<k> (otherContexts[k]) | d<k> (dynContexts[k] with a runtime id suffix)
//	flip <name> <orig> <bit>      raw <name> <hex>      trunc <name> <orig> <len>
//	submit <name> <handlerOk>
//	auth <mode> <i|R> <nonce> <feeAmt> <feeGas>
//	setbal <i> <balance>
func runImpl(ops []string, res *hlib.Result) (lines []string, fails []hlib.Failure, panicked string) {
	var w *world
	defer func() {
		if w != nil && w.mw != nil {
			if w.mw.p != nil {
				w.mw.p.close()
			}
			if w.mw.v != nil {
				w.mw.v.close()
			}
		}
	}()
	for _, op := range ops {
		f := strings.Fields(op)
		var out []string
		func() {
			defer func() {
				if r := recover(); r != nil {
					panicked = fmt.Sprintf("%s: %v", op, r)
					switch f[0] {
					case "submit":
						out = []string{"tx 00 0 0 0 0 0 0 0 0 n 0 PANIC 0 0 0 0"}
					default:
						out = []string{"auth d 0 0 0 0 PANIC 0 0 0 0 0"}
					}
				}
			}()
			switch f[0] {
			case "world":
				w = &world{res: res, chainA: f[1], chainB: f[2], idx: map[signature.PublicKey]int{},
					raws: map[string][]byte{}, origin: map[string]string{}, honest: map[string]bool{}, maxTx: atou(f[4])}
				var lmgp quantity.Quantity
				_ = lmgp.FromUint64(atou(f[5]))
				w.appState = abciAPI.NewMockApplicationState(&abciAPI.MockApplicationStateConfig{MinGasPrice: &lmgp})
				ctx := w.appState.NewContext(abciAPI.ContextInitChain)
				st := stakingState.NewMutableState(ctx.State())
				var mtb quantity.Quantity
				_ = mtb.FromUint64(atou(f[3]))
				if err := st.SetConsensusParameters(ctx, &staking.ConsensusParameters{MinTransactBalance: mtb}); err != nil {
					panic(err)
				}
				ctx.Close()
				setChain(w.chainA)
				out = []string{fmt.Sprintf("params %s %s %s - 999", f[3], f[4], f[5])}
			case "mworld":
				w = &world{res: res, chainB: f[2], idx: map[signature.PublicKey]int{},
					raws: map[string][]byte{}, origin: map[string]string{}, honest: map[string]bool{}, maxTx: atou(f[4])}
				w.mw = &muxWorld{res: res, seed: unhx(f[1]), mtb: atou(f[3]), maxTx: atou(f[4]), minGasPx: atou(f[5]), disk: len(f) > 6 && f[6] == "1"}
			case "init":
				if w.mw == nil || w.mw.p != nil {
					return
				}
				out = w.mw.init(w)
			case "commit":
				if w.mw == nil || w.mw.p == nil {
					return
				}
				out = w.mw.commitBlock(w)
			case "check":
				if w.mw == nil || w.mw.p == nil || len(w.raws[f[1]]) == 0 {
					return
				}
				out = w.mw.checkAndSimulate(w, f[1])
			case "restart":
				// a process restart between blocks: queued (uncommitted) transactions are lost
				if w.mw == nil || w.mw.p == nil || w.mw.height == 0 || !w.mw.disk {
					return
				}
				w.mw.queue = nil
				w.mw.p = w.mw.p.restart(w.mw.seed, w.mw.doc)
				w.mw.v = w.mw.v.restart(w.mw.seed, w.mw.doc)
				res.Count("mux:restarts")
				out = []string{"restart"}
			case "signer":
				if w.mw != nil {
					if w.mw.p == nil {
						w.mw.pending = append(w.mw.pending, op)
					}
					return
				}
				s, err := memorySigner.NewFromSeed(unhx(f[2]))
				if err != nil {
					panic(err)
				}
				i := atoi(f[1])
				for len(w.signers) <= i {
					w.signers = append(w.signers, nil)
				}
				w.signers[i] = s
				w.idx[s.Public()] = i
				ctx := w.appState.NewContext(abciAPI.ContextInitChain)
				st := stakingState.NewMutableState(ctx.State())
				var acct staking.Account
				acct.General.Nonce = atou(f[3])
				n, _ := new(big.Int).SetString(f[4], 10)
				_ = acct.General.Balance.FromBigInt(n)
				if err := st.SetAccount(ctx, staking.NewAddress(s.Public()), &acct); err != nil {
					panic(err)
				}
				ctx.Close()
				out = []string{fmt.Sprintf("acct %d %s %s", i, f[3], f[4])}
			case "setbal":
				i := atoi(f[1])
				if w.signer(i) == nil || w.mw != nil {
					return
				}
				ctx := w.appState.NewContext(abciAPI.ContextEndBlock)
				st := stakingState.NewMutableState(ctx.State())
				addr := staking.NewAddress(w.signers[i].Public())
				a, err := st.Account(ctx, addr)
				if err != nil {
					panic(err)
				}
				n, _ := new(big.Int).SetString(f[2], 10)
				_ = a.General.Balance.FromBigInt(n)
				if err := st.SetAccount(ctx, addr, a); err != nil {
					panic(err)
				}
				ctx.Close()
				out = []string{op}
			case "sign":
				name, si, cx, chain := f[1], atoi(f[2]), f[3], f[4]
				if w.signer(si) == nil {
					return
				}
				wrongPK := -1
				for i, tok := range f {
					if tok == "wrongpk" && i+1 < len(f) {
						wrongPK = atoi(f[i+1])
					}
				}
				if wrongPK >= 0 && w.signer(wrongPK) == nil {
					return
				}
				fee := &transaction.Fee{Gas: transaction.Gas(atou(f[7]))}
				n, _ := new(big.Int).SetString(f[6], 10)
				_ = fee.Amount.FromBigInt(n)
				if f[6] == "0" && f[7] == "0" {
					fee = nil
				}
				method := f[8]
				if method == "EMPTY" {
					method = ""
				}
				if method == "LONG" {
					method = "foo." + strings.Repeat("x", 400)
				}
				// optional trailing tokens: to=<signer index>  amt=<n|ALL>  wrongpk <j>
				// (ALL = the signer's committed balance minus the fee: drains the account to exactly zero);
				// nonce CUR = the signer's committed nonce at signing time.
				to, amt := transferTo, new(big.Int)
				amtAll := false
				for _, tok := range f[9:] {
					switch {
					case strings.HasPrefix(tok, "to="):
						if t := w.signer(atoi(tok[3:])); t != nil {
							to = staking.NewAddress(t.Public())
						}
					case tok == "amt=ALL":
						amtAll = true
					case strings.HasPrefix(tok, "amt="):
						amt.SetString(tok[4:], 10)
					}
				}
				var curNonce uint64
				if f[5] == "CUR" || amtAll {
					var bal string
					if w.mw != nil && w.mw.v != nil {
						curNonce, bal = w.mw.committed(w.mw.v, w.signers[si].Public())
					} else if w.mw == nil {
						curNonce, bal = w.account(w.signers[si].Public())
					}
					if amtAll {
						amt.SetString(bal, 10)
						if amt.Cmp(n) >= 0 {
							amt.Sub(amt, n)
						}
					}
				}
				txNonce := curNonce
				if f[5] != "CUR" {
					txNonce = atou(f[5])
				}
				var body any
				var q quantity.Quantity
				_ = q.FromBigInt(amt)
				switch method {
				case "staking.Burn":
					body = &staking.Burn{Amount: q}
				default:
					body = &staking.Transfer{To: to, Amount: q}
				}
				tx := &transaction.Transaction{Nonce: txNonce, Fee: fee, Method: transaction.MethodName(method),
					Body: cbor.Marshal(body)}
				if chain == "B" {
					setChain(w.chainB)
				}
				sctx := transaction.SignatureContext
				switch cx[0] {
				case 'o':
					sctx = otherContexts[atoi(cx[1:])%len(otherContexts)]
				case 'd':
					var rt common.Namespace
					var err error
					sctx, err = dynContexts[atoi(cx[1:])%len(dynContexts)].WithSuffix(rt.String())
					if err != nil {
						panic(err)
					}
				}
				signed, err := signature.SignSigned(w.signers[si], sctx, tx)
				setChain(w.chainA)
				if err != nil {
					panic(err)
				}
				origin := "fresh"
				switch {
				case cx != "tx" && chain == "B":
					origin = "xctx-xchain"
				case cx != "tx":
					origin = "xctx"
				case chain == "B":
					origin = "xchain"
				}
				if wrongPK >= 0 {
					signed.Signature.PublicKey = w.signers[wrongPK].Public()
					origin = "wrongpk"
				}
				if origin == "fresh" {
					w.honest[hx(signed.Signature.PublicKey[:])+"|"+hx(signed.Signature.Signature[:])+"|"+hx(signed.Blob)] = true
				}
				w.raws[name] = cbor.Marshal(&transaction.SignedTransaction{Signed: *signed})
				w.origin[name] = origin
			case "flip":
				o := w.raws[f[2]]
				if len(o) == 0 {
					return
				}
				b := append([]byte{}, o...)
				bit := atoi(f[3]) % (8 * len(b))
				b[bit/8] ^= 1 << (bit % 8)
				w.raws[f[1]] = b
				w.origin[f[1]] = "flip:" + f[2]
			case "trunc":
				o := w.raws[f[2]]
				if len(o) == 0 {
					return
				}
				w.raws[f[1]] = append([]byte{}, o[:atoi(f[3])%(len(o)+1)]...)
				w.origin[f[1]] = "trunc:" + f[2]
			case "raw":
				w.raws[f[1]] = unhx(f[2])
				w.origin[f[1]] = "garbage"
			case "submit":
				if _, ok := w.raws[f[1]]; !ok {
					return // shrunk away
				}
				if w.mw != nil {
					if w.mw.p != nil {
						w.mw.queue = append(w.mw.queue, f[1])
					}
					return
				}
				out = []string{w.pipeline(f[1], f[2] == "1")}
			case "auth":
				if w.mw != nil {
					return
				}
				if f[2] == "R" {
					out = []string{w.authDirect(f[1], 0, atou(f[3]), f[4], atou(f[5]), &reservedPK)}
				} else if w.signer(atoi(f[2])) == nil {
					return
				} else {
					out = []string{w.authDirect(f[1], atoi(f[2]), atou(f[3]), f[4], atou(f[5]), nil)}
				}
			default:
				panic("unknown op " + op)
			}
		}()
		lines = append(lines, out...)
		if panicked != "" {
			break
		}
	}
	if w != nil && panicked == "" {
		w.batchCheck()
	}
	if w != nil {
		fails = w.fails
	}
	return
}

// batchCheck: the exported batch entry point transaction.OpenRawTransactions (Ed25519 batch verification)
// must give, for every raw transaction of the stream, the verdict of the single-signature path
// (cbor.Unmarshal + SignedTransaction.Open) that DeliverTx uses.
func (w *world) batchCheck() {
	if len(w.raws) == 0 {
		return
	}
	names := hlib.SortedKeys(w.raws)
	raws := make([][]byte, len(names))
	for i, n := range names {
		raws[i] = w.raws[n]
	}
	func() {
		defer func() {
			if r := recover(); r != nil {
				w.fails = append(w.fails, hlib.Failure{Kind: "panic", Sig: "panic-batch-open",
					Detail: fmt.Sprintf("tx %s OpenRawTransactions panicked: %v", names[0], r)})
			}
		}()
		_, txs, errs := transaction.OpenRawTransactions(raws)
		for i, raw := range raws {
			var sigTx transaction.SignedTransaction
			var tx transaction.Transaction
			single := cbor.Unmarshal(raw, &sigTx) == nil && sigTx.Open(&tx) == nil
			batch := errs[i] == nil && txs[i] != nil
			w.res.Count("batch-open:checked")
			if single != batch {
				w.fails = append(w.fails, hlib.Failure{Kind: "spec", Sig: "spec-batch-verify-differs",
					Detail: fmt.Sprintf("tx %s (%s): single-signature path accepts=%v, OpenRawTransactions accepts=%v", names[i], w.origin[names[i]], single, batch)})
			}
		}
	}()
}

func check(ops []string, res *hlib.Result) (detail string, nlines int, fails []hlib.Failure) {
	lines, fails, panicked := runImpl(ops, res)
	if panicked != "" {
		return "panicked: " + panicked, len(lines), fails
	}
	ans, err := hlib.RunModel("auth", lines)
	if err != nil {
		return "model-error: " + err.Error(), len(lines), fails
	}
	if i := hlib.FirstBad(ans, "ok"); i >= 0 {
		return fmt.Sprintf("at line %d `%s`: %s", i, lines[i], ans[i]), len(lines), fails
	}
	return "", len(lines), fails
}

func sigOf(detail string) string {
	kind := "diverge"
	if strings.Contains(detail, ": SPEC ") {
		kind = "spec"
	}
	switch {
	case strings.Contains(detail, "panicked"):
		return "panic"
	case strings.Contains(detail, "decreased"):
		return "spec-nonce-decreased"
	case strings.Contains(detail, "changed outside authentication"):
		return "spec-nonce-changed-outside-auth"
	case strings.Contains(detail, "after block"):
		return "diverge-account"
	case strings.Contains(detail, "authenticated twice"):
		return "spec-replay"
	case strings.Contains(detail, "authenticated without valid"):
		return "spec-unauthentic"
	case strings.Contains(detail, "≠ account nonce"):
		return "spec-nonce-mismatch-accepted"
	case strings.Contains(detail, "nonce after authenticat"):
		return "spec-nonce-step"
	case strings.Contains(detail, "changed the account"):
		return "spec-rejected-changed-state"
	case strings.Contains(detail, "changed between transactions"):
		return "spec-nonce-changed-outside-auth"
	case strings.Contains(detail, "not in the regenerated table"), strings.Contains(detail, "not registered at run time"):
		return "diverge-context-table"
	case strings.Contains(detail, "NewContext"):
		return "diverge-newcontext"
	case strings.Contains(detail, "PrepareSignerContext"):
		return "diverge-prepare-context"
	case strings.Contains(detail, "class model"):
		return "diverge-class"
	case strings.Contains(detail, "auth result"):
		return "diverge-auth-result"
	case strings.Contains(detail, "after tx"), strings.Contains(detail, "after auth"), strings.Contains(detail, "before"):
		return "diverge-account"
	case strings.Contains(detail, "fee accumulator"):
		return "diverge-fee-accumulator"
	case strings.Contains(detail, "decoded differently"):
		return "diverge-decode-nondeterministic"
	}
	return kind + "-other"
}

// sliceFor cuts a stream down to the ops a Go-side spec failure about transaction `tx <name>` depends on:
// world, signers, the sign/flip/trunc/raw ops that built it, and its first submit.
func sliceFor(ops []string, detail string) []string {
	f := strings.Fields(detail)
	if len(f) < 2 || f[0] != "tx" {
		return ops
	}
	need := map[string]bool{f[1]: true}
	for i := len(ops) - 1; i >= 0; i-- { // builders precede users: one backward pass collects the chain
		w := strings.Fields(ops[i])
		if (w[0] == "flip" || w[0] == "trunc") && need[w[1]] {
			need[w[2]] = true
		}
	}
	var out []string
	submitted, committed := false, false
	for _, op := range ops {
		w := strings.Fields(op)
		switch w[0] {
		case "world", "mworld", "signer", "init":
			out = append(out, op)
		case "commit":
			if submitted && !committed {
				out = append(out, op)
				committed = true
			}
		case "sign", "flip", "trunc", "raw":
			if need[w[1]] {
				out = append(out, op)
			}
		case "submit":
			if w[1] == f[1] && !submitted {
				out = append(out, op)
				submitted = true
			}
		}
	}
	return out
}

var methods = []string{"staking.Transfer", "staking.Transfer", "staking.Transfer", "staking.Burn", "consensus.Meta", "foo.Bar", "EMPTY"}

// genCase generates one transaction stream.
func genCase(r *hlib.Rng, nops int, flipAll bool, res *hlib.Result) []string {
	chainA, chainB := randBytes(r, 64, hexAlpha), randBytes(r, 64, hexAlpha)
	if r.Chance(1, 8) {
		// an independent check of the fixed-length fact: real genesis documents give 64 hex characters
		var d genesis.Document
		d.ChainID = randBytes(r, 1+r.Intn(10), hexAlpha)
		chainA = d.ChainContext()
	}
	mtb := []uint64{0, 0, 5, 100}[r.Intn(4)]
	maxTx := []uint64{0, 0, 0, 32768, 32768, 240}[r.Intn(6)]
	ops := []string{fmt.Sprintf("world %s %s %d %d %d", chainA, chainB, mtb, maxTx, r.Intn(3))}
	ns := 1 + r.Intn(4)
	nonce := make([]uint64, ns)
	for i := 0; i < ns; i++ {
		nonce[i] = []uint64{0, 0, 7, math.MaxUint64 - 2, math.MaxUint64}[r.Intn(5)]
		bal := []string{"0", "3", "1000", "1000000", "340282366920938463463374607431768211456"}[r.Intn(5)]
		ops = append(ops, fmt.Sprintf("signer %d %s %d %s", i, randBytes(r, 64, hexAlpha), nonce[i], bal))
	}
	var accepted, all []string
	nextName := 0
	mk := func() string { nextName++; return fmt.Sprintf("t%d", nextName) }
	fee := func() (string, uint64) {
		switch r.Intn(5) {
		case 0:
			return "0", 0
		case 1:
			return "1", uint64(r.Intn(3))
		case 2:
			return strconv.Itoa(r.Intn(2000)), uint64(r.Intn(1000))
		default:
			return strconv.Itoa(r.Intn(4)), 1000
		}
	}
	for len(ops) < nops {
		k := r.Intn(100)
		si := r.Intn(ns)
		fa, fg := fee()
		switch {
		case k < 34: // fresh, correct nonce (may still fail on balance)
			n := mk()
			m := "staking.Transfer"
			if r.Chance(1, 6) {
				m = methods[r.Intn(len(methods))]
			}
			ops = append(ops, fmt.Sprintf("sign %s %d tx A %d %s %d %s", n, si, nonce[si], fa, fg, m))
			ho := 1
			if r.Chance(1, 4) {
				ho = 0
			}
			ops = append(ops, fmt.Sprintf("submit %s %d", n, ho))
			if m == "staking.Transfer" || m == "staking.Burn" {
				nonce[si]++ // optimistic; a balance failure just turns later ones into wrong-nonce cases
				accepted = append(accepted, n)
			}
			all = append(all, n)
			res.Count("gen:fresh")
		case k < 44 && len(accepted) > 0: // replay of an earlier accepted transaction
			ops = append(ops, fmt.Sprintf("submit %s 1", accepted[r.Intn(len(accepted))]))
			res.Count("gen:replay")
		case k < 52: // reordered: future or stale nonce
			n := mk()
			d := uint64(1 + r.Intn(3))
			nn := nonce[si] + d
			if r.Bool() {
				nn = nonce[si] - d
			}
			ops = append(ops, fmt.Sprintf("sign %s %d tx A %d %s %d staking.Transfer", n, si, nn, fa, fg))
			ops = append(ops, fmt.Sprintf("submit %s 1", n))
			all = append(all, n)
			res.Count("gen:reordered")
		case k < 60: // signed for another registered context (correct nonce)
			n := mk()
			cx := fmt.Sprintf("o%d", r.Intn(len(otherContexts)))
			if r.Chance(1, 3) {
				cx = fmt.Sprintf("d%d", r.Intn(len(dynContexts)))
			}
			ch := "A"
			if r.Chance(1, 4) {
				ch = "B"
			}
			ops = append(ops, fmt.Sprintf("sign %s %d %s %s %d %s %d staking.Transfer", n, si, cx, ch, nonce[si], fa, fg))
			ops = append(ops, fmt.Sprintf("submit %s 1", n))
			res.Count("gen:cross-context")
		case k < 67: // signed for another chain (correct nonce)
			n := mk()
			ops = append(ops, fmt.Sprintf("sign %s %d tx B %d %s %d staking.Transfer", n, si, nonce[si], fa, fg))
			ops = append(ops, fmt.Sprintf("submit %s 1", n))
			res.Count("gen:cross-chain")
		case k < 71 && ns > 1: // envelope names another signer's key
			n := mk()
			ops = append(ops, fmt.Sprintf("sign %s %d tx A %d %s %d staking.Transfer wrongpk %d", n, si, nonce[(si+1)%ns], fa, fg, (si+1)%ns))
			ops = append(ops, fmt.Sprintf("submit %s 1", n))
			res.Count("gen:wrong-signer")
		case k < 83: // bit flips of a correctly signed, current-nonce transaction
			n := mk()
			ops = append(ops, fmt.Sprintf("sign %s %d tx A %d %s %d staking.Transfer", n, si, nonce[si], fa, fg))
			nflips := 6
			if flipAll {
				nflips = 8 * 260 // more than any short tx has bits: modulo wraps, every bit is hit
			}
			for j := 0; j < nflips; j++ {
				fn := mk()
				bit := r.Intn(8 * 260)
				if flipAll {
					bit = j
				}
				ops = append(ops, fmt.Sprintf("flip %s %s %d", fn, n, bit))
				ops = append(ops, fmt.Sprintf("submit %s 1", fn))
			}
			// afterwards the untouched original must still be accepted
			ops = append(ops, fmt.Sprintf("submit %s 1", n))
			nonce[si]++
			accepted = append(accepted, n)
			res.Count("gen:bitflip-group")
			if flipAll {
				flipAll = false // one exhaustive group per case
			}
		case k < 87: // truncation / garbage
			n := mk()
			if len(all) > 0 && r.Bool() {
				ops = append(ops, fmt.Sprintf("trunc %s %s %d", n, all[r.Intn(len(all))], r.Intn(300)))
			} else {
				ops = append(ops, fmt.Sprintf("raw %s %s", n, hx([]byte(randBytes(r, r.Intn(300), hexAlpha+"\xa2\x00\xff")))))
			}
			ops = append(ops, fmt.Sprintf("submit %s 1", n))
			res.Count("gen:garbage")
		case k < 95: // direct AuthenticateAndPayFees in the three modes
			mode := []string{"d", "c", "s"}[r.Intn(3)]
			nn := nonce[si]
			if r.Chance(1, 3) {
				nn += uint64(r.Intn(3)) - 1
			}
			who := strconv.Itoa(si)
			if r.Chance(1, 10) {
				who = "R"
			}
			ops = append(ops, fmt.Sprintf("auth %s %s %d %s %d", mode, who, nn, fa, fg))
			if mode == "d" && who != "R" && nn == nonce[si] {
				nonce[si]++
			}
			res.Count("gen:auth-direct")
		default:
			ops = append(ops, fmt.Sprintf("setbal %d %d", si, r.Intn(3000)))
			res.Count("gen:setbal")
		}
	}
	// end of history: every earlier accepted transaction is replayed once more
	for _, n := range accepted {
		ops = append(ops, fmt.Sprintf("submit %s 1", n))
	}
	return ops
}

func main() {
	seed := flag.Uint64("seed", 1, "seed")
	cases := flag.Int("cases", 200, "number of generated transaction streams")
	nops := flag.Int("ops", 40, "ops per stream")
	nctx := flag.Int("ctx", 300, "generated context cases")
	flipAll := flag.Int("flipall", 1, "number of streams in which every bit of one transaction is flipped")
	out := flag.String("out", "-", "result file")
	replay := flag.String("replay", "", "replay file (one op per line)")
	corpus := flag.String("corpus", "", "corpus dir, run first")
	muxCases := flag.Int("mux", 0, "number of streams driven through the real ABCI mux (see mux.go)")
	flag.Parse()
	if os.Getenv("VERIF_DEBUG") != "" {
		_ = logging.Initialize(os.Stderr, logging.FmtLogfmt, logging.LevelDebug, nil)
	}

	res := hlib.NewResult("authdrv", *seed)
	res.Rule = "stage 1: every registered signature context (runtime registry vs regenerated table) plus generated WithSuffix/PrepareSignerContext/NewContext cases; stage 2: streams of signed transactions from 1-4 memory signers (fresh, replayed, reordered, cross-context, cross-chain, wrong key, bit-flipped, truncated, garbage, direct AuthenticateAndPayFees in DeliverTx/CheckTx/simulation mode) with start nonces incl. 2^64-1; stage 3 (-mux): the same kinds of streams grouped into blocks and driven through the real ABCI mux on two replicas (proposer path and validator path), with CheckTx/EstimateGas in between and, in every 8th stream, real process restarts on an on-disk database; a stream is non-trivial when at least one transaction was authenticated and one was rejected; distinct by op list (streams derive from distinct seeds)"

	report := func(d string, ops []string, cs uint64) {
		kind := "divergence"
		if strings.Contains(d, ": SPEC ") {
			kind = "spec"
		}
		if strings.Contains(d, "panicked") {
			kind = "panic"
		}
		res.Fail(hlib.Failure{Kind: kind, Detail: d, Case: ops, Seed: cs, Sig: sigOf(d)})
	}
	seenSig := map[string]bool{}
	runOne := func(ops []string, cs uint64, minimize bool) {
		d, n, fails := check(ops, res)
		res.Cases++
		res.Ops += n
		for _, f := range fails {
			if seenSig[f.Sig] {
				continue // one example per class of spec failure
			}
			seenSig[f.Sig] = true
			f.Case, f.Seed = sliceFor(ops, f.Detail), cs
			res.Fail(f)
		}
		if d == "" {
			return
		}
		min := ops
		if minimize && len(ops) > 2 {
			scratch := hlib.NewResult("scratch", 0)
			head, tail := ops[:1], ops[1:]
			tail = hlib.Shrink(tail, func(c []string) bool {
				dd, _, _ := check(append(append([]string{}, head...), c...), scratch)
				return dd != "" && sigOf(dd) == sigOf(d)
			})
			min = append(append([]string{}, head...), tail...)
			d, _, _ = check(min, scratch)
		}
		report(d, min, cs)
	}

	if *replay != "" {
		ops, err := hlib.ReadLines(*replay)
		if err != nil {
			fmt.Fprintln(os.Stderr, err)
			os.Exit(2)
		}
		if len(ops) > 0 && !strings.HasPrefix(ops[0], "world") && !strings.HasPrefix(ops[0], "mworld") {
			// a stage-1 replay: model lines verbatim
			ans, err := hlib.RunModel("auth", ops)
			res.Cases++
			if err != nil {
				report("model-error: "+err.Error(), ops, 0)
			} else if i := hlib.FirstBad(ans, "ok"); i >= 0 {
				report(fmt.Sprintf("at line %d `%s`: %s", i, ops[i], ans[i]), ops, 0)
			}
		} else {
			runOne(ops, 0, false)
		}
		res.Write(*out)
		return
	}

	rng := hlib.NewRng(*seed)

	// Stage 1 (before anything calls WithSuffix).
	{
		lines, fails := ctxStage(rng.Fork(), *nctx, res)
		for _, f := range fails {
			res.Fail(f)
		}
		ans, err := hlib.RunModel("auth", lines)
		res.Cases++
		res.Ops += len(lines)
		if err != nil {
			report("model-error: "+err.Error(), nil, 0)
		} else {
			for i, a := range ans {
				if !strings.HasPrefix(a, "ok") && a != "skip" {
					// stage-1 lines are independent: report each, replayable alone
					report(fmt.Sprintf("at line %d `%s`: %s", i, lines[i], a), []string{lines[i]}, 0)
				}
			}
			// a DIVERGE makes the model skip the rest: rerun the remaining lines one by one
			if hlib.FirstBad(ans, "ok") >= 0 {
				for i, l := range lines {
					if ans[i] == "skip" && !strings.HasPrefix(l, "regdone") {
						a2, _ := hlib.RunModel("auth", []string{l})
						if len(a2) == 1 && !strings.HasPrefix(a2[0], "ok") && !strings.HasPrefix(l, "newctx") && !strings.HasPrefix(l, "reg ") {
							report(fmt.Sprintf("at line %d `%s`: %s", i, l, a2[0]), []string{l}, 0)
						}
					}
				}
			}
		}
		res.AddSample(lines[:3])
	}

	if *corpus != "" {
		ents, _ := os.ReadDir(*corpus)
		for _, e := range ents {
			if ops, err := hlib.ReadLines(*corpus + "/" + e.Name()); err == nil && len(ops) > 0 && (strings.HasPrefix(ops[0], "world") || strings.HasPrefix(ops[0], "mworld")) {
				runOne(ops, 0, false)
				res.Count("corpus")
			}
		}
	}

	seen := map[string]bool{}
	for i := 0; i < *cases; i++ {
		cr := rng.Fork()
		cs := cr.Seed()
		ops := genCase(cr, 8+cr.Intn(*nops), i < *flipAll, res)
		before := len(res.Failures)
		a0, r0 := res.Counters["class:ok"]+res.Counters["class:failed"], res.Counters["class:bad-sig"]+res.Counters["class:auth:invalid-nonce"]
		runOne(ops, cs, true)
		a1, r1 := res.Counters["class:ok"]+res.Counters["class:failed"], res.Counters["class:bad-sig"]+res.Counters["class:auth:invalid-nonce"]
		key := strings.Join(ops, ";")
		if a1 > a0 && r1 > r0 && !seen[key] && len(res.Failures) == before {
			seen[key] = true
			res.Distinct++
		}
		if i < 2 {
			lines, _, _ := runImpl(ops, hlib.NewResult("scratch", 0))
			if len(lines) > 12 {
				lines = lines[:12]
			}
			res.AddSample(lines)
		}
		if len(res.Failures) >= 8 {
			break
		}
	}
	if *muxCases > 0 {
		muxStage(rng.Fork(), *muxCases, *nops, *flipAll, res, runOne)
	}
	res.Write(*out)
}
