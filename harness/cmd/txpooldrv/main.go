// txpooldrv: correspondence between the real runtime transaction pool main queue
// (go/runtime/txpool, through the verif-tagged export wrapper) and the Lean reference
// model (`oasis_model txpool`), property C20.
package main

import (
	"flag"
	"fmt"
	"math"
	"os"
	"sort"
	"strconv"
	"strings"

	"verifharness/hlib"

	"github.com/oasisprotocol/oasis-core/go/runtime/txpool"
)

func ids(l []uint64) string {
	if len(l) == 0 {
		return "-"
	}
	s := make([]string, len(l))
	for i, x := range l {
		s[i] = strconv.FormatUint(x, 10)
	}
	return strings.Join(s, ",")
}

func u(s string) uint64 {
	x, err := strconv.ParseUint(s, 10, 64)
	if err != nil {
		panic("bad number in op: " + s)
	}
	return x
}

func addRes(e string) string {
	switch e {
	case "":
		return "ok"
	case "transaction expired":
		return "expired"
	case "replacement transaction underpriced":
		return "replace-underpriced"
	case "transaction underpriced":
		return "underpriced"
	}
	return "other:" + strings.ReplaceAll(e, " ", "_")
}

// senderNum strips the "s" the driver puts in front of sender numbers.
func senderNum(a string) uint64 { return u(strings.TrimPrefix(a, "s")) }

// stateLine dumps the scheduler's internal state for the implementation-level model:
// max heap content, the scheduled map and every sender heap (sequence number, ids).
func stateLine(q *txpool.VerifQueue) string {
	if d := q.MaxHeapCheck(); d != "" {
		return "st BROKEN " + strings.ReplaceAll(d, " ", "_")
	}
	sched := q.Scheduled()
	var sk []uint64
	byNum := map[uint64]string{}
	for a := range sched {
		sk = append(sk, senderNum(a))
		byNum[senderNum(a)] = a
	}
	sort.Slice(sk, func(i, j int) bool { return sk[i] < sk[j] })
	var sf []uint64
	for _, a := range sk {
		sf = append(sf, a, sched[byNum[a]])
	}
	snd := q.Senders()
	var nk []uint64
	for a := range snd {
		nk = append(nk, senderNum(a))
		byNum[senderNum(a)] = a
	}
	sort.Slice(nk, func(i, j int) bool { return nk[i] < nk[j] })
	var nf []uint64
	for _, a := range nk {
		h := snd[byNum[a]]
		nf = append(nf, a, h.Seq, uint64(len(h.IDs)))
		nf = append(nf, h.IDs...)
	}
	return fmt.Sprintf("st %s %s %s", ids(q.MaxHeap()), ids(sf), ids(nf))
}

// runImpl executes the ops on the real queue and returns the annotated lines for the model.
func runImpl(ops []string) (lines []string, panicked string) {
	var q *txpool.VerifQueue
	for _, op := range ops {
		w := strings.Fields(op)
		var line string
		func() {
			defer func() {
				if r := recover(); r != nil {
					panicked = fmt.Sprintf("%s: %v", op, r)
					line = op + " PANIC"
				}
			}()
			switch w[0] {
			case "new":
				q = txpool.NewVerifQueue(int(u(w[1])))
				line = op
			case "add":
				r := q.Add(u(w[1]), "s"+w[2], u(w[3]), u(w[4]), u(w[5]))
				line = fmt.Sprintf("%s %s %s", op, addRes(r), ids(q.All()))
			case "qadd":
				r := q.QueueAdd(u(w[1]), "s"+w[2], u(w[3]), u(w[4]), u(w[5]))
				line = fmt.Sprintf("%s %s %s", op, addRes(r), ids(q.All()))
			case "schedule":
				line = fmt.Sprintf("%s %s", op, ids(q.Schedule(int(u(w[1])))))
			case "reset":
				q.Reset()
				line = op
			case "clear":
				q.Clear()
				line = op
			case "used":
				q.HandleTxUsed(u(w[1]))
				line = op
			case "usedn":
				// one HandleTxsUsed call with several transactions, in the order given (the callers build
				// the slice by ranging over a map / from the runtime's answer: any order)
				var xs []uint64
				for _, x := range strings.Split(w[1], ",") {
					xs = append(xs, u(x))
				}
				q.HandleTxsUsed(xs)
				line = op
			case "forward":
				q.Forward("s"+w[1], u(w[2]))
				line = op
			case "all":
				line = fmt.Sprintf("all %s", ids(q.All()))
			default:
				panic("unknown op " + op)
			}
		}()
		lines = append(lines, line)
		if panicked != "" {
			break
		}
		// state-by-state tie: the implementation's max heap, scheduled map and sender heaps
		// after this operation, compared by the model driver with the implementation-level model
		if q != nil && w[0] != "all" && w[0] != "st" {
			lines = append(lines, stateLine(q))
		}
	}
	return
}

// check runs implementation and model on the ops; returns "" or the divergence.
func check(ops []string) (string, int) {
	lines, _ := runImpl(ops)
	ans, err := hlib.RunModel("txpool", lines)
	if err != nil {
		return "model-error: " + err.Error(), len(lines)
	}
	if i := hlib.FirstBad(ans, "ok"); i >= 0 {
		return fmt.Sprintf("at op %d `%s`: %s", i, lines[i], ans[i]), len(lines)
	}
	return "", len(lines)
}

var bases = []uint64{0, 7, math.MaxInt64 - 2, math.MaxUint64 - 3}

func genCase(r *hlib.Rng, nops int, res *hlib.Result) []string {
	nsenders := 1 + r.Intn(3)
	base := make([]uint64, nsenders)
	state := make([]uint64, nsenders) // harness' idea of each sender's state sequence
	for i := range base {
		base[i] = bases[r.Intn(len(bases))]
		state[i] = base[i]
	}
	seqOf := func(a int) uint64 {
		// rarely a sequence number far from the sender's cluster (after 2^64-1 was consumed the
		// sender's heap is gone and a small sequence number is accepted again: the wrap-around case
		// the MaxUint64 guards exist for)
		if r.Chance(1, 16) {
			return uint64(r.Intn(3))
		}
		off := uint64(r.Intn(6))
		if base[a] > math.MaxUint64-off {
			return math.MaxUint64
		}
		return base[a] + off
	}
	capacity := 1 + r.Intn(6)
	if r.Chance(1, 4) {
		capacity = 4 + r.Intn(12)
	}
	ops := []string{fmt.Sprintf("new %d", capacity)}
	nextID := uint64(1)
	var live []uint64
	if r.Chance(1, 40) {
		// Directed prefix for the MaxUint64 guards: a sender's transaction at 2^64-1 is scheduled,
		// leaves the queue (used, or the queue is cleared) and the same sender comes back at 0
		// while the pass is still open; 0 is not the successor of 2^64-1.
		res.Count("scenario:wrap")
		ops = append(ops, fmt.Sprintf("add 1 0 %d %d %d", uint64(math.MaxUint64), r.Intn(4), uint64(math.MaxUint64)),
			fmt.Sprintf("schedule %d", 1+r.Intn(3)))
		if r.Bool() {
			ops = append(ops, "used 1")
		} else {
			ops = append(ops, "clear")
		}
		kind := "add"
		if r.Bool() {
			kind = "qadd"
		}
		ops = append(ops, fmt.Sprintf("%s 2 0 0 %d 0", kind, r.Intn(4)), "schedule 2")
		base[0], state[0] = 0, 0
		nextID = 3
		live = append(live, 2)
	}
	for i := 0; i < nops; i++ {
		k := r.Intn(100)
		switch {
		case k < 45:
			a := r.Intn(nsenders)
			ss := state[a]
			if r.Chance(1, 8) {
				ss = seqOf(a)
			}
			q := seqOf(a)
			if r.Chance(1, 16) {
				ss = q // a sender seen afresh at exactly this sequence number
			}
			kind := "add"
			if r.Bool() {
				kind = "qadd"
			}
			ops = append(ops, fmt.Sprintf("%s %d %d %d %d %d", kind, nextID, a, q, r.Intn(4), ss))
			live = append(live, nextID)
			nextID++
			res.Count("op:" + kind)
		case k < 65:
			ops = append(ops, fmt.Sprintf("schedule %d", r.Intn(5)))
			res.Count("op:schedule")
		case k < 75:
			ops = append(ops, "reset")
			res.Count("op:reset")
		case k < 83:
			if len(live) > 0 {
				ops = append(ops, fmt.Sprintf("used %d", live[r.Intn(len(live))]))
				res.Count("op:used")
			}
		case k < 87:
			if len(live) > 1 {
				n := 2 + r.Intn(3)
				var xs []string
				for i := 0; i < n; i++ {
					xs = append(xs, fmt.Sprint(live[r.Intn(len(live))]))
				}
				ops = append(ops, "usedn "+strings.Join(xs, ","))
				res.Count("op:usedn")
			}
		case k < 95:
			a := r.Intn(nsenders)
			s := seqOf(a)
			if s > state[a] && r.Chance(3, 4) {
				state[a] = s
			}
			ops = append(ops, fmt.Sprintf("forward %d %d", a, s))
			res.Count("op:forward")
		case k < 97:
			ops = append(ops, "clear")
			res.Count("op:clear")
		default:
			ops = append(ops, "all")
			res.Count("op:all")
		}
	}
	// Every case ends with a fresh complete pass, so that stale readiness shows.
	ops = append(ops, "reset", "schedule 100", "all")
	return ops
}

func signature(detail string) string {
	// stable short class of a divergence for known-findings matching
	switch {
	case strings.Contains(detail, "panicked in reset"):
		return "panic-reset"
	case strings.Contains(detail, "panicked"):
		return "panic"
	case strings.Contains(detail, "impl-model fault"):
		return "impl-model-fault"
	case strings.Contains(detail, "does not refine"):
		return "impl-model-refinement"
	case strings.Contains(detail, "state max-heap"):
		return "state-maxheap-mismatch"
	case strings.Contains(detail, "state scheduled"):
		return "state-scheduled-mismatch"
	case strings.Contains(detail, "state senders"):
		return "state-senders-mismatch"
	case strings.Contains(detail, "schedule"):
		return "schedule-mismatch"
	case strings.Contains(detail, "contents"):
		return "contents-mismatch"
	case strings.Contains(detail, "add result"):
		return "add-result-mismatch"
	}
	return "other"
}

func main() {
	seed := flag.Uint64("seed", 1, "seed")
	cases := flag.Int("cases", 500, "number of generated cases")
	nops := flag.Int("ops", 30, "ops per case")
	out := flag.String("out", "-", "result file")
	replay := flag.String("replay", "", "replay file (one op per line)")
	corpus := flag.String("corpus", "", "corpus dir, run first")
	flag.Parse()

	res := hlib.NewResult("txpooldrv", *seed)
	res.Rule = "random op histories (add/qadd/schedule/reset/used/forward/clear/all) over 1-3 senders with sequence numbers clustered at 0, 7, 2^63-3.., 2^64-4.. (rarely 0-2 for any sender: wrap-around); priorities 0-3 (ties), capacity 1-15, limits 0-4; a case is non-trivial when at least one schedule returned a transaction; distinct by op list"
	runOne := func(ops []string, caseSeed uint64, minimize bool) {
		d, n := check(ops)
		res.Cases++
		res.Ops += n
		if d == "" {
			return
		}
		min := ops
		if minimize {
			head, tail := ops[:1], ops[1:]
			tail = hlib.Shrink(tail, func(c []string) bool {
				dd, _ := check(append(append([]string{}, head...), c...))
				return dd != "" && signature(dd) == signature(d)
			})
			min = append(append([]string{}, head...), tail...)
			d, _ = check(min)
		}
		kind := "divergence"
		if strings.Contains(d, "panicked") {
			kind = "panic"
		}
		res.Fail(hlib.Failure{Kind: kind, Detail: d, Case: min, Seed: caseSeed, Sig: signature(d)})
	}

	if *replay != "" {
		ops, err := hlib.ReadLines(*replay)
		if err != nil {
			fmt.Fprintln(os.Stderr, err)
			os.Exit(2)
		}
		runOne(ops, 0, false)
		res.Write(*out)
		return
	}
	if *corpus != "" {
		ents, _ := os.ReadDir(*corpus)
		for _, e := range ents {
			if ops, err := hlib.ReadLines(*corpus + "/" + e.Name()); err == nil && len(ops) > 0 {
				runOne(ops, 0, false)
				res.Count("corpus")
			}
		}
	}
	rng := hlib.NewRng(*seed)
	seen := map[string]bool{}
	for i := 0; i < *cases; i++ {
		cr := rng.Fork()
		cs := cr.Seed()
		ops := genCase(cr, 5+cr.Intn(*nops), res)
		key := strings.Join(ops, ";")
		lines, _ := runImpl(ops)
		nontrivial := false
		for _, l := range lines {
			if strings.HasPrefix(l, "schedule") && !strings.HasSuffix(l, " -") {
				nontrivial = true
				res.Count("schedules-nonempty")
			}
			if strings.Contains(l, "underpriced") {
				res.Count("res:underpriced")
			}
			if strings.Contains(l, " expired ") {
				res.Count("res:expired")
			}
		}
		if nontrivial && !seen[key] {
			seen[key] = true
			res.Distinct++
		}
		if i < 2 {
			res.AddSample(lines)
		}
		runOne(ops, cs, true)
		if len(res.Failures) >= 5 {
			break
		}
	}
	res.Write(*out)
}
