// pcsdrv: property C18 — attestation quotes are accepted only as signed and within policy.
//
// For every recorded vector of go/common/sgx/pcs/testdata the driver generates mutated
// (quote, TCB info, QE identity, PEM chain), verification times around every validity
// boundary and policy settings, runs the real pcs.Quote.Verify and
//
//  1. spec-on-implementation: an accepted input must carry the header and report body of a
//     recorded genuine quote and return exactly that quote's VerifiedQuote{Identity,ReportData};
//     expired / future collateral, foreign collateral, a disabled policy, too small an
//     evaluation number, a blacklisted FMSPC are never accepted;
//  2. model correspondence: the harness re-evaluates every primitive itself (each ECDSA check,
//     each x509 chain, SHA-256, PEM/JSON decoding, parsed fields via the verif-tagged
//     Quote.VerifParts) and feeds the verdicts to the Lean model `om_pcs`, which runs the
//     decision sequence and must agree on accept/reject, on the rejecting stage (check order)
//     and on the returned identity / report data; the model also parses the raw quote itself
//     and must obtain the same parts (or the same parse error class).
package main

import (
	"bytes"
	"crypto/ecdsa"
	"crypto/elliptic"
	"crypto/sha256"
	"crypto/x509"
	"encoding/asn1"
	"encoding/hex"
	"encoding/json"
	"encoding/pem"
	"errors"
	"flag"
	"fmt"
	"math/big"
	"os"
	"sort"
	"strconv"
	"strings"
	"time"

	"verifharness/hlib"

	"github.com/oasisprotocol/curve25519-voi/primitives/x25519"

	"github.com/oasisprotocol/oasis-core/go/common/cbor"
	"github.com/oasisprotocol/oasis-core/go/common/crypto/signature"
	"github.com/oasisprotocol/oasis-core/go/common/crypto/tuplehash"
	"github.com/oasisprotocol/oasis-core/go/common/node"
	"github.com/oasisprotocol/oasis-core/go/common/sgx"
	"github.com/oasisprotocol/oasis-core/go/common/sgx/ias"
	"github.com/oasisprotocol/oasis-core/go/common/sgx/pcs"
	"github.com/oasisprotocol/oasis-core/go/common/sgx/quote"
)

// ---------------------------------------------------------------------------- cases

// Case is one complete verifier input. It serialises to one replay line.
type Case struct {
	Tag     string
	Quote   []byte
	TcbNil  bool
	TcbBody []byte
	TcbSig  string
	QeBody  []byte
	QeSig   string
	Certs   []byte
	Pol     *pcs.QuotePolicy
	Dbg     bool
	Lax     bool
	Bl      []byte // one blacklisted MRSIGNER (empty: none)
	Root    []byte // DER of the root of trust to install (empty: Intel's)
	AttRak  []byte // if set: also run node.SGXAttestation.Verify with this RAK ...
	AttOK   []byte // ... and these allowed enclave identities (64 bytes each: MRENCLAVE || MRSIGNER)
	// Node registration: shape of the descriptor's SGX constraints policy ("" = {PCS: Pol} and no
	// consensus default; "nil", "empty", "ias", "pcs", "both"), consensus feature flag and default.
	Reg    string
	FsPCS  bool
	Def    string // "nil" (no DefaultPolicy) | "none" (DefaultPolicy without PCS part) | "pcs"
	DefIAS bool
	DefPol *pcs.QuotePolicy
	// Signed attestations (TEEFeaturesSGX.SignedAttestations): attestation height, RAK signature,
	// verification height, maximum attestation age of the constraints and of the consensus default.
	SAtt      bool
	SaHeight  uint64
	NowHeight uint64
	ScMaxAge  uint64
	DefMaxAge uint64
	SaSig     []byte
	Rek       []byte // 32 bytes or empty (nil REK)
	NodeID    []byte // 32 bytes
	regWanted bool   // generator note
	Unbound []string // generator note: documented-unbound fields this input deviates in (not serialised)
	Sec     int64
	Nsec    int64
}

func (c *Case) ts() time.Time { return time.Unix(c.Sec, c.Nsec) }

func hx(b []byte) string {
	if len(b) == 0 {
		return "-"
	}
	return hex.EncodeToString(b)
}

func unhx(s string) []byte {
	if s == "-" || s == "" {
		return nil
	}
	b, err := hex.DecodeString(s)
	if err != nil {
		panic("bad hex in replay line")
	}
	return b
}

func b01(b bool) string {
	if b {
		return "1"
	}
	return "0"
}

func dash(s string) string {
	if s == "" {
		return "-"
	}
	return s
}

func undash(s string) string {
	if s == "-" {
		return ""
	}
	return s
}

func polJSON(p *pcs.QuotePolicy) string {
	if p == nil {
		return "nil"
	}
	j, _ := json.Marshal(p)
	return hx(j)
}

func (c *Case) Line() string {
	pol := "nil"
	if c.Pol != nil {
		j, _ := json.Marshal(c.Pol)
		pol = hx(j)
	}
	l := fmt.Sprintf("case tag=%s quote=%s tcbnil=%s tb=%s tsg=%s qb=%s qsg=%s certs=%s pol=%s dbg=%s lax=%s bl=%s root=%s rak=%s allowed=%s reg=%s fspcs=%s def=%s defias=%s defpol=%s sec=%d nsec=%d",
		c.Tag, hx(c.Quote), b01(c.TcbNil), hx(c.TcbBody), hx([]byte(c.TcbSig)), hx(c.QeBody), hx([]byte(c.QeSig)),
		hx(c.Certs), pol, b01(c.Dbg), b01(c.Lax), hx(c.Bl), hx(c.Root), hx(c.AttRak), hx(c.AttOK), dash(c.Reg), b01(c.FsPCS), dash(c.Def), b01(c.DefIAS), polJSON(c.DefPol), c.Sec, c.Nsec)
	if c.SAtt || len(c.NodeID) > 0 {
		l += fmt.Sprintf(" satt=%s sah=%d nowh=%d scage=%d defage=%d sasig=%s rek=%s nid=%s", b01(c.SAtt), c.SaHeight, c.NowHeight, c.ScMaxAge, c.DefMaxAge, hx(c.SaSig), hx(c.Rek), hx(c.NodeID))
	}
	return l
}

func parseCaseLine(l string) (*Case, error) {
	w := strings.Fields(l)
	if len(w) == 0 || w[0] != "case" {
		return nil, fmt.Errorf("not a case line")
	}
	m := map[string]string{}
	for _, t := range w[1:] {
		kv := strings.SplitN(t, "=", 2)
		if len(kv) == 2 {
			m[kv[0]] = kv[1]
		}
	}
	c := &Case{Tag: m["tag"], Quote: unhx(m["quote"]), TcbNil: m["tcbnil"] == "1", TcbBody: unhx(m["tb"]),
		TcbSig: string(unhx(m["tsg"])), QeBody: unhx(m["qb"]), QeSig: string(unhx(m["qsg"])), Certs: unhx(m["certs"]),
		Dbg: m["dbg"] == "1", Lax: m["lax"] == "1", Bl: unhx(m["bl"]), Root: unhx(m["root"]), AttRak: unhx(m["rak"]), AttOK: unhx(m["allowed"])}
	if m["pol"] != "nil" {
		var p pcs.QuotePolicy
		if err := json.Unmarshal(unhx(m["pol"]), &p); err != nil {
			return nil, err
		}
		c.Pol = &p
	}
	c.Reg, c.FsPCS, c.Def, c.DefIAS = undash(m["reg"]), m["fspcs"] == "1", undash(m["def"]), m["defias"] == "1"
	if dp, ok := m["defpol"]; ok && dp != "nil" && dp != "" {
		var p pcs.QuotePolicy
		if err := json.Unmarshal(unhx(dp), &p); err != nil {
			return nil, err
		}
		c.DefPol = &p
	}
	c.Sec, _ = strconv.ParseInt(m["sec"], 10, 64)
	c.Nsec, _ = strconv.ParseInt(m["nsec"], 10, 64)
	if _, ok := m["satt"]; ok {
		c.SAtt = m["satt"] == "1"
		c.SaHeight, _ = strconv.ParseUint(m["sah"], 10, 64)
		c.NowHeight, _ = strconv.ParseUint(m["nowh"], 10, 64)
		c.ScMaxAge, _ = strconv.ParseUint(m["scage"], 10, 64)
		c.DefMaxAge, _ = strconv.ParseUint(m["defage"], 10, 64)
		c.SaSig, c.Rek, c.NodeID = unhx(m["sasig"]), unhx(m["rek"]), unhx(m["nid"])
	}
	return c, nil
}

func (c *Case) clone() *Case {
	d := *c
	d.Quote = append([]byte(nil), c.Quote...)
	d.TcbBody = append([]byte(nil), c.TcbBody...)
	d.QeBody = append([]byte(nil), c.QeBody...)
	d.Certs = append([]byte(nil), c.Certs...)
	if c.Pol != nil {
		p := *c.Pol
		p.FMSPCWhitelist = append([]string(nil), c.Pol.FMSPCWhitelist...)
		p.FMSPCBlacklist = append([]string(nil), c.Pol.FMSPCBlacklist...)
		if c.Pol.TDX != nil {
			t := *c.Pol.TDX
			t.AllowedTdxModules = append([]pcs.TdxModulePolicy(nil), c.Pol.TDX.AllowedTdxModules...)
			p.TDX = &t
		}
		d.Pol = &p
	}
	if c.DefPol != nil {
		p := *c.DefPol
		d.DefPol = &p
	}
	return &d
}

// ---------------------------------------------------------------------------- vectors

type Vector struct {
	Name     string
	Case     *Case // unmutated input
	Accepted bool
	Result   string // canonical result of the unmutated input
	Hdr      []byte
	Body     []byte
}

var vectors []*Vector

func mustRead(dir, name string) []byte {
	b, err := os.ReadFile(dir + "/" + name)
	if err != nil {
		fmt.Fprintln(os.Stderr, "pcsdrv:", err)
		os.Exit(2)
	}
	return b
}

func loadVectors(dir string) {
	type sj struct {
		body []byte
		sig  string
	}
	tcb := func(name string) sj {
		var s pcs.SignedTCBInfo
		if err := json.Unmarshal(mustRead(dir, name), &s); err != nil {
			panic(err)
		}
		return sj{s.TCBInfo, s.Signature}
	}
	qe := func(name string) sj {
		var s pcs.SignedQEIdentity
		if err := json.Unmarshal(mustRead(dir, name), &s); err != nil {
			panic(err)
		}
		return sj{s.EnclaveIdentity, s.Signature}
	}
	certs := mustRead(dir, "tcb_info_v3_fmspc_00606A000000_certs.pem")
	tdxPol := func() *pcs.QuotePolicy {
		return &pcs.QuotePolicy{TCBValidityPeriod: 30, MinTCBEvaluationDataNumber: 12, TDX: &pcs.TdxQuotePolicy{}}
	}
	mk := func(name, quote string, t, q sj, pol *pcs.QuotePolicy, sec int64) {
		c := &Case{Tag: "base", Quote: mustRead(dir, quote), TcbBody: t.body, TcbSig: t.sig, QeBody: q.body, QeSig: q.sig,
			Certs: certs, Pol: pol, Sec: sec}
		vectors = append(vectors, &Vector{Name: name, Case: c})
	}
	sgxT, sgxQ := tcb("tcb_info_v3_fmspc_00606A000000.json"), qe("qe_identity_v2.json")
	mk("sgx3", "quote_v3_ecdsa_p256_pck_chain.bin", sgxT, sgxQ, nil, 1671497404)
	mk("tdx4", "quote_v4_tdx_ecdsa_p256.bin", tcb("tcb_info_v3_tdx_fmspc_C0806F000000.json"), qe("qe_identity_v2_tdx2.json"), tdxPol(), 1725263032)
	mk("tdx4-ood", "quote_v4_tdx_ecdsa_p256_out_of_date.bin", tcb("tcb_info_v3_tdx_fmspc_50806F000000.json"), qe("qe_identity_v2_tdx.json"), tdxPol(), 1687091776)
	mk("sgx3-eppid", "quote_v3_ecdsa_p256_eppid.bin", sgxT, sgxQ, nil, 1671497404)
	mk("tdx4-trailing", "quote_v4_tdx_ecdsa_p256_trailing.bin", tcb("tcb_info_v3_tdx_fmspc_C0806F000000.json"), qe("qe_identity_v2_tdx2.json"), tdxPol(), 1725263032)
}

// ---------------------------------------------------------------------------- implementation

func setEnv(c *Case) {
	if c.Dbg {
		pcs.SetAllowDebugEnclaves()
	} else {
		pcs.UnsetAllowDebugEnclaves()
	}
	pcs.VerifSetLaxVerify(c.Lax)
	installRoot(c.Root)
	if len(c.Bl) > 0 {
		setBlacklist([][]byte{c.Bl})
	} else {
		setBlacklist(nil)
	}
}

func (c *Case) bundle() *pcs.TCBBundle {
	if c.TcbNil {
		return nil
	}
	return &pcs.TCBBundle{
		TCBInfo:      pcs.SignedTCBInfo{TCBInfo: c.TcbBody, Signature: c.TcbSig},
		QEIdentity:   pcs.SignedQEIdentity{EnclaveIdentity: c.QeBody, Signature: c.QeSig},
		Certificates: c.Certs,
	}
}

func canonResult(v *sgx.VerifiedQuote) string {
	return fmt.Sprintf("accept:%s:%s:%s", hx(v.Identity.MrEnclave[:]), hx(v.Identity.MrSigner[:]), hx(v.ReportData))
}

type implOut struct {
	defRes   string // Quote.Verify under the consensus default PCS policy, when that is the one that must apply
	applyBad string // ApplyDefaultConstraints did not produce the demanded policy
	att      string // outcome of node.SGXAttestation.Verify: "" (not run) | ok | identity | rak | quote
	parseErr string // error of UnmarshalBinary ("" if parsed)
	quote    *pcs.Quote
	res      string // accept:... | reject:<stage>
	errText  string
	ood      string // Status of the TCBOutOfDateError returned by Quote.Verify ("" if none)
	oodKind  int
	panicked string
}

func runImpl(c *Case) (o implOut) {
	defer func() {
		if r := recover(); r != nil {
			o.panicked = fmt.Sprint(r)
		}
	}()
	setEnv(c)
	if len(c.AttRak) == 32 && !c.TcbNil {
		o.att = runAttestation(c)
		if c.Reg != "" {
			o.applyBad = checkApplyDefaults(c)
			if cfg, sc := registrationInputs(c); defaultMustApply(cfg, sc) {
				var dq pcs.Quote
				o.defRes = "reject:parse"
				if dq.UnmarshalBinary(c.Quote) == nil {
					if v, err := dq.Verify(cfg.SGX.DefaultPolicy.PCS, c.ts(), c.bundle()); err == nil {
						o.defRes = canonResult(v)
					} else {
						o.defRes = "reject:" + stageOf(err.Error())
					}
				}
			}
		}
	}
	var q pcs.Quote
	if err := q.UnmarshalBinary(c.Quote); err != nil {
		o.parseErr = err.Error()
		o.res = "reject:parse"
		return
	}
	o.quote = &q
	v, err := q.Verify(c.Pol, c.ts(), c.bundle())
	if err != nil {
		o.errText = err.Error()
		o.res = "reject:" + stageOf(o.errText)
		var oe *pcs.TCBOutOfDateError
		if errors.As(err, &oe) {
			o.ood, o.oodKind = strconv.Itoa(int(oe.Status)), int(oe.Kind)
		}
		return
	}
	o.res = canonResult(v)
	return
}

// runAttestation runs the node-registration side (go/common/node/sgx.go): quote verification,
// enclave identity constraint and RAK binding.
// registrationInputs builds the consensus features and the descriptor's constraints of a case.
func registrationInputs(c *Case) (*node.TEEFeatures, *node.SGXConstraints) {
	cfg := &node.TEEFeatures{SGX: node.TEEFeaturesSGX{PCS: true}}
	sc := &node.SGXConstraints{}
	switch c.Reg {
	case "":
		sc.Policy = &quote.Policy{PCS: c.Pol}
		return cfg, sc
	case "nil":
	case "empty":
		sc.Policy = &quote.Policy{}
	case "ias":
		sc.Policy = &quote.Policy{IAS: &ias.QuotePolicy{}}
	case "pcs":
		sc.Policy = &quote.Policy{PCS: c.Pol}
	case "both":
		sc.Policy = &quote.Policy{IAS: &ias.QuotePolicy{}, PCS: c.Pol}
	}
	cfg.SGX.PCS = c.FsPCS
	switch c.Def {
	case "none":
		cfg.SGX.DefaultPolicy = &quote.Policy{}
	case "pcs":
		cfg.SGX.DefaultPolicy = &quote.Policy{PCS: c.DefPol}
	}
	if c.DefIAS && cfg.SGX.DefaultPolicy != nil {
		cfg.SGX.DefaultPolicy.IAS = &ias.QuotePolicy{}
	}
	return cfg, sc
}

// defaultMustApply: the descriptor leaves the PCS policy unset, the PCS feature is on and there
// is a consensus default policy: its PCS part is the policy the quote must be judged by.
func defaultMustApply(cfg *node.TEEFeatures, sc *node.SGXConstraints) bool {
	return (sc.Policy == nil || sc.Policy.PCS == nil) && cfg.SGX.PCS && cfg.SGX.DefaultPolicy != nil
}

// checkApplyDefaults runs the real ApplyDefaultConstraints on a fresh copy and checks the
// property's demand on its result directly.
func checkApplyDefaults(c *Case) string {
	cfg, sc := registrationInputs(c)
	must := defaultMustApply(cfg, sc)
	var before *pcs.QuotePolicy
	if sc.Policy != nil {
		before = sc.Policy.PCS
	}
	cfg.SGX.ApplyDefaultConstraints(sc)
	var after *pcs.QuotePolicy
	if sc.Policy != nil {
		after = sc.Policy.PCS
	}
	switch {
	case must && after != cfg.SGX.DefaultPolicy.PCS:
		return "descriptor leaves the PCS policy unset (" + c.Reg + ") but after ApplyDefaultConstraints Policy.PCS is not the consensus default"
	case before != nil && after != before:
		return "ApplyDefaultConstraints replaced the descriptor's own PCS policy"
	}
	return ""
}

// runAttestation runs the node-registration side (go/common/node/sgx.go, tee.go): resolution of
// the policy from descriptor constraints and consensus defaults, quote verification, enclave
// identity constraint and RAK binding.
func runAttestation(c *Case) string {
	var rak signature.PublicKey
	copy(rak[:], c.AttRak)
	cfg, sc := registrationInputs(c)
	for i := 0; i+64 <= len(c.AttOK); i += 64 {
		var id sgx.EnclaveIdentity
		copy(id.MrEnclave[:], c.AttOK[i:i+32])
		copy(id.MrSigner[:], c.AttOK[i+32:i+64])
		sc.Enclaves = append(sc.Enclaves, id)
	}
	sa := node.SGXAttestation{Quote: quote.Quote{PCS: &pcs.QuoteBundle{Quote: c.Quote, TCB: *c.bundle()}}}
	sa.V = node.LatestSGXAttestationVersion
	var nodeID signature.PublicKey
	copy(nodeID[:], c.NodeID)
	cfg.SGX.SignedAttestations = c.SAtt
	cfg.SGX.DefaultMaxAttestationAge = c.DefMaxAge
	sc.MaxAttestationAge = c.ScMaxAge
	sa.Height = c.SaHeight
	copy(sa.Signature[:], c.SaSig)
	err := sa.Verify(cfg, c.ts(), c.NowHeight, sc, rak, rekOf(c), nodeID)
	switch {
	case err == nil:
		return "ok"
	case errors.Is(err, node.ErrBadEnclaveIdentity):
		return "identity"
	case errors.Is(err, node.ErrRAKHashMismatch):
		return "rak"
	case errors.Is(err, node.ErrInvalidAttestationSignature):
		return "sig"
	case errors.Is(err, node.ErrAttestationFromFuture):
		return "future"
	case has(err.Error(), "TEE attestation not fresh enough"):
		return "stale"
	}
	return "quote"
}

func rekOf(c *Case) *x25519.PublicKey {
	if len(c.Rek) != 32 {
		return nil
	}
	var k x25519.PublicKey
	copy(k[:], c.Rek)
	return &k
}

// attSigVerdict re-evaluates the RAK signature of a signed attestation over the report data the
// signed report body determines (not over anything the verifier returned).
func attSigVerdict(c *Case, kind string, body []byte) bool {
	var rd []byte
	switch {
	case kind == "td" && len(body) == 584:
		rd = body[520:584]
	case kind == "sgx" && len(body) == 384:
		rd = body[320:384]
	default:
		return false
	}
	var rak, nodeID signature.PublicKey
	copy(rak[:], c.AttRak)
	copy(nodeID[:], c.NodeID)
	h := node.HashAttestation(rd, nodeID, c.SaHeight, rekOf(c))
	return len(c.SaSig) == 64 && rak.Verify(node.AttestationSignatureContext, h, c.SaSig)
}

func has(s, sub string) bool { return strings.Contains(s, sub) }

// parseClass maps an UnmarshalBinary error to the model's parse error class.
func parseClass(e string) string {
	switch {
	case has(e, "invalid quote length"):
		return "len"
	case has(e, "unsupported quote version"):
		return "version"
	case has(e, "data in reserved field"):
		return "reserved"
	case has(e, "unsupported TEE type"):
		return "tee"
	case has(e, "unsupported QE vendor"):
		return "vendor"
	case has(e, "invalid quote body length"):
		return "bodylen"
	case has(e, "malformed TDX attributes"):
		return "tdattr"
	case has(e, "unexpected trailing data"):
		return "trailing"
	case has(e, "unsupported attestation key type"):
		return "keytype"
	case has(e, "invalid ECDSA-P256 quote signature length"):
		return "siglen"
	case has(e, "quote signature certification data size"):
		return "v4size"
	case has(e, "unexpected certification data"):
		return "v4type"
	case has(e, "missing report body"):
		return "qeNoBody"
	case has(e, "missing report signature"):
		return "qeNoSig"
	case has(e, "missing authentication data size"):
		return "qeNoAuthSize"
	case has(e, "invalid authentication data size"):
		return "qeAuthSize"
	case has(e, "missing certification data type"):
		return "qeNoCdType"
	case has(e, "missing certification data size"):
		return "qeNoCdSize"
	case has(e, "invalid certification data size"):
		return "qeCdSize"
	case has(e, "unsupported certification data type"):
		return "cdtype"
	case has(e, "invalid PPID certification data length"):
		return "ppidlen"
	case has(e, "bad X509 certificate in PCK chain"):
		return "pem"
	}
	return "?"
}

// stageOf maps a Quote.Verify error to the model's rejection stage.
func stageOf(e string) string {
	type m struct{ sub, st string }
	first := func(l []m) string {
		for _, x := range l {
			if has(e, x.sub) {
				return x.st
			}
		}
		return "?"
	}
	switch {
	case has(e, "failed to verify TCB info certificate chain"):
		return "tcbChainVerify"
	case has(e, "failed to verify QE identity"):
		return first([]m{
			{"malformed QE identity body", "qeidJson"},
			{"TCB signature verification failed", "qeidSig"},
			{"invalid QE identity: malformed signature", "qeidSigHex"},
			{"invalid QE identity: encoding/hex", "qeidSigHex"},
			{"unexpected QE identity ID", "qeidId"},
			{"unexpected QE identity version", "qeidVersion"},
			{"invalid issue date", "qeidIssueParse"},
			{"invalid next update date", "qeidNextParse"},
			{"issue date in the future", "qeidFuture"},
			{"QE identity expired", "qeidExpired"},
			{"invalid QE evaluation data number", "qeidEvalNum"},
			{"malformed QE MRSIGNER", "qeidMrSignerMalformed"},
			{"invalid QE MRSIGNER", "qeidMrSigner"},
			{"invalid QE ISVProdID", "qeidProdId"},
			{"malformed miscselect", "qeidMiscMalformed"},
			{"invalid QE miscselect", "qeidMisc"},
			{"malformed attributes", "qeidAttrMalformed"},
			{"invalid QE attributes", "qeidAttr"},
			{"QE TCB level not supported", "qeidLevel"},
			{"TCB is not up to date", "qeidStatus"},
		})
	case has(e, "pcs/tcb: failed to verify TCB info: "):
		return first([]m{
			{"malformed TCB info body", "tcbJson"},
			{"TCB signature verification failed", "tcbSig"},
			{"invalid TCB info: malformed signature", "tcbSigHex"},
			{"invalid TCB info: encoding/hex", "tcbSigHex"},
			{"unexpected TCB info identifier", "tcbId"},
			{"unexpected TCB info version", "tcbVersion"},
			{"invalid issue date", "tcbIssueParse"},
			{"invalid next update date", "tcbNextParse"},
			{"issue date in the future", "tcbFuture"},
			{"TCB info expired", "tcbExpired"},
			{"invalid TCB evaluation data number", "tcbEvalNum"},
			{"FMSPC is not whitelisted", "tcbWhitelist"},
			{"FMSPC is blacklisted", "tcbBlacklist"},
			{"malformed FMSPC", "fmspcMalformed"},
			{"FMSPC: mismatch", "fmspcMismatch"},
			{"TDX module TCB level not supported", "tdxModuleLevel"},
			{"TDX module not supported", "tdxModuleUnsupported"},
			{"missing TDX SVN components", "tdxNoSvn"},
			{"missing TCB status", "levelNoStatus"},
			{"TCB level not supported", "levelNone"},
			{"QE TCB is not up to date", "tdxModuleStatus"},
			{"platform TCB is not up to date", "levelStatus"},
		})
	}
	return first([]m{
		{"PCS quotes are disabled", "disabled"},
		{"mismatched report body", "bodyMismatch"},
		{"blacklisted MRSIGNER", "mrSignerBlacklisted"},
		{"disallowed debug/production", "debugMismatch"},
		{"TEE type not allowed", "tdxNotAllowed"},
		{"TDX module not allowed", "tdxModule"},
		{"unsupported TEE type", "teeUnsupported"},
		{"no PCK certificate chain", "noChain"},
		{"pcs/quote: unexpected certificate chain length", "chainLen"},
		{"failed to verify PCK certificate chain", "chainVerify"},
		{"pcs/quote: unexpected number of chains", "chainCount"},
		{"pcs/quote: unexpected root", "chainRoot"},
		{"PCK certificate with non-ECDSA", "pckNonEcdsa"},
		{"bad X509 SGX extensions", "pckExt"},
		{"bad FMSPC", "pckExt"},
		{"bad TCB value", "pckExt"},
		{"bad TCB component", "pckExt"},
		{"bad PCESVN", "pckExt"},
		{"bad CPUSVN", "pckExt"},
		{"missing FMSPC field", "pckNoFmspc"},
		{"failed to verify QE report signature", "qeSig"},
		{"QE report data does not match", "qeData"},
		{"missing TCB bundle", "noTcb"},
		{"bad X509 certificate in TCB bundle", "tcbPem"},
		{"pcs/tcb: unexpected certificate chain length", "tcbChainLen"},
		{"failed to verify TCB info certificate chain", "tcbChainVerify"},
		{"pcs/tcb: unexpected number of chains", "tcbChainCount"},
		{"pcs/tcb: unexpected root", "tcbChainRoot"},
		{"TCB certificate with non-ECDSA", "tcbNonEcdsa"},
		{"invalid attestation public key", "attKey"},
		{"failed to verify quote signature", "quoteSig"},
	})
}

// ---------------------------------------------------------------------------- primitive verdicts

func certID(c *x509.Certificate) string {
	h := sha256.Sum256(c.Raw)
	return hex.EncodeToString(h[:4])
}

func pkID(c *x509.Certificate) (string, *ecdsa.PublicKey) {
	pk, ok := c.PublicKey.(*ecdsa.PublicKey)
	if !ok {
		return "-", nil
	}
	h := sha256.Sum256(c.RawSubjectPublicKeyInfo)
	return hex.EncodeToString(h[:8]), pk
}

func ecdsaRS(pk *ecdsa.PublicKey, msg []byte, rs []byte) bool {
	if pk == nil || len(rs) != 64 {
		return false
	}
	h := sha256.Sum256(msg)
	var r, s big.Int
	r.SetBytes(rs[:32])
	s.SetBytes(rs[32:])
	return ecdsa.Verify(pk, h[:], &r, &s)
}

// x509Verdict re-evaluates a chain verification to the Intel root: "fail" or "<n>:<last id>".
func x509Verdict(leaf *x509.Certificate, inter *x509.Certificate, ts time.Time) string {
	opts := x509.VerifyOptions{Roots: pcs.IntelTrustRoots, CurrentTime: ts}
	if inter != nil {
		opts.Intermediates = x509.NewCertPool()
		opts.Intermediates.AddCert(inter)
	}
	chains, err := leaf.Verify(opts)
	if err != nil {
		return "fail"
	}
	last := "00"
	if len(chains) > 0 && len(chains[0]) > 0 {
		last = certID(chains[0][len(chains[0])-1])
	}
	return fmt.Sprintf("%d:%s", len(chains), last)
}

func ints32(a [16]int32) string {
	s := make([]string, 16)
	for i, x := range a {
		s[i] = strconv.Itoa(int(x))
	}
	return strings.Join(s, ",")
}

func timeNs(t time.Time) string {
	n := new(big.Int).Mul(big.NewInt(t.Unix()), big.NewInt(1000000000))
	n.Add(n, big.NewInt(int64(t.Nanosecond())))
	return n.String()
}

func parseT(s string) string {
	t, err := time.Parse(pcs.TimestampFormat, s)
	if err != nil {
		return "x"
	}
	return timeNs(t)
}

func enclaveLevels(l []pcs.EnclaveTCBLevel) string {
	if len(l) == 0 {
		return "-"
	}
	s := make([]string, len(l))
	for i, x := range l {
		s[i] = fmt.Sprintf("%d.%d", x.TCB.ISVSVN, int(x.Status))
	}
	return strings.Join(s, ",")
}

type tiFacts struct {
	enc   string
	ok    bool
	info  pcs.TCBInfo
	issue *time.Time
}

func tcbInfoFacts(body []byte) tiFacts {
	var ti pcs.TCBInfo
	if err := json.Unmarshal(body, &ti); err != nil {
		return tiFacts{enc: "none"}
	}
	lv := make([]string, len(ti.TCBLevels))
	for i, l := range ti.TCBLevels {
		var a, b [16]int32
		for j := range 16 {
			a[j] = l.TCB.SGXComponents[j].SVN
			b[j] = l.TCB.TDXComponents[j].SVN
		}
		lv[i] = fmt.Sprintf("%d:%s:%s:%d", l.TCB.PCESVN, ints32(a), ints32(b), int(l.Status))
	}
	mods := make([]string, len(ti.TDXModuleIdentities))
	for i, m := range ti.TDXModuleIdentities {
		mods[i] = fmt.Sprintf("%s:%s", hx([]byte(m.ID)), enclaveLevels(m.TCBLevels))
	}
	join := func(l []string) string {
		if len(l) == 0 {
			return "-"
		}
		return strings.Join(l, ";")
	}
	next := "1"
	if parseT(ti.NextUpdate) == "x" {
		next = "0"
	}
	f := tiFacts{ok: true, info: ti}
	if t, err := time.Parse(pcs.TimestampFormat, ti.IssueDate); err == nil {
		f.issue = &t
	}
	f.enc = fmt.Sprintf("%s|%d|%s|%s|%s|%d|%s|%s|%s", hx([]byte(ti.ID)), ti.Version, parseT(ti.IssueDate), next,
		hx([]byte(ti.FMSPC)), ti.TCBEvaluationDataNumber, join(lv), join(mods), hx([]byte(ti.PCEID)))
	return f
}

type qiFacts struct {
	enc   string
	ok    bool
	info  pcs.QEIdentity
	issue *time.Time
}

func qeIdFacts(body []byte) qiFacts {
	var qi pcs.QEIdentity
	if err := json.Unmarshal(body, &qi); err != nil {
		return qiFacts{enc: "none"}
	}
	next := "1"
	if parseT(qi.NextUpdate) == "x" {
		next = "0"
	}
	f := qiFacts{ok: true, info: qi}
	if t, err := time.Parse(pcs.TimestampFormat, qi.IssueDate); err == nil {
		f.issue = &t
	}
	s := func(x string) string { return hx([]byte(x)) }
	f.enc = fmt.Sprintf("%s|%d|%s|%s|%d|%s|%s|%s|%s|%s|%d|%s", s(qi.ID), qi.Version, parseT(qi.IssueDate), next,
		qi.TCBEvaluationDataNumber, s(qi.MiscSelect), s(qi.MiscSelectMask), s(qi.Attributes), s(qi.AttributesMask),
		s(qi.MRSIGNER), qi.ISVProdID, enclaveLevels(qi.TCBLevels))
	return f
}

func pemCerts(data []byte) ([]*x509.Certificate, bool) {
	var certs []*x509.Certificate
	for len(data) > 0 {
		cert, rest, err := pcs.CertFromPEM(data)
		if err != nil {
			return nil, false
		}
		if cert == nil {
			break
		}
		certs = append(certs, cert)
		data = rest
	}
	return certs, true
}

// pckPceID extracts the PCE-ID (SGX extension 1.2.840.113741.1.13.1.3) of a PCK certificate.
// The pcs package does not; the property's "collateral belongs to the platform" clause needs it.
func pckPceID(c *x509.Certificate) []byte {
	for _, ext := range c.Extensions {
		if !ext.Id.Equal(pcs.PCK_SGX_Extensions) {
			continue
		}
		var exts []pcs.SGXExtension
		if _, err := asn1.Unmarshal(ext.Value, &exts); err != nil {
			return nil
		}
		for _, e := range exts {
			if e.Id.Equal(asn1.ObjectIdentifier{1, 2, 840, 113741, 1, 13, 1, 3}) {
				var v []byte
				if _, err := asn1.Unmarshal(e.Value.FullBytes, &v); err == nil {
					return v
				}
			}
		}
		return nil
	}
	return nil
}

func certsEnc(certs []*x509.Certificate, exts map[int]string) string {
	if len(certs) == 0 {
		return "-"
	}
	s := make([]string, len(certs))
	for i, c := range certs {
		pk, _ := pkID(c)
		ext := "na"
		if e, ok := exts[i]; ok {
			ext = e
		}
		pce := "~"
		if p := pckPceID(c); len(p) > 0 {
			pce = hex.EncodeToString(p)
		}
		s[i] = fmt.Sprintf("%s:%s:%s:%s", certID(c), pk, ext, pce)
	}
	return strings.Join(s, ";")
}

func policyEnc(p *pcs.QuotePolicy) string { return policyEncP(p, "") }

func policyEncP(p *pcs.QuotePolicy, pre string) string {
	if p == nil {
		return pre + "pol=nil"
	}
	strs := func(l []string) string {
		if len(l) == 0 {
			return "-"
		}
		s := make([]string, len(l))
		for i, x := range l {
			s[i] = "x" + hex.EncodeToString([]byte(x)) // marker keeps the empty string visible
		}
		return strings.Join(s, ",")
	}
	tdx := "nil"
	if p.TDX != nil {
		tdx = "-"
		if len(p.TDX.AllowedTdxModules) > 0 {
			s := make([]string, len(p.TDX.AllowedTdxModules))
			for i, m := range p.TDX.AllowedTdxModules {
				seam := "-"
				if m.MrSeam != nil {
					seam = hex.EncodeToString(m.MrSeam[:])
				}
				s[i] = seam + ":" + hex.EncodeToString(m.MrSignerSeam[:])
			}
			tdx = strings.Join(s, ";")
		}
	}
	return fmt.Sprintf("%[1]spol=set %[1]sdis=%[2]s %[1]sval=%[3]d %[1]smin=%[4]d %[1]swl=%[5]s %[1]sblk=%[6]s %[1]stdx=%[7]s", pre, b01(p.Disabled), p.TCBValidityPeriod,
		p.MinTCBEvaluationDataNumber, strs(p.FMSPCWhitelist), strs(p.FMSPCBlacklist), tdx)
}

// levelStage maps an error of getTCBLevel / validateTCBLevel (called directly) to the model's stage.
func levelStage(e string) string {
	for _, x := range [][2]string{
		{"TDX module TCB level not supported", "tdxModuleLevel"},
		{"TDX module not supported", "tdxModuleUnsupported"},
		{"missing TDX SVN components", "tdxNoSvn"},
		{"missing TCB status", "levelNoStatus"},
		{"TCB level not supported", "levelNone"},
		{"QE TCB is not up to date", "tdxModuleStatus"},
		{"platform TCB is not up to date", "levelStatus"},
	} {
		if has(e, x[0]) {
			return x[1]
		}
	}
	return "?"
}

// tdxSvnOf is the TEE TCB SVN array Quote.Verify hands to the TCB bundle (nil for SGX).
func tdxSvnOf(p *pcs.VerifQuoteParts) (*[16]byte, bool) {
	if p.TeeType != uint32(pcs.TeeTypeTDX) {
		return nil, true
	}
	if p.BodyKind != "td" || len(p.BodyRaw) < 16 {
		return nil, false
	}
	var a [16]byte
	copy(a[:], p.BodyRaw[:16])
	return &a, true
}

// levelFacts runs the real getTCBLevel, TCBLevel.matches and validateTCBLevel directly on the
// decoded TCB info with the SVNs of the PCK certificate and of the TD report.
func levelFacts(f *facts, p *pcs.VerifQuoteParts) (lv, mt, vt string, ok bool) {
	if f.pckInfo == nil || !f.ti.ok {
		return
	}
	tdx, good := tdxSvnOf(p)
	if !good {
		return
	}
	ti := f.ti.info
	idx, st, err := ti.VerifGetTCBLevel(f.pckInfo.TCBCompSVN, tdx, f.pckInfo.PCESVN)
	if err != nil {
		lv = "err:" + levelStage(err.Error())
	} else {
		lv = fmt.Sprintf("%d:%d", idx, int(st))
	}
	mt = "-"
	if len(ti.TCBLevels) > 0 {
		b := make([]byte, len(ti.TCBLevels))
		for i := range ti.TCBLevels {
			b[i] = '0'
			if ti.TCBLevels[i].VerifMatches(f.pckInfo.TCBCompSVN, tdx, f.pckInfo.PCESVN) {
				b[i] = '1'
			}
		}
		mt = string(b)
	}
	vt = "ok"
	if err := ti.VerifValidateTCBLevel(f.pckInfo.TCBCompSVN, tdx, f.pckInfo.PCESVN); err != nil {
		vt = levelStage(err.Error())
	}
	return lv, mt, vt, true
}

// directFacts runs the pure decision functions of tcb.go directly (no signatures involved) on the
// decoded collateral of the case: QEIdentity.validate + QEIdentity.verify against the QE report
// (`dq`), and TCBInfo.validate + validateFMSPC + validateTCBLevel against the PCK certificate's
// FMSPC and SVNs (`dt`). They are compared with the same functions of the model on every case,
// also when Quote.Verify itself stops at an earlier check (e.g. every bit-flipped collateral body
// of a recorded vector, whose signature no longer verifies).
func directFacts(c *Case, f *facts, p *pcs.VerifQuoteParts) (dq, dt string) {
	pol := c.Pol
	if pol == nil {
		pol = &pcs.QuotePolicy{TCBValidityPeriod: 30, MinTCBEvaluationDataNumber: pcs.DefaultMinTCBEvaluationDataNumber}
	}
	tee := pcs.TeeType(p.TeeType)
	if tee != pcs.TeeTypeSGX && tee != pcs.TeeTypeTDX {
		return
	}
	first := func(e string, l [][2]string) string {
		for _, x := range l {
			if has(e, x[0]) {
				return x[1]
			}
		}
		return "?"
	}
	if f.qi.ok && len(p.QEReportRaw) == 384 {
		qi := f.qi.info
		dq = "ok"
		if err := qi.VerifValidate(tee, c.ts(), pol); err != nil {
			dq = first(err.Error(), qeStages)
		} else if err := qi.VerifVerify(p.QEReportRaw); err != nil {
			dq = first(err.Error(), qeStages)
		}
	}
	if f.ti.ok && f.pckInfo != nil {
		if tdx, good := tdxSvnOf(p); good {
			ti := f.ti.info
			dt = "ok"
			if err := ti.VerifValidate(tee, c.ts(), pol); err != nil {
				dt = first(err.Error(), tiStages)
			} else if err := ti.VerifValidateFMSPC(f.pckInfo.FMSPC); err != nil {
				dt = first(err.Error(), tiStages)
			} else if err := ti.VerifValidateTCBLevel(f.pckInfo.TCBCompSVN, tdx, f.pckInfo.PCESVN); err != nil {
				dt = first(err.Error(), tiStages)
			}
		}
	}
	return
}

var qeStages = [][2]string{
	{"unexpected QE identity ID", "qeidId"},
	{"unexpected QE identity version", "qeidVersion"},
	{"invalid issue date", "qeidIssueParse"},
	{"invalid next update date", "qeidNextParse"},
	{"issue date in the future", "qeidFuture"},
	{"QE identity expired", "qeidExpired"},
	{"invalid QE evaluation data number", "qeidEvalNum"},
	{"malformed QE MRSIGNER", "qeidMrSignerMalformed"},
	{"invalid QE MRSIGNER", "qeidMrSigner"},
	{"invalid QE ISVProdID", "qeidProdId"},
	{"malformed miscselect", "qeidMiscMalformed"},
	{"invalid QE miscselect", "qeidMisc"},
	{"malformed attributes", "qeidAttrMalformed"},
	{"invalid QE attributes", "qeidAttr"},
	{"QE TCB level not supported", "qeidLevel"},
	{"TCB is not up to date", "qeidStatus"},
}

var tiStages = [][2]string{
	{"unexpected TCB info identifier", "tcbId"},
	{"unexpected TCB info version", "tcbVersion"},
	{"invalid issue date", "tcbIssueParse"},
	{"invalid next update date", "tcbNextParse"},
	{"issue date in the future", "tcbFuture"},
	{"TCB info expired", "tcbExpired"},
	{"invalid TCB evaluation data number", "tcbEvalNum"},
	{"FMSPC is not whitelisted", "tcbWhitelist"},
	{"FMSPC is blacklisted", "tcbBlacklist"},
	{"malformed FMSPC", "fmspcMalformed"},
	{"FMSPC: mismatch", "fmspcMismatch"},
	{"TDX module TCB level not supported", "tdxModuleLevel"},
	{"TDX module not supported", "tdxModuleUnsupported"},
	{"missing TDX SVN components", "tdxNoSvn"},
	{"missing TCB status", "levelNoStatus"},
	{"TCB level not supported", "levelNone"},
	{"QE TCB is not up to date", "tdxModuleStatus"},
	{"platform TCB is not up to date", "levelStatus"},
}

// facts are everything the spec predicates need, re-evaluated by the harness.
type facts struct {
	line      string
	parts     *pcs.VerifQuoteParts
	ti        tiFacts
	qi        qiFacts
	pckFmspc  []byte
	pckInfo   *pcs.PCKInfo
	pckPceID  []byte
	allLinks  bool // every signature / chain / hash link re-evaluated true
	linkFails []string
}

var blacklistEnc string

func setBlacklist(l [][]byte) {
	pcs.VerifSetMrSignerBlacklist(l)
	var s []string
	for _, b := range pcs.VerifMrSignerBlacklist() {
		s = append(s, hex.EncodeToString(b))
	}
	sort.Strings(s)
	blacklistEnc = "-"
	if len(s) > 0 {
		blacklistEnc = strings.Join(s, ",")
	}
}

func modelLine(c *Case, o *implOut, withRaw bool) (f facts) {
	ts := c.ts()
	var w []string
	add := func(k, v string) { w = append(w, k+"="+v) }
	if o.parseErr != "" {
		add("rawerr", parseClass(o.parseErr))
		add("raw", hx(c.Quote))
		f.line = "v " + strings.Join(w, " ")
		return
	}
	p := o.quote.VerifParts()
	f.parts = p
	add("dbg", b01(c.Dbg))
	add("lax", b01(c.Lax))
	add("bl", blacklistEnc)
	w = append(w, policyEnc(c.Pol))
	add("ts", timeNs(ts))
	add("hdr", hx(p.HeaderRaw))
	add("tee", strconv.Itoa(int(p.TeeType)))
	add("kind", p.BodyKind)
	add("body", hx(p.BodyRaw))
	add("sig", hx(p.Signature[:]))
	add("ak", hx(p.AttestationKey[:]))
	add("qer", hx(p.QEReportRaw))
	add("qes", hx(p.QEReportSignature[:]))
	add("auth", hx(p.AuthData))
	link := func(name string, ok bool) {
		if !ok {
			f.linkFails = append(f.linkFails, name)
		}
	}
	// PCK chain.
	var pckPk *ecdsa.PublicKey
	if p.CertDataType == pcs.CertificationDataPCKCertificateChain {
		add("cd", "chain")
		exts := map[int]string{}
		pckx := "fail"
		if len(p.Chain) >= 2 {
			pckx = x509Verdict(p.Chain[0], p.Chain[1], ts)
		}
		if len(p.Chain) >= 1 {
			f.pckPceID = pckPceID(p.Chain[0])
		}
		if len(p.Chain) == 3 {
			_, pckPk = pkID(p.Chain[0])
			if strings.HasPrefix(pckx, "1:") {
				// Extension content as extracted by the package (ASN.1 decoding is library code).
				qs := o.quote.Signature().(*pcs.QuoteSignatureECDSA_P256)
				info, err := qs.VerifyPCK(ts)
				switch {
				case err == nil:
					exts[0] = fmt.Sprintf("ok/%s/%s/%d", hex.EncodeToString(info.FMSPC), ints32(info.TCBCompSVN), info.PCESVN)
					f.pckFmspc = info.FMSPC
					f.pckInfo = info
				case has(err.Error(), "missing FMSPC field"):
					exts[0] = "ok/~/-/0"
				default:
					exts[0] = "bad"
				}
			}
		}
		link("pck-chain", len(p.Chain) == 3 && strings.HasPrefix(pckx, "1:") && pckx[2:] == certID(p.Chain[2]))
		add("certs", certsEnc(p.Chain, exts))
		add("pckx", pckx)
	} else {
		add("cd", "ppid")
		link("pck-chain", false)
	}
	vqe := ecdsaRS(pckPk, p.QEReportRaw, p.QEReportSignature[:])
	add("vqe", b01(vqe))
	link("qe-report-sig", vqe)
	h := sha256.New()
	h.Write(p.AttestationKey[:])
	h.Write(p.AuthData)
	hh := h.Sum(nil)
	add("h", hx(hh))
	link("qe-report-data", len(p.QEReportRaw) == 384 && bytes.Equal(p.QEReportRaw[320:352], hh) && bytes.Equal(p.QEReportRaw[352:384], make([]byte, 32)))
	attPk, err := ecdsa.ParseUncompressedPublicKey(elliptic.P256(), append([]byte{0x04}, p.AttestationKey[:]...))
	add("akok", b01(err == nil))
	vq := false
	if err == nil {
		vq = ecdsaRS(attPk, append(append([]byte{}, p.HeaderRaw...), p.BodyRaw...), p.Signature[:])
	}
	add("vq", b01(vq))
	link("quote-sig", vq)
	tdmr := "-"
	if p.BodyKind == "td" && len(p.BodyRaw) == 584 {
		th := tuplehash.New256(32, []byte(pcs.TdEnclaveIdentityContext))
		b := p.BodyRaw
		for _, off := range []int{136, 328, 376, 424, 472} {
			_, _ = th.Write(b[off : off+48])
		}
		tdmr = hx(th.Sum(nil))
	}
	add("tdmr", tdmr)
	// Bundle.
	if c.TcbNil {
		add("tcb", "nil")
		link("tcb", false)
	} else {
		add("tcb", "set")
		certs, ok := pemCerts(c.Certs)
		var tcbPk *ecdsa.PublicKey
		if !ok {
			add("pem", "fail")
			link("tcb-chain", false)
		} else {
			add("pem", certsEnc(certs, nil))
			tcbx := "fail"
			if len(certs) >= 1 {
				tcbx = x509Verdict(certs[0], nil, ts)
				_, tcbPk = pkID(certs[0])
			}
			add("tcbx", tcbx)
			link("tcb-chain", len(certs) == 2 && strings.HasPrefix(tcbx, "1:") && tcbx[2:] == certID(certs[1]))
		}
		add("tis", hx([]byte(c.TcbSig)))
		add("qis", hx([]byte(c.QeSig)))
		sigOf := func(s string) []byte {
			b, err := hex.DecodeString(s)
			if err != nil || len(b) != 64 {
				return nil
			}
			return b
		}
		vtcb := ecdsaRS(tcbPk, c.TcbBody, sigOf(c.TcbSig))
		vqeid := ecdsaRS(tcbPk, c.QeBody, sigOf(c.QeSig))
		add("vtcb", b01(vtcb))
		add("vqeid", b01(vqeid))
		link("tcb-info-sig", vtcb)
		link("qe-identity-sig", vqeid)
		f.ti = tcbInfoFacts(c.TcbBody)
		f.qi = qeIdFacts(c.QeBody)
		add("ti", f.ti.enc)
		add("qi", f.qi.enc)
		if lv, mt, vt, ok := levelFacts(&f, p); ok {
			add("lv", lv)
			add("mt", mt)
			add("vt", vt)
		}
		if dq, dt := directFacts(c, &f, p); true {
			if dq != "" {
				add("dq", dq)
			}
			if dt != "" {
				add("dt", dt)
			}
		}
	}
	if o.ood != "" {
		add("ood", o.ood)
	}
	if withRaw {
		add("raw", hx(c.Quote))
	}
	if o.att != "" {
		var rak signature.PublicKey
		copy(rak[:], c.AttRak)
		rh := node.HashRAK(rak)
		add("att", hx(rh[:]))
		var ids []string
		for i := 0; i+64 <= len(c.AttOK); i += 64 {
			ids = append(ids, hex.EncodeToString(c.AttOK[i:i+32])+":"+hex.EncodeToString(c.AttOK[i+32:i+64]))
		}
		if len(ids) == 0 {
			ids = []string{"-"}
		}
		add("allowed", strings.Join(ids, ";"))
		add("implatt", o.att)
		{
			// SGXConstraints.ValidateBasic of the descriptor's constraints: TDX feature x feature version x structure version
			vb := make([]byte, 0, 12)
			for _, tdxOn := range []bool{false, true} {
				for _, f261 := range []bool{false, true} {
					for _, v := range []uint16{0, 1, 2} {
						cfg, sc := registrationInputs(c)
						cfg.SGX.TDX = tdxOn
						sc.Versioned = cbor.NewVersioned(v)
						if sc.ValidateBasic(cfg, f261) == nil {
							vb = append(vb, '1')
						} else {
							vb = append(vb, '0')
						}
					}
				}
			}
			add("vb", string(vb))
		}
		if c.SAtt || len(c.NodeID) > 0 {
			add("satt", b01(c.SAtt))
			add("sah", strconv.FormatUint(c.SaHeight, 10))
			add("nowh", strconv.FormatUint(c.NowHeight, 10))
			add("scage", strconv.FormatUint(c.ScMaxAge, 10))
			add("defage", strconv.FormatUint(c.DefMaxAge, 10))
			add("rek", hx(c.Rek))
			add("nid", hx(c.NodeID))
			add("vsa", b01(attSigVerdict(c, p.BodyKind, p.BodyRaw)))
		}
		if c.Reg != "" {
			_, sc := registrationInputs(c)
			rp := "set"
			if sc.Policy == nil {
				rp = "nil"
			}
			add("regpol", rp)
			add("regias", b01(sc.Policy != nil && sc.Policy.IAS != nil))
			add("regpcs", b01(sc.Policy != nil && sc.Policy.PCS != nil))
			add("fspcs", b01(c.FsPCS))
			if c.Def == "none" || c.Def == "pcs" {
				add("def", "set")
				add("defias", b01(c.DefIAS))
				var dp *pcs.QuotePolicy
				if c.Def == "pcs" {
					dp = c.DefPol
				}
				w = append(w, policyEncP(dp, "d"))
			} else {
				add("def", "nil")
			}
		}
	}
	add("impl", o.res)
	f.allLinks = len(f.linkFails) == 0
	f.line = "v " + strings.Join(w, " ")
	return
}

// ---------------------------------------------------------------------------- spec on implementation

// specCheck evaluates the property's clauses directly on what the implementation answered.
func specCheck(c *Case, o *implOut, f *facts) (sig, detail string) {
	if o.applyBad != "" {
		return "default-policy-not-applied", o.applyBad
	}
	if o.defRes != "" && strings.HasPrefix(o.defRes, "reject:") && o.att != "quote" && o.att != "" {
		return "default-policy-not-applied", fmt.Sprintf("the descriptor (%s) sets no PCS policy, the consensus default PCS policy rejects the quote (%s), but SGXAttestation.Verify let the quote pass (%s)", c.Reg, o.defRes, o.att)
	}
	if c.Reg != "" {
		// the primary result below was obtained with the case's own policy, not the resolved one
		if o.att == "ok" && o.defRes == "" && !strings.HasPrefix(o.res, "accept:") {
			if _, sc := registrationInputs(c); sc.Policy != nil && sc.Policy.PCS != nil {
				return "attestation-accepted-unverified-quote", "node attestation accepted while Quote.Verify under the descriptor's policy rejects: " + o.res
			}
		}
	} else if o.att == "ok" && !strings.HasPrefix(o.res, "accept:") {
		return "attestation-accepted-unverified-quote", "node attestation accepted while Quote.Verify rejects: " + o.res
	}
	if !strings.HasPrefix(o.res, "accept:") {
		return "", ""
	}
	if o.att == "ok" {
		// node registration: the verified identity is allowed and the report data carries H(RAK)
		parts := strings.Split(o.res, ":")
		var rak signature.PublicKey
		copy(rak[:], c.AttRak)
		rh := node.HashRAK(rak)
		if len(parts) != 4 || !strings.HasPrefix(parts[3], hex.EncodeToString(rh[:])) {
			return "attestation-accepted-wrong-rak", "report data of the verified quote does not start with the hash of the RAK"
		}
		found := false
		for i := 0; i+64 <= len(c.AttOK); i += 64 {
			if hex.EncodeToString(c.AttOK[i:i+32]) == parts[1] && hex.EncodeToString(c.AttOK[i+32:i+64]) == parts[2] {
				found = true
			}
		}
		if !found {
			return "attestation-accepted-wrong-identity", "verified enclave identity is not among the allowed ones"
		}
		if c.SAtt {
			// signed attestations: the RAK signed (signed report data, this node, this height, REK), and the height is fresh
			if !attSigVerdict(c, f.parts.BodyKind, f.parts.BodyRaw) {
				return "attestation-accepted-unsigned", "signed attestations are required, but the RAK signature does not cover (report data, node id, attestation height, REK)"
			}
			eff := c.ScMaxAge
			if eff == 0 {
				eff = c.DefMaxAge
			}
			if c.SaHeight > c.NowHeight || c.NowHeight-c.SaHeight > eff {
				return "attestation-accepted-not-fresh", fmt.Sprintf("attestation height %d accepted at height %d with maximum age %d", c.SaHeight, c.NowHeight, eff)
			}
		}
	}
	// (1) The result is the one of a genuine recorded quote whose header and body are carried.
	genuine := false
	for _, v := range vectors {
		if v.Accepted && bytes.Equal(f.parts.HeaderRaw, v.Hdr) && bytes.Equal(f.parts.BodyRaw, v.Body) {
			genuine = true
			if o.res != v.Result {
				return "accepted-mutant-different-result", fmt.Sprintf("accepted with %s, the genuine quote %s verifies to %s", o.res, v.Name, v.Result)
			}
		}
	}
	if len(c.Root) > 0 && !genuine {
		// Synthetic root of trust: only the harness can sign under it, so a quote whose links all
		// verify is harness-made; the result must be the function of its report body.
		genuine = f.allLinks
		if want := expectedFromBody(f.parts.BodyKind, f.parts.BodyRaw); genuine && o.res != want {
			return "accepted-mutant-different-result", fmt.Sprintf("accepted with %s, the signed report body determines %s", o.res, want)
		}
		if want, ok := synthGenuine[hex.EncodeToString(append(append([]byte{}, f.parts.HeaderRaw...), f.parts.BodyRaw...))]; ok && o.res != want {
			return "accepted-mutant-different-result", fmt.Sprintf("accepted with %s, the generator signed %s", o.res, want)
		}
	}
	if !genuine {
		return "accepted-unsigned-body", "accepted a quote whose header/report body is not one of the recorded genuine ones: " + o.res
	}
	// (2) Every signature / chain / hash link holds.
	if !f.allLinks {
		return "accepted-broken-link:" + f.linkFails[0], "accepted although re-evaluated links fail: " + strings.Join(f.linkFails, ",")
	}
	pol := c.Pol
	if pol == nil {
		pol = &pcs.QuotePolicy{TCBValidityPeriod: 30, MinTCBEvaluationDataNumber: pcs.DefaultMinTCBEvaluationDataNumber}
	}
	// (3) Collateral validity window.
	ts := c.ts()
	win := func(name string, issue *time.Time) (string, string) {
		if issue == nil {
			return "accepted-unparsed-issue-date", name
		}
		d := new(big.Int).Sub(bigNs(ts), bigNs(*issue))
		lim := new(big.Int).Mul(big.NewInt(int64(pol.TCBValidityPeriod)), big.NewInt(24*3600*1000000000))
		if d.Sign() < 0 {
			return "accepted-future-collateral", name + " issued after the verification time"
		}
		if d.Cmp(lim) > 0 {
			return "accepted-expired-collateral", name + " older than the validity period"
		}
		return "", ""
	}
	if !f.ti.ok || !f.qi.ok {
		return "accepted-undecodable-collateral", "collateral body does not decode"
	}
	if s, d := win("TCB info", f.ti.issue); s != "" {
		return s, d
	}
	if s, d := win("QE identity", f.qi.issue); s != "" {
		return s, d
	}
	// (4) Policy.
	if pol.Disabled {
		return "accepted-while-disabled", "policy.Disabled"
	}
	if f.ti.info.TCBEvaluationDataNumber < pol.MinTCBEvaluationDataNumber || f.qi.info.TCBEvaluationDataNumber < pol.MinTCBEvaluationDataNumber {
		return "accepted-low-evaluation-number", "evaluation data number below the policy minimum"
	}
	for _, b := range pol.FMSPCBlacklist {
		if b == f.ti.info.FMSPC {
			return "accepted-blacklisted-fmspc", b
		}
	}
	if f.parts.TeeType == uint32(pcs.TeeTypeTDX) && pol.TDX == nil {
		return "accepted-tdx-not-allowed", "TDX quote accepted without TDX policy"
	}
	// (4b) TCB status: the platform satisfies every component bound of a level of the signed TCB
	// info whose status is allowed, and of no earlier level; the same for the TDX module and the QE.
	if sig, d := specTcbStatus(c, f); sig != "" {
		return sig, d
	}
	// K2: the black list read as a list of platforms (decoded FMSPC), not of strings.
	if fm, err := hex.DecodeString(f.ti.info.FMSPC); err == nil {
		for _, b := range pol.FMSPCBlacklist {
			if bb, err := hex.DecodeString(b); err == nil && bytes.Equal(bb, fm) {
				return "fmspc-blacklist-case-bypass", fmt.Sprintf("accepted although the FMSPC black list contains %q and the TCB info's FMSPC is %q", b, f.ti.info.FMSPC)
			}
		}
	}
	// (5) Collateral belongs to the platform and TEE type.
	fm, err := hex.DecodeString(f.ti.info.FMSPC)
	if err != nil || !bytes.Equal(fm, f.pckFmspc) {
		return "accepted-foreign-collateral", fmt.Sprintf("TCB info FMSPC %s, PCK certificate FMSPC %X", f.ti.info.FMSPC, f.pckFmspc)
	}
	wantTi, wantQi := "SGX", "QE"
	if f.parts.TeeType == uint32(pcs.TeeTypeTDX) {
		wantTi, wantQi = "TDX", "TD_QE"
	}
	if f.ti.info.ID != wantTi || f.qi.info.ID != wantQi {
		return "accepted-foreign-collateral", "collateral of the other TEE type accepted"
	}
	// K1: the TCB info is for the PCE of the quote's PCK certificate.
	if pce, err := hex.DecodeString(f.ti.info.PCEID); err != nil || len(f.pckPceID) == 0 || !bytes.Equal(pce, f.pckPceID) {
		return "foreign-collateral-pceid-accepted", fmt.Sprintf("accepted although the TCB info is for pceId %q and the PCK certificate's PCE-ID is %X", f.ti.info.PCEID, f.pckPceID)
	}
	return "", ""
}

// levelSatisfied is Intel's TCB-level rule stated on index sets (no loop exits, no offsets):
// every SGX component SVN and the PCESVN of the PCK certificate are at least the level's; for TDX
// so is every TEE TCB SVN of the TD report, where indexes 0 and 1 (the TDX module's SVN and major
// version) are exempt exactly when the module version (index 1) is not 0.
func levelSatisfied(l *pcs.TCBLevel, sgxSvn [16]int32, tdx *[16]byte, pce uint16) (bool, string) {
	for i := 0; i < 16; i++ {
		if sgxSvn[i] < l.TCB.SGXComponents[i].SVN {
			return false, fmt.Sprintf("SGX component %d: platform %d < level %d", i, sgxSvn[i], l.TCB.SGXComponents[i].SVN)
		}
	}
	if pce < l.TCB.PCESVN {
		return false, fmt.Sprintf("PCESVN: platform %d < level %d", pce, l.TCB.PCESVN)
	}
	if tdx != nil {
		for i := 0; i < 16; i++ {
			compared := tdx[1] == 0 || i >= 2
			if compared && int32(tdx[i]) < l.TCB.TDXComponents[i].SVN {
				return false, fmt.Sprintf("TEE TCB SVN %d: platform %d < level %d (TDX module version %d)", i, tdx[i], l.TCB.TDXComponents[i].SVN, tdx[1])
			}
		}
	}
	return true, ""
}

func platformStatusAllowed(st pcs.TCBStatus, lax bool) bool {
	switch st {
	case pcs.StatusUpToDate, pcs.StatusSWHardeningNeeded:
		return true
	case pcs.StatusOutOfDate, pcs.StatusConfigurationNeeded, pcs.StatusOutOfDateConfigurationNeeded:
		return lax
	}
	return false
}

func firstEnclaveLevel(l []pcs.EnclaveTCBLevel, isvsvn uint16) *pcs.EnclaveTCBLevel {
	for i := range l {
		if l[i].TCB.ISVSVN <= isvsvn {
			return &l[i]
		}
	}
	return nil
}

// specTcbStatus: an accepted quote's platform, TDX module and quoting enclave each reach a level
// with an allowed status in the signed collateral.
func specTcbStatus(c *Case, f *facts) (string, string) {
	if f.pckInfo == nil {
		return "accepted-without-pck-info", "accepted although the PCK certificate's SGX extensions do not decode"
	}
	tdx, ok := tdxSvnOf(f.parts)
	if !ok {
		return "accepted-mismatched-body", "TDX quote without a TD report accepted"
	}
	ti := &f.ti.info
	var sel *pcs.TCBLevel
	why := ""
	for i := range ti.TCBLevels {
		sat, w := levelSatisfied(&ti.TCBLevels[i], f.pckInfo.TCBCompSVN, tdx, f.pckInfo.PCESVN)
		if sat {
			sel = &ti.TCBLevels[i]
			break
		}
		why += fmt.Sprintf(" level %d (%s): %s;", i, ti.TCBLevels[i].Status, w)
	}
	if sel == nil {
		return "accepted-disallowed-tcb-status", "accepted although the platform reaches no TCB level of the signed TCB info:" + why
	}
	if !platformStatusAllowed(sel.Status, c.Lax) {
		return "accepted-disallowed-tcb-status", fmt.Sprintf("accepted although the first TCB level the platform reaches has status %q (lax=%v); levels not reached:%s", sel.Status.String(), c.Lax, why)
	}
	if tdx != nil && tdx[1] >= 1 {
		var mod *pcs.TDXModuleIdentity
		want := fmt.Sprintf("TDX_%02d", tdx[1])
		for i := range ti.TDXModuleIdentities {
			if ti.TDXModuleIdentities[i].ID == want {
				mod = &ti.TDXModuleIdentities[i]
				break
			}
		}
		if mod == nil {
			return "accepted-disallowed-tdx-module-status", "accepted although the signed TCB info has no TDX module identity " + want
		}
		ml := firstEnclaveLevel(mod.TCBLevels, uint16(tdx[0]))
		if ml == nil || ml.Status != pcs.StatusUpToDate {
			return "accepted-disallowed-tdx-module-status", fmt.Sprintf("accepted although TDX module %s with SVN %d is not UpToDate in the signed TCB info", want, tdx[0])
		}
	}
	qer := f.parts.QEReportRaw
	if len(qer) != 384 {
		return "accepted-short-qe-report", "QE report is not 384 bytes"
	}
	qi := &f.qi.info
	ql := firstEnclaveLevel(qi.TCBLevels, uint16(qer[258])|uint16(qer[259])<<8)
	if ql == nil || ql.Status != pcs.StatusUpToDate {
		return "accepted-disallowed-qe-status", "accepted although the quoting enclave's ISVSVN reaches no UpToDate level of the signed QE identity"
	}
	// QE identity: MRSIGNER, ISVPRODID and the two masked comparisons, bit by bit.
	if ms, err := hex.DecodeString(qi.MRSIGNER); err != nil || !bytes.Equal(ms, qer[128:160]) {
		return "accepted-foreign-qe-identity", "QE report MRSIGNER is not the QE identity's"
	}
	if qi.ISVProdID != uint16(qer[256])|uint16(qer[257])<<8 {
		return "accepted-foreign-qe-identity", "QE report ISVPRODID is not the QE identity's"
	}
	maskedOK := func(rep []byte, exp, mask string) bool {
		e, err1 := hex.DecodeString(exp)
		m, err2 := hex.DecodeString(mask)
		if err1 != nil || err2 != nil || len(e) != len(rep) || len(m) != len(rep) {
			return false
		}
		for i := range rep {
			for b := 0; b < 8; b++ {
				mb, eb, rb := m[i]>>b&1, e[i]>>b&1, rep[i]>>b&1
				if (mb == 1 && rb != eb) || (mb == 0 && eb != 0) {
					return false
				}
			}
		}
		return true
	}
	if !maskedOK(qer[16:20], qi.MiscSelect, qi.MiscSelectMask) {
		return "accepted-foreign-qe-identity", "QE report MISCSELECT does not match the QE identity under its mask"
	}
	if !maskedOK(qer[48:64], qi.Attributes, qi.AttributesMask) {
		return "accepted-foreign-qe-identity", "QE report ATTRIBUTES do not match the QE identity under its mask"
	}
	return "", ""
}

// expectedFromBody is what the property demands to be returned for a signed report body.
func expectedFromBody(kind string, body []byte) string {
	if kind == "td" && len(body) == 584 {
		th := tuplehash.New256(32, []byte(pcs.TdEnclaveIdentityContext))
		for _, off := range []int{136, 328, 376, 424, 472} {
			_, _ = th.Write(body[off : off+48])
		}
		return fmt.Sprintf("accept:%s:%s:%s", hx(th.Sum(nil)), hx(make([]byte, 32)), hx(body[520:584]))
	}
	if kind == "sgx" && len(body) == 384 {
		return fmt.Sprintf("accept:%s:%s:%s", hx(body[64:96]), hx(body[128:160]), hx(body[320:384]))
	}
	return "?"
}

func bigNs(t time.Time) *big.Int {
	n := new(big.Int).Mul(big.NewInt(t.Unix()), big.NewInt(1000000000))
	return n.Add(n, big.NewInt(int64(t.Nanosecond())))
}

// ---------------------------------------------------------------------------- generators

func flip(b []byte, bit int) []byte {
	o := append([]byte(nil), b...)
	o[bit/8] ^= 1 << (bit % 8)
	return o
}

// multi applies a random multi-byte mutation.
func multi(r *hlib.Rng, b []byte, other []byte) []byte {
	o := append([]byte(nil), b...)
	if len(o) == 0 {
		return []byte{byte(r.Intn(256))}
	}
	switch r.Intn(9) {
	case 0: // overwrite a run with random bytes
		n := 1 + r.Intn(16)
		p := r.Intn(len(o))
		for i := p; i < p+n && i < len(o); i++ {
			o[i] = byte(r.Next())
		}
	case 1: // zero a run
		n := 1 + r.Intn(64)
		p := r.Intn(len(o))
		for i := p; i < p+n && i < len(o); i++ {
			o[i] = 0
		}
	case 2: // delete a run
		n := 1 + r.Intn(8)
		p := r.Intn(len(o))
		if p+n > len(o) {
			n = len(o) - p
		}
		o = append(o[:p], o[p+n:]...)
	case 3: // insert random bytes
		n := 1 + r.Intn(8)
		p := r.Intn(len(o) + 1)
		ins := make([]byte, n)
		for i := range ins {
			ins[i] = byte(r.Next())
		}
		o = append(o[:p], append(ins, o[p:]...)...)
	case 4: // truncate
		o = o[:r.Intn(len(o))]
	case 5: // append
		n := 1 + r.Intn(32)
		for i := 0; i < n; i++ {
			o = append(o, byte(r.Next()))
		}
	case 6: // copy a run from elsewhere in the same input
		n := 1 + r.Intn(64)
		s, d := r.Intn(len(o)), r.Intn(len(o))
		for i := 0; i < n && s+i < len(o) && d+i < len(o); i++ {
			o[d+i] = o[s+i]
		}
	case 7: // splice a run from another genuine input of the same kind at the same offset
		if len(other) > 0 {
			n := 1 + r.Intn(256)
			p := r.Intn(len(o))
			for i := p; i < p+n && i < len(o) && i < len(other); i++ {
				o[i] = other[i]
			}
		} else {
			o[r.Intn(len(o))] ^= byte(1 + r.Intn(255))
		}
	case 8: // several independent byte changes
		n := 2 + r.Intn(4)
		for i := 0; i < n; i++ {
			o[r.Intn(len(o))] ^= byte(1 + r.Intn(255))
		}
	}
	return o
}

// asciiMut mutates text (JSON, PEM, hex) staying mostly printable.
func asciiMut(r *hlib.Rng, b []byte) []byte {
	o := append([]byte(nil), b...)
	if len(o) == 0 {
		return []byte("0")
	}
	p := r.Intn(len(o))
	switch r.Intn(6) {
	case 0: // change case
		if o[p] >= 'a' && o[p] <= 'z' || o[p] >= 'A' && o[p] <= 'Z' {
			o[p] ^= 0x20
		} else {
			o[p] = "0123456789abcdefABCDEF"[r.Intn(22)]
		}
	case 1: // digit change
		o[p] = byte('0' + r.Intn(10))
	case 2: // insert whitespace
		ws := []byte{' ', '\n', '\t', '\r'}[r.Intn(4)]
		o = append(o[:p], append([]byte{ws}, o[p:]...)...)
	case 3: // duplicate a run
		n := 1 + r.Intn(40)
		if p+n > len(o) {
			n = len(o) - p
		}
		o = append(o[:p+n], append(append([]byte(nil), o[p:p+n]...), o[p+n:]...)...)
	case 4: // delete a char
		o = append(o[:p], o[p+1:]...)
	case 5:
		o[p] = byte(0x20 + r.Intn(0x5f))
	}
	return o
}

// quoteLayout locates the signature-data fields of a genuine quote.
type quoteLayout struct {
	bodyOff, bodyLen, sigLenOff, sigOff, akOff, qeOff, qerOff, qesOff, authSizeOff, authOff, cdTypeOff, cdSizeOff, cdOff, cdLen int
	v4                                                                                                                          bool
}

func layout(q []byte) quoteLayout {
	var l quoteLayout
	l.bodyOff = 48
	l.bodyLen = 384
	ver := int(q[0]) | int(q[1])<<8
	if ver == 4 {
		l.v4 = true
		if q[4] == 0x81 {
			l.bodyLen = 584
		}
	}
	l.sigLenOff = l.bodyOff + l.bodyLen
	l.sigOff = l.sigLenOff + 4
	l.akOff = l.sigOff + 64
	l.qeOff = l.akOff + 64
	if l.v4 {
		l.qeOff += 6
	}
	l.qerOff = l.qeOff
	l.qesOff = l.qerOff + 384
	l.authSizeOff = l.qesOff + 64
	as := int(q[l.authSizeOff]) | int(q[l.authSizeOff+1])<<8
	l.authOff = l.authSizeOff + 2
	l.cdTypeOff = l.authOff + as
	l.cdSizeOff = l.cdTypeOff + 2
	l.cdOff = l.cdSizeOff + 4
	l.cdLen = int(q[l.cdSizeOff]) | int(q[l.cdSizeOff+1])<<8 | int(q[l.cdSizeOff+2])<<16 | int(q[l.cdSizeOff+3])<<24
	return l
}

func le32(n int) []byte { return []byte{byte(n), byte(n >> 8), byte(n >> 16), byte(n >> 24)} }

// withCertData rebuilds a genuine quote with different certification data, fixing all lengths.
func withCertData(q []byte, cdType int, cd []byte) []byte {
	l := layout(q)
	o := append([]byte(nil), q[:l.cdTypeOff]...)
	o = append(o, byte(cdType), byte(cdType>>8))
	o = append(o, le32(len(cd))...)
	o = append(o, cd...)
	copy(o[l.sigLenOff:], le32(len(o)-l.sigOff))
	if l.v4 {
		copy(o[l.akOff+64+2:], le32(len(o)-(l.akOff+64+6)))
	}
	return o
}

func pemBlocks(data []byte) [][]byte {
	var out [][]byte
	for {
		b, rest := pem.Decode(data)
		if b == nil {
			break
		}
		out = append(out, pem.EncodeToMemory(b))
		data = rest
	}
	return out
}

// ---------------------------------------------------------------------------- main

type runner struct {
	sigCount map[string]int
	specSigs []string // spec signature per batched case ("" if none), compared with the model's notes
	emitDir  string
	emitted  map[string]bool
	res      *hlib.Result
	batch    []string
	cases    []*Case
	impls    []implOut
	seen     map[[32]byte]bool
	rawEvery int
	n        int
}

// fail records a failure, at most three per signature so that a known finding that occurs
// in many generated cases cannot crowd out a new one.
func (rn *runner) fail(f hlib.Failure) {
	if rn.sigCount == nil {
		rn.sigCount = map[string]int{}
	}
	rn.sigCount[f.Sig]++
	rn.res.Count("failure:" + f.Sig)
	if rn.sigCount[f.Sig] <= 3 {
		rn.res.Fail(f)
	}
}

func (rn *runner) add(c *Case) {
	rn.n++
	o := runImpl(c)
	rn.res.Cases++
	rn.res.Ops++
	rn.res.Count("gen:" + c.Tag)
	if o.panicked != "" {
		rn.res.Count("impl:panic")
		rn.fail(hlib.Failure{Kind: "panic", Detail: "pcs verification panicked: " + o.panicked, Case: []string{c.Line()}, Sig: "panic"})
		return
	}
	if o.att != "" {
		rn.res.Count("attestation:" + o.att)
	}
	if o.parseErr != "" {
		rn.res.Count("impl:reject:parse:" + parseClass(o.parseErr))
	} else if strings.HasPrefix(o.res, "accept:") {
		rn.res.Count("impl:accept")
		for _, u := range c.Unbound {
			rn.res.Count("observed:accepted-despite-unbound-" + u)
			if rn.emitDir != "" && len(c.Unbound) == 1 && !rn.emitted["unbound-"+u] {
				rn.emitted["unbound-"+u] = true
				_ = os.WriteFile(rn.emitDir+"/observed-unbound-"+u+".txt", []byte("# accepted although the input deviates in the documented-unbound field "+u+"\n"+c.Line()+"\n"), 0o644)
			}
		}
	} else {
		rn.res.Count("impl:" + o.res)
		if strings.HasSuffix(o.res, ":?") {
			rn.res.Count("impl:unmapped-error")
			rn.fail(hlib.Failure{Kind: "divergence", Detail: "harness cannot classify the error: " + o.errText, Case: []string{c.Line()}, Sig: "unmapped-error"})
		}
	}
	withRaw := o.parseErr != "" || strings.HasPrefix(c.Tag, "quote") || rn.n%rn.rawEvery == 0
	var f facts
	func() {
		defer func() {
			if r := recover(); r != nil {
				rn.fail(hlib.Failure{Kind: "panic", Detail: fmt.Sprint("harness re-evaluation panicked: ", r), Case: []string{c.Line()}, Sig: "harness-panic"})
			}
		}()
		f = modelLine(c, &o, withRaw)
	}()
	if f.line == "" {
		return
	}
	specSig := ""
	if o.parseErr == "" {
		if sig, d := specCheck(c, &o, &f); sig != "" {
			specSig = sig
			if rn.emitDir != "" && !rn.emitted["sig-"+sig] && (c.Tag == "policy" || sig == "foreign-collateral-pceid-accepted") {
				rn.emitted["sig-"+sig] = true
				_ = os.WriteFile(rn.emitDir+"/sig-"+sig+".txt", []byte("# "+sig+": "+d+"\n"+c.Line()+"\n"), 0o644)
			}
			rn.fail(hlib.Failure{Kind: "spec", Detail: d, Case: []string{c.Line()}, Sig: sig})
		}
		key := sha256.Sum256([]byte(f.line))
		if !rn.seen[key] && o.res != "reject:parse" {
			rn.seen[key] = true
			rn.res.Distinct++
		}
	}
	if rn.emitDir != "" && strings.HasPrefix(o.res, "accept:") && c.Tag != "base" && c.Tag != "quote-base" && !rn.emitted[c.Tag] {
		// one accepted mutant per generator class, for the regression corpus
		rn.emitted[c.Tag] = true
		_ = os.WriteFile(rn.emitDir+"/accepted-"+c.Tag+".txt", []byte("# accepted "+c.Tag+" case (result identical to the genuine quote's)\n"+c.Line()+"\n"), 0o644)
	}
	rn.specSigs = append(rn.specSigs, specSig)
	rn.batch = append(rn.batch, f.line)
	rn.cases = append(rn.cases, c)
	rn.impls = append(rn.impls, o)
	if rn.res.Samples == nil && strings.HasPrefix(o.res, "reject:") && o.parseErr == "" && c.Tag != "base" {
		l := f.line
		if len(l) > 600 {
			l = l[:600] + "..."
		}
		rn.res.AddSample(map[string]string{"tag": c.Tag, "impl": o.res, "model_line": l})
	}
	if len(rn.batch) >= 1500 {
		rn.flush()
	}
}

func (rn *runner) flush() {
	if len(rn.batch) == 0 {
		return
	}
	ans, err := hlib.RunModel("pcs", rn.batch)
	if err != nil {
		rn.fail(hlib.Failure{Kind: "divergence", Detail: "model-error: " + err.Error(), Sig: "model-error"})
	} else {
		for i, a := range ans {
			if strings.HasPrefix(a, "ok") {
				rn.res.Count("model:agree")
				// The model evaluates the spec-only clauses (K1, K2) too; it must flag exactly the
				// inputs the harness flags.
				mp, mb := has(a, "spec=pceid"), has(a, "spec=blacklist-case")
				hp, hb := rn.specSigs[i] == "foreign-collateral-pceid-accepted", rn.specSigs[i] == "fmspc-blacklist-case-bypass"
				if (mp || mb) != (hp || hb) || (hp && !mp) || (hb && !mb) {
					rn.fail(hlib.Failure{Kind: "divergence", Detail: fmt.Sprintf("spec predicate: model `%s`, harness `%s`", a, rn.specSigs[i]), Case: []string{rn.cases[i].Line()}, Sig: "spec-predicate-mismatch"})
				}
				continue
			}
			o := rn.impls[i]
			kind, sig := "divergence", "model-mismatch"
			switch {
			case has(a, "direct-qe") || has(a, "direct-tcbinfo"):
				// QEIdentity.validate/verify or TCBInfo.validate/validateFMSPC/validateTCBLevel, called directly
				sig = "direct-function-differs-from-model:" + strings.Fields(a)[1]
			case has(a, "tcblevel") || has(a, "tcbmatches") || has(a, "tcbvalidate") || has(a, "tcbstatus"):
				// the real getTCBLevel / matches / validateTCBLevel / error status against the model
				sig = map[bool]string{true: "tcb-level-selection-differs-from-model", false: "tcb-status-differs-from-model"}[!has(a, "tcbstatus")]
				if strings.HasPrefix(o.res, "accept:") {
					kind = "spec"
				}
			case has(a, "attestation"):
				sig = "attestation-mismatch:" + strings.TrimPrefix(strings.Join(strings.Fields(a)[1:], "/"), "attestation/")
				if o.att == "ok" {
					kind = "spec"
				}
			case has(a, "parse"):
				sig = "parse-mismatch"
			case strings.HasPrefix(o.res, "accept:") && has(a, "model=reject:"):
				kind = "spec"
				sig = "accepted-but-model-rejects:" + strings.TrimPrefix(strings.Fields(a)[1], "model=reject:")
			case strings.HasPrefix(o.res, "reject:") && has(a, "model=accept:"):
				sig = "rejected-but-model-accepts:" + strings.TrimPrefix(o.res, "reject:")
			case has(a, "model=reject:"):
				sig = "stage-order:" + strings.TrimPrefix(strings.Fields(a)[1], "model=reject:") + "/" + strings.TrimPrefix(o.res, "reject:")
			case has(a, "model=accept:"):
				kind = "spec"
				sig = "result-differs-from-signed-body"
			}
			rn.fail(hlib.Failure{Kind: kind, Detail: a + " err=" + o.errText + o.parseErr, Case: []string{rn.cases[i].Line()}, Sig: sig})
		}
	}
	rn.batch, rn.cases, rn.impls, rn.specSigs = nil, nil, nil, nil
}

func main() {
	seed := flag.Uint64("seed", 1, "seed")
	out := flag.String("out", "-", "result file")
	replay := flag.String("replay", "", "replay file (one case per line)")
	corpus := flag.String("corpus", "", "corpus dir, run first")
	testdata := flag.String("testdata", "/repo/go/common/sgx/pcs/testdata", "recorded vectors")
	bits := flag.Int("bits", 1500, "single-bit mutations per input and vector (0 = all bits)")
	multis := flag.Int("multi", 400, "multi-byte mutations per input and vector")
	combos := flag.Int("combo", 1500, "random combinations of mutation, time and policy")
	emit := flag.String("emit", "", "write one accepted mutant per generator class into this directory")
	synth := flag.Int("synth", 0, "cases on synthetic platforms (harness-owned root of trust)")
	gridTcb := flag.Int("grid", 0, "synthetic platforms: TCB level selection grid (SVN index x below/equal/above x levels x statuses x TDX module identities)")
	gridQe := flag.Int("qegrid", 0, "synthetic platforms: QE identity grid (masks bit by bit, MRSIGNER, ISVPRODID, QE ISVSVN levels)")
	gridTime := flag.Int("timegrid", 0, "synthetic platforms: validity windows / certificate validity / evaluation numbers at their boundaries")
	flag.Parse()

	res := hlib.NewResult("pcsdrv", *seed)
	res.Rule = "every case is a complete verifier input (quote, TCB info, QE identity, PEM chain, policy, process switches, time) derived from the recorded vectors; distinct non-trivial = distinct primitive-verdict lines of inputs whose quote parses (a parse failure is trivial)"
	setBlacklist(nil)
	loadVectors(*testdata)
	rn := &runner{res: res, seen: map[[32]byte]bool{}, rawEvery: 7, emitDir: *emit, emitted: map[string]bool{}}

	// Baselines: the unmutated vectors.
	for _, v := range vectors {
		o := runImpl(v.Case)
		if o.quote != nil {
			p := o.quote.VerifParts()
			v.Hdr, v.Body = p.HeaderRaw, p.BodyRaw
		}
		v.Accepted = strings.HasPrefix(o.res, "accept:")
		v.Result = o.res
		res.Count("baseline:" + v.Name + ":" + strings.SplitN(o.res, ":", 3)[0] + ":" + strings.SplitN(o.res+":", ":", 3)[1][:min(12, len(strings.SplitN(o.res+":", ":", 3)[1]))])
	}
	if !vectors[0].Accepted || !vectors[1].Accepted {
		rn.fail(hlib.Failure{Kind: "divergence", Detail: "a recorded good vector no longer verifies: " + vectors[0].Result + " / " + vectors[1].Result, Sig: "good-vector-rejected"})
	}

	if *replay != "" {
		lines, err := hlib.ReadLines(*replay)
		if err != nil {
			fmt.Fprintln(os.Stderr, err)
			os.Exit(2)
		}
		for _, l := range lines {
			if c, err := parseCaseLine(l); err == nil {
				rn.add(c)
			}
		}
		rn.flush()
		res.Write(*out)
		return
	}
	if *corpus != "" {
		ents, _ := os.ReadDir(*corpus)
		for _, e := range ents {
			lines, err := hlib.ReadLines(*corpus + "/" + e.Name())
			if err != nil {
				continue
			}
			for _, l := range lines {
				if c, err := parseCaseLine(l); err == nil {
					rn.add(c)
					res.Count("corpus")
				}
			}
		}
	}

	rng := hlib.NewRng(*seed)
	generate(rn, rng, *bits, *multis, *combos)
	rn.flush()
	generateSynth(rn, rng.Fork(), *synth)
	rn.flush()
	generateGrids(rn, rng.Fork(), *gridTcb, *gridQe, *gridTime)
	rn.flush()
	res.Write(*out)
}
