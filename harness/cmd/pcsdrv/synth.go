package main

// Synthetic platforms. Intel's signatures cannot be produced offline, so the decision logic
// behind them (TCB levels and statuses, TDX module levels, QE identity comparison, evaluation
// numbers and dates inside signed bodies) is unreachable by mutating the recorded vectors.
// pcs.IntelTrustRoots is an exported variable: the harness replaces it, in its own process only,
// by a root it owns and builds complete platforms (PCK chain with SGX extensions, TCB signing
// chain, QE report, attestation key, quote, TCB info, QE identity) with arbitrary signed content.
// The real verifier then runs all its checks on honestly signed inputs.

import (
	"crypto/ecdsa"
	"crypto/ed25519"
	"crypto/elliptic"
	"crypto/rand"
	"crypto/sha256"
	"crypto/x509"
	"crypto/x509/pkix"
	"encoding/asn1"
	"encoding/hex"
	"encoding/json"
	"encoding/pem"
	"fmt"
	"math/big"
	"strings"
	"time"

	"verifharness/hlib"

	"github.com/oasisprotocol/curve25519-voi/primitives/x25519"

	"github.com/oasisprotocol/oasis-core/go/common/crypto/signature"
	memorySigner "github.com/oasisprotocol/oasis-core/go/common/crypto/signature/signers/memory"
	"github.com/oasisprotocol/oasis-core/go/common/crypto/tuplehash"
	"github.com/oasisprotocol/oasis-core/go/common/node"
	"github.com/oasisprotocol/oasis-core/go/common/sgx/pcs"
)

var realRoots = pcs.IntelTrustRoots

// installRoot makes `der` (or Intel's root when empty) the PCS root of trust of this process.
func installRoot(der []byte) {
	if len(der) == 0 {
		pcs.IntelTrustRoots = realRoots
		return
	}
	c, err := x509.ParseCertificate(der)
	if err != nil {
		pcs.IntelTrustRoots = x509.NewCertPool()
		return
	}
	p := x509.NewCertPool()
	p.AddCert(c)
	pcs.IntelTrustRoots = p
}

func keyFrom(r *hlib.Rng) *ecdsa.PrivateKey {
	for {
		var b [32]byte
		for i := 0; i < 4; i++ {
			x := r.Next()
			for j := 0; j < 8; j++ {
				b[i*8+j] = byte(x >> (8 * j))
			}
		}
		k, err := ecdsa.ParseRawPrivateKey(elliptic.P256(), b[:])
		if err == nil {
			return k
		}
	}
}

func pubRaw(k *ecdsa.PrivateKey) []byte {
	b, _ := k.PublicKey.Bytes() // 0x04 || X || Y
	return b[1:]
}

func signRS(k *ecdsa.PrivateKey, msg []byte) []byte {
	h := sha256.Sum256(msg)
	r, s, err := ecdsa.Sign(rand.Reader, k, h[:])
	if err != nil {
		panic(err)
	}
	out := make([]byte, 64)
	r.FillBytes(out[:32])
	s.FillBytes(out[32:])
	return out
}

type pki struct {
	rootKey, interKey, tcbKey *ecdsa.PrivateKey
	root, inter, tcb          *x509.Certificate
	rootPEM, interPEM, tcbPEM []byte
	t0                        time.Time
}

func pemOf(c *x509.Certificate) []byte {
	return pem.EncodeToMemory(&pem.Block{Type: "CERTIFICATE", Bytes: c.Raw})
}

func mkCert(tpl, parent *x509.Certificate, pub any, signer *ecdsa.PrivateKey) *x509.Certificate {
	der, err := x509.CreateCertificate(rand.Reader, tpl, parent, pub, signer)
	if err != nil {
		panic(err)
	}
	c, err := x509.ParseCertificate(der)
	if err != nil {
		panic(err)
	}
	return c
}

var serial int64 = 1000

func tpl(cn string, ca bool, nb, na time.Time) *x509.Certificate {
	serial++
	t := &x509.Certificate{
		SerialNumber:          big.NewInt(serial),
		Subject:               pkix.Name{CommonName: cn, Organization: []string{"verif harness"}},
		NotBefore:             nb,
		NotAfter:              na,
		BasicConstraintsValid: true,
		IsCA:                  ca,
		KeyUsage:              x509.KeyUsageDigitalSignature,
	}
	if ca {
		t.KeyUsage |= x509.KeyUsageCertSign
	}
	return t
}

func newPKI(r *hlib.Rng) *pki {
	p := &pki{t0: time.Unix(1700000000, 0).UTC()}
	p.rootKey, p.interKey, p.tcbKey = keyFrom(r), keyFrom(r), keyFrom(r)
	rt := tpl("verif SGX Root CA", true, p.t0.Add(-1000*24*time.Hour), p.t0.Add(5000*24*time.Hour))
	p.root = mkCert(rt, rt, &p.rootKey.PublicKey, p.rootKey)
	p.inter = mkCert(tpl("verif SGX PCK Platform CA", true, p.t0.Add(-900*24*time.Hour), p.t0.Add(4000*24*time.Hour)), p.root, &p.interKey.PublicKey, p.rootKey)
	p.tcb = mkCert(tpl("verif SGX TCB Signing", false, p.t0.Add(-800*24*time.Hour), p.t0.Add(3000*24*time.Hour)), p.root, &p.tcbKey.PublicKey, p.rootKey)
	p.rootPEM, p.interPEM, p.tcbPEM = pemOf(p.root), pemOf(p.inter), pemOf(p.tcb)
	return p
}

// newPKIValidity is newPKI with chosen validity of the root and of the PCK platform CA.
func newPKIValidity(r *hlib.Rng, rootNB, rootNA, interNB, interNA time.Time) *pki {
	p := &pki{t0: time.Unix(1700000000, 0).UTC()}
	p.rootKey, p.interKey, p.tcbKey = keyFrom(r), keyFrom(r), keyFrom(r)
	rt := tpl("verif SGX Root CA", true, rootNB, rootNA)
	p.root = mkCert(rt, rt, &p.rootKey.PublicKey, p.rootKey)
	p.inter = mkCert(tpl("verif SGX PCK Platform CA", true, interNB, interNA), p.root, &p.interKey.PublicKey, p.rootKey)
	p.tcb = mkCert(tpl("verif SGX TCB Signing", false, p.t0.Add(-800*24*time.Hour), p.t0.Add(3000*24*time.Hour)), p.root, &p.tcbKey.PublicKey, p.rootKey)
	p.rootPEM, p.interPEM, p.tcbPEM = pemOf(p.root), pemOf(p.inter), pemOf(p.tcb)
	return p
}

type sgxExt struct {
	ID    asn1.ObjectIdentifier
	Value asn1.RawValue
}

func mustASN1(v any) []byte {
	b, err := asn1.Marshal(v)
	if err != nil {
		panic(err)
	}
	return b
}

// platform is what the PCK certificate certifies.
type platform struct {
	fmspc   []byte
	compSvn [16]int
	pcesvn  int
	noFmspc bool
	badExt  bool
}

func (p *pki) pckLeaf(pl *platform, pub any, nb, na time.Time) *x509.Certificate {
	oid := func(last ...int) asn1.ObjectIdentifier {
		return append(asn1.ObjectIdentifier{1, 2, 840, 113741, 1, 13, 1}, last...)
	}
	var tcbExts []sgxExt
	for i := 0; i < 16; i++ {
		tcbExts = append(tcbExts, sgxExt{oid(2, i+1), asn1.RawValue{FullBytes: mustASN1(pl.compSvn[i])}})
	}
	tcbExts = append(tcbExts, sgxExt{oid(2, 17), asn1.RawValue{FullBytes: mustASN1(pl.pcesvn)}})
	cpusvn := make([]byte, 16)
	for i := range cpusvn {
		cpusvn[i] = byte(pl.compSvn[i])
	}
	tcbExts = append(tcbExts, sgxExt{oid(2, 18), asn1.RawValue{FullBytes: mustASN1(cpusvn)}})
	var exts []sgxExt
	exts = append(exts, sgxExt{oid(1), asn1.RawValue{FullBytes: mustASN1([]byte("ppid-ppid-ppid-p"))}})
	exts = append(exts, sgxExt{oid(2), asn1.RawValue{FullBytes: mustASN1(tcbExts)}})
	exts = append(exts, sgxExt{oid(3), asn1.RawValue{FullBytes: mustASN1([]byte{0, 0})}})
	if !pl.noFmspc {
		exts = append(exts, sgxExt{oid(4), asn1.RawValue{FullBytes: mustASN1(pl.fmspc)}})
	}
	val := mustASN1(exts)
	if pl.badExt {
		val = val[:len(val)/2]
	}
	t := tpl("verif SGX PCK Certificate", false, nb, na)
	t.ExtraExtensions = []pkix.Extension{{Id: pcs.PCK_SGX_Extensions, Value: val}}
	return mkCert(t, p.inter, pub, p.interKey)
}

func le16(n int) []byte { return []byte{byte(n), byte(n >> 8)} }

func rbytes(r *hlib.Rng, n int) []byte {
	b := make([]byte, n)
	for i := range b {
		b[i] = byte(r.Next())
	}
	return b
}

const tsFmt = "2006-01-02T15:04:05Z"

var statusNames = []string{"UpToDate", "SWHardeningNeeded", "ConfigurationNeeded", "ConfigurationAndSWHardeningNeeded", "OutOfDate", "OutOfDateConfigurationNeeded", "Revoked"}

func pickStatus(r *hlib.Rng) any {
	switch k := r.Intn(20); {
	case k < 8:
		return "UpToDate"
	case k < 11:
		return "SWHardeningNeeded"
	case k < 18:
		return statusNames[r.Intn(len(statusNames))]
	case k < 19:
		return nil // field missing
	default:
		return "Unknown"
	}
}

// synthGenuine maps hex(header || body) of honestly signed synthetic quotes to the result the
// property demands for them.
var synthGenuine = map[string]string{}

func near(r *hlib.Rng, x, spread int) int {
	v := x + r.Intn(2*spread+1) - spread
	if v < 0 {
		v = 0
	}
	return v
}

var devNames = []string{"noFmspc", "badExt", "pckNotAfter", "pckNotBefore", "qeDataHi", "qeDataLo", "qeSigKey", "dbgEnv", "dbgBit",
	"foreignSeam", "blSigner", "sigKey", "sigBody", "tdxModPol", "tdxModPolBad", "tdxNil", "disabled", "fmspcList", "issueNow", "issueEdge",
	"issueOld", "tiId", "tiFmspc", "tiVersion", "tiIssueBad", "tiNextBad", "tiEval", "tiSigKey", "tiSigShort", "qeId", "qeMisc", "qeFlags",
	"qeXfrm", "qeMrs", "qeVersion", "qeEval", "qeProd", "qeMiscBad", "qeAttrBad", "qeSigKey2", "certs", "qIssueNow", "qIssueEdge", "qIssueOld",
	"attRak", "attIdentity", "attSig", "attSig", "unboundPceId", "unboundTcbType", "unboundSeamAttrs", "unboundTdxModule", "unboundNextUpdate", "akInvalid", "pckEd25519", "tcbEd25519", "qeJson", "tiJson", "qeIssueBad", "qeNextBad", "levelsHigh", "qeLevelsHigh", "qeLevelsHigh", "modLevels", "modLevels", "modIds", "noStatus", "badStatus", "validity0"}

// synthCase builds one complete input on a synthetic platform. A case deviates from a fully
// valid input in 0-2 named ways, so that every check of the verifier is the first to fail
// reasonably often and the checks behind it are reached.
func synthCase(r *hlib.Rng, p *pki, res *hlib.Result) *Case {
	c := &Case{Tag: "synth", Root: p.root.Raw}
	devs := map[string]bool{}
	for k := []int{0, 1, 1, 1, 2, 2}[r.Intn(6)]; k > 0; k-- {
		d := devNames[r.Intn(len(devNames))]
		devs[d] = true
		res.Count("synth-dev:" + d)
	}
	dev := func(n string) bool { return devs[n] }
	tdx := r.Chance(1, 2)
	v4 := tdx || r.Chance(1, 3)
	ts := p.t0.Add(time.Duration(r.Intn(200)-100) * time.Hour)
	// ---- platform and PCK chain
	pl := &platform{fmspc: rbytes(r, 6), pcesvn: r.Intn(6)}
	for i := range pl.compSvn {
		pl.compSvn[i] = r.Intn(6)
	}
	pl.noFmspc = dev("noFmspc")
	pl.badExt = dev("badExt")
	pckKey := keyFrom(r)
	nb, na := p.t0.Add(-300*24*time.Hour), p.t0.Add(300*24*time.Hour)
	if dev("pckNotAfter") {
		na = ts.Add(time.Duration(r.Intn(3)-1) * time.Second)
	}
	if dev("pckNotBefore") {
		nb = ts.Add(time.Duration(r.Intn(3)-1) * time.Second)
	}
	leaf := p.pckLeaf(pl, &pckKey.PublicKey, nb, na)
	if dev("pckEd25519") {
		edPub, _, _ := ed25519.GenerateKey(rand.Reader)
		leaf = p.pckLeaf(pl, edPub, nb, na)
	}
	chain := append(append(append([]byte{}, pemOf(leaf)...), p.interPEM...), p.rootPEM...)
	// ---- QE report and attestation key
	attKey := keyFrom(r)
	ak := pubRaw(attKey)
	if dev("akInvalid") {
		ak = rbytes(r, 64) // not a curve point (with overwhelming probability); still bound by the QE report
	}
	auth := rbytes(r, 32)
	qer := make([]byte, 384)
	copy(qer[0:16], rbytes(r, 16))
	qeMisc := uint32(r.Intn(4))
	qer[16] = byte(qeMisc)
	qeFlags := uint64(0x15)
	qer[48] = byte(qeFlags)
	qeXfrm := uint64(0xe7)
	qer[56] = byte(qeXfrm)
	copy(qer[64:96], rbytes(r, 32))
	qeSigner := rbytes(r, 32)
	copy(qer[128:160], qeSigner)
	qeProd := 1 + r.Intn(2)
	copy(qer[256:], le16(qeProd))
	qeSvn := r.Intn(8)
	copy(qer[258:], le16(qeSvn))
	h := sha256.Sum256(append(append([]byte{}, ak...), auth...))
	copy(qer[320:352], h[:])
	if dev("qeDataHi") {
		qer[352+r.Intn(32)] = 1 // second half of the report data not zero
	}
	if dev("qeDataLo") {
		qer[320+r.Intn(32)] ^= 1 // does not bind the key
	}
	qeSigKey := pckKey
	if dev("qeSigKey") {
		qeSigKey = p.interKey
	}
	qes := signRS(qeSigKey, qer)
	// ---- header and report body
	hdr := make([]byte, 48)
	var body []byte
	dbgBit := c.Dbg
	if dev("dbgEnv") || r.Chance(1, 5) {
		c.Dbg = true
	}
	dbgBit = c.Dbg
	if dev("dbgBit") {
		dbgBit = !dbgBit
	}
	attested := r.Chance(1, 2)
	rakSigner, err := memorySigner.NewFromSeed(rbytes(r, 32))
	if err != nil {
		panic(err)
	}
	rakPk := rakSigner.Public()
	rak := append([]byte{}, rakPk[:]...)
	rakHash := node.HashRAK(rakPk)
	copy(hdr[12:28], pcs.QEVendorID_Intel)
	copy(hdr[28:48], rbytes(r, 20))
	hdr[2] = 2
	if v4 {
		hdr[0] = 4
		if tdx {
			hdr[4] = 0x81
		}
	} else {
		hdr[0] = 3
		hdr[8], hdr[10] = byte(r.Intn(10)), byte(r.Intn(10))
	}
	var teeSvn [16]byte
	expected := ""
	if tdx {
		body = make([]byte, 584)
		for i := range teeSvn {
			teeSvn[i] = byte(r.Intn(6))
		}
		teeSvn[1] = byte([]int{0, 0, 1, 1, 2, 3, 11}[r.Intn(7)])
		copy(body[0:16], teeSvn[:])
		copy(body[16:64], rbytes(r, 48))
		if dev("foreignSeam") || r.Chance(1, 8) {
			copy(body[64:112], rbytes(r, 48)) // non-Intel module signer
		}
		attrs := uint64(1 << 28)
		if dbgBit {
			attrs |= 1
		}
		for i := 0; i < 8; i++ {
			body[120+i] = byte(attrs >> (8 * i))
		}
		if dev("unboundSeamAttrs") {
			copy(body[112:120], rbytes(r, 8)) // SEAMATTRIBUTES; the TCB info says they must be zero
			c.Unbound = append(c.Unbound, "seamAttributes")
		}
		copy(body[136:520], rbytes(r, 384))
		copy(body[520:584], rbytes(r, 64))
		if attested {
			copy(body[520:552], rakHash[:])
		}
		th := tuplehash.New256(32, []byte(pcs.TdEnclaveIdentityContext))
		for _, off := range []int{136, 328, 376, 424, 472} {
			_, _ = th.Write(body[off : off+48])
		}
		expected = fmt.Sprintf("accept:%s:%s:%s", hx(th.Sum(nil)), hx(make([]byte, 32)), hx(body[520:584]))
	} else {
		body = make([]byte, 384)
		copy(body[0:16], rbytes(r, 16))
		flags := byte(0x05)
		if dbgBit {
			flags |= 2
		}
		body[48] = flags
		body[56] = 3
		copy(body[64:96], rbytes(r, 32))
		copy(body[128:160], rbytes(r, 32))
		copy(body[320:384], rbytes(r, 64))
		if attested {
			copy(body[320:352], rakHash[:])
		}
		expected = fmt.Sprintf("accept:%s:%s:%s", hx(body[64:96]), hx(body[128:160]), hx(body[320:384]))
		if dev("blSigner") {
			c.Bl = append([]byte(nil), body[128:160]...)
		} else if r.Chance(1, 6) {
			c.Bl = rbytes(r, 32)
		}
	}
	sigKey := attKey
	if dev("sigKey") {
		sigKey = pckKey
	}
	signed := append(append([]byte{}, hdr...), body...)
	if dev("sigBody") {
		signed = append(append([]byte{}, hdr...), rbytes(r, len(body))...) // signature over another body
	}
	sig := signRS(sigKey, signed)
	if r.Chance(1, 30) {
		copy(sig[32:], negateS(sig[32:])) // the other valid signature
	}
	if sigKey == attKey {
		synthGenuine[hex.EncodeToString(signed)] = expected
	}
	if attested {
		// node registration: the RAK and the allowed enclave identities
		c.AttRak = rak
		if dev("attRak") {
			c.AttRak = rbytes(r, 32)
		}
		var mre, mrs []byte
		if tdx {
			th := tuplehash.New256(32, []byte(pcs.TdEnclaveIdentityContext))
			for _, off := range []int{136, 328, 376, 424, 472} {
				_, _ = th.Write(body[off : off+48])
			}
			mre, mrs = th.Sum(nil), make([]byte, 32)
		} else {
			mre, mrs = body[64:96], body[128:160]
		}
		for i, n := 0, r.Intn(3); i < n; i++ {
			c.AttOK = append(c.AttOK, rbytes(r, 64)...)
		}
		id := append(append([]byte{}, mre...), mrs...)
		if dev("attIdentity") {
			switch r.Intn(3) {
			case 0:
				id[r.Intn(32)] ^= 1 // other MRENCLAVE
			case 1:
				id[32+r.Intn(32)] ^= 1 // other MRSIGNER
			case 2:
				id = nil
			}
		}
		c.AttOK = append(c.AttOK, id...)
		if r.Bool() {
			c.AttOK = append(c.AttOK, rbytes(r, 64)...)
		}
		// signed attestation: RAK signature over (report data, node id, attestation height, REK)
		// and the freshness window, at its boundaries
		c.NodeID = rbytes(r, 32)
		if r.Bool() {
			c.Rek = rbytes(r, 32)
		}
		c.SAtt = r.Chance(2, 3)
		c.NowHeight = uint64(1000 + r.Intn(1000))
		c.ScMaxAge = uint64([]int{0, 0, 1, 5, 100}[r.Intn(5)])
		c.DefMaxAge = uint64([]int{0, 10, 50}[r.Intn(3)])
		eff := c.ScMaxAge
		if eff == 0 {
			eff = c.DefMaxAge
		}
		c.SaHeight = c.NowHeight - uint64(r.Intn(int(eff)+1))
		signRD := body[len(body)-64:]
		signNode, signHeight, signRek, signKey := c.NodeID, c.SaHeight, c.Rek, signature.Signer(rakSigner)
		if dev("attSig") || r.Chance(1, 6) {
			k := r.Intn(9)
			res.Count(fmt.Sprintf("synth-attsig:%s", []string{"age-eff", "age-eff+1", "future", "other-node", "other-height", "other-rek", "other-report-data", "other-key", "garbage"}[k]))
			switch k {
			case 0:
				c.SaHeight = c.NowHeight - eff
				signHeight = c.SaHeight
			case 1:
				c.SaHeight = c.NowHeight - eff - 1
				signHeight = c.SaHeight
			case 2:
				c.SaHeight = c.NowHeight + 1 + uint64(r.Intn(2))
				signHeight = c.SaHeight
			case 3:
				signNode = rbytes(r, 32) // signed for another node: replay of an attestation
			case 4:
				signHeight = c.SaHeight + 1
			case 5:
				if len(signRek) == 0 {
					signRek = rbytes(r, 32)
				} else if r.Bool() {
					signRek = nil
				} else {
					signRek = rbytes(r, 32)
				}
			case 6:
				signRD = rbytes(r, 64)
			case 7:
				signKey, _ = memorySigner.NewFromSeed(rbytes(r, 32))
			}
		}
		var nid signature.PublicKey
		copy(nid[:], signNode)
		var rekp *x25519.PublicKey
		if len(signRek) == 32 {
			var k x25519.PublicKey
			copy(k[:], signRek)
			rekp = &k
		}
		c.SaSig, err = signKey.ContextSign(node.AttestationSignatureContext, node.HashAttestation(signRD, nid, signHeight, rekp))
		if err != nil {
			panic(err)
		}
		if dev("attSig") && r.Chance(1, 9) {
			c.SaSig = rbytes(r, 64)
		}
		// how the policy reaches the verifier: descriptor constraints shape x consensus default
		c.Reg = []string{"", "nil", "empty", "ias", "pcs", "both", "empty", "nil"}[r.Intn(8)]
		c.regWanted = true
	}
	// ---- assemble the quote
	qe := append(append(append([]byte{}, qer...), qes...), le16(len(auth))...)
	qe = append(qe, auth...)
	qe = append(qe, le16(5)...)
	qe = append(qe, le32(len(chain))...)
	qe = append(qe, chain...)
	sd := append(append([]byte{}, sig...), ak...)
	if v4 {
		sd = append(sd, le16(6)...)
		sd = append(sd, le32(len(qe))...)
	}
	sd = append(sd, qe...)
	c.Quote = append(append(append(append([]byte{}, hdr...), body...), le32(len(sd))...), sd...)

	// ---- policy and switches
	pol := &pcs.QuotePolicy{TCBValidityPeriod: uint16([]int{30, 30, 30, 1, 365, 90}[r.Intn(6)]), MinTCBEvaluationDataNumber: uint32(10 + r.Intn(4))}
	if tdx || r.Chance(1, 5) {
		pol.TDX = &pcs.TdxQuotePolicy{}
		if dev("tdxModPol") || dev("tdxModPolBad") || body[64] != 0 || r.Chance(1, 5) {
			var seam, signer [48]byte
			if tdx {
				copy(seam[:], body[16:64])
				copy(signer[:], body[64:112])
			}
			m := pcs.TdxModulePolicy{MrSignerSeam: signer}
			if r.Bool() {
				m.MrSeam = &seam
			}
			if dev("tdxModPolBad") {
				if m.MrSeam != nil && r.Bool() {
					m.MrSeam[7] ^= 1
				} else {
					m.MrSignerSeam[3] ^= 1
				}
			}
			pol.TDX.AllowedTdxModules = []pcs.TdxModulePolicy{m}
		}
		if tdx && dev("tdxNil") {
			pol.TDX = nil
		}
	}
	pol.Disabled = dev("disabled")
	if dev("validity0") {
		pol.TCBValidityPeriod = 0
	}
	c.Lax = r.Chance(1, 3)
	fmspcStr := strings.ToUpper(hex.EncodeToString(pl.fmspc))
	fl := 4 + r.Intn(3)
	if dev("fmspcList") {
		fl = r.Intn(4)
	}
	switch fl {
	case 0:
		pol.FMSPCBlacklist = []string{fmspcStr}
	case 1:
		pol.FMSPCWhitelist = []string{"00906ED50000"}
	case 2:
		pol.FMSPCWhitelist = []string{strings.ToLower(fmspcStr)}
	case 3:
		pol.FMSPCBlacklist = []string{"00906ED50000", fmspcStr}
	case 4:
		pol.FMSPCBlacklist = []string{strings.ToLower(fmspcStr), "00906ED50000"}
	case 5:
		pol.FMSPCWhitelist = []string{"00906ED50000", fmspcStr}
	}
	c.Pol = pol
	if c.regWanted && c.Reg != "" {
		c.FsPCS = !r.Chance(1, 8)
		c.Def = []string{"pcs", "pcs", "pcs", "pcs", "none", "nil"}[r.Intn(6)]
		c.DefIAS = r.Bool()
		if c.Def == "pcs" {
			dp := *pol
			dp.Disabled = false
			switch r.Intn(6) {
			case 0:
				dp.Disabled = true
			case 1:
				dp.MinTCBEvaluationDataNumber = pol.MinTCBEvaluationDataNumber + 5
			case 2:
				dp.FMSPCBlacklist = []string{fmspcStr}
			case 3:
				dp.TCBValidityPeriod = 0
			case 4:
				if r.Bool() {
					dp.TDX = nil
				}
			}
			c.DefPol = &dp
			if r.Chance(1, 10) {
				c.DefPol = nil // DefaultPolicy{PCS: nil}
			}
		}
	}

	// ---- TCB info
	day := 24 * time.Hour
	issue := func(now, edge, old bool) time.Time {
		switch {
		case now:
			return ts.Add(time.Duration(r.Intn(3)-1) * time.Second) // at the verification time
		case edge:
			return ts.Add(-time.Duration(pol.TCBValidityPeriod)*day + time.Duration(r.Intn(3)-1)*time.Second) // at the expiry boundary
		case old:
			return ts.Add(-time.Duration(r.Intn(120)) * day)
		default:
			if pol.TCBValidityPeriod == 0 {
				return ts.Add(-time.Duration(r.Intn(2)) * time.Nanosecond * 0)
			}
			return ts.Add(-time.Duration(1+r.Intn(20)) * time.Hour)
		}
	}
	comps := func(base [16]int, delta int, n int) []any {
		out := make([]any, n)
		for i := 0; i < n; i++ {
			v := base[i%16] + delta
			if r.Chance(1, 12) {
				v = near(r, v, 1)
			}
			if v < 0 {
				v = 0
			}
			out[i] = map[string]any{"svn": v}
		}
		return out
	}
	var teeSvnI [16]int
	for i := range teeSvn {
		teeSvnI[i] = int(teeSvn[i])
	}
	nlv := 1 + r.Intn(4)
	var levels []any
	for i := 0; i < nlv; i++ {
		// levels in descending order: the first ones above the platform, later ones at or below it
		delta := nlv/2 - i - r.Intn(2)
		if dev("levelsHigh") {
			delta += 2
		}
		tcb := map[string]any{"sgxtcbcomponents": comps(pl.compSvn, delta, 16), "pcesvn": near(r, pl.pcesvn+delta, 0)}
		if tdx || r.Chance(1, 4) {
			tcb["tdxtcbcomponents"] = comps(teeSvnI, delta, 16)
		}
		lv := map[string]any{"tcb": tcb, "tcbDate": "2023-08-09T00:00:00Z"}
		if st := pickStatus(r); st != nil && !dev("noStatus") {
			lv["tcbStatus"] = st
		}
		if dev("badStatus") && r.Bool() {
			lv["tcbStatus"] = "Unknown"
		}
		if r.Chance(1, 3) {
			lv["advisoryIDs"] = []string{"INTEL-SA-00000"}
		}
		levels = append(levels, lv)
	}
	if r.Chance(1, 4) { // a catch-all lowest level
		var zero [16]int
		levels = append(levels, map[string]any{"tcb": map[string]any{"sgxtcbcomponents": comps(zero, 0, 16), "tdxtcbcomponents": comps(zero, 0, 16), "pcesvn": 0},
			"tcbDate": "2020-01-01T00:00:00Z", "tcbStatus": statusNames[r.Intn(len(statusNames))]})
	}
	tiID := "SGX"
	if tdx {
		tiID = "TDX"
	}
	if dev("tiId") {
		tiID = []string{"SGX", "TDX", "sgx", ""}[r.Intn(4)]
	}
	tiFmspc := fmspcStr
	tf := 5 + r.Intn(12)
	if dev("tiFmspc") {
		tf = 1 + r.Intn(4)
	}
	switch tf {
	case 5:
		tiFmspc = strings.ToLower(fmspcStr)
	case 1:
		tiFmspc = strings.ToUpper(hex.EncodeToString(rbytes(r, 6)))
	case 2:
		tiFmspc = fmspcStr[:11]
	case 3:
		tiFmspc = fmspcStr + "00"
	case 4:
		tiFmspc = "zz" + fmspcStr[2:]
	}
	tIssue := issue(dev("issueNow"), dev("issueEdge"), dev("issueOld"))
	ti := map[string]any{
		"id": tiID, "version": 3,
		"issueDate": tIssue.UTC().Format(tsFmt), "nextUpdate": tIssue.Add(30 * day).UTC().Format(tsFmt),
		"fmspc": tiFmspc, "pceId": "0000", "tcbType": 0,
		"tcbEvaluationDataNumber": int(pol.MinTCBEvaluationDataNumber) + r.Intn(3), "tcbLevels": levels,
	}
	if dev("tiVersion") {
		ti["version"] = []int{2, 4, 0, -3}[r.Intn(4)]
	}
	if dev("tiEval") {
		ti["tcbEvaluationDataNumber"] = int(pol.MinTCBEvaluationDataNumber) - 1 - r.Intn(2)
	}
	if dev("tiIssueBad") {
		ti["issueDate"] = []string{"2023-13-01T00:00:00Z", "", "2023-01-01 00:00:00"}[r.Intn(3)]
	}
	if dev("tiNextBad") {
		ti["nextUpdate"] = "soon"
	}
	if tdx || r.Chance(1, 6) {
		var mods []any
		for _, v := range []int{1, 2, 3, 11} {
			if dev("modIds") && r.Bool() {
				continue
			}
			var ml []any
			n := 1 + r.Intn(3)
			for i := 0; i < n; i++ {
				isv := int(teeSvn[0]) - i
				st := "UpToDate"
				if dev("modLevels") {
					isv = near(r, int(teeSvn[0])+n/2-i+1, 0)
					st = []string{"UpToDate", "OutOfDate", "Revoked"}[r.Intn(3)]
				}
				if isv < 0 {
					isv = 0
				}
				ml = append(ml, map[string]any{"tcb": map[string]any{"isvsvn": isv}, "tcbDate": "2023-08-09T00:00:00Z", "tcbStatus": st, "advisoryIDs": []string{}})
			}
			id := fmt.Sprintf("TDX_%02d", v)
			if dev("modIds") && r.Bool() {
				id = fmt.Sprintf("TDX_%d", v)
			}
			mods = append(mods, map[string]any{"id": id, "mrsigner": strings.Repeat("00", 48), "attributes": "0000000000000000",
				"attributesMask": "FFFFFFFFFFFFFFFF", "tcbLevels": ml})
		}
		ti["tdxModule"] = map[string]any{"mrsigner": strings.Repeat("00", 48), "attributes": "0000000000000000", "attributesMask": "FFFFFFFFFFFFFFFF"}
		ti["tdxModuleIdentities"] = mods
	}
	// Documented-unbound fields: the verifier reads none of these (binding-fact table); the
	// harness counts how often inputs that differ in them are accepted.
	if dev("unboundPceId") {
		ti["pceId"] = "0001" // the PCK certificate says 0000
		c.Unbound = append(c.Unbound, "pceId")
	}
	if dev("unboundTcbType") {
		ti["tcbType"] = 1
		c.Unbound = append(c.Unbound, "tcbType")
	}
	if dev("unboundNextUpdate") {
		ti["nextUpdate"] = tIssue.Add(time.Second).UTC().Format(tsFmt) // already past at the verification time
		c.Unbound = append(c.Unbound, "nextUpdate")
	}
	if dev("unboundTdxModule") && tdx {
		ti["tdxModule"] = map[string]any{"mrsigner": strings.Repeat("AB", 48), "attributes": "FFFFFFFFFFFFFFFF", "attributesMask": "FFFFFFFFFFFFFFFF"}
		c.Unbound = append(c.Unbound, "tdxModule")
	}
	c.TcbBody, _ = json.Marshal(ti)
	if dev("tiJson") {
		c.TcbBody = [][]byte{c.TcbBody[:len(c.TcbBody)/2], []byte("[]"), []byte("null"), append([]byte("{\"id\":7,"), c.TcbBody[1:]...)}[r.Intn(4)]
	}
	tk := p.tcbKey
	if dev("tiSigKey") {
		tk = p.interKey
	}
	c.TcbSig = hexUpper(signRS(tk, c.TcbBody), r.Bool())
	if dev("tiSigShort") {
		c.TcbSig = c.TcbSig[:len(c.TcbSig)-2]
	}

	// ---- QE identity
	qeID := "QE"
	if tdx {
		qeID = "TD_QE"
	}
	if dev("qeId") {
		qeID = []string{"QE", "TD_QE", "QVE"}[r.Intn(3)]
	}
	hex32 := func(v uint32) string { return strings.ToUpper(hex.EncodeToString([]byte{byte(v), byte(v >> 8), byte(v >> 16), byte(v >> 24)})) }
	hex128 := func(lo, hi uint64) string {
		b := make([]byte, 16)
		for i := 0; i < 8; i++ {
			b[i] = byte(lo >> (8 * i))
			b[8+i] = byte(hi >> (8 * i))
		}
		return strings.ToUpper(hex.EncodeToString(b))
	}
	miscMask := uint32([]uint32{0xffffffff, 0xffffffff, 0, 2}[r.Intn(4)])
	misc := qeMisc & miscMask
	if dev("qeMisc") {
		misc ^= 1
		miscMask |= 1
	}
	flagsMask, xfrmMask := uint64(0xfffffffffffffffb), uint64(0)
	if r.Chance(1, 4) {
		xfrmMask = 0xff
	}
	aflags, axfrm := qeFlags&flagsMask, qeXfrm&xfrmMask
	if dev("qeFlags") {
		aflags ^= 0x10
	}
	if dev("qeXfrm") {
		xfrmMask = 0xff
		axfrm = (qeXfrm & xfrmMask) ^ 0x4
	}
	var qlv []any
	nq := 1 + r.Intn(3)
	for i := 0; i < nq; i++ {
		isv, st := qeSvn-i, "UpToDate"
		if i > 0 {
			st = []string{"UpToDate", "OutOfDate", "Revoked"}[r.Intn(3)]
		}
		if dev("qeLevelsHigh") {
			isv = near(r, qeSvn+nq/2-i+1, 0)
			st = []string{"UpToDate", "OutOfDate", "Revoked", "SWHardeningNeeded"}[r.Intn(4)]
		}
		if isv < 0 {
			isv = 0
		}
		qlv = append(qlv, map[string]any{"tcb": map[string]any{"isvsvn": isv}, "tcbDate": "2023-08-09T00:00:00Z", "tcbStatus": st, "advisoryIDs": []string{}})
	}
	qIssue := issue(dev("qIssueNow"), dev("qIssueEdge"), dev("qIssueOld"))
	mrs := strings.ToUpper(hex.EncodeToString(qeSigner))
	mk := 4 + r.Intn(8)
	if dev("qeMrs") {
		mk = 1 + r.Intn(3)
	}
	switch mk {
	case 4:
		mrs = strings.ToLower(mrs)
	case 1:
		mrs = strings.ToUpper(hex.EncodeToString(rbytes(r, 32)))
	case 2:
		mrs = mrs[:62]
	case 3:
		mrs = "xy" + mrs[2:]
	}
	qi := map[string]any{
		"id": qeID, "version": 2,
		"issueDate": qIssue.UTC().Format(tsFmt), "nextUpdate": qIssue.Add(30 * day).UTC().Format(tsFmt),
		"tcbEvaluationDataNumber": int(pol.MinTCBEvaluationDataNumber) + r.Intn(3),
		"miscselect":              hex32(misc), "miscselectMask": hex32(miscMask),
		"attributes": hex128(aflags, axfrm), "attributesMask": hex128(flagsMask, xfrmMask),
		"mrsigner": mrs, "isvprodid": qeProd, "tcbLevels": qlv,
	}
	if dev("qeVersion") {
		qi["version"] = []int{1, 3, 0}[r.Intn(3)]
	}
	if dev("qeEval") {
		qi["tcbEvaluationDataNumber"] = int(pol.MinTCBEvaluationDataNumber) - 1 - r.Intn(2)
	}
	if dev("qeProd") {
		qi["isvprodid"] = qeProd + 1
	}
	if dev("qeMiscBad") {
		qi[[]string{"miscselect", "miscselectMask"}[r.Intn(2)]] = []string{"00", "0000000g", "0000000000"}[r.Intn(3)]
	}
	if dev("qeAttrBad") {
		qi[[]string{"attributes", "attributesMask"}[r.Intn(2)]] = []string{"FF", "zz", strings.Repeat("0", 34)}[r.Intn(3)]
	}
	if dev("qeIssueBad") {
		qi["issueDate"] = []string{"2023-02-30T00:00:00Z", "yesterday"}[r.Intn(2)]
	}
	if dev("qeNextBad") {
		qi["nextUpdate"] = ""
	}
	c.QeBody, _ = json.Marshal(qi)
	if dev("qeJson") {
		c.QeBody = [][]byte{c.QeBody[:len(c.QeBody)/2], []byte("{}x"), append([]byte("{\"tcbLevels\":3,"), c.QeBody[1:]...)}[r.Intn(3)]
	}
	qk := p.tcbKey
	if dev("qeSigKey2") {
		qk = pckKey
	}
	c.QeSig = hexUpper(signRS(qk, c.QeBody), r.Bool())

	// ---- TCB signing chain
	c.Certs = append(append([]byte{}, p.tcbPEM...), p.rootPEM...)
	if dev("tcbEd25519") {
		edPub, _, _ := ed25519.GenerateKey(rand.Reader)
		edCert := mkCert(tpl("verif SGX TCB Signing (ed25519)", false, p.t0.Add(-800*24*time.Hour), p.t0.Add(3000*24*time.Hour)), p.root, edPub, p.rootKey)
		c.Certs = append(append([]byte{}, pemOf(edCert)...), p.rootPEM...)
		c.Sec, c.Nsec = ts.Unix(), 0
		return c
	}
	ck := 3
	if dev("certs") {
		ck = r.Intn(3)
	}
	switch ck {
	case 0:
		c.Certs = append(append([]byte{}, p.interPEM...), p.rootPEM...) // a CA certificate as signing certificate
	case 1:
		c.Certs = append([]byte{}, p.tcbPEM...)
	case 2:
		c.Certs = append(append([]byte{}, p.tcbPEM...), p.interPEM...) // wrong "root"
	}
	c.Sec, c.Nsec = ts.Unix(), int64(r.Intn(2))*int64(r.Intn(1000000000))
	return c
}

func generateSynth(rn *runner, r *hlib.Rng, n int) {
	if n <= 0 {
		return
	}
	var p *pki
	for i := 0; i < n; i++ {
		if i%64 == 0 {
			p = newPKI(r)
		}
		c := synthCase(r, p, rn.res)
		// A share of the cases additionally carries a mutation, as for the recorded vectors.
		switch r.Intn(12) {
		case 0:
			c.Tag = "synth-quote-bit"
			c.Quote = flip(c.Quote, r.Intn(len(c.Quote)*8))
		case 1:
			c.Tag = "synth-collateral-bit"
			if r.Bool() {
				c.TcbBody = flip(c.TcbBody, r.Intn(len(c.TcbBody)*8))
			} else {
				c.QeBody = flip(c.QeBody, r.Intn(len(c.QeBody)*8))
			}
		case 2:
			c.Tag = "synth-foreign-root"
			c.Root = newPKI(r).root.Raw // everything signed under a root that is not the trusted one
		}
		rn.add(c)
	}
	installRoot(nil)
}
