package main

import (
	"crypto/x509"
	"strings"
	"time"

	"verifharness/hlib"

	"github.com/oasisprotocol/oasis-core/go/common/sgx/pcs"
)

// bitPositions returns the bit indices to flip in an input of n bytes: all of them when
// limit == 0, otherwise every bit of the `always` byte ranges plus a spread sample.
func bitPositions(r *hlib.Rng, n, limit int, always [][2]int) []int {
	if limit == 0 || n*8 <= limit {
		out := make([]int, n*8)
		for i := range out {
			out[i] = i
		}
		return out
	}
	seen := map[int]bool{}
	var out []int
	put := func(b int) {
		if b >= 0 && b < n*8 && !seen[b] {
			seen[b] = true
			out = append(out, b)
		}
	}
	for _, rg := range always {
		for b := rg[0] * 8; b < rg[1]*8; b++ {
			put(b)
		}
	}
	// Spread: one bit in every stride, random offset and bit, then random picks.
	stride := n * 8 / (limit / 2)
	if stride < 1 {
		stride = 1
	}
	for b := r.Intn(stride); b < n*8; b += stride {
		put(b)
	}
	for len(out) < limit+len(always)*16 && len(out) < n*8 {
		put(r.Intn(n * 8))
	}
	return out
}

type validity struct {
	name string
	t    time.Time
}

// boundaries lists every instant at which some validity condition of the vector changes.
func boundaries(v *Vector) []validity {
	var out []validity
	ti := tcbInfoFacts(v.Case.TcbBody)
	qi := qeIdFacts(v.Case.QeBody)
	if ti.issue != nil {
		out = append(out, validity{"tcbinfo-issue", *ti.issue})
		if t, err := time.Parse(pcs.TimestampFormat, ti.info.NextUpdate); err == nil {
			out = append(out, validity{"tcbinfo-nextupdate", t})
		}
	}
	if qi.issue != nil {
		out = append(out, validity{"qeid-issue", *qi.issue})
		if t, err := time.Parse(pcs.TimestampFormat, qi.info.NextUpdate); err == nil {
			out = append(out, validity{"qeid-nextupdate", t})
		}
	}
	addCerts := func(prefix string, cs []*x509.Certificate) {
		for i, c := range cs {
			out = append(out, validity{prefix + "-notbefore-" + string(rune('0'+i)), c.NotBefore})
			out = append(out, validity{prefix + "-notafter-" + string(rune('0'+i)), c.NotAfter})
		}
	}
	if cs, ok := pemCerts(v.Case.Certs); ok {
		addCerts("tcbcert", cs)
	}
	var q pcs.Quote
	if q.UnmarshalBinary(v.Case.Quote) == nil {
		addCerts("pck", q.VerifParts().Chain)
	}
	return out
}

func otherOf(vi int) int {
	switch vi {
	case 0:
		return 3
	case 1:
		return 2
	case 2:
		return 1
	case 3:
		return 0
	}
	return 1
}

func mutatePolicy(r *hlib.Rng, c *Case, v *Vector) {
	ti := tcbInfoFacts(v.Case.TcbBody)
	qi := qeIdFacts(v.Case.QeBody)
	if c.Pol == nil {
		c.Pol = &pcs.QuotePolicy{TCBValidityPeriod: 30, MinTCBEvaluationDataNumber: pcs.DefaultMinTCBEvaluationDataNumber}
	}
	fm := ti.info.FMSPC
	lists := [][]string{nil, {}, {fm}, {strings.ToLower(fm)}, {"00906ED50000"}, {"00906ED50000", fm}, {""}, {fm + "00"}}
	switch r.Intn(10) {
	case 9:
		// what BuildMrSignerBlacklist(false) installs, or the quote's own signer
		c.Bl = unhexOrNil("9affcfae47b848ec2caf1c49b4b283531e1cc425f93582b36806e52a43d78d1a")
		if r.Bool() && len(v.Body) == 384 {
			c.Bl = append([]byte(nil), v.Body[128:160]...)
			if r.Bool() {
				c.Bl[r.Intn(32)] ^= 1
			}
		}
	case 0:
		c.Pol.Disabled = true
	case 1:
		es := []uint32{0, 1, 12, ti.info.TCBEvaluationDataNumber - 1, ti.info.TCBEvaluationDataNumber, ti.info.TCBEvaluationDataNumber + 1,
			qi.info.TCBEvaluationDataNumber - 1, qi.info.TCBEvaluationDataNumber, qi.info.TCBEvaluationDataNumber + 1, 1 << 31, 0xffffffff}
		c.Pol.MinTCBEvaluationDataNumber = es[r.Intn(len(es))]
	case 2:
		vs := []uint16{0, 1, 2, 3, 4, 5, 29, 30, 31, 90, 365, 65535}
		c.Pol.TCBValidityPeriod = vs[r.Intn(len(vs))]
	case 3:
		c.Pol.FMSPCWhitelist = lists[r.Intn(len(lists))]
	case 4:
		c.Pol.FMSPCBlacklist = lists[r.Intn(len(lists))]
	case 5:
		c.Pol.TDX = tdxPolicy(r, v)
	case 6:
		c.Dbg = !c.Dbg
	case 7:
		c.Lax = !c.Lax
	case 8:
		c.Pol = nil
	}
}

func tdxPolicy(r *hlib.Rng, v *Vector) *pcs.TdxQuotePolicy {
	var seam, signer [48]byte
	if len(v.Body) == 584 {
		copy(seam[:], v.Body[16:64])
		copy(signer[:], v.Body[64:112])
	}
	badSeam, badSigner := seam, signer
	badSeam[r.Intn(48)] ^= 1 << r.Intn(8)
	badSigner[r.Intn(48)] ^= 1 << r.Intn(8)
	mods := []pcs.TdxModulePolicy{
		{MrSignerSeam: signer},
		{MrSeam: &seam, MrSignerSeam: signer},
		{MrSeam: &badSeam, MrSignerSeam: signer},
		{MrSignerSeam: badSigner},
		{MrSeam: &seam, MrSignerSeam: badSigner},
	}
	switch r.Intn(5) {
	case 0:
		return nil
	case 1:
		return &pcs.TdxQuotePolicy{}
	case 2:
		return &pcs.TdxQuotePolicy{AllowedTdxModules: []pcs.TdxModulePolicy{mods[r.Intn(len(mods))]}}
	case 3:
		return &pcs.TdxQuotePolicy{AllowedTdxModules: []pcs.TdxModulePolicy{mods[r.Intn(len(mods))], mods[r.Intn(len(mods))]}}
	default:
		return &pcs.TdxQuotePolicy{AllowedTdxModules: []pcs.TdxModulePolicy{mods[2], mods[3]}}
	}
}

func mutateTime(r *hlib.Rng, c *Case, bs []validity, pol *pcs.QuotePolicy) {
	if len(bs) == 0 {
		return
	}
	b := bs[r.Intn(len(bs))]
	t := b.t
	if strings.HasSuffix(b.name, "-issue") && r.Chance(2, 3) {
		days := 30
		if pol != nil {
			days = int(pol.TCBValidityPeriod)
		}
		t = t.Add(time.Duration(days) * 24 * time.Hour)
	}
	offs := []time.Duration{-time.Second, -time.Nanosecond, 0, time.Nanosecond, time.Second, -24 * time.Hour, 24 * time.Hour}
	t = t.Add(offs[r.Intn(len(offs))])
	c.Sec, c.Nsec = t.Unix(), int64(t.Nanosecond())
}

// structQuote applies a structure-aware mutation to a genuine quote.
func structQuote(r *hlib.Rng, q []byte, other []byte, tcbCerts []byte) []byte {
	l := layout(q)
	o := append([]byte(nil), q...)
	cd := q[l.cdOff : l.cdOff+l.cdLen]
	blocks := pemBlocks(cd)
	join := func(bs ...[]byte) []byte {
		var out []byte
		for _, b := range bs {
			out = append(out, b...)
		}
		return out
	}
	field := func(off, n int) {
		// take a field from the other genuine quote of the same kind
		lo := layout(other)
		src := map[int]int{l.sigOff: lo.sigOff, l.akOff: lo.akOff, l.qerOff: lo.qerOff, l.qesOff: lo.qesOff, l.authOff: lo.authOff, 0: 0, 48: 48}[off]
		if src+n <= len(other) && off+n <= len(o) {
			copy(o[off:off+n], other[src:src+n])
		}
	}
	switch r.Intn(22) {
	case 0:
		field(l.sigOff, 64)
	case 1:
		field(l.akOff, 64)
	case 2:
		field(l.qerOff, 384)
	case 3:
		field(l.qesOff, 64)
	case 4:
		field(l.authOff, 32)
	case 5:
		field(0, 48)
	case 6:
		field(48, l.bodyLen)
	case 7: // header and body of the other quote, signature data of this one
		field(0, 48)
		field(48, l.bodyLen)
	case 8: // attestation key and its binding from the other quote
		field(l.akOff, 64)
		field(l.qerOff, 384)
		field(l.qesOff, 64)
		field(l.authOff, 32)
	case 9: // chain reordered
		if len(blocks) == 3 {
			p := [][3]int{{1, 0, 2}, {0, 2, 1}, {2, 1, 0}, {1, 2, 0}}[r.Intn(4)]
			return withCertData(q, 5, join(blocks[p[0]], blocks[p[1]], blocks[p[2]]))
		}
	case 10: // chain with a certificate dropped / duplicated
		if len(blocks) == 3 {
			switch r.Intn(4) {
			case 0:
				return withCertData(q, 5, join(blocks[0], blocks[1]))
			case 1:
				return withCertData(q, 5, join(blocks[0], blocks[2]))
			case 2:
				return withCertData(q, 5, join(blocks[0], blocks[1], blocks[2], blocks[2]))
			default:
				return withCertData(q, 5, join(blocks[0], blocks[1], blocks[1]))
			}
		}
	case 11: // the TCB signing chain presented as PCK chain
		tb := pemBlocks(tcbCerts)
		if len(tb) == 2 && len(blocks) == 3 {
			return withCertData(q, 5, join(tb[0], blocks[1], tb[1]))
		}
	case 12: // the other quote's chain
		lo := layout(other)
		if lo.cdOff+lo.cdLen <= len(other) {
			return withCertData(q, int(other[lo.cdTypeOff]), other[lo.cdOff:lo.cdOff+lo.cdLen])
		}
	case 13: // re-encoded PEM (different whitespace, same certificates)
		return withCertData(q, 5, join(blocks...))
	case 14: // PEM with text between and after the blocks
		if len(blocks) == 3 {
			return withCertData(q, 5, join(blocks[0], []byte("junk: x\n"), blocks[1], []byte("\n\n"), blocks[2], []byte("trailing text")))
		}
	case 15: // certification data type changed
		return withCertData(q, 1+r.Intn(8), cd)
	case 16: // empty chain
		return withCertData(q, 5, nil)
	case 17: // v3: bytes after the certification data, inside the signature length
		extra := make([]byte, 1+r.Intn(16))
		for i := range extra {
			extra[i] = byte(r.Next())
		}
		o = append(o, extra...)
		copy(o[l.sigLenOff:], le32(len(o)-l.sigOff))
		if l.v4 {
			copy(o[l.akOff+64+2:], le32(len(o)-(l.akOff+64+6)))
		}
	case 18: // length fields
		offs := []int{l.sigLenOff, l.authSizeOff, l.cdSizeOff, l.cdTypeOff}
		if l.v4 {
			offs = append(offs, l.akOff+64, l.akOff+64+2)
		}
		p := offs[r.Intn(len(offs))]
		o[p+r.Intn(2)] = byte(r.Next())
	case 19: // header fields: version, key type, tee type / reserved, svn, vendor, user data
		p := []int{0, 1, 2, 3, 4, 5, 6, 7, 8, 9, 10, 11, 12, 27, 28, 47}[r.Intn(16)]
		o[p] = byte(r.Next())
	case 20: // ECDSA malleability: s -> n - s on one of the two in-quote signatures
		off := []int{l.sigOff, l.qesOff}[r.Intn(2)]
		copy(o[off+32:off+64], negateS(o[off+32:off+64]))
	case 21: // attributes / debug bit of the report body
		if l.bodyLen == 384 {
			o[48+48] ^= 2
		} else {
			o[48+120] ^= 1
		}
	}
	return o
}

func generate(rn *runner, rng *hlib.Rng, bits, multis, combos int) {
	// 0. The unmutated vectors themselves, with raw parse comparison.
	for _, v := range vectors {
		c := v.Case.clone()
		c.Tag = "quote-base"
		rn.add(c)
	}
	usable := vectors[:4] // the trailing-data vector does not parse; it only takes part as a base case
	bounds := make([][]validity, len(usable))
	for vi, v := range usable {
		bounds[vi] = boundaries(v)
	}

	for vi, v := range usable {
		r := rng.Fork()
		base := v.Case
		other := usable[otherOf(vi)].Case
		l := layout(base.Quote)

		// 1. single-bit mutations
		always := [][2]int{{0, 48}, {l.sigLenOff, l.sigLenOff + 4}, {l.authSizeOff, l.authSizeOff + 2}, {l.cdTypeOff, l.cdOff}}
		if l.v4 {
			always = append(always, [2]int{l.akOff + 64, l.akOff + 70})
		}
		for _, b := range bitPositions(r, len(base.Quote), bits, always) {
			c := base.clone()
			c.Tag = "quote-bit"
			c.Quote = flip(base.Quote, b)
			rn.add(c)
		}
		if v.Accepted || vi == 2 {
			for _, b := range bitPositions(r, len(base.TcbBody), bits/2, nil) {
				c := base.clone()
				c.Tag = "tcbinfo-bit"
				c.TcbBody = flip(base.TcbBody, b)
				rn.add(c)
			}
			for _, b := range bitPositions(r, len(base.TcbSig), bits/4, nil) {
				c := base.clone()
				c.Tag = "tcbinfo-sig-bit"
				c.TcbSig = string(flip([]byte(base.TcbSig), b))
				rn.add(c)
			}
			for _, b := range bitPositions(r, len(base.QeBody), bits/2, nil) {
				c := base.clone()
				c.Tag = "qeid-bit"
				c.QeBody = flip(base.QeBody, b)
				rn.add(c)
			}
			for _, b := range bitPositions(r, len(base.QeSig), bits/4, nil) {
				c := base.clone()
				c.Tag = "qeid-sig-bit"
				c.QeSig = string(flip([]byte(base.QeSig), b))
				rn.add(c)
			}
			for _, b := range bitPositions(r, len(base.Certs), bits/2, nil) {
				c := base.clone()
				c.Tag = "pem-bit"
				c.Certs = flip(base.Certs, b)
				rn.add(c)
			}
		}

		// 2. multi-byte mutations
		for i := 0; i < multis; i++ {
			c := base.clone()
			switch r.Intn(10) {
			case 0, 1, 2:
				c.Tag = "quote-multi"
				c.Quote = multi(r, base.Quote, other.Quote)
			case 3, 4:
				c.Tag = "quote-struct"
				c.Quote = structQuote(r, base.Quote, other.Quote, base.Certs)
			case 5:
				c.Tag = "tcbinfo-multi"
				if r.Bool() {
					c.TcbBody = multi(r, base.TcbBody, other.TcbBody)
				} else {
					c.TcbBody = asciiMut(r, base.TcbBody)
				}
			case 6:
				c.Tag = "qeid-multi"
				if r.Bool() {
					c.QeBody = multi(r, base.QeBody, other.QeBody)
				} else {
					c.QeBody = asciiMut(r, base.QeBody)
				}
			case 7:
				c.Tag = "collateral-sig-multi"
				if r.Bool() {
					c.TcbSig = string(asciiMut(r, []byte(base.TcbSig)))
				} else {
					c.QeSig = string(asciiMut(r, []byte(base.QeSig)))
				}
				if r.Chance(1, 6) {
					c.TcbSig, c.QeSig = base.QeSig, base.TcbSig
				}
				if r.Chance(1, 8) {
					// ECDSA malleability on the hex signature
					if b := unhexOrNil(base.TcbSig); len(b) == 64 {
						copy(b[32:], negateS(b[32:]))
						c.TcbSig = hexUpper(b, r.Bool())
					}
				}
			case 8:
				c.Tag = "pem-multi"
				if r.Bool() {
					c.Certs = multi(r, base.Certs, nil)
				} else {
					c.Certs = asciiMut(r, base.Certs)
				}
			case 9:
				c.Tag = "pem-struct"
				bl := pemBlocks(base.Certs)
				var q pcs.Quote
				var pck [][]byte
				if q.UnmarshalBinary(usable[0].Case.Quote) == nil {
					lq := layout(usable[0].Case.Quote)
					pck = pemBlocks(usable[0].Case.Quote[lq.cdOff : lq.cdOff+lq.cdLen])
				}
				if len(bl) == 2 {
					switch r.Intn(8) {
					case 0:
						c.Certs = append(append([]byte{}, bl[1]...), bl[0]...)
					case 1:
						c.Certs = bl[0]
					case 2:
						c.Certs = bl[1]
					case 3:
						c.Certs = append(append(append([]byte{}, bl[0]...), bl[1]...), bl[1]...)
					case 4:
						c.Certs = nil
					case 5:
						c.Certs = append(append([]byte("preamble\n"), base.Certs...), []byte("\ntrailer")...)
					case 6:
						if len(pck) == 3 { // PCK leaf + root as "TCB signing chain"
							c.Certs = append(append([]byte{}, pck[0]...), pck[2]...)
						}
					case 7:
						if len(pck) == 3 { // intermediate CA + root
							c.Certs = append(append([]byte{}, pck[1]...), pck[2]...)
						}
					}
				}
			}
			rn.add(c)
		}

		// 3. every validity boundary, exactly and one step to either side, under several validity periods
		if v.Accepted || vi == 2 {
			for _, b := range bounds[vi] {
				for _, days := range []int{-1, 0, 1, 30, 90, 65535} {
					ts := []time.Time{b.t}
					if strings.HasSuffix(b.name, "-issue") && days >= 0 {
						ts = append(ts, b.t.Add(time.Duration(days)*24*time.Hour))
					} else if days > 0 {
						continue
					}
					for _, t0 := range ts {
						for _, d := range []time.Duration{-time.Second, -time.Nanosecond, 0, time.Nanosecond, time.Second} {
							t := t0.Add(d)
							c := base.clone()
							c.Tag = "time"
							c.Sec, c.Nsec = t.Unix(), int64(t.Nanosecond())
							if days >= 0 {
								if c.Pol == nil {
									c.Pol = &pcs.QuotePolicy{MinTCBEvaluationDataNumber: pcs.DefaultMinTCBEvaluationDataNumber}
								}
								c.Pol.TCBValidityPeriod = uint16(days)
							}
							rn.add(c)
						}
					}
				}
			}
			// extreme times
			for _, t := range []time.Time{time.Unix(0, 0), time.Unix(-62135596800, 0), time.Unix(253402300799, 999999999), time.Unix(1<<40, 0)} {
				c := base.clone()
				c.Tag = "time"
				c.Sec, c.Nsec = t.Unix(), int64(t.Nanosecond())
				rn.add(c)
			}
		}

		// 4. policy settings, one change at a time and in pairs
		if v.Accepted || vi == 2 {
			for i := 0; i < 120; i++ {
				c := base.clone()
				c.Tag = "policy"
				mutatePolicy(r, c, v)
				if r.Chance(1, 3) && c.Pol != nil {
					mutatePolicy(r, c, v)
				}
				rn.add(c)
			}
			c := base.clone()
			c.Tag = "policy"
			c.TcbNil = true
			rn.add(c)
			if v.Accepted {
				// K2, deterministically: the FMSPC black list holds the platform's FMSPC in lower case
				c = base.clone()
				c.Tag = "policy"
				if c.Pol == nil {
					c.Pol = &pcs.QuotePolicy{TCBValidityPeriod: 30, MinTCBEvaluationDataNumber: pcs.DefaultMinTCBEvaluationDataNumber}
				}
				c.Pol.FMSPCBlacklist = []string{strings.ToLower(tcbInfoFacts(base.TcbBody).info.FMSPC)}
				rn.add(c)
			}
		}
	}

	// 4b. node registration on the recorded vectors: every shape of the descriptor's constraints
	// policy x consensus default PCS policies (disabled, minimum evaluation number, black list,
	// permissive, absent) x feature flag. The RAK cannot match a recorded quote, so a verified
	// quote shows as "rak" and a rejected one as "quote".
	for vi, v := range usable[:2] {
		if !v.Accepted {
			continue
		}
		_ = vi
		parts := strings.Split(v.Result, ":")
		id := append(unhx(parts[1]), unhx(parts[2])...)
		ti := tcbInfoFacts(v.Case.TcbBody)
		mk := func(f func(p *pcs.QuotePolicy)) *pcs.QuotePolicy {
			p := &pcs.QuotePolicy{TCBValidityPeriod: 30, MinTCBEvaluationDataNumber: pcs.DefaultMinTCBEvaluationDataNumber}
			if v.Case.Pol != nil {
				q := *v.Case.Pol
				p = &q
			}
			f(p)
			return p
		}
		defs := []struct {
			kind string
			pol  *pcs.QuotePolicy
		}{
			{"pcs", mk(func(p *pcs.QuotePolicy) { p.Disabled = true })},
			{"pcs", mk(func(p *pcs.QuotePolicy) { p.MinTCBEvaluationDataNumber = ti.info.TCBEvaluationDataNumber + 1 })},
			{"pcs", mk(func(p *pcs.QuotePolicy) { p.FMSPCBlacklist = []string{ti.info.FMSPC} })},
			{"pcs", mk(func(p *pcs.QuotePolicy) {})},
			{"pcs", nil},
			{"none", nil},
			{"nil", nil},
		}
		for _, shape := range []string{"nil", "empty", "ias", "pcs", "both"} {
			for _, d := range defs {
				for _, fs := range []bool{true, false} {
					for _, dias := range []bool{false, true} {
						c := v.Case.clone()
						c.Tag = "registration"
						c.AttRak = make([]byte, 32)
						c.AttOK = id
						c.Reg, c.FsPCS, c.Def, c.DefIAS, c.DefPol = shape, fs, d.kind, dias, d.pol
						if (shape == "pcs" || shape == "both") && c.Pol == nil {
							c.Pol = mk(func(p *pcs.QuotePolicy) {})
						}
						rn.add(c)
					}
				}
			}
		}
	}

	// 5. foreign collateral: every (quote, TCB info, QE identity) triple, at the time of each part
	for qi, qv := range usable {
		for ti, tv := range usable[:3] {
			for ei, ev := range usable[:3] {
				if qi == ti && ti == ei {
					continue
				}
				for _, tv2 := range []*Vector{qv, tv, ev} {
					c := qv.Case.clone()
					c.Tag = "foreign"
					c.TcbBody, c.TcbSig = tv.Case.TcbBody, tv.Case.TcbSig
					c.QeBody, c.QeSig = ev.Case.QeBody, ev.Case.QeSig
					c.Sec = tv2.Case.Sec
					if c.Pol == nil {
						c.Pol = &pcs.QuotePolicy{TCBValidityPeriod: 30, MinTCBEvaluationDataNumber: 12}
					}
					c.Pol.TDX = &pcs.TdxQuotePolicy{}
					c.Pol.TCBValidityPeriod = 65535
					rn.add(c)
				}
			}
		}
	}

	// 6. combinations: a mutation of one part together with time and policy changes (check order)
	r := rng.Fork()
	for i := 0; i < combos; i++ {
		vi := r.Intn(3)
		v := usable[vi]
		other := usable[otherOf(vi)].Case
		c := v.Case.clone()
		c.Tag = "combo"
		n := 1 + r.Intn(3)
		for j := 0; j < n; j++ {
			switch r.Intn(9) {
			case 0:
				c.Quote = flip(c.Quote, r.Intn(len(c.Quote)*8))
			case 1:
				c.Quote = structQuote(r, v.Case.Quote, other.Quote, c.Certs)
			case 2:
				c.TcbBody = flip(c.TcbBody, r.Intn(len(c.TcbBody)*8))
			case 3:
				c.QeBody = flip(c.QeBody, r.Intn(len(c.QeBody)*8))
			case 4:
				if r.Bool() {
					c.TcbSig = string(asciiMut(r, []byte(c.TcbSig)))
				} else {
					c.QeSig = string(asciiMut(r, []byte(c.QeSig)))
				}
			case 5:
				c.Certs = flip(c.Certs, r.Intn(len(c.Certs)*8))
			case 6:
				mutateTime(r, c, bounds[vi], c.Pol)
			case 7:
				mutatePolicy(r, c, v)
			case 8:
				o := usable[r.Intn(3)].Case
				if r.Bool() {
					c.TcbBody, c.TcbSig = o.TcbBody, o.TcbSig
				} else {
					c.QeBody, c.QeSig = o.QeBody, o.QeSig
				}
			}
		}
		rn.add(c)
	}
}
