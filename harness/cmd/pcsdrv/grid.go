package main

// Parameterised synthetic platforms and systematic grids over the decision logic that sits behind
// Intel's signatures (round 3).
//
// synth.go builds one valid platform and deviates from it in named ways. The grids here are
// written the other way round: a synthSpec states every signed value explicitly (PCK certificate
// SVNs, TEE TCB SVNs of the TD report, every TCB level with all 16+16+1 component bounds and its
// status, TDX module identities with their own levels, QE report fields and the QE identity's
// masks and levels, issue dates to the nanosecond, certificate validity) and buildSynth signs it
// under the harness-owned root. The generators then span
//
//   tcbgrid   teeTcbSvn[1] in {0,1,2,...,255}; every SVN index (16 SGX, PCESVN, 16 TDX) individually
//             below / equal / above the bound of each level; 1-4 levels with all statuses (and a
//             missing one); TDX module identities present / absent / misnamed / duplicated with
//             module levels below / equal / above teeTcbSvn[0]; negative bounds; lax on/off;
//   qegrid    QE identity: random miscselect / flags / xfrm masks with a single bit flipped inside
//             or outside the mask on either side, MRSIGNER, ISVPRODID, QE ISVSVN against 1-4 levels;
//   timegrid  verification time at issueDate and issueDate + validity of TCB info and QE identity,
//             each -1 ns / exactly / +1 ns, for validity periods 0..65535 days; PCK and TCB signing
//             certificate NotBefore / NotAfter at the verification time; evaluation data numbers
//             min-1 / min / min+1; nextUpdate in the past (documented-unbound).
//
// Every case goes through the real Quote.Verify, the model (accept/reject, stage, the selected
// level's index and status, matches() per level, the status inside TCBOutOfDateError) and the
// spec predicates of specCheck.

import (
	"crypto/sha256"
	"encoding/hex"
	"encoding/json"
	"fmt"
	"strings"
	"time"

	"verifharness/hlib"

	"github.com/oasisprotocol/curve25519-voi/primitives/x25519"

	"github.com/oasisprotocol/oasis-core/go/common/crypto/signature"
	memorySigner "github.com/oasisprotocol/oasis-core/go/common/crypto/signature/signers/memory"
	"github.com/oasisprotocol/oasis-core/go/common/crypto/tuplehash"
	"github.com/oasisprotocol/oasis-core/go/common/node"
	"github.com/oasisprotocol/oasis-core/go/common/sgx/pcs"
)

type lvlSpec struct {
	sgx, tdx [16]int
	pce      int
	status   string // "" = field missing
	noTdx    bool   // leave tdxtcbcomponents out (decodes to zeros)
}

type encLvl struct {
	isv    int
	status string // "" = field missing
}

type modSpec struct {
	id     string
	levels []encLvl
}

type synthSpec struct {
	tdx, v4 bool
	fmspc   []byte
	compSvn [16]int
	pcesvn  int
	teeSvn  [16]byte
	// QE report
	qeMisc          uint32
	qeFlags, qeXfrm uint64
	qeSvn, qeProd   int
	qeSigner        []byte
	// QE identity
	qiID                           string
	qiVersion, qiEval, qiProd      int
	qiIssue, qiNext                time.Time
	qiMisc, qiMiscMask             uint32
	qiFlags, qiFlagsMask           uint64
	qiXfrm, qiXfrmMask             uint64
	qiMrSigner                     string
	qiLevels                       []encLvl
	// TCB info
	tiID              string
	tiVersion, tiEval int
	tiIssue, tiNext   time.Time
	tiFmspc, tiPceID  string
	levels            []lvlSpec
	modules           []modSpec
	noModules         bool
	// certificates
	pckNB, pckNA time.Time
	tcbNB, tcbNA *time.Time // nil: the shared TCB signing certificate of the pki
	// verification
	pol      *pcs.QuotePolicy
	lax, dbg bool
	ts       time.Time
	// report data to sign (64 bytes; nil: random) and, set by buildSynth, the identity and report
	// data the signed report body determines
	reportData             []byte
	outMre, outMrs, outRD []byte
}

const day = 24 * time.Hour

func fmtTS(t time.Time) string { return t.UTC().Format(pcs.TimestampFormat) }

// defaultSpec is a platform every check accepts.
func defaultSpec(r *hlib.Rng, p *pki, tdx bool) *synthSpec {
	s := &synthSpec{tdx: tdx, v4: tdx || r.Chance(1, 3), fmspc: rbytes(r, 6), pcesvn: 5 + r.Intn(5)}
	for i := range s.compSvn {
		s.compSvn[i] = 2 + r.Intn(4)
		s.teeSvn[i] = byte(2 + r.Intn(4))
	}
	s.teeSvn[1] = 0
	s.qeMisc, s.qeFlags, s.qeXfrm = uint32(r.Intn(4)), 0x15, 0xe7
	s.qeSvn, s.qeProd, s.qeSigner = 3+r.Intn(5), 1+r.Intn(2), rbytes(r, 32)
	s.ts = p.t0.Add(time.Duration(r.Intn(200)-100)*time.Hour + time.Duration(r.Intn(1000000000)))
	s.pol = &pcs.QuotePolicy{TCBValidityPeriod: 30, MinTCBEvaluationDataNumber: uint32(10 + r.Intn(4))}
	if tdx {
		s.pol.TDX = &pcs.TdxQuotePolicy{}
	}
	s.qiID, s.tiID = "QE", "SGX"
	if tdx {
		s.qiID, s.tiID = "TD_QE", "TDX"
	}
	s.qiVersion, s.tiVersion = 2, 3
	s.qiEval, s.tiEval = int(s.pol.MinTCBEvaluationDataNumber)+r.Intn(3), int(s.pol.MinTCBEvaluationDataNumber)+r.Intn(3)
	s.qiIssue = s.ts.Add(-time.Duration(1+r.Intn(20)) * time.Hour).Truncate(time.Second)
	s.tiIssue = s.ts.Add(-time.Duration(1+r.Intn(20)) * time.Hour).Truncate(time.Second)
	s.qiNext, s.tiNext = s.qiIssue.Add(30*day), s.tiIssue.Add(30*day)
	s.qiMiscMask, s.qiFlagsMask, s.qiXfrmMask = 0xffffffff, 0xfffffffffffffffb, 0
	s.qiMisc, s.qiFlags, s.qiXfrm = s.qeMisc&s.qiMiscMask, s.qeFlags&s.qiFlagsMask, s.qeXfrm&s.qiXfrmMask
	s.qiMrSigner, s.qiProd = strings.ToUpper(hex.EncodeToString(s.qeSigner)), s.qeProd
	s.qiLevels = []encLvl{{s.qeSvn, "UpToDate"}}
	s.tiFmspc, s.tiPceID = strings.ToUpper(hex.EncodeToString(s.fmspc)), "0000"
	l := lvlSpec{sgx: s.compSvn, pce: s.pcesvn, status: "UpToDate", noTdx: !tdx}
	for i := range l.tdx {
		l.tdx[i] = int(s.teeSvn[i])
	}
	s.levels = []lvlSpec{l}
	s.noModules = !tdx
	s.pckNB, s.pckNA = p.t0.Add(-300*day), p.t0.Add(300*day)
	return s
}

func compsJSON(a [16]int) []any {
	out := make([]any, 16)
	for i, v := range a {
		out[i] = map[string]any{"svn": v}
	}
	return out
}

func encLevelsJSON(l []encLvl) []any {
	out := []any{}
	for _, x := range l {
		m := map[string]any{"tcb": map[string]any{"isvsvn": x.isv}, "tcbDate": "2023-08-09T00:00:00Z", "advisoryIDs": []string{}}
		if x.status != "" {
			m["tcbStatus"] = x.status
		}
		out = append(out, m)
	}
	return out
}

func hex32le(v uint32) string {
	return strings.ToUpper(hex.EncodeToString([]byte{byte(v), byte(v >> 8), byte(v >> 16), byte(v >> 24)}))
}

func hex128le(lo, hi uint64) string {
	b := make([]byte, 16)
	for i := 0; i < 8; i++ {
		b[i] = byte(lo >> (8 * i))
		b[8+i] = byte(hi >> (8 * i))
	}
	return strings.ToUpper(hex.EncodeToString(b))
}

// buildSynth signs the platform the spec describes under the pki's root.
func buildSynth(r *hlib.Rng, p *pki, s *synthSpec, tag string) *Case {
	c := &Case{Tag: tag, Root: p.root.Raw, Pol: s.pol, Lax: s.lax, Dbg: s.dbg}
	// PCK chain
	pl := &platform{fmspc: s.fmspc, compSvn: s.compSvn, pcesvn: s.pcesvn}
	pckKey := keyFrom(r)
	leaf := p.pckLeaf(pl, &pckKey.PublicKey, s.pckNB, s.pckNA)
	chain := append(append(append([]byte{}, pemOf(leaf)...), p.interPEM...), p.rootPEM...)
	// attestation key and QE report
	attKey := keyFrom(r)
	ak := pubRaw(attKey)
	auth := rbytes(r, 32)
	qer := make([]byte, 384)
	copy(qer[0:16], rbytes(r, 16))
	for i := 0; i < 4; i++ {
		qer[16+i] = byte(s.qeMisc >> (8 * i))
	}
	for i := 0; i < 8; i++ {
		qer[48+i] = byte(s.qeFlags >> (8 * i))
		qer[56+i] = byte(s.qeXfrm >> (8 * i))
	}
	copy(qer[64:96], rbytes(r, 32))
	copy(qer[128:160], s.qeSigner)
	copy(qer[256:], le16(s.qeProd))
	copy(qer[258:], le16(s.qeSvn))
	h := sha256.Sum256(append(append([]byte{}, ak...), auth...))
	copy(qer[320:352], h[:])
	qes := signRS(pckKey, qer)
	// header and body
	hdr := make([]byte, 48)
	copy(hdr[12:28], pcs.QEVendorID_Intel)
	copy(hdr[28:48], rbytes(r, 20))
	hdr[2] = 2
	if s.v4 {
		hdr[0] = 4
		if s.tdx {
			hdr[4] = 0x81
		}
	} else {
		hdr[0] = 3
		hdr[8], hdr[10] = byte(r.Intn(10)), byte(r.Intn(10))
	}
	var body []byte
	expected := ""
	if s.tdx {
		body = make([]byte, 584)
		copy(body[0:16], s.teeSvn[:])
		copy(body[16:64], rbytes(r, 48))
		attrs := uint64(1 << 28)
		if s.dbg {
			attrs |= 1
		}
		for i := 0; i < 8; i++ {
			body[120+i] = byte(attrs >> (8 * i))
		}
		copy(body[136:520], rbytes(r, 384))
		copy(body[520:584], rbytes(r, 64))
		if len(s.reportData) == 64 {
			copy(body[520:584], s.reportData)
		}
		th := tuplehash.New256(32, []byte(pcs.TdEnclaveIdentityContext))
		for _, off := range []int{136, 328, 376, 424, 472} {
			_, _ = th.Write(body[off : off+48])
		}
		s.outMre, s.outMrs, s.outRD = th.Sum(nil), make([]byte, 32), body[520:584]
		expected = fmt.Sprintf("accept:%s:%s:%s", hx(s.outMre), hx(make([]byte, 32)), hx(body[520:584]))
	} else {
		body = make([]byte, 384)
		copy(body[0:16], rbytes(r, 16))
		body[48] = 0x05
		if s.dbg {
			body[48] |= 2
		}
		body[56] = 3
		copy(body[64:96], rbytes(r, 32))
		copy(body[128:160], rbytes(r, 32))
		copy(body[320:384], rbytes(r, 64))
		if len(s.reportData) == 64 {
			copy(body[320:384], s.reportData)
		}
		s.outMre, s.outMrs, s.outRD = body[64:96], body[128:160], body[320:384]
		expected = fmt.Sprintf("accept:%s:%s:%s", hx(body[64:96]), hx(body[128:160]), hx(body[320:384]))
	}
	signed := append(append([]byte{}, hdr...), body...)
	sig := signRS(attKey, signed)
	synthGenuine[hex.EncodeToString(signed)] = expected
	qe := append(append(append([]byte{}, qer...), qes...), le16(len(auth))...)
	qe = append(qe, auth...)
	qe = append(qe, le16(5)...)
	qe = append(qe, le32(len(chain))...)
	qe = append(qe, chain...)
	sd := append(append([]byte{}, sig...), ak...)
	if s.v4 {
		sd = append(sd, le16(6)...)
		sd = append(sd, le32(len(qe))...)
	}
	sd = append(sd, qe...)
	c.Quote = append(append(append(append([]byte{}, hdr...), body...), le32(len(sd))...), sd...)
	// TCB info
	var levels []any
	for _, l := range s.levels {
		tcb := map[string]any{"sgxtcbcomponents": compsJSON(l.sgx), "pcesvn": l.pce}
		if !l.noTdx {
			tcb["tdxtcbcomponents"] = compsJSON(l.tdx)
		}
		lv := map[string]any{"tcb": tcb, "tcbDate": "2023-08-09T00:00:00Z"}
		if l.status != "" {
			lv["tcbStatus"] = l.status
		}
		levels = append(levels, lv)
	}
	if levels == nil {
		levels = []any{}
	}
	ti := map[string]any{
		"id": s.tiID, "version": s.tiVersion, "issueDate": fmtTS(s.tiIssue), "nextUpdate": fmtTS(s.tiNext),
		"fmspc": s.tiFmspc, "pceId": s.tiPceID, "tcbType": 0, "tcbEvaluationDataNumber": s.tiEval, "tcbLevels": levels,
	}
	if !s.noModules {
		mods := []any{}
		for _, m := range s.modules {
			mods = append(mods, map[string]any{"id": m.id, "mrsigner": strings.Repeat("00", 48), "attributes": "0000000000000000",
				"attributesMask": "FFFFFFFFFFFFFFFF", "tcbLevels": encLevelsJSON(m.levels)})
		}
		ti["tdxModule"] = map[string]any{"mrsigner": strings.Repeat("00", 48), "attributes": "0000000000000000", "attributesMask": "FFFFFFFFFFFFFFFF"}
		ti["tdxModuleIdentities"] = mods
	}
	c.TcbBody, _ = json.Marshal(ti)
	tcbCertPEM := p.tcbPEM
	if s.tcbNB != nil && s.tcbNA != nil {
		tc := mkCert(tpl("verif SGX TCB Signing", false, *s.tcbNB, *s.tcbNA), p.root, &p.tcbKey.PublicKey, p.rootKey)
		tcbCertPEM = pemOf(tc)
	}
	c.TcbSig = hexUpper(signRS(p.tcbKey, c.TcbBody), r.Bool())
	// QE identity
	qi := map[string]any{
		"id": s.qiID, "version": s.qiVersion, "issueDate": fmtTS(s.qiIssue), "nextUpdate": fmtTS(s.qiNext),
		"tcbEvaluationDataNumber": s.qiEval, "miscselect": hex32le(s.qiMisc), "miscselectMask": hex32le(s.qiMiscMask),
		"attributes": hex128le(s.qiFlags, s.qiXfrm), "attributesMask": hex128le(s.qiFlagsMask, s.qiXfrmMask),
		"mrsigner": s.qiMrSigner, "isvprodid": s.qiProd, "tcbLevels": encLevelsJSON(s.qiLevels),
	}
	c.QeBody, _ = json.Marshal(qi)
	c.QeSig = hexUpper(signRS(p.tcbKey, c.QeBody), r.Bool())
	c.Certs = append(append([]byte{}, tcbCertPEM...), p.rootPEM...)
	c.Sec, c.Nsec = s.ts.Unix(), int64(s.ts.Nanosecond())
	return c
}

var gridStatuses = []string{"UpToDate", "UpToDate", "UpToDate", "SWHardeningNeeded", "SWHardeningNeeded", "ConfigurationNeeded",
	"ConfigurationAndSWHardeningNeeded", "OutOfDate", "OutOfDate", "OutOfDateConfigurationNeeded", "Revoked", ""}

// tcbGridCase: TCB level selection.
func tcbGridCase(r *hlib.Rng, p *pki, res *hlib.Result) *Case {
	tdx := r.Chance(3, 4)
	s := defaultSpec(r, p, tdx)
	ver := []int{0, 0, 0, 0, 0, 1, 1, 1, 2, 3, 11, 99, 100, 255}[r.Intn(14)]
	if tdx {
		s.teeSvn[1] = byte(ver)
		res.Count(fmt.Sprintf("tcbgrid:tdx-module-version:%d", ver))
	} else {
		res.Count("tcbgrid:sgx")
	}
	s.lax = r.Chance(1, 3)
	// positions: 0..15 SGX component, 16 PCESVN, 17..32 TEE TCB SVN
	pickPos := func() int {
		switch k := r.Intn(20); {
		case k < 5:
			return 17 // TEE TCB SVN[0]: TDX module minor SVN
		case k < 8:
			return 18 // TEE TCB SVN[1]: TDX module major version
		case k < 10:
			return 19
		case k < 13:
			return 20 + r.Intn(13)
		case k < 17:
			return r.Intn(16)
		default:
			return 16
		}
	}
	plat := func(pos int) int {
		switch {
		case pos < 16:
			return s.compSvn[pos]
		case pos == 16:
			return s.pcesvn
		default:
			return int(s.teeSvn[pos-17])
		}
	}
	set := func(l *lvlSpec, pos, v int) {
		switch {
		case pos < 16:
			l.sgx[pos] = v
		case pos == 16:
			if v < 0 {
				v = 0
			}
			l.pce = v
		default:
			l.tdx[pos-17] = v
		}
	}
	posName := func(pos int) string {
		switch {
		case pos < 16:
			return "sgx"
		case pos == 16:
			return "pce"
		case pos < 19:
			return fmt.Sprintf("tdx%d", pos-17)
		default:
			return "tdx2-15"
		}
	}
	nl := 1 + r.Intn(4)
	target := r.Intn(nl + 1)
	s.levels = nil
	for j := 0; j < nl; j++ {
		var l lvlSpec
		for pos := 0; pos < 33; pos++ {
			v := plat(pos) - r.Intn(2)*r.Intn(3)
			if v < 0 && !r.Chance(1, 6) {
				v = 0 // a negative bound is legal JSON for an int32 and is always met
			}
			set(&l, pos, v)
		}
		if !tdx {
			// SGX platform: whatever the level says about TDX components is not compared
			l.noTdx = r.Bool()
			if !l.noTdx && r.Bool() {
				for i := range l.tdx {
					l.tdx[i] = r.Intn(300)
				}
			}
		}
		if j < target {
			pos := pickPos()
			set(&l, pos, plat(pos)+1+r.Intn(2))
			res.Count("tcbgrid:raised:" + posName(pos))
		}
		l.status = gridStatuses[r.Intn(len(gridStatuses))]
		s.levels = append(s.levels, l)
	}
	if r.Bool() {
		// one more bound exactly below / at / above the platform's value
		j, pos, rel := r.Intn(nl), pickPos(), r.Intn(3)-1
		set(&s.levels[j], pos, plat(pos)+rel)
		res.Count(fmt.Sprintf("tcbgrid:bound:%s:%+d", posName(pos), rel))
	}
	if r.Chance(1, 10) {
		s.levels = append(s.levels, lvlSpec{status: gridStatuses[r.Intn(len(gridStatuses))]}) // catch-all lowest level
	}
	if r.Chance(1, 25) {
		s.levels = nil
	}
	if tdx {
		name := func(v int) string { return fmt.Sprintf("TDX_%02d", v) }
		mlv := func() []encLvl {
			n := 1 + r.Intn(3)
			first := r.Intn(n + 1) // index of the first module level the platform reaches
			var out []encLvl
			for i := 0; i < n; i++ {
				isv := int(s.teeSvn[0]) - r.Intn(2)
				if i < first {
					isv = int(s.teeSvn[0]) + 1 + r.Intn(2)
				}
				if isv < 0 {
					isv = 0
				}
				st := "UpToDate"
				if r.Chance(1, 3) {
					st = gridStatuses[r.Intn(len(gridStatuses))]
				}
				out = append(out, encLvl{isv, st})
			}
			return out
		}
		kind := r.Intn(10)
		res.Count(fmt.Sprintf("tcbgrid:modules:%s", []string{"own", "own", "own", "own", "own", "own", "absent", "misnamed", "others", "duplicate"}[kind]))
		switch kind {
		case 6:
			if r.Bool() {
				s.noModules = true
			}
		case 7:
			s.modules = []modSpec{{fmt.Sprintf("TDX_%d", ver), mlv()}, {fmt.Sprintf("tdx_%02d", ver), mlv()}, {fmt.Sprintf("TDX_%03d", ver), mlv()}}
		case 8:
			s.modules = []modSpec{{name(ver + 1), mlv()}, {name(0), mlv()}, {name((ver + 10) % 256), mlv()}}
		case 9:
			s.modules = []modSpec{{name(1), mlv()}, {name(ver), mlv()}, {name(ver), mlv()}}
		default:
			s.modules = []modSpec{{name(1), mlv()}, {name(2), mlv()}, {name(3), mlv()}, {name(ver), mlv()}}
			if r.Bool() {
				s.modules = []modSpec{{name(ver), mlv()}}
			}
		}
	}
	return buildSynth(r, p, s, "tcbgrid")
}

func rnd64(r *hlib.Rng) uint64 {
	switch r.Intn(6) {
	case 0:
		return 0
	case 1:
		return ^uint64(0)
	case 2:
		return 1 << r.Intn(64)
	}
	return r.Next()
}

// maskVariant returns (report value, expected value) for a mask: consistent, or differing in
// exactly one bit in one of the four possible ways.
func maskVariant(r *hlib.Rng, mask uint64, bits int, res *hlib.Result, name string) (rep, exp uint64) {
	full := ^uint64(0)
	if bits < 64 {
		full = (uint64(1) << bits) - 1
	}
	mask &= full
	rep = rnd64(r) & full
	exp = rep & mask
	bit := uint64(1) << r.Intn(bits)
	k := r.Intn(8)
	switch {
	case k == 0 && mask&bit != 0:
		exp ^= bit // expected differs on a selected bit
		res.Count("qegrid:" + name + ":expected-bit-inside-mask")
	case k == 1 && mask&bit == 0:
		exp |= bit // expected has a bit the mask does not select: can never be met
		res.Count("qegrid:" + name + ":expected-bit-outside-mask")
	case k == 2 && mask&bit == 0:
		rep ^= bit // report differs on an unselected bit: irrelevant
		res.Count("qegrid:" + name + ":report-bit-outside-mask")
	case k == 3 && mask&bit != 0:
		rep ^= bit
		res.Count("qegrid:" + name + ":report-bit-inside-mask")
	default:
		res.Count("qegrid:" + name + ":consistent")
	}
	return
}

// qeGridCase: QE identity against the QE report.
func qeGridCase(r *hlib.Rng, p *pki, res *hlib.Result) *Case {
	s := defaultSpec(r, p, r.Bool())
	if s.tdx {
		s.teeSvn[1] = 0
	}
	mm := uint32(rnd64(r))
	rep, exp := maskVariant(r, uint64(mm), 32, res, "miscselect")
	s.qeMisc, s.qiMisc, s.qiMiscMask = uint32(rep), uint32(exp), mm
	s.qiFlagsMask = rnd64(r)
	s.qeFlags, s.qiFlags = maskVariant(r, s.qiFlagsMask, 64, res, "flags")
	s.qiXfrmMask = rnd64(r)
	s.qeXfrm, s.qiXfrm = maskVariant(r, s.qiXfrmMask, 64, res, "xfrm")
	// QE ISVSVN against the identity's levels
	n := 1 + r.Intn(4)
	first := r.Intn(n + 1)
	s.qiLevels = nil
	for i := 0; i < n; i++ {
		isv := s.qeSvn - r.Intn(2)*r.Intn(3)
		if i < first {
			isv = s.qeSvn + 1 + r.Intn(2)
		}
		if isv < 0 {
			isv = 0
		}
		st := "UpToDate"
		if r.Chance(2, 5) {
			st = gridStatuses[r.Intn(len(gridStatuses))]
		}
		s.qiLevels = append(s.qiLevels, encLvl{isv, st})
	}
	if r.Chance(1, 20) {
		s.qiLevels = nil
	}
	res.Count(fmt.Sprintf("qegrid:levels:first-reached:%d/%d", first, n))
	switch r.Intn(12) {
	case 0:
		s.qiMrSigner = strings.ToLower(s.qiMrSigner)
	case 1:
		b := append([]byte{}, s.qeSigner...)
		b[r.Intn(32)] ^= 1 << r.Intn(8)
		s.qiMrSigner = hex.EncodeToString(b)
		res.Count("qegrid:mrsigner-bit")
	case 2:
		s.qiProd = s.qeProd + []int{-1, 1, 256}[r.Intn(3)]
		res.Count("qegrid:prodid")
	case 3:
		s.qiMrSigner = s.qiMrSigner[:62]
	}
	s.lax = r.Chance(1, 3)
	return buildSynth(r, p, s, "qegrid")
}

// timeGridCase: validity windows, certificate validity, evaluation data numbers.
func timeGridCase(r *hlib.Rng, p *pki, res *hlib.Result) *Case {
	s := defaultSpec(r, p, r.Bool())
	v := []int{0, 1, 1, 30, 30, 30, 90, 365, 65535}[r.Intn(9)]
	s.pol.TCBValidityPeriod = uint16(v)
	d := []time.Duration{-time.Second, -time.Nanosecond, 0, 0, time.Nanosecond, time.Second}[r.Intn(6)]
	inside := func() time.Time {
		if v == 0 {
			return s.ts
		}
		return s.ts.Add(-time.Duration(1+r.Intn(20)) * time.Minute)
	}
	s.tiIssue, s.qiIssue = inside(), inside()
	what := r.Intn(16)
	res.Count(fmt.Sprintf("timegrid:%s:%v:validity=%d", []string{"ti-issue", "ti-expiry", "qe-issue", "qe-expiry", "both-expiry", "pck-notbefore", "pck-notafter",
		"tcbcert-notbefore", "tcbcert-notafter", "ti-eval", "qe-eval", "nextupdate-past", "root-notbefore", "root-notafter", "inter-notbefore", "inter-notafter"}[what], d, v))
	if what >= 12 {
		// a root of trust / platform CA whose own validity begins or ends at the verification time
		rootNB, rootNA := p.t0.Add(-1000*day), p.t0.Add(5000*day)
		interNB, interNA := p.t0.Add(-900*day), p.t0.Add(4000*day)
		switch what {
		case 12:
			rootNB = s.ts.Add(d)
		case 13:
			rootNA = s.ts.Add(d)
		case 14:
			interNB = s.ts.Add(d)
		case 15:
			interNA = s.ts.Add(d)
		}
		p = newPKIValidity(r, rootNB, rootNA, interNB, interNA)
	}
	switch what {
	case 0:
		s.tiIssue = s.ts.Add(-d) // ts = issue + d
	case 1:
		s.tiIssue = s.ts.Add(-time.Duration(v)*day - d) // ts = issue + validity + d
	case 2:
		s.qiIssue = s.ts.Add(-d)
	case 3:
		s.qiIssue = s.ts.Add(-time.Duration(v)*day - d)
	case 4:
		s.tiIssue = s.ts.Add(-time.Duration(v)*day - d)
		s.qiIssue = s.ts.Add(-time.Duration(v) * day)
	case 5:
		s.pckNB = s.ts.Add(d)
	case 6:
		s.pckNA = s.ts.Add(d)
	case 7, 8:
		nb, na := p.t0.Add(-800*day), p.t0.Add(3000*day)
		if what == 7 {
			nb = s.ts.Add(d)
		} else {
			na = s.ts.Add(d)
		}
		s.tcbNB, s.tcbNA = &nb, &na
	case 9:
		s.tiEval = int(s.pol.MinTCBEvaluationDataNumber) + r.Intn(3) - 1
	case 10:
		s.qiEval = int(s.pol.MinTCBEvaluationDataNumber) + r.Intn(3) - 1
	case 11:
		s.tiNext = s.tiIssue.Add(time.Second)
		s.qiNext = s.qiIssue.Add(time.Second)
	}
	s.tiNext, s.qiNext = later(s.tiNext, s.tiIssue, what), later(s.qiNext, s.qiIssue, what)
	c := buildSynth(r, p, s, "timegrid")
	if what == 11 {
		c.Unbound = append(c.Unbound, "nextUpdate")
	}
	return c
}

func later(next, issue time.Time, what int) time.Time {
	if what == 11 {
		return next
	}
	return issue.Add(30 * day)
}

// attGridCase: node registration with signed attestations on a platform every quote check
// accepts: RAK signature over (report data, node id, attestation height, REK) signed for this /
// another node, height, REK, report data or by another key; attestation age 0 / max-1 / max /
// max+1 / from the future, with the constraints' own maximum age and the consensus default.
func attGridCase(r *hlib.Rng, p *pki, res *hlib.Result) *Case {
	s := defaultSpec(r, p, r.Bool())
	rakSigner, err := memorySigner.NewFromSeed(rbytes(r, 32))
	if err != nil {
		panic(err)
	}
	rakPk := rakSigner.Public()
	rh := node.HashRAK(rakPk)
	s.reportData = append(append([]byte{}, rh[:]...), rbytes(r, 32)...)
	c := buildSynth(r, p, s, "attgrid")
	c.AttRak = append([]byte{}, rakPk[:]...)
	c.AttOK = append(append(append([]byte{}, rbytes(r, 64)...), s.outMre...), s.outMrs...)
	c.NodeID = rbytes(r, 32)
	if r.Bool() {
		c.Rek = rbytes(r, 32)
	}
	c.SAtt = !r.Chance(1, 8)
	c.NowHeight = uint64(1000 + r.Intn(1000))
	c.ScMaxAge = uint64([]int{0, 0, 1, 5, 100}[r.Intn(5)])
	c.DefMaxAge = uint64([]int{0, 10, 50}[r.Intn(3)])
	eff := c.ScMaxAge
	if eff == 0 {
		eff = c.DefMaxAge
	}
	ages := []int64{0, int64(eff) - 1, int64(eff), int64(eff) + 1, int64(eff) + 20, -1, -5}
	age := ages[r.Intn(len(ages))]
	if age < 0 && r.Bool() {
		age = 0
	}
	c.SaHeight = uint64(int64(c.NowHeight) - age)
	res.Count(fmt.Sprintf("attgrid:age-minus-max=%d:max=%d", age-int64(eff), eff))
	signRD, signNode, signHeight, signRek, signKey := s.outRD, c.NodeID, c.SaHeight, c.Rek, signature.Signer(rakSigner)
	k := r.Intn(12)
	kinds := []string{"other-node", "other-height", "other-rek", "other-report-data", "other-key", "garbage"}
	if k < len(kinds) {
		res.Count("attgrid:signature:" + kinds[k])
	} else {
		res.Count("attgrid:signature:genuine")
	}
	switch k {
	case 0:
		signNode = rbytes(r, 32) // an attestation signed for another node, replayed by this one
	case 1:
		signHeight = c.SaHeight + uint64(1+r.Intn(3))
	case 2:
		if len(signRek) == 0 || r.Bool() {
			signRek = rbytes(r, 32)
		} else {
			signRek = nil
		}
	case 3:
		signRD = append(append([]byte{}, signRD[:32]...), rbytes(r, 32)...) // same RAK hash, other second half
	case 4:
		signKey, _ = memorySigner.NewFromSeed(rbytes(r, 32))
	}
	var nid signature.PublicKey
	copy(nid[:], signNode)
	var rekp *x25519.PublicKey
	if len(signRek) == 32 {
		var key x25519.PublicKey
		copy(key[:], signRek)
		rekp = &key
	}
	c.SaSig, err = signKey.ContextSign(node.AttestationSignatureContext, node.HashAttestation(signRD, nid, signHeight, rekp))
	if err != nil {
		panic(err)
	}
	if k == 5 {
		c.SaSig = rbytes(r, 64)
	}
	return c
}

func generateGrids(rn *runner, r *hlib.Rng, nTcb, nQe, nTime int) {
	if nTcb+nQe+nTime <= 0 {
		return
	}
	var p *pki
	k := 0
	run := func(n int, f func(*hlib.Rng, *pki, *hlib.Result) *Case) {
		for i := 0; i < n; i++ {
			if k%128 == 0 {
				p = newPKI(r)
			}
			k++
			rn.add(f(r, p, rn.res))
		}
	}
	run(nTcb, tcbGridCase)
	run(nQe, qeGridCase)
	run(nTime, timeGridCase)
	run((nQe+nTime)/3, attGridCase)
	installRoot(nil)
}
