package main

import (
	"crypto/elliptic"
	"encoding/hex"
	"math/big"
	"strings"
)

// negateS maps the s half of an ECDSA-P256 signature to n - s (the other valid signature).
func negateS(s []byte) []byte {
	n := elliptic.P256().Params().N
	x := new(big.Int).SetBytes(s)
	x.Sub(n, x)
	x.Mod(x, n)
	out := make([]byte, 32)
	x.FillBytes(out)
	return out
}

func unhexOrNil(s string) []byte {
	b, err := hex.DecodeString(s)
	if err != nil {
		return nil
	}
	return b
}

func hexUpper(b []byte, upper bool) string {
	s := hex.EncodeToString(b)
	if upper {
		return strings.ToUpper(s)
	}
	return s
}
