// ledgerdrv: drives the REAL staking application (go/consensus/cometbft/apps/staking: InitChain,
// AuthenticateTx, ExecuteTx (all seven methods incl. AmendCommissionSchedule), ExecuteMessage (staking
// runtime messages with a runtime account as caller), BeginBlock, EndBlock through their exported entry points; the exported
// state mutators SlashEscrow, TransferFromCommon, AddRewards, governance deposit moves) on the mock
// application state the repository's own tests use, with generated operation histories, dumps the
// full real ledger after every operation and lets the Lean ledger model (`om_ledger`)
//
//	(i)  compare it account by account with the model's ledger, and
//	(ii) evaluate the conservation invariant and the supply rule on the dumped real state, and after
//	     every epoch transition the `debond_exactly_once` clause of C15 (each completed debonding
//	     delegation credited exactly once, at the debonding pool's price, the others untouched),
//
// properties C05 (and the handler part of C15: reclaim, debonding completion, slashing).
package main

import (
	"bytes"
	"encoding/hex"
	"errors"
	"flag"
	"fmt"
	"math/big"
	"os"
	"sort"
	"strconv"
	"strings"

	"github.com/cometbft/cometbft/abci/types"

	beacon "github.com/oasisprotocol/oasis-core/go/beacon/api"
	"github.com/oasisprotocol/oasis-core/go/common"
	"github.com/oasisprotocol/oasis-core/go/common/cbor"
	"github.com/oasisprotocol/oasis-core/go/common/crypto/signature"
	memorySigner "github.com/oasisprotocol/oasis-core/go/common/crypto/signature/signers/memory"
	"github.com/oasisprotocol/oasis-core/go/common/entity"
	"github.com/oasisprotocol/oasis-core/go/common/node"
	"github.com/oasisprotocol/oasis-core/go/common/quantity"
	"github.com/oasisprotocol/oasis-core/go/consensus/api/transaction"
	abciAPI "github.com/oasisprotocol/oasis-core/go/consensus/cometbft/api"
	registryState "github.com/oasisprotocol/oasis-core/go/consensus/cometbft/apps/registry/state"
	roothashApi "github.com/oasisprotocol/oasis-core/go/consensus/cometbft/apps/roothash/api"
	stakingApp "github.com/oasisprotocol/oasis-core/go/consensus/cometbft/apps/staking"
	stakingState "github.com/oasisprotocol/oasis-core/go/consensus/cometbft/apps/staking/state"
	tmcrypto "github.com/oasisprotocol/oasis-core/go/consensus/cometbft/crypto"
	consensusGenesis "github.com/oasisprotocol/oasis-core/go/consensus/genesis"
	genesis "github.com/oasisprotocol/oasis-core/go/genesis/api"
	registry "github.com/oasisprotocol/oasis-core/go/registry/api"
	roothash "github.com/oasisprotocol/oasis-core/go/roothash/api"
	"github.com/oasisprotocol/oasis-core/go/roothash/api/message"
	staking "github.com/oasisprotocol/oasis-core/go/staking/api"

	"verifharness/hlib"
)

const (
	nEntities   = 6
	nRuntimes   = 2 // runtime accounts (staking.NewRuntimeAddress): callers of runtime messages
	nValidators = 5 // validator j belongs to entity valEntity[j]
)

// ---------------------------------------------------------------- fixed cast of accounts

type cast struct {
	addrs     []staking.Address // account number -> address (sorted by address bytes)
	signers   []signature.Signer
	index     map[staking.Address]int
	entities  []int // entity e -> account number
	runtimes  []int // runtime r -> account number
	pkOrder   []int // account numbers of the entities in public-key order
	burn      int
	reserved  []int
	valEntity []int // validator -> account number
	valAddr   [][]byte
	valSigner []signature.Signer
	nodeSig   []signature.Signer
}

// theCast is the cast in use: `fullCast` (entities, reserved addresses and runtime accounts; n = 10)
// for generated histories, `legacyCast` (no runtime accounts; n = 8) for corpus files recorded before
// runtime messages were driven (selected by the `n=` of the genesis line).
var (
	fullCast   = makeCast(nRuntimes)
	legacyCast = makeCast(0)
	theCast    = fullCast
)

func makeCast(runtimes int) *cast {
	c := &cast{index: map[staking.Address]int{}}
	type ent struct {
		addr staking.Address
		s    signature.Signer
		rt   bool
	}
	var all []ent
	for i := 0; i < nEntities; i++ {
		s := memorySigner.NewTestSigner(fmt.Sprintf("verif ledgerdrv entity %d", i))
		all = append(all, ent{staking.NewAddress(s.Public()), s, false})
	}
	all = append(all, ent{staking.CommonPoolAddress, nil, false}, ent{staking.BurnAddress, nil, false})
	for i := 0; i < runtimes; i++ {
		var ns common.Namespace
		copy(ns[:], fmt.Sprintf("verif ledgerdrv runtime %d", i))
		all = append(all, ent{staking.NewRuntimeAddress(ns), nil, true})
	}
	sort.Slice(all, func(i, j int) bool { return bytes.Compare(all[i].addr[:], all[j].addr[:]) < 0 })
	for i, e := range all {
		c.addrs = append(c.addrs, e.addr)
		c.signers = append(c.signers, e.s)
		c.index[e.addr] = i
		switch {
		case e.rt:
			c.runtimes = append(c.runtimes, i)
		case e.s == nil:
			c.reserved = append(c.reserved, i)
		default:
			c.entities = append(c.entities, i)
		}
		if e.addr.Equal(staking.BurnAddress) {
			c.burn = i
		}
	}
	c.pkOrder = append([]int{}, c.entities...)
	sort.Slice(c.pkOrder, func(i, j int) bool {
		a, b := c.signers[c.pkOrder[i]].Public(), c.signers[c.pkOrder[j]].Public()
		return bytes.Compare(a[:], b[:]) < 0
	})
	// validators 0..3 belong to entities 0..3, validator 4 is a second node of entity 0
	for j := 0; j < nValidators; j++ {
		e := c.entities[j%(nValidators-1)]
		cs := memorySigner.NewTestSigner(fmt.Sprintf("verif ledgerdrv consensus %d", j))
		id := cs.Public()
		c.valEntity = append(c.valEntity, e)
		c.valSigner = append(c.valSigner, cs)
		c.valAddr = append(c.valAddr, tmcrypto.PublicKeyToCometBFT(&id).Address())
		c.nodeSig = append(c.nodeSig, memorySigner.NewTestSigner(fmt.Sprintf("verif ledgerdrv node %d", j)))
	}
	return c
}

// ---------------------------------------------------------------- world: the real application on the mock state

type world struct {
	cfg       *abciAPI.MockApplicationStateConfig
	appState  abciAPI.MockApplicationState
	app       *stakingApp.Application
	gen       *staking.Genesis
	inited    bool
	notes     map[string]int
	fatal     string // text of the last BeginBlock/EndBlock/InitChain error
	directErr string // text of the last error of a direct state mover
	tfcFatal  string // c10: TransferFromCommon(escrow=true) returned an error (fatal for its only caller, roothash reward distribution)
	c08       string // first "failed transaction changed state" observation (spec c08)
}

// spec selects which property the run reports on: c05 (ledger conservation; model + invariant),
// c08 (a failed transaction changes nothing but fee and nonce; model-free), c10 (no block content
// halts block execution; model-free).
var spec = "c05"

func newWorld() *world {
	w := &world{cfg: &abciAPI.MockApplicationStateConfig{}, notes: map[string]int{}}
	w.appState = abciAPI.NewMockApplicationState(w.cfg)
	w.app = stakingApp.New(w.appState, &abciAPI.NoopMessageDispatcher{})
	w.gen = &staking.Genesis{
		TokenSymbol:          "TEST",
		Ledger:               map[staking.Address]*staking.Account{},
		Delegations:          map[staking.Address]map[staking.Address]*staking.Delegation{},
		DebondingDelegations: map[staking.Address]map[staking.Address][]*staking.DebondingDelegation{},
	}
	return w
}

func qq(s string) quantity.Quantity {
	var b big.Int
	if _, ok := b.SetString(s, 10); !ok {
		panic("bad number in op: " + s)
	}
	var x quantity.Quantity
	if err := x.FromBigInt(&b); err != nil {
		panic("bad quantity in op: " + s)
	}
	return x
}

func atoi(s string) int {
	n, err := strconv.Atoi(s)
	if err != nil {
		panic("bad integer in op: " + s)
	}
	return n
}

func ints(s string) []int {
	if s == "-" {
		return nil
	}
	var out []int
	for _, p := range strings.Split(s, ",") {
		out = append(out, atoi(p))
	}
	return out
}

func kv(ws []string) map[string]string {
	m := map[string]string{}
	for _, w := range ws {
		if i := strings.IndexByte(w, '='); i > 0 {
			m[w[:i]] = w[i+1:]
		}
	}
	return m
}

// parseSchedule reads `-` or `<rates>/<bounds>` (rates: -|start:rate,...; bounds: -|start:min:max,...).
func parseSchedule(s string) staking.CommissionSchedule {
	var cs staking.CommissionSchedule
	if s == "-" {
		return cs
	}
	rb := strings.Split(s, "/")
	if len(rb) != 2 {
		panic("bad schedule " + s)
	}
	if rb[0] != "-" {
		for _, st := range strings.Split(rb[0], ",") {
			ab := strings.Split(st, ":")
			cs.Rates = append(cs.Rates, staking.CommissionRateStep{Start: beacon.EpochTime(atoi(ab[0])), Rate: qq(ab[1])})
		}
	}
	if rb[1] != "-" {
		for _, st := range strings.Split(rb[1], ",") {
			ab := strings.Split(st, ":")
			cs.Bounds = append(cs.Bounds, staking.CommissionRateBoundStep{Start: beacon.EpochTime(atoi(ab[0])), RateMin: qq(ab[1]), RateMax: qq(ab[2])})
		}
	}
	return cs
}

func showSchedule(cs *staking.CommissionSchedule) string {
	if len(cs.Rates) == 0 && len(cs.Bounds) == 0 {
		return "-"
	}
	r, b := "-", "-"
	var ps []string
	for i := range cs.Rates {
		ps = append(ps, fmt.Sprintf("%d:%s", cs.Rates[i].Start, &cs.Rates[i].Rate))
	}
	if len(ps) > 0 {
		r = strings.Join(ps, ",")
	}
	ps = nil
	for i := range cs.Bounds {
		ps = append(ps, fmt.Sprintf("%d:%s:%s", cs.Bounds[i].Start, &cs.Bounds[i].RateMin, &cs.Bounds[i].RateMax))
	}
	if len(ps) > 0 {
		b = strings.Join(ps, ",")
	}
	return r + "/" + b
}

func (w *world) genesisLine(ws []string) {
	m := kv(ws)
	if m["n"] == "8" {
		theCast = legacyCast
	} else {
		theCast = fullCast
	}
	get := func(k string) string {
		if v, ok := m[k]; ok {
			return v
		}
		return "0"
	}
	p := &w.gen.Parameters
	p.Thresholds = map[staking.ThresholdKind]quantity.Quantity{}
	for _, k := range staking.ThresholdKinds {
		p.Thresholds[k] = *quantity.NewQuantity()
	}
	p.MinTransactBalance = qq(get("mtb"))
	p.MinTransferAmount = qq(get("mta"))
	p.MinDelegationAmount = qq(get("mda"))
	p.DebondingInterval = beacon.EpochTime(atoi(get("debint")))
	p.MaxAllowances = uint32(atoi(get("maxallow")))
	p.DisableTransfers = get("disT") == "1"
	p.DisableDelegation = get("disD") == "1"
	p.FeeSplitWeightPropose = qq(get("wP"))
	p.FeeSplitWeightVote = qq(get("wV"))
	p.FeeSplitWeightNextPropose = qq(get("wN"))
	p.RewardFactorEpochSigned = qq(get("rfS"))
	p.RewardFactorBlockProposed = qq(get("rfP"))
	p.SigningRewardThresholdNumerator = uint64(atoi(get("thrN")))
	p.SigningRewardThresholdDenominator = uint64(atoi(get("thrD")))
	p.CommissionScheduleRules.MinCommissionRate = qq(get("mincom"))
	geti := func(k string, d int) int {
		if v, ok := m[k]; ok {
			return atoi(v)
		}
		return d
	}
	p.CommissionScheduleRules.RateChangeInterval = beacon.EpochTime(geti("rci", 1))
	p.CommissionScheduleRules.RateBoundLead = beacon.EpochTime(geti("rbl", 1))
	p.CommissionScheduleRules.MaxRateSteps = uint16(geti("mrs", 4))
	p.CommissionScheduleRules.MaxBoundSteps = uint16(geti("mbs", 4))
	// AmendCommissionSchedule requires Thresholds[entity] + Thresholds[node-validator] of active escrow
	if thr := geti("comthr", 0); thr > 0 {
		p.Thresholds[staking.KindEntity] = qq(strconv.Itoa(thr / 2))
		p.Thresholds[staking.KindNodeValidator] = qq(strconv.Itoa(thr - thr/2))
	}
	p.AllowEscrowMessages = get("escmsg") == "1"
	if s := get("sched"); s != "0" && s != "-" {
		for _, st := range strings.Split(s, ",") {
			ab := strings.Split(st, ":")
			p.RewardSchedule = append(p.RewardSchedule, staking.RewardStep{Until: beacon.EpochTime(atoi(ab[0])), Scale: qq(ab[1])})
		}
	}
	gasOps := []transaction.Op{staking.GasOpTransfer, staking.GasOpBurn, staking.GasOpAddEscrow,
		staking.GasOpReclaimEscrow, staking.GasOpAmendCommissionSchedule, staking.GasOpAllow, staking.GasOpWithdraw}
	if g := atoi(get("gascost")); g > 0 { // legacy: one cost for every operation
		p.GasCosts = transaction.Costs{}
		for _, op := range gasOps {
			p.GasCosts[op] = transaction.Gas(g)
		}
	}
	if gc, ok := m["gascosts"]; ok { // per operation: transfer,burn,addescrow,reclaimescrow,amend,allow,withdraw
		p.GasCosts = transaction.Costs{}
		for i, c := range ints(gc) {
			p.GasCosts[gasOps[i]] = transaction.Gas(c)
		}
	}
	if g := atoi(get("gasbyte")); g > 0 {
		w.cfg.Genesis.Consensus.Parameters.GasCosts = transaction.Costs{consensusGenesis.GasOpTxByte: transaction.Gas(g)}
	}
	p.Slashing = map[staking.SlashReason]staking.Slash{
		staking.SlashConsensusEquivocation: {Amount: qq(get("slash")), FreezeInterval: beacon.EpochTime(atoi(get("freeze")))},
	}
	w.gen.CommonPool = qq(get("common"))
	w.gen.GovernanceDeposits = qq(get("gov"))
	w.gen.LastBlockFees = qq(get("lbf"))
	w.gen.TotalSupply = qq(get("total"))
	w.cfg.CurrentEpoch = beacon.EpochTime(atoi(get("epoch")))
}

func (w *world) acctLine(f []string) {
	a := &staking.Account{}
	a.General.Balance = qq(f[2])
	a.General.Nonce = uint64(atoi(f[3]))
	a.Escrow.Active = staking.SharePool{Balance: qq(f[4]), TotalShares: qq(f[5])}
	a.Escrow.Debonding = staking.SharePool{Balance: qq(f[6]), TotalShares: qq(f[7])}
	a.Escrow.CommissionSchedule = parseSchedule(normSchedule(f[8], &w.gen.Parameters.CommissionScheduleRules.MinCommissionRate))
	if f[9] != "-" {
		a.General.Allowances = map[staking.Address]quantity.Quantity{}
		for _, p := range strings.Split(f[9], ",") {
			ab := strings.Split(p, ":")
			a.General.Allowances[theCast.addrs[atoi(ab[0])]] = qq(ab[1])
		}
	}
	w.gen.Ledger[theCast.addrs[atoi(f[1])]] = a
}

// normSchedule turns the legacy form of the commission field (a bare rate: one rate step at epoch 0
// bounded by [MinCommissionRate, 100%]) into a schedule string.
func normSchedule(s string, minRate *quantity.Quantity) string {
	if s == "-" || strings.Contains(s, "/") {
		return s
	}
	return fmt.Sprintf("0:%s/0:%s:%s", s, minRate, staking.CommissionRateDenominator)
}

// setupRegistry registers the validators' entities and nodes so that BeginBlock can resolve
// proposer, voters and evidence.
func (w *world) setupRegistry() {
	ctx := w.appState.NewContext(abciAPI.ContextInitChain)
	defer ctx.Close()
	regState := registryState.NewMutableState(ctx.State())
	done := map[int]bool{}
	for j := 0; j < nValidators; j++ {
		e := theCast.valEntity[j]
		es := theCast.signers[e]
		if !done[e] {
			ent := &entity.Entity{Versioned: cbor.NewVersioned(entity.LatestDescriptorVersion), ID: es.Public()}
			sigEnt, err := entity.SignEntity(es, registry.RegisterEntitySignatureContext, ent)
			if err != nil {
				panic(err)
			}
			if err = regState.SetEntity(ctx, ent, sigEnt); err != nil {
				panic(err)
			}
			done[e] = true
		}
		nod := &node.Node{
			Versioned: cbor.NewVersioned(node.LatestNodeDescriptorVersion),
			ID:        theCast.nodeSig[j].Public(),
			EntityID:  es.Public(),
			Consensus: node.ConsensusInfo{ID: theCast.valSigner[j].Public()},
		}
		sigNode, err := node.MultiSignNode([]signature.Signer{theCast.nodeSig[j]}, registry.RegisterNodeSignatureContext, nod)
		if err != nil {
			panic(err)
		}
		if err = regState.SetNode(ctx, nil, nod, sigNode); err != nil {
			panic(err)
		}
		if err = regState.SetNodeStatus(ctx, nod.ID, &registry.NodeStatus{}); err != nil {
			panic(err)
		}
	}
}

func (w *world) init() string {
	w.setupRegistry()
	if err := w.gen.SanityCheck(w.cfg.CurrentEpoch); err != nil {
		debugf("genesis sanity check: %v", err)
		w.fatal = "genesis sanity check: " + err.Error()
		return "fatal"
	}
	ctx := w.appState.NewContext(abciAPI.ContextInitChain)
	defer ctx.Close()
	if err := w.app.InitChain(ctx, types.RequestInitChain{}, &genesis.Document{Staking: *w.gen}); err != nil {
		debugf("InitChain: %v", err)
		w.fatal = err.Error()
		return "fatal"
	}
	w.inited = true
	return "ok"
}

func debugf(f string, a ...any) {
	if os.Getenv("VERIF_DEBUG") != "" {
		fmt.Fprintf(os.Stderr, "[ledgerdrv] "+f+"\n", a...)
	}
}

func errKind(err error) string {
	switch {
	case err == nil:
		return "ok"
	case errors.Is(err, staking.ErrForbidden):
		return "err:forbidden"
	case errors.Is(err, staking.ErrInvalidArgument):
		return "err:invalid-argument"
	case errors.Is(err, staking.ErrInsufficientBalance), errors.Is(err, quantity.ErrInsufficientBalance):
		return "err:insufficient-balance"
	case errors.Is(err, staking.ErrBalanceTooLow):
		return "err:balance-too-low"
	case errors.Is(err, staking.ErrUnderMinTransferAmount):
		return "err:under-min-transfer"
	case errors.Is(err, staking.ErrUnderMinDelegationAmount):
		return "err:under-min-delegation"
	case errors.Is(err, transaction.ErrInvalidNonce):
		return "err:invalid-nonce"
	case errors.Is(err, staking.ErrTooManyAllowances):
		return "err:too-many-allowances"
	case errors.Is(err, staking.ErrAllowanceGreaterThanSupply):
		return "err:allowance-gt-supply"
	case strings.Contains(err.Error(), "invalid account address"):
		return "err:bad-account"
	case errors.Is(err, abciAPI.ErrOutOfGas):
		return "err:out-of-gas"
	case errors.Is(err, staking.ErrInsufficientStake):
		return "err:insufficient-stake"
	case strings.HasPrefix(err.Error(), "amendment: "), strings.HasPrefix(err.Error(), "after pruning and amending: "):
		// AmendAndPruneAndValidate refused the amendment (unregistered error values)
		return "err:bad-schedule"
	}
	return "err:other:" + strings.ReplaceAll(err.Error(), " ", "_")
}

func fatalOr(err error) string {
	if err == nil {
		return "ok"
	}
	if k := errKind(err); !strings.HasPrefix(k, "err:other") && k != "err:bad-account" {
		return k
	}
	return "fatal"
}

// lastGas / lastSize: gas limit and encoded size of the last transaction (for the model's line).
var lastGas, lastSize int

// buildTx builds the transaction of a `tx signer nonce fee <body> [gas=N]` op; rawLen is the size the
// mux charges per byte for (encoded transaction + signed envelope).
func buildTx(f []string) (tx *transaction.Transaction, rawLen int) {
	tx = &transaction.Transaction{Nonce: uint64(atoi(f[2])), Fee: &transaction.Fee{Amount: qq(f[3]), Gas: 1000000}}
	switch f[4] {
	case "transfer":
		tx.Method, tx.Body = staking.MethodTransfer, cbor.Marshal(&staking.Transfer{To: theCast.addrs[atoi(f[5])], Amount: qq(f[6])})
	case "burn":
		tx.Method, tx.Body = staking.MethodBurn, cbor.Marshal(&staking.Burn{Amount: qq(f[5])})
	case "escrow":
		tx.Method, tx.Body = staking.MethodAddEscrow, cbor.Marshal(&staking.Escrow{Account: theCast.addrs[atoi(f[5])], Amount: qq(f[6])})
	case "reclaim":
		tx.Method, tx.Body = staking.MethodReclaimEscrow, cbor.Marshal(&staking.ReclaimEscrow{Account: theCast.addrs[atoi(f[5])], Shares: qq(f[6])})
	case "allow":
		tx.Method, tx.Body = staking.MethodAllow, cbor.Marshal(&staking.Allow{Beneficiary: theCast.addrs[atoi(f[5])], Negative: f[6] == "1", AmountChange: qq(f[7])})
	case "withdraw":
		tx.Method, tx.Body = staking.MethodWithdraw, cbor.Marshal(&staking.Withdraw{From: theCast.addrs[atoi(f[5])], Amount: qq(f[6])})
	case "amend":
		tx.Method, tx.Body = staking.MethodAmendCommissionSchedule, cbor.Marshal(&staking.AmendCommissionSchedule{Amendment: parseSchedule(f[5])})
	default:
		panic("unknown tx body " + f[4])
	}
	for _, t := range f {
		if strings.HasPrefix(t, "gas=") {
			tx.Fee.Gas = transaction.Gas(atoi(t[4:]))
		}
	}
	return tx, len(cbor.Marshal(tx)) + 100 // signed envelope
}

func (w *world) tx(f []string) string {
	signer := atoi(f[1])
	s := theCast.signers[signer]
	if s == nil {
		panic("transaction signed by a reserved address")
	}
	tx, rawLen := buildTx(f)
	lastGas, lastSize = int(tx.Fee.Gas), rawLen
	// what the mux does in DeliverTx (abci/transaction.go processTx): authenticate + pay fee,
	// charge gas per transaction byte, execute
	ctx := w.appState.NewContext(abciAPI.ContextDeliverTx)
	defer ctx.Close()
	ctx.SetTxSigner(s.Public())
	var before map[string]string
	var feesBefore quantity.Quantity
	if spec == "c08" {
		before = w.rawDump(ctx)
		fb := stakingState.BlockFees(ctx)
		feesBefore = *fb.Clone()
	}
	authErr := w.app.AuthenticateTx(ctx, tx)
	var err error
	if authErr == nil {
		err = ctx.Gas().UseGas(rawLen, consensusGenesis.GasOpTxByte, w.appState.ConsensusParameters().GasCosts)
		if err == nil {
			err = w.app.ExecuteTx(ctx, tx)
		}
	}
	if spec == "c08" && w.c08 == "" && (authErr != nil || err != nil) {
		w.c08 = w.failedTxCheck(ctx, before, &feesBefore, signer, tx, authErr != nil)
	}
	if authErr != nil {
		return errKind(authErr)
	}
	return errKind(err)
}

// msg delivers a staking runtime message the way roothash.processRuntimeMessages does: the runtime's
// account as caller, a no-op gas accountant (gas was accounted for at submission), published by the
// roothash module to the staking application's ExecuteMessage.
func (w *world) msg(f []string) string {
	rt := theCast.addrs[atoi(f[1])]
	var m message.StakingMessage
	switch f[2] {
	case "transfer":
		m.Transfer = &staking.Transfer{To: theCast.addrs[atoi(f[3])], Amount: qq(f[4])}
	case "withdraw":
		m.Withdraw = &staking.Withdraw{From: theCast.addrs[atoi(f[3])], Amount: qq(f[4])}
	case "escrow":
		m.AddEscrow = &staking.Escrow{Account: theCast.addrs[atoi(f[3])], Amount: qq(f[4])}
	case "reclaim":
		m.ReclaimEscrow = &staking.ReclaimEscrow{Account: theCast.addrs[atoi(f[3])], Shares: qq(f[4])}
	default:
		panic("unknown message body " + f[2])
	}
	ctx := w.appState.NewContext(abciAPI.ContextDeliverTx)
	defer ctx.Close()
	mctx := ctx.WithCallerAddress(rt)
	defer mctx.Close()
	mctx.SetGasAccountant(abciAPI.NewNopGasAccountant())
	_, err := w.app.ExecuteMessage(mctx, abciAPI.Message{Sender: roothash.ModuleName, Kind: roothashApi.RuntimeMessageStaking, Data: &m})
	return errKind(err)
}

// rawDump reads every key/value pair of the state tree.
func (w *world) rawDump(ctx *abciAPI.Context) map[string]string {
	m := map[string]string{}
	it := ctx.State().NewIterator(ctx)
	defer it.Close()
	for it.Rewind(); it.Valid(); it.Next() {
		m[string(it.Key())] = string(it.Value())
	}
	if it.Err() != nil {
		panic(it.Err())
	}
	return m
}

// failedTxCheck is the C08 clause on the real state: a transaction rejected at authentication
// changes nothing; one that fails afterwards changes only the signer's general balance (-fee) and
// nonce (+1) and the block fee accumulator (+fee).  Returns "" or the violation (with signature).
func (w *world) failedTxCheck(ctx *abciAPI.Context, before map[string]string, feesBefore *quantity.Quantity,
	signer int, tx *transaction.Transaction, authFailed bool,
) string {
	after := w.rawDump(ctx)
	fa := stakingState.BlockFees(ctx)
	method := string(tx.Method)
	var keys []string
	for k := range before {
		keys = append(keys, k)
	}
	for k := range after {
		if _, ok := before[k]; !ok {
			keys = append(keys, k)
		}
	}
	sort.Strings(keys)
	st := stakingState.NewMutableState(ctx.State())
	acctAfter, _ := st.Account(ctx, theCast.addrs[signer])
	// the only key that may differ: the signer's account (0x50 || address)
	var diff []string
	for _, k := range keys {
		if before[k] != after[k] {
			diff = append(diff, k)
		}
	}
	sig := func(k string) string {
		return fmt.Sprintf("c08-failed-tx-changed-state:%s:%s", method, hex.EncodeToString([]byte(k[:1])))
	}
	wantFees := feesBefore.Clone()
	if !authFailed {
		_ = wantFees.Add(&tx.Fee.Amount)
	}
	if fa.Cmp(wantFees) != 0 {
		return fmt.Sprintf("C08 %s: fee accumulator %s -> %s after a failed %s (fee %s, rejected at authentication: %v)",
			"c08-failed-tx-changed-state:"+method+":feeacc", feesBefore, &fa, method, &tx.Fee.Amount, authFailed)
	}
	if authFailed {
		if len(diff) > 0 {
			return fmt.Sprintf("C08 %s: transaction rejected at authentication changed key %x", sig(diff[0]), diff[0])
		}
		return ""
	}
	acctKey := append([]byte{0x50}, theCast.addrs[signer][:]...)
	for _, k := range diff {
		if k != string(acctKey) {
			return fmt.Sprintf("C08 %s: failed %s changed key %x (besides the signer's account)", sig(k), method, k)
		}
	}
	// decode the signer's account before/after
	var ab staking.Account
	if v, ok := before[string(acctKey)]; ok {
		if err := cbor.Unmarshal([]byte(v), &ab); err != nil {
			panic(err)
		}
	}
	want := ab
	want.General.Nonce++
	wb := ab.General.Balance.Clone()
	if err := wb.Sub(&tx.Fee.Amount); err != nil {
		return fmt.Sprintf("C08 %s: fee exceeds balance yet authentication passed", sig(string(acctKey)))
	}
	want.General.Balance = *wb
	if !bytes.Equal(cbor.Marshal(want), cbor.Marshal(acctAfter)) {
		return fmt.Sprintf("C08 %s: failed %s changed the signer's account beyond fee and nonce: before=%s after=%s",
			sig(string(acctKey)), method, cbor.Marshal(ab), cbor.Marshal(acctAfter))
	}
	return ""
}

func (w *world) begin(f []string) string {
	bc := w.appState.BlockContext()
	bc.ProposerAddress = []byte("unknown proposer....")
	if f[1] != "-" {
		bc.ProposerAddress = theCast.valAddr[atoi(f[1])]
	}
	// f[2] = numEligible: the first len(voters) votes signed, the rest did not
	voters := ints(f[3])
	n := atoi(f[2])
	bc.LastCommitInfo = types.CommitInfo{}
	for i := 0; i < n; i++ {
		v := types.VoteInfo{}
		if i < len(voters) {
			v.Validator.Address = theCast.valAddr[voters[i]]
			v.SignedLastBlock = true
		} else {
			v.Validator.Address = theCast.valAddr[i%nValidators]
		}
		bc.LastCommitInfo.Votes = append(bc.LastCommitInfo.Votes, v)
	}
	bc.ValidatorMisbehavior = nil
	for _, v := range ints(f[4]) {
		addr := []byte(fmt.Sprintf("unknown validator %03d", v))
		if v < nValidators {
			addr = theCast.valAddr[v]
		}
		bc.ValidatorMisbehavior = append(bc.ValidatorMisbehavior, types.Misbehavior{
			Type: types.MisbehaviorType_DUPLICATE_VOTE, Validator: types.Validator{Address: addr},
		})
	}
	if n == 0 && spec == "c10" {
		// CometBFT delivers an empty last-commit only for the initial block, where the real
		// application state reports no epoch yet (abci/state.go GetCurrentEpoch: LastHeight()==0).
		saved := w.cfg.CurrentEpoch
		w.cfg.CurrentEpoch = beacon.EpochInvalid
		defer func() { w.cfg.CurrentEpoch = saved }()
	}
	ctx := w.appState.NewContext(abciAPI.ContextBeginBlock)
	defer ctx.Close()
	if err := w.app.BeginBlock(ctx); err != nil {
		debugf("BeginBlock: %v", err)
		w.fatal = err.Error()
		return "fatal"
	}
	return "ok"
}

func (w *world) end() string {
	ctx := w.appState.NewContext(abciAPI.ContextEndBlock)
	_, err := w.app.EndBlock(ctx)
	ctx.Close()
	if err != nil {
		debugf("EndBlock: %v", err)
		w.fatal = err.Error()
		return "fatal"
	}
	// the block is committed: the mux replaces the block context (fee accumulator, proposer)
	*w.appState.BlockContext() = *abciAPI.NewBlockContext(abciAPI.BlockInfo{Time: w.appState.BlockContext().Time, GasAccountant: abciAPI.NewNopGasAccountant()})
	w.cfg.EpochChanged = false
	return "ok"
}

func (w *world) direct(f []string) string {
	ctx := w.appState.NewContext(abciAPI.ContextEndBlock)
	defer ctx.Close()
	st := stakingState.NewMutableState(ctx.State())
	var err error
	switch f[0] {
	case "slash":
		amt := qq(f[2])
		_, err = st.SlashEscrow(ctx, theCast.addrs[atoi(f[1])], &amt)
	case "tfc":
		amt := qq(f[2])
		_, err = st.TransferFromCommon(ctx, theCast.addrs[atoi(f[1])], &amt, f[3] == "1")
	case "addrewards":
		factor := qq(f[2])
		var addrs []staking.Address
		for _, a := range ints(f[3]) {
			addrs = append(addrs, theCast.addrs[a])
		}
		err = st.AddRewards(ctx, beacon.EpochTime(atoi(f[1])), &factor, addrs)
	case "govdep":
		amt := qq(f[2])
		err = st.TransferToGovernanceDeposits(ctx, theCast.addrs[atoi(f[1])], &amt)
	case "govref":
		amt := qq(f[2])
		err = st.TransferFromGovernanceDeposits(ctx, theCast.addrs[atoi(f[1])], &amt)
	case "govdisc":
		amt := qq(f[1])
		err = st.DiscardGovernanceDeposit(ctx, &amt)
	}
	if err != nil {
		w.directErr = err.Error()
	}
	if os.Getenv("VERIF_DEBUG") != "" {
		cp, _ := st.CommonPool(ctx)
		debugf("direct %v -> err=%v common=%v", f, err, cp)
	}
	return fatalOr(err)
}

// dump reads the complete real ledger through the exported state readers.
func (w *world) dump() string {
	ctx := w.appState.NewContext(abciAPI.ContextEndBlock)
	defer ctx.Close()
	st := stakingState.NewMutableState(ctx.State())
	must := func(q *quantity.Quantity, err error) *quantity.Quantity {
		if err != nil {
			panic(err)
		}
		return q
	}
	fees := stakingState.BlockFees(ctx)
	es, err := st.EpochSigning(ctx)
	if err != nil {
		panic(err)
	}
	var b strings.Builder
	fmt.Fprintf(&b, "dump %s %s %s %s %s %d", must(st.TotalSupply(ctx)), must(st.CommonPool(ctx)),
		must(st.GovernanceDeposits(ctx)), must(st.LastBlockFees(ctx)), &fees, es.Total)
	addrs, err := st.Addresses(ctx)
	if err != nil {
		panic(err)
	}
	idx := func(a staking.Address) int {
		i, ok := theCast.index[a]
		if !ok {
			panic("account outside the cast in the real ledger: " + a.String())
		}
		return i
	}
	for _, a := range addrs {
		acct, err := st.Account(ctx, a)
		if err != nil {
			panic(err)
		}
		al := "-"
		if len(acct.General.Allowances) > 0 {
			var ps []string
			for ben, amt := range acct.General.Allowances {
				amt := amt
				ps = append(ps, fmt.Sprintf("%d:%s", idx(ben), &amt))
			}
			sort.Strings(ps)
			al = strings.Join(ps, ",")
		}
		fmt.Fprintf(&b, " A %d %s %d %s %s %s %s %s", idx(a), &acct.General.Balance, acct.General.Nonce,
			&acct.Escrow.Active.Balance, &acct.Escrow.Active.TotalShares,
			&acct.Escrow.Debonding.Balance, &acct.Escrow.Debonding.TotalShares, al)
	}
	dels, err := st.Delegations(ctx)
	if err != nil {
		panic(err)
	}
	var recs []string
	for e, m := range dels {
		for d, del := range m {
			recs = append(recs, fmt.Sprintf(" D %d %d %s", idx(e), idx(d), &del.Shares))
		}
	}
	sort.Strings(recs)
	b.WriteString(strings.Join(recs, ""))
	debs, err := st.DebondingDelegations(ctx)
	if err != nil {
		panic(err)
	}
	type qe struct {
		ep, d, e int
		s        string
	}
	var qs []qe
	for e, m := range debs {
		for d, l := range m {
			for _, deb := range l {
				qs = append(qs, qe{int(deb.DebondEndTime), idx(d), idx(e), deb.Shares.String()})
			}
		}
	}
	sort.Slice(qs, func(i, j int) bool {
		a, c := qs[i], qs[j]
		if a.ep != c.ep {
			return a.ep < c.ep
		}
		if a.d != c.d {
			return a.d < c.d
		}
		return a.e < c.e
	})
	for _, x := range qs {
		fmt.Fprintf(&b, " Q %d %d %d %s", x.ep, x.d, x.e, x.s)
	}
	recs = nil
	for pk, c := range es.ByEntity {
		recs = append(recs, fmt.Sprintf(" S %d %d", idx(staking.NewAddress(pk)), c))
	}
	sort.Strings(recs)
	b.WriteString(strings.Join(recs, ""))
	for _, a := range addrs {
		acct, err := st.Account(ctx, a)
		if err != nil {
			panic(err)
		}
		if !acct.Escrow.CommissionSchedule.IsEmpty() {
			fmt.Fprintf(&b, " C %d %s", idx(a), showSchedule(&acct.Escrow.CommissionSchedule))
		}
	}
	return b.String()
}

// inTreeCheck runs the repository's own invariant helpers (staking/api/sanity_check.go) on the
// real ledger as a second opinion.
func (w *world) inTreeCheck() error {
	ctx := w.appState.NewContext(abciAPI.ContextEndBlock)
	defer ctx.Close()
	st := stakingState.NewMutableState(ctx.State())
	params, err := st.ConsensusParameters(ctx)
	if err != nil {
		return err
	}
	total, _ := st.TotalSupply(ctx)
	addrs, _ := st.Addresses(ctx)
	dels, _ := st.Delegations(ctx)
	debs, _ := st.DebondingDelegations(ctx)
	var sum quantity.Quantity
	for _, a := range addrs {
		acct, _ := st.Account(ctx, a)
		if err = staking.SanityCheckAccount(&sum, params, w.cfg.CurrentEpoch, a, acct, total); err != nil {
			// "allowance is greater than total supply" is not a conservation matter: `allow` checks
			// it only when the allowance is set, a later burn can push the supply below it
			// (reported as a separate observation, see the counters).
			if !strings.Contains(err.Error(), "allowance is greater than total supply") {
				return err
			}
			w.notes["intree-note:allowance-greater-than-total-supply-after-burn"]++
		}
		if err = staking.SanityCheckAccountShares(a, acct, dels[a], debs[a]); err != nil {
			return err
		}
	}
	cp, _ := st.CommonPool(ctx)
	gd, _ := st.GovernanceDeposits(ctx)
	lbf, _ := st.LastBlockFees(ctx)
	_ = sum.Add(cp)
	_ = sum.Add(gd)
	_ = sum.Add(lbf)
	if sum.Cmp(total) != 0 {
		return fmt.Errorf("in-tree check: balances (%s) do not add up to total supply (%s)", &sum, total)
	}
	return nil
}

// exec runs one op on the world; returns the annotated line, whether a dump should follow and
// whether the case must stop (a fatal block-level error leaves the real state undefined).
func (w *world) exec(op string) (line string, dump bool, stop bool) {
	f := strings.Fields(op)
	switch f[0] {
	case "genesis":
		w.genesisLine(f[1:])
		return op, false, false
	case "acct":
		w.acctLine(f)
		f[8] = normSchedule(f[8], &w.gen.Parameters.CommissionScheduleRules.MinCommissionRate)
		return strings.Join(f[:10], " "), false, false
	case "del":
		e, d := theCast.addrs[atoi(f[1])], theCast.addrs[atoi(f[2])]
		if w.gen.Delegations[e] == nil {
			w.gen.Delegations[e] = map[staking.Address]*staking.Delegation{}
		}
		w.gen.Delegations[e][d] = &staking.Delegation{Shares: qq(f[3])}
		return strings.Join(f[:4], " "), false, false
	case "deb":
		d, e := theCast.addrs[atoi(f[2])], theCast.addrs[atoi(f[3])]
		if w.gen.DebondingDelegations[e] == nil {
			w.gen.DebondingDelegations[e] = map[staking.Address][]*staking.DebondingDelegation{}
		}
		w.gen.DebondingDelegations[e][d] = append(w.gen.DebondingDelegations[e][d],
			&staking.DebondingDelegation{Shares: qq(f[4]), DebondEndTime: beacon.EpochTime(atoi(f[1]))})
		return strings.Join(f[:5], " "), false, false
	case "init":
		r := w.init()
		return "init " + r, r == "ok", r != "ok"
	case "tx":
		n := map[string]int{"transfer": 7, "burn": 6, "escrow": 7, "reclaim": 7, "allow": 8, "withdraw": 7, "amend": 6}[f[4]]
		r := w.tx(f)
		return fmt.Sprintf("%s %d %d %s %s", strings.Join(f[:4], " "), lastGas, lastSize, strings.Join(f[4:n], " "), r), true, false
	case "msg":
		r := w.msg(f)
		return strings.Join(f[:5], " ") + " " + r, true, false
	case "epoch":
		w.cfg.CurrentEpoch = beacon.EpochTime(atoi(f[1]))
		w.cfg.EpochChanged = true
		return "epoch " + f[1], false, false
	case "begin":
		r := w.begin(f)
		return strings.Join(f[:5], " ") + " " + r, r == "ok", r != "ok"
	case "end":
		r := w.end()
		return "end " + r, r == "ok", r != "ok"
	case "slash", "tfc", "addrewards", "govdep", "govref", "govdisc":
		n := map[string]int{"slash": 3, "tfc": 4, "addrewards": 4, "govdep": 3, "govref": 3, "govdisc": 2}[f[0]]
		r := w.direct(f)
		if spec == "c10" && f[0] == "tfc" && f[3] == "1" && r != "ok" && w.tfcFatal == "" {
			// the only caller (roothash reward distribution, EndBlock path) propagates this error
			w.tfcFatal = w.directErr
			return strings.Join(f[:n], " ") + " " + r, false, true
		}
		return strings.Join(f[:n], " ") + " " + r, r != "fatal", r == "fatal"
	}
	panic("unknown op " + op)
}

// runImpl executes the ops on a fresh world; returns the lines for the model, an in-tree check
// complaint (if any, at a block boundary) and a panic message.
var globalNotes = map[string]int{}

// set by runImpl for the model-free specs
var lastC08, lastFatal, lastFatalPhase, lastTfcFatal string

func runImpl(ops []string) (lines []string, inTree string, panicked string) {
	w := newWorld()
	lastC08, lastFatal, lastFatalPhase, lastTfcFatal = "", "", "", ""
	defer func() {
		lastC08 = w.c08
		lastTfcFatal = w.tfcFatal
		if lastFatal == "" && w.fatal != "" && lastFatalPhase != "" {
			lastFatal = w.fatal
		}
		for k, v := range w.notes {
			if v > 0 {
				globalNotes[k]++
			}
		}
	}()
	for _, op := range ops {
		stop := false
		func() {
			defer func() {
				if r := recover(); r != nil {
					panicked = fmt.Sprintf("%s: %v", op, r)
					lines = append(lines, strings.Fields(op)[0]+" PANIC")
				}
			}()
			line, dump, st := w.exec(op)
			stop = st
			lines = append(lines, line)
			if st && (strings.HasPrefix(line, "begin ") || strings.HasPrefix(line, "end ")) {
				lastFatalPhase = strings.Fields(line)[0]
			}
			if dump {
				lines = append(lines, w.dump())
				if (strings.HasPrefix(line, "end ") || strings.HasPrefix(line, "init ")) && inTree == "" {
					if err := w.inTreeCheck(); err != nil {
						inTree = fmt.Sprintf("after `%s`: %v", line, err)
					}
				}
			}
		}()
		if panicked != "" || stop {
			break
		}
	}
	return
}

func slug(e string) string {
	parts := strings.Split(e, ": ")
	if len(parts) > 2 {
		parts = parts[len(parts)-2:]
	}
	t := strings.Join(parts, ":")
	var b strings.Builder
	for _, c := range t {
		switch {
		case c >= 'a' && c <= 'z', c >= 'A' && c <= 'Z', c == ':':
			b.WriteRune(c)
		case c == ' ' || c == '_' || c == '-':
			b.WriteByte('_')
		}
	}
	r := b.String()
	if len(r) > 70 {
		r = r[:70]
	}
	return r
}

func check(ops []string) (string, []string) {
	lines, inTree, p := runImpl(ops)
	switch spec {
	case "c08":
		if p != "" && !strings.HasPrefix(p, "begin") && !strings.HasPrefix(p, "end") {
			// panics are C10's business; here only what failed transactions leave behind
			return "", lines
		}
		return lastC08, lines
	case "c10":
		if p != "" {
			return "C10 c10-fatal:panic:" + slug(p) + " — implementation panicked: " + p, lines
		}
		if lastTfcFatal != "" {
			sg := "c10-fatal:tfc:" + slug(lastTfcFatal)
			if strings.Contains(lastTfcFatal, "failed to deposit to escrow") && strings.Contains(lastTfcFatal, "invalid argument") {
				sg = "c10-fatal:tfc:slashed-pool-full-commission"
			}
			return "C10 " + sg + " — TransferFromCommon(escrow=true) returned an error (fatal in roothash reward distribution): " + lastTfcFatal, lines
		}
		if lastFatalPhase != "" {
			return fmt.Sprintf("C10 c10-fatal:%s:%s — %s returned an error: %s", lastFatalPhase, slug(lastFatal), lastFatalPhase, lastFatal), lines
		}
		return "", lines
	}
	if p != "" {
		return "implementation panicked: " + p, lines
	}
	ans, err := hlib.RunModel("ledger", lines)
	if err != nil {
		return "model-error: " + err.Error(), lines
	}
	if i := hlib.FirstBad(ans, "ok"); i >= 0 {
		prev := ""
		if i > 0 {
			prev = lines[i-1]
		}
		l := lines[i]
		if len(l) > 60 {
			l = l[:60] + "..."
		}
		return fmt.Sprintf("%s  [at line %d `%s` after `%s`]", ans[i], i, l, prev), lines
	}
	if inTree != "" {
		return "INTREE the repository's own sanity check fails " + inTree, lines
	}
	return "", lines
}

func signature2(d string) string {
	w := strings.Fields(d)
	switch {
	case strings.HasPrefix(d, "C08 "), strings.HasPrefix(d, "C10 "):
		return strings.TrimSuffix(w[1], ":")
	case strings.HasPrefix(d, "implementation panicked"):
		return "panic"
	case strings.HasPrefix(d, "model-error"):
		return "model-error"
	case strings.HasPrefix(d, "INTREE"):
		return "intree-check"
	case strings.HasPrefix(d, "SPEC debond"):
		return "spec-debond-exactly-once"
	case strings.HasPrefix(d, "SPEC supply"):
		return "spec-supply-equation"
	case strings.HasPrefix(d, "SPEC share"):
		return "spec-share-bookkeeping"
	case strings.HasPrefix(d, "SPEC total supply"):
		return "spec-supply-changed"
	case len(w) >= 2 && w[0] == "DIVERGE":
		return "diverge-" + strings.TrimSuffix(w[1], ":")
	case len(w) >= 2:
		return strings.ToLower(w[0]) + "-" + w[1]
	}
	return "other"
}

// ---------------------------------------------------------------- generator (live: it looks at the real state)

type gen struct {
	fullCom                    []int // entities whose commission rate is 100%
	gasTok                     string
	rci, rbl, mrs, mbs, mincom int  // commission schedule rules of the history
	msgHeavy                   bool // runtime-message-heavy history
	comHeavy                   bool // commission-schedule-heavy history
	gasOn                      bool
	gasPick                    int            // -1: default limit; else which boundary (see gasLimit)
	gasCost                    map[string]int // body kind -> operation cost
	r                          *hlib.Rng
	w                          *world
	ops                        []string
	res                        *hlib.Result
	mtb                        int64
	// debonding-completion bookkeeping (see classifyBatch)
	curEpoch     int
	epochPending bool            // an `epoch` op was emitted for the running block
	patterns     map[string]bool // ordering patterns of expired-queue batches hit by this history
}

// observe counts what happened across a block-level op from the dumps before and after it.
func (g *gen) observe(op, before, after string) {
	b, a := strings.Fields(before), strings.Fields(after)
	if len(b) < 7 || len(a) < 7 {
		return
	}
	nq := func(s string) int { return strings.Count(s, " Q ") }
	cb, _ := new(big.Int).SetString(b[2], 10)
	ca, _ := new(big.Int).SetString(a[2], 10)
	switch op {
	case "end":
		if nq(after) < nq(before) {
			g.res.Count("observed:debonding-paid-out")
		}
		if a[4] != "0" {
			g.res.Count("observed:fees-persisted-for-next-block")
		}
		if ca.Cmp(cb) < 0 {
			g.res.Count("observed:epoch-signing-reward-paid")
		}
	case "begin":
		if b[4] != "0" {
			g.res.Count("observed:last-block-fees-disbursed")
		}
		if ca.Cmp(cb) < 0 {
			g.res.Count("observed:proposer-reward-paid")
		}
		if nz := strings.Count(after, " S "); nz > 0 {
			g.res.Count("observed:epoch-signing-tracked")
		}
	case "slash":
		if ca.Cmp(cb) > 0 {
			g.res.Count("observed:slashed-nonzero")
		}
	}
}

// ---- ordering patterns of the expired-debonding-queue batch an epoch transition completes

type qent struct{ ep, d, e int }

// parseDump returns the debonding queue (in queue order: end epoch, delegator, escrow) and the
// debonding pools (balance, total shares) per account of a dump line.
func parseDump(dump string) (q []qent, dB, dTS map[int]*big.Int) {
	dB, dTS = map[int]*big.Int{}, map[int]*big.Int{}
	f := strings.Fields(dump)
	for i := 7; i < len(f); {
		switch f[i] {
		case "A":
			a := atoi(f[i+1])
			dB[a], _ = new(big.Int).SetString(f[i+6], 10)
			dTS[a], _ = new(big.Int).SetString(f[i+7], 10)
			i += 9
		case "D":
			i += 4
		case "Q":
			q = append(q, qent{atoi(f[i+1]), atoi(f[i+2]), atoi(f[i+3])})
			i += 5
		case "S", "C":
			i += 3
		default:
			panic("bad dump record " + f[i])
		}
	}
	return
}

// classifyBatch records which ordering patterns the batch of debonding delegations completed by the
// epoch transition of the block just ended exhibits (`before`: dump before EndBlock).  The queue is
// walked in key order (end epoch, delegator address, escrow address); account numbers are address order.
func (g *gen) classifyBatch(before, after string) {
	q, dB, dTS := parseDump(before)
	var batch []qent
	pairCount := map[[2]int]int{}
	for _, x := range q {
		pairCount[[2]int{x.d, x.e}]++
		if x.ep <= g.curEpoch {
			batch = append(batch, x)
		}
	}
	for _, n := range pairCount {
		if n > 1 {
			g.patterns["queue:several-debonding-delegations-of-one-pair"] = true
		}
	}
	if len(batch) == 0 {
		return
	}
	hit := func(s string) { g.patterns["batch:"+s] = true }
	hit("any")
	if len(batch) >= 3 {
		hit("size>=3")
	}
	if qa, _, _ := parseDump(after); len(qa) != len(q)-len(batch) {
		hit("UNEXPECTED-queue-length-after")
	}
	eps, escrows, batchPair := map[int]bool{}, map[int]bool{}, map[[2]int]int{}
	var runs []int
	for i, x := range batch {
		eps[x.ep] = true
		escrows[x.e] = true
		batchPair[[2]int{x.d, x.e}]++
		if x.ep < g.curEpoch {
			hit("completed-late")
		}
		if i == 0 || batch[i-1].e != x.e {
			runs = append(runs, x.e)
		}
	}
	if len(eps) > 1 {
		hit("several-end-epochs")
	}
	if len(escrows) > 1 {
		hit("several-escrow-accounts")
	}
	for _, n := range batchPair {
		if n > 1 {
			hit("several-debonding-delegations-of-one-pair")
		}
	}
	seenRun := map[int]bool{}
	for _, e := range runs {
		if seenRun[e] {
			hit("escrow-accounts-interleaved")
		}
		seenRun[e] = true
	}
	for e := range escrows {
		var ds []int
		self := false
		for _, x := range batch {
			if x.e != e {
				continue
			}
			if x.d == e {
				self = true
			} else {
				ds = append(ds, x.d)
			}
		}
		sort.Ints(ds)
		if self {
			hit("self-delegation")
		}
		if self && len(ds) > 0 {
			hit("self-delegation-and-delegators-of-same-escrow")
		}
		if len(ds) >= 2 && ds[0] != ds[len(ds)-1] {
			switch {
			case e < ds[0]:
				hit("escrow-sorts-before-its-delegators")
			case e > ds[len(ds)-1]:
				hit("escrow-sorts-after-its-delegators")
			default:
				hit("escrow-sorts-between-its-delegators")
			}
			if self {
				switch {
				case e < ds[0]:
					hit("self+escrow-sorts-before-its-delegators")
				case e > ds[len(ds)-1]:
					hit("self+escrow-sorts-after-its-delegators")
				default:
					hit("self+escrow-sorts-between-its-delegators")
				}
			}
		}
		if b, ts := dB[e], dTS[e]; b != nil && ts != nil {
			switch {
			case b.Sign() == 0 && ts.Sign() > 0:
				hit("debonding-pool-slashed-to-zero")
			case b.Cmp(ts) < 0:
				hit("debonding-pool-price-below-one")
			case b.Cmp(ts) > 0:
				hit("debonding-pool-price-above-one")
			}
		}
	}
	// adjacency in queue order
	for i := 0; i+1 < len(batch); i++ {
		x, y := batch[i], batch[i+1]
		if x.e != y.e {
			continue
		}
		switch {
		case x.d == x.e:
			hit("adjacent:self,delegator")
		case y.d == y.e:
			hit("adjacent:delegator,self")
		default:
			hit("adjacent:delegator,delegator")
		}
		if i+2 < len(batch) {
			z := batch[i+2]
			if z.e == x.e && y.d == y.e && x.d != x.e && z.d != z.e {
				hit("adjacent:delegator,self,delegator")
			}
			if z.e == x.e && x.d != x.e && y.d != y.e && z.d != z.e {
				hit("adjacent:delegator,delegator,delegator")
			}
		}
	}
}

// gasLimit: the gas limit for boundary `pick` of transaction op (per-byte cost 1): 0 · one below the
// per-byte charge · exactly the per-byte charge · one below per-byte + operation · exactly enough · plenty.
func (g *gen) gasLimit(op string, pick int) int {
	f := strings.Fields(op)
	cost := g.gasCost[f[4]]
	limit := 0
	for iter := 0; iter < 4; iter++ { // the size depends (by a byte or two) on the encoded limit
		_, size := buildTx(append(append([]string{}, f...), fmt.Sprintf("gas=%d", limit)))
		var want int
		switch pick {
		case 0:
			want = 0
		case 1:
			want = size - 1
		case 2:
			want = size
		case 3:
			want = size + cost - 1
		case 4:
			want = size + cost
		default:
			want = 1000000
		}
		if want == limit {
			break
		}
		limit = want
	}
	return limit
}

func (g *gen) emit(op string) bool {
	if strings.HasPrefix(op, "tx ") {
		if g.gasPick >= 0 {
			g.res.Count("gas-limit:" + []string{"zero", "bytes-1", "bytes-exact", "bytes+op-1", "bytes+op-exact", "plenty", "plenty"}[g.gasPick])
			g.gasTok = fmt.Sprintf(" gas=%d", g.gasLimit(op, g.gasPick))
			g.gasPick = -1
		}
		op += g.gasTok
		g.gasTok = ""
	}
	g.ops = append(g.ops, op)
	name := strings.Fields(op)[0]
	before := ""
	if g.w.inited && (name == "end" || name == "begin" || name == "slash") {
		before = g.w.dump()
	}
	if name == "epoch" {
		g.curEpoch, g.epochPending = atoi(strings.Fields(op)[1]), true
	}
	line, _, stop := g.w.exec(op)
	if before != "" && !stop {
		after := g.w.dump()
		g.observe(name, before, after)
		if name == "end" && g.epochPending {
			g.classifyBatch(before, after)
		}
	}
	if name == "end" {
		g.epochPending = false
	}
	f := strings.Fields(line)
	switch f[0] {
	case "tx":
		g.res.Count("tx:" + f[6] + ":" + f[len(f)-1])
	case "begin", "end", "init", "slash", "tfc", "addrewards", "govdep", "govref", "govdisc":
		g.res.Count("op:" + f[0] + ":" + f[len(f)-1])
	case "msg":
		g.res.Count("msg:" + f[2] + ":" + f[len(f)-1])
	}
	return stop
}

func (g *gen) amount(around *big.Int) *big.Int {
	r := g.r
	if spec == "c10" && r.Chance(1, 6) {
		// extreme values
		switch r.Intn(3) {
		case 0:
			return new(big.Int).SetUint64(^uint64(0))
		case 1:
			return new(big.Int).Lsh(big.NewInt(1), 255)
		}
		return new(big.Int).Sub(new(big.Int).Lsh(big.NewInt(1), 64), big.NewInt(int64(r.Intn(3))))
	}
	switch r.Intn(12) {
	case 0:
		return big.NewInt(0)
	case 1:
		return big.NewInt(1)
	case 2:
		return new(big.Int).Set(around)
	case 3:
		return new(big.Int).Add(around, big.NewInt(1))
	case 4:
		if around.Sign() > 0 {
			return new(big.Int).Sub(around, big.NewInt(1))
		}
	case 5:
		x := new(big.Int).Sub(around, big.NewInt(g.mtb))
		if x.Sign() > 0 {
			return x
		}
	case 6:
		return new(big.Int).Lsh(big.NewInt(1), uint(60+r.Intn(80)))
	}
	if around.Sign() == 0 {
		return big.NewInt(int64(r.Intn(1000)))
	}
	x := new(big.Int).SetUint64(r.Next())
	x.Mul(x, big.NewInt(int64(1+r.Intn(1000))))
	return x.Mod(x, new(big.Int).Add(around, big.NewInt(1)))
}

func (g *gen) bal() (general []*big.Int, nonce []uint64, accts []*staking.Account) {
	ctx := g.w.appState.NewContext(abciAPI.ContextEndBlock)
	defer ctx.Close()
	st := stakingState.NewMutableState(ctx.State())
	for _, a := range theCast.addrs {
		if a.IsReserved() {
			general, nonce, accts = append(general, big.NewInt(0)), append(nonce, 0), append(accts, &staking.Account{})
			continue
		}
		acct, err := st.Account(ctx, a)
		if err != nil {
			panic(err)
		}
		general = append(general, acct.General.Balance.ToBigInt())
		nonce = append(nonce, acct.General.Nonce)
		accts = append(accts, acct)
	}
	return
}


// aimRewards builds an AddRewards call aimed at the boundary at which the reward schedule exhausts the
// common pool: the factor is chosen from the real state so that the reward of the first listed entity
// equals the remaining common pool exactly (q == commonPool passes the "not enough left" test and leaves
// zero for the entities that follow). Returns "" when no factor hits the balance exactly.
func (g *gen) aimRewards(epoch int) string {
	ctx := g.w.appState.NewContext(abciAPI.ContextEndBlock)
	defer ctx.Close()
	st := stakingState.NewMutableState(ctx.State())
	cp, err := st.CommonPool(ctx)
	if err != nil || cp.IsZero() {
		return ""
	}
	steps, err := st.RewardSchedule(ctx)
	if err != nil {
		return ""
	}
	var scale *big.Int
	for _, s := range steps {
		if beacon.EpochTime(epoch) < s.Until {
			scale = s.Scale.ToBigInt()
			break
		}
	}
	if scale == nil || scale.Sign() == 0 {
		return ""
	}
	_, _, accts := g.bal()
	D := staking.RewardAmountDenominator.ToBigInt()
	C := cp.ToBigInt()
	var funded []int
	for _, e := range theCast.entities {
		if accts[e].Escrow.Active.Balance.ToBigInt().Sign() > 0 {
			funded = append(funded, e)
		}
	}
	if len(funded) < 2 {
		return ""
	}
	order := append([]int{}, funded...)
	for i := range order {
		j := i + g.r.Intn(len(order)-i)
		order[i], order[j] = order[j], order[i]
	}
	for _, e := range order {
		den := new(big.Int).Mul(accts[e].Escrow.Active.Balance.ToBigInt(), scale)
		f := new(big.Int).Mul(C, D)
		f.Add(f, new(big.Int).Sub(den, big.NewInt(1))).Div(f, den) // ceil(C*D/den)
		q := new(big.Int).Mul(den, f)
		q.Div(q, D)
		if q.Cmp(C) != 0 {
			continue
		}
		lst := []int{e}
		for _, o := range funded {
			if o != e {
				lst = append(lst, o)
			}
		}
		g.res.Count("aim:rewards-drain-common-pool-exactly")
		debugf("aim: common=%s entity=%d aB=%s scale=%s f=%s q=%s list=%v", C, e, accts[e].Escrow.Active.Balance.ToBigInt(), scale, f, q, lst)
		return fmt.Sprintf("addrewards %d %s %s", epoch, f, list(lst))
	}
	return ""
}

func (g *gen) anyAcct() int { return g.r.Intn(len(theCast.addrs)) }
func (g *gen) entity() int  { return theCast.entities[g.r.Intn(len(theCast.entities))] }

func (g *gen) tx() bool {
	r := g.r
	general, nonce, accts := g.bal()
	s := g.entity()
	n := nonce[s]
	if r.Chance(1, 25) {
		n += uint64(1 + r.Intn(2))
	}
	fee := big.NewInt(int64(r.Intn(50)))
	if r.Chance(1, 10) {
		fee = g.amount(general[s])
	}
	if r.Chance(1, 3) {
		fee = big.NewInt(0)
	}
	head := fmt.Sprintf("tx %d %d %s ", s, n, fee)
	g.gasTok = ""
	g.gasPick = -1
	if g.gasOn && (spec != "c05" || r.Chance(1, 3)) {
		// gas limits that exhaust at the per-byte charge, exactly at / one below the operation's
		// charge, or never (resolved against the encoded size in emit)
		g.gasPick = r.Intn(7)
	}
	avail := new(big.Int).Sub(general[s], fee)
	if avail.Sign() < 0 {
		avail.SetInt64(0)
	}
	if g.comHeavy && r.Chance(2, 5) {
		if r.Chance(3, 4) {
			g.gasPick = -1
		}
		return g.emit(fmt.Sprintf("tx %d %d %d amend %s", s, nonce[s], r.Intn(20), g.genAmendment(s, accts[s])))
	}
	switch k := r.Intn(108); {
	case k >= 100:
		return g.emit(head + "amend " + g.genAmendment(s, accts[s]))
	case k < 25:
		dst := g.anyAcct()
		if r.Chance(1, 10) {
			dst = s
		}
		return g.emit(head + fmt.Sprintf("transfer %d %s", dst, g.amount(avail)))
	case k < 32:
		return g.emit(head + fmt.Sprintf("burn %s", g.amount(avail)))
	case k < 55:
		e := g.anyAcct()
		if r.Chance(1, 3) {
			e = s
		}
		return g.emit(head + fmt.Sprintf("escrow %d %s", e, g.amount(avail)))
	case k < 78:
		// reclaim from somewhere we (probably) have a delegation
		e := g.anyAcct()
		shares := big.NewInt(int64(r.Intn(20)))
		ctx := g.w.appState.NewContext(abciAPI.ContextEndBlock)
		st := stakingState.NewMutableState(ctx.State())
		if ds, err := st.DelegationsFor(ctx, theCast.addrs[s]); err == nil && len(ds) > 0 && r.Chance(5, 6) {
			var es []int
			for a := range ds {
				es = append(es, theCast.index[a])
			}
			sort.Ints(es)
			e = es[r.Intn(len(es))]
			shares = g.amount(ds[theCast.addrs[e]].Shares.ToBigInt())
		}
		ctx.Close()
		return g.emit(head + fmt.Sprintf("reclaim %d %s", e, shares))
	case k < 90:
		b := g.anyAcct()
		if g.msgHeavy && r.Chance(1, 2) {
			b = theCast.runtimes[r.Intn(len(theCast.runtimes))]
		}
		neg := 0
		if r.Chance(1, 3) {
			neg = 1
		}
		return g.emit(head + fmt.Sprintf("allow %d %d %s", b, neg, g.amount(big.NewInt(int64(r.Intn(5000))))))
	default:
		src := g.anyAcct()
		amt := g.amount(general[src])
		// prefer a source that granted us an allowance
		for i, a := range accts {
			if al, ok := a.General.Allowances[theCast.addrs[s]]; ok && r.Chance(3, 4) {
				src, amt = i, g.amount(al.ToBigInt())
			}
		}
		return g.emit(head + fmt.Sprintf("withdraw %d %s", src, amt))
	}
}

// rate picks a commission rate in [lo, hi] with a bias to the ends.
func (g *gen) rate(lo, hi int) int {
	switch g.r.Intn(4) {
	case 0:
		return lo
	case 1:
		return hi
	}
	return lo + g.r.Intn(hi-lo+1)
}

func (g *gen) align(x int) int { return ((x + g.rci - 1) / g.rci) * g.rci }

// genSchedule: a commission schedule for genesis at `epoch`, valid by construction (rarely not): one
// to three rate steps (some already started, so that pruning matters), one or two bound steps.
// Returns the text and whether the rate in force is 100%.
func (g *gen) genSchedule(epoch int) (string, bool) {
	r := g.r
	lo, hi := g.mincom, 100000
	if r.Chance(1, 3) && g.mincom < 100000 {
		lo = g.rate(g.mincom, 100000)
		hi = g.rate(lo, 100000)
	}
	nr := 1 + r.Intn(3)
	if nr > g.mrs {
		nr = g.mrs
	}
	var rs []string
	start, cur := 0, 0
	for i := 0; i < nr; i++ {
		rt := g.rate(lo, hi)
		if r.Chance(1, 300) {
			rt = hi + 1 // out of bounds: InitChain must refuse
		}
		rs = append(rs, fmt.Sprintf("%d:%d", start, rt))
		if start <= epoch {
			cur = rt
		}
		start = g.align(start + 1 + r.Intn(epoch+4))
	}
	bs := []string{fmt.Sprintf("0:%d:%d", lo, hi)}
	if g.mbs >= 2 && r.Chance(1, 3) {
		// a later, wider bound step
		lo2, hi2 := g.rate(g.mincom, lo), g.rate(hi, 100000)
		bs = append(bs, fmt.Sprintf("%d:%d:%d", g.align(1+r.Intn(epoch+6)), lo2, hi2))
	}
	return strings.Join(rs, ",") + "/" + strings.Join(bs, ","), cur == 100000
}

// genAmendment: an amendment of account s's schedule as it is in the real state — acceptable ones (a
// rate change inside every bound in force from its start on, a bound change with the required lead
// that contains every later rate, an initial schedule, both at once) and refused ones (start at or
// before the current epoch, off the change interval, no lead, rate outside the bounds / above 100% /
// below the minimum, max < min, unordered or too many steps, rates without bounds).
func (g *gen) genAmendment(s int, acct *staking.Account) string {
	r := g.r
	now := g.curEpoch
	cs := &acct.Escrow.CommissionSchedule
	// the interval common to all bounds, and the span of all rates, of the current schedule
	lo, hi := g.mincom, 100000
	for i := range cs.Bounds {
		if v := int(cs.Bounds[i].RateMin.ToBigInt().Int64()); v > lo {
			lo = v
		}
		if v := int(cs.Bounds[i].RateMax.ToBigInt().Int64()); v < hi {
			hi = v
		}
	}
	rlo, rhi := 100000, g.mincom
	for i := range cs.Rates {
		v := int(cs.Rates[i].Rate.ToBigInt().Int64())
		if v < rlo {
			rlo = v
		}
		if v > rhi {
			rhi = v
		}
	}
	if lo > hi {
		lo, hi = g.mincom, 100000
	}
	if rlo > rhi {
		rlo, rhi = lo, hi
	}
	lead := g.rbl
	if len(cs.Bounds) == 0 {
		lead = 0 // initial schedule: no lead required
	}
	rateStart := g.align(now + 1 + r.Intn(3))
	boundStart := g.align(now + 1 + lead + r.Intn(3))
	if r.Chance(1, 3) {
		rateStart, boundStart = g.align(now+1), g.align(now+1+lead) // the earliest acceptable
	}
	var rs [][2]int
	var bs [][3]int
	// 1. an acceptable amendment
	switch k := r.Intn(17); {
	case k >= 14 && !cs.IsEmpty():
		// rate and bound switch at the same epoch; the new bound need not contain the old rates
		// (every step from that epoch on is replaced)
		nlo := g.rate(g.mincom, 100000)
		nhi := g.rate(nlo, 100000)
		rs = append(rs, [2]int{boundStart, g.rate(nlo, nhi)})
		bs = append(bs, [3]int{boundStart, nlo, nhi})
		if g.mrs >= 3 && g.mbs >= 3 && r.Chance(1, 3) {
			s2 := g.align(boundStart + 1 + r.Intn(3))
			nlo2 := g.rate(g.mincom, 100000)
			nhi2 := g.rate(nlo2, 100000)
			rs = append(rs, [2]int{s2, g.rate(nlo2, nhi2)})
			bs = append(bs, [3]int{s2, nlo2, nhi2})
		}
	case cs.IsEmpty():
		// initial schedule: rates and bounds start together in the future
		b0 := g.rate(g.mincom, 100000)
		b1 := g.rate(b0, 100000)
		rs = append(rs, [2]int{rateStart, g.rate(b0, b1)})
		if g.mrs >= 2 && r.Bool() {
			rs = append(rs, [2]int{g.align(rateStart + 1 + r.Intn(4)), g.rate(b0, b1)})
		}
		bs = append(bs, [3]int{rateStart, b0, b1})
	case k < 7:
		rs = append(rs, [2]int{rateStart, g.rate(lo, hi)})
		if g.mrs >= 3 && r.Chance(1, 3) {
			rs = append(rs, [2]int{g.align(rateStart + 1 + r.Intn(4)), g.rate(lo, hi)})
		}
	case k < 11:
		bs = append(bs, [3]int{boundStart, g.rate(g.mincom, rlo), g.rate(rhi, 100000)})
	default:
		// both: a new bound and a rate inside old and new bounds
		nlo, nhi := g.rate(g.mincom, rlo), g.rate(rhi, 100000)
		l2, h2 := lo, hi
		if nlo > l2 {
			l2 = nlo
		}
		if nhi < h2 {
			h2 = nhi
		}
		if l2 > h2 {
			l2, h2 = rlo, rhi
		}
		rs = append(rs, [2]int{rateStart, g.rate(l2, h2)})
		bs = append(bs, [3]int{boundStart, nlo, nhi})
	}
	// 2. sometimes spoiled in exactly one respect (each is a separate check of the Go code)
	if r.Chance(2, 5) {
		// only kinds that apply to this amendment
		var kinds []int
		if len(rs) > 0 {
			kinds = append(kinds, 0, 3, 4, 5, 8, 9)
			if now > 0 {
				kinds = append(kinds, 1)
			}
		}
		if len(bs) > 0 {
			kinds = append(kinds, 3, 6, 7, 8)
			if !cs.IsEmpty() {
				kinds = append(kinds, 2, 2)
			}
		}
		if cs.IsEmpty() {
			kinds = append(kinds, 10, 11)
		}
		kind := kinds[r.Intn(len(kinds))]
		g.res.Count(fmt.Sprintf("amend-spoiled:%d", kind))
		switch kind {
		case 0: // rate change at the current epoch
			if len(rs) > 0 {
				rs[0][0] = now
			}
		case 1: // rate change in the past
			if len(rs) > 0 && now > 0 {
				rs[0][0] = g.align(r.Intn(now))
			}
		case 2: // bound change one epoch short of the lead
			if len(bs) > 0 && bs[0][0] > 0 {
				bs[0][0] = now + lead
			}
		case 3: // off the change interval
			if len(rs) > 0 {
				rs[0][0]++
			} else {
				bs[0][0]++
			}
		case 4: // rate just above the bounds in force / above 100%
			if len(rs) > 0 {
				rs[len(rs)-1][1] = []int{hi + 1, 100001}[r.Intn(2)]
			}
		case 5: // rate just below the bounds in force / below the minimum
			if len(rs) > 0 {
				v := []int{lo - 1, g.mincom - 1}[r.Intn(2)]
				if v >= 0 {
					rs[len(rs)-1][1] = v
				}
			}
		case 6: // new bound excludes an existing rate
			if len(bs) > 0 {
				if r.Bool() {
					bs[0][1] = rlo + 1
				} else if rhi > 0 {
					bs[0][2] = rhi - 1
				}
			}
		case 7: // max < min, or bound above 100% / below the minimum
			if len(bs) > 0 {
				switch r.Intn(3) {
				case 0:
					bs[0][1], bs[0][2] = bs[0][2]+1, bs[0][1]
				case 1:
					bs[0][2] = 100001
				default:
					if g.mincom > 0 {
						bs[0][1] = g.mincom - 1
					}
				}
			}
		case 8: // steps not in increasing order
			if len(rs) > 0 {
				rs = append(rs, rs[len(rs)-1])
			} else {
				bs = append(bs, bs[len(bs)-1])
			}
		case 9: // too many steps (together with the steps that are kept)
			for len(rs) <= g.mrs && len(rs) > 0 {
				last := rs[len(rs)-1]
				rs = append(rs, [2]int{g.align(last[0] + 1), last[1]})
			}
		case 10: // rates without bounds / bounds without rates on an empty schedule
			if cs.IsEmpty() {
				if r.Bool() {
					rs = nil
				} else {
					bs = nil
				}
			}
		default: // rate and bound schedules of an initial schedule start at different epochs
			if cs.IsEmpty() && len(bs) > 0 {
				bs[0][0] = g.align(bs[0][0] + 1)
			}
		}
	}
	if len(rs) == 0 && len(bs) == 0 {
		return "-"
	}
	var rt, bt []string
	for _, x := range rs {
		rt = append(rt, fmt.Sprintf("%d:%d", x[0], x[1]))
	}
	for _, x := range bs {
		bt = append(bt, fmt.Sprintf("%d:%d:%d", x[0], x[1], x[2]))
	}
	j := func(l []string) string {
		if len(l) == 0 {
			return "-"
		}
		return strings.Join(l, ",")
	}
	return j(rt) + "/" + j(bt)
}

// msg emits a runtime message of one of the runtime accounts.
func (g *gen) msg() bool {
	r := g.r
	rt := theCast.runtimes[r.Intn(len(theCast.runtimes))]
	general, _, accts := g.bal()
	switch r.Intn(8) {
	case 0, 1, 2:
		dst := g.anyAcct()
		if r.Chance(1, 12) {
			dst = rt
		}
		return g.emit(fmt.Sprintf("msg %d transfer %d %s", rt, dst, g.amount(general[rt])))
	case 3, 4:
		e := g.entity()
		if r.Chance(1, 6) {
			e = g.anyAcct()
		}
		return g.emit(fmt.Sprintf("msg %d escrow %d %s", rt, e, g.amount(general[rt])))
	case 5, 6:
		e := g.anyAcct()
		shares := big.NewInt(int64(r.Intn(20)))
		ctx := g.w.appState.NewContext(abciAPI.ContextEndBlock)
		st := stakingState.NewMutableState(ctx.State())
		if ds, err := st.DelegationsFor(ctx, theCast.addrs[rt]); err == nil && len(ds) > 0 && r.Chance(5, 6) {
			var es []int
			for a := range ds {
				es = append(es, theCast.index[a])
			}
			sort.Ints(es)
			e = es[r.Intn(len(es))]
			shares = g.amount(ds[theCast.addrs[e]].Shares.ToBigInt())
		}
		ctx.Close()
		return g.emit(fmt.Sprintf("msg %d reclaim %d %s", rt, e, shares))
	default:
		src := g.anyAcct()
		amt := g.amount(general[src])
		for i, a := range accts {
			if al, ok := a.General.Allowances[theCast.addrs[rt]]; ok && r.Chance(3, 4) {
				src, amt = i, g.amount(al.ToBigInt())
			}
		}
		return g.emit(fmt.Sprintf("msg %d withdraw %d %s", rt, src, amt))
	}
}

func list(l []int) string {
	if len(l) == 0 {
		return "-"
	}
	s := make([]string, len(l))
	for i, x := range l {
		s[i] = strconv.Itoa(x)
	}
	return strings.Join(s, ",")
}

// begin emits BeginBlock of block number b with a random proposer, vote participation and evidence.
func (g *gen) begin(b int) bool {
	r := g.r
	// proposer, votes, evidence
	prop := "-"
	if r.Chance(5, 6) {
		prop = strconv.Itoa(r.Intn(nValidators))
	}
	nEl := 1 + r.Intn(nValidators)
	if (spec != "c10" && r.Chance(1, 250)) || (spec == "c10" && b == 0 && r.Chance(1, 2)) {
		nEl = 0
	}
	if nEl == 0 && spec == "c10" {
		// documented precondition: the vote list is non-empty whenever last block fees are non-zero
		if d := strings.Fields(g.w.dump()); len(d) > 4 && d[4] != "0" {
			nEl = 1 + r.Intn(nValidators)
		}
	}
	var voters []int
	perm := []int{0, 1, 2, 3, 4}
	for i := range perm {
		j := i + r.Intn(len(perm)-i)
		perm[i], perm[j] = perm[j], perm[i]
	}
	for i := 0; i < nEl && r.Chance(4, 5); i++ {
		voters = append(voters, perm[i])
	}
	var ev []int
	if r.Chance(1, 6) {
		ev = append(ev, r.Intn(nValidators))
		if r.Chance(1, 3) {
			ev = append(ev, r.Intn(nValidators))
		}
		if r.Chance(1, 4) {
			ev = append(ev, nValidators+r.Intn(5)) // evidence against an unknown validator
		}
	}
	// the driver encodes voters as validator numbers; the model wants entity account numbers
	return g.emit(fmt.Sprintf("begin %s %d %s %s", prop, nEl, list(voters), list(ev)))
}

// ---- wind-down histories
//
// Several delegators AND the escrow account itself delegate to the same escrow account and reclaim
// (all, half, a part, one share; once or several times, in one epoch or across epochs) so that many
// debonding delegations to the same escrow account end at the same epoch.  The escrow account is
// chosen so that its address sorts before / between / after the addresses of its delegators (the
// expired queue is walked by end epoch, delegator address, escrow address); one to three escrow
// accounts with overlapping delegator sets are wound down together; rewards and slashing change the
// active and the debonding pool's price between the reclaim and its completion; epochs advance by
// one or more so that end epochs are met exactly or late.  Ordinary random transactions are mixed in.

type wpair struct{ d, e int }

// txAs emits a transaction of signer s with its current nonce and a small fee.
func (g *gen) txAs(s int, body string) bool {
	_, nonce, _ := g.bal()
	fee := 0
	if g.r.Chance(1, 3) {
		fee = g.r.Intn(20)
	}
	g.gasTok, g.gasPick = "", -1
	return g.emit(fmt.Sprintf("tx %d %d %d %s", s, nonce[s], fee, body))
}

func (g *gen) delegationShares(d, e int) *big.Int {
	ctx := g.w.appState.NewContext(abciAPI.ContextEndBlock)
	defer ctx.Close()
	st := stakingState.NewMutableState(ctx.State())
	del, err := st.Delegation(ctx, theCast.addrs[d], theCast.addrs[e])
	if err != nil {
		panic(err)
	}
	return del.Shares.ToBigInt()
}

func (g *gen) queueLen() int {
	q, _, _ := parseDump(g.w.dump())
	return len(q)
}

func (g *gen) shufflePairs(ps []wpair) []wpair {
	out := append([]wpair{}, ps...)
	for i := range out {
		j := i + g.r.Intn(len(out)-i)
		out[i], out[j] = out[j], out[i]
	}
	return out
}

// noise: a few ordinary operations inside a block.
func (g *gen) noise(escrows []int, max int) bool {
	r := g.r
	for k := r.Intn(max + 1); k > 0; k-- {
		switch r.Intn(8) {
		case 0:
			e := escrows[r.Intn(len(escrows))]
			if g.emit(fmt.Sprintf("slash %d %s", e, g.amount(big.NewInt(int64(r.Intn(50000)))))) {
				return true
			}
		case 1:
			e := escrows[r.Intn(len(escrows))]
			if g.emit(fmt.Sprintf("tfc %d %s 1", e, g.amount(big.NewInt(int64(r.Intn(50000)))))) {
				return true
			}
		case 2:
			if op := g.aimRewards(g.curEpoch); op != "" {
				if g.emit(op) {
					return true
				}
				break
			}
			if g.emit(fmt.Sprintf("addrewards %d %d %s", g.curEpoch, []int{1, 1000, 100000000}[r.Intn(3)], list(escrows))) {
				return true
			}
		case 3:
			if g.msg() {
				return true
			}
		default:
			if g.tx() {
				return true
			}
		}
	}
	return false
}

func (g *gen) windDown(debint int) []string {
	r, ents := g.r, theCast.entities
	// the cast: escrow accounts and who delegates to them
	var pairs []wpair
	var escrows []int
	have := map[wpair]bool{}
	add := func(p wpair) {
		if !have[p] {
			have[p] = true
			pairs = append(pairs, p)
		}
	}
	for k := 1 + r.Intn(3); k > 0; k-- {
		nd := 2 + r.Intn(3) // foreign delegators
		perm := append([]int{}, ents...)
		for i := range perm {
			j := i + r.Intn(len(perm)-i)
			perm[i], perm[j] = perm[j], perm[i]
		}
		set := append([]int{}, perm[:nd+1]...)
		sort.Ints(set)
		var e int
		switch r.Intn(4) {
		case 0:
			e = set[0] // sorts before all its delegators
		case 1:
			e = set[nd] // after
		default:
			e = set[1+r.Intn(nd-1)] // between
		}
		escrows = append(escrows, e)
		for _, d := range set {
			if d != e {
				add(wpair{d, e})
			}
		}
		if r.Chance(4, 5) {
			add(wpair{e, e})
		}
	}
	// escrow accounts that are themselves delegators elsewhere: at completion the debonding queue then
	// visits an account as escrow account, as delegator and as escrow account again within one epoch
	// transition (queue order: epoch, delegator, escrow)
	for _, e := range append([]int{}, escrows...) {
		if !r.Chance(1, 2) {
			continue
		}
		v := ents[r.Intn(len(ents))]
		if v == e {
			continue
		}
		add(wpair{e, v})
		known := false
		for _, x := range escrows {
			known = known || x == v
		}
		if !known {
			escrows = append(escrows, v)
		}
		g.res.Count("wind:escrow-account-also-delegator")
	}
	block := func(newEpoch int, body func() bool) bool {
		if newEpoch > 0 {
			g.emit(fmt.Sprintf("epoch %d", newEpoch))
		}
		if g.begin(1) {
			return true
		}
		if body() {
			return true
		}
		return g.emit("end")
	}
	// 1. everybody escrows
	if block(0, func() bool {
		for _, p := range g.shufflePairs(pairs) {
			general, _, _ := g.bal()
			amt := new(big.Int).Div(general[p.d], big.NewInt(int64(4+r.Intn(6))))
			if r.Chance(1, 6) {
				amt = big.NewInt(int64(1 + r.Intn(50)))
			}
			if amt.Sign() == 0 {
				amt = big.NewInt(1)
			}
			if g.txAs(p.d, fmt.Sprintf("escrow %d %s", p.e, amt)) {
				return true
			}
		}
		return g.noise(escrows, 2)
	}) {
		return g.ops
	}
	// 2. reclaim rounds (a block each); sometimes an epoch passes between two rounds, so that one
	// pair gets several debonding delegations (different end epochs) — reclaims within one epoch merge
	for round := 1 + r.Intn(3); round > 0; round-- {
		ne := 0
		if r.Chance(1, 3) {
			ne = g.curEpoch + 1
		}
		last := round == 1
		if block(ne, func() bool {
			if g.noise(escrows, 2) {
				return true
			}
			for _, p := range g.shufflePairs(pairs) {
				if !last && r.Chance(1, 3) {
					continue
				}
				sh := g.delegationShares(p.d, p.e)
				if sh.Sign() == 0 {
					continue
				}
				want := new(big.Int).Set(sh)
				if !last || r.Chance(1, 4) {
					switch r.Intn(4) {
					case 0:
						want.SetInt64(1)
					case 1:
						want.Rsh(sh, 1)
					case 2:
						want = g.amount(sh)
					}
					if want.Sign() == 0 {
						want.SetInt64(1)
					}
				}
				if g.txAs(p.d, fmt.Sprintf("reclaim %d %s", p.e, want)) {
					return true
				}
				if r.Chance(1, 8) {
					// a second reclaim of the same pair in the same block (merged into one debonding delegation)
					if sh2 := g.delegationShares(p.d, p.e); sh2.Sign() > 0 && g.txAs(p.d, fmt.Sprintf("reclaim %d %s", p.e, g.amount(sh2))) {
						return true
					}
				}
			}
			return false
		}) {
			return g.ops
		}
	}
	// 3. completion: epochs advance until the queue is empty
	for b := 0; b < 4+2*debint && (g.queueLen() > 0 || b < 2); b++ {
		ne := 0
		if r.Chance(3, 4) {
			ne = g.curEpoch + 1
			if r.Chance(1, 5) {
				ne += 1 + r.Intn(debint)
			}
		}
		if block(ne, func() bool { return g.noise(escrows, 3) }) {
			return g.ops
		}
	}
	return g.ops
}

// windPercent: share of the generated histories (spec c05) that are wind-down histories (see windDown).
var windPercent = 40

func genCase(r *hlib.Rng, nblocks int, res *hlib.Result) []string {
	g := &gen{r: r, w: newWorld(), res: res, patterns: map[string]bool{}}
	ops := g.run(nblocks)
	// per history: which ordering patterns its debonding completions exhibited
	for k := range g.patterns {
		res.Count("history:debond:" + k)
	}
	return ops
}

func (g *gen) run(nblocks int) []string {
	theCast = fullCast
	r, c := g.r, theCast
	wind := spec == "c05" && r.Intn(100) < windPercent
	if wind {
		g.res.Count("case:wind-down")
	} else {
		g.res.Count("case:mixed")
	}
	// parameters
	pick := func(vals ...int64) int64 { return vals[r.Intn(len(vals))] }
	g.mtb = pick(0, 0, 10, 1000)
	g.comHeavy = !wind && r.Chance(1, 3)
	if g.comHeavy {
		g.res.Count("case:commission-schedule-heavy")
		g.mtb = pick(0, 0, 10)
	}
	epoch := int(pick(0, 1, 5))
	sched := "-"
	if r.Chance(3, 4) {
		sched = fmt.Sprintf("%d:%d", epoch+2+r.Intn(6), 1+r.Intn(100000000))
		if r.Bool() {
			sched += fmt.Sprintf(",%d:%d", epoch+10+r.Intn(6), r.Intn(50000000))
		}
	}
	mincom := pick(0, 0, 5000, 100000)
	thrD := pick(0, 1, 2, 4)
	thrN := int64(0)
	if thrD > 0 {
		thrN = int64(r.Intn(int(thrD) + 1))
	}
	mda, debint, disD := pick(0, 0, 1, 100), pick(0, 1, 1, 2, 3), pick(0, 0, 0, 0, 0, 0, 0, 1)
	if wind {
		// delegation enabled, debonding period 1..4
		mda, debint, disD = pick(0, 0, 1), pick(1, 1, 2, 2, 3, 4), 0
		if g.mtb > 10 {
			g.mtb = 10
		}
	}
	params := fmt.Sprintf("mtb=%d mta=%d mda=%d debint=%d maxallow=%d disT=%d disD=%d wP=%d wV=%d wN=%d sched=%s rfS=%d rfP=%d thrN=%d thrD=%d mincom=%d slash=%d freeze=%d",
		g.mtb, pick(0, 0, 1, 50), mda, debint, pick(0, 1, 2, 8, 8), pick(0, 0, 0, 0, 0, 0, 0, 1), disD,
		pick(0, 1, 2, 7), pick(0, 1, 1, 3), pick(0, 1, 1, 5), sched, pick(0, 1, 1000, 100000000), pick(0, 1, 1000, 100000000),
		thrN, thrD, mincom, pick(0, 1, 1000, 1000000000000), pick(0, 0, 1))
	if spec != "c05" || r.Chance(1, 3) {
		// per-operation costs: transfer, burn, add escrow, reclaim escrow, amend commission schedule, allow, withdraw
		costs := []int{10, 25, 100, 150, 60, 30, 40}
		if r.Chance(1, 4) {
			for i := range costs {
				costs[i] = r.Intn(300)
			}
		}
		params += fmt.Sprintf(" gascosts=%s gasbyte=1", list(costs))
		g.gasOn = true
		g.gasCost = map[string]int{"transfer": costs[0], "burn": costs[1], "escrow": costs[2], "reclaim": costs[3],
			"amend": costs[4], "allow": costs[5], "withdraw": costs[6]}
	}
	g.mincom = int(mincom)
	g.rci, g.rbl, g.mrs, g.mbs = int(pick(1, 1, 1, 2, 5)), int(pick(0, 1, 1, 3)), int(pick(1, 2, 4, 4)), int(pick(1, 2, 4))
	g.msgHeavy = r.Chance(1, 4)
	escmsg := pick(0, 1, 1)
	if g.msgHeavy {
		escmsg = pick(1, 1, 1, 0)
		g.res.Count("case:runtime-message-heavy")
	}
	comthr := pick(0, 0, 0, 100, 100000)
	if g.comHeavy {
		comthr = pick(0, 0, 0, 1)
	}
	params += fmt.Sprintf(" rci=%d rbl=%d mrs=%d mbs=%d comthr=%d escmsg=%d", g.rci, g.rbl, g.mrs, g.mbs,
		comthr, escmsg)
	if strings.Contains(params, "wP=0 wV=0 wN=0") {
		params = strings.Replace(params, "wP=0", "wP=1", 1)
	}
	// accounts
	type acc struct {
		g, aB, aTS, dB, dTS *big.Int
		com                 string
	}
	accs := make([]*acc, len(c.addrs))
	dels := map[[2]int]*big.Int{}
	var debs [][4]string
	total := new(big.Int)
	scale := func() *big.Int {
		switch r.Intn(4) {
		case 0:
			return big.NewInt(int64(r.Intn(100)))
		case 1:
			return new(big.Int).Lsh(big.NewInt(int64(1+r.Intn(1000))), uint(r.Intn(70)))
		}
		return big.NewInt(int64(r.Intn(1000000)))
	}
	var lines []string
	for _, i := range c.entities {
		a := &acc{g: scale(), aB: big.NewInt(0), aTS: big.NewInt(0), dB: big.NewInt(0), dTS: big.NewInt(0), com: "-"}
		if wind || g.comHeavy {
			a.g.Add(a.g, big.NewInt(int64(10000+r.Intn(1000000))))
		}
		full := mincom == 100000
		if r.Chance(1, 2) || (g.comHeavy && r.Chance(1, 2)) {
			a.com, full = g.genSchedule(epoch)
		}
		if full {
			g.fullCom = append(g.fullCom, i)
		}
		accs[i] = a
	}
	// runtime accounts (callers of runtime messages): a general balance only
	for _, i := range c.runtimes {
		accs[i] = &acc{g: scale(), aB: big.NewInt(0), aTS: big.NewInt(0), dB: big.NewInt(0), dTS: big.NewInt(0), com: "-"}
		if r.Chance(2, 3) {
			accs[i].g.Add(accs[i].g, big.NewInt(int64(1000+r.Intn(100000))))
		}
		total.Add(total, accs[i].g)
		lines = append(lines, fmt.Sprintf("acct %d %s 0 0 0 0 0 - -", i, accs[i].g))
	}
	// active delegations
	for k := 0; k < r.Intn(7); k++ {
		e, d := g.entity(), g.entity()
		sh := scale()
		if sh.Sign() == 0 {
			continue
		}
		key := [2]int{e, d}
		if dels[key] == nil {
			dels[key] = new(big.Int)
		}
		dels[key].Add(dels[key], sh)
		accs[e].aTS.Add(accs[e].aTS, sh)
	}
	for k := 0; k < r.Intn(4); k++ {
		e, d := g.entity(), g.entity()
		sh := scale()
		ep := epoch + r.Intn(4)
		dup := false
		for _, x := range debs {
			dup = dup || (x[0] == strconv.Itoa(ep) && x[1] == strconv.Itoa(d) && x[2] == strconv.Itoa(e))
		}
		if sh.Sign() == 0 || dup {
			continue
		}
		debs = append(debs, [4]string{strconv.Itoa(ep), strconv.Itoa(d), strconv.Itoa(e), sh.String()})
		accs[e].dTS.Add(accs[e].dTS, sh)
	}
	for _, i := range c.entities {
		a := accs[i]
		price := func(ts *big.Int) *big.Int {
			if ts.Sign() == 0 {
				return big.NewInt(0)
			}
			switch r.Intn(5) {
			case 0:
				return new(big.Int).Set(ts)
			case 1:
				return big.NewInt(0) // slashed to zero
			case 2:
				return new(big.Int).Add(new(big.Int).Mul(ts, big.NewInt(int64(1+r.Intn(3)))), big.NewInt(int64(r.Intn(5))))
			}
			return scale()
		}
		a.aB, a.dB = price(a.aTS), price(a.dTS)
		total.Add(total, a.g).Add(total, a.aB).Add(total, a.dB)
		lines = append(lines, fmt.Sprintf("acct %d %s %d %s %s %s %s %s -", i, a.g, r.Intn(3), a.aB, a.aTS, a.dB, a.dTS, a.com))
	}
	common, gov, lbf := scale(), scale(), big.NewInt(int64(r.Intn(1000)))
	if r.Chance(1, 3) {
		common = new(big.Int).Lsh(big.NewInt(1), 80)
	}
	if spec == "c10" && r.Chance(1, 3) {
		common = big.NewInt(int64(r.Intn(3))) // depleted common pool
	}
	total.Add(total, common).Add(total, gov).Add(total, lbf)
	bad := r.Chance(1, 25)
	if bad {
		total.Add(total, big.NewInt(1))
	}
	head := fmt.Sprintf("genesis n=%d %s burn=%d reserved=%s pkorder=%s validators=%s common=%s gov=%s lbf=%s total=%s epoch=%d",
		len(c.addrs), params, c.burn, list(c.reserved), list(c.pkOrder), list(c.valEntity), common, gov, lbf, total, epoch)
	g.emit(head)
	for _, l := range lines {
		g.emit(l)
	}
	var dkeys [][2]int
	for k := range dels {
		dkeys = append(dkeys, k)
	}
	sort.Slice(dkeys, func(i, j int) bool {
		return dkeys[i][0] < dkeys[j][0] || (dkeys[i][0] == dkeys[j][0] && dkeys[i][1] < dkeys[j][1])
	})
	for _, k := range dkeys {
		g.emit(fmt.Sprintf("del %d %d %s", k[0], k[1], dels[k]))
	}
	for _, x := range debs {
		g.emit(fmt.Sprintf("deb %s %s %s %s", x[0], x[1], x[2], x[3]))
	}
	if g.emit("init") {
		return g.ops
	}
	g.curEpoch = epoch
	if wind && !bad {
		return g.windDown(int(debint))
	}
	// blocks
	for b := 0; b < nblocks; b++ {
		if r.Chance(1, 3) || (g.comHeavy && r.Chance(1, 2)) {
			epoch += 1 + r.Intn(2)
			g.emit(fmt.Sprintf("epoch %d", epoch))
		}
		if g.begin(b) {
			return g.ops
		}
		if spec == "c10" && len(g.fullCom) > 0 && r.Chance(1, 25) {
			// a validator entity with 100% commission whose escrow is wiped out by slashing, then
			// rewarded through TransferFromCommon (roothash reward distribution)
			e := g.fullCom[r.Intn(len(g.fullCom))]
			if g.emit(fmt.Sprintf("slash %d %s", e, new(big.Int).Lsh(big.NewInt(1), 255))) ||
				g.emit(fmt.Sprintf("tfc %d %d 1", e, 1+r.Intn(1000))) {
				return g.ops
			}
		}
		ntx := r.Intn(7)
		if g.comHeavy {
			ntx += r.Intn(5)
		}
		for k := 0; k < ntx; k++ {
			if g.msgHeavy && r.Chance(1, 2) {
				if g.msg() {
					return g.ops
				}
				continue
			}
			if g.comHeavy && r.Chance(1, 5) {
				// rewards, so that the rate in force at this epoch decides a commission
				var stop bool
				if r.Bool() {
					stop = g.emit(fmt.Sprintf("addrewards %d %d %s", epoch, []int{1000, 100000000}[r.Intn(2)], list(theCast.entities)))
				} else {
					stop = g.emit(fmt.Sprintf("tfc %d %s 1", g.entity(), g.amount(big.NewInt(int64(r.Intn(100000))))))
				}
				if stop {
					return g.ops
				}
				continue
			}
			if r.Chance(1, 6) {
				var stop bool
				switch r.Intn(9) {
				case 6, 7, 8:
					stop = g.msg()
				case 0:
					stop = g.emit(fmt.Sprintf("slash %d %s", g.entity(), g.amount(big.NewInt(int64(r.Intn(100000))))))
				case 1:
					stop = g.emit(fmt.Sprintf("tfc %d %s %d", g.entity(), g.amount(big.NewInt(int64(r.Intn(100000)))), r.Intn(2)))
				case 2:
					if op := g.aimRewards(epoch); op != "" {
						stop = g.emit(op)
						break
					}
					stop = g.emit(fmt.Sprintf("addrewards %d %d %s", epoch, []int{0, 1, 1000, 100000000}[r.Intn(4)], list([]int{g.entity(), g.entity()})))
				case 3:
					stop = g.emit(fmt.Sprintf("govdep %d %s", g.entity(), g.amount(big.NewInt(int64(r.Intn(1000))))))
				case 4:
					stop = g.emit(fmt.Sprintf("govref %d %s", g.entity(), g.amount(big.NewInt(int64(r.Intn(1000))))))
				default:
					stop = g.emit(fmt.Sprintf("govdisc %s", g.amount(big.NewInt(int64(r.Intn(1000))))))
				}
				if stop {
					return g.ops
				}
				continue
			}
			if g.tx() {
				return g.ops
			}
		}
		if g.emit("end") {
			return g.ops
		}
	}
	return g.ops
}

func main() {
	seed := flag.Uint64("seed", 1, "seed")
	cases := flag.Int("cases", 100, "number of generated histories")
	nblocks := flag.Int("blocks", 12, "blocks per history")
	out := flag.String("out", "-", "result file")
	replay := flag.String("replay", "", "replay file (one op per line)")
	corpus := flag.String("corpus", "", "corpus dir, run first")
	specFlag := flag.String("spec", "c05", "property to report on: c05 (conservation; model + invariant), c08 (failed tx changes only fee+nonce; model-free), c10 (no block content halts block execution; model-free)")
	flag.Parse()
	spec = *specFlag
	if spec != "c05" && spec != "c08" && spec != "c10" {
		fmt.Fprintln(os.Stderr, "unknown -spec", spec)
		os.Exit(2)
	}

	res := hlib.NewResult("ledgerdrv", *seed)
	res.Rule = "generated block histories on the real staking application (mock application state): genesis with random parameters (min balances, fee-split weights, reward schedule and factors, signing threshold, commission schedule rules (change interval, bound lead, step limits, minimum rate), multi-step commission schedules incl. already started steps and 0/100% rates, per-operation gas costs, slashing with/without freeze, disabled transfers/delegation, escrow messages allowed or not), 6 entities + 2 runtime accounts + common-pool and burn address as targets, 5 validators (one entity with two nodes); per block: optional epoch change, BeginBlock with proposer / vote participation / evidence, up to 6 (commission-heavy: 10) operations: transactions (transfer incl. self and to burn/reserved address, burn, add escrow incl. self-delegation, reclaim, allow, withdraw, amend commission schedule — acceptable amendments and amendments spoiled in exactly one respect; valid and invalid nonces, zero/huge/boundary amounts, fees, gas limits at every charge boundary), runtime messages (transfer, withdraw, add escrow, reclaim escrow from a runtime account), direct state movers (SlashEscrow, TransferFromCommon, AddRewards, governance deposit/refund/discard), EndBlock. 40% of the histories (spec c05) are wind-down histories: one to three escrow accounts, each with 2-4 delegators and (4/5) its own self-delegation, the escrow address chosen before / between / after its delegators' addresses, everybody escrows, then reclaims (all / half / part / one share; several rounds, within one epoch or across epochs) so that many debonding delegations of one escrow account end at the same epoch, with rewards and slashing in between, debonding period 1-4, epochs advancing by one or more until the queue is empty. A history is non-trivial when at least one value-moving operation succeeded; distinct by op list. counters history:debond:* give the number of histories whose completed batches showed each ordering pattern"
	res.Explanation = "after every operation the full real ledger (incl. commission schedules) is dumped; the Lean model compares it account by account (DIVERGE) and evaluates the conservation invariant + supply rule on the real dump (SPEC); after every epoch transition the debond-exactly-once clause is evaluated on the real dump with the debonding-queue model of the C15 theorems (SPEC debond-exactly-once); the repository's own sanity helpers are run at block boundaries as a second opinion (INTREE)"

	seenSig := map[string]bool{}
	runOne := func(ops []string, caseSeed uint64, minimize bool) {
		d, lines := check(ops)
		res.Cases++
		res.Ops += len(lines)
		if d == "" {
			return
		}
		if spec != "c05" {
			// model-free specs: one failure per signature (a listed finding must not use up the budget)
			if sg := signature2(d); seenSig[sg] {
				res.Count("repeat:" + sg)
				return
			} else {
				seenSig[sg] = true
			}
		}
		min := ops
		if minimize {
			// keep the genesis part (up to and including `init`), shrink the history
			k := 0
			for i, o := range ops {
				if strings.HasPrefix(o, "init") {
					k = i + 1
				}
			}
			head, tail := ops[:k], ops[k:]
			tail = hlib.Shrink(tail, func(c []string) bool {
				dd, _ := check(append(append([]string{}, head...), c...))
				return dd != "" && signature2(dd) == signature2(d)
			})
			min = append(append([]string{}, head...), tail...)
			d, _ = check(min)
		}
		kind := "divergence"
		switch {
		case strings.HasPrefix(d, "SPEC"), strings.HasPrefix(d, "INTREE"), strings.HasPrefix(d, "C08 "), strings.HasPrefix(d, "C10 "):
			kind = "spec"
		case strings.Contains(d, "panicked"):
			kind = "panic"
		}
		res.Fail(hlib.Failure{Kind: kind, Detail: d, Case: min, Seed: caseSeed, Sig: signature2(d)})
	}

	if *replay != "" {
		ops, err := hlib.ReadLines(*replay)
		if err != nil {
			fmt.Fprintln(os.Stderr, err)
			os.Exit(2)
		}
		runOne(ops, 0, false)
		res.Write(*out)
		return
	}
	if *corpus != "" {
		ents, _ := os.ReadDir(*corpus)
		for _, e := range ents {
			if !strings.HasPrefix(e.Name(), "ledger-") {
				continue
			}
			if spec != "c05" && !strings.HasPrefix(e.Name(), "ledger-"+spec) {
				continue
			}
			if ops, err := hlib.ReadLines(*corpus + "/" + e.Name()); err == nil && len(ops) > 0 {
				runOne(ops, 0, false)
				res.Count("corpus")
			}
		}
	}
	rng := hlib.NewRng(*seed)
	seen := map[string]bool{}
	for i := 0; i < *cases; i++ {
		cr := rng.Fork()
		cs := cr.Seed()
		before := map[string]int{}
		for k, v := range res.Counters {
			before[k] = v
		}
		ops := genCase(cr, 2+cr.Intn(*nblocks), res)
		moved := false
		for k, v := range res.Counters {
			if strings.HasSuffix(k, ":ok") && (strings.HasPrefix(k, "tx:") || strings.HasPrefix(k, "op:slash") || strings.HasPrefix(k, "op:tfc") || strings.HasPrefix(k, "op:gov")) && v > before[k] {
				moved = true
			}
		}
		key := strings.Join(ops, ";")
		if moved && !seen[key] {
			seen[key] = true
			res.Distinct++
		}
		if i < 2 {
			var s []string
			for _, o := range ops {
				if !strings.HasPrefix(o, "acct") && !strings.HasPrefix(o, "del") && !strings.HasPrefix(o, "deb") && len(s) < 8 {
					s = append(s, o)
				}
			}
			res.AddSample(s)
		}
		runOne(ops, cs, true)
		if len(res.Failures) >= 5 {
			break
		}
	}
	for k, v := range globalNotes {
		res.CountN(k, v)
	}
	res.Write(*out)
}
