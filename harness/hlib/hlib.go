// Package hlib holds what all correspondence drivers share: the PRNG every random
// choice derives from, the pipe to the Lean model executable, delta-debugging and
// the result file format read by /verif/check.
package hlib

import (
	"bytes"
	"encoding/json"
	"fmt"
	"os"
	"os/exec"
	"sort"
	"strings"
)

// Rng is splitmix64; one state per run, derived from VERIF_SEED.
type Rng struct{ s uint64 }

func NewRng(seed uint64) *Rng {
	// Pass the seed through the finalizer twice so that neighbouring seeds give unrelated
	// streams (a plain affine map of the seed would make seed+1 a one-step shift of seed).
	r := &Rng{s: seed ^ 0x5DEECE66D1234567}
	a := r.Next()
	b := r.Next()
	return &Rng{s: a ^ (b << 1) ^ 0x1234567}
}

func (r *Rng) Next() uint64 {
	r.s += 0x9E3779B97F4A7C15
	z := r.s
	z = (z ^ (z >> 30)) * 0xBF58476D1CE4E5B9
	z = (z ^ (z >> 27)) * 0x94D049BB133111EB
	return z ^ (z >> 31)
}

func (r *Rng) Intn(n int) int {
	if n <= 0 {
		return 0
	}
	return int(r.Next() % uint64(n))
}

func (r *Rng) Bool() bool { return r.Next()&1 == 1 }

// Chance returns true with probability num/den.
func (r *Rng) Chance(num, den int) bool { return r.Intn(den) < num }

// Fork derives an independent generator (so that a case replays from its own seed).
func (r *Rng) Fork() *Rng { return &Rng{s: r.Next()} }

func (r *Rng) Seed() uint64 { return r.s }

func FromState(s uint64) *Rng { return &Rng{s: s} }

// ModelPath returns the compiled Lean model executable for a driver mode (`om_<mode>`).
func ModelPath(mode string) string {
	dir := os.Getenv("VERIF_MODEL_DIR")
	if dir == "" {
		dir = "/verif/lean/.lake/build/bin"
	}
	return dir + "/om_" + mode
}

// RunModel pipes the lines to the model executable `om_<mode>` (with optional arguments)
// and returns one answer per line.
func RunModel(mode string, lines []string, args ...string) ([]string, error) {
	cmd := exec.Command(ModelPath(mode), args...)
	cmd.Stdin = strings.NewReader(strings.Join(lines, "\n") + "\n")
	var out, errb bytes.Buffer
	cmd.Stdout = &out
	cmd.Stderr = &errb
	if err := cmd.Run(); err != nil {
		return nil, fmt.Errorf("model %s: %v: %s", mode, err, errb.String())
	}
	res := strings.Split(strings.TrimRight(out.String(), "\n"), "\n")
	if len(lines) == 0 {
		return nil, nil
	}
	if len(res) != len(lines) {
		return res, fmt.Errorf("model %s answered %d lines for %d inputs: %s", mode, len(res), len(lines), errb.String())
	}
	return res, nil
}

// FirstBad returns the index of the first answer that is not `want`-prefixed, or -1.
func FirstBad(answers []string, okPrefix string) int {
	for i, a := range answers {
		if !strings.HasPrefix(a, okPrefix) {
			return i
		}
	}
	return -1
}

// Shrink is ddmin over a list: returns a (locally) minimal sublist on which fails still holds.
func Shrink[T any](ops []T, fails func([]T) bool) []T {
	cur := append([]T(nil), ops...)
	n := 2
	for len(cur) >= 2 {
		chunk := (len(cur) + n - 1) / n
		reduced := false
		for i := 0; i < len(cur); i += chunk {
			j := i + chunk
			if j > len(cur) {
				j = len(cur)
			}
			cand := append(append([]T(nil), cur[:i]...), cur[j:]...)
			if len(cand) > 0 && fails(cand) {
				cur = cand
				if n > 2 {
					n--
				}
				reduced = true
				break
			}
		}
		if !reduced {
			if chunk == 1 {
				break
			}
			n *= 2
			if n > len(cur) {
				n = len(cur)
			}
		}
	}
	return cur
}

// Failure describes one failing case.
type Failure struct {
	Kind   string   `json:"kind"`   // "divergence" | "spec" | "panic"
	Detail string   `json:"detail"` // what differed
	Case   []string `json:"case"`   // minimized op list (replayable)
	Seed   uint64   `json:"case_seed"`
	Sig    string   `json:"signature"` // short stable signature used for known-findings matching
}

// Result is what a driver writes for /verif/check.
type Result struct {
	Driver      string         `json:"driver"`
	Seed        uint64         `json:"seed"`
	Cases       int            `json:"cases"`
	Ops         int            `json:"ops"`
	Distinct    int            `json:"distinct_nontrivial"`
	Rule        string         `json:"rule"`
	Counters    map[string]int `json:"counters"`
	Samples     []any          `json:"samples"`
	Failures    []Failure      `json:"failures"`
	Exhaustive  bool           `json:"exhaustive,omitempty"`
	Explanation string         `json:"explanation,omitempty"`
}

func NewResult(driver string, seed uint64) *Result {
	return &Result{Driver: driver, Seed: seed, Counters: map[string]int{}}
}

func (r *Result) Count(k string) { r.Counters[k]++ }

func (r *Result) CountN(k string, n int) { r.Counters[k] += n }

func (r *Result) AddSample(s any) {
	if len(r.Samples) < 3 {
		r.Samples = append(r.Samples, s)
	}
}

func (r *Result) Fail(f Failure) {
	if len(r.Failures) < 20 {
		r.Failures = append(r.Failures, f)
	}
}

func (r *Result) Write(path string) {
	b, _ := json.MarshalIndent(r, "", " ")
	if path == "" || path == "-" {
		fmt.Println(string(b))
		return
	}
	if err := os.WriteFile(path, b, 0o644); err != nil {
		fmt.Fprintln(os.Stderr, "write result:", err)
		os.Exit(2)
	}
}

// SortedKeys returns the keys of a string-keyed map in order.
func SortedKeys[V any](m map[string]V) []string {
	ks := make([]string, 0, len(m))
	for k := range m {
		ks = append(ks, k)
	}
	sort.Strings(ks)
	return ks
}

// ReadLines reads a replay/corpus file: one op per line, '#' comments ignored.
func ReadLines(path string) ([]string, error) {
	b, err := os.ReadFile(path)
	if err != nil {
		return nil, err
	}
	var out []string
	for _, l := range strings.Split(string(b), "\n") {
		l = strings.TrimSpace(l)
		if l == "" || strings.HasPrefix(l, "#") {
			continue
		}
		out = append(out, l)
	}
	return out, nil
}
