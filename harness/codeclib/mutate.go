// Package codeclib is shared by the C16 drivers (codecdrv: model correspondence for the
// hand-written MKVS decoders; codecxdrv: exploration of the third-party decode boundaries):
// the mutation generator, allocation measurement and the watchdog.
package codeclib

import (
	"encoding/binary"

	"verifharness/hlib"
)

// Interesting byte values (prefixes of the node codec, CBOR headers, sign bits).
var interesting8 = []byte{0x00, 0x01, 0x02, 0x03, 0x7f, 0x80, 0xff, 0x18, 0x19, 0x1a, 0x1b, 0x1f,
	0x40, 0x5f, 0x5b, 0x7b, 0x7f, 0x80, 0x9f, 0x9b, 0xa0, 0xbf, 0xbb, 0xc0, 0xc2, 0xd8, 0xf6, 0xf7, 0xfb, 0xff}

var interesting16 = []uint16{0, 1, 2, 7, 8, 9, 0x7f, 0x80, 0xff, 0x100, 0x101, 0x3fff, 0x7fff, 0x8000, 0xfff7, 0xfff8, 0xfff9, 0xfffe, 0xffff}

var interesting32 = []uint32{0, 1, 2, 0x7f, 0x80, 0xff, 0x100, 0xffff, 0x10000, 0x7fffffff, 0x80000000, 0xfffffff0, 0xfffffffe, 0xffffffff}

var interesting64 = []uint64{0, 1, 0xffffffff, 0x100000000, 0x7fffffffffffffff, 0x8000000000000000, 0xfffffffffffffffe, 0xffffffffffffffff}

// MutationKinds names the mutation operators (for the distribution counters).
var MutationKinds = []string{"bitflip", "setbyte", "truncate", "extend", "delete", "insert", "dup",
	"len16", "len32", "len64", "lenrel", "splice", "lenword", "cbor-count", "cbor-indef", "cbor-tag", "cbor-nest", "cbor-dupkey", "cbor-huge", "cbor-swap-major", "cbor-replace-item", "cbor-drop-pair"}

// RandBytes returns n bytes.
func RandBytes(r *hlib.Rng, n int) []byte {
	b := make([]byte, n)
	for i := 0; i < n; i += 8 {
		x := r.Next()
		for j := 0; j < 8 && i+j < n; j++ {
			b[i+j] = byte(x >> (8 * j))
		}
	}
	return b
}

// cborItem is the header of one CBOR data item found by the walker.
type cborItem struct {
	off    int    // offset of the initial byte
	hdr    int    // header length (initial byte + argument)
	major  byte   // major type
	arg    uint64 // argument (count/length/value)
	end    int    // offset just past the complete item (children included)
	parent int    // index of the enclosing item or -1
	isKey  bool   // item is a map key
}

// walkCBOR lists the data items of a well-formed definite-length CBOR prefix of b
// (stops silently at the first thing it does not understand).
func walkCBOR(b []byte) []cborItem {
	var items []cborItem
	var rec func(off, parent int, isKey bool, depth int) int
	rec = func(off, parent int, isKey bool, depth int) int {
		if off >= len(b) || depth > 64 {
			return -1
		}
		ib := b[off]
		major, ai := ib>>5, ib&0x1f
		hdr := 1
		var arg uint64
		switch {
		case ai < 24:
			arg = uint64(ai)
		case ai == 24:
			hdr = 2
		case ai == 25:
			hdr = 3
		case ai == 26:
			hdr = 5
		case ai == 27:
			hdr = 9
		default:
			return -1
		}
		if off+hdr > len(b) {
			return -1
		}
		switch hdr {
		case 2:
			arg = uint64(b[off+1])
		case 3:
			arg = uint64(binary.BigEndian.Uint16(b[off+1:]))
		case 5:
			arg = uint64(binary.BigEndian.Uint32(b[off+1:]))
		case 9:
			arg = binary.BigEndian.Uint64(b[off+1:])
		}
		idx := len(items)
		items = append(items, cborItem{off: off, hdr: hdr, major: major, arg: arg, parent: parent, isKey: isKey})
		end := off + hdr
		switch major {
		case 2, 3:
			if arg > uint64(len(b)-end) {
				return -1
			}
			end += int(arg)
		case 4:
			for i := uint64(0); i < arg; i++ {
				if end = rec(end, idx, false, depth+1); end < 0 {
					return -1
				}
			}
		case 5:
			for i := uint64(0); i < arg; i++ {
				if end = rec(end, idx, true, depth+1); end < 0 {
					return -1
				}
				if end = rec(end, idx, false, depth+1); end < 0 {
					return -1
				}
			}
		case 6:
			if end = rec(end, idx, false, depth+1); end < 0 {
				return -1
			}
		}
		items[idx].end = end
		return end
	}
	rec(0, -1, false, 0)
	// Items whose end stayed 0 are incomplete (truncated input); indices (parent links) refer
	// to this unfiltered list, callers skip the incomplete ones.
	return items
}

func cborHeader(major byte, arg uint64, width int) []byte {
	switch width {
	case 1:
		if arg < 24 {
			return []byte{major<<5 | byte(arg)}
		}
		fallthrough
	case 2:
		return []byte{major<<5 | 24, byte(arg)}
	case 3:
		return []byte{major<<5 | 25, byte(arg >> 8), byte(arg)}
	case 5:
		h := []byte{major<<5 | 26, 0, 0, 0, 0}
		binary.BigEndian.PutUint32(h[1:], uint32(arg))
		return h
	default:
		h := []byte{major<<5 | 27, 0, 0, 0, 0, 0, 0, 0, 0}
		binary.BigEndian.PutUint64(h[1:], arg)
		return h
	}
}

func replace(b []byte, from, to int, with []byte) []byte {
	out := make([]byte, 0, len(b)-(to-from)+len(with))
	out = append(out, b[:from]...)
	out = append(out, with...)
	out = append(out, b[to:]...)
	return out
}

// Mutate applies one mutation operator to seed and returns the mutant and the operator name.
// `other` is a second seed for splicing (may be nil). Generic operators work on any format;
// the cbor-* operators use the item boundaries found by walkCBOR and fall back to a generic
// operator when the seed has no CBOR structure.
func Mutate(r *hlib.Rng, seed, other []byte, cborAware bool) ([]byte, string) {
	b := append([]byte(nil), seed...)
	n := len(b)
	nk := 13 // generic operators; the cbor-* ones follow
	if cborAware {
		nk = len(MutationKinds)
	}
	for tries := 0; tries < 8; tries++ {
		kind := MutationKinds[r.Intn(nk)]
		switch kind {
		case "bitflip":
			if n == 0 {
				continue
			}
			i := r.Intn(n)
			b[i] ^= 1 << uint(r.Intn(8))
			return b, kind
		case "setbyte":
			if n == 0 {
				continue
			}
			b[r.Intn(n)] = interesting8[r.Intn(len(interesting8))]
			return b, kind
		case "truncate":
			if n == 0 {
				continue
			}
			cut := r.Intn(n)
			if r.Chance(1, 2) && n > 4 {
				cut = n - 1 - r.Intn(4)
			}
			return b[:cut], kind
		case "extend":
			ext := 1 + r.Intn(8)
			if r.Chance(1, 4) {
				ext = 60 + r.Intn(10) // around 2*hash.Size
			}
			return append(b, RandBytes(r, ext)...), kind
		case "delete":
			if n < 2 {
				continue
			}
			i := r.Intn(n)
			l := 1 + r.Intn(min(8, n-i))
			return replace(b, i, i+l, nil), kind
		case "insert":
			i := r.Intn(n + 1)
			ins := RandBytes(r, 1+r.Intn(8))
			if r.Chance(1, 2) {
				for j := range ins {
					ins[j] = interesting8[r.Intn(len(interesting8))]
				}
			}
			return replace(b, i, i, ins), kind
		case "dup":
			if n < 2 {
				continue
			}
			i := r.Intn(n)
			l := 1 + r.Intn(min(32, n-i))
			return replace(b, i, i, b[i:i+l]), kind
		case "len16":
			if n < 2 {
				continue
			}
			i := r.Intn(n - 1)
			v := interesting16[r.Intn(len(interesting16))]
			if r.Bool() {
				binary.LittleEndian.PutUint16(b[i:], v)
			} else {
				binary.BigEndian.PutUint16(b[i:], v)
			}
			return b, kind
		case "len32":
			if n < 4 {
				continue
			}
			i := r.Intn(n - 3)
			v := interesting32[r.Intn(len(interesting32))]
			if r.Bool() {
				binary.LittleEndian.PutUint32(b[i:], v)
			} else {
				binary.BigEndian.PutUint32(b[i:], v)
			}
			return b, kind
		case "len64":
			if n < 8 {
				continue
			}
			i := r.Intn(n - 7)
			v := interesting64[r.Intn(len(interesting64))]
			if r.Bool() {
				binary.LittleEndian.PutUint64(b[i:], v)
			} else {
				binary.BigEndian.PutUint64(b[i:], v)
			}
			return b, kind
		case "lenrel":
			// Overwrite a 16/32-bit little-endian window with a value close to the remaining length.
			if n < 4 {
				continue
			}
			i := r.Intn(n - 3)
			rem := n - i
			v := rem + r.Intn(9) - 6
			if v < 0 {
				v = 0
			}
			if r.Bool() {
				binary.LittleEndian.PutUint16(b[i:], uint16(v))
			} else {
				binary.LittleEndian.PutUint32(b[i:], uint32(v))
			}
			return b, kind
		case "splice":
			if len(other) == 0 || n == 0 {
				continue
			}
			i := r.Intn(n)
			j := r.Intn(len(other))
			return append(b[:i:i], other[j:]...), kind
		case "lenword":
			// A 2-byte-aligned 16/32-bit word (either byte order) set to a boundary length:
			// 0, 1, around the remaining / total length, 2^15, 2^31, the top of the range.
			if n < 2 {
				continue
			}
			return MutateLenWord(r, b), kind
		}
		// CBOR-aware operators.
		items := walkCBOR(b)
		var complete []int
		for i, x := range items {
			if x.end > 0 {
				complete = append(complete, i)
			}
		}
		if len(complete) == 0 {
			continue
		}
		it := items[complete[r.Intn(len(complete))]]
		switch kind {
		case "cbor-count":
			// Change the declared count/length of an item by a little or to something huge.
			var na uint64
			switch r.Intn(4) {
			case 0:
				na = it.arg + 1
			case 1:
				if it.arg > 0 {
					na = it.arg - 1
				}
			case 2:
				na = interesting64[r.Intn(len(interesting64))]
			default:
				na = uint64(interesting32[r.Intn(len(interesting32))])
			}
			w := it.hdr
			if na >= 24 && w == 1 {
				w = []int{2, 3, 5, 9}[r.Intn(4)]
			}
			return replace(b, it.off, it.off+it.hdr, cborHeader(it.major, na, w)), kind
		case "cbor-indef":
			// Indefinite-length form of a string/array/map (forbidden by the decode options).
			if it.major < 2 || it.major > 5 {
				continue
			}
			out := replace(b, it.off, it.off+it.hdr, []byte{it.major<<5 | 31})
			if r.Chance(3, 4) {
				out = replace(out, it.end-it.hdr+1, it.end-it.hdr+1, []byte{0xff})
			}
			return out, kind
		case "cbor-tag":
			tag := []uint64{0, 1, 2, 3, 24, 55799, 0xffffffffffffffff}[r.Intn(7)]
			return replace(b, it.off, it.off, cborHeader(6, tag, 9-8*r.Intn(2))), kind
		case "cbor-nest":
			// Wrap an item in N nested arrays (or maps with the item as key).
			depth := []int{1, 4, 16, 31, 32, 33, 64, 200, 5000}[r.Intn(9)]
			wrap := make([]byte, depth)
			for i := range wrap {
				wrap[i] = 0x81
			}
			return replace(b, it.off, it.off, wrap), kind
		case "cbor-dupkey":
			// Duplicate one key/value pair of a map and fix up the count.
			var maps []cborItem
			for _, m := range items {
				if m.end > 0 && m.major == 5 && m.arg > 0 && m.hdr == 1 && m.arg < 23 {
					maps = append(maps, m)
				}
			}
			if len(maps) == 0 {
				continue
			}
			m := maps[r.Intn(len(maps))]
			mi := -1
			for i, x := range items {
				if x.off == m.off {
					mi = i
				}
			}
			var keys []int
			for i, x := range items {
				if x.end > 0 && x.parent == mi && x.isKey {
					keys = append(keys, i)
				}
			}
			if len(keys) == 0 {
				continue
			}
			k := keys[r.Intn(len(keys))]
			// The value is the next sibling: it starts where the key ends.
			valEnd := -1
			for _, x := range items {
				if x.parent == mi && !x.isKey && x.off == items[k].end {
					valEnd = x.end
				}
			}
			if valEnd < 0 {
				continue
			}
			pair := append([]byte(nil), b[items[k].off:valEnd]...)
			out := replace(b, valEnd, valEnd, pair)
			out[m.off] = 5<<5 | byte(m.arg+1)
			return out, kind
		case "cbor-huge":
			// Replace an item by a header that declares a huge byte string / array / map.
			major := []byte{2, 3, 4, 5}[r.Intn(4)]
			cnt := []uint64{1 << 16, 9_999_999, 10_000_000, 10_000_001, 1 << 31, 1<<32 - 1, 1 << 40, 1<<63 - 1, 1<<64 - 1}[r.Intn(9)]
			out := replace(b, it.off, it.end, cborHeader(major, cnt, 9))
			if r.Chance(1, 2) {
				out = append(out, RandBytes(r, r.Intn(64))...)
			}
			return out, kind
		case "cbor-replace-item":
			// Replace a complete item by null / zero / an empty container / an empty string
			// (nil pointers and empty collections where the decoder's user expects content).
			with := [][]byte{{0xf6}, {0xf6}, {0xf6}, {0x00}, {0x80}, {0xa0}, {0x40}, {0x60}, {0xf7}, {0xf4}, {0x20}}[r.Intn(11)]
			return replace(b, it.off, it.end, with), kind
		case "cbor-drop-pair":
			// Remove one key/value pair of a small map and fix up the count (missing fields).
			if !it.isKey || it.parent < 0 {
				continue
			}
			m := items[it.parent]
			if m.major != 5 || m.hdr != 1 || m.arg == 0 || m.arg > 23 {
				continue
			}
			valEnd := -1
			for _, x := range items {
				if x.parent == it.parent && !x.isKey && x.off == it.end {
					valEnd = x.end
				}
			}
			if valEnd < 0 {
				continue
			}
			out := replace(b, it.off, valEnd, nil)
			out[m.off] = 5<<5 | byte(m.arg-1)
			return out, kind
		case "cbor-swap-major":
			nm := byte(r.Intn(8))
			b[it.off] = nm<<5 | b[it.off]&0x1f
			return b, kind
		}
	}
	// Fallback: flip one bit or append one byte.
	if n > 0 {
		b[r.Intn(n)] ^= 0x80
		return b, "bitflip"
	}
	return []byte{byte(r.Intn(256))}, "extend"
}

// StructMutant is one deterministic structural mutant of a CBOR seed.
type StructMutant struct {
	Data []byte
	What string
}

// StructSweep lists, for a well-formed CBOR seed, every mutant obtained by (a) removing ONE key/value
// pair of a map (count fixed up: a missing optional or required field) and (b) replacing ONE complete
// data item by null (a nil pointer where the decoder's user expects content), at every nesting level,
// at most `budget` mutants (spread evenly over the items when there are more). Deterministic: the
// validation code behind a decoder meets every single missing / null field of every seed on every run.
func StructSweep(seed []byte, budget int) []StructMutant {
	items := walkCBOR(seed)
	var out []StructMutant
	for i, it := range items {
		if it.end <= 0 {
			continue
		}
		if i > 0 {
			out = append(out, StructMutant{replace(seed, it.off, it.end, []byte{0xf6}), "null-item"})
		}
		if !it.isKey || it.parent < 0 {
			continue
		}
		m := items[it.parent]
		if m.major != 5 || m.hdr != 1 || m.arg == 0 || m.arg > 23 {
			continue
		}
		valEnd := -1
		for _, x := range items {
			if x.parent == it.parent && !x.isKey && x.off == it.end {
				valEnd = x.end
			}
		}
		if valEnd < 0 {
			continue
		}
		d := replace(seed, it.off, valEnd, nil)
		d[m.off] = 5<<5 | byte(m.arg-1)
		out = append(out, StructMutant{d, "drop-pair"})
	}
	if budget > 0 && len(out) > budget {
		var sel []StructMutant
		for i := 0; i < budget; i++ {
			sel = append(sel, out[i*len(out)/budget])
		}
		out = sel
	}
	return out
}
