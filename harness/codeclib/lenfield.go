package codeclib

// Length-field mutation: boundary values for declared sizes, the structural map of the length
// fields of a PCS attestation quote (every nesting level), and a generic sweep that treats every
// 2-byte-aligned 16/32-bit word of a binary encoding as a potential length field.

import (
	"encoding/binary"
	"sort"

	"verifharness/hlib"
)

// LenField is one length (or type/discriminator) field inside a binary encoding.
type LenField struct {
	Off   int    // offset of the field
	Width int    // 2 or 4 bytes
	BE    bool   // big endian (little endian otherwise)
	Name  string // which field this is (for reports and counters)
}

// BoundaryLens lists the values a declared size of `width` bytes is set to: 0, 1, the values
// around the number of bytes that really follow the field (`rem`) and around the total input
// length, the sign-bit and type-width boundaries, and the top of the range 2^(8*width)-1-k in
// steps (k = 0..16 one by one, then every 16 up to 0x400: sums offset+size that wrap around
// 2^32 for any offset below 1 KiB + 16).
func BoundaryLens(width, total, rem int) []uint64 {
	set := map[uint64]bool{}
	max := uint64(1)<<(8*uint(width)) - 1
	add := func(v int64) {
		if v >= 0 && uint64(v) <= max {
			set[uint64(v)] = true
		}
	}
	for _, v := range []int64{0, 1, 2, 0x7f, 0x80, 0xff, 0x100, 0x7fff, 0x8000, 0xffff} {
		add(v)
	}
	for _, base := range []int{rem, total} {
		for d := -2; d <= 2; d++ {
			add(int64(base + d))
		}
	}
	if width == 4 {
		for _, v := range []int64{0x10000, 0x10001, 0xffffff, 0x1000000, 0x7ffffffe, 0x7fffffff, 0x80000000, 0x80000001} {
			add(v)
		}
		// sizes that make (small offset + size) wrap around 2^31 and 2^32
		for _, top := range []int64{0x80000000, 0x100000000} {
			for k := int64(1); k <= 16; k++ {
				add(top - k)
			}
			for k := int64(32); k <= 0x400; k += 16 {
				add(top - k)
			}
			for _, k := range []int64{0x800, 0x1000, 0x2000, 0x10000} {
				add(top - k)
			}
		}
		add(int64(max) - int64(rem))
		add(int64(max) - int64(rem) + 1)
		add(int64(max) - int64(total) + 1)
	} else {
		for k := int64(0); k <= 8; k++ {
			add(0xffff - k)
			add(0x8000 - k)
		}
		add(0xffff - int64(rem))
		add(0x10000 - int64(rem))
	}
	out := make([]uint64, 0, len(set))
	for v := range set {
		out = append(out, v)
	}
	sort.Slice(out, func(i, j int) bool { return out[i] < out[j] })
	return out
}

// SetField returns a copy of b with the field set to v (truncated to the field width).
func SetField(b []byte, f LenField, v uint64) []byte {
	out := append([]byte(nil), b...)
	if f.Off < 0 || f.Off+f.Width > len(out) {
		return out
	}
	switch {
	case f.Width == 2 && f.BE:
		binary.BigEndian.PutUint16(out[f.Off:], uint16(v))
	case f.Width == 2:
		binary.LittleEndian.PutUint16(out[f.Off:], uint16(v))
	case f.BE:
		binary.BigEndian.PutUint32(out[f.Off:], uint32(v))
	default:
		binary.LittleEndian.PutUint32(out[f.Off:], uint32(v))
	}
	return out
}

// QuoteLenFields locates every length and type field of a PCS (DCAP) attestation quote, at every
// nesting level, following go/common/sgx/pcs/quote.go:
//
//	header (48) | report body (384 SGX, 584 TDX) | u32 signature data length | signature data:
//	  signature (64) | attestation key (64) |
//	  [v4 only: u16 certification data type (6) | u32 certification data size |]
//	  QE report (384) | QE report signature (64) | u16 auth data size | auth data |
//	  u16 certification data type | u32 certification data size | certification data
//
// Fields that do not fit into b are left out. The header's version, attestation key type and TEE
// type words are included as type fields (they select the layout).
func QuoteLenFields(b []byte) []LenField {
	var out []LenField
	add := func(off, width int, name string) bool {
		if off < 0 || off+width > len(b) {
			return false
		}
		out = append(out, LenField{Off: off, Width: width, Name: name})
		return true
	}
	if len(b) < 48 {
		return nil
	}
	add(0, 2, "version")
	add(2, 2, "att-key-type")
	add(4, 4, "tee-type")
	version := binary.LittleEndian.Uint16(b[0:])
	body := 384
	if version == 4 && binary.LittleEndian.Uint32(b[4:]) == 0x81 {
		body = 584
	}
	off := 48 + body
	if !add(off, 4, "sig-data-len") {
		return out
	}
	d0 := off + 4
	qe0 := d0 + 128
	if version == 4 {
		add(d0+128, 2, "outer-cert-data-type")
		add(d0+130, 4, "outer-cert-data-size")
		qe0 = d0 + 134
	}
	if !add(qe0+448, 2, "qe-auth-data-size") {
		return out
	}
	auth := int(binary.LittleEndian.Uint16(b[qe0+448:]))
	add(qe0+450+auth, 2, "cert-data-type")
	add(qe0+452+auth, 4, "cert-data-size")
	return out
}

// FrameLenFields: a stream of frames with 4-byte big-endian length prefixes (runtime host
// protocol): the prefix of every complete frame and of the first incomplete one.
func FrameLenFields(b []byte) []LenField {
	var out []LenField
	for off, i := 0, 0; off+4 <= len(b) && i < 64; i++ {
		out = append(out, LenField{Off: off, Width: 4, BE: true, Name: "frame-len"})
		n := int(binary.BigEndian.Uint32(b[off:]))
		if n > len(b)-off-4 {
			break
		}
		off += 4 + n
	}
	return out
}

// LenMutant is one boundary-length mutant of a seed.
type LenMutant struct {
	Data []byte
	What string // field name and value
}

// FieldSweep enumerates, for every given field of seed: every boundary value; the same with the
// tail resized so that exactly value-1 / value / value+1 bytes follow (small values only); and
// truncations at the field's start, inside it and right after it (truncated tails at every
// structural boundary).
func FieldSweep(seed []byte, fields []LenField) []LenMutant {
	var out []LenMutant
	for _, f := range fields {
		rem := len(seed) - f.Off - f.Width
		for _, v := range BoundaryLens(f.Width, len(seed), rem) {
			out = append(out, LenMutant{SetField(seed, f, v), f.Name})
		}
		for _, v := range []int{0, 1, 2, 31, 32, 33, 64, 404, 405} {
			for d := -1; d <= 1; d++ {
				n := f.Off + f.Width + v + d
				if n < f.Off+f.Width {
					continue
				}
				m := SetField(seed, f, uint64(v))
				if n <= len(m) {
					m = m[:n]
				} else if n-len(m) <= 4096 {
					m = append(m, make([]byte, n-len(m))...)
				}
				out = append(out, LenMutant{m, f.Name + "+resize"})
			}
		}
		for c := f.Off; c <= f.Off+f.Width && c <= len(seed); c++ {
			out = append(out, LenMutant{append([]byte(nil), seed[:c]...), f.Name + "+truncate"})
		}
	}
	return out
}

// sweepValues32 / sweepValues16: the short list used by the generic word sweep.
var (
	sweepValues32 = []uint32{0, 0x7fffffff, 0x80000000, 0xfffffc00, 0xfffffff0, 0xffffffff}
	sweepValues16 = []uint16{0, 0x7fff, 0x8000, 0xffff}
)

// WordSweep treats every 2-byte-aligned position of seed as a potential 16- or 32-bit length
// field (both byte orders) and sets it to a short list of boundary values. `from` rotates the
// starting offset and `budget` bounds the number of mutants, so that successive runs (seeds)
// cover different parts of large inputs.
func WordSweep(seed []byte, from, budget int) []LenMutant {
	var out []LenMutant
	n := len(seed) &^ 1
	if n < 2 {
		return nil
	}
	for i := 0; i < n/2 && len(out) < budget; i++ {
		off := (from*2 + i*2) % n
		for _, be := range []bool{false, true} {
			if off+4 <= len(seed) {
				for _, v := range sweepValues32 {
					out = append(out, LenMutant{SetField(seed, LenField{Off: off, Width: 4, BE: be}, uint64(v)), "word32"})
				}
			}
			for _, v := range sweepValues16 {
				out = append(out, LenMutant{SetField(seed, LenField{Off: off, Width: 2, BE: be}, uint64(v)), "word16"})
			}
		}
	}
	return out
}

// MutateLenWord is the random form of the sweeps: one 2-byte-aligned 16/32-bit word (either byte
// order) of seed is set to a boundary length.
func MutateLenWord(r *hlib.Rng, seed []byte) []byte {
	n := len(seed)
	if n < 2 {
		return append([]byte(nil), seed...)
	}
	f := LenField{Off: 2 * r.Intn(n/2), Width: 2, BE: r.Bool()}
	if r.Bool() && f.Off+4 <= n {
		f.Width = 4
	}
	vals := BoundaryLens(f.Width, n, n-f.Off-f.Width)
	return SetField(seed, f, vals[r.Intn(len(vals))])
}

// MutateField sets one of the given fields to a boundary length.
func MutateField(r *hlib.Rng, seed []byte, fields []LenField) ([]byte, string) {
	if len(fields) == 0 {
		return MutateLenWord(r, seed), "lenword"
	}
	f := fields[r.Intn(len(fields))]
	vals := BoundaryLens(f.Width, len(seed), len(seed)-f.Off-f.Width)
	return SetField(seed, f, vals[r.Intn(len(vals))]), "lenfield:" + f.Name
}
