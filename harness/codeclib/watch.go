package codeclib

import (
	"fmt"
	"os"
	"runtime"
	"runtime/debug"
	"runtime/metrics"
	"sync/atomic"
	"time"
)

// Guard measures one call: panic (recovered), wall time and bytes allocated.
type Guard struct {
	Panic   string
	Stack   string
	Elapsed time.Duration
	Alloc   uint64 // bytes allocated during the call (runtime.MemStats.TotalAlloc delta)
}

// Run executes f on the calling goroutine and measures it. Exact allocation accounting
// needs ReadMemStats (stop-the-world, ~20us); pass exact=false to use the cheaper
// runtime/metrics counter, which still sees every large (>32 KiB) allocation immediately.
func Run(exact bool, f func()) (g Guard) {
	var a0, a1 uint64
	if exact {
		var ms runtime.MemStats
		runtime.ReadMemStats(&ms)
		a0 = ms.TotalAlloc
	} else {
		a0 = heapAllocs()
	}
	t0 := time.Now()
	func() {
		defer func() {
			if r := recover(); r != nil {
				g.Panic = fmt.Sprint(r)
				g.Stack = string(debug.Stack())
			}
		}()
		f()
	}()
	g.Elapsed = time.Since(t0)
	if exact {
		var ms runtime.MemStats
		runtime.ReadMemStats(&ms)
		a1 = ms.TotalAlloc
	} else {
		a1 = heapAllocs()
	}
	if a1 > a0 {
		g.Alloc = a1 - a0
	}
	return
}

var allocSample = []metrics.Sample{{Name: "/gc/heap/allocs:bytes"}}

func heapAllocs() uint64 {
	metrics.Read(allocSample)
	return allocSample[0].Value.Uint64()
}

// Watchdog supervises the process: the driver publishes the case it is about to run with
// Begin and clears it with End. If one case runs longer than `limit`, or the live heap
// exceeds `heapLimit` bytes, onTrip is called from the watchdog goroutine with the
// offending case and the reason ("timeout" / "memory"); onTrip is expected to write the
// result file and exit.
type Watchdog struct {
	cur   atomic.Pointer[string]
	since atomic.Int64
}

func (w *Watchdog) Begin(c string) {
	w.since.Store(time.Now().UnixNano())
	w.cur.Store(&c)
}

func (w *Watchdog) End() { w.cur.Store(nil) }

func StartWatchdog(limit time.Duration, heapLimit uint64, onTrip func(c, reason string)) *Watchdog {
	w := &Watchdog{}
	// Soft limit for the Go runtime (makes the GC work harder before the hard check trips).
	debug.SetMemoryLimit(int64(heapLimit))
	go func() {
		heap := []metrics.Sample{{Name: "/memory/classes/heap/objects:bytes"}}
		for {
			time.Sleep(20 * time.Millisecond)
			c := w.cur.Load()
			if c == nil {
				continue
			}
			if time.Duration(time.Now().UnixNano()-w.since.Load()) > limit {
				onTrip(*c, "timeout")
				os.Exit(3)
			}
			metrics.Read(heap)
			if heap[0].Value.Uint64() > heapLimit {
				onTrip(*c, "memory")
				os.Exit(3)
			}
		}
	}()
	return w
}
