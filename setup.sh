#!/bin/sh
# Build the framework from files on disk only (offline).
set -e
cd "$(dirname "$0")"
export GOFLAGS=-mod=mod GOPROXY=off
(cd lean && lake build && lake build $(grep -o "om_[a-z]*" lakefile.toml))
mkdir -p harness/bin
cp /repo/go/go.sum harness/go.sum
for d in harness/cmd/*/; do
  n=$(basename "$d")
  (cd harness && go build -tags verif -o bin/$n ./cmd/$n)
done
if [ -f tools/gen/go.mod ]; then
  cp /repo/go/go.sum tools/gen/go.sum 2>/dev/null || true
  (cd tools/gen && go build -o ../../harness/bin/gen .)
fi
echo setup-ok
