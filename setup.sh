#!/bin/sh
# Build the framework from files on disk only (offline). Warm-up: every check rebuilds what it
# needs from /repo's working tree itself, so a failure here is reported but not fatal per target.
cd "$(dirname "$0")"
export GOFLAGS=-mod=mod GOPROXY=off
rc=0
# 1. regenerate lean/Generated from /repo (needed before the proof modules that import it build)
mkdir -p harness/bin
if [ -f tools/gen/go.mod ]; then
  (cd tools/gen && go build -o ../../harness/bin/gen .) || rc=1
fi
python3 - <<'PY' || rc=1
import sys, os
sys.path.insert(0, os.getcwd())
from verifcheck import core
ok = True
for f in sorted(os.listdir("checks")):
    if f.endswith(".py"):
        if f[:-3] not in open("checks/READY").read().split(): continue
        cfg = core.load_config(f[:-3])
        if cfg.get("regen") and not cfg.get("not_applicable"):
            good, msg = core.regen(cfg, {})
            if not good:
                print("regen failed for", f, msg[-500:]); ok = False
sys.exit(0 if ok else 1)
PY
# 2. Lean: models, theorems, executables of the registered checks
(cd lean && lake build $(python3 ../tools/targets.py lake)) || rc=1
# 3. Go drivers against /repo with hooks on
cp /repo/go/go.sum harness/go.sum
for n in $(python3 tools/targets.py drivers); do
  (cd harness && go build -tags verif -o bin/$n ./cmd/$n) || rc=1
done
[ $rc = 0 ] && echo setup-ok || echo setup-had-failures
exit $rc
