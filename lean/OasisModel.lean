import OasisModel.Proto
import OasisModel.TxPool.Sched
import OasisModel.TxPool.Driver
