import OasisProofs.Props.C20
