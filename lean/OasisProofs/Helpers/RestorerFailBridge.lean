import OasisModel.Mkvs.Chunk
import OasisModel.Mkvs.RestorerFail
/-
Tie between the restorer model of `OasisModel/Mkvs/Chunk.lean` (`rsBegin`/`rsFinish`: the outcome of the
import is computed from the chunk, database = set of node hashes) and the outcome-driven machine of
`OasisModel/Mkvs/RestorerFail.lean` (`fBegin`/`fFinish`): when the outcome fed to the latter is the
classification of what `restoreChunkM` returns, both machines return the same result and keep the same
`current`/`pending`/`gen`. (`restoreChunkM` never yields a `transient` outcome; the new machine adds it.)
-/
namespace OasisProofs.RestorerFail
open OasisModel.Mkvs OasisModel.Mkvs.RestorerFail

/-- Classification of the result of `restoreChunkM` (chunk.go: ErrChunkCorrupted /
ErrChunkProofVerificationFailed / nil). -/
def outcomeOf : Except RErr (List Bytes) → Outcome
  | .ok _ => .ok
  | .error .proofFailed => .proofFailed
  | .error _ => .corrupted

def resOfErr : RErr → Res
  | .noRestore => .noRestore
  | .inProgress => .noRestore
  | .alreadyRestored => .alreadyRestored
  | .chunkNotFound => .chunkNotFound
  | .corrupted => .corrupted
  | .proofFailed => .proofFailed

def resOf : Except RErr Bool → Res
  | .ok b => .done b
  | .error e => resOfErr e

/-- The bookkeeping part of a `Restorer`, with a given imported set. -/
def absR (rs : Restorer) (imp : List Nat) : FRestorer :=
  { current := rs.current, pending := rs.pending, gen := rs.gen, imported := imp }

/-- Same bookkeeping (everything but the database / imported set). -/
def SameBook (rs : Restorer) (f : FRestorer) : Prop :=
  f.current = rs.current ∧ f.pending = rs.pending ∧ f.gen = rs.gen

theorem restoreChunkM_error (H : Bytes → Bytes) (root : Bytes) (db : List Bytes) (c : ChunkData) (e : RErr)
    (h : restoreChunkM H root db c = .error e) : e = .corrupted ∨ e = .proofFailed := by
  unfold restoreChunkM at h
  split at h
  · simp at h; exact Or.inl h.symm
  · split at h
    · simp at h; exact Or.inr h.symm
    · split at h
      · simp at h; exact Or.inr h.symm
      · simp at h

theorem filter_ne_eq (l : List Nat) (idx : Nat) :
    l.filter (· ≠ idx) = l.filter (fun i => i != idx) := by
  congr 1; funext i; by_cases h : i = idx <;> simp [h]

/-- Phase 1 agrees. -/
theorem rsBegin_bridge (rs : Restorer) (imp : List Nat) (idx : Nat) :
    fBegin (absR rs imp) idx =
      (match rsBegin rs idx with
       | .ok g => .ok g
       | .error e => .error (resOfErr e)) := by
  unfold fBegin rsBegin absR
  cases rs.current with
  | none => rfl
  | some n =>
    simp only
    split
    · rfl
    · split <;> rfl

/-- Import + phase 2 agree, with the outcome classified from `restoreChunkM`. -/
theorem rsFinish_bridge (H : Bytes → Bytes) (root : Bytes) (rs : Restorer) (imp : List Nat)
    (idx seen : Nat) (c : ChunkData) :
    let o := outcomeOf (restoreChunkM H root rs.db c)
    (fFinish (absR rs imp) idx seen o).1 = resOf (rsFinish H root rs idx seen c).1 ∧
      SameBook (rsFinish H root rs idx seen c).2 (fFinish (absR rs imp) idx seen o).2 := by
  intro o
  unfold rsFinish
  cases hr : restoreChunkM H root rs.db c with
  | error e =>
    rcases restoreChunkM_error H root rs.db c e hr with rfl | rfl
    · have ho : o = .corrupted := by simp [o, hr, outcomeOf]
      rw [ho]; simp [fFinish, resOf, resOfErr, SameBook, absR]
    · have ho : o = .proofFailed := by simp [o, hr, outcomeOf]
      rw [ho]; simp [fFinish, resOf, resOfErr, SameBook, absR, fAbort, rsAbort]
  | ok db =>
    have ho : o = .ok := by simp [o, hr, outcomeOf]
    rw [ho]
    simp only [fFinish, absR, filter_ne_eq]
    by_cases hg : (rs.current.isNone || rs.gen != seen) = true
    · simp only [hg, ↓reduceIte]; simp [resOf, resOfErr, SameBook]
    · simp only [hg]
      by_cases he : (rs.pending.filter (fun i => i != idx)).isEmpty = true
      · simp only [he, ↓reduceIte]; simp [resOf, SameBook]
      · simp only [he]; simp [resOf, SameBook]

end OasisProofs.RestorerFail
