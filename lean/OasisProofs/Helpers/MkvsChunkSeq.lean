import OasisProofs.Helpers.MkvsIterBridge
/-
C12, the sequential chunker: it visits the items of the tree in order, chunk after chunk; every visited
item's chain of ancestors is in the proof builder of its chunk; it terminates (more fuel never changes
the result) and covers the tree.
-/
namespace OasisProofs.MkvsIter
open OasisModel.Mkvs OasisProofs.Mkvs OasisProofs.MkvsChunk

/-- The chain from the root to the item is included. -/
def Visited (incl : List Bytes) (root : HTrie) (kv : KV) : Prop := ∃ as, ChainCov incl [] root as kv

theorem visited_mono {incl incl' : List Bytes} (h : ∀ x ∈ incl, x ∈ incl') {root : HTrie} {kv : KV}
    (hv : Visited incl root kv) : Visited incl' root kv := by
  obtain ⟨as, hc⟩ := hv
  exact ⟨as, chainCov_mono h hc⟩

theorem itOK_visited {root : HTrie} {it : Iter} {x : KV} (h : ItOK root it x) : Visited it.b.incl root x :=
  ⟨_, h.chain⟩

/-- Result of filling a chunk, starting on item `x` with `rest` still to come. -/
def FillPost (root : HTrie) (x : KV) (rest : List KV) (it' : Iter) : Prop :=
  (it'.cur = none ∧ ∀ kv ∈ x :: rest, Visited it'.b.incl root kv) ∨
  (∃ pre y suf, x :: rest = pre ++ y :: suf ∧ (∀ kv ∈ pre, Visited it'.b.incl root kv) ∧
    ItOK root it' y ∧ itRem it' = suf)

theorem seqFill_none (size : Nat) : ∀ (n : Nat) (it : Iter), it.cur = none → seqFill size n it = it := by
  intro n
  cases n with
  | zero => intro it _; rfl
  | succ n => intro it h; simp [seqFill, h]

theorem seqFill_spec (size : Nat) (root : HTrie) : ∀ (n : Nat) (it : Iter) (x : KV) (rest : List KV),
    ItOK root it x → itRem it = rest →
    (∀ z ∈ it.b.incl, z ∈ (seqFill size n it).b.incl) ∧ FillPost root x rest (seqFill size n it) := by
  intro n
  induction n with
  | zero =>
    intro it x rest hok hrem
    exact ⟨fun z hz => hz, Or.inr ⟨[], x, rest, rfl, fun kv hkv => by simp at hkv, hok, hrem⟩⟩
  | succ n ih =>
    intro it x rest hok hrem
    simp only [seqFill]
    split
    · have hn := itNext_spec 0 root it x hok
      rw [hrem] at hn
      cases rest with
      | nil =>
        simp only at hn
        rw [seqFill_none size n _ hn.2]
        refine ⟨hn.1, Or.inl ⟨hn.2, ?_⟩⟩
        intro kv hkv
        simp only [List.mem_singleton] at hkv
        subst hkv
        exact visited_mono hn.1 (itOK_visited hok)
      | cons y ys =>
        simp only at hn
        obtain ⟨hmono, hok', hrem'⟩ := hn
        obtain ⟨i1, i2⟩ := ih _ y ys hok' hrem'
        refine ⟨fun z hz => i1 _ (hmono z hz), ?_⟩
        have hx : Visited (seqFill size n (itNext 0 it)).b.incl root x :=
          visited_mono (fun z hz => i1 _ (hmono z hz)) (itOK_visited hok)
        rcases i2 with ⟨hc, hall⟩ | ⟨pre, y', suf, he, hpre, hok'', hrem''⟩
        · refine Or.inl ⟨hc, ?_⟩
          intro kv hkv
          rcases List.mem_cons.1 hkv with rfl | hkv
          · exact hx
          · exact hall kv hkv
        · refine Or.inr ⟨x :: pre, y', suf, by rw [he]; rfl, ?_, hok'', hrem''⟩
          intro kv hkv
          rcases List.mem_cons.1 hkv with rfl | hkv
          · exact hx
          · exact hpre kv hkv
    · exact ⟨fun z hz => hz, Or.inr ⟨[], x, rest, rfl, fun kv hkv => by simp at hkv, hok, hrem⟩⟩

/-- **One chunk of the sequential chunker**: starting at `offset`, with `F` the items with key ≥ offset:
the chunk's included set visits a non-empty prefix of `F` (all of it if the next offset is `none`), and
the next offset is the key of the first item not visited. -/
theorem seqChunkI_spec (fuel size : Nat) (root : HTrie) (hwf : WF root.erase) (offset : Bytes) :
    match firstGE offset root.erase.toList with
    | [] => (seqChunkI fuel size root offset).2 = none
    | x :: rest => ∃ pre suf, x :: rest = pre ++ suf ∧ pre ≠ [] ∧
        (∀ kv ∈ pre, Visited (seqChunkI fuel size root offset).1 root kv) ∧
        (seqChunkI fuel size root offset).2 = suf.head?.map (·.1) := by
  have hs := itSeek_spec 0 root hwf offset {}
  cases hf : firstGE offset root.erase.toList with
  | nil =>
    rw [hf] at hs
    simp only at hs ⊢
    simp only [seqChunkI, seqFill_none size fuel _ hs.2, hs.2, Option.isSome_none, Bool.false_eq_true, if_false]
  | cons x rest =>
    rw [hf] at hs
    simp only at hs ⊢
    obtain ⟨_, hok, hrem⟩ := hs
    obtain ⟨_, hfill⟩ := seqFill_spec size root fuel _ x rest hok hrem
    simp only [seqChunkI]
    rcases hfill with ⟨hc, hall⟩ | ⟨pre, y, suf, he, hpre, hok', hrem'⟩
    · refine ⟨x :: rest, [], by simp, by simp, hall, ?_⟩
      simp [hc]
    · have hn := itNext_spec 0 root _ y hok'
      rw [hrem'] at hn
      refine ⟨pre ++ [y], suf, by rw [he]; simp, by simp, ?_, ?_⟩
      · intro kv hkv
        rcases List.mem_append.1 hkv with hkv | hkv
        · exact hpre kv hkv
        · simp only [List.mem_singleton] at hkv; subst hkv; exact itOK_visited hok'
      · simp only [hok'.cur, Option.isSome_some, if_true]
        cases suf with
        | nil => simp only at hn; simp [hn.2]
        | cons z zs => simp only at hn; simp [hn.2.1.cur]

/-! ### all chunks -/

theorem firstGE_at : ∀ (A : List KV) (k v : Bytes) (B : List KV), SMap.Sorted (A ++ (k, v) :: B) →
    firstGE k (A ++ (k, v) :: B) = (k, v) :: B := by
  intro A
  induction A with
  | nil =>
    intro k v B _
    simp [firstGE, bytes_lt_irrefl]
  | cons a A ih =>
    intro k v B hs
    obtain ⟨h1, h2⟩ := smap_sorted_cons.1 hs
    have : a.1 < k := h1 (k, v) (by simp)
    simp only [List.cons_append, firstGE, List.dropWhile_cons, this, decide_true, if_true]
    exact ih k v B h2

theorem firstGE_suffix (off : Bytes) (L : List KV) : ∃ D, L = D ++ firstGE off L :=
  ⟨_, (List.takeWhile_append_dropWhile (p := fun x => decide (x.1 < off)) (l := L)).symm⟩

/-- **Every item is visited by some chunk**: starting at `offset`, all items with key ≥ offset are
visited by the included set of some chunk, provided the outer loop has more fuel than items left. -/
theorem seqIncls_visit (fuel size : Nat) (root : HTrie) (hwf : WF root.erase) : ∀ (n : Nat) (offset : Bytes),
    (firstGE offset root.erase.toList).length < n →
    ∀ kv ∈ firstGE offset root.erase.toList,
      ∃ incl ∈ seqInclsF fuel size root n offset, Visited incl root kv := by
  intro n
  induction n with
  | zero => intro off h; omega
  | succ n ih =>
    intro off hlen kv hkv
    have hspec := seqChunkI_spec fuel size root hwf off
    have hsorted := wf_sorted hwf
    cases hf : firstGE off root.erase.toList with
    | nil => rw [hf] at hkv; simp at hkv
    | cons x rest =>
      rw [hf] at hspec hkv hlen
      simp only at hspec
      obtain ⟨pre, suf, he, hne, hvis, hnext⟩ := hspec
      rw [he] at hkv
      simp only [seqInclsF]
      rcases List.mem_append.1 hkv with hkv | hkv
      · refine ⟨(seqChunkI fuel size root off).1, ?_, hvis kv hkv⟩
        split <;> simp
      · cases suf with
        | nil => simp at hkv
        | cons y ys =>
          obtain ⟨k', v'⟩ := y
          simp only [List.head?_cons, Option.map_some] at hnext
          rw [hnext]
          simp only
          obtain ⟨D, hD⟩ := firstGE_suffix off root.erase.toList
          rw [hf, he] at hD
          have hat : firstGE k' root.erase.toList = (k', v') :: ys := by
            have : root.erase.toList = (D ++ pre) ++ (k', v') :: ys := by rw [hD]; simp
            rw [this]
            exact firstGE_at _ _ _ _ (by rw [← this]; exact hsorted)
          have hl : ((k', v') :: ys).length < n := by
            have : (x :: rest).length = pre.length + ((k', v') :: ys).length := by rw [he]; simp
            have : 0 < pre.length := List.length_pos_iff.2 hne
            omega
          obtain ⟨incl, hi, hv⟩ := ih k' (by rw [hat]; exact hl) kv (by rw [hat]; exact hkv)
          exact ⟨incl, List.mem_cons_of_mem _ hi, hv⟩

/-! ### from visited items to covered positions -/

theorem chainCov_mem {incl : List Bytes} {as : List Atom} {anc : List HTrie} {t : HTrie} {kv : KV}
    (hc : ChainCov incl anc t as kv) : kv ∈ t.erase.toList := by
  induction hc with
  | leaf _ => simp [HTrie.erase, Trie.toList]
  | own _ _ _ _ => simp [HTrie.erase, Trie.toList]
  | left _ _ _ _ ih => exact mem_toList_node.2 (Or.inr (Or.inl ih))
  | right _ _ _ _ ih => exact mem_toList_node.2 (Or.inr (Or.inr ih))

theorem subPos_toList (t : HTrie) : ∀ (anc : List HTrie) (pos : Pos), pos ∈ subPos anc t →
    ∀ x ∈ pos.2.erase.toList, x ∈ t.erase.toList := by
  induction t with
  | nil => intro anc pos h; simp [subPos] at h
  | leaf hc k v => intro anc pos h; simp only [subPos, List.mem_singleton] at h; subst h; exact fun x hx => hx
  | node hc lab lf hlf l r ihl ihr =>
    intro anc pos h x hx
    simp only [subPos, List.mem_cons, List.mem_append] at h
    rcases h with h | h | h
    · subst h; exact hx
    · exact mem_toList_node.2 (Or.inr (Or.inl (ihl _ pos h x hx)))
    · exact mem_toList_node.2 (Or.inr (Or.inr (ihr _ pos h x hx)))

/-- If the chain to an item is included, every position whose subtree holds the item is covered. -/
theorem chainCov_positions {incl : List Bytes} {as : List Atom} {anc : List HTrie} {t : HTrie} {kv : KV}
    (hc : ChainCov incl anc t as kv) : ∀ (p : Bits), WFAt p t.erase →
    ∀ pos ∈ subPos anc t, kv ∈ pos.2.erase.toList → Covered incl pos := by
  induction hc with
  | leaf hcv =>
    intro p _ pos hpos _
    simp only [subPos, List.mem_singleton] at hpos
    subst hpos; exact hcv
  | @own anc h lab kv hlf l r a hcv _ _ _ =>
    intro p hwf pos hpos hkv
    obtain ⟨hlfk, _, hlb, _, hrb, _⟩ := hwf
    simp only [subPos, List.mem_cons, List.mem_append] at hpos
    rcases hpos with hpos | hpos | hpos
    · subst hpos; exact hcv
    · exfalso
      have := hlb kv (subPos_toList l _ pos hpos kv hkv)
      exact ne_of_longer (hlfk kv rfl) this rfl
    · exfalso
      have := hrb kv (subPos_toList r _ pos hpos kv hkv)
      exact ne_of_longer (hlfk kv rfl) this rfl
  | @left anc h lab lf hlf l r a as kv hcv _ _ hrec ih =>
    intro p hwf pos hpos hkv
    have hmem := chainCov_mem hrec
    obtain ⟨_, hl, hlb, _, hrb, _⟩ := hwf
    simp only [subPos, List.mem_cons, List.mem_append] at hpos
    rcases hpos with hpos | hpos | hpos
    · subst hpos; exact hcv
    · exact ih _ hl pos hpos hkv
    · exfalso
      have h1 := hlb kv hmem
      have h2 := hrb kv (subPos_toList r _ pos hpos kv hkv)
      exact ne_of_bit (b := false) h1 h2 rfl
  | @right anc h lab lf hlf l r a as kv hcv _ _ hrec ih =>
    intro p hwf pos hpos hkv
    have hmem := chainCov_mem hrec
    obtain ⟨_, _, hlb, hr, hrb, _⟩ := hwf
    simp only [subPos, List.mem_cons, List.mem_append] at hpos
    rcases hpos with hpos | hpos | hpos
    · subst hpos; exact hcv
    · exfalso
      have h1 := hrb kv hmem
      have h2 := hlb kv (subPos_toList l _ pos hpos kv hkv)
      exact ne_of_bit (b := true) h1 h2 rfl
    · exact ih _ hr pos hpos hkv

/-- Every position of a canonical tree holds some item. -/
theorem subPos_nonempty (t : HTrie) : ∀ (anc : List HTrie) (p : Bits), WFAt p t.erase →
    ∀ pos ∈ subPos anc t, ∃ kv, kv ∈ pos.2.erase.toList := by
  induction t with
  | nil => intro anc p _ pos h; simp [subPos] at h
  | leaf hc k v =>
    intro anc p _ pos h
    simp only [subPos, List.mem_singleton] at h
    subst h
    exact ⟨(k, v), by simp [HTrie.erase, Trie.toList]⟩
  | node hc lab lf hlf l r ihl ihr =>
    intro anc p hwf pos h
    simp only [subPos, List.mem_cons, List.mem_append] at h
    rcases h with h | h | h
    · subst h
      have hne := wfAt_toList_ne_nil hwf (by simp [HTrie.erase])
      obtain ⟨kv, hkv⟩ := List.exists_mem_of_ne_nil _ hne
      exact ⟨kv, hkv⟩
    · exact ihl _ _ hwf.2.1 pos h
    · exact ihr _ _ hwf.2.2.2.1 pos h

/-- **Cover, in terms of positions** (sequential chunker). -/
theorem seq_positions_covered (size : Nat) (root : HTrie) (hwf : WF root.erase)
    (hcount : root.erase.toList.length < seqFuel root) :
    ∀ pos ∈ subPos [] root, ∃ incl ∈ seqInclsF (seqFuel root) size root (seqFuel root) [], Covered incl pos := by
  intro pos hpos
  obtain ⟨kv, hkv⟩ := subPos_nonempty root [] [] hwf pos hpos
  have hkvL : kv ∈ root.erase.toList := subPos_toList root [] pos hpos kv hkv
  have hall : firstGE [] root.erase.toList = root.erase.toList :=
    firstGE_none_below (fun x _ => by simp)
  obtain ⟨incl, hi, ⟨as, hc⟩⟩ := seqIncls_visit (seqFuel root) size root hwf (seqFuel root) []
    (by rw [hall]; exact hcount) kv (by rw [hall]; exact hkvL)
  exact ⟨incl, hi, chainCov_positions hc [] hwf pos hpos hkv⟩

/-! ### chunk lists, fuel -/

theorem count_eq_length (t : HTrie) : t.count = t.erase.toList.length := by
  induction t with
  | nil => rfl
  | leaf h k v => rfl
  | node h lab lf hlf l r ihl ihr =>
    simp only [HTrie.count, HTrie.erase, Trie.toList, List.length_append, ihl, ihr]
    cases lf <;> simp <;> omega

theorem seqLoop_eq_map (eh : Bytes) (size : Nat) (root : HTrie) : ∀ (n : Nat) (off : Bytes),
    seqLoop eh size root n off =
      (seqInclsF (seqFuel root) size root n off).map (fun incl => buildFrom 0 incl root) := by
  intro n
  induction n with
  | zero => intro off; rfl
  | succ n ih =>
    intro off
    simp only [seqLoop, seqInclsF, seqChunk]
    cases h : (seqChunkI (seqFuel root) size root off).2 with
    | none => simp [build]
    | some next => simp [build, ih]

/-- The chunk list computed with explicit fuels for the inner and the outer loop. -/
def seqChunksF (f1 f2 : Nat) (size : Nat) (root : HTrie) : List (List (Option Bytes)) :=
  (seqInclsF f1 size root f2 []).map (fun incl => buildFrom 0 incl root)

theorem seqChunks_eq (eh : Bytes) (size : Nat) (root : HTrie) :
    seqChunks eh size root = seqChunksF (seqFuel root) (seqFuel root) size root := by
  simp only [seqChunks, seqChunksF, seqLoop_eq_map]

theorem seqFill_fuel (size : Nat) (root : HTrie) : ∀ (n m : Nat) (it : Iter) (x : KV) (rest : List KV),
    ItOK root it x → itRem it = rest → rest.length < n → rest.length < m →
    seqFill size n it = seqFill size m it := by
  intro n
  induction n with
  | zero => intro m it x rest _ _ h; omega
  | succ n ih =>
    intro m it x rest hok hrem hn hm
    cases m with
    | zero => omega
    | succ m =>
      simp only [seqFill]
      split
      · have hnx := itNext_spec 0 root it x hok
        rw [hrem] at hnx
        cases rest with
        | nil =>
          simp only at hnx
          rw [seqFill_none size n _ hnx.2, seqFill_none size m _ hnx.2]
        | cons y ys =>
          simp only at hnx
          simp only [List.length_cons] at hn hm
          exact ih m _ y ys hnx.2.1 hnx.2.2 (by omega) (by omega)
      · rfl

theorem firstGE_length_le (off : Bytes) (L : List KV) : (firstGE off L).length ≤ L.length :=
  (firstGE_sublist off L).length_le

theorem seqChunkI_fuel (f1 f2 size : Nat) (root : HTrie) (hwf : WF root.erase) (off : Bytes)
    (h1 : root.erase.toList.length < f1) (h2 : root.erase.toList.length < f2) :
    seqChunkI f1 size root off = seqChunkI f2 size root off := by
  have hs := itSeek_spec 0 root hwf off {}
  have hle := firstGE_length_le off root.erase.toList
  cases hf : firstGE off root.erase.toList with
  | nil =>
    rw [hf] at hs
    simp only [seqChunkI, seqFill_none size _ _ hs.2]
  | cons x rest =>
    rw [hf] at hs hle
    simp only [List.length_cons] at hle
    obtain ⟨_, hok, hrem⟩ := hs
    simp only [seqChunkI, seqFill_fuel size root f1 f2 _ x rest hok hrem (by omega) (by omega)]

theorem seqInclsF_fuel (f1 f2 size : Nat) (root : HTrie) (hwf : WF root.erase)
    (h1 : root.erase.toList.length < f1) (h2 : root.erase.toList.length < f2) : ∀ (n m : Nat) (off : Bytes),
    (firstGE off root.erase.toList).length < n → (firstGE off root.erase.toList).length < m →
    seqInclsF f1 size root n off = seqInclsF f2 size root m off := by
  intro n
  induction n with
  | zero => intro m off h; omega
  | succ n ih =>
    intro m off hn hm
    cases m with
    | zero => omega
    | succ m =>
      simp only [seqInclsF, seqChunkI_fuel f1 f2 size root hwf off h1 h2]
      have hspec := seqChunkI_spec f2 size root hwf off
      have hsorted := wf_sorted hwf
      cases hnx : (seqChunkI f2 size root off).2 with
      | none => rfl
      | some k' =>
        simp only
        congr 1
        cases hf : firstGE off root.erase.toList with
        | nil => rw [hf] at hspec; simp only at hspec; rw [hspec] at hnx; simp at hnx
        | cons x rest =>
          rw [hf] at hspec hn hm
          simp only at hspec
          obtain ⟨pre, suf, he, hne, _, hnext⟩ := hspec
          rw [hnx] at hnext
          cases suf with
          | nil => simp at hnext
          | cons y ys =>
            obtain ⟨k2, v2⟩ := y
            simp only [List.head?_cons, Option.map_some, Option.some.injEq] at hnext
            subst hnext
            obtain ⟨D, hD⟩ := firstGE_suffix off root.erase.toList
            rw [hf, he] at hD
            have hat : firstGE k' root.erase.toList = (k', v2) :: ys := by
              have : root.erase.toList = (D ++ pre) ++ (k', v2) :: ys := by rw [hD]; simp
              rw [this]
              exact firstGE_at _ _ _ _ (by rw [← this]; exact hsorted)
            have hl : ((k', v2) :: ys).length < (x :: rest).length := by
              have : (x :: rest).length = pre.length + ((k', v2) :: ys).length := by rw [he]; simp
              have : 0 < pre.length := List.length_pos_iff.2 hne
              omega
            exact ih m k' (by rw [hat]; omega) (by rw [hat]; omega)

/-- **Termination of the sequential chunker**: more fuel for the inner or the outer loop never changes
the chunk list. -/
theorem seqChunksF_fuel (eh : Bytes) (size : Nat) (root : HTrie) (hwf : WF root.erase) (j k : Nat) :
    seqChunksF (seqFuel root + j) (seqFuel root + k) size root = seqChunks eh size root := by
  rw [seqChunks_eq]
  unfold seqChunksF
  have hc : root.erase.toList.length < seqFuel root := by rw [seqFuel, count_eq_length]; omega
  have hle := firstGE_length_le [] root.erase.toList
  rw [seqInclsF_fuel (seqFuel root + j) (seqFuel root) size root hwf (by omega) hc
    (seqFuel root + k) (seqFuel root) [] (by omega) (by omega)]

end OasisProofs.MkvsIter
