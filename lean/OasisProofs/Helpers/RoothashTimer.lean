import OasisModel.Roothash.Timer
/-
Helper lemmas for C11 (timeout clause): int64 arithmetic without overflow, the round-timeout queue
under `rearmRoundTimeout`, what one `tryFinalizeRound` call does, the loops of `EndBlock`.
-/
namespace OasisProofs.Roothash.Timer
open OasisModel.Roothash OasisModel.Roothash.Timer

variable {π : Type}

/-! ### int64 arithmetic -/

theorem wrap64_id (x : Int) (h1 : -two63 ≤ x) (h2 : x < two63) : wrap64 x = x := by
  simp only [wrap64, two63, two64i] at *
  omega

theorem commitTimeout_eq {H h rt : Int} (h0 : 0 < h) (hH : h ≤ H) (hrt : RtOk H rt) :
    commitTimeout h rt = h + rt := by
  obtain ⟨h1, h2, h3⟩ := hrt
  unfold commitTimeout addI64
  apply wrap64_id <;> simp only [two63] at * <;> omega

theorem backupTimeout_eq {H h rt : Int} (h0 : 0 < h) (hH : h ≤ H) (hrt : RtOk H rt) :
    backupTimeout h rt = h + rt * 15 / 10 := by
  obtain ⟨h1, h2, h3⟩ := hrt
  unfold backupTimeout addI64 mulI64
  have e1 : wrap64 (rt * 15) = rt * 15 := by
    apply wrap64_id <;> simp only [two63] at * <;> omega
  rw [e1, Int.tdiv_eq_ediv_of_nonneg (by omega)]
  apply wrap64_id <;> simp only [two63] at * <;> omega

theorem commitTimeout_ge {H h rt : Int} (h0 : 0 < h) (hH : h ≤ H) (hrt : RtOk H rt) :
    h ≤ commitTimeout h rt := by
  rw [commitTimeout_eq h0 hH hrt]; have := hrt.1; omega

theorem backupTimeout_ge {H h rt : Int} (h0 : 0 < h) (hH : h ≤ H) (hrt : RtOk H rt) :
    h ≤ backupTimeout h rt := by
  rw [backupTimeout_eq h0 hH hrt]; have := hrt.1; omega

/-! ### the queue -/

/-- The entries of runtime `id` in the queue are exactly its timer `n` (none for `TimeoutNever`). -/
def Own (q : Queue) (id : Nat) (n : Int) : Prop :=
  ∀ t : Int, (t, id) ∈ q ↔ (n = t ∧ t ≠ timeoutNever)

/-- The entries of all other runtimes are the same in `q` and `q'`. -/
def SameOthers (q q' : Queue) (id : Nat) : Prop :=
  ∀ (t : Int) (j : Nat), j ≠ id → ((t, j) ∈ q' ↔ (t, j) ∈ q)

theorem SameOthers.refl (q : Queue) (id : Nat) : SameOthers q q id := fun _ _ _ => Iff.rfl

theorem SameOthers.trans {q q' q'' : Queue} {id : Nat} (h1 : SameOthers q q' id)
    (h2 : SameOthers q' q'' id) : SameOthers q q'' id :=
  fun t j hj => (h2 t j hj).trans (h1 t j hj)

theorem mem_schedule (q : Queue) (id : Nat) (t : Int) (x : Int × Nat) :
    x ∈ schedule q id t ↔ x ∈ q ∨ x = (t, id) := by
  unfold schedule
  split
  · rename_i h
    have hm : (t, id) ∈ q := by simpa using h
    constructor
    · exact Or.inl
    · rintro (h' | h')
      · exact h'
      · subst h'; exact hm
  · simp

theorem mem_clear (q : Queue) (id : Nat) (t : Int) (x : Int × Nat) :
    x ∈ clear q id t ↔ x ∈ q ∧ x ≠ (t, id) := by
  simp [clear]

theorem rearm_own {q : Queue} {id : Nat} {prev : Int} (next : Int) (h : Own q id prev) :
    Own (rearm q id prev next) id next := by
  intro t
  have ht := h t
  unfold rearm
  have e0 : timeoutNever = 0 := rfl
  by_cases h1 : prev = next
  · rw [if_pos h1]; subst h1; exact ht
  · rw [if_neg h1]
    by_cases h2 : prev = timeoutNever <;> by_cases h3 : next = timeoutNever
    · rw [if_neg (fun h => h h3), if_neg (fun h => h h2), ht]; omega
    · rw [if_pos h3, if_neg (fun h => h h2), mem_schedule]
      simp only [ht, Prod.mk.injEq, and_true]; omega
    · rw [if_neg (fun h => h h3), if_pos h2, mem_clear]
      simp only [ht, Prod.mk.injEq, and_true, ne_eq]; omega
    · rw [if_pos h3, if_pos h2, mem_schedule, mem_clear]
      simp only [ht, Prod.mk.injEq, and_true, ne_eq]; omega

theorem rearm_others (q : Queue) (id : Nat) (prev next : Int) :
    SameOthers q (rearm q id prev next) id := by
  intro t j hj
  unfold rearm
  by_cases h1 : prev = next
  · rw [if_pos h1]
  · rw [if_neg h1]
    by_cases h2 : prev = timeoutNever <;> by_cases h3 : next = timeoutNever
    · rw [if_neg (fun h => h h3), if_neg (fun h => h h2)]
    · rw [if_pos h3, if_neg (fun h => h h2), mem_schedule]
      simp [hj]
    · rw [if_neg (fun h => h h3), if_pos h2, mem_clear]
      simp [hj]
    · rw [if_pos h3, if_pos h2, mem_schedule, mem_clear]
      simp [hj]

theorem queueMatches_iff_own (s : State π) : QueueMatches s ↔ ∀ id, Own s.queue id (s.timerOf id) :=
  ⟨fun h id t => h t id, fun h t id => h id t⟩

theorem timerOf_setRt_same (s : State π) (id : Nat) (r' : Runtime π) (q : Queue) (tf : List Nat) :
    State.timerOf { rts := setRt s.rts id r', queue := q, toFinalize := tf } id = r'.nextTimeout := by
  simp [State.timerOf, setRt]

theorem timerOf_setRt_other (s : State π) {id j : Nat} (hj : j ≠ id) (r' : Runtime π) (q : Queue)
    (tf : List Nat) :
    State.timerOf { rts := setRt s.rts id r', queue := q, toFinalize := tf } j = s.timerOf j := by
  simp [State.timerOf, setRt, hj]

/-- Replacing one runtime's state and queue entries consistently keeps the queue matching. -/
theorem queueMatches_set {s : State π} (hq : QueueMatches s) (id : Nat) (r' : Runtime π) (q' : Queue)
    (tf : List Nat) (hown : Own q' id r'.nextTimeout) (hoth : SameOthers s.queue q' id) :
    QueueMatches { rts := setRt s.rts id r', queue := q', toFinalize := tf } := by
  intro t j
  by_cases hj : j = id
  · subst hj
    rw [timerOf_setRt_same]
    exact hown t
  · rw [timerOf_setRt_other s hj]
    exact (hoth t j hj).trans (hq t j)

theorem mem_timeoutsAt (q : Queue) (h : Int) (id : Nat) : id ∈ timeoutsAt q h ↔ (h, id) ∈ q := by
  unfold timeoutsAt
  simp only [List.mem_map, List.mem_filter, beq_iff_eq]
  constructor
  · rintro ⟨⟨t, j⟩, ⟨hm, ht⟩, hj⟩
    simp only at ht hj
    subst ht hj
    exact hm
  · intro hm
    exact ⟨(h, id), ⟨hm, rfl⟩, rfl⟩

/-! ### one call of `tryFinalizeRound` -/

/-- What the code after the discrepancy switch does to runtime `id` (state `r`, queue `q`) when it
returns without error. -/
def CallPost (id : Nat) (r : Runtime π) (q : Queue) (timeout disc : Bool) (res : Res)
    (r' : Runtime π) (q' : Queue) (ev : Ev) : Prop :=
  r'.roundTimeout = r.roundTimeout ∧ r'.suspended = r.suspended ∧ r'.hasCommittee = r.hasCommittee ∧
  (Own q id r.nextTimeout → Own q' id r'.nextTimeout) ∧ SameOthers q q' id ∧
  ev.rt = id ∧ ev.timeout = timeout ∧ ev.discrepancy = disc ∧ ev.nextTimeout = r'.nextTimeout ∧
  (((ev.outcome = .finalized ∨ ∃ w, ev.outcome = .roundFailed w) ∧ r'.nextTimeout = timeoutNever)
    ∨ (res = .stillWaiting ∧ ev.outcome = (if disc then .discrepancyWaiting else .waiting) ∧
        r'.nextTimeout = r.nextTimeout))

theorem failRound_spec {O : PoolOracle π} {id : Nat} {r : Runtime π} {q : Queue} {p : π} {why res : Res}
    {timeout disc : Bool} {r' : Runtime π} {q' : Queue} {ev : Ev}
    (hc : failRound O id r q p why timeout disc = some (r', q', ev)) :
    CallPost id r q timeout disc res r' q' ev := by
  unfold failRound at hc
  split at hc
  · exact absurd hc (by simp)
  · simp only [finalizeBlock, Option.some.injEq, Prod.mk.injEq] at hc
    obtain ⟨rfl, rfl, rfl⟩ := hc
    exact ⟨rfl, rfl, rfl, fun h => rearm_own _ h, rearm_others _ _ _ _, rfl, rfl, rfl, rfl,
      Or.inl ⟨Or.inr ⟨_, rfl⟩, rfl⟩⟩

theorem conclude_spec {O : PoolOracle π} {id : Nat} {r : Runtime π} {q : Queue} {p : π} {res : Res}
    {timeout disc : Bool} {r' : Runtime π} {q' : Queue} {ev : Ev}
    (hc : conclude O id r q p res timeout disc = some (r', q', ev)) :
    CallPost id r q timeout disc res r' q' ev := by
  unfold conclude at hc
  split at hc
  · split at hc
    · simp only [finalizeBlock, Option.some.injEq, Prod.mk.injEq] at hc
      obtain ⟨rfl, rfl, rfl⟩ := hc
      exact ⟨rfl, rfl, rfl, fun h => rearm_own _ h, rearm_others _ _ _ _, rfl, rfl, rfl, rfl,
        Or.inl ⟨Or.inl rfl, rfl⟩⟩
    · exact failRound_spec hc
    · exact absurd hc (by simp)
  · simp only [Option.some.injEq, Prod.mk.injEq] at hc
    obtain ⟨rfl, rfl, rfl⟩ := hc
    exact ⟨rfl, rfl, rfl, fun h => h, SameOthers.refl _ _, rfl, rfl, rfl, rfl, Or.inr ⟨rfl, rfl, rfl⟩⟩
  · exact failRound_spec hc
  · exact failRound_spec hc
  · exact failRound_spec hc
  · exact absurd hc (by simp)
  · exact absurd hc (by simp)

/-- What a call of `tryFinalizeRoundInsideTx` at height `h` that returned without error did. -/
def InsidePost (O : PoolOracle π) (h : Int) (id : Nat) (r : Runtime π) (p : π) (q : Queue)
    (timeout : Bool) (r' : Runtime π) (q' : Queue) (ev : Ev) : Prop :=
  r'.roundTimeout = r.roundTimeout ∧ r'.suspended = r.suspended ∧ r'.hasCommittee = r.hasCommittee ∧
  (Own q id r.nextTimeout → Own q' id r'.nextTimeout) ∧ SameOthers q q' id ∧
  ev.rt = id ∧ ev.timeout = timeout ∧ ev.nextTimeout = r'.nextTimeout ∧
  (((ev.outcome = .finalized ∨ ∃ w, ev.outcome = .roundFailed w) ∧ r'.nextTimeout = timeoutNever)
    ∨ (ev.outcome = .waiting ∧ ev.discrepancy = false ∧ r'.nextTimeout = r.nextTimeout ∧
        (O.process p timeout).2 = .stillWaiting)
    ∨ (ev.outcome = .discrepancyWaiting ∧ ev.discrepancy = true ∧
        r'.nextTimeout = backupTimeout h r.roundTimeout ∧
        (O.process (O.process p timeout).1 (backupTimeout h r.roundTimeout == h)).2 = .stillWaiting))

theorem insideTx_spec {O : PoolOracle π} {h : Int} {id : Nat} {r : Runtime π} {p : π} {q : Queue}
    {timeout : Bool} {r' : Runtime π} {q' : Queue} {ev : Ev}
    (hc : insideTx O h id r p q timeout = some (r', q', ev)) :
    InsidePost O h id r p q timeout r' q' ev := by
  unfold insideTx at hc
  simp only at hc
  split at hc
  · obtain ⟨h1, h2, h3, h4, h5, h6, h7, h8, h9, h10⟩ := conclude_spec hc
    refine ⟨h1, h2, h3, fun ho => h4 (rearm_own _ ho), (rearm_others _ _ _ _).trans h5, h6, h7, h9, ?_⟩
    rcases h10 with h10 | ⟨e1, e2, e3⟩
    · exact Or.inl h10
    · exact Or.inr (Or.inr ⟨by simpa using e2, h8, e3, e1⟩)
  · obtain ⟨h1, h2, h3, h4, h5, h6, h7, h8, h9, h10⟩ := conclude_spec hc
    refine ⟨h1, h2, h3, h4, h5, h6, h7, h9, ?_⟩
    rcases h10 with h10 | ⟨e1, e2, e3⟩
    · exact Or.inl h10
    · exact Or.inr (Or.inl ⟨by simpa using e2, h8, e3, e1⟩)

/-- What a call of `tryFinalizeRound` at height `h` that returned without error did to the state. -/
theorem tryFinalizeRound_spec {O : PoolOracle π} {h : Int} {timeout : Bool} {s s' : State π} {id : Nat}
    {ev : Ev} (hc : tryFinalizeRound O h timeout s id = some (s', ev)) :
    ∃ (r r' : Runtime π) (p : π), s.rts id = some r ∧ r.suspended = false ∧ r.pool = some p ∧
      s'.rts = setRt s.rts id r' ∧ s'.toFinalize = s.toFinalize ∧
      InsidePost O h id r p s.queue timeout r' s'.queue ev := by
  unfold tryFinalizeRound at hc
  split at hc
  · exact absurd hc (by simp)
  · rename_i r hr
    split at hc
    · exact absurd hc (by simp)
    · rename_i hs
      split at hc
      · exact absurd hc (by simp)
      · split at hc
        · exact absurd hc (by simp)
        · rename_i p hp
          split at hc
          · exact absurd hc (by simp)
          · rename_i r' q' ev' hin
            simp only [Option.some.injEq, Prod.mk.injEq] at hc
            obtain ⟨rfl, rfl⟩ := hc
            exact ⟨r, r', p, hr, by simpa using hs, hp, rfl, rfl, insideTx_spec hin⟩

/-! ### updates of one runtime -/

/-- `s'` differs from `s` in the state of runtime `id` (now `r'`), in its queue entries (kept
consistent) and possibly in the finalization list. -/
def Upd (s s' : State π) (id : Nat) (r' : Runtime π) : Prop :=
  s'.rts = setRt s.rts id r' ∧ (Own s.queue id (s.timerOf id) → Own s'.queue id r'.nextTimeout) ∧
  SameOthers s.queue s'.queue id

theorem timerOf_of_some {s : State π} {id : Nat} {r : Runtime π} (h : s.rts id = some r) :
    s.timerOf id = r.nextTimeout := by
  simp [State.timerOf, h]

theorem timerOf_of_none {s : State π} {id : Nat} (h : s.rts id = none) :
    s.timerOf id = timeoutNever := by
  simp [State.timerOf, h]

theorem Upd.timerOf_same {s s' : State π} {id : Nat} {r' : Runtime π} (u : Upd s s' id r') :
    s'.timerOf id = r'.nextTimeout := by
  simp [State.timerOf, u.1, setRt]

theorem Upd.rts_same {s s' : State π} {id : Nat} {r' : Runtime π} (u : Upd s s' id r') :
    s'.rts id = some r' := by
  simp [u.1, setRt]

theorem Upd.rts_other {s s' : State π} {id : Nat} {r' : Runtime π} (u : Upd s s' id r') {j : Nat}
    (hj : j ≠ id) : s'.rts j = s.rts j := by
  simp [u.1, setRt, hj]

theorem Upd.timerOf_other {s s' : State π} {id : Nat} {r' : Runtime π} (u : Upd s s' id r') {j : Nat}
    (hj : j ≠ id) : s'.timerOf j = s.timerOf j := by
  simp [State.timerOf, u.rts_other hj]

theorem Upd.queueMatches {s s' : State π} {id : Nat} {r' : Runtime π} (u : Upd s s' id r')
    (hq : QueueMatches s) : QueueMatches s' := by
  intro t j
  by_cases hj : j = id
  · subst hj
    rw [u.timerOf_same]
    exact u.2.1 (fun t => hq t j) t
  · rw [u.timerOf_other hj]
    exact (u.2.2 t j hj).trans (hq t j)

/-- Every stored round timeout is fine up to height `H`. -/
def RtsOk (H : Int) (s : State π) : Prop := ∀ id r, s.rts id = some r → RtOk H r.roundTimeout

theorem Upd.rtsOk {H : Int} {s s' : State π} {id : Nat} {r' : Runtime π} (u : Upd s s' id r')
    (hs : RtsOk H s) (hr : RtOk H r'.roundTimeout) : RtsOk H s' := by
  intro j r hj
  by_cases e : j = id
  · subst e
    rw [u.rts_same] at hj
    cases hj
    exact hr
  · rw [u.rts_other e] at hj
    exact hs j r hj

/-- The call at height `h` for runtime `id`, as an update. -/
theorem tryFinalizeRound_upd {O : PoolOracle π} {h : Int} {timeout : Bool} {s s' : State π} {id : Nat}
    {ev : Ev} (hc : tryFinalizeRound O h timeout s id = some (s', ev)) :
    ∃ (r r' : Runtime π) (p : π), s.rts id = some r ∧ r.suspended = false ∧ r.pool = some p ∧
      Upd s s' id r' ∧ s'.toFinalize = s.toFinalize ∧ InsidePost O h id r p s.queue timeout r' s'.queue ev := by
  obtain ⟨r, r', p, h1, h2, h3, h4, h5, h6⟩ := tryFinalizeRound_spec hc
  refine ⟨r, r', p, h1, h2, h3, ⟨h4, ?_, h6.2.2.2.2.1⟩, h5, h6⟩
  rw [timerOf_of_some h1]
  exact h6.2.2.2.1

theorem tryFinalizeRound_queueMatches {O : PoolOracle π} {h : Int} {timeout : Bool} {s s' : State π}
    {id : Nat} {ev : Ev} (hc : tryFinalizeRound O h timeout s id = some (s', ev))
    (hq : QueueMatches s) : QueueMatches s' := by
  obtain ⟨r, r', p, _, _, _, u, _, _⟩ := tryFinalizeRound_upd hc
  exact u.queueMatches hq

/-- The timer of a runtime is `TimeoutNever` or strictly after `h`. -/
def Done (h : Int) (s : State π) (j : Nat) : Prop := s.timerOf j = timeoutNever ∨ h < s.timerOf j

/-- The effect of one call on timers and the event it logs, for a pool that decides on timeout and
without int64 overflow. -/
theorem tryFinalizeRound_effect {O : PoolOracle π} (hO : TimeoutDecides O) {H h : Int} (h0 : 0 < h)
    (hH : h ≤ H) {timeout : Bool} {s s' : State π} {id : Nat} {ev : Ev} (hs : RtsOk H s)
    (hc : tryFinalizeRound O h timeout s id = some (s', ev)) :
    RtsOk H s' ∧ (∀ j, j ≠ id → s'.rts j = s.rts j) ∧ s'.toFinalize = s.toFinalize ∧
    ev.rt = id ∧ ev.timeout = timeout ∧ ev.nextTimeout = s'.timerOf id ∧
    (ev.Decided h ∨ (timeout = false ∧ ev.outcome = .waiting ∧ s'.timerOf id = s.timerOf id)) := by
  obtain ⟨r, r', p, hr, _, _, u, htf, hp⟩ := tryFinalizeRound_upd hc
  obtain ⟨e1, _, _, _, _, e6, e7, e8, e9⟩ := hp
  have hrt : RtOk H r.roundTimeout := hs id r hr
  refine ⟨u.rtsOk hs (e1 ▸ hrt), fun j hj => u.rts_other hj, htf, e6, e7, ?_, ?_⟩
  · rw [u.timerOf_same]; exact e8
  · rw [u.timerOf_same, timerOf_of_some hr]
    rcases e9 with ⟨ho, hn⟩ | ⟨ho, hd, hn, hw⟩ | ⟨ho, hd, hn, hw⟩
    · exact Or.inl (Or.inl ⟨ho, e8.trans hn⟩)
    · cases timeout with
      | true => exact absurd hw (hO p)
      | false => exact Or.inr ⟨rfl, ho, hn⟩
    · left; right
      refine ⟨ho, hd, ?_⟩
      rw [e8, hn]
      have hge := backupTimeout_ge h0 hH hrt
      have hne : backupTimeout h r.roundTimeout ≠ h := by
        intro e
        rw [e] at hw
        simp only [beq_self_eq_true] at hw
        exact hO _ hw
      omega

theorem decided_done {h : Int} {ev : Ev} (hd : ev.Decided h) :
    ev.nextTimeout = timeoutNever ∨ h < ev.nextTimeout := by
  rcases hd with ⟨_, hn⟩ | ⟨_, _, hn⟩
  · exact Or.inl hn
  · exact Or.inr hn

/-! ### the loops of `EndBlock` -/

theorem timerOf_congr {s s' : State π} {j : Nat} (h : s'.rts j = s.rts j) : s'.timerOf j = s.timerOf j := by
  simp [State.timerOf, h]

theorem finalizeAll_cons {O : PoolOracle π} {h : Int} {t : Bool} {id : Nat} {rest : List Nat}
    {s s' : State π} {evs : List Ev} (hc : finalizeAll O h t (id :: rest) s = some (s', evs)) :
    ∃ s1 ev evs', tryFinalizeRound O h t s id = some (s1, ev) ∧
      finalizeAll O h t rest s1 = some (s', evs') ∧ evs = ev :: evs' := by
  unfold finalizeAll at hc
  split at hc
  · exact absurd hc (by simp)
  · rename_i s1 ev h1
    split at hc
    · exact absurd hc (by simp)
    · rename_i s2 evs' h2
      simp only [Option.some.injEq, Prod.mk.injEq] at hc
      obtain ⟨rfl, rfl⟩ := hc
      exact ⟨s1, ev, evs', h1, h2, rfl⟩

theorem finalizeAll_nil {O : PoolOracle π} {h : Int} {t : Bool} {s s' : State π} {evs : List Ev}
    (hc : finalizeAll O h t [] s = some (s', evs)) : s' = s ∧ evs = [] := by
  simp only [finalizeAll, Option.some.injEq, Prod.mk.injEq] at hc
  exact ⟨hc.1.symm, hc.2.symm⟩

/-- Invariant `P` of the calls and property `Q` of the logged events carry over to the loop. -/
theorem finalizeAll_induct {O : PoolOracle π} {h : Int} {t : Bool} (P : State π → Prop) (Q : Ev → Prop)
    (hstep : ∀ s id s' ev, P s → tryFinalizeRound O h t s id = some (s', ev) → P s' ∧ Q ev) :
    ∀ (ids : List Nat) (s s' : State π) (evs : List Ev), P s →
      finalizeAll O h t ids s = some (s', evs) → P s' ∧ ∀ ev ∈ evs, Q ev := by
  intro ids
  induction ids with
  | nil =>
    intro s s' evs hp hc
    obtain ⟨rfl, rfl⟩ := finalizeAll_nil hc
    exact ⟨hp, by simp⟩
  | cons id rest ih =>
    intro s s' evs hp hc
    obtain ⟨s1, ev, evs', h1, h2, rfl⟩ := finalizeAll_cons hc
    obtain ⟨hp1, hq1⟩ := hstep s id s1 ev hp h1
    obtain ⟨hp2, hq2⟩ := ih s1 s' evs' hp1 h2
    refine ⟨hp2, ?_⟩
    intro e he
    rcases List.mem_cons.mp he with rfl | he
    · exact hq1
    · exact hq2 e he

/-- The timer of a runtime is `TimeoutNever` or not before `h`. -/
def Ge (h : Int) (s : State π) (j : Nat) : Prop := s.timerOf j = timeoutNever ∨ h ≤ s.timerOf j

/-- The invariant of both loops of `EndBlock` at height `h`. -/
def LoopInv (H h : Int) (s : State π) : Prop := QueueMatches s ∧ RtsOk H s ∧ ∀ j, Ge h s j

/-- What every logged event of a loop with flag `t` satisfies. -/
def EvOk (h : Int) (t : Bool) (ev : Ev) : Prop :=
  ev.timeout = t ∧ (ev.Decided h ∨ (t = false ∧ ev.outcome = .waiting))

theorem tryFinalizeRound_loopInv {O : PoolOracle π} (hO : TimeoutDecides O) {H h : Int} (h0 : 0 < h)
    (hH : h ≤ H) {t : Bool} (s : State π) (id : Nat) (s' : State π) (ev : Ev) (hp : LoopInv H h s)
    (hc : tryFinalizeRound O h t s id = some (s', ev)) : LoopInv H h s' ∧ EvOk h t ev := by
  obtain ⟨hq, hr, hg⟩ := hp
  obtain ⟨e1, e2, _, _, e5, e6, e7⟩ := tryFinalizeRound_effect hO h0 hH hr hc
  refine ⟨⟨tryFinalizeRound_queueMatches hc hq, e1, ?_⟩, e5, ?_⟩
  · intro j
    by_cases hj : j = id
    · subst hj
      rcases e7 with hd | ⟨_, _, hu⟩
      · rcases decided_done hd with hn | hn
        · exact Or.inl (e6 ▸ hn)
        · right; rw [← e6]; omega
      · unfold Ge; rw [hu]; exact hg j
    · unfold Ge; rw [timerOf_congr (e2 j hj)]; exact hg j
  · rcases e7 with hd | ⟨ht, ho, _⟩
    · exact Or.inl hd
    · exact Or.inr ⟨ht, ho⟩

theorem finalizeAll_loopInv {O : PoolOracle π} (hO : TimeoutDecides O) {H h : Int} (h0 : 0 < h)
    (hH : h ≤ H) {t : Bool} {ids : List Nat} {s s' : State π} {evs : List Ev} (hp : LoopInv H h s)
    (hc : finalizeAll O h t ids s = some (s', evs)) : LoopInv H h s' ∧ ∀ ev ∈ evs, EvOk h t ev :=
  finalizeAll_induct (LoopInv H h) (EvOk h t) (tryFinalizeRound_loopInv hO h0 hH) ids s s' evs hp hc

/-- The loop never touches the list of runtimes to finalize. -/
theorem finalizeAll_toFinalize {O : PoolOracle π} {h : Int} {t : Bool} :
    ∀ {ids : List Nat} {s s' : State π} {evs : List Ev},
      finalizeAll O h t ids s = some (s', evs) → s'.toFinalize = s.toFinalize := by
  intro ids
  induction ids with
  | nil => intro s s' evs hc; rw [(finalizeAll_nil hc).1]
  | cons id rest ih =>
    intro s s' evs hc
    obtain ⟨s1, ev, evs', h1, h2, rfl⟩ := finalizeAll_cons hc
    obtain ⟨_, _, _, _, _, _, _, e, _⟩ := tryFinalizeRound_upd h1
    rw [ih h2, e]

/-- Forced finalization (`timeout = true`) leaves every runtime it was called for, and every runtime
whose timer was already fine, with a timer that is cleared or strictly in the future. -/
theorem finalizeAll_true_done {O : PoolOracle π} (hO : TimeoutDecides O) {H h : Int} (h0 : 0 < h)
    (hH : h ≤ H) : ∀ {ids : List Nat} {s s' : State π} {evs : List Ev}, RtsOk H s →
      finalizeAll O h true ids s = some (s', evs) → ∀ j, (j ∈ ids ∨ Done h s j) → Done h s' j := by
  intro ids
  induction ids with
  | nil =>
    intro s s' evs _ hc j hj
    rw [(finalizeAll_nil hc).1]
    rcases hj with hj | hj
    · exact absurd hj (by simp)
    · exact hj
  | cons id rest ih =>
    intro s s' evs hr hc j hj
    obtain ⟨s1, ev, evs', h1, h2, rfl⟩ := finalizeAll_cons hc
    obtain ⟨e1, e2, _, _, _, e6, e7⟩ := tryFinalizeRound_effect hO h0 hH hr h1
    apply ih e1 h2 j
    by_cases hji : j = id
    · subst hji
      right
      rcases e7 with hd | ⟨ht, _, _⟩
      · unfold Done; rw [← e6]; exact decided_done hd
      · exact absurd ht (by simp)
    · rcases hj with hj | hj
      · rcases List.mem_cons.mp hj with e | hm
        · exact absurd e hji
        · exact Or.inl hm
      · right; unfold Done; rw [timerOf_congr (e2 j hji)]; exact hj

/-- A loop either logs a deciding event for runtime `j` or leaves its timer as it was. -/
theorem finalizeAll_track {O : PoolOracle π} (hO : TimeoutDecides O) {H h : Int} (h0 : 0 < h)
    (hH : h ≤ H) {t : Bool} (j : Nat) : ∀ {ids : List Nat} {s s' : State π} {evs : List Ev}, RtsOk H s →
      finalizeAll O h t ids s = some (s', evs) →
      (∃ ev ∈ evs, ev.rt = j ∧ ev.Decided h) ∨ s'.timerOf j = s.timerOf j := by
  intro ids
  induction ids with
  | nil => intro s s' evs _ hc; rw [(finalizeAll_nil hc).1]; exact Or.inr rfl
  | cons id rest ih =>
    intro s s' evs hr hc
    obtain ⟨s1, ev, evs', h1, h2, rfl⟩ := finalizeAll_cons hc
    obtain ⟨e1, e2, _, e4, _, _, e7⟩ := tryFinalizeRound_effect hO h0 hH hr h1
    have hstep : (ev.rt = j ∧ ev.Decided h) ∨ s1.timerOf j = s.timerOf j := by
      by_cases hji : j = id
      · subst hji
        rcases e7 with hd | ⟨_, _, hu⟩
        · exact Or.inl ⟨e4, hd⟩
        · exact Or.inr hu
      · exact Or.inr (timerOf_congr (e2 j hji))
    rcases hstep with hd | hu
    · exact Or.inl ⟨ev, List.mem_cons_self, hd⟩
    · rcases ih e1 h2 with ⟨e, he, hd⟩ | hu'
      · exact Or.inl ⟨e, List.mem_cons_of_mem _ he, hd⟩
      · exact Or.inr (hu'.trans hu)

/-- Every runtime in the list gets an event. -/
theorem finalizeAll_event {O : PoolOracle π} {h : Int} {t : Bool} (j : Nat) :
    ∀ {ids : List Nat} {s s' : State π} {evs : List Ev},
      finalizeAll O h t ids s = some (s', evs) → j ∈ ids → ∃ ev ∈ evs, ev.rt = j := by
  intro ids
  induction ids with
  | nil => intro s s' evs _ hj; exact absurd hj (by simp)
  | cons id rest ih =>
    intro s s' evs hc hj
    obtain ⟨s1, ev, evs', h1, h2, rfl⟩ := finalizeAll_cons hc
    rcases List.mem_cons.mp hj with e | hm
    · subst e
      obtain ⟨_, _, _, _, _, _, _, _, hp⟩ := tryFinalizeRound_upd h1
      exact ⟨ev, List.mem_cons_self, hp.2.2.2.2.2.1⟩
    · obtain ⟨e, he, hr⟩ := ih h2 hm
      exact ⟨e, List.mem_cons_of_mem _ he, hr⟩

/-! ### the steps between two `EndBlock`s -/

/-- What a step at height `h` does: nothing, or an update of one runtime whose new timer is cleared,
unchanged, or `h + RoundTimeout`; a suspended runtime has no timer afterwards. -/
theorem step_spec {h : Int} {s s' : State π} {st : Step π} (hc : step h s st = some s') :
    (s'.rts = s.rts ∧ s'.queue = s.queue) ∨ ∃ id r', Upd s s' id r' ∧
      (r'.nextTimeout = timeoutNever ∨ r'.nextTimeout = s.timerOf id ∨
        ∃ r, s.rts id = some r ∧ r'.nextTimeout = commitTimeout h r.roundTimeout) ∧
      ((∃ r, s.rts id = some r ∧ r'.roundTimeout = r.roundTimeout) ∨
        st.roundTimeout? = some r'.roundTimeout) ∧
      (r'.suspended = true → r'.nextTimeout = timeoutNever) := by
  cases st with
  | newRuntime id rt =>
    simp only [Timer.step] at hc
    split at hc
    · simp only [Option.some.injEq] at hc; subst hc; exact Or.inl ⟨rfl, rfl⟩
    · rename_i hn
      simp only [Option.some.injEq] at hc; subst hc
      refine Or.inr ⟨id, { roundTimeout := rt }, ⟨rfl, ?_, SameOthers.refl _ _⟩, Or.inl rfl, Or.inr rfl,
        fun _ => rfl⟩
      intro ho
      rw [timerOf_of_none hn] at ho
      exact ho
  | committeeChanged id suspend hasC pool rt =>
    simp only [Timer.step] at hc
    split at hc
    · exact absurd hc (by simp)
    · rename_i r hr
      simp only [finalizeBlock, Option.some.injEq] at hc; subst hc
      refine Or.inr ⟨id, _, ⟨rfl, ?_, rearm_others _ _ _ _⟩, Or.inl rfl, Or.inr rfl, fun _ => rfl⟩
      intro ho
      rw [timerOf_of_some hr] at ho
      exact rearm_own _ ho
  | executorCommit id pool rankChanged =>
    simp only [Timer.step] at hc
    split at hc
    · simp only [Option.some.injEq] at hc; subst hc; exact Or.inl ⟨rfl, rfl⟩
    · rename_i r hr
      split at hc
      · simp only [Option.some.injEq] at hc; subst hc; exact Or.inl ⟨rfl, rfl⟩
      · rename_i hg
        simp only [Bool.or_eq_true, not_or, Bool.not_eq_true, Bool.not_eq_eq_eq_not, Bool.not_true] at hg
        simp only [executorCommitArm, Option.some.injEq] at hc; subst hc
        cases rankChanged with
        | true =>
          refine Or.inr ⟨id, _, ⟨rfl, ?_, rearm_others _ _ _ _⟩, Or.inr (Or.inr ⟨r, hr, rfl⟩),
            Or.inl ⟨r, hr, rfl⟩, ?_⟩
          · intro ho
            rw [timerOf_of_some hr] at ho
            exact rearm_own _ ho
          · intro hsus
            simp only at hsus
            rw [hg.1.1] at hsus
            exact absurd hsus (by simp)
        | false =>
          refine Or.inr ⟨id, _, ⟨rfl, ?_, SameOthers.refl _ _⟩, Or.inr (Or.inl ?_), Or.inl ⟨r, hr, rfl⟩, ?_⟩
          · intro ho
            rw [timerOf_of_some hr] at ho
            exact ho
          · simp [timerOf_of_some hr]
          · intro hsus
            simp only at hsus
            rw [hg.1.1] at hsus
            exact absurd hsus (by simp)

theorem step_queueMatches {h : Int} {s s' : State π} {st : Step π} (hc : step h s st = some s')
    (hq : QueueMatches s) : QueueMatches s' := by
  rcases step_spec hc with ⟨e1, e2⟩ | ⟨id, r', u, _⟩
  · intro t j
    have := hq t j
    simpa [State.timerOf, e1, e2] using this
  · exact u.queueMatches hq

/-- During block `h` every timer stays cleared or not before `h`. -/
theorem step_loopInv {H h : Int} (h0 : 0 < h) (hH : h ≤ H) {s s' : State π} {st : Step π}
    (hok : ∀ rt, st.roundTimeout? = some rt → RtOk H rt) (hc : step h s st = some s')
    (hp : LoopInv H h s) : LoopInv H h s' := by
  obtain ⟨hq, hr, hg⟩ := hp
  refine ⟨step_queueMatches hc hq, ?_⟩
  rcases step_spec hc with ⟨e1, e2⟩ | ⟨id, r', u, ht, hrt, _⟩
  · constructor
    · intro j r hj; rw [e1] at hj; exact hr j r hj
    · intro j; have := hg j; simpa [Ge, State.timerOf, e1] using this
  · constructor
    · apply u.rtsOk hr
      rcases hrt with ⟨r, hsr, e⟩ | e
      · rw [e]; exact hr id r hsr
      · exact hok _ e
    · intro j
      by_cases hj : j = id
      · subst hj
        unfold Ge
        rw [u.timerOf_same]
        rcases ht with e | e | ⟨r, hsr, e⟩
        · exact Or.inl e
        · rw [e]; exact hg j
        · right; rw [e]; exact commitTimeout_ge h0 hH (hr j r hsr)
      · unfold Ge; rw [u.timerOf_other hj]; exact hg j

theorem steps_queueMatches {h : Int} : ∀ {sts : List (Step π)} {s s' : State π},
    steps h sts s = some s' → QueueMatches s → QueueMatches s' := by
  intro sts
  induction sts with
  | nil => intro s s' hc hq; simp only [steps, Option.some.injEq] at hc; subst hc; exact hq
  | cons st rest ih =>
    intro s s' hc hq
    simp only [steps] at hc
    split at hc
    · exact absurd hc (by simp)
    · rename_i s1 h1
      exact ih hc (step_queueMatches h1 hq)

theorem steps_loopInv {H h : Int} (h0 : 0 < h) (hH : h ≤ H) : ∀ {sts : List (Step π)} {s s' : State π},
    (∀ st ∈ sts, ∀ rt, st.roundTimeout? = some rt → RtOk H rt) →
    steps h sts s = some s' → LoopInv H h s → LoopInv H h s' := by
  intro sts
  induction sts with
  | nil => intro s s' _ hc hq; simp only [steps, Option.some.injEq] at hc; subst hc; exact hq
  | cons st rest ih =>
    intro s s' hok hc hq
    simp only [steps] at hc
    split at hc
    · exact absurd hc (by simp)
    · rename_i s1 h1
      exact ih (fun st' hm => hok st' (List.mem_cons_of_mem _ hm)) hc
        (step_loopInv h0 hH (hok st List.mem_cons_self) h1 hq)

/-- A suspended runtime has no timer. -/
def SuspendedClear (s : State π) : Prop :=
  ∀ id r, s.rts id = some r → r.suspended = true → r.nextTimeout = timeoutNever

theorem step_suspendedClear {h : Int} {s s' : State π} {st : Step π} (hc : step h s st = some s')
    (hp : SuspendedClear s) : SuspendedClear s' := by
  rcases step_spec hc with ⟨e1, _⟩ | ⟨id, r', u, _, _, hsus⟩
  · intro j r hj; rw [e1] at hj; exact hp j r hj
  · intro j r hj
    by_cases e : j = id
    · subst e
      rw [u.rts_same] at hj
      cases hj
      exact hsus
    · rw [u.rts_other e] at hj
      exact hp j r hj

theorem steps_suspendedClear {h : Int} : ∀ {sts : List (Step π)} {s s' : State π},
    steps h sts s = some s' → SuspendedClear s → SuspendedClear s' := by
  intro sts
  induction sts with
  | nil => intro s s' hc hq; simp only [steps, Option.some.injEq] at hc; subst hc; exact hq
  | cons st rest ih =>
    intro s s' hc hq
    simp only [steps] at hc
    split at hc
    · exact absurd hc (by simp)
    · rename_i s1 h1
      exact ih hc (step_suspendedClear h1 hq)

theorem tryFinalizeRound_suspendedClear {O : PoolOracle π} {h : Int} {t : Bool} (s : State π) (id : Nat)
    (s' : State π) (ev : Ev) (hp : SuspendedClear s) (hc : tryFinalizeRound O h t s id = some (s', ev)) :
    SuspendedClear s' ∧ True := by
  obtain ⟨r, r', p, _, hs, _, u, _, hin⟩ := tryFinalizeRound_upd hc
  refine ⟨?_, trivial⟩
  intro j x hj
  by_cases e : j = id
  · subst e
    rw [u.rts_same] at hj
    cases hj
    intro hx
    rw [hin.2.1, hs] at hx
    exact absurd hx (by simp)
  · rw [u.rts_other e] at hj
    exact hp j x hj

/-! ### `EndBlock` -/

theorem finalizeAll_queueMatches {O : PoolOracle π} {h : Int} {t : Bool} {ids : List Nat}
    {s s' : State π} {evs : List Ev} (hc : finalizeAll O h t ids s = some (s', evs))
    (hq : QueueMatches s) : QueueMatches s' :=
  (finalizeAll_induct QueueMatches (fun _ => True)
    (fun _ _ _ _ hp h1 => ⟨tryFinalizeRound_queueMatches h1 hp, trivial⟩) ids s s' evs hq hc).1

theorem endBlock_split {O : PoolOracle π} {h : Int} {s s' : State π} {evs : List Ev}
    (hc : endBlock O h s = some (s', evs)) :
    ∃ s1 evs1 evs2, finalizeAll O h false s.toFinalize s = some (s1, evs1) ∧
      finalizeAll O h true (timeoutsAt s1.queue h) s1 = some (s', evs2) ∧ evs = evs1 ++ evs2 := by
  unfold endBlock tryFinalizeRounds processRoundTimeouts at hc
  split at hc
  · exact absurd hc (by simp)
  · rename_i s1 evs1 h1
    split at hc
    · exact absurd hc (by simp)
    · rename_i s2 evs2 h2
      simp only [Option.some.injEq, Prod.mk.injEq] at hc
      obtain ⟨rfl, rfl⟩ := hc
      exact ⟨s1, evs1, evs2, h1, h2, rfl⟩

/-- A timer that is due at `h` is in the list `processRoundTimeouts` reads. -/
theorem due_in_timeoutsAt {h : Int} (h0 : 0 < h) {s : State π} (hq : QueueMatches s) {j : Nat}
    (hj : s.timerOf j = h) : j ∈ timeoutsAt s.queue h := by
  rw [mem_timeoutsAt]
  exact (hq h j).mpr ⟨hj, by simp only [timeoutNever]; omega⟩

/-- `EndBlock` of height `h` from a state whose timers are cleared or not before `h`. -/
theorem endBlock_effect {O : PoolOracle π} (hO : TimeoutDecides O) {H h : Int} (h0 : 0 < h) (hH : h ≤ H)
    {s s' : State π} {evs : List Ev} (hp : LoopInv H h s) (hc : endBlock O h s = some (s', evs)) :
    LoopInv H h s' ∧ (∀ j, Done h s' j) ∧ (∀ ev ∈ evs, ev.timeout = true → ev.Decided h) ∧
    (∀ j, s.timerOf j = h → ∃ ev ∈ evs, ev.rt = j ∧ ev.Decided h) := by
  obtain ⟨s1, evs1, evs2, h1, h2, rfl⟩ := endBlock_split hc
  obtain ⟨hp1, hev1⟩ := finalizeAll_loopInv hO h0 hH hp h1
  obtain ⟨hp2, hev2⟩ := finalizeAll_loopInv hO h0 hH hp1 h2
  have hev2' : ∀ ev ∈ evs2, ev.Decided h := by
    intro ev he
    rcases (hev2 ev he).2 with hd | ⟨hf, _⟩
    · exact hd
    · exact absurd hf (by simp)
  refine ⟨hp2, ?_, ?_, ?_⟩
  · intro j
    apply finalizeAll_true_done hO h0 hH hp1.2.1 h2 j
    rcases hp1.2.2 j with e | hge
    · exact Or.inr (Or.inl e)
    · by_cases e : s1.timerOf j = h
      · exact Or.inl (due_in_timeoutsAt h0 hp1.1 e)
      · right; right; omega
  · intro ev he ht
    rcases List.mem_append.mp he with he | he
    · rw [(hev1 ev he).1] at ht; exact absurd ht (by simp)
    · exact hev2' ev he
  · intro j hj
    rcases finalizeAll_track hO h0 hH j hp.2.1 h1 with ⟨ev, he, hd⟩ | hu
    · exact ⟨ev, List.mem_append_left _ he, hd⟩
    · obtain ⟨ev, he, hr⟩ := finalizeAll_event j h2 (due_in_timeoutsAt h0 hp1.1 (hu.trans hj))
      exact ⟨ev, List.mem_append_right _ he, hr, hev2' ev he⟩

theorem done_ge_succ {h : Int} {s : State π} (hd : ∀ j, Done h s j) : ∀ j, Ge (h + 1) s j := by
  intro j
  rcases hd j with e | e
  · exact Or.inl e
  · right; omega

/-! ### reachable states -/

theorem loopInv_beginBlock {H h : Int} {s : State π} (hp : LoopInv H h s) : LoopInv H h (beginBlock s) :=
  ⟨fun t j => hp.1 t j, fun j r hj => hp.2.1 j r hj, fun j => hp.2.2 j⟩

theorem empty_queueMatches : QueueMatches (State.empty : State π) := by
  intro t id
  simp [State.empty, State.timerOf]
  intro e; exact e.symm

/-- The invariant after the `EndBlock` of height `h`. -/
def BlockInv (H h : Int) (s : State π) : Prop :=
  0 ≤ h ∧ QueueMatches s ∧ RtsOk H s ∧ ∀ j, Done h s j

theorem atEndBlock_of_inv {H hp : Int} {s s1 : State π} (hi : BlockInv H hp s) (b : Block π)
    (hb : b.height = hp + 1) (hH : b.height ≤ H) (hok : b.Ok H)
    (hst : steps b.height b.steps (beginBlock s) = some s1) :
    0 < b.height ∧ LoopInv H b.height s1 := by
  obtain ⟨h0, hq, hr, hd⟩ := hi
  have hpos : 0 < b.height := by omega
  refine ⟨hpos, steps_loopInv hpos hH hok hst (loopInv_beginBlock ⟨hq, hr, ?_⟩)⟩
  rw [hb]
  exact done_ge_succ hd

theorem execBlock_inv {O : PoolOracle π} (hO : TimeoutDecides O) {H hp : Int} {s s' : State π}
    {evs : List Ev} (hi : BlockInv H hp s) (b : Block π) (hb : b.height = hp + 1) (hH : b.height ≤ H)
    (hok : b.Ok H) (hc : execBlock O b s = some (s', evs)) : BlockInv H b.height s' := by
  unfold execBlock at hc
  split at hc
  · exact absurd hc (by simp)
  · rename_i s1 hst
    obtain ⟨hpos, hl⟩ := atEndBlock_of_inv hi b hb hH hok hst
    obtain ⟨hl', hd, _, _⟩ := endBlock_effect hO hpos hH hl hc
    exact ⟨by omega, hl'.1, hl'.2.1, hd⟩

theorem reachable_inv {O : PoolOracle π} (hO : TimeoutDecides O) {H h : Int} {s : State π}
    (hr : Reachable O H h s) : BlockInv H h s := by
  induction hr with
  | init h0 h0pos =>
    refine ⟨h0pos, empty_queueMatches, ?_, ?_⟩
    · intro j r hj; simp [State.empty] at hj
    · intro j; left; simp [State.empty, State.timerOf]
  | block b _ hb hH hok hc ih => exact execBlock_inv hO ih b hb hH hok hc

theorem atEndBlock_inv {O : PoolOracle π} (hO : TimeoutDecides O) {H h : Int} {s1 : State π}
    (ha : AtEndBlock O H h s1) : 0 < h ∧ h ≤ H ∧ LoopInv H h s1 := by
  cases ha with
  | mk b hr hb hH hok hst =>
    obtain ⟨hpos, hl⟩ := atEndBlock_of_inv (reachable_inv hO hr) b hb hH hok hst
    exact ⟨hpos, hH, hl⟩

theorem endBlock_queueMatches {O : PoolOracle π} {h : Int} {s s' : State π} {evs : List Ev}
    (hc : endBlock O h s = some (s', evs)) (hq : QueueMatches s) : QueueMatches s' := by
  obtain ⟨s1, evs1, evs2, h1, h2, _⟩ := endBlock_split hc
  exact finalizeAll_queueMatches h2 (finalizeAll_queueMatches h1 hq)

theorem execBlock_queueMatches {O : PoolOracle π} {b : Block π} {s s' : State π} {evs : List Ev}
    (hc : execBlock O b s = some (s', evs)) (hq : QueueMatches s) : QueueMatches s' := by
  unfold execBlock at hc
  split at hc
  · exact absurd hc (by simp)
  · rename_i s1 hst
    exact endBlock_queueMatches hc (steps_queueMatches hst (fun t j => hq t j))

theorem finalizeAll_suspendedClear {O : PoolOracle π} {h : Int} {t : Bool} {ids : List Nat}
    {s s' : State π} {evs : List Ev} (hc : finalizeAll O h t ids s = some (s', evs))
    (hq : SuspendedClear s) : SuspendedClear s' :=
  (finalizeAll_induct SuspendedClear (fun _ => True) tryFinalizeRound_suspendedClear ids s s' evs hq hc).1

theorem execBlock_suspendedClear {O : PoolOracle π} {b : Block π} {s s' : State π} {evs : List Ev}
    (hc : execBlock O b s = some (s', evs)) (hq : SuspendedClear s) : SuspendedClear s' := by
  unfold execBlock at hc
  split at hc
  · exact absurd hc (by simp)
  · rename_i s1 hst
    obtain ⟨s2, evs1, evs2, h1, h2, _⟩ := endBlock_split hc
    exact finalizeAll_suspendedClear h2 (finalizeAll_suspendedClear h1
      (steps_suspendedClear hst (fun j r hj => hq j r hj)))

theorem reachable_suspendedClear {O : PoolOracle π} {H h : Int} {s : State π} (hr : Reachable O H h s) :
    SuspendedClear s := by
  induction hr with
  | init h0 _ => intro j x hj; simp [State.empty] at hj
  | block b _ _ _ _ hc ih => exact execBlock_suspendedClear hc ih

/-! ### data for witnesses and non-vacuity examples -/

/-- A two-state pool: `false` = discrepancy detection with one vote missing, `true` = discrepancy
resolution without a majority yet. -/
def toyO : PoolOracle Bool where
  process := fun d t =>
    match d, t with
    | false, false => (false, .stillWaiting)
    | false, true => (true, .discrepancyDetected)
    | true, false => (true, .stillWaiting)
    | true, true => (true, .insufficientVotes)
  post := fun _ => .normal
  hasScheduler := fun _ => true
  reset := fun _ => false

theorem toyO_timeoutDecides : TimeoutDecides toyO := by
  intro p
  cases p <;> simp [toyO]

/-- The state a block leaves (`State.empty` if it failed). -/
def after (x : Option (State π × List Ev)) : State π := (x.getD (State.empty, [])).1

/-- The events a block logs. -/
def events (x : Option (State π × List Ev)) : List Ev := (x.getD (State.empty, [])).2

theorem eq_some_after {x : Option (State π × List Ev)} (h : x.isSome = true) :
    x = some (after x, events x) := by
  cases x with
  | none => exact absurd h (by simp)
  | some p => rfl

/-- Height 1: runtime 0 (round timeout `rt`) is created, gets a committee, its scheduler commits. -/
def blockCommit (h rt : Int) : Block Bool :=
  { height := h,
    steps := [.newRuntime 0 rt, .committeeChanged 0 false true false rt, .executorCommit 0 false true] }

/-- A late commitment of one member that does not make the round finalizable. -/
def blockStraggler (h : Int) : Block Bool := { height := h, steps := [.executorCommit 0 false false] }

def blockEmpty (h : Int) : Block Bool := { height := h, steps := [] }

theorem blockCommit_ok (H h rt : Int) (hrt : RtOk H rt) : (blockCommit h rt).Ok H := by
  intro st hm r hr
  simp only [blockCommit, List.mem_cons, List.not_mem_nil, or_false] at hm
  rcases hm with rfl | rfl | rfl <;> simp [Step.roundTimeout?] at hr <;> subst hr <;> exact hrt

theorem blockStraggler_ok (H h : Int) : (blockStraggler h).Ok H := by
  intro st hm r hr
  simp only [blockStraggler, List.mem_cons, List.not_mem_nil, or_false] at hm
  subst hm
  simp [Step.roundTimeout?] at hr

theorem rtOk_10_1 : RtOk 10 1 := by
  simp only [RtOk, two63]; omega

/-- A pool that keeps waiting even when the timer has expired (what `C11.timeout_decides` excludes). -/
def stuckO : PoolOracle Bool where
  process := fun d _ => (d, .stillWaiting)
  post := fun _ => .normal
  hasScheduler := fun _ => true
  reset := fun _ => false

/-- A reachable chain of two blocks (heights `h+1`, `h+2`) from the empty state. -/
theorem reachable_two {O : PoolOracle π} {H h : Int} (h0 : 0 ≤ h) (b1 b2 : Block π)
    (e1 : b1.height = h + 1) (e2 : b2.height = b1.height + 1) (hH : b2.height ≤ H)
    (ok1 : b1.Ok H) (ok2 : b2.Ok H)
    (r1 : (execBlock O b1 State.empty).isSome = true)
    (r2 : (execBlock O b2 (after (execBlock O b1 State.empty))).isSome = true) :
    Reachable O H b2.height (after (execBlock O b2 (after (execBlock O b1 State.empty)))) :=
  .block b2 (.block b1 (.init h h0) e1 (by omega) ok1 (eq_some_after r1)) e2 hH ok2 (eq_some_after r2)

theorem reachableSkipping_two {O : PoolOracle π} {H h : Int} (h0 : 0 ≤ h) (b1 b2 : Block π)
    (e1 : b1.height = h + 1) (e2 : b2.height = b1.height + 1) (hH : b2.height ≤ H)
    (ok1 : b1.Ok H) (ok2 : b2.Ok H)
    (r1 : (execBlockSkipping O b1 State.empty).isSome = true)
    (r2 : (execBlockSkipping O b2 (after (execBlockSkipping O b1 State.empty))).isSome = true) :
    ReachableSkipping O H b2.height
      (after (execBlockSkipping O b2 (after (execBlockSkipping O b1 State.empty)))) :=
  .block b2 (.block b1 (.init h h0) e1 (by omega) ok1 (eq_some_after r1)) e2 hH ok2 (eq_some_after r2)

/-- The real pool model as oracle, runtime messages always fine. -/
abbrev poolO : PoolOracle (Committee × Nat × Pool) := poolOracle (fun _ => Post.normal)

/-- workers 0,1,2 — backups 2,3,4 (node 2 in both roles); in round 4 node 2 is the scheduler of rank 0. -/
def exCommittee : Committee :=
  [⟨.worker, 0⟩, ⟨.worker, 1⟩, ⟨.worker, 2⟩, ⟨.backup, 2⟩, ⟨.backup, 3⟩, ⟨.backup, 4⟩]

/-- The pool after the given (node, hash) commitments for scheduler 2 in round 4, no stragglers allowed. -/
def exPool (l : List (Nat × Nat)) : Committee × Nat × Pool :=
  (exCommittee, 0, (run exCommittee 4 (l.map fun x =>
    Op.commit true { node := x.1, sched := 2, round := 4, hash := x.2, failure := false })).pool)

/-- Height 1: runtime 0 with round timeout 1 gets the committee; scheduler 2 commits result 7. -/
def poolBlock1 : Block (Committee × Nat × Pool) :=
  { height := 1,
    steps := [.newRuntime 0 1, .committeeChanged 0 false true (exPool []) 1,
              .executorCommit 0 (exPool [(2, 7)]) true] }

/-- Height 2 (the timer fires): backup worker 3 commits result 7 early; workers 0 and 1 never commit. -/
def poolBlock2 : Block (Committee × Nat × Pool) :=
  { height := 2, steps := [.executorCommit 0 (exPool [(2, 7), (3, 7)]) false] }

theorem poolBlock1_ok : poolBlock1.Ok 10 := by
  intro st hm r hr
  simp only [poolBlock1, List.mem_cons, List.not_mem_nil, or_false] at hm
  rcases hm with rfl | rfl | rfl <;> simp [Step.roundTimeout?] at hr <;> subst hr <;> exact rtOk_10_1

theorem poolBlock2_ok : poolBlock2.Ok 10 := by
  intro st hm r hr
  simp only [poolBlock2, List.mem_cons, List.not_mem_nil, or_false] at hm
  subst hm
  simp [Step.roundTimeout?] at hr

end OasisProofs.Roothash.Timer
