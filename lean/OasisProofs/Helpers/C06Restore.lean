import OasisModel.NodeDB.BadgerRestore
import OasisProofs.Props.C06
/-
Helper lemmas for `OasisProofs/Props/C06Restore.lean` (property C06, badger backend, checkpoint
restore into a non-empty database): the invariant `RestoredInv` ("every node of the restored tree
and its root node key have a live entry at EXACTLY the timestamp of the restored version"), how a
completed restore establishes it and which operations preserve it, and what it implies.
-/
namespace OasisProofs.C06Restore
open OasisModel.NodeDB OasisModel.NodeDB.Badger OasisProofs.C06

/-! ### MVCC -/

/-- An entry written at exactly timestamp `t` is what a reader at `t` sees. -/
theorem get_of_at (m : MV) (k t : Nat) (b : Bool) (h : m.at k t = some b) : m.get k t = some (t, b) := by
  cases t with
  | zero => simp [MV.get, h]
  | succ t => simp [MV.get, h]

/-- Writes at another timestamp leave the entry at timestamp `t` alone. -/
theorem at_writeAll_ne (m : MV) (ks : List Nat) (w : Nat) (b : Bool) (k t : Nat) (h : w ≠ t) :
    (m.writeAll ks w b).at k t = m.at k t := by
  rw [at_writeAll]
  have : ¬ (k ∈ ks ∧ w = t) := fun hc => h hc.2
  rw [if_neg this]

/-- Value writes keep a value entry at every timestamp. -/
theorem at_writeAll_true (m : MV) (ks : List Nat) (w : Nat) (k t : Nat) (h : m.at k t = some true) :
    (m.writeAll ks w true).at k t = some true := by
  rw [at_writeAll]
  split
  · rfl
  · exact h

theorem at_write_ne (m : MV) (k w : Nat) (b : Bool) (k' t : Nat) (h : w ≠ t) :
    (m.write k w b).at k' t = m.at k' t := by
  rw [at_write]
  have : ¬ (k = k' ∧ w = t) := fun hc => h hc.2
  rw [if_neg this]

theorem at_write_true (m : MV) (k w : Nat) (k' t : Nat) (h : m.at k' t = some true) :
    (m.write k w true).at k' t = some true := by
  rw [at_write]
  split
  · rfl
  · exact h

/-! ### the invariant -/

/-- **The invariant of a restored root.** Every node of the restored tree has an entry written at
exactly the timestamp of the restored version, and it is a value (not a tombstone); likewise the
root node key; the version is inside the window; some version is finalized (so `earliest` is no
longer re-initialised by `setLastFinalizedVersion`). -/
structure RestoredInv (new : Root) (nodes : List Nat) (s : St) : Prop where
  nodesAt : ∀ n ∈ nodes, s.node.at n new.ver = some true
  rootAt : s.rootNode.at (encTH (new.typ, new.hash)) new.ver = some true
  window : s.earliest ≤ new.ver
  hasLast : s.last.isNone = false
  reported : hasKey (s.rmeta new.ver) (new.typ, new.hash) = true

/-- A completed restore that wrote (at least) `nodes` establishes the invariant. -/
theorem inv_restoreCore (s : St) (new : Root) (nodes written : List Nat)
    (hsub : ∀ n ∈ nodes, n ∈ written)
    (hwin : ∀ l, s.last = some l → s.earliest ≤ new.ver) :
    RestoredInv new nodes (restoreCore s new written) := by
  refine ⟨fun n hn => ?_, ?_, ?_, rfl, ?_⟩
  rotate_right
  · simp [restoreCore, St.rmeta, getMeta_cons, hasKey]
  · show (s.node.writeAll written new.ver true).at n new.ver = some true
    rw [at_writeAll]
    simp [hsub n hn]
  · show (s.rootNode.write (encTH (new.typ, new.hash)) new.ver true).at _ new.ver = some true
    rw [at_write]; simp
  · show (if s.last.isNone then new.ver else s.earliest) ≤ new.ver
    cases hl : s.last with
    | none => simp
    | some l => simpa using hwin l hl

/-- `Prune(v)` of an older version writes its tombstones at timestamp `v < new.ver`. -/
theorem inv_pruneSt (clv : Nat → List Nat) (new : Root) (nodes : List Nat) (s : St) (v : Nat)
    (hv : v < new.ver) (h : RestoredInv new nodes s) : RestoredInv new nodes (pruneSt clv s v) := by
  have hne : v ≠ new.ver := by omega
  refine ⟨fun n hn => ?_, ?_, ?_, h.hasLast, ?_⟩
  rotate_right
  · have : (pruneSt clv s v).rmeta new.ver = s.rmeta new.ver := by
      simp [pruneSt, St.rmeta, getMeta_cons, hne]
    rw [this]; exact h.reported
  · show (s.node.writeAll (pruneDels clv s v) v false).at n new.ver = some true
    rw [at_writeAll_ne _ _ _ _ _ _ hne]; exact h.nodesAt n hn
  · show (s.rootNode.writeAll ((loneRoots s v).map (fun e => encTH e.1)) v false).at _ new.ver = some true
    rw [at_writeAll_ne _ _ _ _ _ _ hne]; exact h.rootAt
  · show v + 1 ≤ new.ver
    omega

/-- `Finalize(v)` of another version writes its tombstones at timestamp `v ≠ new.ver`. -/
theorem inv_finalizeSt (new : Root) (nodes : List Nat) (s : St) (v : Nat) (ch : List Root)
    (hv : v ≠ new.ver) (h : RestoredInv new nodes s) : RestoredInv new nodes (finalizeSt s v ch) := by
  refine ⟨fun n hn => ?_, h.rootAt, ?_, rfl, ?_⟩
  rotate_right
  · have : (finalizeSt s v ch).rmeta new.ver = s.rmeta new.ver := by
      simp [finalizeSt, St.rmeta, getMeta_cons, hv]
    rw [this]; exact h.reported
  · show (s.node.writeAll (finPlan s v (chosenTH ch)).dels v false).at n new.ver = some true
    rw [at_writeAll_ne _ _ _ _ _ _ hv]; exact h.nodesAt n hn
  · show (if s.last.isNone then v else s.earliest) ≤ new.ver
    rw [h.hasLast]; exact h.window

/-- A commit only writes values (at whatever version). -/
theorem inv_commitSt (new : Root) (nodes : List Nat) (s : St) (o n : Root) (a r : List Nat)
    (h : RestoredInv new nodes s) : RestoredInv new nodes (commitSt s o n a r) := by
  refine ⟨fun x hx => ?_, ?_, h.window, h.hasLast, ?_⟩
  rotate_right
  · rw [hasKey_commitSt, h.reported]; rfl
  · show (s.node.writeAll a n.ver true).at x new.ver = some true
    exact at_writeAll_true _ _ _ _ _ (h.nodesAt x hx)
  · show (s.rootNode.write (encTH (n.typ, n.hash)) n.ver true).at _ new.ver = some true
    exact at_write_true _ _ _ _ _ h.rootAt

theorem inv_pruneAll (clv : Nat → List Nat) (new : Root) (nodes : List Nat) (vs : List Nat) (s : St)
    (hvs : ∀ v ∈ vs, v < new.ver) (h : RestoredInv new nodes s) :
    RestoredInv new nodes (pruneAll clv s vs) := by
  induction vs generalizing s with
  | nil => exact h
  | cons v vs ih =>
    simp only [pruneAll, List.foldl_cons]
    exact ih _ (fun w hw => hvs w (List.mem_cons_of_mem _ hw))
      (inv_pruneSt clv new nodes s v (hvs v (by simp)) h)

/-- What the invariant is for: the restored root is fully readable. -/
theorem inv_readable (cl : Nat → List Nat) (new : Root) (nodes : List Nat) (s : St)
    (hcl : ∀ n ∈ cl new.hash, n ∈ nodes) (h : RestoredInv new nodes s) :
    readable cl s new = true := by
  unfold readable
  by_cases h0 : (new.hash == 0) = true
  · simp [h0]
  · simp only [h0, Bool.false_or, List.all_eq_true]
    intro n hn
    unfold nodeVisible
    simp [h.window, live_of_at _ _ _ h.rootAt, live_of_at _ _ _ (h.nodesAt n (hcl n hn))]

/-! ### histories of accepted operations -/

/-- The last finalized version is at or above the restored one (so a later `Finalize` is only
accepted above it, and an accepted `Prune` below the window's end). -/
def LastGE (new : Root) (s : St) : Prop := ∃ l, s.last = some l ∧ new.ver ≤ l

theorem finalize_ok_above {s s' : St} {v : Nat} {ch : List Root} (h : Badger.finalize s v ch = .ok s')
    {l : Nat} (hl : s.last = some l) : l < v := by
  obtain ⟨he, _⟩ := bfinalize_ok_inv h
  unfold finalizeErr at he
  by_cases g1 : ch.isEmpty = true
  · simp [g1] at he
  · simp only [g1] at he
    by_cases g2 : Badger.gapBefore s v = true
    · simp [g2] at he
    · simp only [g2] at he
      by_cases g3 : Badger.finalizedGE s v = true
      · simp [g3] at he
      · simp only [Badger.finalizedGE, hl, decide_eq_true_eq] at g3
        omega

/-- One step of a history (refused operations leave the state alone) keeps the invariant, unless it
is the prune of the restored version itself. -/
theorem inv_bstep (cl clv : Nat → List Nat) (new : Root) (nodes : List Nat) (s : St) (op : BOp)
    (hop : op ≠ .prune new.ver) (h : RestoredInv new nodes s) (hl : LastGE new s) :
    RestoredInv new nodes (bstep cl clv s op) ∧ LastGE new (bstep cl clv s op) := by
  cases op with
  | commit o n a r =>
    simp only [bstep]
    cases hc : Badger.commit s o n a r with
    | error e => exact ⟨h, hl⟩
    | ok s' =>
      simp only
      rw [bcommit_ok_inv hc]
      split
      · exact ⟨h, hl⟩
      · exact ⟨inv_commitSt new nodes s o n a r h, hl⟩
  | finalize v ch =>
    simp only [bstep]
    cases hf : Badger.finalize s v ch with
    | error e => exact ⟨h, hl⟩
    | ok s' =>
      simp only
      obtain ⟨l, hl1, hl2⟩ := hl
      have hlt := finalize_ok_above hf hl1
      rw [(bfinalize_ok_inv hf).2]
      exact ⟨inv_finalizeSt new nodes s v ch (by omega) h, ⟨v, rfl, by omega⟩⟩
  | prune v =>
    simp only [bstep]
    cases hp : Badger.prune cl clv s v with
    | error e => exact ⟨h, hl⟩
    | ok s' =>
      simp only
      obtain ⟨he, hs'⟩ := bprune_ok_inv hp
      obtain ⟨_, hearl, _⟩ := bpruneErr_none he
      have hne : v ≠ new.ver := fun e => hop (by rw [e])
      have hw := h.window
      rw [hs']
      exact ⟨inv_pruneSt clv new nodes s v (by omega) h, hl⟩

theorem inv_brun (cl clv : Nat → List Nat) (new : Root) (nodes : List Nat) (ops : List BOp) (s : St)
    (hops : ∀ op ∈ ops, op ≠ .prune new.ver) (h : RestoredInv new nodes s) (hl : LastGE new s) :
    RestoredInv new nodes (brun cl clv s ops) ∧ LastGE new (brun cl clv s ops) := by
  induction ops generalizing s with
  | nil => exact ⟨h, hl⟩
  | cons op ops ih =>
    simp only [brun, List.foldl_cons]
    obtain ⟨h1, h2⟩ := inv_bstep cl clv new nodes s op (hops op (by simp)) h hl
    exact ih _ (fun o ho => hops o (List.mem_cons_of_mem _ ho)) h1 h2

theorem winOK_init : WinOK Badger.init :=
  ⟨fun l hl => by simp [Badger.init] at hl, fun _ => rfl⟩

theorem winOK_brun (cl clv : Nat → List Nat) (ops : List BOp) (s : St) (h : WinOK s) :
    WinOK (brun cl clv s ops) := by
  induction ops generalizing s with
  | nil => exact h
  | cons op ops ih =>
    simp only [brun, List.foldl_cons]
    exact ih _ (winOK_step cl clv s op h)

/-- What the invariant says in the vocabulary of `Badger.lean`: the entry a reader of the restored
version sees is the one written by the restore, so it is `shielded` against a tombstone written at
ANY earlier timestamp. -/
theorem inv_shielded (new : Root) (nodes : List Nat) (s : St) (h : RestoredInv new nodes s)
    (n : Nat) (hn : n ∈ nodes) (v : Nat) (hv : v < new.ver) :
    s.node.get n new.ver = some (new.ver, true) ∧ shielded s n v new.ver = true := by
  have hg := get_of_at _ _ _ _ (h.nodesAt n hn)
  refine ⟨hg, ?_⟩
  unfold shielded
  rw [hg]
  simpa using hv


/-! ### the restore chunk by chunk reaches the state `restoreSt` describes -/

/-- What readers, `Finalize` and `Prune` can tell about a state: the entry per key and timestamp of
both key spaces, the roots metadata, the updated-nodes index, the window.  (The association lists may
differ in shadowed bindings: several chunk batches write the same root node key.) -/
structure SameObs (a b : St) : Prop where
  node : a.node = b.node
  rootNode : ∀ k t, a.rootNode.at k t = b.rootNode.at k t
  rmeta : ∀ v, a.rmeta v = b.rmeta v
  upd : ∀ v x, a.upd v x = b.upd v x
  last : a.last = b.last
  earliest : a.earliest = b.earliest

theorem writeAll_append (m : MV) (a c : List Nat) (ts : Nat) (b : Bool) :
    (m.writeAll a ts b).writeAll c ts b = m.writeAll (a ++ c) ts b := by
  simp [MV.writeAll, List.foldl_append]

theorem getUpd_cons (l : List ((Nat × TH) × Option (List (Bool × Nat)))) (k : Nat × TH)
    (x : Option (List (Bool × Nat))) (v : Nat) (th : TH) :
    getUpd ((k, x) :: l) v th = if k = (v, th) then x else getUpd l v th := rfl

/-- A later chunk batch of the same restore: the root exists already, only nodes are added. -/
theorem chunkCommit_present (new : Root) (c : List Nat) (s : St)
    (hk : hasKey (s.rmeta new.ver) (new.typ, new.hash) = true)
    (hr : s.rootNode.at (encTH (new.typ, new.hash)) new.ver = some true)
    (hu : s.upd new.ver (new.typ, new.hash) = some []) :
    (chunkCommitSt s new c).node = s.node.writeAll c new.ver true ∧
    (∀ k t, (chunkCommitSt s new c).rootNode.at k t = s.rootNode.at k t) ∧
    (chunkCommitSt s new c).rmetaL = s.rmetaL ∧
    (∀ v x, (chunkCommitSt s new c).upd v x = s.upd v x) ∧
    (chunkCommitSt s new c).last = s.last ∧ (chunkCommitSt s new c).earliest = s.earliest := by
  refine ⟨rfl, fun k t => ?_, ?_, fun v x => ?_, rfl, rfl⟩
  · show (s.rootNode.write (encTH (new.typ, new.hash)) new.ver true).at k t = _
    rw [at_write]
    split
    · next h => rw [← h.1, ← h.2, hr]
    · rfl
  · simp [chunkCommitSt, hk]
  · show getUpd (((new.ver, (new.typ, new.hash)), some []) :: s.updL) v x = getUpd s.updL v x
    rw [getUpd_cons]
    split
    · next h =>
      have h1 : new.ver = v := congrArg Prod.fst h
      have h2 : (new.typ, new.hash) = x := congrArg Prod.snd h
      rw [← h1, ← h2]; exact hu.symm
    · rfl

theorem importChunks_present (new : Root) (cs : List (List Nat)) : ∀ (s : St),
    hasKey (s.rmeta new.ver) (new.typ, new.hash) = true →
    s.rootNode.at (encTH (new.typ, new.hash)) new.ver = some true →
    s.upd new.ver (new.typ, new.hash) = some [] →
    (importChunks s new cs).node = s.node.writeAll cs.flatten new.ver true ∧
    (∀ k t, (importChunks s new cs).rootNode.at k t = s.rootNode.at k t) ∧
    (importChunks s new cs).rmetaL = s.rmetaL ∧
    (∀ v x, (importChunks s new cs).upd v x = s.upd v x) ∧
    (importChunks s new cs).last = s.last ∧ (importChunks s new cs).earliest = s.earliest := by
  induction cs with
  | nil =>
    intro s _ _ _
    exact ⟨by simp [importChunks, MV.writeAll], fun _ _ => rfl, rfl, fun _ _ => rfl, rfl, rfl⟩
  | cons c cs ih =>
    intro s hk hr hu
    obtain ⟨a1, a2, a3, a4, a5, a6⟩ := chunkCommit_present new c s hk hr hu
    have hk' : hasKey ((chunkCommitSt s new c).rmeta new.ver) (new.typ, new.hash) = true := by
      unfold St.rmeta; rw [a3]; exact hk
    obtain ⟨b1, b2, b3, b4, b5, b6⟩ := ih (chunkCommitSt s new c) hk'
      (by rw [a2]; exact hr) (by rw [a4]; exact hu)
    have e : importChunks s new (c :: cs) = importChunks (chunkCommitSt s new c) new cs := rfl
    rw [e]
    refine ⟨?_, fun k t => by rw [b2, a2], by rw [b3, a3], fun v x => by rw [b4, a4],
      by rw [b5, a5], by rw [b6, a6]⟩
    rw [b1, a1, writeAll_append, List.flatten_cons]

theorem closeStep_mem (rm : List (TH × List TH)) (fin : List TH) (x : TH) (h : x ∈ fin) :
    x ∈ closeStep rm fin := by
  unfold closeStep
  induction rm generalizing fin with
  | nil => exact h
  | cons e rm ih =>
    simp only [List.foldl_cons]
    apply ih
    split
    · exact List.mem_append_left _ h
    · exact h

/-- The closure of `Finalize` only adds roots. -/
theorem closeFin_mem (rm : List (TH × List TH)) (fin : List TH) (x : TH) (h : x ∈ fin) :
    x ∈ closeFin rm fin := by
  unfold closeFin
  generalize List.range (rm.length + 1) = l
  induction l generalizing fin with
  | nil => exact h
  | cons a l ih =>
    simp only [List.foldl_cons]
    exact ih _ (closeStep_mem rm fin x h)

/-- `Finalize` deletes no node when the updated-nodes index of every root of the version is empty
(which is what chunk batches store). -/
theorem finPlan_dels_nil (m : St) (v : Nat) (ch : List TH) (h : ∀ e ∈ m.rmeta v, updOf m v e.1 = []) :
    (finPlan m v ch).dels = [] := by
  have hm : (finPlan m v ch).maybeLone = [] := by
    simp only [finPlan, List.flatMap_eq_nil_iff]
    intro e he
    rw [h e he]; simp
  show (finPlan m v ch).maybeLone.filter _ = []
  rw [hm]; rfl

/-- **Chunk by chunk = `restoreSt`.** Importing the (non-empty list of) chunks one chunk batch at a
time into a database with no root at the restored version and then running the ordinary `Finalize`
gives a state with the same observations as `restoreSt` with `nodes` = all the chunks' nodes. -/
theorem restoreChunks_sameObs (s : St) (new : Root) (c : List Nat) (cs : List (List Nat))
    (hfresh : s.rmeta new.ver = []) :
    SameObs (restoreChunksSt s new (c :: cs)) (restoreSt s new (c :: cs).flatten) := by
  -- the first chunk batch creates the root
  have f1 : (chunkCommitSt s new c).rmetaL = (new.ver, [((new.typ, new.hash), [])]) :: s.rmetaL := by
    simp [chunkCommitSt, hfresh, hasKey]
  have f2 : hasKey ((chunkCommitSt s new c).rmeta new.ver) (new.typ, new.hash) = true := by
    unfold St.rmeta; rw [f1]; simp [getMeta_cons, hasKey]
  have f3 : (chunkCommitSt s new c).rootNode.at (encTH (new.typ, new.hash)) new.ver = some true := by
    show (s.rootNode.write _ new.ver true).at _ new.ver = some true
    rw [at_write]; simp
  have f4 : (chunkCommitSt s new c).upd new.ver (new.typ, new.hash) = some [] := by
    show getUpd (((new.ver, (new.typ, new.hash)), some []) :: s.updL) _ _ = some []
    rw [getUpd_cons]; simp
  obtain ⟨b1, b2, b3, b4, b5, b6⟩ := importChunks_present new cs (chunkCommitSt s new c) f2 f3 f4
  have e : importChunks s new (c :: cs) = importChunks (chunkCommitSt s new c) new cs := rfl
  -- the state before Finalize
  have g1 : (importChunks s new (c :: cs)).node = s.node.writeAll (c :: cs).flatten new.ver true := by
    rw [e, b1, List.flatten_cons, ← writeAll_append]; rfl
  have g3 : (importChunks s new (c :: cs)).rmetaL = (new.ver, [((new.typ, new.hash), [])]) :: s.rmetaL := by
    rw [e, b3, f1]
  have g3' : (importChunks s new (c :: cs)).rmeta new.ver = [((new.typ, new.hash), [])] := by
    unfold St.rmeta; rw [g3]; simp [getMeta_cons]
  have g4 : (importChunks s new (c :: cs)).upd new.ver (new.typ, new.hash) = some [] := by
    rw [e, b4]; exact f4
  have hd : (finPlan (importChunks s new (c :: cs)) new.ver (chosenTH [new])).dels = [] := by
    apply finPlan_dels_nil
    intro x hx
    rw [g3'] at hx
    simp only [List.mem_singleton] at hx
    subst hx
    simp [updOf, g4]
  have hkeep : (finPlan (importChunks s new (c :: cs)) new.ver (chosenTH [new])).keep =
      [((new.typ, new.hash), [])] := by
    show ((importChunks s new (c :: cs)).rmeta new.ver).filter
      (fun x => (closeFin ((importChunks s new (c :: cs)).rmeta new.ver) (chosenTH [new])).contains x.1) = _
    rw [g3']
    have hm : (new.typ, new.hash) ∈ closeFin [((new.typ, new.hash), ([] : List TH))] (chosenTH [new]) :=
      closeFin_mem _ _ _ (by simp [chosenTH])
    simp [List.filter, hm]
  refine ⟨?_, fun k t => ?_, fun v => ?_, fun v x => ?_, rfl, ?_⟩
  · show ((importChunks s new (c :: cs)).node.writeAll
      (finPlan (importChunks s new (c :: cs)) new.ver (chosenTH [new])).dels new.ver false) = _
    rw [hd, g1]; rfl
  · show (importChunks s new (c :: cs)).rootNode.at k t = (s.rootNode.write _ new.ver true).at k t
    rw [e, b2]; rfl
  · show getMeta ((new.ver, (finPlan (importChunks s new (c :: cs)) new.ver (chosenTH [new])).keep) ::
      (importChunks s new (c :: cs)).rmetaL) v = getMeta ((new.ver, [((new.typ, new.hash), [])]) :: s.rmetaL) v
    rw [hkeep, g3]
    simp only [getMeta_cons]
    split <;> rfl
  · show getUpd (((importChunks s new (c :: cs)).rmeta new.ver).map (fun x => ((new.ver, x.1), none)) ++
      (importChunks s new (c :: cs)).updL) v x = getUpd (((new.ver, (new.typ, new.hash)), none) :: s.updL) v x
    rw [g3']
    simp only [List.map_cons, List.map_nil, List.cons_append, List.nil_append, getUpd_cons]
    split
    · rfl
    · next hne =>
      have := b4 v x
      unfold St.upd at this
      rw [e, this]
      show getUpd (((new.ver, (new.typ, new.hash)), some []) :: s.updL) v x = _
      rw [getUpd_cons, if_neg hne]
  · show (if (importChunks s new (c :: cs)).last.isNone then new.ver else (importChunks s new (c :: cs)).earliest) =
      (if s.last.isNone then new.ver else s.earliest)
    rw [e, b5, b6]; rfl

/-- The invariant only looks at observations. -/
theorem inv_of_sameObs (new : Root) (nodes : List Nat) (a b : St) (h : SameObs a b)
    (hb : RestoredInv new nodes b) : RestoredInv new nodes a :=
  ⟨fun n hn => by rw [h.node]; exact hb.nodesAt n hn, by rw [h.rootNode]; exact hb.rootAt,
   by rw [h.earliest]; exact hb.window, by rw [h.last]; exact hb.hasLast,
   by rw [h.rmeta]; exact hb.reported⟩

/-! ### restore against older versions -/

/-- A restore writes only at the timestamp of the restored version: whatever it writes, readers of
earlier timestamps see the same entries. -/
theorem restoreCore_frame (s : St) (new : Root) (written : List Nat) (k t : Nat) (ht : t < new.ver) :
    (restoreCore s new written).node.get k t = s.node.get k t ∧
    (restoreCore s new written).rootNode.get k t = s.rootNode.get k t :=
  ⟨get_writeAll_lt _ _ _ _ _ _ ht, get_write_frame _ _ _ _ _ _ (Or.inr ht)⟩

theorem restoreCore_readable_older (cl : Nat → List Nat) (s : St) (new : Root) (written : List Nat)
    (hlast : s.last.isNone = false) (r : Root) (hr : r.ver < new.ver) :
    readable cl (restoreCore s new written) r = readable cl s r := by
  apply readable_congr
  · show (if s.last.isNone then new.ver else s.earliest) = s.earliest
    rw [hlast]; rfl
  · intro k; exact (restoreCore_frame s new written k _ hr).1
  · intro k; exact (restoreCore_frame s new written k _ hr).2

/-- The skipped nodes were visible and the written ones are: right after the restore the seeded
variant reads back completely too. -/
theorem skip_nodes_live (s : St) (new : Root) (nodes : List Nat) (n : Nat) (hn : n ∈ nodes) :
    (restoreSkipVisibleSt s new nodes).node.live n new.ver = true := by
  show (s.node.writeAll (notVisible s new nodes) new.ver true).live n new.ver = true
  by_cases hv : s.node.live n new.ver = true
  · exact live_writeAll_true_mono _ _ _ _ _ hv
  · apply live_writeAll_true_mem
    simp only [notVisible, List.mem_filter]
    exact ⟨hn, by simpa using hv⟩

end OasisProofs.C06Restore
