import OasisModel.Scheduler.Elect
import OasisModel.Scheduler.Spec
/-
Lemmas about the validator part of the election model (C14): voting power, the validator map,
the elect loop and the visiting sequence.
-/
namespace OasisProofs.SchedulerH
open OasisModel.Scheduler

/-! ### voting power -/

theorem sqrt_mono {a b : Nat} (h : a ≤ b) : Nat.sqrt a ≤ Nat.sqrt b := by
  by_cases hlt : Nat.sqrt a ≤ Nat.sqrt b
  · exact hlt
  · exfalso
    have h1 : Nat.sqrt b + 1 ≤ Nat.sqrt a := by omega
    have h2 := Nat.mul_self_le_mul_self h1
    have h3 := Nat.sqrt_le a
    have h4 := Nat.lt_succ_sqrt b
    simp only [Nat.succ_eq_add_one] at h4
    omega

theorem sqrt_pos {a : Nat} (h : 0 < a) : 0 < Nat.sqrt a := by
  by_cases h0 : Nat.sqrt a = 0
  · have := Nat.lt_succ_sqrt a
    simp [h0] at this
    omega
  · omega

/-- The scaled quantity of `VotingPowerFromStake`. -/
def scaled (stake dist : Nat) : Nat := if dist = 0 then stake / baseUnitsPerVotingPower else stake

/-- The magnitude before the int64 check. -/
def magnitude (stake dist : Nat) : Nat :=
  if scaled stake dist = 0 then 1 else if dist = 1 then Nat.sqrt (scaled stake dist) else scaled stake dist

theorem scaled_mono (dist : Nat) {a b : Nat} (h : a ≤ b) : scaled a dist ≤ scaled b dist := by
  unfold scaled
  split
  · exact Nat.div_le_div_right h
  · exact h

theorem magnitude_pos (stake dist : Nat) : 1 ≤ magnitude stake dist := by
  unfold magnitude
  split
  · exact Nat.le_refl 1
  · split
    · exact sqrt_pos (by omega)
    · omega

theorem magnitude_mono (dist : Nat) {a b : Nat} (h : a ≤ b) : magnitude a dist ≤ magnitude b dist := by
  have hs := scaled_mono dist h
  unfold magnitude
  by_cases ha : scaled a dist = 0
  · simp only [ha, if_true]
    have := magnitude_pos b dist
    unfold magnitude at this
    exact this
  · have hb : scaled b dist ≠ 0 := by omega
    simp only [ha, hb, if_false]
    split
    · exact sqrt_mono hs
    · exact hs

theorem votingPower_eq (stake dist : Nat) :
    votingPower stake dist =
      if magnitude stake dist < 2 ^ 63 then some (magnitude stake dist : Int) else none := by
  unfold votingPower magnitude scaled
  by_cases h0 : (if dist = 0 then stake / baseUnitsPerVotingPower else stake) = 0
  · simp [h0]
  · simp only [h0, if_false]

/-! ### the validator map -/

def keysOf (m : VMap) : List Nat := m.map (·.1)

theorem upsert_length_le (m : VMap) (k : Nat) (v : Validator) : (upsert m k v).length ≤ m.length + 1 := by
  induction m with
  | nil => simp [upsert]
  | cons x xs ih =>
    obtain ⟨k', v'⟩ := x
    simp only [upsert]
    split
    · simp
    · simp only [List.length_cons]; omega

theorem upsert_length_pos (m : VMap) (k : Nat) (v : Validator) : 1 ≤ (upsert m k v).length := by
  cases m with
  | nil => simp [upsert]
  | cons x xs =>
    obtain ⟨k', v'⟩ := x
    simp only [upsert]
    split <;> simp

theorem mem_upsert {m : VMap} {k : Nat} {v : Validator} {x : Nat × Validator} (h : x ∈ upsert m k v) :
    x = (k, v) ∨ x ∈ m := by
  induction m with
  | nil => simp [upsert] at h; exact Or.inl h
  | cons y ys ih =>
    obtain ⟨k', v'⟩ := y
    simp only [upsert] at h
    split at h
    · rcases List.mem_cons.1 h with h | h
      · exact Or.inl h
      · exact Or.inr (List.mem_cons_of_mem _ h)
    · rcases List.mem_cons.1 h with h | h
      · exact Or.inr (h ▸ List.mem_cons_self)
      · rcases ih h with h | h
        · exact Or.inl h
        · exact Or.inr (List.mem_cons_of_mem _ h)

theorem upsert_of_not_mem {m : VMap} {k : Nat} {v : Validator} (h : k ∉ keysOf m) :
    upsert m k v = m ++ [(k, v)] := by
  induction m with
  | nil => simp [upsert]
  | cons y ys ih =>
    obtain ⟨k', v'⟩ := y
    simp only [keysOf, List.map_cons, List.mem_cons, not_or] at h
    simp only [upsert]
    have : ¬ k' = k := fun e => h.1 e.symm
    simp only [this, if_false, List.cons_append]
    rw [ih h.2]

theorem countValEnt_upsert_le (e : Nat) (m : VMap) (k : Nat) (v : Validator) :
    countValEnt e (upsert m k v) ≤ countValEnt e m + (if v.entity = e then 1 else 0) := by
  unfold countValEnt
  induction m with
  | nil =>
    simp only [upsert, List.countP_cons, List.countP_nil, beq_iff_eq]
    split <;> simp
  | cons y ys ih =>
    obtain ⟨k', v'⟩ := y
    simp only [upsert]
    split
    · simp only [List.countP_cons, beq_iff_eq]
      split <;> split <;> omega
    · simp only [List.countP_cons, beq_iff_eq] at ih ⊢
      split <;> omega

theorem mem_keysOf_upsert {m : VMap} {k : Nat} {v : Validator} {j : Nat} :
    j ∈ keysOf (upsert m k v) ↔ j = k ∨ j ∈ keysOf m := by
  induction m with
  | nil => simp [upsert, keysOf]
  | cons y ys ih =>
    obtain ⟨k', v'⟩ := y
    simp only [upsert]
    split
    · rename_i hk
      simp only [keysOf, List.map_cons, List.mem_cons]
      constructor
      · rintro (h | h)
        · exact Or.inl h
        · exact Or.inr (Or.inr h)
      · rintro (h | h | h)
        · exact Or.inl h
        · exact Or.inl (h.trans hk)
        · exact Or.inr h
    · simp only [keysOf, List.map_cons, List.mem_cons] at ih ⊢
      rw [ih]
      constructor
      · rintro (h | h | h)
        · exact Or.inr (Or.inl h)
        · exact Or.inl h
        · exact Or.inr (Or.inr h)
      · rintro (h | h | h)
        · exact Or.inr (Or.inl h)
        · exact Or.inl h
        · exact Or.inr (Or.inr h)

theorem upsert_keys_nodup (m : VMap) (k : Nat) (v : Validator) (h : (keysOf m).Nodup) :
    (keysOf (upsert m k v)).Nodup := by
  induction m with
  | nil => simp [upsert, keysOf]
  | cons y ys ih =>
    obtain ⟨k', v'⟩ := y
    have hnd : k' ∉ keysOf ys ∧ (keysOf ys).Nodup := by
      simpa [keysOf] using h
    simp only [upsert]
    split
    · rename_i hk
      rw [← hk]
      simpa [keysOf] using h
    · rename_i hk
      have : (keysOf ((k', v') :: upsert ys k v)) = k' :: keysOf (upsert ys k v) := rfl
      rw [this, List.nodup_cons]
      refine ⟨?_, ih hnd.2⟩
      intro hmem
      rcases mem_keysOf_upsert.1 hmem with h1 | h1
      · exact hk h1
      · exact hnd.1 h1

/-! ### the elect loop -/

/-- The entry the loop writes for a node. -/
def entryOf (_p : Params) (_st : Staking) (n : Node) (pw : Int) : Nat × Validator :=
  (n.consensus, ⟨n.id, n.entity, pw⟩)

theorem electLoop_prefix (p : Params) (st : Staking) :
    ∀ (seq : List Node) (m0 m : VMap) (vis : List Node), electLoop p st seq m0 = some (m, vis) →
      ∃ rest, seq = vis ++ rest := by
  intro seq
  induction seq with
  | nil => intro m0 m vis h; simp [electLoop] at h; exact ⟨[], by simp [h.2]⟩
  | cons n rest ih =>
    intro m0 m vis h
    simp only [electLoop] at h
    split at h
    · simp at h
    · rename_i pw hpw
      split at h
      · simp at h; exact ⟨rest, by simp [← h.2]⟩
      · split at h
        · simp at h
        · rename_i r vis' hrec
          simp at h
          obtain ⟨rest', hr⟩ := ih _ _ _ hrec
          exact ⟨rest', by rw [← h.2, hr]; simp⟩

/-- Every entry of the result is an initial entry or was written for a visited node, with the
voting power of that node's entity. -/
theorem electLoop_entries (p : Params) (st : Staking) :
    ∀ (seq : List Node) (m0 m : VMap) (vis : List Node), electLoop p st seq m0 = some (m, vis) →
      ∀ x ∈ m, x ∈ m0 ∨ ∃ n ∈ vis, ∃ pw, powerOf p st n.entity = some pw ∧ x = entryOf p st n pw := by
  intro seq
  induction seq with
  | nil => intro m0 m vis h; simp [electLoop] at h; intro x hx; exact Or.inl (h.1 ▸ hx)
  | cons n rest ih =>
    intro m0 m vis h x hx
    simp only [electLoop] at h
    split at h
    · simp at h
    · rename_i pw hpw
      split at h
      · simp at h
        obtain ⟨rfl, rfl⟩ := h
        rcases mem_upsert hx with hx | hx
        · exact Or.inr ⟨n, by simp, pw, hpw, hx⟩
        · exact Or.inl hx
      · split at h
        · simp at h
        · rename_i r vis' hrec
          simp at h
          obtain ⟨rfl, rfl⟩ := h
          rcases ih _ _ _ hrec x hx with hx | ⟨n', hn', pw', hp', hx'⟩
          · rcases mem_upsert hx with hx | hx
            · exact Or.inr ⟨n, by simp, pw, hpw, hx⟩
            · exact Or.inl hx
          · exact Or.inr ⟨n', List.mem_cons_of_mem _ hn', pw', hp', hx'⟩

/-- Size of the result: `MaxValidators`, but at least one once anything is visited. -/
theorem electLoop_length (p : Params) (st : Staking) :
    ∀ (seq : List Node) (m0 m : VMap) (vis : List Node), electLoop p st seq m0 = some (m, vis) →
      (m0.length : Int) < max p.maxValidators 1 → (m.length : Int) ≤ max p.maxValidators 1 := by
  intro seq
  induction seq with
  | nil => intro m0 m vis h hlt; simp [electLoop] at h; rw [← h.1]; omega
  | cons n rest ih =>
    intro m0 m vis h hlt
    simp only [electLoop] at h
    split at h
    · simp at h
    · rename_i pw hpw
      have hle := upsert_length_le m0 n.consensus ⟨n.id, n.entity, pw⟩
      split at h
      · simp at h
        rw [← h.1]; omega
      · rename_i hnot
        split at h
        · simp at h
        · rename_i r vis' hrec
          simp at h
          obtain ⟨rfl, rfl⟩ := h
          exact ih _ _ _ hrec (by omega)

/-- Nothing visited means nothing changed; something visited means a non-empty map. -/
theorem electLoop_nonempty (p : Params) (st : Staking) :
    ∀ (seq : List Node) (m0 m : VMap) (vis : List Node), electLoop p st seq m0 = some (m, vis) →
      (vis = [] → m = m0) ∧ (vis ≠ [] → 1 ≤ m.length) := by
  intro seq
  induction seq with
  | nil => intro m0 m vis h; simp [electLoop] at h; simp [h.1, h.2]
  | cons n rest ih =>
    intro m0 m vis h
    simp only [electLoop] at h
    split at h
    · simp at h
    · rename_i pw hpw
      have hpos := upsert_length_pos m0 n.consensus ⟨n.id, n.entity, pw⟩
      split at h
      · simp at h
        obtain ⟨rfl, rfl⟩ := h
        simp; exact hpos
      · split at h
        · simp at h
        · rename_i r vis' hrec
          simp at h
          obtain ⟨rfl, rfl⟩ := h
          have ⟨h1, h2⟩ := ih _ _ _ hrec
          refine ⟨by simp, fun _ => ?_⟩
          by_cases hv : vis' = []
          · rw [h1 hv]; exact hpos
          · exact h2 hv

theorem electLoop_count (p : Params) (st : Staking) (e : Nat) :
    ∀ (seq : List Node) (m0 m : VMap) (vis : List Node), electLoop p st seq m0 = some (m, vis) →
      countValEnt e m ≤ countValEnt e m0 + countEnt e vis := by
  intro seq
  induction seq with
  | nil => intro m0 m vis h; simp [electLoop] at h; rw [← h.1, h.2]; simp [countEnt]
  | cons n rest ih =>
    intro m0 m vis h
    simp only [electLoop] at h
    split at h
    · simp at h
    · rename_i pw hpw
      have hc := countValEnt_upsert_le e m0 n.consensus ⟨n.id, n.entity, pw⟩
      simp only at hc
      split at h
      · simp at h
        obtain ⟨rfl, rfl⟩ := h
        simp only [countEnt, List.countP_cons, List.countP_nil, beq_iff_eq]
        split <;> simp_all <;> omega
      · split at h
        · simp at h
        · rename_i r vis' hrec
          simp at h
          obtain ⟨rfl, rfl⟩ := h
          have := ih _ _ _ hrec
          simp only [countEnt, List.countP_cons, beq_iff_eq] at this ⊢
          split <;> simp_all <;> omega

/-- With pairwise distinct consensus keys nothing is overwritten: the result is the initial map
followed by one entry per visited node. -/
theorem electLoop_distinct (p : Params) (st : Staking) :
    ∀ (seq : List Node) (m0 m : VMap) (vis : List Node), electLoop p st seq m0 = some (m, vis) →
      (keysOf m0 ++ seq.map (·.consensus)).Nodup →
      ∀ n ∈ vis, ∃ pw, powerOf p st n.entity = some pw ∧ entryOf p st n pw ∈ m := by
  intro seq
  induction seq with
  | nil => intro m0 m vis h _ n hn; simp [electLoop] at h; rw [h.2] at hn; simp at hn
  | cons x rest ih =>
    intro m0 m vis h hnd n hn
    simp only [electLoop] at h
    have hxk : x.consensus ∉ keysOf m0 := by
      intro hmem
      have := (List.nodup_append.1 hnd).2.2 x.consensus hmem x.consensus (by simp)
      exact this rfl
    split at h
    · simp at h
    · rename_i pw hpw
      have hup := upsert_of_not_mem (v := (⟨x.id, x.entity, pw⟩ : Validator)) hxk
      split at h
      · simp at h
        obtain ⟨rfl, rfl⟩ := h
        simp at hn; subst hn
        exact ⟨pw, hpw, by rw [hup]; simp [entryOf]⟩
      · split at h
        · simp at h
        · rename_i r vis' hrec
          simp at h
          obtain ⟨rfl, rfl⟩ := h
          have hnd' : (keysOf (upsert m0 x.consensus ⟨x.id, x.entity, pw⟩) ++ rest.map (·.consensus)).Nodup := by
            rw [hup]
            simp only [keysOf, List.map_append, List.map_cons, List.map_nil, List.append_assoc,
              List.cons_append, List.nil_append]
            simpa [keysOf] using hnd
          rcases List.mem_cons.1 hn with rfl | hn
          · -- the entry of `n` was appended before the recursive call and is never overwritten
            refine ⟨pw, hpw, ?_⟩
            have hkeep : ∀ (seq : List Node) (m0 m : VMap) (vis : List Node) (y : Nat × Validator),
                electLoop p st seq m0 = some (m, vis) → y ∈ m0 → y.1 ∉ seq.map (·.consensus) → y ∈ m := by
              intro seq
              induction seq with
              | nil => intro m0 m vis y h hy _; simp [electLoop] at h; exact h.1 ▸ hy
              | cons z zs ihz =>
                intro m0 m vis y h hy hny
                simp only [List.map_cons, List.mem_cons, not_or] at hny
                have hyin : ∀ pw', y ∈ upsert m0 z.consensus ⟨z.id, z.entity, pw'⟩ := by
                  intro pw'
                  clear h
                  induction m0 with
                  | nil => simp at hy
                  | cons w ws ihw =>
                    obtain ⟨kw, vw⟩ := w
                    simp only [upsert]
                    rcases List.mem_cons.1 hy with rfl | hy
                    · have : ¬ kw = z.consensus := hny.1
                      simp [this]
                    · split
                      · exact List.mem_cons_of_mem _ hy
                      · exact List.mem_cons_of_mem _ (ihw hy)
                simp only [electLoop] at h
                split at h
                · simp at h
                · rename_i pw' _
                  split at h
                  · simp at h; exact h.1 ▸ hyin pw'
                  · split at h
                    · simp at h
                    · rename_i r' vis'' hrec'
                      simp at h
                      exact h.1 ▸ ihz _ _ _ y hrec' (hyin pw') hny.2
            apply hkeep rest _ _ _ _ hrec
            · rw [hup]; simp [entryOf]
            · have := (List.nodup_append.1 hnd).2.1
              simp only [List.map_cons, List.nodup_cons] at this
              exact this.1
          · exact ih _ _ _ hrec hnd' n hn

theorem electLoop_keys_nodup (p : Params) (st : Staking) :
    ∀ (seq : List Node) (m0 m : VMap) (vis : List Node), electLoop p st seq m0 = some (m, vis) →
      (keysOf m0).Nodup → (keysOf m).Nodup := by
  intro seq
  induction seq with
  | nil => intro m0 m vis h hnd; simp [electLoop] at h; exact h.1 ▸ hnd
  | cons n rest ih =>
    intro m0 m vis h hnd
    simp only [electLoop] at h
    split at h
    · simp at h
    · rename_i pw hpw
      have hup := upsert_keys_nodup m0 n.consensus ⟨n.id, n.entity, pw⟩ hnd
      split at h
      · simp at h; exact h.1 ▸ hup
      · split at h
        · simp at h
        · rename_i r vis' hrec
          simp at h
          exact h.1 ▸ ih _ _ _ hrec hup

/-! ### sets of entities and the two sorts -/

theorem mem_dedupNat {a : Nat} {l : List Nat} : a ∈ dedupNat l ↔ a ∈ l := by
  induction l with
  | nil => simp [dedupNat]
  | cons x xs ih =>
    simp only [dedupNat]
    split
    · rename_i hc
      have hx : x ∈ xs := by simpa using hc
      rw [ih]
      constructor
      · exact List.mem_cons_of_mem _
      · intro h
        rcases List.mem_cons.1 h with rfl | h
        · exact hx
        · exact h
    · simp [ih]

theorem nodup_dedupNat (l : List Nat) : (dedupNat l).Nodup := by
  induction l with
  | nil => simp [dedupNat]
  | cons x xs ih =>
    simp only [dedupNat]
    split
    · exact ih
    · rename_i hc
      have hx : x ∉ xs := by simpa using hc
      exact List.nodup_cons.2 ⟨fun h => hx (mem_dedupNat.1 h), ih⟩

theorem mem_entitiesOf {e : Nat} {l : List Node} : e ∈ entitiesOf l ↔ ∃ n ∈ l, n.entity = e := by
  simp [entitiesOf, mem_dedupNat]

theorem insertBy_perm {α : Type} (le : α → α → Bool) (a : α) : ∀ (l : List α), (insertBy le a l).Perm (a :: l) := by
  intro l
  induction l with
  | nil => simp [insertBy]
  | cons b l ih =>
    simp only [insertBy]
    split
    · exact List.Perm.refl _
    · exact ((List.Perm.cons b ih).trans (List.Perm.swap a b l))

theorem sortBy_perm {α : Type} (le : α → α → Bool) : ∀ (l : List α), (sortBy le l).Perm l := by
  intro l
  induction l with
  | nil => simp [sortBy]
  | cons a l ih => exact (insertBy_perm le a _).trans (List.Perm.cons a ih)

theorem insertBy_pairwise {α : Type} (le : α → α → Bool)
    (htrans : ∀ a b c, le a b = true → le b c = true → le a c = true)
    (htotal : ∀ a b, (le a b || le b a) = true) (a : α) :
    ∀ (l : List α), l.Pairwise (fun x y => le x y = true) → (insertBy le a l).Pairwise (fun x y => le x y = true) := by
  intro l
  induction l with
  | nil => intro _; simp [insertBy]
  | cons b l ih =>
    intro hl
    have ⟨hb, hl'⟩ := List.pairwise_cons.1 hl
    simp only [insertBy]
    split
    · rename_i hab
      refine List.pairwise_cons.2 ⟨?_, hl⟩
      intro x hx
      rcases List.mem_cons.1 hx with rfl | hx
      · exact hab
      · exact htrans _ _ _ hab (hb x hx)
    · rename_i hab
      have hba : le b a = true := by
        have := htotal a b
        simp only [Bool.or_eq_true] at this
        rcases this with h | h
        · exact absurd h hab
        · exact h
      refine List.pairwise_cons.2 ⟨?_, ih hl'⟩
      intro x hx
      have := (insertBy_perm le a l).mem_iff.1 hx
      rcases List.mem_cons.1 this with rfl | hx
      · exact hba
      · exact hb x hx

theorem sortBy_pairwise {α : Type} (le : α → α → Bool)
    (htrans : ∀ a b c, le a b = true → le b c = true → le a c = true)
    (htotal : ∀ a b, (le a b || le b a) = true) :
    ∀ (l : List α), (sortBy le l).Pairwise (fun x y => le x y = true) := by
  intro l
  induction l with
  | nil => simp [sortBy]
  | cons a l ih => exact insertBy_pairwise le htrans htotal a _ ih

theorem sortAddrs_perm (l : List Nat) : (sortAddrs l).Perm l := sortBy_perm _ _

theorem sortAddrs_sorted (l : List Nat) : (sortAddrs l).Pairwise (fun a b => a ≤ b) := by
  have := sortBy_pairwise (fun a b : Nat => decide (a ≤ b))
    (by intro a b c; simp; omega) (by intro a b; simp; omega) l
  exact this.imp (by intro a b h; simpa using h)

/-- Sorting makes the order in which the Go map of entities is iterated irrelevant. -/
theorem sortAddrs_congr {l l' : List Nat} (h : l.Perm l') : sortAddrs l = sortAddrs l' := by
  apply List.Perm.eq_of_pairwise (le := fun a b => a ≤ b)
  · intro a b _ _ h1 h2; omega
  · exact sortAddrs_sorted l
  · exact sortAddrs_sorted l'
  · exact (sortAddrs_perm l).trans (h.trans (sortAddrs_perm l').symm)

theorem sortByBalance_perm (st : Staking) (l : List Nat) : (sortByBalance st l).Perm l :=
  sortBy_perm _ _

theorem sortByBalance_sorted (st : Staking) (l : List Nat) :
    (sortByBalance st l).Pairwise (fun a b => escrowOf st b ≤ escrowOf st a) := by
  have := sortBy_pairwise (fun a b : Nat => decide (escrowOf st b ≤ escrowOf st a))
    (by intro a b c; simp; omega) (by intro a b; simp; omega) l
  exact this.imp (by intro a b h; simpa using h)

theorem sortedEntities_perm (p : Params) (st : Staking) (sh : List Nat → List Nat)
    (hsh : ∀ l, (sh l).Perm l) (ents : List Nat) : (sortedEntities p st sh ents).Perm ents := by
  unfold sortedEntities
  have h1 : (sh (sortAddrs ents)).Perm ents := (hsh _).trans (sortAddrs_perm _)
  split
  · exact h1
  · exact (sortByBalance_perm st _).trans h1

theorem sortedEntities_sorted (p : Params) (st : Staking) (sh : List Nat → List Nat)
    (hb : p.bypassStake = false) (ents : List Nat) :
    (sortedEntities p st sh ents).Pairwise (fun a b => escrowOf st b ≤ escrowOf st a) := by
  unfold sortedEntities
  simp only [hb]
  exact sortByBalance_sorted st _

/-! ### the visiting sequence -/

theorem mem_electSeq {k : Int} {ents : List Nat} {shuffled : List Node} {x : Node}
    (h : x ∈ electSeq k ents shuffled) : x ∈ shuffled ∧ x.entity ∈ ents := by
  unfold electSeq at h
  obtain ⟨e, he, hx⟩ := List.mem_flatMap.1 h
  have hx' := List.mem_of_mem_take hx
  unfold nodesOfEntity at hx'
  have := List.mem_filter.1 hx'
  have hxe : x.entity = e := by simpa using this.2
  exact ⟨this.1, hxe ▸ he⟩

theorem countEnt_piece (k : Int) (shuffled : List Node) (e e' : Nat) :
    countEnt e ((nodesOfEntity shuffled e').take k.toNat) ≤ (if e' = e then k.toNat else 0) := by
  unfold countEnt
  split
  · exact Nat.le_trans List.countP_le_length (List.length_take_le _ _)
  · rename_i hne
    rw [List.countP_eq_zero.2]
    · exact Nat.le_refl 0
    · intro x hx
      have := List.mem_filter.1 (List.mem_of_mem_take hx)
      have hxe : x.entity = e' := by simpa using this.2
      simp [hxe, hne]

theorem countEnt_electSeq_le (k : Int) (shuffled : List Node) (e : Nat) :
    ∀ (ents : List Nat), ents.Nodup → countEnt e (electSeq k ents shuffled) ≤ k.toNat := by
  intro ents
  induction ents with
  | nil => intro _; simp [electSeq, countEnt]
  | cons a as ih =>
    intro hnd
    have ⟨hna, hnd'⟩ := List.nodup_cons.1 hnd
    have hcons : electSeq k (a :: as) shuffled = (nodesOfEntity shuffled a).take k.toNat ++ electSeq k as shuffled := by
      simp [electSeq]
    rw [hcons]
    unfold countEnt
    rw [List.countP_append]
    have h1 := countEnt_piece k shuffled e a
    have h2 := ih hnd'
    unfold countEnt at h1 h2
    by_cases hae : a = e
    · -- no later piece contains entity `e`
      have h0 : List.countP (fun n => n.entity == e) (electSeq k as shuffled) = 0 := by
        rw [List.countP_eq_zero]
        intro x hx
        have := (mem_electSeq hx).2
        have hne : x.entity ≠ e := by
          intro hxe; rw [hxe, ← hae] at this; exact hna this
        simp [hne]
      rw [if_pos hae] at h1
      omega
    · rw [if_neg hae] at h1
      omega

theorem electSeq_pairwise (st : Staking) (k : Int) (shuffled : List Node) (ents : List Nat)
    (hs : ents.Pairwise (fun a b => escrowOf st b ≤ escrowOf st a)) :
    (electSeq k ents shuffled).Pairwise (fun x y => escrowOf st y.entity ≤ escrowOf st x.entity) := by
  unfold electSeq
  rw [List.pairwise_flatMap]
  have hent : ∀ (a : Nat) (x : Node), x ∈ (nodesOfEntity shuffled a).take k.toNat → x.entity = a := by
    intro a x hx
    have := List.mem_filter.1 (List.mem_of_mem_take hx)
    simpa using this.2
  constructor
  · intro a _
    rw [List.pairwise_iff_forall_sublist]
    intro x y hxy
    have hx : x ∈ (nodesOfEntity shuffled a).take k.toNat := hxy.subset (by simp)
    have hy : y ∈ (nodesOfEntity shuffled a).take k.toNat := hxy.subset (by simp)
    rw [hent a x hx, hent a y hy]
    exact Nat.le_refl _
  · exact hs.imp (by
      intro a b hab x hx y hy
      rw [hent a x hx, hent b y hy]; exact hab)

theorem electSeq_has_entity {k : Int} {ents : List Nat} {shuffled : List Node} {x : Node}
    (hk : 1 ≤ k) (he : x.entity ∈ ents) (hx : x ∈ shuffled) :
    ∃ y ∈ electSeq k ents shuffled, y.entity = x.entity := by
  have hmem : x ∈ nodesOfEntity shuffled x.entity := by
    unfold nodesOfEntity; exact List.mem_filter.2 ⟨hx, by simp⟩
  cases hl : nodesOfEntity shuffled x.entity with
  | nil => rw [hl] at hmem; simp at hmem
  | cons y ys =>
    have hy : y ∈ (nodesOfEntity shuffled x.entity).take k.toNat := by
      rw [hl]
      have : k.toNat = (k.toNat - 1) + 1 := by omega
      rw [this, List.take_succ_cons]; simp
    have hye : y.entity = x.entity := by
      have : y ∈ nodesOfEntity shuffled x.entity := by rw [hl]; simp
      have := List.mem_filter.1 this
      simpa using this.2
    exact ⟨y, List.mem_flatMap.2 ⟨x.entity, he, hy⟩, hye⟩

theorem electSeq_nil_of_nonpos {k : Int} (hk : k ≤ 0) (ents : List Nat) (shuffled : List Node) :
    electSeq k ents shuffled = [] := by
  unfold electSeq
  have : k.toNat = 0 := by omega
  simp [this]

theorem inj_of_nodup_map {α β : Type} (f : α → β) :
    ∀ (l : List α), (l.map f).Nodup → ∀ x ∈ l, ∀ y ∈ l, f x = f y → x = y := by
  intro l
  induction l with
  | nil => intro _ x hx; simp at hx
  | cons a as ih =>
    intro hnd x hx y hy hxy
    simp only [List.map_cons, List.nodup_cons, List.mem_map, not_exists, not_and] at hnd
    rcases List.mem_cons.1 hx with hxa | hxa <;> rcases List.mem_cons.1 hy with hya | hya
    · rw [hxa, hya]
    · subst hxa; exact absurd hxy.symm (hnd.1 y hya)
    · subst hya; exact absurd hxy (hnd.1 x hxa)
    · exact ih hnd.2 x hxa y hya hxy

theorem electSeq_consensus_nodup (k : Int) (shuffled : List Node)
    (hnd : (shuffled.map (·.consensus)).Nodup) :
    ∀ (ents : List Nat), ents.Nodup → ((electSeq k ents shuffled).map (·.consensus)).Nodup := by
  intro ents hents
  have hinj := inj_of_nodup_map (fun n : Node => n.consensus) shuffled hnd
  have hpw : shuffled.Pairwise (fun x y => x.consensus ≠ y.consensus) := by
    have := List.pairwise_map.1 (List.nodup_iff_pairwise_ne.1 hnd)
    exact this
  rw [List.nodup_iff_pairwise_ne, List.pairwise_map]
  unfold electSeq
  rw [List.pairwise_flatMap]
  constructor
  · intro a _
    have hsub : ((nodesOfEntity shuffled a).take k.toNat).Sublist shuffled :=
      (List.take_sublist _ _).trans List.filter_sublist
    exact hpw.sublist hsub
  · exact (List.nodup_iff_pairwise_ne.1 hents).imp (by
      intro a b hab x hx y hy hc
      have hx' := List.mem_filter.1 (List.mem_of_mem_take hx)
      have hy' := List.mem_filter.1 (List.mem_of_mem_take hy)
      have hxy := hinj x hx'.1 y hy'.1 hc
      have hxa : x.entity = a := by simpa [nodesOfEntity] using hx'.2
      have hyb : y.entity = b := by simpa [nodesOfEntity] using hy'.2
      rw [hxy] at hxa
      exact hab (hxa.symm.trans hyb))

end OasisProofs.SchedulerH
