import OasisProofs.Helpers.CodecBytes
import OasisModel.Codec.Quote
/-
Lemmas behind the C16 theorems about the PCS quote framing model (OasisModel/Codec/Quote.lean):
every evaluated slice expression is in range, allocation and declared sizes are bounded by the
input, consumed length. Core Lean only.
-/
set_option linter.unusedSimpArgs false
namespace OasisProofs.CodecQuote
open OasisModel.Codec OasisProofs.CodecBytes

/-- A slice expression `data[a:b]` on a slice ending at `lim` of an input of `n` bytes is legal. -/
def QRead.InRange (n : Nat) (r : QRead) : Prop := r.a ≤ r.b ∧ r.b ≤ r.lim ∧ r.lim ≤ n

def AllIn (n : Nat) (rs : List QRead) : Prop := ∀ r ∈ rs, QRead.InRange n r

theorem allIn_nil (n : Nat) : AllIn n [] := by intro r h; cases h

theorem allIn_cons (n : Nat) (r : QRead) (rs : List QRead) :
    AllIn n (r :: rs) ↔ QRead.InRange n r ∧ AllIn n rs := by
  simp [AllIn]

theorem allIn_append (n : Nat) (a b : List QRead) : AllIn n (a ++ b) ↔ AllIn n a ∧ AllIn n b := by
  simp only [AllIn, List.mem_append]
  constructor
  · intro h; exact ⟨fun r hr => h r (Or.inl hr), fun r hr => h r (Or.inr hr)⟩
  · rintro ⟨h1, h2⟩ r (hr | hr)
    · exact h1 r hr
    · exact h2 r hr

theorem inRange_mk (n a b lim : Nat) : QRead.InRange n ⟨a, b, lim⟩ ↔ a ≤ b ∧ b ≤ lim ∧ lim ≤ n := Iff.rfl

/-- What a finished framing run guarantees besides the reads. -/
structure Bounded (d : Bytes) (q : QDec) : Prop where
  reads : AllIn d.length q.reads
  allocs : q.allocs.sum ≤ d.length

theorem parseQEI_bounded (d : Bytes) (base lim : Nat) (rs : List QRead) (v tee body sigLen consumed : Nat)
    (hl : lim ≤ d.length) (hrs : AllIn d.length rs) :
    Bounded d (parseQEI d base lim rs v tee body sigLen consumed) := by
  unfold parseQEI QDec.fail
  extract_lets
  repeat' split
  all_goals
    try simp +zetaDelta only [Nat.not_lt] at *
    constructor
    · simp +zetaDelta only [allIn_append, allIn_cons, allIn_nil, inRange_mk, and_true, and_assoc]
      first | exact hrs | (refine ⟨hrs, ?_⟩; omega)
    · simp +zetaDelta only [List.sum_nil, List.sum_cons, Nat.add_zero]
      omega

/-- What an accepted QE certification data block looks like. -/
theorem parseQEI_ok (d : Bytes) (base lim : Nat) (rs : List QRead) (v tee body sigLen consumed : Nat) (f : QFrame)
    (h : (parseQEI d base lim rs v tee body sigLen consumed).res = .ok f) :
    f.version = v ∧ f.teeType = tee ∧ f.bodyLen = body ∧ f.sigLen = sigLen ∧ f.consumed = consumed ∧
    f.authSize = le16At d (base + 448) ∧ f.cdOff = base + 450 + f.authSize + 6 ∧
    f.cdType = le16At d (base + 450 + f.authSize) ∧ f.cdSize = le32At d (base + 450 + f.authSize + 2) ∧
    f.cdOff + f.cdSize ≤ lim ∧
    (f.isChain = true ↔ f.cdType = 5) ∧ (f.isChain = false → f.cdSize = 404 ∧ 1 ≤ f.cdType ∧ f.cdType ≤ 3) := by
  unfold parseQEI QDec.fail at h
  extract_lets at h
  repeat' split at h
  all_goals simp +zetaDelta only [reduceCtorEq, Except.ok.injEq] at h
  all_goals
    try simp +zetaDelta only [Nat.not_lt] at *
    subst h
    simp only [true_and, Bool.false_eq_true, Bool.true_eq_false, false_iff, true_iff, forall_const, eq_self,
      false_implies, implies_true, and_true, reduceCtorEq, ne_eq, Decidable.not_not] at *
    omega

/-- The declared certification data size and type sit right before the certification data. -/
theorem parseQEI_fields (d : Bytes) (base lim : Nat) (rs : List QRead) (v tee body sigLen consumed : Nat) (f : QFrame)
    (h : (parseQEI d base lim rs v tee body sigLen consumed).res = .ok f) :
    6 ≤ f.cdOff ∧ f.cdSize = le32At d (f.cdOff - 4) ∧ f.cdType = le16At d (f.cdOff - 6) ∧
    f.authSize = le16At d (base + 448) := by
  obtain ⟨_, _, _, _, _, q6, q7, q8, q9, _⟩ := parseQEI_ok _ _ _ _ _ _ _ _ _ _ h
  refine ⟨by omega, ?_, ?_, q6⟩
  · rw [q9, q7]; congr 1
  · rw [q8, q7]; congr 1

theorem parseSigI_bounded (d : Bytes) (base lim : Nat) (rs : List QRead) (v tee body sigLen consumed : Nat)
    (hl : lim ≤ d.length) (hrs : AllIn d.length rs) :
    Bounded d (parseSigI d base lim rs v tee body sigLen consumed) := by
  unfold parseSigI QDec.fail
  extract_lets
  repeat' split
  all_goals try simp +zetaDelta only [Nat.not_lt] at *
  case _ => exact ⟨hrs, by simp⟩
  case _ =>
    refine ⟨?_, by simp⟩
    simp +zetaDelta only [allIn_append, allIn_cons, allIn_nil, inRange_mk, and_true, and_assoc]
    refine ⟨hrs, ?_⟩; omega
  case _ =>
    refine ⟨?_, by simp⟩
    simp +zetaDelta only [allIn_append, allIn_cons, allIn_nil, inRange_mk, and_true, and_assoc]
    refine ⟨hrs, ?_⟩; omega
  all_goals
    apply parseQEI_bounded _ _ _ _ _ _ _ _ _ hl
    simp +zetaDelta only [allIn_append, allIn_cons, allIn_nil, inRange_mk, and_true, and_assoc]
    refine ⟨hrs, ?_⟩; omega

theorem parseSigI_ok (d : Bytes) (base lim : Nat) (rs : List QRead) (v tee body sigLen consumed : Nat) (f : QFrame)
    (h : (parseSigI d base lim rs v tee body sigLen consumed).res = .ok f) :
    base + 584 ≤ lim ∧ f.version = v ∧ f.teeType = tee ∧ f.bodyLen = body ∧ f.sigLen = sigLen ∧ f.consumed = consumed ∧
    base + 128 + 456 + f.authSize ≤ f.cdOff ∧ f.cdOff + f.cdSize ≤ lim ∧
    (f.isChain = true ↔ f.cdType = 5) ∧ (f.isChain = false → f.cdSize = 404 ∧ 1 ≤ f.cdType ∧ f.cdType ≤ 3) ∧
    (v = 4 → le16At d (base + 128) = 6 ∧ base + 134 + le32At d (base + 130) = lim) := by
  unfold parseSigI QDec.fail at h
  extract_lets at h
  repeat' split at h
  all_goals try simp +zetaDelta only [reduceCtorEq] at h
  all_goals
    obtain ⟨q1, q2, q3, q4, q5, q6, q7, q8, q9, q10, q11, q12⟩ := parseQEI_ok _ _ _ _ _ _ _ _ _ _ h
    simp +zetaDelta only [Nat.not_lt, ne_eq, Decidable.not_not] at *
    refine ⟨by omega, q1, q2, q3, q4, q5, by omega, q10, q11, q12, ?_⟩
    intro hv
    omega

theorem parseRestI_bounded (d : Bytes) (tr : Bool) (v tee body : Nat) (rs : List QRead)
    (hb : 48 + body + 4 ≤ d.length) (hrs : AllIn d.length rs) : Bounded d (parseRestI d tr v tee body rs) := by
  unfold parseRestI QDec.fail
  extract_lets
  repeat' split
  all_goals try simp +zetaDelta only [Nat.not_lt, ne_eq, Decidable.not_not, not_and, not_or] at *
  all_goals
    first
    | (refine ⟨?_, by simp⟩
       simp +zetaDelta only [allIn_append, allIn_cons, allIn_nil, inRange_mk, and_true, and_assoc]
       refine ⟨hrs, ?_⟩; omega)
    | (apply parseSigI_bounded _ _ _ _ _ _ _ _ _ (by omega)
       simp +zetaDelta only [allIn_append, allIn_cons, allIn_nil, inRange_mk, and_true, and_assoc]
       refine ⟨hrs, ?_⟩; omega)

theorem parseBodyI_bounded (d : Bytes) (tr : Bool) (v tee : Nat) (rs : List QRead)
    (hb : 436 ≤ d.length) (hrs : AllIn d.length rs) : Bounded d (parseBodyI d tr v tee rs) := by
  unfold parseBodyI QDec.fail
  extract_lets
  repeat' split
  all_goals try simp +zetaDelta only [Nat.not_lt, ne_eq, Decidable.not_not, not_and, not_or] at *
  all_goals
    first
    | exact ⟨hrs, by simp⟩
    | (refine ⟨?_, by simp⟩
       simp +zetaDelta only [allIn_append, allIn_cons, allIn_nil, inRange_mk, and_true, and_assoc]
       refine ⟨hrs, ?_⟩; omega)
    | (apply parseRestI_bounded _ _ _ _ _ _ (by omega)
       simp +zetaDelta only [allIn_append, allIn_cons, allIn_nil, inRange_mk, and_true, and_assoc]
       refine ⟨hrs, ?_⟩; omega)

theorem parseQuoteI_bounded (d : Bytes) (tr : Bool) : Bounded d (parseQuoteI d tr) := by
  unfold parseQuoteI QDec.fail
  extract_lets
  repeat' split
  all_goals try simp +zetaDelta only [Nat.not_lt, ne_eq, Decidable.not_not, not_and, not_or] at *
  all_goals
    first
    | exact ⟨allIn_nil _, by simp⟩
    | (refine ⟨?_, by simp⟩
       simp +zetaDelta only [allIn_append, allIn_cons, allIn_nil, inRange_mk, and_true, and_assoc]
       omega)
    | (apply parseBodyI_bounded _ _ _ _ _ (by omega)
       simp +zetaDelta only [allIn_append, allIn_cons, allIn_nil, inRange_mk, and_true, and_assoc]
       omega)

/-- In an accepted quote the frame's certification data size / type are the declared fields. -/
def FieldsOk (d : Bytes) (f : QFrame) : Prop :=
  6 ≤ f.cdOff ∧ f.cdSize = le32At d (f.cdOff - 4) ∧ f.cdType = le16At d (f.cdOff - 6)

theorem parseSigI_fields (d : Bytes) (base lim : Nat) (rs : List QRead) (v tee body sigLen consumed : Nat) (f : QFrame)
    (h : (parseSigI d base lim rs v tee body sigLen consumed).res = .ok f) : FieldsOk d f := by
  unfold parseSigI QDec.fail at h
  extract_lets at h
  repeat' split at h
  all_goals try simp +zetaDelta only [reduceCtorEq] at h
  all_goals
    obtain ⟨q1, q2, q3, _⟩ := parseQEI_fields _ _ _ _ _ _ _ _ _ _ h
    exact ⟨q1, q2, q3⟩

theorem parseRestI_fields (d : Bytes) (tr : Bool) (v tee body : Nat) (rs : List QRead) (f : QFrame)
    (h : (parseRestI d tr v tee body rs).res = .ok f) : FieldsOk d f := by
  unfold parseRestI QDec.fail at h
  extract_lets at h
  repeat' split at h
  all_goals try simp +zetaDelta only [reduceCtorEq] at h
  exact parseSigI_fields _ _ _ _ _ _ _ _ _ _ h

theorem parseBodyI_fields (d : Bytes) (tr : Bool) (v tee : Nat) (rs : List QRead) (f : QFrame)
    (h : (parseBodyI d tr v tee rs).res = .ok f) : FieldsOk d f := by
  unfold parseBodyI QDec.fail at h
  extract_lets at h
  repeat' split at h
  all_goals try simp +zetaDelta only [reduceCtorEq] at h
  all_goals exact parseRestI_fields _ _ _ _ _ _ _ h

theorem parseQuoteI_fields (d : Bytes) (tr : Bool) (f : QFrame) (h : (parseQuoteI d tr).res = .ok f) :
    FieldsOk d f := by
  unfold parseQuoteI QDec.fail at h
  extract_lets at h
  repeat' split at h
  all_goals try simp +zetaDelta only [reduceCtorEq] at h
  all_goals exact parseBodyI_fields _ _ _ _ _ _ h

/-- The shape of every accepted quote. -/
def FrameOk (d : Bytes) (tr : Bool) (f : QFrame) : Prop :=
  (f.bodyLen = 384 ∨ f.bodyLen = 584) ∧ f.sigLen = le32At d (48 + f.bodyLen) ∧
  f.consumed = 48 + f.bodyLen + 4 + f.sigLen ∧ f.consumed ≤ d.length ∧ (tr = false → f.consumed = d.length) ∧
  584 ≤ f.sigLen ∧ 48 + f.bodyLen + 4 + 584 + f.authSize ≤ f.cdOff ∧ f.cdOff + f.cdSize ≤ f.consumed ∧
  (f.isChain = true ↔ f.cdType = 5) ∧ (f.isChain = false → f.cdSize = 404 ∧ 1 ≤ f.cdType ∧ f.cdType ≤ 3)

theorem parseRestI_ok (d : Bytes) (tr : Bool) (v tee body : Nat) (rs : List QRead) (f : QFrame)
    (hb : body = 384 ∨ body = 584) (h : (parseRestI d tr v tee body rs).res = .ok f) :
    f.version = v ∧ f.teeType = tee ∧ FrameOk d tr f := by
  unfold parseRestI QDec.fail at h
  extract_lets at h
  repeat' split at h
  all_goals try simp +zetaDelta only [reduceCtorEq] at h
  obtain ⟨q0, q1, q2, q3, q4, q5, q6, q7, q8, q9, _⟩ := parseSigI_ok _ _ _ _ _ _ _ _ _ _ h
  simp +zetaDelta only [Nat.not_lt, ne_eq, Decidable.not_not, not_and] at *
  refine ⟨q1, q2, by omega, by rw [q3]; exact q4, by omega, by omega, ?_, by omega, by omega, by omega, q8, q9⟩
  intro ht
  rename_i h1 h2 h3
  have := h2 ht
  omega

theorem parseBodyI_ok (d : Bytes) (tr : Bool) (v tee : Nat) (rs : List QRead) (f : QFrame)
    (h : (parseBodyI d tr v tee rs).res = .ok f) :
    f.version = v ∧ f.teeType = tee ∧ (tee = 0 ↔ f.bodyLen = 384) ∧ FrameOk d tr f := by
  unfold parseBodyI QDec.fail at h
  extract_lets at h
  repeat' split at h
  all_goals try simp +zetaDelta only [reduceCtorEq] at h
  · obtain ⟨q1, q2, q3⟩ := parseRestI_ok _ _ _ _ _ _ _ (Or.inl rfl) h
    have : f.bodyLen = 384 := by
      have := parseSigI_ok
      unfold parseRestI QDec.fail at h
      extract_lets at h
      repeat' split at h
      all_goals try simp +zetaDelta only [reduceCtorEq] at h
      exact (parseSigI_ok _ _ _ _ _ _ _ _ _ _ h).2.2.2.1
    exact ⟨q1, q2, by constructor <;> intro <;> first | assumption | omega, q3⟩
  · obtain ⟨q1, q2, q3⟩ := parseRestI_ok _ _ _ _ _ _ _ (Or.inr rfl) h
    have : f.bodyLen = 584 := by
      unfold parseRestI QDec.fail at h
      extract_lets at h
      repeat' split at h
      all_goals try simp +zetaDelta only [reduceCtorEq] at h
      exact (parseSigI_ok _ _ _ _ _ _ _ _ _ _ h).2.2.2.1
    exact ⟨q1, q2, by constructor <;> intro <;> omega, q3⟩

theorem parseQuoteI_ok (d : Bytes) (tr : Bool) (f : QFrame) (h : (parseQuoteI d tr).res = .ok f) :
    (f.version = 3 ∨ f.version = 4) ∧ (f.version = 3 → f.teeType = 0) ∧ (f.teeType = 0 ∨ f.teeType = 0x81) ∧
    (f.teeType = 0 ↔ f.bodyLen = 384) ∧ FrameOk d tr f := by
  unfold parseQuoteI QDec.fail at h
  extract_lets at h
  repeat' split at h
  all_goals try simp +zetaDelta only [reduceCtorEq] at h
  · obtain ⟨q1, q2, q3, q4⟩ := parseBodyI_ok _ _ _ _ _ _ h
    refine ⟨Or.inl q1, fun _ => q2, Or.inl q2, ?_, q4⟩
    rw [q2]; exact q3
  · obtain ⟨q1, q2, q3, q4⟩ := parseBodyI_ok _ _ _ _ _ _ h
    simp +zetaDelta only [Nat.not_lt, ne_eq, Decidable.not_not, not_and, not_or] at *
    refine ⟨Or.inr q1, fun h3 => by omega, by omega, ?_, q4⟩
    rw [q2]; exact q3

end OasisProofs.CodecQuote
