import OasisModel.Roothash.Pool
/-
Helper lemmas for C11: what the counters of `processCommitments` count.
-/
namespace OasisProofs.Roothash
open OasisModel.Roothash

/-- Number of votes the tally holds for hash `h`. -/
def vc (l : List (Nat × Nat)) (h : Nat) : Nat := ((l.filter (fun kv => kv.1 == h)).map (·.2)).sum

def vsum (l : List (Nat × Nat)) : Nat := (l.map (·.2)).sum

theorem vc_bump (h h' : Nat) (l : List (Nat × Nat)) :
    vc (bump h l) h' = vc l h' + (if h = h' then 1 else 0) := by
  induction l with
  | nil => by_cases e : h = h' <;> simp [bump, vc, e]
  | cons kv rest ih =>
    obtain ⟨k, v⟩ := kv
    unfold bump
    by_cases hk : k = h
    · subst hk
      simp only [if_true]
      by_cases e : k = h'
      · subst e; simp [vc]; omega
      · simp [vc, e]
    · simp only [hk, if_false]
      unfold vc at ih ⊢
      by_cases e : k = h'
      · subst e
        simp only [List.filter_cons, beq_self_eq_true, if_true, List.map_cons, List.sum_cons]
        rw [ih]; omega
      · have : (k == h') = false := by simp [e]
        simp only [List.filter_cons, this, Bool.false_eq_true, if_false]
        exact ih

theorem vsum_bump (h : Nat) (l : List (Nat × Nat)) : vsum (bump h l) = vsum l + 1 := by
  induction l with
  | nil => simp [bump, vsum]
  | cons kv rest ih =>
    obtain ⟨k, v⟩ := kv
    unfold bump
    by_cases hk : k = h
    · simp [hk, vsum]; omega
    · simp only [hk, if_false]
      unfold vsum at ih ⊢
      simp only [List.map_cons, List.sum_cons]
      rw [ih]; omega

/-- The members a processing call counts: workers during detection, backup workers during
resolution. -/
def rel (disc : Bool) (ms : List Member) : List Member := ms.filter (fun n => !skips disc n)

/-- How many of `ms` have a stored vote satisfying `P`. -/
def cnt (sc : SC) (ms : List Member) (P : Option (Option Nat) → Bool) : Nat :=
  ms.countP (fun m => P (sc.votes m.node))

def isVote : Option (Option Nat) → Bool
  | some (some _) => true
  | _ => false

theorem rel_cons_skip (disc : Bool) (n : Member) (rest : List Member) (h : skips disc n = true) :
    rel disc (n :: rest) = rel disc rest := by
  simp [rel, h]

theorem rel_cons_keep (disc : Bool) (n : Member) (rest : List Member) (h : ¬ skips disc n = true) :
    rel disc (n :: rest) = n :: rel disc rest := by
  simp [rel, h]

/-- A gathering loop that ran to its end counted exactly the stored votes of the relevant members. -/
theorem gather_tally (disc : Bool) (hr : Nat) (sc : SC) (s : Nat) (to : Bool) (ms : List Member)
    (t t' : Tally) (h : gather disc hr sc s to ms t = some t') :
    t'.total = t.total + (rel disc ms).length ∧
    t'.commits = t.commits + cnt sc (rel disc ms) Option.isSome ∧
    t'.failures = t.failures + cnt sc (rel disc ms) (· == some none) ∧
    (∀ x, vc t'.votes x = vc t.votes x + cnt sc (rel disc ms) (· == some (some x))) ∧
    vsum t'.votes = vsum t.votes + cnt sc (rel disc ms) isVote := by
  induction ms generalizing t with
  | nil => simp [gather] at h; subst h; simp [rel, cnt]
  | cons n rest ih =>
    unfold gather at h
    split at h
    · rename_i hs
      rw [rel_cons_skip disc n rest hs]
      exact ih t h
    · rename_i hs
      rw [rel_cons_keep disc n rest hs]
      have step : ∀ (t1 : Tally), gather disc hr sc s to rest t1 = some t' →
          t1.total = t.total + 1 →
          t1.commits = t.commits + (if (sc.votes n.node).isSome then 1 else 0) →
          t1.failures = t.failures + (if sc.votes n.node == some none then 1 else 0) →
          (∀ x, vc t1.votes x = vc t.votes x + (if sc.votes n.node == some (some x) then 1 else 0)) →
          vsum t1.votes = vsum t.votes + (if isVote (sc.votes n.node) then 1 else 0) →
          t'.total = t.total + (n :: rel disc rest).length ∧
          t'.commits = t.commits + cnt sc (n :: rel disc rest) Option.isSome ∧
          t'.failures = t.failures + cnt sc (n :: rel disc rest) (· == some none) ∧
          (∀ x, vc t'.votes x = vc t.votes x + cnt sc (n :: rel disc rest) (· == some (some x))) ∧
          vsum t'.votes = vsum t.votes + cnt sc (n :: rel disc rest) isVote := by
        intro t1 hg h1 h2 h3 h4 h5
        obtain ⟨i1, i2, i3, i4, i5⟩ := ih t1 hg
        simp only [cnt, List.countP_cons, List.length_cons] at *
        refine ⟨by omega, by omega, by omega, ?_, by omega⟩
        intro x
        rw [i4 x, h4 x]; omega
      split at h
      · rename_i hv
        exact step _ h rfl (by simp [hv]) (by simp [hv]) (by simp [hv]) (by simp [hv, isVote])
      · rename_i vote hv
        have hg : gather disc hr sc s to rest ({ t with total := t.total + 1 }.addVote vote) = some t' := by
          dsimp only at h
          by_cases h1 : disc = true
          · simpa [h1] using h
          · by_cases h2 : (decide (({ t with total := t.total + 1 }.addVote vote).votes.length ≤ 1) &&
                decide (({ t with total := t.total + 1 }.addVote vote).failures ≤ s)) = true
            · simpa [h1, h2] using h
            · by_cases h3 : (decide (hr > 0) && !to) = true
              · simpa [h1, h2, h3] using h
              · simp [h1, h2, h3] at h
        cases vote with
        | none =>
          exact step _ hg rfl (by simp [hv, Tally.addVote]) (by simp [hv, Tally.addVote])
            (by simp [hv, Tally.addVote]) (by simp [hv, Tally.addVote, isVote])
        | some x0 =>
          refine step _ hg rfl (by simp [hv, Tally.addVote]) (by simp [hv, Tally.addVote]) ?_ ?_
          · intro x
            simp only [Tally.addVote, hv]
            rw [vc_bump]
            by_cases e : x0 = x <;> simp [e]
          · simp only [Tally.addVote, hv, isVote, if_true]
            rw [vsum_bump]

theorem vc_empty (x : Nat) : vc [] x = 0 := by simp [vc]

/-- `pickBest` returns the start value or an entry of the tally. -/
theorem pickBest_mem (l : List (Nat × Nat)) (acc : Nat × Nat) :
    pickBest l acc = acc ∨ pickBest l acc ∈ l := by
  induction l generalizing acc with
  | nil => simp [pickBest]
  | cons kv rest ih =>
    obtain ⟨k, v⟩ := kv
    obtain ⟨bh, best⟩ := acc
    unfold pickBest
    split
    · rcases ih (k, v) with h | h
      · rw [h]; right; simp
      · right; exact List.mem_cons_of_mem _ h
    · rcases ih (bh, best) with h | h
      · left; exact h
      · right; exact List.mem_cons_of_mem _ h

theorem vc_ge_of_mem (l : List (Nat × Nat)) (k v : Nat) (h : (k, v) ∈ l) : v ≤ vc l k := by
  induction l with
  | nil => simp at h
  | cons kv rest ih =>
    unfold vc at ih ⊢
    rcases List.mem_cons.1 h with e | e
    · subst e; simp
    · have := ih e
      obtain ⟨k', v'⟩ := kv
      by_cases hk : k' = k
      · subst hk; simp; omega
      · have : (k' == k) = false := by simp [hk]
        simp only [List.filter_cons, this, Bool.false_eq_true, if_false]
        exact ih e

/-- A tally with at most one key that holds a vote for `h` consists of exactly that key. -/
theorem single_key (l : List (Nat × Nat)) (h : Nat) (hl : l.length ≤ 1) (hv : 1 ≤ vc l h) :
    vsum l = vc l h ∧ ∀ x, x ≠ h → vc l x = 0 := by
  match l, hl with
  | [], _ => simp [vc] at hv
  | [(k, v)], _ =>
    by_cases e : k = h
    · subst e
      refine ⟨by simp [vsum, vc], ?_⟩
      intro x hx
      have : (k == x) = false := by simp; exact fun e => hx e.symm
      simp [vc, this]
    · have : (k == h) = false := by simp [e]
      simp [vc, this] at hv

end OasisProofs.Roothash
