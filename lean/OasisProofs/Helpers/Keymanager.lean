import OasisModel.Keymanager.Status
/-
Helper lemmas for `Props/C10Keymanager.lean`: every sub-computation of `generateStatus`
(`OasisModel/Keymanager/Status.lean`; Go: consensus/cometbft/apps/keymanager/secrets/status.go:26-256) returns a
value, with the facts about the returned value that the next dereference needs:

* `runtimeAttestationKey_ok`, `verifyExtraInfo_ok`: Go's `(ptr, err)` convention is respected — `err == nil`
  implies `ptr != nil` (status.go:252 `*rak`, status.go:122 `initResponse.`);
* `differsDeref_ok`: `p != nil && !p.Equal(*q)` is safe when `p != nil → q != nil`, which
  `if q == nil { q = p }` (status.go:160-163, 177-179) establishes;
* `InnerInv`: `numVersions ≠ 0 → isInitialized` is the loop invariant that makes the explicit
  `panic("the key manager must be initialized")` (status.go:190-192) unreachable;
* `acceptProposal_ok`: the divisor of status.go:211 is guarded by `numNodes > 0`.
-/
namespace OasisProofs.Keymanager
open OasisModel.Keymanager.Status

/-- Decidable equality of results (for the concrete witnesses, by `decide`). -/
instance exceptDecEq {α : Type} [DecidableEq α] : DecidableEq (Except Err α) := fun a b =>
  match a, b with
  | .ok x, .ok y => if h : x = y then isTrue (by rw [h]) else isFalse (fun e => h (by injection e))
  | .error x, .error y => if h : x = y then isTrue (by rw [h]) else isFalse (fun e => h (by injection e))
  | .ok _, .error _ => isFalse (fun e => by cases e)
  | .error _, .ok _ => isFalse (fun e => by cases e)

@[simp] theorem deref_some {α} (s : Site) (a : α) : deref s (some a) = .ok a := rfl
@[simp] theorem deref_none {α} (s : Site) : deref s (none : Option α) = .error (.panic s) := rfl

theorem differsDeref_ok (site : Site) (p q : Option PublicKey) (h : p.isSome → q.isSome) :
    ∃ b, differsDeref site p q = .ok b := by
  cases p <;> cases q <;> simp [differsDeref, bind, Except.bind, pure, Except.pure] at h ⊢

theorem runtimeAttestationKey_ok (nodeRt : NodeRuntime) (kmRt : Runtime) :
    ∃ r, runtimeAttestationKey nodeRt kmRt = .ok r ∧ (r.2 = none → r.1.isSome) := by
  unfold runtimeAttestationKey
  split
  · exact ⟨_, rfl, by simp⟩
  · split
    · cases h : nodeRt.tee <;> simp [bind, Except.bind, pure, Except.pure]
    · exact ⟨_, rfl, by simp⟩

theorem verifyExtraInfo_ok (kmRt : Runtime) (nodeRt : NodeRuntime) :
    ∃ r, verifyExtraInfo kmRt nodeRt = .ok r ∧ (r.2 = none → r.1.isSome) := by
  obtain ⟨⟨rak, err⟩, hr, hg⟩ := runtimeAttestationKey_ok nodeRt kmRt
  unfold verifyExtraInfo
  simp only [hr, bind, Except.bind, pure, Except.pure]
  split
  · exact ⟨_, rfl, by simp⟩
  split
  · exact ⟨_, rfl, by simp⟩
  split
  · rename_i he
    refine ⟨_, rfl, ?_⟩
    intro h; simp at h; simp [h] at he
  rename_i he
  have herr : err = none := by simpa using he
  have hrak : rak.isSome := hg herr
  obtain ⟨k, rfl⟩ := Option.isSome_iff_exists.mp hrak
  split
  · exact ⟨_, rfl, by simp⟩
  · exact ⟨_, rfl, by simp⟩
  · simp only [deref_some]
    split
    · exact ⟨_, rfl, by simp⟩
    · exact ⟨_, rfl, by simp⟩
def InnerInv (st : Inner) : Prop := st.numVersions ≠ 0 → st.isInitialized = true

theorem teeOk_ok (kmrt : Runtime) (nodeRt : NodeRuntime) : ∃ b, teeOk kmrt nodeRt = .ok b := by
  unfold teeOk
  cases h : nodeRt.tee <;> simp [bind, Except.bind, pure, Except.pure]

theorem versionCheck_ok (cs : Bytes) (ph : List Nat) (nc : Bytes) (st : Inner) (ir : InitResponse) :
    ∃ f, versionCheck false cs ph nc st ir = .ok f ∧
      ∀ st', f = .next st' → st'.isInitialized = true ∧ st'.numVersions = st.numVersions + 1 := by
  have h1 : ir.rsk.isSome → (if st.rsk.isNone then ir.rsk else st.rsk).isSome := by
    cases st.rsk <;> simp
  have h2 : ir.nextRSK.isSome → (if st.nRSK.isNone then ir.nextRSK else st.nRSK).isSome := by
    cases st.nRSK <;> simp
  obtain ⟨b1, hb1⟩ := differsDeref_ok .rsk _ _ h1
  obtain ⟨b2, hb2⟩ := differsDeref_ok .nextRSK _ _ h2
  unfold versionCheck
  simp only [hb1, hb2, bind, Except.bind, pure, Except.pure, Bool.false_eq_true, if_false]
  have skip : ∀ (P : Inner → Prop), ∃ f, (Except.ok Flow.skipNode : Except Err Flow) = .ok f ∧
      ∀ st', f = .next st' → P st' := fun P => ⟨_, rfl, fun st' h => by cases h⟩
  repeat' split
  all_goals first
    | exact skip _
    | (refine ⟨_, rfl, ?_⟩
       intro st' h
       injection h with h
       subst h
       simp_all)

theorem versionStep_ok (kmrt : Runtime) (cs : Bytes) (ph : List Nat) (nc : Bytes) (st : Inner)
    (nodeRt : NodeRuntime) :
    ∃ f, versionStep false kmrt cs ph nc st nodeRt = .ok f ∧
      ∀ st', f = .next st' → InnerInv st → InnerInv st' := by
  obtain ⟨b, hb⟩ := teeOk_ok kmrt nodeRt
  obtain ⟨⟨ir, err⟩, hv, hg⟩ := verifyExtraInfo_ok kmrt nodeRt
  unfold versionStep
  simp only [hb, hv, bind, Except.bind, pure, Except.pure]
  split
  · exact ⟨_, rfl, fun st' h hi => by injection h with h; subst h; exact hi⟩
  split
  · exact ⟨_, rfl, fun st' h => by cases h⟩
  split
  · exact ⟨_, rfl, fun st' h => by cases h⟩
  rename_i he
  have herr : err = none := by simpa using he
  obtain ⟨r, rfl⟩ := Option.isSome_iff_exists.mp (hg herr)
  obtain ⟨f, hf, hp⟩ := versionCheck_ok cs ph nc st r
  simp only [deref_some, hf]
  exact ⟨f, rfl, fun st' h _ _ => (hp st' h).1⟩

theorem versionsLoop_ok (kmrt : Runtime) (cs : Bytes) (ph : List Nat) (nc : Bytes)
    (rts : List NodeRuntime) (st : Inner) :
    ∃ f, versionsLoop false kmrt cs ph nc st rts = .ok f ∧
      ∀ st', f = .next st' → InnerInv st → InnerInv st' := by
  induction rts generalizing st with
  | nil => exact ⟨_, rfl, fun st' h hi => by injection h with h; subst h; exact hi⟩
  | cons r rest ih =>
    obtain ⟨f, hf, hp⟩ := versionStep_ok kmrt cs ph nc st r
    unfold versionsLoop
    simp only [hf, bind, Except.bind, pure, Except.pure]
    cases f with
    | skipNode => exact ⟨_, rfl, fun st' h => by cases h⟩
    | next st1 =>
      obtain ⟨g, hg, hq⟩ := ih st1
      exact ⟨g, hg, fun st' h hi => hq st' h (hp st1 rfl hi)⟩

theorem nodeStep_ok (kmrt : Runtime) (ph : List Nat) (nc : Bytes) (epoch : Epoch) (acc : Acc) (n : Node) :
    ∃ acc', nodeStep false kmrt ph nc epoch acc n = .ok acc' := by
  obtain ⟨f, hf, hp⟩ := versionsLoop_ok kmrt acc.status.checksum ph nc n.runtimes
    { secretReplicated := true, isInitialized := acc.status.isInitialized,
      isSecure := acc.status.isSecure, rsk := acc.status.rsk, nRSK := acc.nextRSK, numVersions := 0 }
  unfold nodeStep
  simp only [hf, bind, Except.bind, pure, Except.pure]
  split; · exact ⟨_, rfl⟩
  split; · exact ⟨_, rfl⟩
  cases f with
  | skipNode => exact ⟨_, rfl⟩
  | next st =>
    have hi : InnerInv st := hp st rfl (fun h => absurd rfl h)
    simp only
    split; · exact ⟨_, rfl⟩
    rename_i hn
    have : st.isInitialized = true := hi (by simpa using hn)
    simp [this]

theorem nodesLoop_ok (kmrt : Runtime) (ph : List Nat) (nc : Bytes) (epoch : Epoch)
    (nodes : List Node) (acc : Acc) :
    ∃ acc', nodesLoop false kmrt ph nc epoch acc nodes = .ok acc' := by
  induction nodes generalizing acc with
  | nil => exact ⟨_, rfl⟩
  | cons n rest ih =>
    obtain ⟨a, ha⟩ := nodeStep_ok kmrt ph nc epoch acc n
    unfold nodesLoop
    simp only [ha, bind, Except.bind]
    exact ih a

theorem goDiv_ok (site : Site) (a b : Nat) (h : b ≠ 0) : goDiv site a b = .ok (a / b) := by
  simp [goDiv, h, pure, Except.pure]

theorem proposalChecksum_ok (secret : Option Proposal) (g : Nat) (epoch : Epoch) :
    ∃ b, proposalChecksum secret g epoch = .ok b := by
  unfold proposalChecksum
  cases secret with
  | none => exact ⟨_, rfl⟩
  | some sec =>
    simp only [Option.isSome_some, if_true, deref_some, bind, Except.bind, pure, Except.pure]
    split <;> exact ⟨_, rfl⟩

theorem acceptProposal_ok (g : Nat) (epoch : Epoch) (nc : Bytes) (acc : Acc) :
    ∃ st, acceptProposal g epoch nc acc = .ok st := by
  unfold acceptProposal
  simp only [bind, Except.bind, pure, Except.pure]
  split
  · rename_i h
    have hn : acc.status.nodes.length ≠ 0 := by
      simp only [Bool.and_eq_true, decide_eq_true_eq] at h
      omega
    rw [goDiv_ok _ _ _ hn]
    simp only
    split <;> exact ⟨_, rfl⟩
  · exact ⟨_, rfl⟩

theorem generateStatusG_ok (kmrt : Runtime) (oldStatus : Status) (secret : Option Proposal)
    (nodes : List Node) (epoch : Epoch) :
    ∃ st, generateStatusG false kmrt oldStatus secret nodes epoch = .ok st := by
  obtain ⟨nc, hnc⟩ := proposalChecksum_ok secret (initialStatus kmrt oldStatus).nextGeneration epoch
  obtain ⟨acc, hacc⟩ := nodesLoop_ok kmrt (policyHashOf (initialStatus kmrt oldStatus).policy) nc epoch
    nodes { status := initialStatus kmrt oldStatus, nextRSK := none, updatedNodes := [] }
  unfold generateStatusG
  simp only [hnc, hacc, bind, Except.bind]
  exact acceptProposal_ok _ _ _ _
/-! ### `onEpochChange` -/

/-- The result is not a panic. -/
def NoPanic {α : Type} (x : Except Err α) : Prop := ∀ s, x ≠ .error (.panic s)

theorem noPanic_ok {α : Type} (a : α) : NoPanic (Except.ok a : Except Err α) := fun _ h => by cases h

theorem noPanic_state {α : Type} (e : StateErr) : NoPanic (Except.error (.state e) : Except Err α) :=
  fun _ h => by cases h

/-- All state reads for the runtime entries succeed. -/
def StateAvailable (rts : List RtEntry) : Prop :=
  ∀ e ∈ rts, e.statusRead ≠ .unavailable ∧ e.secretRead ≠ .unavailable ∧ e.setStatusOk = true

theorem readOldStatus_cases (e : RtEntry) :
    (∃ r, readOldStatus e = .ok r) ∨ (e.statusRead = .unavailable ∧ readOldStatus e = .error (.state .status)) := by
  unfold readOldStatus
  cases e.statusRead
  · exact .inl ⟨_, rfl⟩
  · exact .inl ⟨_, rfl⟩
  · exact .inr ⟨rfl, rfl⟩

theorem readSecret_cases (e : RtEntry) :
    (∃ r, readSecret e = .ok r) ∨
      (e.secretRead = .unavailable ∧ readSecret e = .error (.state .masterSecret)) := by
  unfold readSecret
  cases e.secretRead
  · exact .inl ⟨_, rfl⟩
  · exact .inl ⟨_, rfl⟩
  · exact .inr ⟨rfl, rfl⟩

/-- One runtime of `onEpochChange`: a value, or one of the three state errors, each only when the
corresponding state access failed. -/
theorem entryStep_cases (nodes : List Node) (epoch : Epoch) (e : RtEntry) :
    (∃ v, entryStep nodes epoch e = .ok v) ∨
    (e.statusRead = .unavailable ∧ entryStep nodes epoch e = .error (.state .status)) ∨
    (e.secretRead = .unavailable ∧ entryStep nodes epoch e = .error (.state .masterSecret)) ∨
    (e.setStatusOk = false ∧ entryStep nodes epoch e = .error (.state .setStatus)) := by
  unfold entryStep
  simp only [bind, Except.bind, pure, Except.pure]
  split
  · exact .inl ⟨_, rfl⟩
  rcases readOldStatus_cases e with ⟨⟨fe, os⟩, h1⟩ | ⟨hu, h1⟩
  · rcases readSecret_cases e with ⟨sec, h2⟩ | ⟨hu, h2⟩
    · obtain ⟨st, hst⟩ := generateStatusG_ok e.rt os sec nodes epoch
      simp only [h1, h2, generateStatus, hst]
      split
      · split
        · rename_i hset
          refine .inr (.inr (.inr ⟨by simpa using hset, rfl⟩))
        · exact .inl ⟨_, rfl⟩
      · exact .inl ⟨_, rfl⟩
    · simp only [h1, h2]
      exact .inr (.inr (.inl ⟨hu, trivial⟩))
  · simp only [h1]
    exact .inr (.inl ⟨hu, trivial⟩)

theorem entryStep_noPanic (nodes : List Node) (epoch : Epoch) (e : RtEntry) :
    NoPanic (entryStep nodes epoch e) := by
  rcases entryStep_cases nodes epoch e with ⟨v, h⟩ | ⟨_, h⟩ | ⟨_, h⟩ | ⟨_, h⟩ <;> rw [h]
  · exact noPanic_ok _
  all_goals exact noPanic_state _

theorem epochLoop_noPanic (nodes : List Node) (epoch : Epoch) (rts : List RtEntry) (toEmit : List Status) :
    NoPanic (epochLoop nodes epoch toEmit rts) := by
  induction rts generalizing toEmit with
  | nil => exact noPanic_ok _
  | cons e rest ih =>
    unfold epochLoop
    simp only [bind, Except.bind]
    have hp := entryStep_noPanic nodes epoch e
    cases h : entryStep nodes epoch e with
    | error err =>
      intro s hs
      simp only at hs
      injection hs with hs
      exact hp s (by rw [h, hs])
    | ok v =>
      cases v with
      | none => exact ih _
      | some s => exact ih _

theorem epochLoop_ok (nodes : List Node) (epoch : Epoch) (rts : List RtEntry) (toEmit : List Status)
    (h : StateAvailable rts) : ∃ v, epochLoop nodes epoch toEmit rts = .ok v := by
  induction rts generalizing toEmit with
  | nil => exact ⟨_, rfl⟩
  | cons e rest ih =>
    have hrest : StateAvailable rest := fun x hx => h x (List.mem_cons_of_mem _ hx)
    obtain ⟨h1, h2, h3⟩ := h e (List.mem_cons_self ..)
    unfold epochLoop
    simp only [bind, Except.bind]
    rcases entryStep_cases nodes epoch e with ⟨v, hv⟩ | ⟨hu, _⟩ | ⟨hu, _⟩ | ⟨hu, _⟩
    · rw [hv]
      cases v with
      | none => exact ih _ hrest
      | some s => exact ih _ hrest
    · exact absurd hu h1
    · exact absurd hu h2
    · rw [h3] at hu; cases hu

/-- Conversely: an error out of the loop is a state error whose state access failed for some runtime. -/
theorem epochLoop_error (nodes : List Node) (epoch : Epoch) (rts : List RtEntry) (toEmit : List Status)
    (err : Err) (h : epochLoop nodes epoch toEmit rts = .error err) :
    ∃ e ∈ rts, (e.statusRead = .unavailable ∧ err = .state .status) ∨
      (e.secretRead = .unavailable ∧ err = .state .masterSecret) ∨
      (e.setStatusOk = false ∧ err = .state .setStatus) := by
  induction rts generalizing toEmit with
  | nil => cases h
  | cons e rest ih =>
    unfold epochLoop at h
    simp only [bind, Except.bind] at h
    have lift : (∃ x ∈ rest, (x.statusRead = .unavailable ∧ err = .state .status) ∨
        (x.secretRead = .unavailable ∧ err = .state .masterSecret) ∨
        (x.setStatusOk = false ∧ err = .state .setStatus)) →
        ∃ x ∈ e :: rest, (x.statusRead = .unavailable ∧ err = .state .status) ∨
        (x.secretRead = .unavailable ∧ err = .state .masterSecret) ∨
        (x.setStatusOk = false ∧ err = .state .setStatus) :=
      fun ⟨x, hx, hc⟩ => ⟨x, List.mem_cons_of_mem _ hx, hc⟩
    rcases entryStep_cases nodes epoch e with ⟨v, hv⟩ | ⟨hu, he⟩ | ⟨hu, he⟩ | ⟨hu, he⟩
    · rw [hv] at h
      cases v with
      | none => exact lift (ih _ h)
      | some s => exact lift (ih _ h)
    all_goals
      rw [he] at h
      simp only at h
      injection h with h
      refine ⟨e, List.mem_cons_self .., ?_⟩
      simp [hu, ← h]

end OasisProofs.Keymanager
