import OasisProofs.Helpers.MkvsRefine
import OasisModel.Mkvs.Commit
/-
Incremental hashing with dirty flags (commit.go:150-242) computes the Merkle hash of the whole tree:
the flagged operations commute with forgetting the flags, keep "a clean pointer's cached hash is the
true hash of its subtree", and `commitC` then returns `hashWith H` of the erased tree.
-/
namespace OasisProofs.Mkvs
open OasisModel.Mkvs OasisModel.Mkvs.CTrie

/-- Invariant: every clean pointer caches the true hash of its subtree. -/
def lfInv (H : Bytes → Bytes) : Option CLeaf → Prop
  | none => True
  | some (c, h, k, v) => c = true → h = H (leafEnc k v)

def CInv (H : Bytes → Bytes) : CTrie → Prop
  | .nil => True
  | .leaf c h k v => c = true → h = H (leafEnc k v)
  | .node c h lab lf l r =>
    (c = true → h = hashWith H (CTrie.node c h lab lf l r).erase) ∧ lfInv H lf ∧ CInv H l ∧ CInv H r

theorem hashLeafOpt_eraseLf (H : Bytes → Bytes) (lf : Option CLeaf) :
    hashLeafOpt H (eraseLf lf) = match lf with
      | none => H []
      | some (_, _, k, v) => H (leafEnc k v) := by
  rcases lf with _ | ⟨c, h, k, v⟩ <;> rfl

/-! ### insert -/

theorem erase_insertLf (k v : Bytes) (lf : Option CLeaf) :
    eraseLf (some (insertLf k v lf).1) = some (k, v) := by
  rcases lf with _ | ⟨c, h, k', v'⟩
  · rfl
  · simp only [insertLf]
    by_cases hk : k' = k
    · subst hk
      by_cases hv : v' = v
      · subst hv; simp [eraseLf]
      · simp [hv, eraseLf]
    · simp [hk, eraseLf]

theorem insertLf_existed (k v : Bytes) (lf : Option CLeaf) :
    (insertLf k v lf).2 = (match eraseLf lf with
      | some (k', _) => decide (k' = k)
      | none => false) := by
  rcases lf with _ | ⟨c, h, k', v'⟩
  · rfl
  · simp only [insertLf, eraseLf]
    by_cases hk : k' = k
    · subst hk; by_cases hv : v' = v <;> simp [hv]
    · simp [hk]

theorem erase_newLeaf (k v : Bytes) : (newLeaf k v).erase = .leaf k v := rfl

theorem leafSplit_erase (A B pre : Bits) (c : Bool) (h k v k' v' : Bytes) :
    (match A, B with
      | [], true :: _ => CTrie.node false [] pre (some (false, [], k, v)) .nil (.leaf c h k' v')
      | [], _ => .node false [] pre (some (false, [], k, v)) (.leaf c h k' v') .nil
      | true :: _, [] => .node false [] pre (some (c, h, k', v')) .nil (newLeaf k v)
      | false :: _, [] => .node false [] pre (some (c, h, k', v')) (newLeaf k v) .nil
      | true :: _, _ :: _ => .node false [] pre none (.leaf c h k' v') (newLeaf k v)
      | false :: _, _ :: _ => .node false [] pre none (newLeaf k v) (.leaf c h k' v')).erase =
    (match A, B with
      | [], true :: _ => Trie.node pre (some (k, v)) .nil (.leaf k' v')
      | [], _ => .node pre (some (k, v)) (.leaf k' v') .nil
      | true :: _, [] => .node pre (some (k', v')) .nil (.leaf k v)
      | false :: _, [] => .node pre (some (k', v')) (.leaf k v) .nil
      | true :: _, _ :: _ => .node pre none (.leaf k' v') (.leaf k v)
      | false :: _, _ :: _ => .node pre none (.leaf k v) (.leaf k' v')) := by
  rcases A with _ | ⟨a, A⟩ <;> rcases B with _ | ⟨b, B⟩
  all_goals (try cases a)
  all_goals (try cases b)
  all_goals rfl

theorem nodeSplit_erase (A suf pre : Bits) (old : CTrie) (k v : Bytes) :
    (match A with
      | [] =>
        match suf with
        | true :: _ => CTrie.node false [] pre (some (false, [], k, v)) .nil old
        | _ => .node false [] pre (some (false, [], k, v)) old .nil
      | true :: _ => .node false [] pre none old (newLeaf k v)
      | false :: _ => .node false [] pre none (newLeaf k v) old).erase =
    (match A with
      | [] =>
        match suf with
        | true :: _ => Trie.node pre (some (k, v)) .nil old.erase
        | _ => .node pre (some (k, v)) old.erase .nil
      | true :: _ => .node pre none old.erase (.leaf k v)
      | false :: _ => .node pre none (.leaf k v) old.erase) := by
  rcases A with _ | ⟨a, A⟩
  · rcases suf with _ | ⟨b, suf⟩
    · rfl
    · cases b <;> rfl
  · cases a <;> rfl

/-- The flagged insert is the plain insert on the erased tree (same tree, same `existed`). -/
theorem erase_insertC (k v : Bytes) (t : CTrie) : ∀ d : Nat,
    ((insertC k v t d).1.erase, (insertC k v t d).2) = t.erase.insertAux k v d := by
  induction t with
  | nil => intro d; rfl
  | leaf c h k' v' =>
    intro d
    simp only [insertC, CTrie.erase, Trie.insertAux]
    by_cases hk : k' = k
    · subst hk
      by_cases hv : v' = v
      · subst hv; simp [CTrie.erase]
      · simp [hv, CTrie.erase]
    · simp only [if_neg hk]
      congr 1
      exact leafSplit_erase _ _ _ _ _ _ _ _ _
  | node c h lab lf l r ihl ihr =>
    intro d
    simp only [insertC, CTrie.erase, Trie.insertAux]
    by_cases hcp : lcp lab ((toBits k).drop d) = lab.length
    · simp only [if_pos hcp]
      cases hrest : (toBits k).drop (d + lab.length) with
      | nil =>
        simp only [CTrie.erase, erase_insertLf, insertLf_existed]
        rcases eraseLf lf with _ | ⟨k', v'⟩ <;> rfl
      | cons b rest =>
        cases b
        · have := ihl (d + lab.length)
          simp only [CTrie.erase, ← this]
        · have := ihr (d + lab.length)
          simp only [CTrie.erase, ← this]
    · simp only [if_neg hcp]
      congr 1
      exact nodeSplit_erase _ _ _ _ _ _


theorem leafSplit_ind (P : CTrie → Prop) (A B pre : Bits) (c : Bool) (h k v k' v' : Bytes) :
    (∀ lf' l' r',
      (lf' = some (false, [], k, v) ∨ lf' = some (c, h, k', v') ∨ lf' = none) →
      (l' = .nil ∨ l' = .leaf c h k' v' ∨ l' = newLeaf k v) →
      (r' = .nil ∨ r' = .leaf c h k' v' ∨ r' = newLeaf k v) → P (.node false [] pre lf' l' r')) →
    P (match A, B with
      | [], true :: _ => CTrie.node false [] pre (some (false, [], k, v)) .nil (.leaf c h k' v')
      | [], _ => .node false [] pre (some (false, [], k, v)) (.leaf c h k' v') .nil
      | true :: _, [] => .node false [] pre (some (c, h, k', v')) .nil (newLeaf k v)
      | false :: _, [] => .node false [] pre (some (c, h, k', v')) (newLeaf k v) .nil
      | true :: _, _ :: _ => .node false [] pre none (.leaf c h k' v') (newLeaf k v)
      | false :: _, _ :: _ => .node false [] pre none (newLeaf k v) (.leaf c h k' v')) := by
  intro hP
  rcases A with _ | ⟨a, A⟩ <;> rcases B with _ | ⟨b, B⟩
  all_goals (try cases a)
  all_goals (try cases b)
  all_goals (apply hP <;> simp)

theorem nodeSplit_ind (P : CTrie → Prop) (A suf pre : Bits) (old : CTrie) (k v : Bytes) :
    (∀ lf' l' r',
      (lf' = some (false, [], k, v) ∨ lf' = none) →
      (l' = .nil ∨ l' = old ∨ l' = newLeaf k v) →
      (r' = .nil ∨ r' = old ∨ r' = newLeaf k v) → P (.node false [] pre lf' l' r')) →
    P (match A with
      | [] =>
        match suf with
        | true :: _ => CTrie.node false [] pre (some (false, [], k, v)) .nil old
        | _ => .node false [] pre (some (false, [], k, v)) old .nil
      | true :: _ => .node false [] pre none old (newLeaf k v)
      | false :: _ => .node false [] pre none (newLeaf k v) old) := by
  intro hP
  rcases A with _ | ⟨a, A⟩
  · rcases suf with _ | ⟨b, suf⟩
    · apply hP <;> simp
    · cases b <;> (apply hP <;> simp)
  · cases a <;> (apply hP <;> simp)

theorem insertLf_clean (k v : Bytes) (lf : Option CLeaf) (h : lfClean (some (insertLf k v lf).1) = true) :
    some (insertLf k v lf).1 = lf := by
  rcases lf with _ | ⟨c, h0, k', v'⟩
  · simp [insertLf, lfClean] at h
  · simp only [insertLf] at h ⊢
    by_cases hk : k' = k
    · subst hk
      by_cases hv : v' = v
      · simp [hv]
      · simp [hv, lfClean] at h
    · simp [hk, lfClean] at h

theorem nodeFlag_true {c : Bool} {lf : Option CLeaf} {l r : CTrie} (h : nodeFlag c lf l r = true) :
    lfClean lf = true ∧ l.isClean = true ∧ r.isClean = true ∧ c = true := by
  simp only [nodeFlag] at h
  split at h
  · next hh => simp only [Bool.and_eq_true] at hh; exact ⟨hh.1.1, hh.1.2, hh.2, h⟩
  · simp at h

theorem nodeFlag_of_clean {c : Bool} {lf : Option CLeaf} {l r : CTrie}
    (h1 : lfClean lf = true) (h2 : l.isClean = true) (h3 : r.isClean = true) : nodeFlag c lf l r = c := by
  simp [nodeFlag, h1, h2, h3]

/-- A pointer that is clean after `doInsert` is the pointer that was there before: everything the
insert changes is marked dirty. -/
theorem insertC_clean_unchanged (k v : Bytes) (t : CTrie) : ∀ d : Nat,
    (insertC k v t d).1.isClean = true → (insertC k v t d).1 = t := by
  induction t with
  | nil => intro d h; simp [insertC, newLeaf, isClean] at h
  | leaf c h0 k' v' =>
    intro d h
    simp only [insertC] at h ⊢
    by_cases hk : k' = k
    · subst hk
      by_cases hv : v' = v
      · simp [hv]
      · simp [hv, isClean] at h
    · simp only [if_neg hk] at h
      exfalso
      revert h
      apply leafSplit_ind (fun t => ¬ t.isClean = true)
      intro lf' l' r' _ _ _; simp [isClean]
  | node c h0 lab lf l r ihl ihr =>
    intro d h
    simp only [insertC] at h ⊢
    by_cases hcp : lcp lab ((toBits k).drop d) = lab.length
    · simp only [if_pos hcp] at h ⊢
      cases hrest : (toBits k).drop (d + lab.length) with
      | nil =>
        simp only [hrest, isClean] at h ⊢
        obtain ⟨h1, h2, h3, h4⟩ := nodeFlag_true h
        have e := insertLf_clean k v lf h1
        rw [e] at h1 ⊢
        rw [nodeFlag_of_clean h1 h2 h3]
      | cons b rest =>
        cases b
        · simp only [hrest, isClean] at h ⊢
          obtain ⟨h1, h2, h3, h4⟩ := nodeFlag_true h
          have e := ihl (d + lab.length) h2
          rw [e] at h2 ⊢
          rw [nodeFlag_of_clean h1 h2 h3]
        · simp only [hrest, isClean] at h ⊢
          obtain ⟨h1, h2, h3, h4⟩ := nodeFlag_true h
          have e := ihr (d + lab.length) h3
          rw [e] at h3 ⊢
          rw [nodeFlag_of_clean h1 h2 h3]
    · simp only [if_neg hcp] at h
      exfalso
      revert h
      apply nodeSplit_ind (fun t => ¬ t.isClean = true)
      intro lf' l' r' _ _ _; simp [isClean]

theorem cinv_newLeaf (H : Bytes → Bytes) (k v : Bytes) : CInv H (newLeaf k v) := by
  simp [CInv, newLeaf]

/-- `doInsert` keeps "clean pointers cache true hashes". -/
theorem cinv_insertC (H : Bytes → Bytes) (k v : Bytes) (t : CTrie) : ∀ d : Nat, CInv H t →
    CInv H (insertC k v t d).1 := by
  induction t with
  | nil => intro d _; exact cinv_newLeaf H k v
  | leaf c h0 k' v' =>
    intro d hinv
    simp only [insertC]
    by_cases hk : k' = k
    · subst hk
      by_cases hv : v' = v
      · simpa [hv] using hinv
      · simp [hv, CInv]
    · simp only [if_neg hk]
      apply leafSplit_ind (CInv H)
      intro lf' l' r' hlf hl hr
      refine ⟨by simp, ?_, ?_, ?_⟩
      · rcases hlf with e | e | e <;> subst e
        · simp [lfInv]
        · exact hinv
        · trivial
      · rcases hl with e | e | e <;> subst e
        · trivial
        · exact hinv
        · exact cinv_newLeaf H k v
      · rcases hr with e | e | e <;> subst e
        · trivial
        · exact hinv
        · exact cinv_newLeaf H k v
  | node c h0 lab lf l r ihl ihr =>
    intro d hinv
    obtain ⟨hc, hlfi, hli, hri⟩ := hinv
    simp only [insertC]
    by_cases hcp : lcp lab ((toBits k).drop d) = lab.length
    · simp only [if_pos hcp]
      cases hrest : (toBits k).drop (d + lab.length) with
      | nil =>
        simp only
        refine ⟨?_, ?_, hli, hri⟩
        · intro hf
          obtain ⟨h1, h2, h3, h4⟩ := nodeFlag_true hf
          have e := insertLf_clean k v lf h1
          rw [e]
          have := hc h4
          simpa [CTrie.erase] using this
        · rcases lf with _ | ⟨c0, h1, k', v'⟩
          · simp [insertLf, lfInv]
          · simp only [insertLf]
            by_cases hk : k' = k
            · subst hk
              by_cases hv : v' = v
              · simpa [hv] using hlfi
              · simp [hv, lfInv]
            · simp [hk, lfInv]
      | cons b rest =>
        cases b
        · simp only
          refine ⟨?_, hlfi, ihl _ hli, hri⟩
          intro hf
          obtain ⟨h1, h2, h3, h4⟩ := nodeFlag_true hf
          have e := insertC_clean_unchanged k v l (d + lab.length) h2
          rw [e]
          have := hc h4
          simpa [CTrie.erase] using this
        · simp only
          refine ⟨?_, hlfi, hli, ihr _ hri⟩
          intro hf
          obtain ⟨h1, h2, h3, h4⟩ := nodeFlag_true hf
          have e := insertC_clean_unchanged k v r (d + lab.length) h3
          rw [e]
          have := hc h4
          simpa [CTrie.erase] using this
    · simp only [if_neg hcp]
      have hold : CInv H (.node false h0 (lab.drop (lcp lab ((toBits k).drop d))) lf l r) :=
        ⟨by simp, hlfi, hli, hri⟩
      apply nodeSplit_ind (CInv H)
      intro lf' l' r' hlf hl hr
      refine ⟨by simp, ?_, ?_, ?_⟩
      · rcases hlf with e | e <;> subst e
        · simp [lfInv]
        · trivial
      · rcases hl with e | e | e <;> subst e
        · trivial
        · exact hold
        · exact cinv_newLeaf H k v
      · rcases hr with e | e | e <;> subst e
        · trivial
        · exact hold
        · exact cinv_newLeaf H k v


/-! ### remove -/

theorem erase_collapseC (c : Bool) (h : Bytes) (lab : Bits) (lf : Option CLeaf) (l r : CTrie) (ch : Bool) :
    ((collapseC c h lab lf l r ch).1.erase, (collapseC c h lab lf l r ch).2) =
      Trie.collapse lab (eraseLf lf) l.erase r.erase ch := by
  rcases lf with _ | ⟨c0, h0, k0, v0⟩ <;> cases l <;> cases r <;> rfl

/-- The flagged remove is the plain remove on the erased tree (tree, `changed`, previous value). -/
theorem erase_removeC (k : Bytes) (t : CTrie) : ∀ d : Nat,
    ((removeC k t d).1.erase, (removeC k t d).2) = t.erase.removeAux k d := by
  induction t with
  | nil => intro d; rfl
  | leaf c h k' v' =>
    intro d
    simp only [removeC, CTrie.erase, Trie.removeAux]
    by_cases hk : k' = k <;> simp [hk, CTrie.erase]
  | node c h lab lf l r ihl ihr =>
    intro d
    simp only [removeC, CTrie.erase, Trie.removeAux]
    by_cases h1 : (toBits k).length < d + lab.length
    · simp [h1, CTrie.erase]
    · simp only [if_neg h1]
      by_cases h2 : (toBits k).length = d + lab.length
      · simp only [if_pos h2]
        rcases lf with _ | ⟨c0, h0, k', v'⟩
        · have := erase_collapseC c h lab none l r false
          simp only [eraseLf] at this ⊢
          rw [← this]
        · simp only [eraseLf]
          by_cases hk : k' = k
          · have := erase_collapseC c h lab none l r true
            simp only [eraseLf] at this
            simp only [if_pos hk, ← this]
          · have := erase_collapseC c h lab (some (c0, h0, k', v')) l r false
            simp only [eraseLf] at this
            simp only [if_neg hk, ← this]
      · simp only [if_neg h2]
        cases hrest : (toBits k).drop (d + lab.length) with
        | nil =>
          have e := ihl (d + lab.length)
          have := erase_collapseC c h lab lf (removeC k l (d + lab.length)).1 r (removeC k l (d + lab.length)).2.1
          simp only
          rw [← e]
          simp only [← this]
        | cons b rest =>
          cases b
          · have e := ihl (d + lab.length)
            have := erase_collapseC c h lab lf (removeC k l (d + lab.length)).1 r (removeC k l (d + lab.length)).2.1
            simp only
            rw [← e]
            simp only [← this]
          · have e := ihr (d + lab.length)
            have := erase_collapseC c h lab lf l (removeC k r (d + lab.length)).1 (removeC k r (d + lab.length)).2.1
            simp only
            rw [← e]
            simp only [← this]


theorem collapseC_false {c : Bool} {h : Bytes} {lab : Bits} {lf : Option CLeaf} {l r : CTrie} {ch : Bool}
    (hf : (collapseC c h lab lf l r ch).2 = false) :
    ch = false ∧ (collapseC c h lab lf l r ch).1 = .node c h lab lf l r := by
  rcases lf with _ | ⟨c0, h0, k0, v0⟩ <;> cases l <;> cases r <;> simp [collapseC] at hf ⊢ <;> simp [hf]

theorem cinv_collapseC (H : Bytes → Bytes) {c : Bool} {h : Bytes} {lab : Bits} {lf : Option CLeaf}
    {l r : CTrie} {ch : Bool} (hlf : lfInv H lf) (hl : CInv H l) (hr : CInv H r)
    (hc : ch = false → c = true → h = hashWith H (CTrie.node c h lab lf l r).erase) :
    CInv H (collapseC c h lab lf l r ch).1 := by
  have hnode : CInv H (.node (if ch then false else c) h lab lf l r) := by
    refine ⟨?_, hlf, hl, hr⟩
    intro hflag
    cases ch with
    | true => simp at hflag
    | false => simp at hflag; simpa [CTrie.erase] using hc rfl hflag
  have hpre : ∀ t, CInv H t → CInv H (prependC lab t) := by
    intro t ht
    cases t with
    | nil => trivial
    | leaf _ _ _ _ => exact ht
    | node c1 h1 lab1 lf1 l1 r1 => exact ⟨by simp, ht.2.1, ht.2.2.1, ht.2.2.2⟩
  rcases lf with _ | ⟨c0, h0, k0, v0⟩
  · cases r with
    | nil =>
      have e : (collapseC c h lab none l .nil ch).1 = prependC lab l := by cases l <;> rfl
      rw [e]; exact hpre l hl
    | leaf cr hr' kr vr =>
      cases l with
      | nil => exact hpre _ hr
      | leaf _ _ _ _ => exact hnode
      | node _ _ _ _ _ _ => exact hnode
    | node cr hr' labr lfr lr rr =>
      cases l with
      | nil => exact hpre _ hr
      | leaf _ _ _ _ => exact hnode
      | node _ _ _ _ _ _ => exact hnode
  · cases l <;> cases r
    · exact hlf
    all_goals exact hnode

/-- When `doRemove` reports `changed = false` it returns the very pointer it was given. -/
theorem removeC_unchanged (k : Bytes) (t : CTrie) : ∀ d : Nat,
    (removeC k t d).2.1 = false → (removeC k t d).1 = t := by
  induction t with
  | nil => intro d _; rfl
  | leaf c h k' v' =>
    intro d hf
    simp only [removeC] at hf ⊢
    by_cases hk : k' = k <;> simp [hk] at hf ⊢
  | node c h lab lf l r ihl ihr =>
    intro d hf
    simp only [removeC] at hf ⊢
    by_cases h1 : (toBits k).length < d + lab.length
    · simp [h1]
    · simp only [if_neg h1] at hf ⊢
      by_cases h2 : (toBits k).length = d + lab.length
      · simp only [if_pos h2] at hf ⊢
        rcases lf with _ | ⟨c0, h0, k', v'⟩
        · exact (collapseC_false hf).2
        · by_cases hk : k' = k
          · simp only [if_pos hk] at hf
            have := (collapseC_false hf).1
            simp at this
          · simp only [if_neg hk] at hf ⊢
            exact (collapseC_false hf).2
      · simp only [if_neg h2] at hf ⊢
        cases hrest : (toBits k).drop (d + lab.length) with
        | nil =>
          simp only [hrest] at hf ⊢
          obtain ⟨e1, e2⟩ := collapseC_false hf
          rw [e2, ihl _ e1]
        | cons b rest =>
          cases b
          · simp only [hrest] at hf ⊢
            obtain ⟨e1, e2⟩ := collapseC_false hf
            rw [e2, ihl _ e1]
          · simp only [hrest] at hf ⊢
            obtain ⟨e1, e2⟩ := collapseC_false hf
            rw [e2, ihr _ e1]

/-- `doRemove` keeps "clean pointers cache true hashes". -/
theorem cinv_removeC (H : Bytes → Bytes) (k : Bytes) (t : CTrie) : ∀ d : Nat, CInv H t →
    CInv H (removeC k t d).1 := by
  induction t with
  | nil => intro d _; trivial
  | leaf c h k' v' =>
    intro d hinv
    simp only [removeC]
    by_cases hk : k' = k
    · simp [hk, CInv]
    · simpa [hk] using hinv
  | node c h lab lf l r ihl ihr =>
    intro d hinv
    obtain ⟨hc, hlfi, hli, hri⟩ := hinv
    have hinv : CInv H (.node c h lab lf l r) := ⟨hc, hlfi, hli, hri⟩
    simp only [removeC]
    by_cases h1 : (toBits k).length < d + lab.length
    · simpa [h1] using hinv
    · simp only [if_neg h1]
      by_cases h2 : (toBits k).length = d + lab.length
      · simp only [if_pos h2]
        rcases lf with _ | ⟨c0, h0, k', v'⟩
        · exact cinv_collapseC H trivial hli hri (fun _ => hc)
        · by_cases hk : k' = k
          · simp only [if_pos hk]
            exact cinv_collapseC H (lf := none) trivial hli hri (fun h => by simp at h)
          · simp only [if_neg hk]
            exact cinv_collapseC H hlfi hli hri (fun _ => hc)
      · simp only [if_neg h2]
        have left : CInv H (collapseC c h lab lf (removeC k l (d + lab.length)).1 r
            (removeC k l (d + lab.length)).2.1).1 := by
          apply cinv_collapseC H hlfi (ihl _ hli) hri
          intro hch
          rw [removeC_unchanged k l _ hch]; exact hc
        cases hrest : (toBits k).drop (d + lab.length) with
        | nil => exact left
        | cons b rest =>
          cases b
          · exact left
          · apply cinv_collapseC H hlfi hli (ihr _ hri)
            intro hch
            rw [removeC_unchanged k r _ hch]; exact hc


/-! ### commit -/

theorem commitLf_spec (H : Bytes → Bytes) (lf : Option CLeaf) (h : lfInv H lf) :
    (commitLf H lf).2 = hashLeafOpt H (eraseLf lf) ∧ eraseLf (commitLf H lf).1 = eraseLf lf ∧
    lfInv H (commitLf H lf).1 ∧ lfClean (commitLf H lf).1 = true := by
  rcases lf with _ | ⟨c, h0, k, v⟩
  · exact ⟨rfl, rfl, trivial, rfl⟩
  · cases c with
    | true => exact ⟨h rfl, rfl, h, rfl⟩
    | false => exact ⟨rfl, rfl, fun _ => rfl, rfl⟩

/-- `doCommit`: recomputing hashes only for dirty pointers gives the Merkle hash of the whole tree;
afterwards everything is clean, the contents are untouched and the invariant holds. -/
theorem commitC_spec (H : Bytes → Bytes) (t : CTrie) : CInv H t →
    (commitC H t).2 = hashWith H t.erase ∧ (commitC H t).1.erase = t.erase ∧
    CInv H (commitC H t).1 ∧ (commitC H t).1.isClean = true := by
  induction t with
  | nil => intro _; exact ⟨rfl, rfl, trivial, rfl⟩
  | leaf c h k v =>
    intro hinv
    cases c with
    | true => exact ⟨hinv rfl, rfl, hinv, rfl⟩
    | false => exact ⟨rfl, rfl, fun _ => rfl, rfl⟩
  | node c h lab lf l r ihl ihr =>
    intro hinv
    obtain ⟨hc, hlfi, hli, hri⟩ := hinv
    cases c with
    | true => exact ⟨hc rfl, rfl, ⟨hc, hlfi, hli, hri⟩, rfl⟩
    | false =>
      obtain ⟨a1, a2, a3, a4⟩ := commitLf_spec H lf hlfi
      obtain ⟨b1, b2, b3, b4⟩ := ihl hli
      obtain ⟨c1, c2, c3, c4⟩ := ihr hri
      have e : commitC H (.node false h lab lf l r) =
          (.node true (H (nodeEnc lab (commitLf H lf).2 (commitC H l).2 (commitC H r).2)) lab
            (commitLf H lf).1 (commitC H l).1 (commitC H r).1,
           H (nodeEnc lab (commitLf H lf).2 (commitC H l).2 (commitC H r).2)) := rfl
      rw [e]
      have hh : H (nodeEnc lab (commitLf H lf).2 (commitC H l).2 (commitC H r).2) =
          hashWith H (CTrie.node false h lab lf l r).erase := by
        simp only [CTrie.erase, hashWith, a1, b1, c1]
      refine ⟨hh, ?_, ⟨?_, a3, b3, c3⟩, rfl⟩
      · simp only [CTrie.erase, a2, b2, c2]
      · intro _
        rw [hh]
        simp only [CTrie.erase, a2, b2, c2]

end OasisProofs.Mkvs
