import OasisProofs.Helpers.RegistryOps
/-
C17 helper lemmas, part 3: node registration (`registerNode`) preserves the invariant — always in
the repaired order of `SetNode`, and in the code's interleaved order when no key moves forward.
-/
namespace OasisProofs.Registry
open OasisModel.Registry

theorem firstErr_none {l : List (Bool × Res)} (h : firstErr l = none) : ∀ p, p ∈ l → p.1 = false := by
  induction l with
  | nil => intro p hp; cases hp
  | cons q l ih =>
    obtain ⟨c, e⟩ := q
    simp only [firstErr] at h
    cases c with
    | true => simp at h
    | false =>
      simp only [Bool.false_eq_true, if_false] at h
      intro p hp
      rcases List.mem_cons.1 hp with rfl | hp
      · rfl
      · exact ih h p hp

/-- What `VerifyRegisterNodeArgs` has checked when it accepts a descriptor. -/
structure ArgsOk (s : State) (ws : List Key) (sn : SignedNode) : Prop where
  sigValid : sn.sigValid = true
  inEntity : sn.node.id ∈ ws
  signedId : sn.node.id ∈ sn.signers
  signedCons : sn.node.cons ∈ sn.signers
  signedVrf : sn.node.vrf ∈ sn.signers
  signedTls : sn.node.tls ∈ sn.signers
  signedP2p : sn.node.p2p ∈ sn.signers
  onlyFive : (dedup sn.signers).length = 5
  notTaken : ∀ k, k ∈ subKeys sn.node → subKeyTaken s sn.node.id k = false
  nodup : hasDup (subKeys sn.node) = false

theorem verifyNodeArgs_none {s : State} {ws : List Key} {sn : SignedNode}
    (h : verifyNodeArgs s ws sn = none) : ArgsOk s ws sn := by
  unfold verifyNodeArgs at h
  split at h; · cases h
  rename_i hpre
  split at h; · cases h
  have hpre := firstErr_none hpre
  have hpost := firstErr_none h
  simp only [nodeChecksPre, nodeChecksPost, List.mem_cons, List.not_mem_nil, or_false, forall_eq_or_imp,
    forall_eq] at hpre hpost
  obtain ⟨p1, _, p3, p4, _, _⟩ := hpre
  obtain ⟨q1, q2, q3, q4, q5, q6, q7⟩ := hpost
  simp only [Bool.not_eq_false', Bool.or_eq_false_iff] at p1 p3 p4 q1 q2 q3 q4 q5 q7
  simp only [isOnlySignedBy, Bool.and_eq_true, beq_iff_eq] at q7
  refine ⟨p1, by simpa using p4, by simpa using p3, by simpa using q1, by simpa using q2, by simpa using q3,
    by simpa using q4, by simpa using q7.1, ?_, q6⟩
  intro k hk
  simp only [subKeys, List.mem_cons, List.not_mem_nil, or_false] at hk
  rcases hk with rfl | rfl | rfl | rfl
  · exact q5.1.1.1
  · exact q5.1.1.2
  · exact q5.1.2
  · exact q5.2


theorem accepted_of_checks {s : State} {ws : List Key} {sn : SignedNode} (h : IndexInv s)
    (ha : ArgsOk s ws sn) (hu : verifyExisting s sn.node = none) : Accepted s sn.node := by
  refine ⟨ha.nodup, ?_, ?_⟩
  · intro k hk id hkm hex
    obtain ⟨m, hm⟩ := hex
    have := ha.notTaken k hk
    simp only [subKeyTaken, nodeBySubKey, hkm, hm] at this
    have hid := h.node_id id m hm
    simpa [hid] using this
  · intro cur hc
    simp only [verifyExisting, hc, verifyNodeUpdate] at hu
    split at hu; · cases hu
    split at hu; · cases hu
    split at hu; · cases hu
    rename_i _ h2 h3
    exact ⟨by simpa using h2, by simpa using h3⟩

/-- The checks `registerNode` has passed before it writes (`gen` = InitChain: there is no transaction
signer and expired descriptors are admitted). -/
structure NodeChecks (gen : Bool) (s : State) (t : Key) (sn : SignedNode) : Prop where
  ent : ∃ ws, s.entities.get sn.node.entity = some ws ∧ verifyNodeArgs s ws sn = none
  signer : gen = false → t = sn.node.id
  notExpired : gen = false → s.epoch < sn.node.expiration
  stake : canAddClaim s s.claims (.ent sn.node.entity) (.node sn.node.id) (nodeThr sn.node) = true
  update : verifyExisting s sn.node = none

theorem regNode_spec (gen : Bool) (ord : Order) (s : State) (t : Key) (sn : SignedNode) :
    (regNode gen ord s t sn).1 = s ∨
    (NodeChecks gen s t sn ∧
      (regNode gen ord s t sn = (regNodeOk ord s sn.node, .ok) ∨
       ((∃ cur, s.nodes.get sn.node.id = some cur) ∧ s.status.get sn.node.id = none ∧
         regNode gen ord s t sn = (setNode ord s (s.nodes.get sn.node.id) sn.node, .invalidArgument "bare")))) := by
  unfold regNode
  split
  · exact Or.inl rfl
  · rename_i ws hws
    split
    · exact Or.inl rfl
    · rename_i hv
      split
      · exact Or.inl rfl
      · rename_i ht
        split
        · exact Or.inl rfl
        · rename_i hexp
          split
          · exact Or.inl rfl
          · rename_i hstake
            split
            · exact Or.inl rfl
            · rename_i hu
              have hc : NodeChecks gen s t sn :=
                ⟨⟨ws, hws, hv⟩, by intro hg; subst hg; simpa using ht, by intro hg; subst hg; simpa using hexp,
                  by simpa using hstake, hu⟩
              split
              · rename_i hbad
                refine Or.inr ⟨hc, Or.inr ⟨?_, ?_, rfl⟩⟩
                · cases hn : s.nodes.get sn.node.id with
                  | none => simp [hn] at hbad
                  | some cur => exact ⟨cur, rfl⟩
                · cases hst : s.status.get sn.node.id with
                  | none => rfl
                  | some st => simp [hst] at hbad
              · exact Or.inr ⟨hc, Or.inl rfl⟩

/-- The authority-relevant part of a runtime descriptor (everything except the `suspended` flag). -/
def rtCore (rt : Runtime) : RtId × Key × Gov × Kind := (rt.id, rt.entity, rt.gov, rt.kind)

theorem rtCore_eq {x y : Runtime} (h : rtCore x = rtCore y) :
    x.id = y.id ∧ x.entity = y.entity ∧ x.stakingAddr = y.stakingAddr ∧ rtThr x = rtThr y ∧ x.kind = y.kind ∧ x.gov = y.gov := by
  simp only [rtCore, Prod.mk.injEq] at h
  obtain ⟨h1, h2, h3, h4⟩ := h
  refine ⟨h1, h2, ?_, ?_, h4, h3⟩
  · simp [Runtime.stakingAddr, h1, h2, h3]
  · simp [rtThr, h4]

/-- `resumeRuntimes` only clears `suspended` flags. -/
theorem get_resumeRuntimes_core (ok : Runtime → Bool) (rts : Map RtId Runtime) (l : List RtId) (r : RtId) :
    ((resumeRuntimes ok rts l).get r).map rtCore = (rts.get r).map rtCore := by
  induction l generalizing rts with
  | nil => rfl
  | cons r0 rs ih =>
    simp only [resumeRuntimes]
    cases h0 : rts.get r0 with
    | none => simp only []; exact ih rts
    | some x0 =>
      simp only []
      rw [ih]
      split
      · simp only [Map.get_set]
        by_cases e : r0 = r
        · subst e; simp [h0, rtCore]
        · simp [e]
      · rfl

theorem get_resumeRuntimes_some {ok : Runtime → Bool} {rts : Map RtId Runtime} {l : List RtId} {r : RtId}
    {x' : Runtime} (h : (resumeRuntimes ok rts l).get r = some x') :
    ∃ x, rts.get r = some x ∧ rtCore x' = rtCore x := by
  have hc := get_resumeRuntimes_core ok rts l r
  rw [h] at hc
  cases hx : rts.get r with
  | none => simp [hx] at hc
  | some x => exact ⟨x, rfl, by simpa [hx] using hc⟩

theorem get_resumeRuntimes_of {ok : Runtime → Bool} {rts : Map RtId Runtime} {l : List RtId} {r : RtId}
    {x : Runtime} (h : rts.get r = some x) :
    ∃ x', (resumeRuntimes ok rts l).get r = some x' ∧ rtCore x' = rtCore x := by
  have hc := get_resumeRuntimes_core ok rts l r
  rw [h] at hc
  cases hx : (resumeRuntimes ok rts l).get r with
  | none => simp [hx] at hc
  | some x' => exact ⟨x', rfl, by simpa [hx] using hc⟩

theorem regNodeStatus_keeps (s : State) (ex : Option Node) (n : Node) (st : Option Status) (id : Key)
    (h : ∃ x, s.status.get id = some x) : ∃ x, (regNodeStatus s ex n st).get id = some x := by
  obtain ⟨x, hx⟩ := h
  simp only [regNodeStatus]
  split
  · simp only [Map.get_set]
    by_cases e : n.id = id
    · simp [e]
    · simp [e, hx]
  · exact ⟨x, hx⟩

theorem regNodeStatus_new (s : State) (n : Node) (st : Option Status) :
    ∃ x, (regNodeStatus s none n st).get n.id = some x := by
  simp [regNodeStatus, isFresh, Map.get_set]

theorem regNodeStatus_from (s : State) (ex : Option Node) (n : Node) (st : Option Status) (id : Key)
    (h : ∃ x, (regNodeStatus s ex n st).get id = some x) : id = n.id ∨ ∃ x, s.status.get id = some x := by
  obtain ⟨x, hx⟩ := h
  simp only [regNodeStatus] at hx
  split at hx
  · simp only [Map.get_set] at hx
    by_cases e : n.id = id
    · exact Or.inl e.symm
    · simp only [e, if_false] at hx; exact Or.inr ⟨x, hx⟩
  · exact Or.inr ⟨x, hx⟩

/-- If `SetNode` left the indexes consistent, the rest of a successful `registerNode`
(status, resumed runtimes, stake claim) re-establishes the full invariant. -/
theorem regNodeOk_inv_of (ord : Order) (s : State) (n : Node) (h : Inv s)
    (hsame : ∀ cur, s.nodes.get n.id = some cur → cur.entity = n.entity)
    (hidx : IndexInv (setNode ord s (s.nodes.get n.id) n)) : Inv (regNodeOk ord s n) := by
  have hnodes : (regNodeOk ord s n).nodes = s.nodes.set n.id n := rfl
  have hrts : (regNodeOk ord s n).runtimes =
      resumeRuntimes (mayResume s (s.claims.set (.ent n.entity, .node n.id) (nodeThr n))) s.runtimes n.runtimes := rfl
  have hcl : (regNodeOk ord s n).claims = s.claims.set (.ent n.entity, .node n.id) (nodeThr n) := rfl
  refine { toIndexInv := ?_, cl_sound := ?_, cl_compl := ?_, st_nodes := ?_, nodes_nodup := ?_ }
  · constructor
    · exact hidx.node_id
    · exact hidx.sub_nodup
    · exact hidx.km_sound
    · exact hidx.km_compl
    · exact hidx.ca_sound
    · exact hidx.ca_compl
    · exact hidx.be_sound
    · exact hidx.be_compl
    · intro r x' hx'
      rw [hrts] at hx'
      obtain ⟨x, hx, hc⟩ := get_resumeRuntimes_some hx'
      rw [(rtCore_eq hc).1]; exact h.rt_id r x hx
    · intro e r hb
      obtain ⟨x, hx, hxe⟩ := h.rbe_sound e r hb
      obtain ⟨x', hx', hc⟩ := get_resumeRuntimes_of (ok := mayResume s (s.claims.set (.ent n.entity, .node n.id) (nodeThr n)))
        (l := n.runtimes) hx
      exact ⟨x', by rw [hrts]; exact hx', by rw [(rtCore_eq hc).2.1]; exact hxe⟩
    · intro r x' hx'
      rw [hrts] at hx'
      obtain ⟨x, hx, hc⟩ := get_resumeRuntimes_some hx'
      rw [(rtCore_eq hc).2.1]; exact h.rbe_compl r x hx
  · intro a c ths hc
    rw [hcl] at hc
    simp only [Map.get_set] at hc
    by_cases hp : (Addr.ent n.entity, Claim.node n.id) = (a, c)
    · cases hp
      simp only [if_true, Option.some.injEq] at hc
      exact ⟨n, by simp [hnodes, Map.get_set], rfl, hc.symm⟩
    · simp only [hp, if_false] at hc
      have hi := h.cl_sound a c ths hc
      cases c with
      | entity => exact hi
      | node id =>
        obtain ⟨m, hm, ha, ht⟩ := hi
        have hne : ¬ n.id = id := by
          intro e; subst e
          exact hp (by rw [ha, hsame m hm])
        exact ⟨m, by simp [hnodes, Map.get_set, hne, hm], ha, ht⟩
      | runtime r =>
        obtain ⟨x, hx, ha, ht⟩ := hi
        obtain ⟨x', hx', hc'⟩ := get_resumeRuntimes_of (ok := mayResume s (s.claims.set (.ent n.entity, .node n.id) (nodeThr n)))
          (l := n.runtimes) hx
        exact ⟨x', by rw [hrts]; exact hx', by rw [(rtCore_eq hc').2.2.1]; exact ha, by rw [(rtCore_eq hc').2.2.2.1]; exact ht⟩
  · intro a c ths hi
    rw [hcl]
    simp only [Map.get_set]
    by_cases hp : (Addr.ent n.entity, Claim.node n.id) = (a, c)
    · cases hp
      obtain ⟨m, hm, _, ht⟩ := hi
      rw [hnodes] at hm
      simp only [Map.get_set, if_true, Option.some.injEq] at hm
      subst hm
      simp [ht]
    · simp only [hp, if_false]
      apply h.cl_compl
      cases c with
      | entity => exact hi
      | node id =>
        obtain ⟨m, hm, ha, ht⟩ := hi
        rw [hnodes] at hm
        simp only [Map.get_set] at hm
        by_cases e : n.id = id
        · simp only [e, if_true, Option.some.injEq] at hm
          subst hm; subst e; exact absurd (by rw [ha]) hp
        · simp only [e, if_false] at hm
          exact ⟨m, hm, ha, ht⟩
      | runtime r =>
        obtain ⟨x', hx', ha, ht⟩ := hi
        rw [hrts] at hx'
        obtain ⟨x, hx, hc'⟩ := get_resumeRuntimes_some hx'
        exact ⟨x, hx, by rw [← (rtCore_eq hc').2.2.1]; exact ha, by rw [← (rtCore_eq hc').2.2.2.1]; exact ht⟩
  · intro id m hm
    rw [hnodes] at hm
    have hst : (regNodeOk ord s n).status = regNodeStatus s (s.nodes.get n.id) n (s.status.get n.id) := rfl
    rw [hst]
    simp only [Map.get_set] at hm
    by_cases e : n.id = id
    · subst e
      cases hc : s.nodes.get n.id with
      | none => exact regNodeStatus_new s n _
      | some cur => exact regNodeStatus_keeps s _ n _ n.id (h.st_nodes n.id cur hc)
    · simp only [e, if_false] at hm
      exact regNodeStatus_keeps s _ n _ id (h.st_nodes id m hm)
  · rw [hnodes]; exact nodup_keys_set _ _ _ h.nodes_nodup

/-- Under the invariant the "status missing after SetNode" path of `registerNode` is unreachable. -/
theorem regNode_ok_or_unchanged (gen : Bool) (ord : Order) (s : State) (t : Key) (sn : SignedNode) (h : Inv s) :
    (regNode gen ord s t sn).1 = s ∨
    (NodeChecks gen s t sn ∧ regNode gen ord s t sn = (regNodeOk ord s sn.node, .ok)) := by
  rcases regNode_spec gen ord s t sn with e | ⟨hc, e | ⟨⟨cur, hcur⟩, hst, _⟩⟩
  · exact Or.inl e
  · exact Or.inr ⟨hc, e⟩
  · obtain ⟨x, hx⟩ := h.st_nodes sn.node.id cur hcur
    rw [hst] at hx; cases hx

theorem accepted_of_nodeChecks {gen : Bool} {s : State} {t : Key} {sn : SignedNode} (h : IndexInv s)
    (hc : NodeChecks gen s t sn) : Accepted s sn.node := by
  obtain ⟨ws, _, hv⟩ := hc.ent
  exact accepted_of_checks h (verifyNodeArgs_none hv) hc.update

theorem regNode_inv_rf (gen : Bool) (s : State) (t : Key) (sn : SignedNode) (h : Inv s) :
    Inv (regNode gen .removalsFirst s t sn).1 := by
  rcases regNode_ok_or_unchanged gen .removalsFirst s t sn h with e | ⟨hc, e⟩
  · rw [e]; exact h
  · rw [e]
    have ha := accepted_of_nodeChecks h.toIndexInv hc
    exact regNodeOk_inv_of _ s sn.node h (fun cur hcur => (ha.same cur hcur).1)
      (setNode_rf_index s sn.node h.toIndexInv ha)

theorem regNode_inv_il (gen : Bool) (s : State) (t : Key) (sn : SignedNode) (h : Inv s)
    (hf : ∀ cur, s.nodes.get sn.node.id = some cur → ¬ forwardMove cur sn.node) :
    Inv (regNode gen .interleaved s t sn).1 := by
  rcases regNode_ok_or_unchanged gen .interleaved s t sn h with e | ⟨hc, e⟩
  · rw [e]; exact h
  · rw [e]
    have ha := accepted_of_nodeChecks h.toIndexInv hc
    exact regNodeOk_inv_of _ s sn.node h (fun cur hcur => (ha.same cur hcur).1)
      (setNode_il_index s sn.node h.toIndexInv ha hf)

end OasisProofs.Registry
