import OasisProofs.Helpers.RegistryOps
/-
C17 helper lemmas, part 3: node registration (`registerNode`) preserves the invariant — always in
the repaired order of `SetNode`, and in the code's interleaved order when no key moves forward.
-/
namespace OasisProofs.Registry
open OasisModel.Registry

theorem firstErr_none {l : List (Bool × Res)} (h : firstErr l = none) : ∀ p, p ∈ l → p.1 = false := by
  induction l with
  | nil => intro p hp; cases hp
  | cons q l ih =>
    obtain ⟨c, e⟩ := q
    simp only [firstErr] at h
    cases c with
    | true => simp at h
    | false =>
      simp only [Bool.false_eq_true, if_false] at h
      intro p hp
      rcases List.mem_cons.1 hp with rfl | hp
      · rfl
      · exact ih h p hp

/-- What `VerifyRegisterNodeArgs` has checked when it accepts a descriptor. -/
structure ArgsOk (s : State) (ws : List Key) (sn : SignedNode) : Prop where
  sigValid : sn.sigValid = true
  inEntity : sn.node.id ∈ ws
  signedId : sn.node.id ∈ sn.signers
  signedCons : sn.node.cons ∈ sn.signers
  signedVrf : sn.node.vrf ∈ sn.signers
  signedTls : sn.node.tls ∈ sn.signers
  signedP2p : sn.node.p2p ∈ sn.signers
  onlyFive : (dedup sn.signers).length = 5
  notTaken : ∀ k, k ∈ subKeys sn.node → subKeyTaken s sn.node.id k = false
  nodup : hasDup (subKeys sn.node) = false

theorem verifyNodeArgs_none {s : State} {ws : List Key} {sn : SignedNode}
    (h : verifyNodeArgs s ws sn = none) : ArgsOk s ws sn := by
  unfold verifyNodeArgs at h
  split at h; · cases h
  rename_i hpre
  split at h; · cases h
  have hpre := firstErr_none hpre
  have hpost := firstErr_none h
  simp only [nodeChecksPre, nodeChecksPost, List.mem_cons, List.not_mem_nil, or_false, forall_eq_or_imp,
    forall_eq] at hpre hpost
  obtain ⟨p1, _, p3, p4, _, _⟩ := hpre
  obtain ⟨q1, q2, q3, q4, q5, q6, q7⟩ := hpost
  simp only [Bool.not_eq_false', Bool.or_eq_false_iff] at p1 p3 p4 q1 q2 q3 q4 q5 q7
  simp only [isOnlySignedBy, Bool.and_eq_true, beq_iff_eq] at q7
  refine ⟨p1, by simpa using p4, by simpa using p3, by simpa using q1, by simpa using q2, by simpa using q3,
    by simpa using q4, by simpa using q7.1, ?_, q6⟩
  intro k hk
  simp only [subKeys, List.mem_cons, List.not_mem_nil, or_false] at hk
  rcases hk with rfl | rfl | rfl | rfl
  · exact q5.1.1.1
  · exact q5.1.1.2
  · exact q5.1.2
  · exact q5.2


theorem accepted_of_checks {s : State} {ws : List Key} {sn : SignedNode} (h : IndexInv s)
    (ha : ArgsOk s ws sn) (hu : verifyExisting s sn.node = none) : Accepted s sn.node := by
  refine ⟨ha.nodup, ?_, ?_⟩
  · intro k hk id hkm hex
    obtain ⟨m, hm⟩ := hex
    have := ha.notTaken k hk
    simp only [subKeyTaken, nodeBySubKey, hkm, hm] at this
    have hid := h.node_id id m hm
    simpa [hid] using this
  · intro cur hc
    simp only [verifyExisting, hc, verifyNodeUpdate] at hu
    split at hu; · cases hu
    split at hu; · cases hu
    split at hu; · cases hu
    rename_i _ h2 h3
    exact ⟨by simpa using h2, by simpa using h3⟩

/-- The checks `registerNode` has passed before it writes. -/
structure NodeChecks (s : State) (t : Key) (sn : SignedNode) : Prop where
  ent : ∃ ws, s.entities.get sn.node.entity = some ws ∧ verifyNodeArgs s ws sn = none
  signer : t = sn.node.id
  notExpired : s.epoch < sn.node.expiration
  update : verifyExisting s sn.node = none

theorem regNode_spec (ord : Order) (s : State) (t : Key) (sn : SignedNode) :
    (regNode ord s t sn).1 = s ∨
    (NodeChecks s t sn ∧
      (regNode ord s t sn = (regNodeOk ord s sn.node, .ok) ∨
       ((∃ cur, s.nodes.get sn.node.id = some cur) ∧ s.status.get sn.node.id = none ∧
         regNode ord s t sn = (setNode ord s (s.nodes.get sn.node.id) sn.node, .invalidArgument "bare")))) := by
  unfold regNode
  split
  · exact Or.inl rfl
  · rename_i ws hws
    split
    · exact Or.inl rfl
    · rename_i hv
      split
      · exact Or.inl rfl
      · rename_i ht
        split
        · exact Or.inl rfl
        · rename_i hexp
          split
          · exact Or.inl rfl
          · rename_i hu
            have hc : NodeChecks s t sn :=
              ⟨⟨ws, hws, hv⟩, by simpa using ht, by simpa using hexp, hu⟩
            split
            · rename_i hbad
              refine Or.inr ⟨hc, Or.inr ⟨?_, ?_, rfl⟩⟩
              · cases hn : s.nodes.get sn.node.id with
                | none => simp [hn] at hbad
                | some cur => exact ⟨cur, rfl⟩
              · cases hst : s.status.get sn.node.id with
                | none => rfl
                | some st => simp [hst] at hbad
            · exact Or.inr ⟨hc, Or.inl rfl⟩


theorem susp_false_eq (x : Runtime) (h : x.suspended = false) : ({ x with suspended := false } : Runtime) = x := by
  cases x; simp_all

/-- `resumeRuntimes` only clears `suspended` flags of listed runtimes. -/
theorem get_resumeRuntimes (rts : Map RtId Runtime) (l : List RtId) (r : RtId) :
    (resumeRuntimes rts l).get r =
      (rts.get r).map (fun x => if r ∈ l then { x with suspended := false } else x) := by
  induction l generalizing rts with
  | nil => simp [resumeRuntimes]
  | cons r0 rs ih =>
    simp only [resumeRuntimes]
    cases h0 : rts.get r0 with
    | none =>
      simp only []
      rw [ih]
      by_cases e : r = r0
      · subst e; simp [h0]
      · simp [e]
    | some x0 =>
      simp only []
      rw [ih]
      by_cases hs : x0.suspended = true
      · simp only [hs, if_true, Map.get_set]
        by_cases e : r0 = r
        · subst e; simp [h0]
        · have : ¬ r = r0 := fun h => e h.symm
          simp [e, this]
      · have hs' : x0.suspended = false := by simpa using hs
        simp only [hs', Bool.false_eq_true, if_false]
        by_cases e : r = r0
        · subst e
          simp only [h0, Option.map_some, List.mem_cons, true_or, if_true]
          by_cases hm : r ∈ rs
          · simp [hm]
          · simp [hm, susp_false_eq x0 hs']
        · simp [e]

theorem get_resumeRuntimes_some {rts : Map RtId Runtime} {l : List RtId} {r : RtId} {x' : Runtime}
    (h : (resumeRuntimes rts l).get r = some x') :
    ∃ x, rts.get r = some x ∧ x'.id = x.id ∧ x'.entity = x.entity ∧ x'.stakingAddr = x.stakingAddr := by
  rw [get_resumeRuntimes] at h
  cases hx : rts.get r with
  | none => simp [hx] at h
  | some x =>
    simp only [hx, Option.map_some, Option.some.injEq] at h
    refine ⟨x, rfl, ?_⟩
    subst h
    split
    · exact ⟨rfl, rfl, by cases hg : x.gov <;> simp [Runtime.stakingAddr, hg]⟩
    · exact ⟨rfl, rfl, rfl⟩

theorem get_resumeRuntimes_of {rts : Map RtId Runtime} {l : List RtId} {r : RtId} {x : Runtime}
    (h : rts.get r = some x) :
    ∃ x', (resumeRuntimes rts l).get r = some x' ∧ x'.id = x.id ∧ x'.entity = x.entity ∧
      x'.stakingAddr = x.stakingAddr := by
  rw [get_resumeRuntimes, h]
  simp only [Option.map_some]
  split
  · exact ⟨_, rfl, rfl, rfl, by cases hg : x.gov <;> simp [Runtime.stakingAddr, hg]⟩
  · exact ⟨_, rfl, rfl, rfl, rfl⟩

theorem regNodeStatus_keeps (s : State) (ex : Option Node) (n : Node) (st : Option Status) (id : Key)
    (h : ∃ x, s.status.get id = some x) : ∃ x, (regNodeStatus s ex n st).get id = some x := by
  obtain ⟨x, hx⟩ := h
  simp only [regNodeStatus]
  split
  · simp only [Map.get_set]
    by_cases e : n.id = id
    · simp [e]
    · simp [e, hx]
  · exact ⟨x, hx⟩

theorem regNodeStatus_new (s : State) (n : Node) (st : Option Status) :
    ∃ x, (regNodeStatus s none n st).get n.id = some x := by
  simp [regNodeStatus, isFresh, Map.get_set]

theorem regNodeStatus_from (s : State) (ex : Option Node) (n : Node) (st : Option Status) (id : Key)
    (h : ∃ x, (regNodeStatus s ex n st).get id = some x) : id = n.id ∨ ∃ x, s.status.get id = some x := by
  obtain ⟨x, hx⟩ := h
  simp only [regNodeStatus] at hx
  split at hx
  · simp only [Map.get_set] at hx
    by_cases e : n.id = id
    · exact Or.inl e.symm
    · simp only [e, if_false] at hx; exact Or.inr ⟨x, hx⟩
  · exact Or.inr ⟨x, hx⟩

/-- If `SetNode` left the indexes consistent, the rest of a successful `registerNode`
(status, resumed runtimes, stake claim) re-establishes the full invariant. -/
theorem regNodeOk_inv_of (ord : Order) (s : State) (n : Node) (h : Inv s)
    (hsame : ∀ cur, s.nodes.get n.id = some cur → cur.entity = n.entity)
    (hidx : IndexInv (setNode ord s (s.nodes.get n.id) n)) : Inv (regNodeOk ord s n) := by
  have hnodes : (regNodeOk ord s n).nodes = s.nodes.set n.id n := rfl
  have hrts : (regNodeOk ord s n).runtimes = resumeRuntimes s.runtimes n.runtimes := rfl
  refine { toIndexInv := ?_, cl_sound := ?_, cl_compl := ?_, st_nodes := ?_, nodes_nodup := ?_ }
  · constructor
    · exact hidx.node_id
    · exact hidx.sub_nodup
    · exact hidx.km_sound
    · exact hidx.km_compl
    · exact hidx.ca_sound
    · exact hidx.ca_compl
    · exact hidx.be_sound
    · exact hidx.be_compl
    · intro r x' hx'
      rw [hrts] at hx'
      obtain ⟨x, hx, hid, _, _⟩ := get_resumeRuntimes_some hx'
      rw [hid]; exact h.rt_id r x hx
    · intro e r hb
      obtain ⟨x, hx, hxe⟩ := h.rbe_sound e r hb
      obtain ⟨x', hx', _, hent, _⟩ := get_resumeRuntimes_of (l := n.runtimes) hx
      exact ⟨x', by rw [hrts]; exact hx', by rw [hent]; exact hxe⟩
    · intro r x' hx'
      rw [hrts] at hx'
      obtain ⟨x, hx, _, hent, _⟩ := get_resumeRuntimes_some hx'
      rw [hent]; exact h.rbe_compl r x hx
  · intro a c hc
    simp only [regNodeOk, setNode, Map.get_set] at hc
    by_cases hp : (Addr.ent n.entity, Claim.node n.id) = (a, c)
    · cases hp
      exact ⟨n, by simp [hnodes, Map.get_set], rfl⟩
    · simp only [hp, if_false] at hc
      have hi := h.cl_sound a c hc
      cases c with
      | entity => exact hi
      | node id =>
        obtain ⟨m, hm, ha⟩ := hi
        have hne : ¬ n.id = id := by
          intro e; subst e
          exact hp (by rw [ha, hsame m hm])
        exact ⟨m, by simp [hnodes, Map.get_set, hne, hm], ha⟩
      | runtime r =>
        obtain ⟨x, hx, ha⟩ := hi
        obtain ⟨x', hx', _, _, hsa⟩ := get_resumeRuntimes_of (l := n.runtimes) hx
        exact ⟨x', by rw [hrts]; exact hx', by rw [hsa]; exact ha⟩
  · intro a c hi
    simp only [regNodeOk, setNode, Map.get_set]
    by_cases hp : (Addr.ent n.entity, Claim.node n.id) = (a, c)
    · simp [hp]
    · simp only [hp, if_false]
      apply h.cl_compl
      cases c with
      | entity => exact hi
      | node id =>
        obtain ⟨m, hm, ha⟩ := hi
        rw [hnodes] at hm
        simp only [Map.get_set] at hm
        by_cases e : n.id = id
        · simp only [e, if_true, Option.some.injEq] at hm
          subst hm; subst e; exact absurd (by rw [ha]) hp
        · simp only [e, if_false] at hm
          exact ⟨m, hm, ha⟩
      | runtime r =>
        obtain ⟨x', hx', ha⟩ := hi
        rw [hrts] at hx'
        obtain ⟨x, hx, _, _, hsa⟩ := get_resumeRuntimes_some hx'
        exact ⟨x, hx, by rw [← hsa]; exact ha⟩
  · intro id
    rw [hnodes]
    have hst : (regNodeOk ord s n).status = regNodeStatus s (s.nodes.get n.id) n (s.status.get n.id) := rfl
    rw [hst]
    simp only [Map.get_set]
    by_cases e : n.id = id
    · subst e
      simp only [if_true]
      constructor
      · intro _; exact ⟨n, rfl⟩
      · intro _
        cases hc : s.nodes.get n.id with
        | none => exact regNodeStatus_new s n _
        | some cur => exact regNodeStatus_keeps s _ n _ n.id ((h.st_nodes n.id).2 ⟨cur, hc⟩)
    · simp only [e, if_false]
      constructor
      · intro hx
        rcases regNodeStatus_from s _ n _ id hx with e' | hx'
        · exact absurd e'.symm e
        · exact (h.st_nodes id).1 hx'
      · intro hx
        exact regNodeStatus_keeps s _ n _ id ((h.st_nodes id).2 hx)
  · rw [hnodes]; exact nodup_keys_set _ _ _ h.nodes_nodup


/-- Under the invariant the "status missing after SetNode" path of `registerNode` is unreachable. -/
theorem regNode_ok_or_unchanged (ord : Order) (s : State) (t : Key) (sn : SignedNode) (h : Inv s) :
    (regNode ord s t sn).1 = s ∨
    (NodeChecks s t sn ∧ regNode ord s t sn = (regNodeOk ord s sn.node, .ok)) := by
  rcases regNode_spec ord s t sn with e | ⟨hc, e | ⟨hex, hst, _⟩⟩
  · exact Or.inl e
  · exact Or.inr ⟨hc, e⟩
  · obtain ⟨x, hx⟩ := (h.st_nodes sn.node.id).2 hex
    rw [hst] at hx; cases hx

theorem accepted_of_nodeChecks {s : State} {t : Key} {sn : SignedNode} (h : IndexInv s)
    (hc : NodeChecks s t sn) : Accepted s sn.node := by
  obtain ⟨ws, _, hv⟩ := hc.ent
  exact accepted_of_checks h (verifyNodeArgs_none hv) hc.update

theorem regNode_inv_rf (s : State) (t : Key) (sn : SignedNode) (h : Inv s) :
    Inv (regNode .removalsFirst s t sn).1 := by
  rcases regNode_ok_or_unchanged .removalsFirst s t sn h with e | ⟨hc, e⟩
  · rw [e]; exact h
  · rw [e]
    have ha := accepted_of_nodeChecks h.toIndexInv hc
    exact regNodeOk_inv_of _ s sn.node h (fun cur hcur => (ha.same cur hcur).1)
      (setNode_rf_index s sn.node h.toIndexInv ha)

theorem regNode_inv_il (s : State) (t : Key) (sn : SignedNode) (h : Inv s)
    (hf : ∀ cur, s.nodes.get sn.node.id = some cur → ¬ forwardMove cur sn.node) :
    Inv (regNode .interleaved s t sn).1 := by
  rcases regNode_ok_or_unchanged .interleaved s t sn h with e | ⟨hc, e⟩
  · rw [e]; exact h
  · rw [e]
    have ha := accepted_of_nodeChecks h.toIndexInv hc
    exact regNodeOk_inv_of _ s sn.node h (fun cur hcur => (ha.same cur hcur).1)
      (setNode_il_index s sn.node h.toIndexInv ha hf)

end OasisProofs.Registry
