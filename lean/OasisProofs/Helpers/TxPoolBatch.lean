import OasisModel.TxPool.Batch
/-
Helper lemmas for `Props/C20Batch.lean`: the closed form `gen` is closed under composition,
`forward`, `removeTx` and `txUsed` are instances of it, hence a whole batch is one.
-/
namespace OasisProofs.C20Batch
open OasisModel.TxPool

theorem state_eq (s1 s2 : State) (h1 : s1.cap = s2.cap) (h2 : s1.txs = s2.txs)
    (h3 : ∀ a, s1.cur a = s2.cur a) (h4 : s1.sched = s2.sched) (h5 : s1.picked = s2.picked) :
    s1 = s2 := by
  have h3' : s1.cur = s2.cur := funext h3
  cases s1; cases s2; simp_all

theorem hasSender_iff (l : List Tx) (a : Nat) : hasSender l a = true ↔ ∃ t ∈ l, t.sender = a := by
  simp [hasSender, List.any_eq_true]

theorem hasSender_filter_true (l : List Tx) (q : Tx → Bool) (a : Nat) :
    hasSender (l.filter q) a = true → hasSender l a = true := by
  simp only [hasSender_iff]; rintro ⟨t, ht, hs⟩; exact ⟨t, (List.mem_filter.1 ht).1, hs⟩

theorem hasSender_filter_keep (l : List Tx) (q : Tx → Bool) (a : Nat)
    (h : ∀ u ∈ l, u.sender = a → q u = true) : hasSender (l.filter q) a = hasSender l a := by
  rw [Bool.eq_iff_iff]; simp only [hasSender_iff]
  constructor
  · rintro ⟨t, ht, hs⟩; exact ⟨t, (List.mem_filter.1 ht).1, hs⟩
  · rintro ⟨t, ht, hs⟩; exact ⟨t, List.mem_filter.2 ⟨ht, h t ht hs⟩, hs⟩

/-! ### thresholds -/

theorem thr_zero (s : State) (N : Nat → Nat) (a : Nat) (h : N a = 0) : thr s N a = 0 := by
  unfold thr; cases s.cur a <;> simp [h]

theorem thr_none (s : State) (N : Nat → Nat) (a : Nat) (h : s.cur a = none) : thr s N a = 0 := by
  unfold thr; simp [h]

theorem thr_le (s : State) (N : Nat → Nat) (a : Nat) : thr s N a ≤ N a := by
  unfold thr; cases s.cur a with
  | none => simp
  | some c => simp only; split <;> omega

theorem thr_some (s : State) (N : Nat → Nat) (a c : Nat) (h : s.cur a = some c) :
    thr s N a = if c < N a then N a else 0 := by
  unfold thr; simp [h]

theorem keep_iff (s : State) (R : List Nat) (N : Nat → Nat) (t : Tx) :
    keep s R N t = true ↔ t.id ∉ R ∧ thr s N t.sender ≤ t.seq := by
  simp [keep, Nat.not_lt]

theorem gen_txs (s : State) (R : List Nat) (N : Nat → Nat) :
    (gen s R N).txs = s.txs.filter (keep s R N) := rfl

theorem gen_cur (s : State) (R : List Nat) (N : Nat → Nat) (a : Nat) :
    (gen s R N).cur a =
      if hasSender s.txs a && !hasSender (s.txs.filter (keep s R N)) a then none
      else (s.cur a).map (fun c => max c (N a)) := rfl

/-- `gen` depends on `R` only through the survivors among the pool's transactions. -/
theorem gen_congr (s : State) (R R' : List Nat) (N : Nat → Nat)
    (h : ∀ u ∈ s.txs, keep s R N u = keep s R' N u) : gen s R N = gen s R' N := by
  have hf : s.txs.filter (keep s R N) = s.txs.filter (keep s R' N) := List.filter_congr h
  apply state_eq
  · rfl
  · exact hf
  · intro a; rw [gen_cur, gen_cur, hf]
  · rfl
  · rfl

/-- A sender none of whose transactions is listed and whose target is 0 keeps its entry. -/
theorem gen_cur_other (s : State) (R : List Nat) (N : Nat → Nat) (b : Nat) (hN : N b = 0)
    (hR : ∀ u ∈ s.txs, u.sender = b → u.id ∉ R) : (gen s R N).cur b = s.cur b := by
  rw [gen_cur]
  have hk : hasSender (s.txs.filter (keep s R N)) b = hasSender s.txs b := by
    apply hasSender_filter_keep
    intro u hu hs
    rw [keep_iff]
    refine ⟨hR u hu hs, ?_⟩
    rw [hs, thr_zero s N b hN]; exact Nat.zero_le _
  rw [hk, hN]
  cases hasSender s.txs b <;> cases s.cur b <;> simp

theorem gen_nil (s : State) : gen s [] (fun _ => 0) = s := by
  have hk : ∀ u ∈ s.txs, keep s [] (fun _ => 0) u = true := by
    intro u _; rw [keep_iff]; refine ⟨by simp, ?_⟩
    rw [thr_zero s _ _ rfl]; exact Nat.zero_le _
  apply state_eq
  · rfl
  · rw [gen_txs]; exact List.filter_eq_self.2 hk
  · intro a; exact gen_cur_other s [] _ a rfl (by simp)
  · rfl
  · rfl

/-! ### composition -/

theorem thr_comp (s : State) (R : List Nat) (N N' : Nat → Nat) (a q : Nat)
    (h : (gen s R N).cur a = (s.cur a).map (fun c => max c (N a))) :
    (thr (gen s R N) N' a ≤ q ∧ thr s N a ≤ q) ↔ thr s (fun b => max (N b) (N' b)) a ≤ q := by
  cases hc : s.cur a with
  | none =>
    have h1 : (gen s R N).cur a = none := by rw [h, hc]; rfl
    rw [thr_none _ _ _ h1, thr_none _ _ _ hc, thr_none _ _ _ hc]; simp
  | some c =>
    have h1 : (gen s R N).cur a = some (max c (N a)) := by rw [h, hc]; rfl
    rw [thr_some _ _ _ _ h1, thr_some _ _ _ _ hc, thr_some _ _ _ _ hc]
    split <;> split <;> split <;> omega

theorem thr_mono (s : State) (N N' : Nat → Nat) (a : Nat) :
    thr s N a ≤ thr s (fun b => max (N b) (N' b)) a := by
  cases hc : s.cur a with
  | none => rw [thr_none _ _ _ hc]; exact Nat.zero_le _
  | some c =>
    rw [thr_some _ _ _ _ hc, thr_some _ _ _ _ hc]
    split <;> split <;> omega

theorem gen_cur_of_mem (s : State) (R : List Nat) (N : Nat → Nat) (u : Tx)
    (hu : u ∈ (gen s R N).txs) :
    (gen s R N).cur u.sender = (s.cur u.sender).map (fun c => max c (N u.sender)) := by
  rw [gen_cur]
  have : hasSender (s.txs.filter (keep s R N)) u.sender = true :=
    (hasSender_iff _ _).2 ⟨u, hu, rfl⟩
  rw [this]; simp

theorem keep_comp (s : State) (R R' : List Nat) (N N' : Nat → Nat) (u : Tx) (hu : u ∈ s.txs) :
    (keep (gen s R N) R' N' u && keep s R N u) = keep s (R ++ R') (fun b => max (N b) (N' b)) u := by
  rw [Bool.eq_iff_iff, Bool.and_eq_true]
  by_cases hk : keep s R N u = true
  · have hm : u ∈ (gen s R N).txs := List.mem_filter.2 ⟨hu, hk⟩
    have hc := thr_comp s R N N' u.sender u.seq (gen_cur_of_mem s R N u hm)
    rw [keep_iff, keep_iff, keep_iff] at *
    rw [List.mem_append]
    constructor
    · rintro ⟨⟨h1, h2⟩, h3, h4⟩
      exact ⟨fun h => h.elim h3 h1, hc.1 ⟨h2, h4⟩⟩
    · rintro ⟨h1, h2⟩
      exact ⟨⟨fun h => h1 (Or.inr h), (hc.2 h2).1⟩, fun h => h1 (Or.inl h), (hc.2 h2).2⟩
  · constructor
    · rintro ⟨_, h⟩; exact absurd h hk
    · intro h
      exfalso; apply hk
      rw [keep_iff] at *
      rw [List.mem_append] at h
      exact ⟨fun hh => h.1 (Or.inl hh), Nat.le_trans (thr_mono s N N' u.sender) h.2⟩

/-- **Composition law.** Two closed-form steps are one: identifiers are collected, targets are
maximised. No hypothesis on the state. -/
theorem gen_gen (s : State) (R R' : List Nat) (N N' : Nat → Nat) :
    gen (gen s R N) R' N' = gen s (R ++ R') (fun b => max (N b) (N' b)) := by
  have htx : (gen (gen s R N) R' N').txs = (gen s (R ++ R') (fun b => max (N b) (N' b))).txs := by
    rw [gen_txs, gen_txs, gen_txs, List.filter_filter]
    exact List.filter_congr (keep_comp s R R' N N')
  apply state_eq
  · rfl
  · exact htx
  · intro a
    have hBA := hasSender_filter_true s.txs (keep s R N) a
    have hCB := hasSender_filter_true (gen s R N).txs (keep (gen s R N) R' N') a
    rw [gen_cur (gen s R N) R' N' a, gen_cur s (R ++ R')]
    rw [gen_txs, gen_txs, gen_txs] at htx
    rw [← htx, gen_cur s R N a, gen_txs]
    rw [gen_txs] at hCB
    generalize hasSender s.txs a = A at *
    generalize hasSender (s.txs.filter (keep s R N)) a = B at *
    generalize hasSender ((s.txs.filter (keep s R N)).filter (keep (gen s R N) R' N')) a = C at *
    cases A <;> cases B <;> cases C <;> simp_all <;>
      (cases s.cur a <;> simp [Nat.max_assoc])
  · rfl
  · rfl

/-! ### `forward`, `removeTx`, `txUsed` as instances of the closed form -/

theorem single_self (a n : Nat) : single a n a = n := by simp [single]
theorem single_other (a n b : Nat) (h : b ≠ a) : single a n b = 0 := by simp [single, h]

theorem thr_single (s : State) (a n b : Nat) :
    thr s (single a n) b = if b = a then thr s (single a n) a else 0 := by
  by_cases h : b = a
  · simp [h]
  · simp only [h, if_false]; exact thr_zero _ _ _ (single_other a n b h)

/-- `forward` (main_queue_scheduler.go:152) is the closed form with nothing listed. Every state. -/
theorem forward_eq_gen (s : State) (a n : Nat) : forward s a n = gen s [] (single a n) := by
  have hother : ∀ b, b ≠ a → (gen s [] (single a n)).cur b = s.cur b := fun b hb =>
    gen_cur_other s [] _ b (single_other a n b hb) (by simp)
  unfold forward
  cases hc : s.cur a with
  | none =>
    have hk : ∀ u ∈ s.txs, keep s [] (single a n) u = true := by
      intro u _; rw [keep_iff]; refine ⟨by simp, ?_⟩
      rw [thr_single]; split
      · rw [thr_none _ _ _ hc]; exact Nat.zero_le _
      · exact Nat.zero_le _
    have htx : s.txs.filter (keep s [] (single a n)) = s.txs := List.filter_eq_self.2 hk
    apply state_eq
    · rfl
    · rw [gen_txs, htx]
    · intro b
      by_cases hb : b = a
      · subst hb; rw [gen_cur, htx, hc]; cases hasSender s.txs b <;> simp
      · exact (hother b hb).symm
    · rfl
    · rfl
  | some c =>
    by_cases hn : n ≤ c
    · simp only [hn, if_true]
      have hk : ∀ u ∈ s.txs, keep s [] (single a n) u = true := by
        intro u _; rw [keep_iff]; refine ⟨by simp, ?_⟩
        rw [thr_single]; split
        · rw [thr_some _ _ _ _ hc, single_self]
          have : ¬ c < n := by omega
          simp [this]
        · exact Nat.zero_le _
      have htx : s.txs.filter (keep s [] (single a n)) = s.txs := List.filter_eq_self.2 hk
      apply state_eq
      · rfl
      · rw [gen_txs, htx]
      · intro b
        by_cases hb : b = a
        · subst hb; rw [gen_cur, htx, hc, single_self]
          have : max c n = c := by omega
          cases hasSender s.txs b <;> simp [this]
        · exact (hother b hb).symm
      · rfl
      · rfl
    · simp only [hn, if_false]
      have hlt : c < n := by omega
      have htx : s.txs.filter (fun t => !(t.sender == a && decide (t.seq < n))) =
          s.txs.filter (keep s [] (single a n)) := by
        apply List.filter_congr
        intro u _
        rw [Bool.eq_iff_iff, keep_iff, thr_single]
        by_cases hs : u.sender = a
        · simp [hs, thr_some _ _ _ _ hc, single_self, hlt, Nat.not_lt]
        · simp [hs]
      apply state_eq
      · rfl
      · exact htx
      · intro b
        by_cases hb : b = a
        · subst hb
          rw [gen_cur, ← htx, hc, single_self]
          have : max c n = n := by omega
          simp only [Option.map_some, this]
          split <;> simp [upd]
        · rw [hother b hb]
          simp only
          split <;> simp [upd, hb]
      · rfl
      · rfl

/-- `removeTx` is the closed form with one identifier and no forward, provided the identifier
names that transaction only. -/
theorem removeTx_eq_gen (s : State) (t : Tx) (ht : t ∈ s.txs)
    (uniq : ∀ u ∈ s.txs, u.id = t.id → u = t) :
    removeTx s t = gen s [t.id] (fun _ => 0) := by
  have htx : s.txs.filter (fun u => u.id != t.id) = s.txs.filter (keep s [t.id] (fun _ => 0)) := by
    apply List.filter_congr
    intro u _
    rw [Bool.eq_iff_iff, keep_iff, thr_zero s _ _ rfl]
    simp
  apply state_eq
  · rfl
  · exact htx
  · intro b
    by_cases hb : b = t.sender
    · subst hb
      rw [gen_cur, ← htx]
      have hA : hasSender s.txs t.sender = true := (hasSender_iff _ _).2 ⟨t, ht, rfl⟩
      simp only [removeTx, hA]
      cases hB : hasSender (s.txs.filter (fun u => u.id != t.id)) t.sender
      · simp [upd]
      · simp only [↓reduceIte, Bool.not_true, Bool.and_false, Bool.false_eq_true]
        cases h : s.cur t.sender <;> simp
    · rw [gen_cur_other s [t.id] _ b rfl]
      · simp only [removeTx]; split <;> simp [upd, hb]
      · intro u hu hs hid
        have := uniq u hu (by simpa using hid)
        exact hb (by rw [← hs, this])
  · rfl
  · rfl

theorem findId_some (s : State) (i : Nat) (t : Tx) (h : findId s i = some t) :
    t ∈ s.txs ∧ t.id = i := by
  unfold findId at h
  exact ⟨List.mem_of_find?_eq_some h, by simpa using List.find?_some h⟩

theorem findId_none (s : State) (i : Nat) (h : findId s i = none) : ∀ u ∈ s.txs, u.id ≠ i := by
  unfold findId at h
  intro u hu; simpa using List.find?_eq_none.1 h u hu

theorem findId_of_mem (s : State) (nd : IdsDistinct s) (u : Tx) (hu : u ∈ s.txs) :
    findId s u.id = some u := by
  cases h : findId s u.id with
  | none => exact absurd rfl (findId_none s _ h u hu)
  | some t =>
    have ⟨ht, hid⟩ := findId_some s _ t h
    rw [nd t ht u hu hid]

/-- `handleTxUsed` (main_queue_scheduler.go:184) of a queued transaction is the closed form. -/
theorem txUsed_eq_gen (s : State) (i : Nat) (t : Tx) (hf : findId s i = some t)
    (uniq : ∀ u ∈ s.txs, u.id = i → u = t) :
    txUsed s i = gen s [i] (single t.sender (nOf t)) := by
  have ⟨ht, hid⟩ := findId_some s i t hf
  subst hid
  unfold txUsed
  rw [hf]
  simp only
  rw [removeTx_eq_gen s t ht uniq]
  by_cases hm : t.seq < maxSeq
  · simp only [hm, if_true]
    rw [forward_eq_gen, gen_gen]
    have : (fun b => max ((fun _ => 0) b) (single t.sender (t.seq + 1) b)) = single t.sender (nOf t) := by
      funext b; simp [nOf, hm]
    rw [this]; rfl
  · simp only [hm, if_false]
    have : single t.sender (nOf t) = fun _ => 0 := by
      funext b; simp [single, nOf, hm]
    rw [this]

theorem txUsed_none (s : State) (i : Nat) (hf : findId s i = none) : txUsed s i = s := by
  unfold txUsed; rw [hf]

theorem bump_eq (N : Nat → Nat) (t : Tx) :
    bump N t = fun b => max (N b) (single t.sender (nOf t) b) := by
  funext b
  by_cases h : b = t.sender <;> simp [bump, single, h]

theorem bump_absorb (N : Nat → Nat) (t : Tx) (h : nOf t ≤ N t.sender) : bump N t = N := by
  funext b
  by_cases hb : b = t.sender
  · subst hb; simp only [bump, if_true]; omega
  · simp [bump, hb]

theorem nOf_le (t : Tx) : nOf t ≤ t.seq + 1 := by
  unfold nOf; split <;> omega

/-- The listed identifiers that are in the pool are accounted for in the targets. -/
def Covered (s : State) (R : List Nat) (N : Nat → Nat) : Prop :=
  ∀ i ∈ R, ∀ t, findId s i = some t → nOf t ≤ N t.sender

theorem stepN_ge (s : State) (N : Nat → Nat) (i b : Nat) : N b ≤ stepN s N i b := by
  unfold stepN
  cases findId s i with
  | none => exact Nat.le_refl _
  | some t => simp only [bump]; split <;> omega

theorem covered_step (s : State) (R : List Nat) (N : Nat → Nat) (i : Nat) (h : Covered s R N) :
    Covered s (R ++ [i]) (stepN s N i) := by
  intro j hj t hf
  rcases List.mem_append.1 hj with hj | hj
  · exact Nat.le_trans (h j hj t hf) (stepN_ge s N i _)
  · have : j = i := by simpa using hj
    subst this
    unfold stepN; rw [hf]; simp only [bump, if_true]; omega

/-- One more `handleTxUsed` on top of a closed form is again a closed form (of the ORIGINAL
state, with the target computed in the ORIGINAL state). -/
theorem step_gen (s : State) (nd : IdsDistinct s) (R : List Nat) (N : Nat → Nat) (i : Nat)
    (hcov : Covered s R N) :
    txUsed (gen s R N) i = gen s (R ++ [i]) (stepN s N i) := by
  cases hS : findId (gen s R N) i with
  | some u =>
    have ⟨huS, hid⟩ := findId_some _ i u hS
    have hus : u ∈ s.txs := (List.mem_filter.1 huS).1
    have hfs : findId s i = some u := hid ▸ findId_of_mem s nd u hus
    have uniq : ∀ v ∈ (gen s R N).txs, v.id = i → v = u := by
      intro v hv hvi
      exact nd v (List.mem_filter.1 hv).1 u hus (hvi.trans hid.symm)
    rw [txUsed_eq_gen _ i u hS uniq, gen_gen]
    simp only [stepN, hfs, bump_eq]
  | none =>
    rw [txUsed_none _ i hS]
    have hnone := findId_none _ i hS
    cases hs : findId s i with
    | none =>
      have hne := findId_none s i hs
      have : stepN s N i = N := by unfold stepN; rw [hs]
      rw [this]
      apply gen_congr
      intro u hu
      rw [Bool.eq_iff_iff, keep_iff, keep_iff]
      simp [hne u hu]
    | some t =>
      have ⟨ht, hid⟩ := findId_some s i t hs
      have hnk : ¬ keep s R N t = true := fun hk =>
        hnone t (List.mem_filter.2 ⟨ht, hk⟩) hid
      have hle : nOf t ≤ N t.sender := by
        by_cases hiR : i ∈ R
        · exact hcov i hiR t hs
        · rw [keep_iff] at hnk
          have : ¬ thr s N t.sender ≤ t.seq := fun h => hnk ⟨hid ▸ hiR, h⟩
          have h1 := thr_le s N t.sender
          have h2 := nOf_le t
          omega
      have : stepN s N i = N := by unfold stepN; rw [hs]; exact bump_absorb N t hle
      rw [this]
      apply gen_congr
      intro u hu
      by_cases hui : u.id = i
      · have : u = t := nd u hu t ht (hui.trans hid.symm)
        subst this
        have h2 : ¬ keep s (R ++ [i]) N u = true := by
          rw [keep_iff]; intro h; exact h.1 (by simp [hui])
        rw [Bool.eq_false_iff.2 hnk, Bool.eq_false_iff.2 h2]
      · rw [Bool.eq_iff_iff, keep_iff, keep_iff]
        simp [hui]

theorem fold_gen (s : State) (nd : IdsDistinct s) (ids : List Nat) :
    ∀ (R : List Nat) (N : Nat → Nat), Covered s R N →
      ids.foldl txUsed (gen s R N) = gen s (R ++ ids) (ids.foldl (stepN s) N) := by
  induction ids with
  | nil => intro R N _; simp
  | cons i ids ih =>
    intro R N hcov
    simp only [List.foldl_cons]
    rw [step_gen s nd R N i hcov, ih (R ++ [i]) (stepN s N i) (covered_step s R N i hcov)]
    simp

/-- **A whole batch is one closed-form step.** -/
theorem usedBatch_eq_spec (s : State) (nd : IdsDistinct s) (ids : List Nat) :
    usedBatch s ids = batchSpec s ids := by
  have := fold_gen s nd ids [] (fun _ => 0) (by intro i hi; simp at hi)
  rw [gen_nil] at this
  simpa [usedBatch, batchSpec, targets] using this

/-! ### targets: order independence and meaning -/

theorem stepN_comm (s : State) (N : Nat → Nat) (i j : Nat) :
    stepN s (stepN s N i) j = stepN s (stepN s N j) i := by
  unfold stepN
  cases findId s i <;> cases findId s j <;> try rfl
  rename_i t u
  funext b
  simp only [bump]
  by_cases h1 : b = t.sender
  · by_cases h2 : b = u.sender
    · simp only [if_pos h1, if_pos h2]; omega
    · simp only [if_pos h1, if_neg h2]
  · by_cases h2 : b = u.sender
    · simp only [if_neg h1, if_pos h2]
    · simp only [if_neg h1, if_neg h2]

theorem foldl_stepN_perm (s : State) (ids ids' : List Nat) (p : ids.Perm ids') :
    ∀ N, ids.foldl (stepN s) N = ids'.foldl (stepN s) N := by
  induction p with
  | nil => intro N; rfl
  | cons x _ ih => intro N; simp only [List.foldl_cons]; exact ih _
  | swap x y l => intro N; simp only [List.foldl_cons]; rw [stepN_comm]
  | trans _ _ ih1 ih2 => intro N; exact (ih1 N).trans (ih2 N)

theorem targets_perm (s : State) (ids ids' : List Nat) (p : ids.Perm ids') :
    targets s ids = targets s ids' := foldl_stepN_perm s ids ids' p _

theorem batchSpec_perm (s : State) (ids ids' : List Nat) (p : ids.Perm ids') :
    batchSpec s ids = batchSpec s ids' := by
  unfold batchSpec
  rw [targets_perm s ids ids' p]
  apply gen_congr
  intro u _
  rw [Bool.eq_iff_iff, keep_iff, keep_iff, p.mem_iff]

/-- Every listed queued transaction (below `maxSeq`) is below its sender's target. -/
theorem foldl_stepN_ge (s : State) (ids : List Nat) : ∀ (N : Nat → Nat) (b : Nat),
    N b ≤ ids.foldl (stepN s) N b := by
  induction ids with
  | nil => intro N b; exact Nat.le_refl _
  | cons i ids ih =>
    intro N b; simp only [List.foldl_cons]
    exact Nat.le_trans (stepN_ge s N i b) (ih _ b)

theorem foldl_stepN_covers (s : State) (ids : List Nat) : ∀ (N : Nat → Nat) (i : Nat) (t : Tx),
    i ∈ ids → findId s i = some t → nOf t ≤ ids.foldl (stepN s) N t.sender := by
  induction ids with
  | nil => intro N i t hi; simp at hi
  | cons j ids ih =>
    intro N i t hi hf
    simp only [List.foldl_cons]
    rcases List.mem_cons.1 hi with rfl | hi
    · refine Nat.le_trans ?_ (foldl_stepN_ge s ids _ _)
      unfold stepN; rw [hf]; simp only [bump, if_true]; omega
    · exact ih _ i t hi hf

/-- The target is attained by a listed queued transaction of that sender (or nothing was added). -/
theorem foldl_stepN_attained (s : State) (ids : List Nat) : ∀ (N : Nat → Nat) (b : Nat),
    ids.foldl (stepN s) N b = N b ∨
    ∃ i ∈ ids, ∃ t, findId s i = some t ∧ t.sender = b ∧ ids.foldl (stepN s) N b = nOf t := by
  induction ids with
  | nil => intro N b; exact Or.inl rfl
  | cons j ids ih =>
    intro N b
    simp only [List.foldl_cons]
    rcases ih (stepN s N j) b with h | ⟨i, hi, t, hf, hs, he⟩
    · rw [h]
      unfold stepN
      cases hf : findId s j with
      | none => exact Or.inl rfl
      | some t =>
        simp only [bump]
        by_cases hb : b = t.sender
        · subst hb
          simp only [if_true]
          by_cases hle : nOf t ≤ N t.sender
          · left; omega
          · right; exact ⟨j, by simp, t, hf, rfl, by omega⟩
        · simp [hb]
    · exact Or.inr ⟨i, List.mem_cons_of_mem _ hi, t, hf, hs, he⟩

theorem pairwise_uniq (l : List Tx) (h : l.Pairwise (fun u v => u.id ≠ v.id)) :
    ∀ u ∈ l, ∀ v ∈ l, u.id = v.id → u = v := by
  induction l with
  | nil => intro u hu; simp at hu
  | cons x xs ih =>
    have ⟨h1, h2⟩ := List.pairwise_cons.1 h
    intro u hu v hv hid
    rcases List.mem_cons.1 hu with rfl | hu' <;> rcases List.mem_cons.1 hv with rfl | hv'
    · rfl
    · exact absurd hid (h1 v hv')
    · exact absurd hid.symm (h1 u hu')
    · exact ih h2 u hu' v hv' hid

/-! ### `IdsDistinct` holds in every reachable pool -/

theorem nd_subset (l l' : List Tx) (hsub : ∀ u ∈ l', u ∈ l)
    (h : ∀ u ∈ l, ∀ v ∈ l, u.id = v.id → u = v) : ∀ u ∈ l', ∀ v ∈ l', u.id = v.id → u = v :=
  fun u hu v hv => h u (hsub u hu) v (hsub v hv)

theorem nd_cons (l : List Tx) (t : Tx) (hfresh : ∀ u ∈ l, u.id ≠ t.id)
    (h : ∀ u ∈ l, ∀ v ∈ l, u.id = v.id → u = v) :
    ∀ u ∈ t :: l, ∀ v ∈ t :: l, u.id = v.id → u = v := by
  intro u hu v hv hid
  rcases List.mem_cons.1 hu with rfl | hu' <;> rcases List.mem_cons.1 hv with rfl | hv'
  · rfl
  · exact absurd hid.symm (hfresh v hv')
  · exact absurd hid (hfresh u hu')
  · exact h u hu' v hv' hid

theorem forward_subset (s : State) (a n : Nat) : ∀ u ∈ (forward s a n).txs, u ∈ s.txs := by
  unfold forward
  cases s.cur a with
  | none => exact fun u hu => hu
  | some c =>
    by_cases h : n ≤ c
    · simp only [h, if_true]; exact fun u hu => hu
    · simp only [h, if_false]; exact fun u hu => (List.mem_filter.1 hu).1

theorem removeTx_subset (s : State) (t : Tx) : ∀ u ∈ (removeTx s t).txs, u ∈ s.txs :=
  fun _ hu => (List.mem_filter.1 hu).1

theorem txUsed_subset (s : State) (i : Nat) : ∀ u ∈ (txUsed s i).txs, u ∈ s.txs := by
  unfold txUsed
  cases findId s i with
  | none => exact fun u hu => hu
  | some t =>
    simp only
    split
    · exact fun u hu => removeTx_subset s t u (forward_subset _ _ _ u hu)
    · exact removeTx_subset s t

theorem addCore_subset (s s' : State) (t : Tx) (ss : Nat) (v : Option Tx) (r : AddRes)
    (h : addCore s t ss v = some (s', r)) : ∀ u ∈ s'.txs, u ∈ t :: s.txs := by
  unfold addCore at h
  split at h
  · simp at h; obtain ⟨rfl, _⟩ := h; exact fun u hu => List.mem_cons_of_mem _ hu
  · split at h
    · split at h
      · simp at h; obtain ⟨rfl, _⟩ := h; exact fun u hu => List.mem_cons_of_mem _ hu
      · simp at h; obtain ⟨rfl, _⟩ := h
        intro u hu
        rcases List.mem_cons.1 hu with rfl | hu'
        · exact List.mem_cons_self
        · exact List.mem_cons_of_mem _ (List.mem_filter.1 hu').1
    · split at h
      · simp at h; obtain ⟨rfl, _⟩ := h; exact fun u hu => hu
      · split at h
        · simp at h; obtain ⟨rfl, _⟩ := h; exact fun u hu => hu
        · split at h
          · simp at h; obtain ⟨rfl, _⟩ := h
            exact fun u hu => (List.mem_filter.1 hu).1
          · simp at h

theorem ensureSender_txs (s : State) (a ss : Nat) : (ensureSender s a ss).txs = s.txs := by
  unfold ensureSender; cases s.cur a <;> rfl

theorem freshId_iff (s : State) (t : Tx) : freshId s t = true ↔ ∀ u ∈ s.txs, u.id ≠ t.id := by
  simp [freshId]

theorem idsDistinct_step (s : State) (op : Op) (nd : IdsDistinct s) : IdsDistinct (step s op) := by
  cases op with
  | add t ss v =>
    simp only [step]
    split
    · rename_i hfresh
      split
      · rename_i s' r heq
        unfold addWith at heq
        have hsub := addCore_subset _ s' t ss v r heq
        rw [ensureSender_txs] at hsub
        exact nd_subset _ _ hsub (nd_cons s.txs t ((freshId_iff s t).1 hfresh) nd)
      · exact nd
    · exact nd
  | qadd t ss v =>
    simp only [step]
    split
    · rename_i hfresh
      split
      · rename_i s' r heq
        unfold queueAdd addWith at heq
        have hsub := addCore_subset _ s' t ss v r heq
        rw [ensureSender_txs] at hsub
        have hf := forward_subset s t.sender ss
        refine nd_subset _ _ hsub (nd_cons _ t ?_ (nd_subset _ _ hf nd))
        exact fun u hu => (freshId_iff s t).1 hfresh u (hf u hu)
      · exact nd
    · exact nd
  | pick t => simp only [step]; split <;> exact nd
  | reset => exact nd
  | clear => intro u hu; simp [step, clear] at hu
  | used id => exact nd_subset _ _ (txUsed_subset s id) nd
  | forward a n => exact nd_subset _ _ (forward_subset s a n) nd

theorem idsDistinct_run (s : State) (ops : List Op) (nd : IdsDistinct s) :
    IdsDistinct (run s ops) := by
  induction ops generalizing s with
  | nil => exact nd
  | cons op ops ih => exact ih (step s op) (idsDistinct_step s op nd)

end OasisProofs.C20Batch
