import OasisModel.Staking.WithdrawHook
/-
Helper lemmas for Props/C05WithdrawHook.lean: sums of a per-record measure over an address list
under `Store.set`, and the shape of the results of `moveAndStore`.  Core Lean only.
-/
namespace OasisProofs.WithdrawHookHelpers
open OasisModel.Staking (LErr)
open OasisModel.Staking.WithdrawHook

/-- Sum of a per-record measure over an address list. -/
def sumBy (f : Account → Nat) (s : Store) (addrs : List Nat) : Nat := (addrs.map (fun a => f (s a))).sum

theorem tokens_eq_sumBy (s : Store) (addrs : List Nat) : tokens s addrs = sumBy Account.tokens s addrs := rfl
theorem generalSum_eq_sumBy (s : Store) (addrs : List Nat) :
    generalSum s addrs = sumBy Account.general s addrs := rfl

@[simp] theorem set_same (s : Store) (a : Nat) (r : Account) : (s.set a r) a = r := by simp [Store.set]
theorem set_other (s : Store) (a k : Nat) (r : Account) (h : k ≠ a) : (s.set a r) k = s k := by
  simp [Store.set, h]

/-- One `SetAccount`: the sum changes by (occurrences of the address) × (change of the record). -/
theorem sumBy_set (f : Account → Nat) (s : Store) (a : Nat) (r : Account) (addrs : List Nat) :
    sumBy f (s.set a r) addrs + addrs.count a * f (s a) = sumBy f s addrs + addrs.count a * f r := by
  induction addrs with
  | nil => simp [sumBy]
  | cons k ks ih =>
    have ih' : sumBy f (s.set a r) ks + ks.count a * f (s a) = sumBy f s ks + ks.count a * f r := ih
    by_cases hk : k = a
    · subst hk
      simp only [sumBy, List.map_cons, List.sum_cons, set_same, List.count_cons_self, Nat.add_mul, Nat.one_mul] at ih' ⊢
      omega
    · have hne : (k == a) = false := by simp [hk]
      simp only [sumBy, List.map_cons, List.sum_cons, set_other s a k r hk, List.count_cons, hne] at ih' ⊢
      simp only [Bool.false_eq_true, if_false, Nat.add_zero]
      omega

theorem sumBy_set_of_not_mem (f : Account → Nat) (s : Store) (a : Nat) (r : Account) (addrs : List Nat)
    (h : a ∉ addrs) : sumBy f (s.set a r) addrs = sumBy f s addrs := by
  have := sumBy_set f s a r addrs
  simp [List.count_eq_zero_of_not_mem h] at this
  exact this

theorem sumBy_set_same_measure (f : Account → Nat) (s : Store) (a : Nat) (r : Account) (addrs : List Nat)
    (h : f r = f (s a)) : sumBy f (s.set a r) addrs = sumBy f s addrs := by
  have := sumBy_set f s a r addrs
  rw [h] at this
  omega

/-- Two writes to DIFFERENT addresses, one record losing `amt` of the measure, the other gaining
`amt`, the two addresses occurring equally often: the sum is unchanged. -/
theorem sumBy_move (f : Account → Nat) (s : Store) (t fr amt : Nat) (rt rf : Account) (addrs : List Nat)
    (hne : fr ≠ t) (hcount : addrs.count fr = addrs.count t)
    (hamt : amt ≤ f (s fr)) (hrf : f rf = f (s fr) - amt) (hrt : f rt = f (s t) + amt) :
    sumBy f ((s.set t rt).set fr rf) addrs = sumBy f s addrs := by
  have h1 := sumBy_set f s t rt addrs
  have h2 := sumBy_set f (s.set t rt) fr rf addrs
  rw [set_other s t fr rt hne, hrf, hcount] at h2
  rw [hrt, Nat.mul_add] at h1
  have h3 : addrs.count t * (f (s fr) - amt) + addrs.count t * amt = addrs.count t * f (s fr) := by
    rw [← Nat.mul_add]; congr 1; omega
  omega

theorem count_eq_one_of_nodup_mem {a : Nat} {l : List Nat} (hn : l.Nodup) (hm : a ∈ l) : l.count a = 1 := by
  induction l with
  | nil => cases hm
  | cons k ks ih =>
    rw [List.nodup_cons] at hn
    by_cases hk : k = a
    · subst hk
      simp [List.count_eq_zero_of_not_mem hn.1]
    · have hm' : a ∈ ks := by
        cases hm with
        | head => exact absurd rfl hk
        | tail _ h => exact h
      have hne : (k == a) = false := by simp [hk]
      simp [List.count_cons, hne, ih hn.2 hm']

/-- Result shape of `moveAndStore`. -/
theorem moveAndStore_ok {p : Params} {s s' : State} {t fr amt : Nat} {fc : Account}
    (h : moveAndStore p s t fr fc amt = .ok s') :
    amt ≤ fc.general ∧ p.minTransactBalance ≤ fc.general - amt ∧
    p.minTransactBalance ≤ (s.accts t).general + amt ∧
    s' = { s with accts := (s.accts.set t { s.accts t with general := (s.accts t).general + amt }).set fr
                              { fc with general := fc.general - amt } } := by
  unfold moveAndStore at h
  simp only at h
  split at h
  · cases h
  · split at h
    · cases h
    · split at h
      · cases h
      · injection h with h
        refine ⟨by omega, by omega, by omega, h.symm⟩

theorem moveAndStore_ok_of {p : Params} (s : State) (t fr amt : Nat) (fc : Account)
    (h1 : amt ≤ fc.general) (h2 : p.minTransactBalance ≤ fc.general - amt)
    (h3 : p.minTransactBalance ≤ (s.accts t).general + amt) :
    moveAndStore p s t fr fc amt =
      .ok { s with accts := (s.accts.set t { s.accts t with general := (s.accts t).general + amt }).set fr
                              { fc with general := fc.general - amt } } := by
  unfold moveAndStore
  simp only
  rw [if_neg (by omega), if_neg (by omega), if_neg (by omega)]

/-- What `authorize` may do to the copy: only the allowance list changes. -/
theorem authorize_ok {fc fc' : Account} {t amt : Nat} {hk : Bool} (h : authorize fc t amt hk = .ok fc') :
    fc'.general = fc.general ∧ fc'.activeBal = fc.activeBal ∧ fc'.debondBal = fc.debondBal ∧
    fc'.nonce = fc.nonce ∧ fc'.hook = fc.hook := by
  unfold authorize at h
  split at h
  · split at h
    · injection h with h; subst h; simp
    · cases h
  · unfold allowanceAuth at h
    split at h
    · cases h
    · split at h
      · cases h
      · injection h with h; subst h; simp

/-! ### unfolding lemmas at `ofParams` (stated with clean `Decidable` instances, by `rfl`) -/

theorem preGuards_ofParams (q : OasisModel.Staking.Params) (dst src amt : Nat) :
    preGuards (ofParams q) dst src amt =
      if amt < q.minTransferAmount then some .underMinTransfer
      else if q.disableTransfers || q.maxAllowances = 0 then some .forbidden
      else if q.reserved.contains dst || q.reserved.contains src then some .forbidden
      else none := rfl

theorem moveAndStore_ofParams (q : OasisModel.Staking.Params) (s : State) (t fr amt : Nat) (fc : Account) :
    moveAndStore (ofParams q) s t fr fc amt =
      if fc.general < amt then .error .insufficientBalance
      else if fc.general - amt < q.minTransactBalance then .error .balanceTooLow
      else if (s.accts t).general + amt < q.minTransactBalance then .error .balanceTooLow
      else .ok { s with accts := (s.accts.set t { s.accts t with general := (s.accts t).general + amt }).set fr
                                  { fc with general := fc.general - amt } } := rfl

end OasisProofs.WithdrawHookHelpers
