import OasisModel.Pcs.Symbolic
/-
C18 — hand-written expectation for the regenerated binding facts (lean/Generated/PcsFacts.lean,
produced by tools/gen/pcsfacts.go from go/common/sgx/pcs on every run).

`expectedChecks`: the decision sequence of (*Quote).Verify with the package's own calls inlined,
each entry mapped to the rejection stage of the symbolic model (`none`: a success return, a
wrapper that only adds a prefix to a propagated error, or an unreachable default case).
`expectedFields`: every field of the quote / collateral / policy structures with its role and
the functions that read it.

OasisProofs/Props/C18.lean proves by `decide` that the generated tables equal these, that the
stages occur in the order of the model's `Stage` type (so the model's check order is the
code's) and that the roles are consistent with the uses. A check that is removed, moved or
changed in the Go source, or a field that is no longer read, breaks the build.
-/
namespace OasisProofs.C18.Expect
open OasisModel.Pcs

def expectedChecks : List (String × String × String × Option Stage) := [
  ("Quote.Verify", "if policy.Disabled", "pcs/quote: PCS quotes are disabled by policy", some .disabled),
  ("Quote.Verify", "switch q.header.TeeType() case TeeTypeSGX: if !ok", "pcs/quote: mismatched report body and TEE type", some .bodyMismatch),
  ("Quote.Verify", "switch q.header.TeeType() case TeeTypeSGX: if mrSignerBlacklist[report.mrSigner]", "pcs/quote: blacklisted MRSIGNER", some .mrSignerBlacklisted),
  ("Quote.Verify", "switch q.header.TeeType() case TeeTypeSGX: if unsafeAllowDebugEnclaves != isDebug", "pcs/quote: disallowed debug/production enclave/mode combination", some .debugMismatch),
  ("Quote.Verify", "switch q.header.TeeType() case TeeTypeTDX: if !ok", "pcs/quote: mismatched report body and TEE type", some .bodyMismatch),
  ("Quote.Verify", "switch q.header.TeeType() case TeeTypeTDX: if unsafeAllowDebugEnclaves != isDebug", "pcs/quote: disallowed debug/production enclave/mode combination", some .debugMismatch),
  ("Quote.Verify", "switch q.header.TeeType() case TeeTypeTDX: if policy.TDX == nil", "pcs/quote: TEE type not allowed", some .tdxNotAllowed),
  ("TdxQuotePolicy.verifyTdxModule", "for tp.AllowedTdxModules: if allowedModule.Matches(report)", "<return ok>", none),
  ("TdxQuotePolicy.verifyTdxModule", "if len(tp.AllowedTdxModules) == 0 && report.mrSignerSeam == TDX_MrSigner_Intel", "<return ok>", none),
  ("TdxQuotePolicy.verifyTdxModule", "", "pcs/quote: TDX module not allowed", some .tdxModule),
  ("Quote.Verify", "switch q.header.TeeType() default", "pcs/quote: unsupported TEE type: %X", some .teeUnsupported),
  ("CertificationData_QEReport.verifyCertificateChain", "if !ok", "pcs/quote: no PCK certificate chain in quote", some .noChain),
  ("CertificationData_QEReport.verifyCertificateChain", "if len(cd.CertificateChain) != 3", "pcs/quote: unexpected certificate chain length: %d", some .chainLen),
  ("CertificationData_QEReport.verifyCertificateChain", "if err(leafCert.Verify)", "pcs/quote: failed to verify PCK certificate chain: %w", some .chainVerify),
  ("CertificationData_QEReport.verifyCertificateChain", "if len(certChains) != 1", "pcs/quote: unexpected number of chains: %d", some .chainCount),
  ("CertificationData_QEReport.verifyCertificateChain", "if !chain[len(chain)-1].Equal(rootCert)", "pcs/quote: unexpected root in certificate chain", some .chainRoot),
  ("CertificationData_QEReport.verifyPCK", "if !ok", "pcs/quote: PCK certificate with non-ECDSA signature scheme", some .pckNonEcdsa),
  ("CertificationData_QEReport.verifyPCK", "for leafCert.Extensions: if err(asn1.Unmarshal)", "pcs/quote: bad X509 SGX extensions: %w", some .pckExt),
  ("CertificationData_QEReport.verifyPCK", "for leafCert.Extensions: for sgxExts: switch  case sgxExt.Id.Equal(PCK_SGX_Extensions_FMSPC): if err(asn1.Unmarshal)", "pcs/quote: bad FMSPC value: %w", some .pckExt),
  ("CertificationData_QEReport.verifyPCK", "for leafCert.Extensions: for sgxExts: switch  case sgxExt.Id.Equal(PCK_SGX_Extensions_FMSPC): if len(pckInfo.FMSPC) != 6", "pcs/quote: bad FMSPC length: %d", some .pckExt),
  ("CertificationData_QEReport.verifyPCK", "for leafCert.Extensions: for sgxExts: switch  case sgxExt.Id.Equal(PCK_SGX_Extensions_TCB): if err(asn1.Unmarshal)", "pcs/quote: bad TCB value: %w", some .pckExt),
  ("CertificationData_QEReport.verifyPCK", "for leafCert.Extensions: for sgxExts: switch  case sgxExt.Id.Equal(PCK_SGX_Extensions_TCB): for tcbExts: switch  case compId >= 1 && compId <= 16: if err(asn1.Unmarshal)", "pcs/quote: bad TCB component '%d' SVN value: %w", some .pckExt),
  ("CertificationData_QEReport.verifyPCK", "for leafCert.Extensions: for sgxExts: switch  case sgxExt.Id.Equal(PCK_SGX_Extensions_TCB): for tcbExts: switch  case compId == 17: if err(asn1.Unmarshal)", "pcs/quote: bad PCESVN: %w", some .pckExt),
  ("CertificationData_QEReport.verifyPCK", "for leafCert.Extensions: for sgxExts: switch  case sgxExt.Id.Equal(PCK_SGX_Extensions_TCB): for tcbExts: switch  case compId == 17: if pcesvn < 0 || pcesvn > math.MaxUint16", "pcs/quote: bad PCESVN value: %d (not uint16)", some .pckExt),
  ("CertificationData_QEReport.verifyPCK", "for leafCert.Extensions: for sgxExts: switch  case sgxExt.Id.Equal(PCK_SGX_Extensions_TCB): for tcbExts: switch  case compId == 18: if err(asn1.Unmarshal)", "pcs/quote: bad CPUSVN: %w", some .pckExt),
  ("CertificationData_QEReport.verifyPCK", "if pckInfo.FMSPC == nil", "pcs/quote: missing FMSPC field", some .pckNoFmspc),
  ("CertificationData_QEReport.verify", "if !qe.QEReportSignature.Verify(pckInfo.PublicKey, reportHash[:])", "pcs/quote: failed to verify QE report signature using PCK public key", some .qeSig),
  ("CertificationData_QEReport.verify", "if !bytes.Equal(qe.QEReport.reportData[:32], expectedHash)", "pcs/quote: QE report data does not match expected value", some .qeData),
  ("CertificationData_QEReport.verify", "if !bytes.Equal(qe.QEReport.reportData[32:], allZeros[:])", "pcs/quote: QE report data does not match expected value", some .qeData),
  ("CertificationData_QEReport.verify", "if tcb == nil", "pcs/quote: missing TCB bundle", some .noTcb),
  ("CertFromPEM", "if block == nil", "<return ok>", none),
  ("CertFromPEM", "if block.Type != \"CERTIFICATE\"", "pcs/certificates: invalid PEM block type: '%v'", some .tcbPem),
  ("CertFromPEM", "if err(x509.ParseCertificate)", "pcs/certificates: failed to parse certificate: %w", some .tcbPem),
  ("TCBBundle.getPublicKey", "for len(data) > 0: if err(CertFromPEM)", "pcs/tcb: bad X509 certificate in TCB bundle: %w", some .tcbPem),
  ("TCBBundle.getPublicKey", "if len(certs) != 2", "pcs/tcb: unexpected certificate chain length: %d", some .tcbChainLen),
  ("TCBBundle.getPublicKey", "if err(tcbCert.Verify)", "pcs/tcb: failed to verify TCB info certificate chain: %w", some .tcbChainVerify),
  ("TCBBundle.getPublicKey", "if len(certChains) != 1", "pcs/tcb: unexpected number of chains: %d", some .tcbChainCount),
  ("TCBBundle.getPublicKey", "if !chain[len(chain)-1].Equal(rootCert)", "pcs/tcb: unexpected root in certificate chain", some .tcbChainRoot),
  ("TCBBundle.getPublicKey", "if !ok", "pcs/tcb: TCB certificate with non-ECDSA signature scheme", some .tcbNonEcdsa),
  ("SignatureECDSA_P256.UnmarshalHex", "if err(hex.DecodeString)", "err", some .qeidSigHex),
  ("SignatureECDSA_P256.UnmarshalHex", "if len(b) != 64", "malformed signature", some .qeidSigHex),
  ("verifyTCBSignature", "if !sig.Verify(pk, h[:])", "pcs/tcb: TCB signature verification failed", some .qeidSig),
  ("SignedQEIdentity.open", "if err(json.Unmarshal)", "pcs/tcb: malformed QE identity body: %w", some .qeidJson),
  ("QEIdentity.validate", "switch teeType case TeeTypeSGX: if qe.ID != qeIDSgx", "pcs/tcb: unexpected QE identity ID: %s", some .qeidId),
  ("QEIdentity.validate", "switch teeType case TeeTypeTDX: if qe.ID != qeIDTdx", "pcs/tcb: unexpected QE identity ID: %s", some .qeidId),
  ("QEIdentity.validate", "switch teeType default", "pcs/tcb: unsupported TEE type", none),
  ("QEIdentity.validate", "if qe.Version != requiredQEIdentityVersion", "pcs/tcb: unexpected QE identity version: %d", some .qeidVersion),
  ("QEIdentity.validate", "if err(time.Parse)", "pcs/tcb: invalid issue date: %w", some .qeidIssueParse),
  ("QEIdentity.validate", "if err(time.Parse)", "pcs/tcb: invalid next update date: %w", some .qeidNextParse),
  ("QEIdentity.validate", "if issueDate.After(ts)", "pcs/tcb: QE identity issue date in the future", some .qeidFuture),
  ("QEIdentity.validate", "if ts.Sub(issueDate).Nanoseconds() > int64(policy.TCBValidityPeriod)*24*int64(time.Hour)", "pcs/tcb: QE identity expired", some .qeidExpired),
  ("QEIdentity.validate", "if qe.TCBEvaluationDataNumber < policy.MinTCBEvaluationDataNumber", "pcs/tcb: invalid QE evaluation data number", some .qeidEvalNum),
  ("TCBBundle.verifyQEIdentity", "if err(SignedQEIdentity.open)", "pcs/tcb: invalid QE identity: %w", none),
  ("QEIdentity.verify", "if err(expectedMrSigner.UnmarshalHex)", "pcs/tcb: malformed QE MRSIGNER: %w", some .qeidMrSignerMalformed),
  ("QEIdentity.verify", "if expectedMrSigner != report.mrSigner", "pcs/tcb: invalid QE MRSIGNER", some .qeidMrSigner),
  ("QEIdentity.verify", "if qe.ISVProdID != report.isvProdID", "pcs/tcb: invalid QE ISVProdID", some .qeidProdId),
  ("QEIdentity.verify", "if err(hex.DecodeString)", "pcs/tcb: malformed miscselect: %w", some .qeidMiscMalformed),
  ("QEIdentity.verify", "if len(rawMiscselect) != 4", "pcs/tcb: malformed miscselect", some .qeidMiscMalformed),
  ("QEIdentity.verify", "if err(hex.DecodeString)", "pcs/tcb: malformed miscselect mask: %w", some .qeidMiscMalformed),
  ("QEIdentity.verify", "if len(rawMiscselectMask) != 4", "pcs/tcb: malformed miscselect mask", some .qeidMiscMalformed),
  ("QEIdentity.verify", "if report.miscSelect&miscselectMask != expectedMiscselect", "pcs/tcb: invalid QE miscselect", some .qeidMisc),
  ("QEIdentity.verify", "if err(hex.DecodeString)", "pcs/tcb: malformed attributes: %w", some .qeidAttrMalformed),
  ("QEIdentity.verify", "if len(rawAttributes) != 16", "pcs/tcb: malformed attributes", some .qeidAttrMalformed),
  ("QEIdentity.verify", "if err(hex.DecodeString)", "pcs/tcb: malformed attributes mask: %w", some .qeidAttrMalformed),
  ("QEIdentity.verify", "if len(rawAttributesMask) != 16", "pcs/tcb: malformed attributes mask", some .qeidAttrMalformed),
  ("QEIdentity.verify", "if uint64(report.attributes.Flags)&flagsMask != expectedFlags", "pcs/tcb: invalid QE attributes", some .qeidAttr),
  ("QEIdentity.verify", "if report.attributes.Xfrm&xfrmMask != expectedXfrm", "pcs/tcb: invalid QE attributes", some .qeidAttr),
  ("QEIdentity.verify", "if matchedTCBLevel == nil", "pcs/tcb: QE TCB level not supported", some .qeidLevel),
  ("QEIdentity.verify", "if matchedTCBLevel.Status != StatusUpToDate", "TCBOutOfDateError Kind: TCBKindEnclave", some .qeidStatus),
  ("TCBBundle.Verify", "if err(TCBBundle.verifyQEIdentity)", "pcs/tcb: failed to verify QE identity: %w", none),
  ("SignatureECDSA_P256.UnmarshalHex", "if err(hex.DecodeString)", "err", some .tcbSigHex),
  ("SignatureECDSA_P256.UnmarshalHex", "if len(b) != 64", "malformed signature", some .tcbSigHex),
  ("verifyTCBSignature", "if !sig.Verify(pk, h[:])", "pcs/tcb: TCB signature verification failed", some .tcbSig),
  ("SignedTCBInfo.open", "if err(json.Unmarshal)", "pcs/tcb: malformed TCB info body: %w", some .tcbJson),
  ("TCBInfo.validate", "switch teeType case TeeTypeSGX: if ti.ID != tcbInfoSGX", "pcs/tcb: unexpected TCB info identifier: %s", some .tcbId),
  ("TCBInfo.validate", "switch teeType case TeeTypeTDX: if ti.ID != tcbInfoTDX", "pcs/tcb: unexpected TCB info identifier: %s", some .tcbId),
  ("TCBInfo.validate", "switch teeType default", "pcs/tcb: unsupported TEE type", none),
  ("TCBInfo.validate", "if ti.Version != requiredTCBInfoVersion", "pcs/tcb: unexpected TCB info version: %d", some .tcbVersion),
  ("TCBInfo.validate", "if err(time.Parse)", "pcs/tcb: invalid issue date: %w", some .tcbIssueParse),
  ("TCBInfo.validate", "if err(time.Parse)", "pcs/tcb: invalid next update date: %w", some .tcbNextParse),
  ("TCBInfo.validate", "if issueDate.After(ts)", "pcs/tcb: TCB info issue date in the future", some .tcbFuture),
  ("TCBInfo.validate", "if ts.Sub(issueDate).Nanoseconds() > int64(policy.TCBValidityPeriod)*24*int64(time.Hour)", "pcs/tcb: TCB info expired", some .tcbExpired),
  ("TCBInfo.validate", "if ti.TCBEvaluationDataNumber < policy.MinTCBEvaluationDataNumber", "pcs/tcb: invalid TCB evaluation data number", some .tcbEvalNum),
  ("TCBInfo.validate", "if len(policy.FMSPCWhitelist) > 0 && !slices.Contains(policy.FMSPCWhitelist, ti.FMSPC)", "pcs/tcb: FMSPC is not whitelisted", some .tcbWhitelist),
  ("TCBInfo.validate", "if slices.Contains(policy.FMSPCBlacklist, ti.FMSPC)", "pcs/tcb: FMSPC is blacklisted", some .tcbBlacklist),
  ("TCBBundle.verifyTCBInfo", "if err(SignedTCBInfo.open)", "pcs/tcb: invalid TCB info: %w", none),
  ("TCBInfo.validateFMSPC", "if err(hex.DecodeString)", "pcs/tcb: malformed FMSPC: %w", some .fmspcMalformed),
  ("TCBInfo.validateFMSPC", "if !bytes.Equal(fmspc, expectedFmspc)", "pcs/tcb: FMSPC: mismatch (expected: %X got: %X)", some .fmspcMismatch),
  ("TCBBundle.verifyTCBInfo", "if err(TCBInfo.validateFMSPC)", "pcs/tcb: failed to validate FMSPC: %w", none),
  ("TCBInfo.getTCBLevel", "if matchedTCBLevel == nil", "pcs/tcb: TCB level not supported", some .levelNone),
  ("TCBInfo.getTCBLevel", "if matchedTCBLevel.Status == statusFieldMissing", "pcs/tcb: missing TCB status", some .levelNoStatus),
  ("TCBInfo.getTCBLevel", "if ti.ID == tcbInfoTDX: if tdxCompSvn == nil", "pcs/tcb: missing TDX SVN components", some .tdxNoSvn),
  ("TCBInfo.getTCBLevel", "if ti.ID == tcbInfoTDX: if tdxModuleVersion >= 1: if idx < 0", "pcs/tcb: TDX module not supported", some .tdxModuleUnsupported),
  ("TCBInfo.getTCBLevel", "if ti.ID == tcbInfoTDX: if tdxModuleVersion >= 1: if matchedModuleTCBLevel == nil", "pcs/tcb: TDX module TCB level not supported", some .tdxModuleLevel),
  ("TCBInfo.getTCBLevel", "if ti.ID == tcbInfoTDX: if tdxModuleVersion >= 1: if matchedModuleTCBLevel.Status != StatusUpToDate", "TCBOutOfDateError Kind: TCBKindEnclave", some .tdxModuleStatus),
  ("TCBInfo.validateTCBLevel", "if err(TCBInfo.getTCBLevel)", "pcs/tcb: failed to get TCB level: %w", none),
  ("TCBInfo.validateTCBLevel", "switch tcbLevel.Status case StatusUpToDate, StatusSWHardeningNeeded", "<return ok>", none),
  ("TCBInfo.validateTCBLevel", "switch tcbLevel.Status case StatusOutOfDate, StatusConfigurationNeeded, StatusOutOfDateConfigurationNeeded: if unsafeLaxVerify", "<return ok>", none),
  ("TCBInfo.validateTCBLevel", "", "TCBOutOfDateError Kind: TCBKindPlatform", some .levelStatus),
  ("TCBBundle.verifyTCBInfo", "if err(TCBInfo.validateTCBLevel)", "pcs/tcb: failed to validate TCB level: %w", none),
  ("TCBBundle.Verify", "if err(TCBBundle.verifyTCBInfo)", "pcs/tcb: failed to verify TCB info: %w", none),
  ("CertificationData_QEReport.verify", "if err(TCBBundle.Verify)", "pcs/quote: failed to verify TCB bundle: %w", none),
  ("QuoteSignatureECDSA_P256.Verify", "if err(ecdsa.ParseUncompressedPublicKey)", "pcs/quote: invalid attestation public key: %w", some .attKey),
  ("QuoteSignatureECDSA_P256.Verify", "if !qs.signature.Verify(attPk, expectedHash)", "pcs/quote: failed to verify quote signature", some .quoteSig)
]

/-- Role of a structure field in verification. -/
inductive Role
  /-- groups other fields -/
  | container
  /-- bytes that a verified signature or a compared hash covers (header, report body, QE report,
      auth data, signed JSON bodies) or the signature itself -/
  | sigInput
  /-- key material: bound through a certificate chain or through the QE report hash -/
  | key
  /-- read in a comparison that can reject -/
  | compared
  /-- part of the returned identity / report data -/
  | output
  | comparedOutput
  /-- checked when the quote is parsed (UnmarshalBinary), not in Verify -/
  | parserChecked
  /-- DOCUMENTED-UNBOUND: inside signed bytes (so a mutation breaks a signature) but never read -/
  | signedUnused
  /-- DOCUMENTED-UNBOUND: must parse as a time stamp but is never compared with the time -/
  | parsedOnly
  /-- extracted from the PCK certificate but not used by the verifier -/
  | extractedUnused
  /-- PPID certification data: such quotes are always rejected (no PCK chain) -/
  | rejected
  /-- policy input -/
  | policy
  deriving DecidableEq, Repr

def expectedFields : List (String × String × Role × List String) := [
  ("Quote", "header", .container, ["Quote.Header", "Quote.Verify"]),
  ("Quote", "reportBody", .container, ["Quote.Verify"]),
  ("Quote", "signature", .container, ["Quote.Signature", "Quote.Verify"]),
  ("QuoteHeaderV3", "qeSvn", .signedUnused, []),
  ("QuoteHeaderV3", "pceSvn", .signedUnused, []),
  ("QuoteHeaderV3", "qeVendorID", .parserChecked, ["QuoteHeaderV3.QEVendorID"]),
  ("QuoteHeaderV3", "userData", .signedUnused, []),
  ("QuoteHeaderV3", "attestationKeyType", .parserChecked, ["QuoteHeaderV3.AttestationKeyType"]),
  ("QuoteHeaderV3", "raw", .sigInput, ["QuoteHeaderV3.Raw"]),
  ("QuoteHeaderV4", "teeType", .compared, ["QuoteHeaderV4.ReportBodyLength", "QuoteHeaderV4.TeeType"]),
  ("QuoteHeaderV4", "qeVendorID", .parserChecked, ["QuoteHeaderV4.QEVendorID"]),
  ("QuoteHeaderV4", "userData", .signedUnused, []),
  ("QuoteHeaderV4", "attestationKeyType", .parserChecked, ["QuoteHeaderV4.AttestationKeyType"]),
  ("QuoteHeaderV4", "raw", .sigInput, ["QuoteHeaderV4.Raw"]),
  ("SgxReport", "cpuSvn", .signedUnused, []),
  ("SgxReport", "miscSelect", .compared, ["QEIdentity.verify"]),
  ("SgxReport", "attributes", .compared, ["QEIdentity.verify", "Quote.Verify"]),
  ("SgxReport", "mrEnclave", .output, ["SgxReport.AsEnclaveIdentity"]),
  ("SgxReport", "mrSigner", .comparedOutput, ["QEIdentity.verify", "Quote.Verify", "SgxReport.AsEnclaveIdentity"]),
  ("SgxReport", "isvProdID", .compared, ["QEIdentity.verify"]),
  ("SgxReport", "isvSvn", .compared, ["QEIdentity.verify"]),
  ("SgxReport", "reportData", .comparedOutput, ["CertificationData_QEReport.verify", "SgxReport.ReportData"]),
  ("SgxReport", "raw", .sigInput, ["CertificationData_QEReport.verify", "SgxReport.Raw"]),
  ("TdReport", "teeTcbSvn", .compared, ["CertificationData_QEReport.verify"]),
  ("TdReport", "mrSeam", .compared, ["TdxModulePolicy.Matches"]),
  ("TdReport", "mrSignerSeam", .compared, ["TdxModulePolicy.Matches", "TdxQuotePolicy.verifyTdxModule"]),
  ("TdReport", "seamAttributes", .signedUnused, []),
  ("TdReport", "tdAttributes", .compared, ["Quote.Verify"]),
  ("TdReport", "xfam", .signedUnused, []),
  ("TdReport", "mrTd", .output, ["TdReport.AsEnclaveIdentity"]),
  ("TdReport", "mrConfigID", .signedUnused, []),
  ("TdReport", "mrOwner", .signedUnused, []),
  ("TdReport", "mrOwnerConfig", .signedUnused, []),
  ("TdReport", "rtmr0", .output, ["TdReport.AsEnclaveIdentity"]),
  ("TdReport", "rtmr1", .output, ["TdReport.AsEnclaveIdentity"]),
  ("TdReport", "rtmr2", .output, ["TdReport.AsEnclaveIdentity"]),
  ("TdReport", "rtmr3", .output, ["TdReport.AsEnclaveIdentity"]),
  ("TdReport", "reportData", .output, ["TdReport.ReportData"]),
  ("TdReport", "raw", .sigInput, ["TdReport.Raw"]),
  ("QuoteSignatureECDSA_P256", "signature", .sigInput, ["QuoteSignatureECDSA_P256.Verify"]),
  ("QuoteSignatureECDSA_P256", "attestationPublicKey", .key, ["QuoteSignatureECDSA_P256.Verify"]),
  ("QuoteSignatureECDSA_P256", "qe", .container, ["QuoteSignatureECDSA_P256.CertificationData", "QuoteSignatureECDSA_P256.Verify", "QuoteSignatureECDSA_P256.VerifyPCK"]),
  ("CertificationData_QEReport", "QEReport", .sigInput, ["CertificationData_QEReport.verify"]),
  ("CertificationData_QEReport", "QEReportSignature", .sigInput, ["CertificationData_QEReport.verify"]),
  ("CertificationData_QEReport", "AuthenticationData", .sigInput, ["CertificationData_QEReport.verify"]),
  ("CertificationData_QEReport", "CertificationData", .container, ["CertificationData_QEReport.verifyCertificateChain", "QuoteSignatureECDSA_P256.CertificationData"]),
  ("CertificationData_PPID", "PPID", .rejected, []),
  ("CertificationData_PPID", "CPUSVN", .rejected, []),
  ("CertificationData_PPID", "PCESVN", .rejected, []),
  ("CertificationData_PPID", "PCEID", .rejected, []),
  ("CertificationData_PPID", "subtype", .container, ["CertificationData_PPID.CertificationDataType"]),
  ("CertificationData_PCKCertificateChain", "CertificateChain", .key, ["CertificationData_QEReport.verifyCertificateChain"]),
  ("PCKInfo", "PublicKey", .key, ["CertificationData_QEReport.verify", "CertificationData_QEReport.verifyPCK"]),
  ("PCKInfo", "FMSPC", .compared, ["CertificationData_QEReport.verify", "CertificationData_QEReport.verifyPCK"]),
  ("PCKInfo", "TCBCompSVN", .compared, ["CertificationData_QEReport.verify", "CertificationData_QEReport.verifyPCK"]),
  ("PCKInfo", "PCESVN", .compared, ["CertificationData_QEReport.verify", "CertificationData_QEReport.verifyPCK"]),
  ("PCKInfo", "CPUSVN", .extractedUnused, ["CertificationData_QEReport.verifyPCK"]),
  ("QuoteBundle", "Quote", .container, ["QuoteBundle.Verify"]),
  ("QuoteBundle", "TCB", .container, ["QuoteBundle.Verify"]),
  ("TCBBundle", "TCBInfo", .container, ["TCBBundle.verifyTCBInfo"]),
  ("TCBBundle", "QEIdentity", .container, ["TCBBundle.verifyQEIdentity"]),
  ("TCBBundle", "Certificates", .key, ["TCBBundle.getPublicKey"]),
  ("SignedTCBInfo", "TCBInfo", .sigInput, ["SignedTCBInfo.open"]),
  ("SignedTCBInfo", "Signature", .sigInput, ["SignedTCBInfo.open"]),
  ("SignedQEIdentity", "EnclaveIdentity", .sigInput, ["SignedQEIdentity.open"]),
  ("SignedQEIdentity", "Signature", .sigInput, ["SignedQEIdentity.open"]),
  ("TCBInfo", "ID", .compared, ["TCBInfo.getTCBLevel", "TCBInfo.validate"]),
  ("TCBInfo", "Version", .compared, ["TCBInfo.validate"]),
  ("TCBInfo", "IssueDate", .compared, ["TCBInfo.validate"]),
  ("TCBInfo", "NextUpdate", .parsedOnly, ["TCBInfo.validate"]),
  ("TCBInfo", "FMSPC", .compared, ["TCBInfo.validate", "TCBInfo.validateFMSPC"]),
  ("TCBInfo", "PCEID", .signedUnused, []),
  ("TCBInfo", "TCBType", .signedUnused, []),
  ("TCBInfo", "TCBEvaluationDataNumber", .compared, ["TCBInfo.validate"]),
  ("TCBInfo", "TDXModule", .signedUnused, []),
  ("TCBInfo", "TDXModuleIdentities", .compared, ["TCBInfo.getTCBLevel"]),
  ("TCBInfo", "TCBLevels", .compared, ["TCBInfo.getTCBLevel"]),
  ("TDXModule", "MRSIGNER", .signedUnused, []),
  ("TDXModule", "Attributes", .signedUnused, []),
  ("TDXModule", "AttributesMask", .signedUnused, []),
  ("TDXModuleIdentity", "ID", .compared, ["TCBInfo.getTCBLevel"]),
  ("TDXModuleIdentity", "TCBLevels", .compared, ["TCBInfo.getTCBLevel"]),
  ("TCBLevel", "TCB", .compared, ["TCBLevel.matches"]),
  ("TCBLevel", "Date", .signedUnused, []),
  ("TCBLevel", "Status", .compared, ["TCBInfo.getTCBLevel", "TCBInfo.validateTCBLevel"]),
  ("TCBLevel", "AdvisoryIDs", .signedUnused, []),
  ("TCBLevel.TCB", "PCESVN", .compared, ["TCBLevel.matches"]),
  ("TCBLevel.TCB", "SGXComponents", .compared, ["TCBLevel.matches"]),
  ("TCBLevel.TCB", "TDXComponents", .compared, ["TCBLevel.matches"]),
  ("TCBComponent", "SVN", .compared, ["TCBLevel.matches"]),
  ("TCBComponent", "Category", .signedUnused, []),
  ("TCBComponent", "Type", .signedUnused, []),
  ("QEIdentity", "ID", .compared, ["QEIdentity.validate"]),
  ("QEIdentity", "Version", .compared, ["QEIdentity.validate"]),
  ("QEIdentity", "IssueDate", .compared, ["QEIdentity.validate"]),
  ("QEIdentity", "NextUpdate", .parsedOnly, ["QEIdentity.validate"]),
  ("QEIdentity", "TCBEvaluationDataNumber", .compared, ["QEIdentity.validate"]),
  ("QEIdentity", "MiscSelect", .compared, ["QEIdentity.verify"]),
  ("QEIdentity", "MiscSelectMask", .compared, ["QEIdentity.verify"]),
  ("QEIdentity", "Attributes", .compared, ["QEIdentity.verify"]),
  ("QEIdentity", "AttributesMask", .compared, ["QEIdentity.verify"]),
  ("QEIdentity", "MRSIGNER", .compared, ["QEIdentity.verify"]),
  ("QEIdentity", "ISVProdID", .compared, ["QEIdentity.verify"]),
  ("QEIdentity", "TCBLevels", .compared, ["QEIdentity.verify"]),
  ("QEIdentity", "AdvisoryIDs", .signedUnused, []),
  ("EnclaveTCBLevel", "TCB", .compared, ["QEIdentity.verify", "TCBInfo.getTCBLevel"]),
  ("EnclaveTCBLevel", "Date", .signedUnused, []),
  ("EnclaveTCBLevel", "Status", .compared, ["QEIdentity.verify", "TCBInfo.getTCBLevel"]),
  ("EnclaveTCBLevel", "AdvisoryIDs", .signedUnused, []),
  ("EnclaveTCBLevel.TCB", "ISVSVN", .compared, ["QEIdentity.verify", "TCBInfo.getTCBLevel"]),
  ("QuotePolicy", "Disabled", .policy, ["Quote.Verify"]),
  ("QuotePolicy", "TCBValidityPeriod", .policy, ["QEIdentity.validate", "TCBInfo.validate"]),
  ("QuotePolicy", "MinTCBEvaluationDataNumber", .policy, ["QEIdentity.validate", "TCBInfo.validate"]),
  ("QuotePolicy", "FMSPCWhitelist", .policy, ["TCBInfo.validate"]),
  ("QuotePolicy", "FMSPCBlacklist", .policy, ["TCBInfo.validate"]),
  ("QuotePolicy", "TDX", .policy, ["Quote.Verify"]),
  ("TdxQuotePolicy", "AllowedTdxModules", .policy, ["TdxQuotePolicy.verifyTdxModule"]),
  ("TdxModulePolicy", "MrSeam", .policy, ["TdxModulePolicy.Matches"]),
  ("TdxModulePolicy", "MrSignerSeam", .policy, ["TdxModulePolicy.Matches"])
]

/-- Expected statement skeleton of (*TEEFeaturesSGX).ApplyDefaultConstraints (go/common/node/tee.go):
under `DefaultPolicy != nil`, three INDEPENDENT steps at the same depth - allocate the policy if
nil, fill IAS if unset, fill PCS if unset and the feature is on - exactly the three `let`s of
`OasisModel.Pcs.applyDefaults`. -/
def expectedApplyDefaults : List (String × String) := [
  ("if@0", "fs.DefaultPolicy != nil"),
  ("if@1", "sc.Policy == nil"),
  ("assign@2", "sc.Policy = &quote.Policy{}"),
  ("if@1", "sc.Policy.IAS == nil"),
  ("assign@2", "sc.Policy.IAS = fs.DefaultPolicy.IAS"),
  ("if@1", "sc.Policy.PCS == nil && fs.PCS"),
  ("assign@2", "sc.Policy.PCS = fs.DefaultPolicy.PCS"),
  ("if@0", "sc.MaxAttestationAge == 0"),
  ("assign@1", "sc.MaxAttestationAge = fs.DefaultMaxAttestationAge")
]

/-- A role that claims a read must have one in `Verify`-side code and vice versa. -/
def roleConsistent (r : Role) (uses : List String) : Bool :=
  match r with
  | .signedUnused | .rejected => uses.isEmpty
  | .parserChecked | .container | .sigInput | .key | .compared | .output | .comparedOutput
  | .parsedOnly | .extractedUnused | .policy => !uses.isEmpty

/-- The stages of the model in declaration order (= order of the Go code). -/
def stageOrder : List Stage := [
  .disabled, .bodyMismatch, .mrSignerBlacklisted, .debugMismatch, .tdxNotAllowed, .tdxModule,
  .teeUnsupported,
  .noChain, .chainLen, .chainVerify, .chainCount, .chainRoot, .pckNonEcdsa, .pckExt, .pckNoFmspc,
  .qeSig, .qeData, .noTcb,
  .tcbPem, .tcbChainLen, .tcbChainVerify, .tcbChainCount, .tcbChainRoot, .tcbNonEcdsa,
  .qeidSigHex, .qeidSig, .qeidJson, .qeidId, .qeidVersion, .qeidIssueParse, .qeidNextParse,
  .qeidFuture, .qeidExpired, .qeidEvalNum,
  .qeidMrSignerMalformed, .qeidMrSigner, .qeidProdId, .qeidMiscMalformed, .qeidMisc,
  .qeidAttrMalformed, .qeidAttr, .qeidLevel, .qeidStatus,
  .tcbSigHex, .tcbSig, .tcbJson, .tcbId, .tcbVersion, .tcbIssueParse, .tcbNextParse,
  .tcbFuture, .tcbExpired, .tcbEvalNum, .tcbWhitelist, .tcbBlacklist,
  .fmspcMalformed, .fmspcMismatch,
  .levelNone, .levelNoStatus, .tdxNoSvn, .tdxModuleUnsupported, .tdxModuleLevel, .tdxModuleStatus,
  .levelStatus,
  .attKey, .quoteSig]

/-- Order-preserving removal of repeated stages. -/
def dedup : List Stage → List Stage → List Stage
  | [], acc => acc.reverse
  | s :: rest, acc => if acc.contains s then dedup rest acc else dedup rest (s :: acc)

end OasisProofs.C18.Expect
