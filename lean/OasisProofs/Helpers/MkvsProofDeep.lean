import OasisProofs.Helpers.MkvsProofComplete
/-
C04, the depth bound: a canonical tree whose keys form a chain of proper prefixes
(00, 0000, 000000, …) is as deep as it has keys; the honest lookup proof for its deepest key is
exactly that deep, so beyond `maxProofDepth` the verifier rejects it.
-/
namespace OasisProofs.MkvsProof
open OasisModel.Mkvs OasisProofs.Mkvs

def zeros (n : Nat) : Bytes := List.replicate n 0

/-- Keys `zeros i, …, zeros (i+m)` (values `[1]`): `m` nested internal nodes and a final leaf. -/
def chainFrom (i : Nat) : Nat → Trie
  | 0 => .leaf (zeros i) [1]
  | m + 1 => .node (List.replicate 8 false) (some (zeros i, [1])) (chainFrom (i + 1) m) .nil

theorem toBits_zeros (n : Nat) : toBits (zeros n) = List.replicate (8 * n) false := by
  induction n with
  | zero => rfl
  | succ n ih =>
    have : zeros (n + 1) = 0 :: zeros n := rfl
    rw [this, toBits_cons, ih]
    have : byteBits 0 = List.replicate 8 false := by decide
    rw [this, List.replicate_append_replicate]
    congr 1; omega

theorem chain_keys (m : Nat) : ∀ (i : Nat), ∀ kv ∈ (chainFrom i m).toList,
    ∃ j, i ≤ j ∧ j ≤ i + m ∧ kv = (zeros j, [1]) := by
  induction m with
  | zero => intro i kv h; simp [chainFrom, Trie.toList] at h; exact ⟨i, by omega, by omega, h⟩
  | succ m ih =>
    intro i kv h
    simp only [chainFrom, Trie.toList, Option.toList, List.append_nil, List.cons_append, List.nil_append,
      List.mem_cons] at h
    rcases h with h | h
    · exact ⟨i, by omega, by omega, h⟩
    · obtain ⟨j, h1, h2, h3⟩ := ih (i + 1) kv h
      exact ⟨j, by omega, by omega, h3⟩

theorem chain_mem (m : Nat) : ∀ (i : Nat), (zeros (i + m), [1]) ∈ (chainFrom i m).toList := by
  induction m with
  | zero => intro i; simp [chainFrom, Trie.toList]
  | succ m ih =>
    intro i
    simp only [chainFrom, Trie.toList, Option.toList, List.append_nil, List.cons_append, List.nil_append,
      List.mem_cons]
    right
    have := ih (i + 1)
    rw [show i + 1 + m = i + (m + 1) by omega] at this
    exact this

theorem replicate_prefix_toBits_zeros {a j : Nat} (h : a ≤ 8 * j) :
    List.replicate a false <+: toBits (zeros j) := by
  rw [toBits_zeros]
  refine ⟨List.replicate (8 * j - a) false, ?_⟩
  rw [List.replicate_append_replicate]; congr 1; omega

theorem chainFrom_ne_nil (i m : Nat) : chainFrom i m ≠ .nil := by
  cases m <;> simp [chainFrom]

/-- The chain is in canonical form at its path. -/
theorem chain_wfAt (m : Nat) : ∀ (i : Nat), WFAt (List.replicate (8 * i) false) (chainFrom (i + 1) m) := by
  induction m with
  | zero => intro i; exact replicate_prefix_toBits_zeros (by omega)
  | succ m ih =>
    intro i
    have hp : List.replicate (8 * i) false ++ List.replicate 8 false = List.replicate (8 * (i + 1)) false := by
      rw [List.replicate_append_replicate]; congr 1
    refine ⟨?_, ?_, ?_, trivial, ?_, ?_⟩
    · intro kv hkv
      simp only [Option.some.injEq] at hkv
      rw [← hkv, hp]; exact toBits_zeros _
    · rw [hp]; exact ih (i + 1)
    · intro kv hkv
      obtain ⟨j, h1, _, h3⟩ := chain_keys m (i + 1 + 1) kv hkv
      rw [h3, hp]
      have : List.replicate (8 * (i + 1)) false ++ [false] = List.replicate (8 * (i + 1) + 1) false := by
        rw [List.replicate_succ']
      rw [this]
      exact replicate_prefix_toBits_zeros (by omega)
    · intro kv hkv; simp [Trie.toList] at hkv
    · have : (chainFrom (i + 1 + 1) m).isNil = false := isNil_false_of_ne (chainFrom_ne_nil _ _)
      rw [this]; simp [Trie.isNil]

theorem chain_wf (m : Nat) : WF (chainFrom 1 m) := chain_wfAt m 0

theorem chain_contents_bounded (m : Nat) (hm : 1 + m < 2 ^ 13) : ContentsBounded (chainFrom 1 m).toList := by
  intro kv hkv
  obtain ⟨j, _, h2, h3⟩ := chain_keys m 1 kv hkv
  rw [h3]
  simp only [zeros, List.length_replicate, List.length_cons, List.length_nil]
  omega

/-- One descent step of the lookup builder to the left child. -/
theorem inclGet_node_left (ver : Nat) (sib : Bool) (k : Bytes) (h : Bytes) (lab : Bits)
    (lf : Option (Bytes × Bytes)) (hlf : Bytes) (l r : HTrie) (d : Nat) (b : Builder) (tl : Bits)
    (hlen : d + lab.length < (toBits k).length) (hd : (toBits k).drop (d + lab.length) = false :: tl) :
    inclGet ver sib k (.node h lab lf hlf l r) d false b =
      (inclGet ver sib k l (d + lab.length) false (b.includeNode ver h lab lf)).includeSiblings ver sib lf hlf r := by
  simp only [inclGet, Bool.false_eq_true, if_false]
  rw [if_neg (by omega), if_neg (by omega), hd]

/-- The honest lookup proof for the deepest key of the chain includes the whole chain. -/
theorem chain_proofDepth (H : Bytes → Bytes) (ver : Nat) (sib : Bool) (incl : List Bytes) (m : Nat) :
    ∀ (i n : Nat) (b : Builder), n = i + 1 + m →
      (∀ x ∈ (inclGet ver sib (zeros n) (annotate H (chainFrom (i + 1) m)) (8 * i) false b).incl, x ∈ incl) →
      proofDepth ver incl (annotate H (chainFrom (i + 1) m)) = m := by
  induction m with
  | zero => intro i n b _ _; rfl
  | succ m ih =>
    intro i n b hn hsub
    simp only [chainFrom, annotate] at hsub ⊢
    obtain ⟨nh, hnh⟩ : ∃ nh, nh = H (nodeEnc (List.replicate 8 false) (hashLeafOpt H (some (zeros (i + 1), [1])))
        ((annotate H (chainFrom (i + 1 + 1) m)).hash (H [])) (HTrie.nil.hash (H []))) := ⟨_, rfl⟩
    rw [← hnh] at hsub ⊢
    have hbits : toBits (zeros n) = List.replicate (8 * n) false := toBits_zeros n
    have hstep := inclGet_node_left ver sib (zeros n) nh
      (List.replicate 8 false) (some (zeros (i + 1), [1])) (hashLeafOpt H (some (zeros (i + 1), [1])))
      (annotate H (chainFrom (i + 1 + 1) m)) .nil (8 * i) b (List.replicate (8 * n - (8 * i + 8) - 1) false)
      (by rw [hbits]; simp; omega)
      (by
        rw [hbits, List.drop_replicate]
        simp only [List.length_replicate]
        rw [← List.replicate_succ]
        congr 1; omega)
    rw [hstep] at hsub
    simp only [List.length_replicate] at hsub
    have hm : ∀ x ∈ (inclGet ver sib (zeros n) (annotate H (chainFrom (i + 1 + 1) m)) (8 * (i + 1)) false
        (b.includeNode ver nh (List.replicate 8 false) (some (zeros (i + 1), [1])))).incl, x ∈ incl := by
      intro x hx
      apply hsub
      apply includeSiblings_mono
      rw [show 8 * i + 8 = 8 * (i + 1) by omega]
      exact hx
    have hrec := ih (i + 1) n _ (by omega) hm
    have hin : incl.contains nh = true := by
      have : nh ∈ incl := hm _ (inclGet_mono _ _ _ _ _ _ _ _ (mem_include_self _ _ _))
      simpa using this
    simp only [proofDepth, hin, if_true, hrec]
    omega

end OasisProofs.MkvsProof
