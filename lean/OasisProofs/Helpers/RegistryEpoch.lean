import OasisProofs.Helpers.RegistryNode
/-
C17 helper lemmas, part 4: the epoch transition (node expiry and removal with the stake claim)
never aborts under the invariant and preserves it.
-/
namespace OasisProofs.Registry
open OasisModel.Registry

/-- The state the accumulator of the expiry loop stands for (claims live in the cache). -/
def accState (a : ExpAcc) : State := { a.s with claims := a.claims }

structure AccInv (a : ExpAcc) : Prop where
  ok : a.ok = true
  inv : Inv (accState a)

theorem Inv.set_status {s : State} (h : Inv s) (id : Key) (st : Status) :
    Inv { s with status := s.status.set id st } := by
  refine { toIndexInv := h.toIndexInv.transfer rfl rfl rfl rfl rfl rfl, cl_sound := h.cl_sound,
           cl_compl := h.cl_compl, st_nodes := ?_, nodes_nodup := h.nodes_nodup }
  intro id' n hn
  simp only [Map.get_set]
  by_cases e : id = id'
  · exact ⟨st, by simp [e]⟩
  · simp only [e, if_false]; exact h.st_nodes id' n hn

/-- Removing a registered node together with its stake claim preserves the invariant. -/
theorem removeNode_inv (s : State) (n : Node) (h : Inv s) (hn : s.nodes.get n.id = some n) :
    Inv { removeNode s n with claims := s.claims.del (.ent n.entity, .node n.id) } := by
  have hidx := removeNode_index s n h.toIndexInv hn
  refine { toIndexInv := hidx.transfer rfl rfl rfl rfl rfl rfl, cl_sound := ?_, cl_compl := ?_,
           st_nodes := ?_, nodes_nodup := ?_ }
  · intro a c ths hc
    simp only [Map.get_del] at hc
    by_cases hp : (Addr.ent n.entity, Claim.node n.id) = (a, c)
    · simp [hp] at hc
    · simp only [hp, if_false] at hc
      have hi := h.cl_sound a c ths hc
      cases c with
      | entity => exact hi
      | node id =>
        obtain ⟨m, hm, ha, ht⟩ := hi
        have hne : ¬ n.id = id := by
          intro e; subst e; rw [hn] at hm; cases hm; exact hp (by rw [ha])
        exact ⟨m, by simp [removeNode, Map.get_del, hne, hm], ha, ht⟩
      | runtime r => exact hi
  · intro a c ths hi
    simp only [Map.get_del]
    cases c with
    | entity =>
      have hp : ¬ (Addr.ent n.entity, Claim.node n.id) = (a, Claim.entity) := by intro hh; cases hh
      simp only [hp, if_false]; exact h.cl_compl a .entity ths hi
    | node id =>
      obtain ⟨m, hm, ha, ht⟩ := hi
      simp only [removeNode, Map.get_del] at hm
      by_cases e : n.id = id
      · simp [e] at hm
      · simp only [e, if_false] at hm
        have hp : ¬ (Addr.ent n.entity, Claim.node n.id) = (a, Claim.node id) := by
          intro hh; cases hh; exact e rfl
        simp only [hp, if_false]; exact h.cl_compl a (.node id) ths ⟨m, hm, ha, ht⟩
    | runtime r =>
      have hp : ¬ (Addr.ent n.entity, Claim.node n.id) = (a, Claim.runtime r) := by intro hh; cases hh
      simp only [hp, if_false]; exact h.cl_compl a (.runtime r) ths hi
  · intro id m hm
    simp only [removeNode, Map.get_del] at hm ⊢
    by_cases e : n.id = id
    · simp [e] at hm
    · simp only [e, if_false] at hm ⊢; exact h.st_nodes id m hm
  · exact nodup_keys_del _ _ h.nodes_nodup

theorem markExpired_nodes (s : State) (id : Key) (st : Status) : (markExpired s id st).nodes = s.nodes := by
  unfold markExpired; split <;> rfl

theorem markExpired_params (s : State) (id : Key) (st : Status) : (markExpired s id st).params = s.params := by
  unfold markExpired; split <;> rfl

theorem markExpired_claims (s : State) (id : Key) (st : Status) : (markExpired s id st).claims = s.claims := by
  unfold markExpired; split <;> rfl

theorem markExpired_inv {s : State} (h : Inv s) (id : Key) (st : Status) : Inv (markExpired s id st) := by
  unfold markExpired
  split
  · exact h
  · exact h.set_status id _

theorem accState_markExpired (a : ExpAcc) (id : Key) (st : Status) :
    accState { a with s := markExpired a.s id st } = markExpired (accState a) id st := by
  unfold markExpired accState
  split <;> rfl

theorem expireOne_acc (e : Nat) (a : ExpAcc) (n : Node) (hA : AccInv a) (hn : a.s.nodes.get n.id = some n) :
    AccInv (expireOne e a n) ∧
    (∀ id, id ≠ n.id → (expireOne e a n).s.nodes.get id = a.s.nodes.get id) := by
  have hok := hA.ok
  have hI := hA.inv
  unfold expireOne
  simp only [hok, Bool.not_true, Bool.false_eq_true, if_false]
  split
  · exact ⟨hA, fun _ _ => rfl⟩
  · obtain ⟨st, hst⟩ := hI.st_nodes n.id n hn
    have hst' : a.s.status.get n.id = some st := hst
    simp only [hst']
    have hI1 : Inv (accState { a with s := markExpired a.s n.id st }) := by
      rw [accState_markExpired]; exact markExpired_inv hI n.id st
    have hn1 : (markExpired a.s n.id st).nodes.get n.id = some n := by rw [markExpired_nodes]; exact hn
    split
    · exact ⟨⟨rfl, hI1⟩, fun id _ => by simp only [markExpired_nodes]⟩
    · split
      · have hcl : a.claims.has (Addr.ent n.entity, Claim.node n.id) = true :=
          has_eq_true.2 ⟨_, hI.cl_compl _ _ _ ⟨n, hn, rfl, rfl⟩⟩
        simp only [hcl, if_true]
        refine ⟨⟨rfl, ?_⟩, ?_⟩
        · exact removeNode_inv _ n hI1 hn1
        · intro id hid
          simp only [removeNode, Map.get_del]
          have : ¬ n.id = id := fun h => hid h.symm
          simp only [this, if_false, markExpired_nodes]
      · exact ⟨⟨rfl, hI1⟩, fun id _ => by simp only [markExpired_nodes]⟩

theorem expireFold_acc (e : Nat) (l : List Node) (a : ExpAcc) (hA : AccInv a)
    (hl : ∀ n, n ∈ l → a.s.nodes.get n.id = some n) (hnd : (l.map (·.id)).Nodup) :
    AccInv (l.foldl (expireOne e) a) := by
  induction l generalizing a with
  | nil => exact hA
  | cons n l ih =>
    simp only [List.foldl_cons]
    obtain ⟨hA', hsame⟩ := expireOne_acc e a n hA (hl n (by simp))
    simp only [List.map_cons, List.nodup_cons] at hnd
    apply ih _ hA'
    · intro m hm
      have hne : m.id ≠ n.id := by
        intro hh
        exact hnd.1 (by rw [← hh]; exact List.mem_map.2 ⟨m, hm, rfl⟩)
      rw [hsame m.id hne]
      exact hl m (List.mem_cons_of_mem _ hm)
    · exact hnd.2

theorem perm_insertSorted (n : Node) (l : List Node) : (insertSorted n l).Perm (n :: l) := by
  induction l with
  | nil => exact List.Perm.refl _
  | cons m ms ih =>
    simp only [insertSorted]
    split
    · exact List.Perm.refl _
    · exact ((List.Perm.cons m ih).trans (List.Perm.swap n m ms))

theorem perm_nodeList (s : State) : (nodeList s).Perm (s.nodes.map (·.2)) := by
  unfold nodeList
  induction s.nodes.map (·.2) with
  | nil => exact List.Perm.refl _
  | cons m ms ih =>
    simp only [List.foldr_cons]
    exact (perm_insertSorted m _).trans (List.Perm.cons m ih)

theorem nodeList_spec (s : State) (h : Inv s) :
    (∀ n, n ∈ nodeList s → s.nodes.get n.id = some n) ∧ ((nodeList s).map (·.id)).Nodup := by
  have hp := perm_nodeList s
  have hval : ∀ n, n ∈ s.nodes.map (·.2) → s.nodes.get n.id = some n := by
    intro n hn
    obtain ⟨p, hp', rfl⟩ := List.mem_map.1 hn
    obtain ⟨k, m⟩ := p
    have hg := get_of_mem h.nodes_nodup hp'
    have := h.node_id k m hg
    simp only []
    rw [this]; exact hg
  refine ⟨fun n hn => hval n (hp.mem_iff.1 hn), ?_⟩
  have hids : (s.nodes.map (·.2)).map (·.id) = Map.keys s.nodes := by
    unfold Map.keys
    rw [List.map_map]
    apply List.map_congr_left
    intro p hp'
    obtain ⟨k, m⟩ := p
    exact h.node_id k m (get_of_mem h.nodes_nodup hp')
  have := (hp.map (·.id)).nodup_iff
  rw [this, hids]
  exact h.nodes_nodup

theorem Inv.set_epoch {s : State} (h : Inv s) (e : Nat) : Inv { s with epoch := e } :=
  { toIndexInv := h.toIndexInv.transfer rfl rfl rfl rfl rfl rfl, cl_sound := h.cl_sound, cl_compl := h.cl_compl,
    st_nodes := h.st_nodes, nodes_nodup := h.nodes_nodup }

/-- Under the invariant an epoch transition never aborts, and preserves the invariant. -/
theorem epochTransition_spec (s : State) (e : Nat) (h : Inv s) :
    (epochTransition s e).2 = .ok ∧ Inv (epochTransition s e).1 := by
  have h0 := h.set_epoch e
  obtain ⟨hl, hnd⟩ := nodeList_spec _ h0
  have hA := expireFold_acc e (nodeList { s with epoch := e })
    { s := { s with epoch := e }, claims := s.claims, ok := true } ⟨rfl, h0⟩ hl hnd
  unfold epochTransition
  simp only [hA.ok, if_true]
  exact ⟨trivial, hA.inv⟩

/-! ### node status transactions and environment steps -/

theorem unfreezeNode_spec (s : State) (t id : Key) :
    (unfreezeNode s t id).1 = s ∨
    ∃ n st, s.nodes.get id = some n ∧ t = n.entity ∧ s.status.get id = some st ∧ st.freezeEndTime ≤ s.epoch ∧
      unfreezeNode s t id = ({ s with status := s.status.set id { st with freezeEndTime := 0 } }, .ok) := by
  unfold unfreezeNode
  split
  · exact Or.inl rfl
  · rename_i n hn
    split
    · exact Or.inl rfl
    · rename_i ht
      split
      · exact Or.inl rfl
      · rename_i st hst
        split
        · exact Or.inl rfl
        · rename_i hf
          exact Or.inr ⟨n, st, hn, by simpa using ht, hst, by omega, rfl⟩

theorem unfreezeNode_inv (s : State) (t id : Key) (h : Inv s) : Inv (unfreezeNode s t id).1 := by
  rcases unfreezeNode_spec s t id with e | ⟨_, _, _, _, _, _, e⟩
  · rw [e]; exact h
  · rw [e]; exact h.set_status id _

theorem freezeNode_spec (s : State) (id : Key) (u : Nat) :
    freezeNode s id u = s ∨
    ∃ st, s.status.get id = some st ∧ freezeNode s id u = { s with status := s.status.set id { st with freezeEndTime := u } } := by
  unfold freezeNode
  split
  · exact Or.inl rfl
  · rename_i st hst; exact Or.inr ⟨st, hst, rfl⟩

theorem freezeNode_inv (s : State) (id : Key) (u : Nat) (h : Inv s) : Inv (freezeNode s id u) := by
  rcases freezeNode_spec s id u with e | ⟨_, _, e⟩
  · rw [e]; exact h
  · rw [e]; exact h.set_status id _

theorem unfreezeNode_frame (s : State) (t id : Key) :
    (unfreezeNode s t id).1.entities = s.entities ∧ (unfreezeNode s t id).1.nodes = s.nodes ∧
    (unfreezeNode s t id).1.runtimes = s.runtimes ∧ (unfreezeNode s t id).1.claims = s.claims := by
  rcases unfreezeNode_spec s t id with e | ⟨_, _, _, _, _, _, e⟩ <;> rw [e] <;> exact ⟨rfl, rfl, rfl, rfl⟩

theorem freezeNode_frame (s : State) (id : Key) (u : Nat) :
    (freezeNode s id u).entities = s.entities ∧ (freezeNode s id u).nodes = s.nodes ∧
    (freezeNode s id u).runtimes = s.runtimes ∧ (freezeNode s id u).claims = s.claims := by
  rcases freezeNode_spec s id u with e | ⟨_, _, e⟩ <;> rw [e] <;> exact ⟨rfl, rfl, rfl, rfl⟩

theorem setBalance_inv (s : State) (a : Addr) (v : Nat) (h : Inv s) : Inv (setBalance s a v) :=
  { toIndexInv := h.toIndexInv.transfer rfl rfl rfl rfl rfl rfl, cl_sound := h.cl_sound, cl_compl := h.cl_compl,
    st_nodes := h.st_nodes, nodes_nodup := h.nodes_nodup }

end OasisProofs.Registry
